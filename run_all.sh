#!/bin/bash
# runs the quick (or given) tier of every check found in checks/*.json; prints a summary
tier=${1:-quick}
cd /verif
for f in checks/C*.json; do
  id=$(basename $f .json); id=${id:0:3}
  echo $id
done | sort -u | while read id; do
  s=$(date +%s)
  timeout 3000 ./bin/gosym check $id --tier $tier > /tmp/all_$id.log 2>&1
  rc=$?
  e=$(date +%s)
  echo "$id exit=$rc time=$((e-s))s $(grep -c '^KNOWN-FINDING' /tmp/all_$id.log) known, $(grep -c '^VIOLATION' /tmp/all_$id.log) viol, $(grep -c '^INCONCLUSIVE' /tmp/all_$id.log) inconcl"
done
