#!/bin/bash
# creates an isolated working copy for a harness author: /tmp/vw/<name>/{verif files, repo worktree}
set -e
n=$1
d=/tmp/vw/$n
rm -rf $d; mkdir -p $d
rsync -a --exclude .git --exclude .work --exclude replays --exclude bin /verif/ $d/
git -C /repo worktree add --detach $d/repo HEAD >/dev/null 2>&1
mkdir -p $d/bin $d/replays $d/.work
export GOFLAGS=-mod=mod GOPROXY=off GOSUMDB=off GOTOOLCHAIN=local
(cd $d/engine && go build -o ../bin/gosym .)
echo $d
