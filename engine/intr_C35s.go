package main

// Intrinsics added while strengthening C35 (pkg/auth) after seeded changes:
//
//  * strings.ToLower / strings.ToUpper: exact on concrete strings (the real
//    function is run); on strings with symbolic bytes the ASCII case mapping is
//    applied byte by byte (length preserved). That is exactly what the real
//    functions do on ASCII strings; for bytes >= 0x80 the real functions decode
//    UTF-8 (multi-byte case pairs, U+FFFD for invalid sequences, possibly a
//    different length), which is NOT modelled: if the path condition allows any
//    byte >= 0x80 the path stops as UNSUPPORTED (never guessed).
//
//  * (time.Time).Unix, exact: the engine holds a time.Time as its UnixNano
//    value ns (signed 64 bit). Unix() = floor(ns / 1e9):
//      - definition (c35sUnixDef): fresh q, r with ns = q*1e9 + r,
//        0 <= r < 1e9, q of the sign class of ns within the range in which
//        q*1e9 + r cannot wrap ambiguously (ns >= 0: 0 <= q <= 9223372036;
//        ns < 0: -9223372037 <= q <= -1), which makes q unique. The
//        multiplication is by a CONSTANT. q, r are named after the term ns;
//        between quotients defined on one path monotonicity is stated
//        explicitly (ns1 <= ns2 => q1 <= q2);
//      - an instant that was written and read back byte by byte
//        (binary.PutUint64 / Uint64) is recognised as the original term;
//      - rest + 1e9*d1 (+ 1e9*d2) is split without a new division when the
//        path condition entails that nothing wraps (c35sTimeUnix).
//    The earlier model (a fresh symbol between ns>>30 and ns>>29, not
//    even a function of ns) was sound for proofs but gave spurious
//    counter-models. The exact model below replaced it.

import (
	"fmt"
	"strings"
	"sync"

	"golang.org/x/tools/go/ssa"
)

const c35sNsPerSec = 1_000_000_000

// c35sFloorDiv: floor(a / b) for b > 0.
func c35sFloorDiv(a, b int64) int64 {
	q := a / b
	if a%b < 0 {
		q--
	}
	return q
}

// c35sUnconcat: concat(extract(x,63,56), ..., extract(x,7,0)) = x (an instant
// that went through binary.PutUint64 / Uint64 byte by byte).
func c35sUnconcat(t *Term) *Term {
	if t.op != OConcat {
		return t
	}
	var leaves []*Term
	var walk func(x *Term)
	walk = func(x *Term) {
		if x.op == OConcat {
			walk(x.args[0])
			walk(x.args[1])
			return
		}
		leaves = append(leaves, x)
	}
	walk(t)
	var base *Term
	next := t.sort.W - 1
	for _, l := range leaves {
		if l.op != OExtract || l.hi != next {
			return t
		}
		if base == nil {
			base = l.args[0]
		} else if l.args[0] != base {
			return t
		}
		next = l.lo - 1
	}
	if next != -1 || base == nil || base.sort != t.sort {
		return t
	}
	return base
}

// c35sUnixEnt: a quotient defined on some path of a worker; it is live on the
// current path iff its defining conjunct is still at position pos of the path
// condition (compared through the hash chain of the path condition).
type c35sUnixEnt struct {
	ns, q *Term
	pos   int
	h     [2]uint64
}

var c35sUnixTab sync.Map // *Worker -> *[]c35sUnixEnt

func c35sUnixLive(w *Worker) (*[]c35sUnixEnt, []c35sUnixEnt) {
	var tab *[]c35sUnixEnt
	if v, ok := c35sUnixTab.Load(w); ok {
		tab = v.(*[]c35sUnixEnt)
	} else {
		tab = &[]c35sUnixEnt{}
		c35sUnixTab.Store(w, tab)
	}
	var live []c35sUnixEnt
	for _, e := range *tab {
		if e.pos < len(w.pcH) && w.pcH[e.pos] == e.h && w.pc[e.pos] != nil {
			live = append(live, e)
		}
	}
	*tab = append((*tab)[:0], live...) // entries of abandoned paths are dropped
	return tab, live
}

// c35sUnixDef: q = floor(ns / 1e9) by definition: fresh q, r (named after the
// term) with ns = q*1e9 + r, 0 <= r < 1e9 and q in the range in which this has
// exactly one solution modulo 2^64. Between the quotients defined on the same
// path the monotonicity of floor is stated explicitly (ns1 <= ns2 => q1 <= q2):
// it follows from the definitions, but a bit-blasting solver does not see it
// through two multipliers.
func c35sUnixDef(w *Worker, ns *Term) *Term {
	c := w.ctx
	if s, ok := ns.ConstS(); ok {
		return c.BVConst(uint64(c35sFloorDiv(s, c35sNsPerSec)), 64)
	}
	tab, live := c35sUnixLive(w)
	for _, e := range live {
		if e.ns == ns {
			return e.q
		}
	}
	q := c.Var(fmt.Sprintf("aux:unixq!%d", ns.id), BV(64))
	r := c.Var(fmt.Sprintf("aux:unixr!%d", ns.id), BV(64))
	k := func(v int64) *Term { return c.BVConst(uint64(v), 64) }
	z := k(0)
	cs := []*Term{
		c.Eq(ns, c.Add(c.Mul(q, k(c35sNsPerSec)), r)),
		c.ULt(r, k(c35sNsPerSec)),
		c.Implies(c.SGe(ns, z), c.And(c.SGe(q, z), c.SLe(q, k(9223372036)))),
		c.Implies(c.SLt(ns, z), c.And(c.SGe(q, k(-9223372037)), c.SLe(q, k(-1)))),
		// redundant (2^29 < 1e9 < 2^30): ties the magnitude of q to that of ns
		// without going through the multiplier
		c.Implies(c.SGe(ns, z), c.And(c.UGe(q, c.LShr(ns, k(30))), c.ULe(q, c.LShr(ns, k(29))))),
	}
	for _, e := range live {
		cs = append(cs,
			c.Implies(c.SLe(e.ns, ns), c.SLe(e.q, q)),
			c.Implies(c.SLe(ns, e.ns), c.SLe(q, e.q)))
	}
	def := c.And(cs...)
	if def.IsTrue() || def.IsFalse() {
		w.addPC(def)
		return q
	}
	pos := len(w.pc)
	w.addPC(def)
	if len(w.pc) == pos+1 && len(*tab) < 32 {
		*tab = append(*tab, c35sUnixEnt{ns: ns, q: q, pos: pos, h: w.pcH[pos]})
	}
	return q
}

// c35sTimeUnix: exact floor(ns / 1e9). Instants of the shape
//
//	rest + 1e9*d1 (+ 1e9*d2)
//
// (a clock reading composed of seconds and nanoseconds, an instant plus a
// number of seconds) are split WITHOUT a division when the path condition
// entails that nothing wraps: d_i in [-2^31, 2^31) and either 0 <= rest < 1e9
// (then floor = d1 + d2) or rest in [-2^62, 2^62) (then floor = floor(rest/1e9)
// + d1 + d2, by definition of floor). Everything else: definition.
func c35sTimeUnix(w *Worker, fr *frame, a []Value, fn *ssa.Function) Value {
	c := w.ctx
	ns := c35sUnconcat(w.timeNS(a[0]))
	if _, ok := ns.ConstS(); ok {
		return c35sUnixDef(w, ns)
	}
	var ds, rest []*Term
	var walk func(x *Term)
	walk = func(x *Term) {
		x = c35sUnconcat(x)
		switch {
		case x.op == OBvAdd:
			walk(x.args[0])
			walk(x.args[1])
		case x.op == OBvMul && x.args[1].op == OConst && x.args[1].cv == c35sNsPerSec:
			ds = append(ds, x.args[0])
		case x.op == OBvMul && x.args[0].op == OConst && x.args[0].cv == c35sNsPerSec:
			ds = append(ds, x.args[1])
		default:
			rest = append(rest, x)
		}
	}
	walk(ns)
	if len(ds) == 0 || len(ds) > 2 {
		return c35sUnixDef(w, ns)
	}
	k := func(v int64) *Term { return c.BVConst(uint64(v), 64) }
	var conds []*Term
	sum := k(0)
	for _, d := range ds {
		conds = append(conds, c.SGe(d, k(-(1<<31))), c.SLt(d, k(1<<31)))
		sum = c.Add(sum, d)
	}
	r := k(0)
	for _, x := range rest {
		r = c.Add(r, x)
	}
	small := c.ULt(r, k(c35sNsPerSec))
	if !w.feasible(c.Not(c.And(append(append([]*Term{}, conds...), small)...))) {
		return sum
	}
	wide := c.And(c.SGe(r, k(-(1<<62))), c.SLt(r, k(1<<62)))
	if !w.feasible(c.Not(c.And(append(append([]*Term{}, conds...), wide)...))) {
		return c.Add(c35sUnixDef(w, r), sum)
	}
	return c35sUnixDef(w, ns)
}

func c35sCase(lower bool) intrinsic {
	name := "strings.ToUpper"
	if lower {
		name = "strings.ToLower"
	}
	return func(w *Worker, fr *frame, a []Value, fn *ssa.Function) Value {
		s := a[0].(StringV)
		if s.Opaque != 0 {
			w.unsupported("%s of an opaque string", name)
		}
		c := w.ctx
		if cs, ok := s.Concrete(); ok {
			if lower {
				return strV(c, strings.ToLower(cs))
			}
			return strV(c, strings.ToUpper(cs))
		}
		k8 := func(v int) *Term { return c.BVConst(uint64(v), 8) }
		var nonASCII []*Term
		for _, b := range s.B {
			if u, ok := b.ConstU(); ok {
				if u >= 0x80 {
					w.unsupported("%s of a string with a non-ASCII byte and symbolic bytes (only the ASCII case mapping is modelled)", name)
				}
				continue
			}
			nonASCII = append(nonASCII, c.UGe(b, k8(0x80)))
		}
		if len(nonASCII) > 0 && w.feasible(c.Or(nonASCII...)) {
			w.unsupported("%s of a string whose symbolic bytes may be >= 0x80 (only the ASCII case mapping is modelled; constrain the bytes to ASCII)", name)
		}
		w.note(name + " on symbolic bytes: ASCII case mapping per byte (all bytes are < 0x80 on the path)")
		out := make([]*Term, len(s.B))
		for i, b := range s.B {
			if lower {
				isU := c.And(c.UGe(b, k8('A')), c.ULe(b, k8('Z')))
				out[i] = c.Ite(isU, c.Add(b, k8('a'-'A')), b)
			} else {
				isL := c.And(c.UGe(b, k8('a')), c.ULe(b, k8('z')))
				out[i] = c.Ite(isL, c.Sub(b, k8('a'-'A')), b)
			}
		}
		return StringV{B: out}
	}
}

func init() {
	reg("(time.Time).Unix", c35sTimeUnix)
	reg("strings.ToLower", c35sCase(true))
	reg("strings.ToUpper", c35sCase(false))
}
