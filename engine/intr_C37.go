package main

// Intrinsics added for C37 (g) (trafficprotocol / traffic): the parts of
// github.com/ethereum/go-ethereum/common.Address that the cheque handlers use.
// common.Address is [20]byte (an *ArrayV of 20 BV8 terms).
//
//  * common.BytesToAddress(b): exact (right-aligned copy, longer inputs are
//    cropped from the left); the length of b is concretized.
//  * (Address).Bytes(): a fresh 20-byte slice with the same content.
//  * (Address).Hex() / String(): "0x" + 40 hex digits. The real functions
//    apply the EIP-55 mixed-case checksum (keccak); the model yields the
//    lower-case form, which is also injective. Callers here use the result as
//    a map key and in log texts only.

import (
	"go/types"

	"golang.org/x/tools/go/ssa"
)

func init() {
	const C = "github.com/ethereum/go-ethereum/common"
	addrArr := func(w *Worker, v Value) *ArrayV {
		a, ok := v.(*ArrayV)
		if !ok || len(a.E) != 20 {
			w.unsupported("common.Address value of unexpected shape %T", v)
		}
		return a
	}
	reg(C+".BytesToAddress", func(w *Worker, fr *frame, a []Value, fn *ssa.Function) Value {
		s := a[0].(SliceV)
		n := w.sliceLenConcrete(s, "common.BytesToAddress argument")
		c := w.ctx
		out := &ArrayV{E: make([]Value, 20)}
		for i := range out.E {
			out.E[i] = c.BVConst(0, 8)
		}
		skip := 0
		if n > 20 {
			skip = n - 20
		}
		m := n - skip
		for i := 0; i < m; i++ {
			out.E[20-m+i] = w.sliceElem(s, w.k64(skip+i))
		}
		return out
	})
	reg("("+C+".Address).Bytes", func(w *Worker, fr *frame, a []Value, fn *ssa.Function) Value {
		arr := addrArr(w, a[0])
		cp := &ArrayV{E: append([]Value{}, arr.E...)}
		o := w.newObj(cp, types.NewArray(types.Typ[types.Uint8], 20), "common.Address.Bytes")
		return SliceV{Arr: PtrV{Obj: o}, Off: w.k64(0), Len: w.k64(20), Cap: w.k64(20)}
	})
	hex := func(w *Worker, fr *frame, a []Value, fn *ssa.Function) Value {
		arr := addrArr(w, a[0])
		b := make([]*Term, 20)
		for i := range b {
			b[i] = arr.E[i].(*Term)
		}
		h := w.hexEncode(b)
		return StringV{B: append(strV(w.ctx, "0x").B, h.B...)}
	}
	reg("("+C+".Address).Hex", hex)
	reg("("+C+".Address).String", hex)
}
