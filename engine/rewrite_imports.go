package main

// Support code for the native mirror of //verif:noop and //verif:stub
// (rewrite.go): a rewritten source file may no longer use some of its imports
// (e.g. noop of (*multicast.Group).notifyPeers leaves "bytes" and
// "encoding/json" unused in group.go), which breaks the native build. Such
// imports are turned into blank imports.

import (
	"go/ast"
	"go/parser"
	"go/token"
	"go/types"
	"sort"
	"strconv"
)

// importNamesOf returns import path -> local package name for a source file of
// a loaded package (from the type information of the original file).
func importNamesOf(P *Program, file string) map[string]string {
	res := map[string]string{}
	for _, p := range P.pkgs {
		for i, f := range p.Syntax {
			if i >= len(p.CompiledGoFiles) || p.CompiledGoFiles[i] != file {
				continue
			}
			for _, im := range f.Imports {
				path, err := strconv.Unquote(im.Path.Value)
				if err != nil {
					continue
				}
				if im.Name != nil {
					res[path] = im.Name.Name
					continue
				}
				if p.TypesInfo != nil {
					if obj, ok := p.TypesInfo.Implicits[im].(*types.PkgName); ok {
						res[path] = obj.Name()
					}
				}
			}
		}
	}
	return res
}

// blankUnusedImports rewrites imports of src whose package name is never used
// as the operand of a selector into blank imports.
func blankUnusedImports(src []byte, names map[string]string) []byte {
	fset := token.NewFileSet()
	f, err := parser.ParseFile(fset, "rewrite.go", src, 0)
	if err != nil {
		return src
	}
	used := map[string]bool{}
	ast.Inspect(f, func(n ast.Node) bool {
		if se, ok := n.(*ast.SelectorExpr); ok {
			if id, ok := se.X.(*ast.Ident); ok {
				used[id.Name] = true
			}
		}
		return true
	})
	type edit struct {
		start, end int
		text       string
	}
	var es []edit
	for _, im := range f.Imports {
		path, err := strconv.Unquote(im.Path.Value)
		if err != nil {
			continue
		}
		name := names[path]
		if im.Name != nil {
			name = im.Name.Name
		}
		if name == "" || name == "_" || name == "." || used[name] {
			continue
		}
		if im.Name != nil {
			es = append(es, edit{fset.Position(im.Name.Pos()).Offset, fset.Position(im.Name.End()).Offset, "_"})
		} else {
			o := fset.Position(im.Path.Pos()).Offset
			es = append(es, edit{o, o, "_ "})
		}
	}
	sort.Slice(es, func(i, j int) bool { return es[i].start > es[j].start })
	for _, e := range es {
		src = append(append(append([]byte{}, src[:e.start]...), []byte(e.text)...), src[e.end:]...)
	}
	return src
}
