package main

// Byte buffers of large or symbolic size: "lazy arrays" = an SMT array term
// plus layers (store, copy of symbolic length, ite). Reads expand the layers
// into ite-terms at the index actually read, so queries stay quantifier-free.

import (
	"fmt"
	"go/types"

	"golang.org/x/tools/go/ssa"
)

type laKind int

const (
	laBase laKind = iota
	laStore
	laCopy
	laIte
)

type LArr struct {
	kind laKind
	base *Term // laBase: (Array BV64 BV8)
	prev *LArr
	idx  *Term // laStore
	val  *Term
	// laCopy: prev[dOff+i] = src[sOff+i] for i < n
	dOff, sOff, n *Term
	src           *LArr
	// laIte
	cond *Term
	a, b *LArr
	depth int
}

// SMTBuf: byte buffer held as a lazy array of N bytes (N may be symbolic).
type SMTBuf struct {
	A    *LArr
	N    *Term
	Name string // input buffers: name for model extraction
}

func laOf(t *Term) *LArr { return &LArr{kind: laBase, base: t} }

func (w *Worker) laSelect(a *LArr, i *Term) *Term {
	c := w.ctx
	switch a.kind {
	case laBase:
		return c.Select(a.base, i)
	case laStore:
		eq := c.Eq(i, a.idx)
		if eq.IsTrue() {
			return a.val
		}
		if eq.IsFalse() {
			return w.laSelect(a.prev, i)
		}
		return c.Ite(eq, a.val, w.laSelect(a.prev, i))
	case laCopy:
		in := c.And(c.ULe(a.dOff, i), c.ULt(c.Sub(i, a.dOff), a.n))
		if in.IsFalse() {
			return w.laSelect(a.prev, i)
		}
		sv := w.laSelect(a.src, c.Add(c.Sub(i, a.dOff), a.sOff))
		if in.IsTrue() {
			return sv
		}
		return c.Ite(in, sv, w.laSelect(a.prev, i))
	case laIte:
		return c.Ite(a.cond, w.laSelect(a.a, i), w.laSelect(a.b, i))
	}
	panic("laSelect")
}

func (w *Worker) laStoreAt(a *LArr, i, v *Term) *LArr {
	if a.kind == laBase {
		return laOf(w.ctx.Store(a.base, i, v))
	}
	return &LArr{kind: laStore, prev: a, idx: i, val: v, depth: a.depth + 1}
}

func (w *Worker) laCopyInto(dst *LArr, dOff *Term, src *LArr, sOff, n *Term) *LArr {
	if u, ok := n.ConstU(); ok && u == 0 {
		return dst
	}
	return &LArr{kind: laCopy, prev: dst, dOff: dOff, src: src, sOff: sOff, n: n, depth: dst.depth + 1}
}

func (w *Worker) newSMTInput(name string, max int) SliceV {
	n := w.fresh(name)
	arr := w.ctx.Var("in:"+n+".arr", Sort{K: SArr, W: 64, EW: 8})
	ln := w.ctx.Var("in:"+n+".len", BV(64))
	w.addPC(w.ctx.ULe(ln, w.k64(max)))
	buf := &SMTBuf{A: laOf(arr), N: ln, Name: n}
	w.inputs = append(w.inputs, inputRec{Name: n, Kind: "bigbytes", Terms: []*Term{arr}, Len: ln})
	o := w.newObj(buf, nil, "zzverif.BigBytes:"+n)
	return SliceV{Arr: PtrV{Obj: o}, Off: w.k64(0), Len: ln, Cap: ln}
}

func init() {
	reg(zz+"BigBytes", func(w *Worker, fr *frame, a []Value, fn *ssa.Function) Value {
		return w.newSMTInput(w.argStr(a[0]), w.argInt(a[1]))
	})
}

// recordRead notes an index read from an input buffer (for model extraction).
func (w *Worker) recordRead(a *LArr, i *Term) {
	if a.kind == laBase && a.base.op == OVar {
		if len(w.smtReads[a.base.name]) < 512 {
			if w.smtReads == nil {
				w.smtReads = map[string][]*Term{}
			}
			w.smtReads[a.base.name] = append(w.smtReads[a.base.name], i)
		}
		return
	}
	switch a.kind {
	case laStore:
		w.recordRead(a.prev, i)
	case laCopy:
		w.recordRead(a.prev, i)
		w.recordRead(a.src, w.ctx.Add(w.ctx.Sub(i, a.dOff), a.sOff))
	case laIte:
		w.recordRead(a.a, i)
		w.recordRead(a.b, i)
	}
}

func (w *Worker) smtBufOf(s SliceV) (*SMTBuf, bool) {
	if s.IsNil() {
		return nil, false
	}
	b, ok := w.getPath(s.Arr.Obj.val, s.Arr.Path).(*SMTBuf)
	return b, ok
}

func (w *Worker) copyToSMT(dst SliceV, db *SMTBuf, src SliceV, n *Term) {
	c := w.ctx
	sv := w.getPath(src.Arr.Obj.val, src.Arr.Path)
	arr := db.A
	switch s := sv.(type) {
	case *SMTBuf:
		arr = w.laCopyInto(arr, dst.Off, s.A, src.Off, n)
	case *ArrayV:
		nc, ok := n.ConstU()
		if !ok {
			// symbolic count from a small concrete array: guarded stores
			max := w.maxLen(src)
			if max > 4096 {
				nc = w.concretizeAny(n, w.prog.maxConcretize, "copy length into SMT buffer")
				ok = true
			} else {
				for i := 0; i < max; i++ {
					g := c.ULt(w.k64(i), n)
					if g.IsFalse() {
						break
					}
					v := w.guardedElem(src, i, n).(*Term)
					at := c.Add(dst.Off, w.k64(i))
					old := w.laSelect(arr, at)
					arr = w.laStoreAt(arr, at, c.Ite(g, v, old))
				}
			}
		}
		if ok {
			for i := 0; i < int(nc); i++ {
				arr = w.laStoreAt(arr, c.Add(dst.Off, w.k64(i)), w.sliceElem(src, w.k64(i)).(*Term))
			}
		}
	default:
		w.unsupported("copy into SMT buffer from %T", sv)
	}
	w.store(dst.Arr, &SMTBuf{A: arr, N: db.N, Name: db.Name})
}

// copyFromSMT: dst is a concrete cell array, src an SMT buffer.
func (w *Worker) copyFromSMT(dst SliceV, src SliceV, sb *SMTBuf, n *Term) {
	c := w.ctx
	max := w.maxLen(dst)
	if nc, ok := n.ConstU(); ok {
		max = int(nc)
	}
	if max > w.prog.maxSymIndex {
		w.unsupported("copy of up to %d bytes from an SMT buffer into a cell array", max)
	}
	for i := 0; i < max; i++ {
		g := c.ULt(w.k64(i), n)
		if g.IsFalse() {
			break
		}
		idx := c.Add(src.Off, w.k64(i))
		w.recordRead(sb.A, idx)
		v := w.laSelect(sb.A, idx)
		p := w.guardedPtr(dst, i)
		if p == nil {
			break
		}
		if g.IsTrue() {
			w.store(*p, v)
		} else {
			old := w.load(*p).(*Term)
			w.store(*p, c.Ite(g, v, old))
		}
	}
}

var _ = fmt.Sprint
var _ types.Type
