package main

import (
	"encoding/json"
	"flag"
	"fmt"
	"os"
	"os/exec"
	"path/filepath"
	"regexp"
	"runtime"
	"sort"
	"strconv"
	"strings"
	"time"

	"golang.org/x/tools/go/ssa"
)

type KnownFinding struct {
	Property string `json:"property"`
	Harness  string `json:"harness"`
	Label    string `json:"label"`
	Region   string `json:"region"`
	Status   string `json:"status"` // open | fixed
	What     string `json:"what"`
	Commit   string `json:"commit,omitempty"`
}

func loadKnown(prop string) []KnownFinding {
	data, err := os.ReadFile(filepath.Join(verifDir, "known_findings.json"))
	if err != nil {
		return nil
	}
	var all struct {
		Findings []KnownFinding `json:"findings"`
	}
	if err := json.Unmarshal(data, &all); err != nil {
		fmt.Fprintln(os.Stderr, "bad known_findings.json:", err)
		os.Exit(2)
	}
	var out []KnownFinding
	for _, k := range all.Findings {
		if k.Property == prop {
			out = append(out, k)
		}
	}
	return out
}

func main() {
	if len(os.Args) < 2 {
		fmt.Fprintln(os.Stderr, "usage: gosym check <ID> [--tier quick|thorough] | gosym replay <file> | gosym list")
		os.Exit(2)
	}
	switch os.Args[1] {
	case "check":
		os.Exit(cmdCheck(os.Args[2:]))
	case "replay":
		os.Exit(cmdReplay(os.Args[2:]))
	default:
		fmt.Fprintln(os.Stderr, "unknown command", os.Args[1])
		os.Exit(2)
	}
}

var rootDirRe = regexp.MustCompile(`(?m)^//verif:root\s+(.*)$`)

func harnessFilesFor(id string) (dirs []string, extraRoots []string) {
	base := filepath.Join(verifDir, "harness")
	seen := map[string]bool{}
	var commons [][2]string
	filepath.Walk(base, func(path string, info os.FileInfo, err error) error {
		if err != nil || info.IsDir() {
			return nil
		}
		name := info.Name()
		isID := strings.HasPrefix(name, "zz_verif_"+id) && strings.HasSuffix(name, ".go")
		isCommon := strings.HasPrefix(name, "zz_verif_common") && strings.HasSuffix(name, ".go")
		if isID || isCommon {
			rel, _ := filepath.Rel(base, filepath.Dir(path))
			if isID && !seen[rel] {
				seen[rel] = true
				dirs = append(dirs, rel)
			}
			if isCommon {
				commons = append(commons, [2]string{rel, path})
				return nil
			}
			data, _ := os.ReadFile(path)
			for _, m := range rootDirRe.FindAllStringSubmatch(string(data), -1) {
				for _, r := range strings.Fields(m[1]) {
					extraRoots = append(extraRoots, r)
				}
			}
		}
		return nil
	})
	// root directives of shared files count for the directories of this property
	for _, c := range commons {
		if !seen[c[0]] {
			continue
		}
		data, _ := os.ReadFile(c[1])
		for _, m := range rootDirRe.FindAllStringSubmatch(string(data), -1) {
			extraRoots = append(extraRoots, strings.Fields(m[1])...)
		}
	}
	return
}

func cmdCheck(args []string) int {
	fs := flag.NewFlagSet("check", flag.ExitOnError)
	tier := fs.String("tier", envOr("VERIF_TIER", "quick"), "quick|thorough")
	nw := fs.Int("workers", 0, "number of workers")
	only := fs.String("harness", "", "run only harness functions matching this substring")
	noReplay := fs.Bool("no-replay", false, "skip native replay (debug)")
	verbose := fs.Bool("v", false, "verbose")
	evDir := fs.String("evidence-dir", "", "write the evidence file to this directory instead of $VERIF_DIR/evidence (used when checking seeded changes)")
	var id string
	if len(args) > 0 && !strings.HasPrefix(args[0], "-") {
		id = args[0]
		args = args[1:]
	}
	fs.Parse(args)
	evidenceDir = *evDir
	if id == "" {
		fmt.Fprintln(os.Stderr, "missing property id")
		return 2
	}
	t0 := time.Now()
	seed, _ := strconv.Atoi(os.Getenv("VERIF_SEED"))
	dirs, extra := harnessFilesFor(id)
	if len(dirs) == 0 {
		fmt.Printf("INCONCLUSIVE property=%s no harness files\n", id)
		return 2
	}
	roots := append(append([]string{}, dirs...), extra...)
	prog, err := LoadProgram(roots, func(f string) bool {
		return strings.HasPrefix(f, "zz_verif_"+id) || strings.HasPrefix(f, "zz_verif_common")
	})
	if err != nil {
		fmt.Printf("INCONCLUSIVE property=%s harness does not load against the current tree: %v\n", id, err)
		writeEvidence(id, *tier, seed, nil, nil, time.Since(t0), []string{"LOAD: " + err.Error()}, nil)
		return 2
	}
	loadT := time.Since(t0)
	var hs []*ssa.Function
	for name, fn := range prog.harnessFuncs {
		if strings.HasPrefix(name, "Verif"+id+"_") && (*only == "" || strings.Contains(name, *only)) {
			hs = append(hs, fn)
		}
	}
	sort.Slice(hs, func(i, j int) bool { return hs[i].Name() < hs[j].Name() })
	if len(hs) == 0 {
		fmt.Printf("INCONCLUSIVE property=%s no harness functions\n", id)
		return 2
	}
	cfg := &HarnessCfg{Tier: *tier, Unwind: 64, MaxSteps: 20_000_000, TimeoutMs: 20000, PropertyID: id, Known: loadKnown(id)}
	if *tier == "thorough" {
		cfg.TimeoutMs = 60000
	}
	n := *nw
	if n == 0 {
		n = runtime.NumCPU()
		if n > 16 {
			n = 16
		}
	}
	workers := make([]*Worker, n)
	var initWarn []string
	for i := range workers {
		workers[i] = newWorker(i, prog, cfg)
		ws := workers[i].runInit()
		if i == 0 {
			initWarn = ws
		}
	}
	defer func() {
		for _, w := range workers {
			w.solver.Close()
		}
	}()
	var results []*HarnessResult
	exit := 0
	var inconcl []string
	for _, h := range hs {
		r := RunHarness(prog, h, cfg, workers)
		results = append(results, r)
		if *verbose || true {
			fmt.Printf("harness %s: paths=%d pruned=%d instrs=%d queries=%d (sat %d unsat %d unknown %d) solver=%.2fs wall=%.2fs\n",
				r.Name, r.Paths, r.Pruned, r.Instrs, r.Queries, r.QSat, r.QUnsat, r.QUnknown, r.SolverTime.Seconds(), r.Wall.Seconds())
		}
		for _, ic := range r.Inconcl {
			inconcl = append(inconcl, r.Name+": "+ic)
		}
	}
	// thorough: cross-check final queries with other solvers
	if *tier == "thorough" {
		for _, r := range results {
			crossCheck(r)
			for _, d := range r.CrossDisagree {
				inconcl = append(inconcl, r.Name+": SOLVER-DISAGREEMENT "+d)
			}
		}
	}
	// translator validation: run sampled path witnesses natively
	nwit, nwitOK := 0, 0
	if !*noReplay && !prog.noWitness {
		rw, _ := prog.nativeRewrites()
		for _, r := range results {
			var files []string
			var wits []*Witness
			for i, wt := range r.Witnesses {
				if wt == nil {
					continue
				}
				v := &Violation{Harness: wt.Harness, Label: "witness", Kind: "witness", Model: wt.Model, UFs: wt.UFs}
				f := writeReplay(id, *tier, v, 1000+i)
				wt.File = f
				files = append(files, f)
				wits = append(wits, wt)
			}
			if len(files) == 0 {
				continue
			}
			fn := prog.harnessFuncs[r.Name]
			res, raw := runNativeBatch(prog.overlayFiles, rw, fn.Pkg.Pkg.Path(), fn.Pkg.Pkg.Name(), r.Name, files)
			for _, wt := range wits {
				nwit++
				nr, ok := res[wt.File]
				exp := fmt.Sprintf("%q", wt.Observed)
				if len(wt.Observed) == 0 {
					exp = "[]"
				}
				switch {
				case !ok:
					tail := raw
					if len(tail) > 400 {
						tail = tail[len(tail)-400:]
					}
					wt.Result = "native run failed: " + strings.ReplaceAll(tail, "\n", " | ")
				case nr.Assume != "":
					wt.Result = "native assumption failed: " + nr.Assume
				case nr.Panicked:
					wt.Result = "native run panicked: " + nr.PanicMsg
				case nr.Failures != "[]":
					wt.Result = "native assertion failed: " + nr.Failures
				case strings.Contains(exp, "=?"):
					wt.Result = "ok (some observations not comparable)"
				case nr.Observed != exp:
					wt.Result = "observations differ: engine " + exp + " native " + nr.Observed
				default:
					wt.Result = "ok"
				}
				if strings.HasPrefix(wt.Result, "ok") {
					nwitOK++
					os.Remove(wt.File)
				} else {
					inconcl = append(inconcl, fmt.Sprintf("%s: TRANSLATOR-MISMATCH on path witness %s: %s", r.Name, wt.File, wt.Result))
				}
			}
		}
	}
	witnessStats = [2]int{nwit, nwitOK}
	// replay violations
	nviol := 0
	var lines []string
	for _, r := range results {
		for i, v := range r.Violations {
			file := writeReplay(id, *tier, v, i)
			v.File = file
			if !*noReplay {
				v.Replayed = replayNative(prog, v, file)
			} else {
				v.Replayed = "reproduced (replay skipped)"
			}
			switch {
			case strings.HasPrefix(v.Replayed, "reproduced"):
				if v.Known != nil {
					lines = append(lines, fmt.Sprintf("KNOWN-FINDING: property=%s %s [harness=%s label=%s region=%s replay=%s]", id, v.Known.What, v.Harness, v.Label, v.Known.Region, file))
				} else {
					nviol++
					lines = append(lines, fmt.Sprintf("VIOLATION property=%s replay=%s", id, file))
					lines = append(lines, fmt.Sprintf("  harness=%s label=%s kind=%s detail=%s", v.Harness, v.Label, v.Kind, firstLine(v.Detail)))
				}
			default:
				inconcl = append(inconcl, fmt.Sprintf("%s: SPURIOUS model for %s did not reproduce natively (%s) replay=%s", v.Harness, v.Label, v.Replayed, file))
			}
		}
	}
	for _, l := range lines {
		fmt.Println(l)
	}
	if nviol > 0 {
		exit = 1
	} else if len(inconcl) > 0 {
		exit = 2
	}
	for _, ic := range inconcl {
		fmt.Printf("INCONCLUSIVE property=%s %s\n", id, ic)
	}
	for _, wn := range initWarn {
		fmt.Printf("note: %s\n", wn)
	}
	writeEvidence(id, *tier, seed, prog, results, time.Since(t0), inconcl, initWarn)
	fmt.Printf("property %s tier=%s: %s (load %.1fs, total %.1fs)\n", id, *tier, map[int]string{0: "HOLDS within bounds", 1: "VIOLATED", 2: "INCONCLUSIVE"}[exit], loadT.Seconds(), time.Since(t0).Seconds())
	return exit
}

var witnessStats [2]int
var evidenceDir string

func crossCheck(r *HarnessResult) {
	type job struct {
		i int
		s string
	}
	sem := make(chan struct{}, 8)
	type res struct {
		i    int
		c, z SatResult
	}
	out := make(chan res, len(r.FinalQueries))
	for i, s := range r.FinalQueries {
		go func(i int, s string) {
			sem <- struct{}{}
			defer func() { <-sem }()
			c, _ := RunExternal([]string{"cvc5", "--lang", "smt2", "--tlimit", "60000"}, s, 70*time.Second)
			z, _ := RunExternal([]string{"z3-new", "-in", "-T:60"}, s, 70*time.Second)
			out <- res{i, c, z}
		}(i, s)
	}
	for range r.FinalQueries {
		x := <-out
		r.CrossChecked++
		if x.c == Sat || x.z == Sat {
			r.CrossDisagree = append(r.CrossDisagree, fmt.Sprintf("query %d: z3=unsat cvc5=%s z3-new=%s", x.i, x.c, x.z))
		}
	}
}

func writeReplay(id, tier string, v *Violation, n int) string {
	dir := filepath.Join(verifDir, "replays", id)
	os.MkdirAll(dir, 0o755)
	lab := regexp.MustCompile(`[^A-Za-z0-9_.-]+`).ReplaceAllString(v.Label, "_")
	file := filepath.Join(dir, fmt.Sprintf("%s-%s-%d.json", v.Harness, lab, n))
	if v.Kind == "witness" {
		// transient file (removed when the native run agrees): unique per process so that
		// concurrent runs of the same property do not delete each other's witnesses
		file = filepath.Join(dir, fmt.Sprintf("%s-%s-%d-p%d.json", v.Harness, lab, n, os.Getpid()))
	}
	data, _ := json.MarshalIndent(map[string]interface{}{
		"harness": v.Harness, "tier": tier, "vars": v.Model, "ufs": v.UFs, "label": v.Label, "kind": v.Kind, "detail": v.Detail, "property": id,
	}, "", " ")
	os.WriteFile(file, data, 0o644)
	return file
}

// replayNative compiles the harness with go test -overlay and runs it on the model.
func replayNative(prog *Program, v *Violation, file string) string {
	fn := prog.harnessFuncs[v.Harness]
	if fn == nil {
		return "not-reproduced: harness function not found"
	}
	rw, _ := prog.nativeRewrites()
	res, raw := runNativeBatch(prog.overlayFiles, rw, fn.Pkg.Pkg.Path(), fn.Pkg.Pkg.Name(), v.Harness, []string{file})
	r, ok := res[file]
	return judgeNative(r, ok, raw, v.Label, v.Kind)
}

type nativeResult struct {
	Failures string
	Panicked bool
	Assume   string
	Observed string
	PanicMsg string
}

var resRe = regexp.MustCompile(`ZZVERIF-RESULT file="([^"]*)" failures=(\[.*?\]) panicked=(true|false) assume="(.*?)" observed=(\[.*\])`)
var panRe = regexp.MustCompile(`ZZVERIF-PANIC file="([^"]*)" (.*)`)

// runNativeBatch runs harness natively once per replay file (one go test run).
func runNativeBatch(overlayFiles map[string]string, rewrites map[string][]byte, pkgPath, pkgName, harness string, files []string) (map[string]nativeResult, string) {
	out := map[string]nativeResult{}
	os.MkdirAll(filepath.Join(verifDir, ".work"), 0o755)
	work, err := os.MkdirTemp(filepath.Join(verifDir, ".work"), "replay")
	if err != nil {
		return out, "cannot create work dir: " + err.Error()
	}
	defer os.RemoveAll(work)
	rel := strings.TrimPrefix(pkgPath, repoMod+"/")
	pkgDir := filepath.Join(repoDir, rel)
	repl := map[string]string{}
	for virt, real := range overlayFiles {
		repl[virt] = real
	}
	ri := 0
	for orig, content := range rewrites {
		rf := filepath.Join(work, fmt.Sprintf("rewrite%d.go", ri))
		ri++
		os.WriteFile(rf, content, 0o644)
		repl[orig] = rf
	}
	// mask the package's own tests (several are stale in the pinned tree)
	ents, _ := os.ReadDir(pkgDir)
	for _, e := range ents {
		if strings.HasSuffix(e.Name(), "_test.go") {
			repl[filepath.Join(pkgDir, e.Name())] = ""
		}
	}
	testSrc := fmt.Sprintf(`package %s

import (
	"os"
	"strings"
	"testing"

	zz "%s/pkg/zzverif"
)

func TestZZVerifReplay(t *testing.T) {
	zz.RunFiles(%s, strings.Split(os.Getenv("VERIF_REPLAYS"), "\n"))
}
`, pkgName, repoMod, harness)
	tf := filepath.Join(work, "zz_verif_replay_test.go")
	os.WriteFile(tf, []byte(testSrc), 0o644)
	repl[filepath.Join(pkgDir, "zz_verif_replay_test.go")] = tf
	ovData, _ := json.Marshal(map[string]interface{}{"Replace": repl})
	ovFile := filepath.Join(work, "overlay.json")
	os.WriteFile(ovFile, ovData, 0o644)
	timeout := 120 + 20*len(files)
	cmd := exec.Command("go", "test", "-v", "-vet=off", "-count=1", "-overlay", ovFile, "-ldflags=-checklinkname=0", "-run", "^TestZZVerifReplay$", "-timeout", fmt.Sprintf("%ds", timeout), "./"+rel)
	cmd.Dir = repoDir
	cmd.Env = append(os.Environ(), "GOFLAGS=-mod=mod", "GOPROXY=off", "GOSUMDB=off", "GOTOOLCHAIN=local", "VERIF_REPLAYS="+strings.Join(files, "\n"))
	raw, _ := cmd.CombinedOutput()
	txt := string(raw)
	if os.Getenv("GOSYM_REPLAYLOG") != "" {
		fmt.Println(txt)
	}
	for _, m := range resRe.FindAllStringSubmatch(txt, -1) {
		out[m[1]] = nativeResult{Failures: m[2], Panicked: m[3] == "true", Assume: m[4], Observed: m[5]}
	}
	for _, m := range panRe.FindAllStringSubmatch(txt, -1) {
		r := out[m[1]]
		r.PanicMsg = m[2]
		out[m[1]] = r
	}
	return out, txt
}

func judgeNative(r nativeResult, ok bool, txt, label, kind string) string {
	if !ok {
		if strings.Contains(txt, "panic: test timed out") {
			if kind == "deadlock" {
				return "reproduced (native run hung)"
			}
			return "not-reproduced: native run timed out"
		}
		if i := strings.Index(txt, "\npanic: "); i >= 0 && kind == "panic" && !strings.Contains(txt, "panic: test timed out") {
			return "reproduced (native process crashed): " + firstLine(txt[i+1:])
		}
		if i := strings.Index(txt, "fatal error:"); i >= 0 {
			if kind == "panic" || kind == "deadlock" {
				return "reproduced (fatal error): " + firstLine(txt[i:])
			}
		}
		tail := txt
		if len(tail) > 600 {
			tail = tail[len(tail)-600:]
		}
		return "not-reproduced: native replay did not run: " + strings.ReplaceAll(tail, "\n", " | ")
	}
	if r.Assume != "" {
		return "not-reproduced: native assumption failed: " + r.Assume
	}
	switch kind {
	case "assert":
		if strings.Contains(r.Failures, strconv.Quote(label)) {
			return "reproduced"
		}
		return fmt.Sprintf("not-reproduced: assertion held natively (failures=%s panicked=%v)", r.Failures, r.Panicked)
	case "panic":
		if r.Panicked {
			return "reproduced: " + r.PanicMsg
		}
		return "not-reproduced: no panic natively"
	}
	return "not-reproduced: unknown kind " + kind
}

func cmdReplay(args []string) int {
	if len(args) < 1 {
		fmt.Fprintln(os.Stderr, "usage: gosym replay <file>")
		return 2
	}
	data, err := os.ReadFile(args[0])
	if err != nil {
		fmt.Fprintln(os.Stderr, err)
		return 2
	}
	var rf struct {
		Harness, Label, Kind, Property string
	}
	json.Unmarshal(data, &rf)
	dirs, extra := harnessFilesFor(rf.Property)
	prog, err := LoadProgram(append(dirs, extra...), func(f string) bool {
		return strings.HasPrefix(f, "zz_verif_"+rf.Property) || strings.HasPrefix(f, "zz_verif_common")
	})
	if err != nil {
		fmt.Println("load failed:", err)
		return 2
	}
	os.Setenv("GOSYM_REPLAYLOG", "1")
	abs, _ := filepath.Abs(args[0])
	v := &Violation{Harness: rf.Harness, Label: rf.Label, Kind: rf.Kind}
	res := replayNative(prog, v, abs)
	fmt.Println(res)
	if strings.HasPrefix(res, "reproduced") {
		return 1
	}
	return 0
}

func writeEvidence(id, tier string, seed int, prog *Program, results []*HarnessResult, wall time.Duration, inconcl, initWarn []string) {
	cov := map[string]interface{}{}
	states, trans, traces := 0, int64(0), 0
	queries, qs, qu, qk := 0, 0, 0, 0
	var solverS float64
	funcs := map[string]int64{}
	intr := map[string]int{}
	stubs := map[string]int{}
	var samples []interface{}
	var notes []string
	harnesses := []map[string]interface{}{}
	nviol := 0
	asserts := map[string]int{}
	cross := 0
	for _, r := range results {
		states += r.Paths
		trans += r.Instrs
		queries += r.Queries
		qs += r.QSat
		qu += r.QUnsat
		qk += r.QUnknown
		solverS += r.SolverTime.Seconds()
		cross += r.CrossChecked
		for k, v := range r.Funcs {
			funcs[k] += v
		}
		for k, v := range r.Intrinsics {
			intr[k] += v
		}
		for k, v := range r.Stubs {
			stubs[k] += v
		}
		for k, v := range r.Asserts {
			asserts[r.Name+"/"+k] += v
		}
		for _, s := range r.SamplePaths {
			if len(samples) < 12 {
				samples = append(samples, s)
			}
		}
		nw := 0
		for _, wt := range r.Witnesses {
			if wt == nil || nw >= 3 {
				continue
			}
			nw++
			model := map[string]string{}
			for k, v := range wt.Model {
				if len(v) > 48 {
					v = v[:48] + "…"
				}
				model[k] = v
			}
			samples = append(samples, map[string]interface{}{"harness": wt.Harness, "kind": "path witness: a model of one explored path condition, re-run natively", "inputs": model, "engine_observed": wt.Observed, "native_result": wt.Result})
		}
		notes = append(notes, r.Notes...)
		var reached []string
		for k := range r.Reached {
			reached = append(reached, k)
		}
		sort.Strings(reached)
		hv := []map[string]interface{}{}
		for _, v := range r.Violations {
			if strings.HasPrefix(v.Replayed, "reproduced") {
				traces++
				if v.Known == nil {
					nviol++
				}
			}
			e := map[string]interface{}{"label": v.Label, "kind": v.Kind, "detail": firstLine(v.Detail), "replay": v.File, "native": v.Replayed, "model": v.Model}
			if v.Known != nil {
				e["known_finding"] = v.Known.What
			}
			hv = append(hv, e)
		}
		harnesses = append(harnesses, map[string]interface{}{"name": r.Name, "paths": r.Paths, "pruned_infeasible": r.Pruned, "ssa_instructions": r.Instrs,
			"queries": r.Queries, "wall_s": r.Wall.Seconds(), "reached": reached, "violations": hv, "inconclusive": r.Inconcl})
	}
	if len(samples) == 0 {
		samples = append(samples, "no path completed")
	}
	type fc struct {
		Name string `json:"name"`
		N    int64  `json:"ssa_instructions_executed"`
	}
	var fl []fc
	for k, v := range funcs {
		if strings.Contains(k, "/pkg/zzverif") {
			continue
		}
		fl = append(fl, fc{k, v})
	}
	sort.Slice(fl, func(i, j int) bool { return fl[i].Name < fl[j].Name })
	var il, sl []string
	for k := range intr {
		il = append(il, k)
	}
	for k := range stubs {
		sl = append(sl, k)
	}
	sort.Strings(il)
	sort.Strings(sl)
	cov["states"] = states
	cov["transitions"] = trans
	cov["traces_validated_against_impl"] = traces + witnessStats[1]
	cov["path_witnesses_run_natively"] = witnessStats[0]
	cov["path_witnesses_agreeing"] = witnessStats[1]
	cov["samples"] = samples
	cov["exhaustive"] = len(inconcl) == 0
	cov["explanation"] = "states = symbolic paths of the real code completed (each covers all inputs satisfying its path condition); transitions = go/ssa instructions executed symbolically; traces_validated = solver models replayed against the natively compiled code"
	cov["functions_encoded"] = fl
	cov["queries"] = queries
	cov["queries_sat"] = qs
	cov["queries_unsat"] = qu
	cov["queries_unknown"] = qk
	cov["solver_s"] = solverS
	cov["solvers"] = "z3 4.8.12 (deciding); thorough tier re-submits final assertion queries to cvc5 1.0 and z3 5.1.0"
	cov["cross_checked_queries"] = cross
	cov["intrinsics_used"] = il
	cov["stub_directives_used"] = sl
	cov["harnesses"] = harnesses
	cov["assertions_discharged_unsat"] = asserts
	cov["inconclusive"] = inconcl
	if prog != nil {
		cov["directives"] = prog.directives
	}
	cov["bounds"] = boundsFor(id, tier)
	sort.Strings(notes)
	assumptions := append([]string{}, assumptionsFor(id)...)
	assumptions = append(assumptions, dedupe(notes)...)
	assumptions = append(assumptions, initWarn...)
	ev := map[string]interface{}{
		"property_id": id, "tier": tier, "seed": seed, "level": "model_checking",
		"coverage": cov, "assumptions": assumptions, "wall_s": wall.Seconds(), "violations": nviol,
	}
	dir := filepath.Join(verifDir, "evidence")
	if evidenceDir != "" {
		dir = evidenceDir
	}
	os.MkdirAll(dir, 0o755)
	data, _ := json.MarshalIndent(ev, "", " ")
	os.WriteFile(filepath.Join(dir, id+".json"), data, 0o644)
}

func dedupe(xs []string) []string {
	var out []string
	seen := map[string]bool{}
	for _, x := range xs {
		if !seen[x] {
			seen[x] = true
			out = append(out, x)
		}
	}
	return out
}

// bounds / assumptions are declared per property in /verif/harness/bounds/<id>.json
type boundsEntry struct {
	Quick       string   `json:"quick"`
	Thorough    string   `json:"thorough"`
	Assumptions []string `json:"assumptions"`
	Outside     []string `json:"outside_claim"`
}

func loadBounds(id string) (boundsEntry, bool) {
	var b boundsEntry
	data, err := os.ReadFile(filepath.Join(verifDir, "harness", "bounds", id+".json"))
	if err != nil {
		return b, false
	}
	json.Unmarshal(data, &b)
	return b, true
}

func boundsFor(id, tier string) interface{} {
	e, ok := loadBounds(id)
	if !ok {
		return "see harness source"
	}
	s := e.Quick
	if tier == "thorough" {
		s = e.Thorough
	}
	return map[string]interface{}{"bounds": s, "outside_claim": e.Outside}
}

func assumptionsFor(id string) []string {
	e, _ := loadBounds(id)
	return e.Assumptions
}
