package main

// Goroutines as coroutines (one canonical schedule), channels, select.

import (
	"fmt"
	"go/types"

	"golang.org/x/tools/go/ssa"
)

type resumeMsg struct{ kill bool }

type gor struct {
	id      int
	resume  chan resumeMsg
	done    bool
	ready   func() bool // nil => runnable
	what    string
	cur     *frame
	depth   int
	started bool
}

type gorSched struct {
	gs    []*gor
	cur   *gor
	abort interface{} // pathAbort raised in a non-main goroutine
}

func (w *Worker) sched() *gorSched {
	if w.gor == nil {
		m := &gor{id: 0, resume: make(chan resumeMsg), started: true}
		w.gor = &gorSched{gs: []*gor{m}, cur: m}
	}
	return w.gor
}

// switchTo transfers control from the current goroutine to g and parks the
// current one until it is resumed.
func (w *Worker) switchTo(g *gor) {
	s := w.gor
	me := s.cur
	me.cur, me.depth = w.cur, w.depth
	s.cur = g
	w.cur, w.depth = g.cur, g.depth
	g.resume <- resumeMsg{}
	w.park(me)
}

func (w *Worker) park(me *gor) {
	msg := <-me.resume
	if msg.kill {
		panic(pathAbort{abKilled, "killed"})
	}
	s := w.gor
	s.cur = me
	w.cur, w.depth = me.cur, me.depth
	if me.id == 0 && s.abort != nil {
		r := s.abort
		s.abort = nil
		panic(r)
	}
}

// pickReady returns a goroutine (other than except) that can run, or nil.
func (w *Worker) pickReady(except *gor) *gor {
	s := w.gor
	n := len(s.gs)
	start := 0
	if except != nil {
		start = except.id
	}
	// prefer ancestors (lower ids, nearest first), then younger ones
	for d := 1; d <= n; d++ {
		i := start - d
		if i < 0 {
			break
		}
		g := s.gs[i]
		if g != except && !g.done && (g.ready == nil || g.ready()) {
			return g
		}
	}
	for i := start + 1; i < n; i++ {
		g := s.gs[i]
		if g != except && !g.done && (g.ready == nil || g.ready()) {
			return g
		}
	}
	return nil
}

// waitUntil blocks the current goroutine until pred holds.
func (w *Worker) waitUntil(pred func() bool, what string) {
	if pred() {
		return
	}
	if w.gor == nil {
		w.fatal("all goroutines are asleep - deadlock! (blocked in " + what + ")")
	}
	s := w.gor
	me := s.cur
	for !pred() {
		me.ready = pred
		me.what = what
		g := w.pickReady(me)
		if g == nil {
			if me.id != 0 {
				// give control back to main if it is merely parked (runnable)
				w.fatal("all goroutines are asleep - deadlock! (blocked in " + what + ")")
			}
			w.fatal("all goroutines are asleep - deadlock! (main blocked in " + what + ")")
		}
		w.switchTo(g)
	}
	me.ready = nil
}

// yield lets every other ready goroutine run until all are blocked/done.
func (w *Worker) yield() {
	if w.gor == nil {
		return
	}
	s := w.gor
	me := s.cur
	for {
		g := w.pickReady(me)
		if g == nil {
			return
		}
		me.ready = nil
		w.switchTo(g)
	}
}

func (w *Worker) goStmt(fr *frame, fv Value, args []Value, cc *ssa.CallCommon) {
	var name string
	if cc.IsInvoke() {
		name = cc.Method.FullName()
	} else if cl, ok := fv.(*ClosureV); ok && cl != nil && cl.Fn != nil {
		name = cl.Fn.String()
		if cl.Fn.Parent() != nil {
			// anonymous function: directive may name the enclosing function + "$n"
		}
	}
	if w.prog.goIgnore[name] {
		w.stubsUsed["go-ignore "+name]++
		return
	}
	s := w.sched()
	g := &gor{id: len(s.gs), resume: make(chan resumeMsg), what: name}
	s.gs = append(s.gs, g)
	go func() {
		msg := <-g.resume
		if msg.kill {
			g.done = true
			return
		}
		defer func() {
			r := recover()
			g.done = true
			if r != nil {
				if pa, ok := r.(pathAbort); ok && pa.kind == abKilled {
					return
				}
				if tp, ok := r.(targetPanic); ok {
					// an uncaught panic in any goroutine kills the process: report it
					// like an uncaught panic of the main goroutine (label no-panic,
					// kind panic: the native replay counts a crashed process)
					w.reportPanic(tp)
					r = pathAbort{abError, "PANIC-IN-GOROUTINE " + name + ": " + w.panicString(tp)}
				}
				s.abort = r
				main := s.gs[0]
				s.cur = main
				main.resume <- resumeMsg{}
				return
			}
			// finished: hand control to someone else
			nx := w.pickReady(g)
			if nx == nil {
				// everyone else is blocked: this is a deadlock unless main is done
				s.abort = pathAbort{abError, "fatal error: all goroutines are asleep - deadlock! (after goroutine " + name + " ended)"}
				nx = s.gs[0]
			}
			s.cur = nx
			w.cur, w.depth = nx.cur, nx.depth
			nx.resume <- resumeMsg{}
		}()
		s.cur = g
		w.cur, w.depth = nil, 0
		if cc.IsInvoke() {
			w.invoke(nil, fv, cc.Method, args)
		} else {
			w.callValue(nil, fv, args, cc)
		}
	}()
	// policy A: the new goroutine runs first
	w.switchTo(g)
}

// killGoroutines ends all parked goroutines of the finished path.
func (w *Worker) killGoroutines() {
	if w.gor == nil {
		return
	}
	for _, g := range w.gor.gs[1:] {
		if !g.done {
			g.done = true
			g.resume <- resumeMsg{kill: true}
		}
	}
	w.gor = nil
}

func (w *Worker) panicString(tp targetPanic) string {
	switch x := tp.v.(type) {
	case IfaceV:
		if e, ok := x.V.(*ErrV); ok {
			s, _ := e.Msg.Concrete()
			return s
		}
		if s, ok := x.V.(StringV); ok {
			c, _ := s.Concrete()
			return c
		}
		return fmtValue(x)
	}
	return fmtValue(tp.v)
}

// ---- channels ----

func (w *Worker) chanData(c ChanV) *ChanData {
	if c.Obj == nil {
		return nil
	}
	return c.Obj.val.(*ChanData)
}

func (w *Worker) chanSend(fr *frame, c ChanV, v Value) {
	if c.Obj == nil {
		w.waitUntil(func() bool { return false }, "send on nil channel")
	}
	cd := w.chanData(c)
	if cd.Closed {
		w.goPanicPlain("send on closed channel")
	}
	if cd.Cap > 0 {
		w.waitUntil(func() bool { d := w.chanData(c); return d.Closed || len(d.Buf) < d.Cap }, "chan send")
		cd = w.chanData(c)
		if cd.Closed {
			w.goPanicPlain("send on closed channel")
		}
		w.chanPush(c, v)
		return
	}
	// unbuffered: hand over and wait until consumed
	w.chanPush(c, v)
	seq := w.chanSeq(c)
	w.waitUntil(func() bool { return w.chanTaken(c) >= seq }, "chan send (unbuffered)")
}

func (w *Worker) chanPush(c ChanV, v Value) {
	cd := w.chanData(c)
	nd := *cd
	nd.Buf = append(append([]Value{}, cd.Buf...), v)
	w.setObj(c.Obj, &nd)
	w.syncSet(fmt.Sprintf("chan%d/pushed", c.Obj.id), w.syncGet(fmt.Sprintf("chan%d/pushed", c.Obj.id))+1)
}

func (w *Worker) chanSeq(c ChanV) int   { return w.syncGet(fmt.Sprintf("chan%d/pushed", c.Obj.id)) }
func (w *Worker) chanTaken(c ChanV) int { return w.syncGet(fmt.Sprintf("chan%d/taken", c.Obj.id)) }

func (w *Worker) chanPop(c ChanV) Value {
	cd := w.chanData(c)
	v := cd.Buf[0]
	nd := *cd
	nd.Buf = append([]Value{}, cd.Buf[1:]...)
	w.setObj(c.Obj, &nd)
	k := fmt.Sprintf("chan%d/taken", c.Obj.id)
	w.syncSet(k, w.syncGet(k)+1)
	return v
}

func (w *Worker) chanRecv(fr *frame, c ChanV, commaOk bool, t types.Type) Value {
	var et types.Type
	if commaOk {
		et = t.(*types.Tuple).At(0).Type()
	} else {
		et = t
	}
	if c.Obj == nil {
		w.waitUntil(func() bool { return false }, "receive from nil channel")
	}
	rk := fmt.Sprintf("chan%d/recvwait", c.Obj.id)
	w.syncSet(rk, w.syncGet(rk)+1)
	w.waitUntil(func() bool { d := w.chanData(c); return len(d.Buf) > 0 || d.Closed }, "chan receive")
	w.syncSet(rk, w.syncGet(rk)-1)
	cd := w.chanData(c)
	if len(cd.Buf) > 0 {
		v := w.chanPop(c)
		if commaOk {
			return TupleV{v, w.ctx.True}
		}
		return v
	}
	if commaOk {
		return TupleV{w.zero(et), w.ctx.False}
	}
	return w.zero(et)
}

func (w *Worker) chanClose(c ChanV) {
	if c.Obj == nil {
		w.goPanicPlain("close of nil channel")
	}
	cd := w.chanData(c)
	if cd.Closed {
		w.goPanicPlain("close of closed channel")
	}
	nd := *cd
	nd.Closed = true
	w.setObj(c.Obj, &nd)
}

func (w *Worker) selectStmt(fr *frame, x *ssa.Select) Value {
	type st struct {
		c   ChanV
		v   Value
		dir types.ChanDir
	}
	states := make([]st, len(x.States))
	for i, s := range x.States {
		states[i].c = w.get(fr, s.Chan).(ChanV)
		states[i].dir = s.Dir
		if s.Send != nil {
			states[i].v = w.get(fr, s.Send)
		}
	}
	readyCases := func() []int {
		var r []int
		for i, s := range states {
			if s.c.Obj == nil {
				continue
			}
			cd := w.chanData(s.c)
			if s.dir == types.RecvOnly {
				if len(cd.Buf) > 0 || cd.Closed {
					r = append(r, i)
				}
			} else {
				if cd.Closed || len(cd.Buf) < cd.Cap || (cd.Cap == 0 && len(cd.Buf) == 0 && w.syncGet(fmt.Sprintf("chan%d/recvwait", s.c.Obj.id)) > 0) {
					r = append(r, i)
				}
			}
		}
		return r
	}
	rc := readyCases()
	if len(rc) == 0 {
		if !x.Blocking {
			return w.selectResult(x, -1, nil, false)
		}
		// register as receiver on all recv channels so unbuffered senders see us
		for _, s := range states {
			if s.dir == types.RecvOnly && s.c.Obj != nil {
				k := fmt.Sprintf("chan%d/recvwait", s.c.Obj.id)
				w.syncSet(k, w.syncGet(k)+1)
			}
		}
		w.waitUntil(func() bool { return len(readyCases()) > 0 }, "select")
		for _, s := range states {
			if s.dir == types.RecvOnly && s.c.Obj != nil {
				k := fmt.Sprintf("chan%d/recvwait", s.c.Obj.id)
				w.syncSet(k, w.syncGet(k)-1)
			}
		}
		rc = readyCases()
	}
	pick := rc[0]
	if len(rc) > 1 {
		pick = rc[w.chooseFree(len(rc))]
	}
	s := states[pick]
	if s.dir == types.RecvOnly {
		cd := w.chanData(s.c)
		if len(cd.Buf) > 0 {
			v := w.chanPop(s.c)
			return w.selectResult(x, pick, v, true)
		}
		return w.selectResult(x, pick, nil, false)
	}
	w.chanSend(fr, s.c, s.v)
	return w.selectResult(x, pick, nil, false)
}

func (w *Worker) selectResult(x *ssa.Select, idx int, recv Value, ok bool) Value {
	tup := x.Type().(*types.Tuple)
	res := make(TupleV, tup.Len())
	res[0] = w.ctx.BVConst(uint64(int64(idx)), 64)
	res[1] = w.ctx.Bool(ok)
	k := 2
	for i, s := range x.States {
		if s.Dir == types.RecvOnly {
			if i == idx && recv != nil {
				res[k] = recv
			} else {
				res[k] = w.zero(tup.At(k).Type())
			}
			k++
		}
	}
	return res
}

// chooseFree: unconstrained n-ary decision (scheduler / select nondeterminism).
func (w *Worker) chooseFree(n int) int {
	d := w.dc
	site := w.site(skFree)
	if d.pos < len(d.prefix) {
		return w.replayNext(d, site, "free choice")
	}
	d.pos++
	for i := 1; i < n; i++ {
		alt := append(append([]int{}, d.taken...), encDec(site, i))
		*d.queue = append(*d.queue, alt)
	}
	d.taken = append(d.taken, encDec(site, 0))
	return 0
}
