package main

import (
	"golang.org/x/tools/go/ssa"
)

// Intrinsics needed by the localstore harnesses (C11/C14).
func init() {
	// strings.IndexByte on a string with concrete bytes (shed.NewDB splits the
	// driver name at ':').
	reg("strings.IndexByte", func(w *Worker, fr *frame, a []Value, fn *ssa.Function) Value {
		s := a[0].(StringV)
		c, ok := a[1].(*Term).ConstU()
		if !ok || s.Opaque != 0 {
			w.unsupported("strings.IndexByte of a symbolic string/byte")
			return w.k64(-1)
		}
		for i, b := range s.B {
			v, ok := b.ConstU()
			if !ok {
				w.unsupported("strings.IndexByte of a symbolic string/byte")
				return w.k64(-1)
			}
			if v == c {
				return w.k64(i)
			}
		}
		return w.ctx.BVConst(^uint64(0), 64)
	})
}
