package main

// Intrinsics added for C27/C28 (pkg/routetab):
//   crypto/sha256.Sum256                       injective stand-in for inputs <= 31 bytes, UF beyond
//   go-ethereum/common.BytesToHash, Hash.String/Hex/Bytes   exact models
//   gogf gcache.New                            always-empty cache
//   time.Duration.Milliseconds                 exact on constants, sound over-approximation on symbolic durations

import (
	"fmt"
	"go/types"
	"sync"

	"golang.org/x/tools/go/ssa"
)

func (w *Worker) c27ByteArray(b []*Term) *ArrayV {
	arr := &ArrayV{E: make([]Value, len(b))}
	for i, t := range b {
		arr.E[i] = t
	}
	return arr
}

func (w *Worker) c27ArrayBytes(v Value) []*Term {
	a, ok := v.(*ArrayV)
	if !ok {
		w.unsupported("expected a byte array value, got %T", v)
	}
	out := make([]*Term, len(a.E))
	for i, e := range a.E {
		out[i] = e.(*Term)
	}
	return out
}

func init() {
	// sha256.Sum256: the code under test uses digests only as map keys / key
	// strings, i.e. only through equality. Under the collision-resistance
	// assumption any injective function induces the same equalities; for inputs
	// of at most 31 bytes the stand-in is the injective encoding
	// [len, b0, b1, ..., 0 padding]. Longer inputs: uninterpreted function of
	// the input bytes (no injectivity).
	reg("crypto/sha256.Sum256", func(w *Worker, fr *frame, a []Value, fn *ssa.Function) Value {
		s := a[0].(SliceV)
		n := w.sliceLenConcrete(s, "sha256.Sum256 input")
		c := w.ctx
		in := make([]*Term, n)
		for i := 0; i < n; i++ {
			in[i] = w.sliceElem(s, w.k64(i)).(*Term)
		}
		out := make([]*Term, 32)
		if n <= 31 {
			w.note("sha256.Sum256 on inputs <= 31 bytes is replaced by an injective encoding (collision resistance assumed; digests are only compared for equality)")
			out[0] = c.BVConst(uint64(n), 8)
			for i := 1; i < 32; i++ {
				if i-1 < n {
					out[i] = in[i-1]
				} else {
					out[i] = c.BVConst(0, 8)
				}
			}
		} else {
			w.note("sha256.Sum256 on inputs > 31 bytes is an uninterpreted function (no collision resistance)")
			for i := 0; i < 32; i++ {
				out[i] = c.App(fmt.Sprintf("sha256/%d/%d", n, i), BV(8), in...)
			}
		}
		return w.c27ByteArray(out)
	})

	CH := "github.com/ethereum/go-ethereum/common."
	reg(CH+"BytesToHash", func(w *Worker, fr *frame, a []Value, fn *ssa.Function) Value {
		s := a[0].(SliceV)
		n := w.sliceLenConcrete(s, "common.BytesToHash input")
		c := w.ctx
		out := make([]*Term, 32)
		for i := range out {
			out[i] = c.BVConst(0, 8)
		}
		// if len(b) > 32 { b = b[len(b)-32:] }; copy(h[32-len(b):], b)
		start := 0
		if n > 32 {
			start = n - 32
		}
		m := n - start
		for i := 0; i < m; i++ {
			out[32-m+i] = w.sliceElem(s, w.k64(start+i)).(*Term)
		}
		return w.c27ByteArray(out)
	})
	hashStr := func(w *Worker, fr *frame, a []Value, fn *ssa.Function) Value {
		h := w.hexEncode(w.c27ArrayBytes(a[0]))
		c := w.ctx
		return StringV{B: append([]*Term{c.BVConst('0', 8), c.BVConst('x', 8)}, h.B...)}
	}
	reg("("+CH+"Hash).String", hashStr)
	reg("("+CH+"Hash).Hex", hashStr)
	reg("("+CH+"Hash).Bytes", func(w *Worker, fr *frame, a []Value, fn *ssa.Function) Value {
		b := w.c27ArrayBytes(a[0])
		o := w.newObj(w.c27ByteArray(b), types.NewArray(types.Typ[types.Uint8], 32), "Hash.Bytes")
		return SliceV{Arr: PtrV{Obj: o}, Off: w.k64(0), Len: w.k64(32), Cap: w.k64(32)}
	})

	// gcache.New (package-level cache of pkg/routetab): a real *Cache value whose
	// embedded Adapter interface is a "nop" value (every method returns zero
	// values / nop values): the cache is always empty.
	reg("github.com/gogf/gf/v2/os/gcache.New", func(w *Worker, fr *frame, a []Value, fn *ssa.Function) Value {
		pt, ok := fn.Signature.Results().At(0).Type().(*types.Pointer)
		if !ok {
			w.unsupported("gcache.New: unexpected result type")
		}
		st, ok := under(pt.Elem()).(*types.Struct)
		if !ok || st.NumFields() == 0 {
			w.unsupported("gcache.New: unexpected Cache layout")
		}
		z := w.zero(pt.Elem()).(*StructV)
		nz := &StructV{F: append([]Value{}, z.F...)}
		nz.F[0] = w.nopValue(st.Field(0).Type())
		w.note("gcache cache is modelled as always empty (Contains=false, Set/Remove do nothing)")
		return PtrV{Obj: w.newObj(nz, pt.Elem(), "gcache.Cache")}
	})

	// Duration.Milliseconds = d / 1e6 truncated toward zero.
	// Constant argument: exact. Symbolic argument: the result is a fresh symbol q
	// constrained by valid facts about the real function only (sound
	// over-approximation; 64-bit division/multiplication circuits make the
	// queries undecidable in practice here):
	//   sign:  d >= 0 -> 0 <= q <= d and d>>20 <= q <= d>>19 ;  d <= 0 -> d <= q <= 0
	//   versus every earlier application on the same path
	//     - with a constant argument (result m): q >= m and q >= m+1 are tied
	//       to the exact thresholds on d, so every comparison of q with m is
	//       decided exactly as by the real function;
	//     - with a symbolic argument: monotonicity in both directions.
	// Models that depend on a value of q the real function would not produce are
	// rejected by the native replay.
	reg("(time.Duration).Milliseconds", func(w *Worker, fr *frame, a []Value, fn *ssa.Function) Value {
		d := a[0].(*Term)
		c := w.ctx
		k64 := func(v int64) *Term { return c.BVConst(uint64(v), 64) }
		var res *Term
		cs, isConst := d.ConstS()
		if isConst {
			res = k64(cs / 1_000_000)
		} else {
			w.note("time.Duration.Milliseconds of a symbolic duration is over-approximated (monotone, exact against constant operands)")
			res = c.Var("aux:"+w.fresh("ms"), BV(64))
			z := k64(0)
			w.addPC(c.And(
				// d/2^20 <= d/1e6 <= d/2^19 (shifts are cheap; keeps models plausible)
				c.Implies(c.SGe(d, z), c.And(c.SGe(res, z), c.SLe(res, d),
					c.SGe(res, c.LShr(d, k64(20))), c.SLe(res, c.LShr(d, k64(19))))),
				c.Implies(c.SLe(d, z), c.And(c.SLe(res, z), c.SGe(res, d))),
			))
		}
		// per-path list of earlier applications: w.names is a fresh map on every path
		c27msMu.Lock()
		st := c27msState[w]
		if st == nil || w.names["\x00c27ms"] == 0 {
			st = &c27ms{}
			c27msState[w] = st
			w.names["\x00c27ms"] = 1
		}
		c27msMu.Unlock()
		// q >= k  <=>  d >= thr(k)
		sharp := func(sd, sq *Term, m int64) []*Term {
			var out []*Term
			for _, k := range []int64{m, m + 1} {
				if k > 9223372036853 || k < -9223372036853 {
					continue
				}
				var thr int64
				if k >= 1 {
					thr = k * 1_000_000
				} else {
					thr = k*1_000_000 - 999_999
				}
				out = append(out, c.Eq(c.SGe(sq, k64(k)), c.SGe(sd, k64(thr))))
			}
			return out
		}
		var lem []*Term
		for _, p := range st.apps {
			pm, pConst := p.q.ConstS()
			_, pdConst := p.d.ConstS()
			switch {
			case p.d == d:
				lem = append(lem, c.Eq(p.q, res))
			case isConst && pdConst:
			case isConst:
				lem = append(lem, sharp(p.d, p.q, cs/1_000_000)...)
			case pConst && pdConst:
				lem = append(lem, sharp(d, res, pm)...)
			default:
				lem = append(lem, c.Implies(c.SLe(p.d, d), c.SLe(p.q, res)), c.Implies(c.SLe(d, p.d), c.SLe(res, p.q)))
			}
		}
		if len(lem) > 0 {
			w.addPC(c.And(lem...))
		}
		st.apps = append(st.apps, c27msApp{d, res})
		return res
	})
}

type c27msApp struct{ d, q *Term }
type c27ms struct {
	apps []c27msApp
}

var (
	c27msMu    sync.Mutex
	c27msState = map[*Worker]*c27ms{}
)
