package main

// Persistent SMT solver process (z3 -in) with global declarations and
// define-fun per DAG node.

import (
	"bufio"
	"fmt"
	"io"
	"math/big"
	"os"
	"os/exec"
	"strings"
	"time"
)

type SatResult int

const (
	Unsat SatResult = iota
	Sat
	Unknown
)

func (r SatResult) String() string { return [...]string{"unsat", "sat", "unknown"}[r] }

type Solver struct {
	ctx     *Ctx
	cmd     *exec.Cmd
	in      *bufio.Writer
	out     *bufio.Reader
	inRaw   io.WriteCloser
	declV   int // number of ctx.vars declared
	declF   int
	Queries int
	NSat    int
	NUnsat  int
	NUnk    int
	Time    time.Duration
	Errors  []string
	depth   int
	log     io.Writer
	timeout int
	Stage2  int
	HardTime time.Duration
	stage1   int
	seq      int
	stack    [][]*Term
	Restarts int
	needReset bool
	Slow     int
}

func NewSolver(ctx *Ctx, timeoutMs int) *Solver {
	s := &Solver{ctx: ctx, timeout: timeoutMs, stage1: 400}
	if v := os.Getenv("GOSYM_STAGE1"); v != "" {
		fmt.Sscanf(v, "%d", &s.stage1)
	}
	s.start()
	return s
}

func (s *Solver) start() {
	s.cmd = exec.Command("z3", "-in")
	w, _ := s.cmd.StdinPipe()
	r, _ := s.cmd.StdoutPipe()
	s.cmd.Stderr = nil
	if err := s.cmd.Start(); err != nil {
		panic(err)
	}
	s.inRaw = w
	s.in = bufio.NewWriterSize(w, 1<<16)
	s.out = bufio.NewReaderSize(r, 1<<16)
	s.send("(set-option :global-declarations true)")
	s.send("(set-option :produce-models true)")
}

// restart replaces the solver process (after a timeout the incremental core of
// z3 4.8.12 has been observed to answer unsat wrongly) and replays the stack.
func (s *Solver) restart() {
	s.Restarts++
	if s.cmd != nil {
		s.inRaw.Close()
		s.cmd.Process.Kill()
		s.cmd.Wait()
		s.cmd = nil
	}
	for _, t := range s.ctx.tab {
		t.def = false
	}
	s.declV, s.declF = 0, 0
	s.start()
	for i, lvl := range s.stack {
		if i > 0 || s.depth == len(s.stack) {
			s.send("(push 1)")
		}
		for _, t := range lvl {
			s.define(t)
			s.send("(assert " + t.ref() + ")")
		}
	}
}

func (s *Solver) Close() {
	if s.cmd != nil {
		s.send("(exit)")
		s.in.Flush()
		s.inRaw.Close()
		s.cmd.Wait()
		s.cmd = nil
	}
}

func (s *Solver) send(line string) {
	if s.needReset && !strings.HasPrefix(line, "(get-value") && !strings.HasPrefix(line, "(echo") {
		s.needReset = false
		s.send("(set-option :timeout 4294967295)")
	}
	if s.log != nil {
		fmt.Fprintln(s.log, line)
	}
	s.in.WriteString(line)
	s.in.WriteByte('\n')
}

// define ensures t and all its descendants are defined in the solver.
func (s *Solver) define(t *Term) {
	s.declare()
	if t.def {
		return
	}
	if _, leaf := t.leafString(); leaf {
		return
	}
	// iterative post-order
	type item struct {
		t *Term
		i int
	}
	stack := []item{{t, 0}}
	for len(stack) > 0 {
		top := &stack[len(stack)-1]
		if top.t.def {
			stack = stack[:len(stack)-1]
			continue
		}
		if top.i < len(top.t.args) {
			a := top.t.args[top.i]
			top.i++
			if !a.def {
				if _, leaf := a.leafString(); !leaf {
					stack = append(stack, item{a, 0})
				}
			}
			continue
		}
		x := top.t
		s.send(fmt.Sprintf("(define-fun t%d () %s %s)", x.id, x.sort.String(), x.body()))
		x.def = true
		stack = stack[:len(stack)-1]
	}
}

func (s *Solver) declare() {
	for ; s.declV < len(s.ctx.vars); s.declV++ {
		v := s.ctx.vars[s.declV]
		s.send(fmt.Sprintf("(declare-const %s %s)", smtName(v.name+sortSuffix(v.sort)), v.sort.String()))
	}
	for ; s.declF < len(s.ctx.ufList); s.declF++ {
		d := s.ctx.ufList[s.declF]
		var as []string
		for _, a := range d.args {
			as = append(as, a.String())
		}
		s.send(fmt.Sprintf("(declare-fun %s (%s) %s)", smtName(d.name), strings.Join(as, " "), d.ret.String()))
	}
}

func (s *Solver) Push() {
	s.send("(push 1)")
	s.depth++
	s.stack = append(s.stack, nil)
}
func (s *Solver) Pop() {
	s.send("(pop 1)")
	s.depth--
	s.stack = s.stack[:len(s.stack)-1]
}

func (s *Solver) Assert(t *Term) {
	if t.IsTrue() {
		return
	}
	s.define(t)
	s.send("(assert " + t.ref() + ")")
	if len(s.stack) == 0 {
		s.stack = append(s.stack, nil)
	}
	s.stack[len(s.stack)-1] = append(s.stack[len(s.stack)-1], t)
}

func (s *Solver) allAsserts() []*Term {
	var out []*Term
	for _, l := range s.stack {
		out = append(out, l...)
	}
	return out
}

func (s *Solver) readLine() string {
	s.in.Flush()
	line, err := s.out.ReadString('\n')
	if err != nil {
		s.Errors = append(s.Errors, "solver died: "+err.Error())
		return fmt.Sprintf("<<%d>>", s.seq)
	}
	return strings.TrimSpace(line)
}

// CheckHard is for assertion queries: bit-blasting tactic first.
func (s *Solver) CheckHard() SatResult {
	if s.ctx.hasInt || true {
		return s.Check()
	}
	t0 := time.Now()
	s.Queries++
	s.send(fmt.Sprintf("(set-option :timeout %d)", s.timeout))
	s.send("(check-sat-using (or-else qfaufbv smt))")
	r := s.readResult()
	switch r {
	case Sat:
		s.NSat++
	case Unsat:
		s.NUnsat++
	default:
		s.NUnk++
	}
	s.HardTime += time.Since(t0)
	s.Time += time.Since(t0)
	return r
}

func (s *Solver) Check() SatResult {
	t0 := time.Now()
	s.Queries++
	// stage 1: incremental core with a short timeout; stage 2: bit-blasting
	// tactic on the whole assertion stack (much stronger on BV arithmetic).
	quick := s.timeout
	if quick > s.stage1 {
		quick = s.stage1
	}
	s.send(fmt.Sprintf("(set-option :timeout %d)", quick))
	s.send("(check-sat)")
	r := s.readResult()
	if r == Unknown {
		s.Stage2++
		s.restart()
		s.send(fmt.Sprintf("(set-option :timeout %d)", s.timeout))
		if s.ctx.hasInt {
			s.send("(check-sat)")
		} else {
			s.send("(check-sat-using (or-else qfaufbv smt))")
		}
		r = s.readResult()
		if d := os.Getenv("GOSYM_DUMP2"); d != "" {
			os.MkdirAll(d, 0o755)
			os.WriteFile(fmt.Sprintf("%s/q-%d-%d-%s.smt2", d, os.Getpid(), s.seq, r), []byte(s.ctx.Script(s.allAsserts())), 0o644)
		}
	}
	if r == Unknown {
		s.restart()
	}
	// no timeout outside check-sat: a timeout firing inside push/assert
	// ("push canceled") would desynchronise the assertion stack. The reset is
	// sent lazily (before the next non-query command) because set-option
	// invalidates the model that get-value reads.
	s.needReset = true
	switch r {
	case Sat:
		s.NSat++
	case Unsat:
		s.NUnsat++
	default:
		s.NUnk++
	}
	s.Time += time.Since(t0)
	return r
}

func (s *Solver) readResult() SatResult {
	// synchronise on an echo marker so that stray output can never shift answers
	s.seq++
	marker := fmt.Sprintf("<<%d>>", s.seq)
	s.send("(echo \"" + marker + "\")")
	res := Unknown
	got := 0
	for {
		line := s.readLine()
		if line == marker || line == "\""+marker+"\"" {
			break
		}
		if strings.HasPrefix(line, "(error") {
			s.Errors = append(s.Errors, line)
			continue
		}
		switch line {
		case "sat":
			res = Sat
			got++
		case "unsat":
			res = Unsat
			got++
		case "unknown", "timeout":
			res = Unknown
			got++
		case "":
		default:
			if strings.HasPrefix(line, "unknown") {
				res = Unknown
				got++
				break
			}
			s.Errors = append(s.Errors, "unexpected solver output: "+line)
			if strings.Contains(line, "solver died") {
				return Unknown
			}
		}
	}
	if got != 1 {
		s.Errors = append(s.Errors, fmt.Sprintf("solver gave %d answers to one check", got))
		return Unknown
	}
	return res
}

// CheckWith checks satisfiability of current assertions plus extra.
func (s *Solver) CheckWith(extra ...*Term) SatResult {
	for _, e := range extra {
		if e.IsFalse() {
			return Unsat
		}
	}
	s.Push()
	for _, e := range extra {
		s.Assert(e)
	}
	r := s.Check()
	s.Pop()
	return r
}

// readSexp reads one balanced s-expression from solver output.
func (s *Solver) readSexp() string {
	s.in.Flush()
	var sb strings.Builder
	depth := 0
	started := false
	inBar := false
	inStr := false
	for {
		b, err := s.out.ReadByte()
		if err != nil {
			s.Errors = append(s.Errors, "solver died reading sexp")
			return sb.String()
		}
		sb.WriteByte(b)
		if inBar {
			if b == '|' {
				inBar = false
			}
			continue
		}
		if inStr {
			if b == '"' {
				inStr = false
			}
			continue
		}
		switch b {
		case '|':
			inBar = true
		case '"':
			inStr = true
		case '(':
			depth++
			started = true
		case ')':
			depth--
		}
		if started && depth == 0 {
			return sb.String()
		}
	}
}

// Value: model value after a Sat check (must be called while the assertions of
// the sat check are still in scope, i.e. before Pop).
type ModelVal struct {
	IsBool bool
	B      bool
	U      uint64
	W      int
	I      *big.Int // Int sort
}

func (s *Solver) GetValues(ts []*Term) []ModelVal {
	out := make([]ModelVal, len(ts))
	// batch in groups to keep lines reasonable
	const G = 200
	for base := 0; base < len(ts); base += G {
		end := base + G
		if end > len(ts) {
			end = len(ts)
		}
		var sb strings.Builder
		sb.WriteString("(get-value (")
		for _, t := range ts[base:end] {
			s.define(t)
			sb.WriteString(t.ref() + " ")
		}
		sb.WriteString("))")
		s.send(sb.String())
		resp := s.readSexp()
		if strings.HasPrefix(strings.TrimSpace(resp), "(error") {
			s.Errors = append(s.Errors, resp)
			continue
		}
		vals := parseGetValue(resp)
		for i := range ts[base:end] {
			if i < len(vals) {
				out[base+i] = parseModelVal(vals[i], ts[base+i].sort)
			}
		}
	}
	return out
}

// parseGetValue splits "((a v) (b v))" into the value strings.
func parseGetValue(resp string) []string {
	toks := tokenize(resp)
	// parse into tree
	pos := 0
	var parse func() interface{}
	parse = func() interface{} {
		if pos >= len(toks) {
			return nil
		}
		t := toks[pos]
		pos++
		if t == "(" {
			var l []interface{}
			for pos < len(toks) && toks[pos] != ")" {
				l = append(l, parse())
			}
			pos++
			return l
		}
		return t
	}
	root, _ := parse().([]interface{})
	var out []string
	for _, p := range root {
		pair, ok := p.([]interface{})
		if !ok || len(pair) != 2 {
			out = append(out, "")
			continue
		}
		out = append(out, sexpString(pair[1]))
	}
	return out
}

func sexpString(x interface{}) string {
	switch v := x.(type) {
	case string:
		return v
	case []interface{}:
		var parts []string
		for _, e := range v {
			parts = append(parts, sexpString(e))
		}
		return "(" + strings.Join(parts, " ") + ")"
	}
	return ""
}

func tokenize(s string) []string {
	var toks []string
	i := 0
	for i < len(s) {
		c := s[i]
		switch {
		case c == '(' || c == ')':
			toks = append(toks, string(c))
			i++
		case c == ' ' || c == '\n' || c == '\t' || c == '\r':
			i++
		case c == '|':
			j := i + 1
			for j < len(s) && s[j] != '|' {
				j++
			}
			toks = append(toks, s[i:j+1])
			i = j + 1
		default:
			j := i
			for j < len(s) && !strings.ContainsRune("() \n\t\r", rune(s[j])) {
				j++
			}
			toks = append(toks, s[i:j])
			i = j
		}
	}
	return toks
}

func parseModelVal(v string, sort Sort) ModelVal {
	v = strings.TrimSpace(v)
	switch sort.K {
	case SBool:
		return ModelVal{IsBool: true, B: v == "true"}
	case SBV:
		var u uint64
		if strings.HasPrefix(v, "#x") {
			fmt.Sscanf(v[2:], "%x", &u)
		} else if strings.HasPrefix(v, "#b") {
			for _, ch := range v[2:] {
				u = u<<1 | uint64(ch-'0')
			}
		} else if strings.HasPrefix(v, "(_ bv") {
			fmt.Sscanf(v, "(_ bv%d", &u)
		}
		return ModelVal{U: u, W: sort.W}
	case SInt:
		n := new(big.Int)
		if strings.HasPrefix(v, "(-") {
			x := strings.TrimSpace(strings.TrimSuffix(strings.TrimPrefix(v, "(-"), ")"))
			n.SetString(x, 10)
			n.Neg(n)
		} else {
			n.SetString(v, 10)
		}
		return ModelVal{I: n}
	}
	return ModelVal{}
}

// Standalone script for cross-checking a query with another solver.
func (c *Ctx) Script(asserts []*Term) string {
	var sb strings.Builder
	sb.WriteString("(set-option :produce-models false)\n")
	seen := map[int]bool{}
	var vars []*Term
	ufs := map[string]bool{}
	var ufl []*UFDecl
	var order []*Term
	var visit func(t *Term)
	visit = func(t *Term) {
		if seen[t.id] {
			return
		}
		seen[t.id] = true
		for _, a := range t.args {
			visit(a)
		}
		if t.op == OVar {
			vars = append(vars, t)
			return
		}
		if t.op == OApp && !ufs[t.name] {
			ufs[t.name] = true
			ufl = append(ufl, c.ufs[t.name])
		}
		if _, leaf := t.leafString(); !leaf {
			order = append(order, t)
		}
	}
	for _, a := range asserts {
		visit(a)
	}
	for _, v := range vars {
		fmt.Fprintf(&sb, "(declare-const %s %s)\n", smtName(v.name+sortSuffix(v.sort)), v.sort.String())
	}
	for _, d := range ufl {
		var as []string
		for _, a := range d.args {
			as = append(as, a.String())
		}
		fmt.Fprintf(&sb, "(declare-fun %s (%s) %s)\n", smtName(d.name), strings.Join(as, " "), d.ret.String())
	}
	for _, t := range order {
		fmt.Fprintf(&sb, "(define-fun t%d () %s %s)\n", t.id, t.sort.String(), t.body())
	}
	for _, a := range asserts {
		fmt.Fprintf(&sb, "(assert %s)\n", a.ref())
	}
	sb.WriteString("(check-sat)\n")
	return sb.String()
}

// RunExternal runs a standalone script through another solver binary.
func RunExternal(bin []string, script string, timeout time.Duration) (SatResult, string) {
	cmd := exec.Command(bin[0], bin[1:]...)
	cmd.Stdin = strings.NewReader(script)
	done := make(chan struct{})
	var out []byte
	var err error
	go func() { out, err = cmd.CombinedOutput(); close(done) }()
	select {
	case <-done:
	case <-time.After(timeout):
		if cmd.Process != nil {
			cmd.Process.Kill()
		}
		<-done
		return Unknown, "timeout"
	}
	_ = err
	txt := strings.TrimSpace(string(out))
	if strings.Contains(txt, "(error") || strings.Contains(txt, "rror:") {
		return Unknown, txt
	}
	lines := strings.Split(txt, "\n")
	switch strings.TrimSpace(lines[len(lines)-1]) {
	case "sat":
		return Sat, txt
	case "unsat":
		return Unsat, txt
	}
	return Unknown, txt
}
