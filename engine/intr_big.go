package main

// math/big.Int as a heap cell holding an SMT Int; time; misc std intrinsics.

import (
	"go/types"

	"golang.org/x/tools/go/ssa"
)

func (w *Worker) newBig(n *Term) PtrV {
	o := w.newObj(&BigData{N: n}, nil, "big.Int")
	return PtrV{Obj: o}
}

func (w *Worker) bigGet(v Value) *Term {
	p := v.(PtrV)
	if p.Obj == nil {
		w.goPanic("invalid memory address or nil pointer dereference (nil *big.Int)")
	}
	switch x := w.load(p).(type) {
	case *BigData:
		return x.N
	case *StructV: // zero big.Int inside a struct / new(big.Int)
		return w.ctx.IntConst64(0)
	}
	w.unsupported("big.Int cell holds %T", w.load(p))
	return nil
}

func (w *Worker) bigSet(v Value, n *Term) Value {
	p := v.(PtrV)
	if p.Obj == nil {
		w.goPanic("invalid memory address or nil pointer dereference (nil *big.Int)")
	}
	w.store(p, &BigData{N: n})
	return p
}

func init() {
	B := "(*math/big.Int)."
	reg("math/big.NewInt", func(w *Worker, fr *frame, a []Value, fn *ssa.Function) Value {
		return w.newBig(w.ctx.Bv2IntSigned(a[0].(*Term)))
	})
	bin := func(name string, f func(c *Ctx, x, y *Term) *Term) {
		reg(B+name, func(w *Worker, fr *frame, a []Value, fn *ssa.Function) Value {
			x, y := w.bigGet(a[1]), w.bigGet(a[2])
			return w.bigSet(a[0], f(w.ctx, x, y))
		})
	}
	bin("Add", func(c *Ctx, x, y *Term) *Term { return c.IAdd(x, y) })
	bin("Sub", func(c *Ctx, x, y *Term) *Term { return c.ISub(x, y) })
	bin("Mul", func(c *Ctx, x, y *Term) *Term { return c.IMul(x, y) })
	reg(B+"Set", func(w *Worker, fr *frame, a []Value, fn *ssa.Function) Value {
		return w.bigSet(a[0], w.bigGet(a[1]))
	})
	reg(B+"Neg", func(w *Worker, fr *frame, a []Value, fn *ssa.Function) Value {
		return w.bigSet(a[0], w.ctx.INeg(w.bigGet(a[1])))
	})
	reg(B+"Abs", func(w *Worker, fr *frame, a []Value, fn *ssa.Function) Value {
		x := w.bigGet(a[1])
		c := w.ctx
		return w.bigSet(a[0], c.Ite(c.ILt(x, c.IntConst64(0)), c.INeg(x), x))
	})
	reg(B+"SetInt64", func(w *Worker, fr *frame, a []Value, fn *ssa.Function) Value {
		return w.bigSet(a[0], w.ctx.Bv2IntSigned(a[1].(*Term)))
	})
	reg(B+"SetUint64", func(w *Worker, fr *frame, a []Value, fn *ssa.Function) Value {
		return w.bigSet(a[0], w.ctx.Bv2Nat(a[1].(*Term)))
	})
	reg(B+"Cmp", func(w *Worker, fr *frame, a []Value, fn *ssa.Function) Value {
		x, y := w.bigGet(a[0]), w.bigGet(a[1])
		c := w.ctx
		return c.Ite(c.ILt(x, y), c.BVConst(^uint64(0), 64), c.Ite(c.ILt(y, x), c.BVConst(1, 64), c.BVConst(0, 64)))
	})
	reg(B+"Sign", func(w *Worker, fr *frame, a []Value, fn *ssa.Function) Value {
		x := w.bigGet(a[0])
		c := w.ctx
		z := c.IntConst64(0)
		return c.Ite(c.ILt(x, z), c.BVConst(^uint64(0), 64), c.Ite(c.ILt(z, x), c.BVConst(1, 64), c.BVConst(0, 64)))
	})
	// Int64/Uint64: low 64 bits without int2bv, see intr_C30s.go (c30sLow64)
	reg(B+"Int64", c30sLow64)
	reg(B+"Uint64", c30sLow64)
	reg(B+"String", func(w *Worker, fr *frame, a []Value, fn *ssa.Function) Value {
		p := a[0].(PtrV)
		if p.Obj == nil {
			return strV(w.ctx, "<nil>")
		}
		if n := w.bigGet(a[0]); n.IsConst() {
			return strV(w.ctx, n.iv.String())
		}
		return StringV{Opaque: w.newID()}
	})
	reg(B+"IsInt64", func(w *Worker, fr *frame, a []Value, fn *ssa.Function) Value {
		x := w.bigGet(a[0])
		c := w.ctx
		return c.And(c.ILe(c.IntConst64(-1<<63), x), c.ILe(x, c.IntConst64(1<<63-1)))
	})
}

// ---- time ----
// time.Time is its real struct {wall uint64; ext int64; loc *Location}; the
// engine keeps wall = 0, loc = nil and ext = nanoseconds on an arbitrary axis.

func (w *Worker) timeVal(ns *Term, t types.Type) Value {
	z := w.zero(t).(*StructV)
	nz := &StructV{F: append([]Value{}, z.F...)}
	nz.F[1] = ns
	return nz
}

func (w *Worker) timeNS(v Value) *Term { return v.(*StructV).F[1].(*Term) }

func (w *Worker) clockRead(name string) *Term {
	c := w.ctx
	t := w.inputScalar(name, 64, "num")
	lo := c.BVConst(1, 64)
	if w.clockLast != nil {
		lo = w.clockLast
	}
	w.addPC(c.And(c.SLe(lo, t), c.SLe(t, c.BVConst(1<<61, 64))))
	w.clockLast = t
	return t
}

func init() {
	reg("time.Now", func(w *Worker, fr *frame, a []Value, fn *ssa.Function) Value {
		return w.timeVal(w.clockRead("clock"), fn.Signature.Results().At(0).Type())
	})
	T := "(time.Time)."
	reg(T+"Sub", func(w *Worker, fr *frame, a []Value, fn *ssa.Function) Value {
		return w.ctx.Sub(w.timeNS(a[0]), w.timeNS(a[1]))
	})
	reg(T+"Add", func(w *Worker, fr *frame, a []Value, fn *ssa.Function) Value {
		return w.timeVal(w.ctx.Add(w.timeNS(a[0]), a[1].(*Term)), fn.Signature.Results().At(0).Type())
	})
	reg(T+"After", func(w *Worker, fr *frame, a []Value, fn *ssa.Function) Value {
		return w.ctx.SLt(w.timeNS(a[1]), w.timeNS(a[0]))
	})
	reg(T+"Before", func(w *Worker, fr *frame, a []Value, fn *ssa.Function) Value {
		return w.ctx.SLt(w.timeNS(a[0]), w.timeNS(a[1]))
	})
	reg(T+"Equal", func(w *Worker, fr *frame, a []Value, fn *ssa.Function) Value {
		return w.ctx.Eq(w.timeNS(a[0]), w.timeNS(a[1]))
	})
	reg(T+"IsZero", func(w *Worker, fr *frame, a []Value, fn *ssa.Function) Value {
		return w.ctx.Eq(w.timeNS(a[0]), w.ctx.BVConst(0, 64))
	})
	reg(T+"UnixNano", func(w *Worker, fr *frame, a []Value, fn *ssa.Function) Value {
		return w.timeNS(a[0])
	})
	reg("time.Since", func(w *Worker, fr *frame, a []Value, fn *ssa.Function) Value {
		return w.ctx.Sub(w.clockRead("clock"), w.timeNS(a[0]))
	})
	// context: opaque, never cancelled
	ctxVal := func(w *Worker) Value {
		return IfaceV{T: nopType, V: &OpaqueV{Kind: "context", ID: w.newID()}}
	}
	reg("context.Background", func(w *Worker, fr *frame, a []Value, fn *ssa.Function) Value { return ctxVal(w) })
	reg("context.TODO", func(w *Worker, fr *frame, a []Value, fn *ssa.Function) Value { return ctxVal(w) })
	cancelFn := func(w *Worker) Value { return &ClosureV{Intr: "noop"} }
	reg("context.WithCancel", func(w *Worker, fr *frame, a []Value, fn *ssa.Function) Value {
		return TupleV{a[0], cancelFn(w)}
	})
	reg("context.WithTimeout", func(w *Worker, fr *frame, a []Value, fn *ssa.Function) Value {
		return TupleV{a[0], cancelFn(w)}
	})
	reg("context.WithDeadline", func(w *Worker, fr *frame, a []Value, fn *ssa.Function) Value {
		return TupleV{a[0], cancelFn(w)}
	})
	reg("context.WithValue", func(w *Worker, fr *frame, a []Value, fn *ssa.Function) Value { return a[0] })
	intrClosures["noop"] = func(w *Worker, fr *frame, cl *ClosureV, args []Value) Value { return nil }

	// encoding/binary
	for _, e := range []struct {
		recv string
		big  bool
	}{{"(encoding/binary.bigEndian).", true}, {"(encoding/binary.littleEndian).", false}} {
		e := e
		for _, n := range []int{2, 4, 8} {
			n := n
			suffix := map[int]string{2: "16", 4: "32", 8: "64"}[n]
			reg(e.recv+"Uint"+suffix, func(w *Worker, fr *frame, a []Value, fn *ssa.Function) Value {
				s := a[1].(SliceV)
				w.rtCheck(w.ctx.UGe(w.lenOf(s), w.k64(n)), "index out of range (binary.Uint)")
				var r *Term
				for i := 0; i < n; i++ {
					var idx int
					if e.big {
						idx = i
					} else {
						idx = n - 1 - i
					}
					b := w.sliceElem(s, w.k64(idx)).(*Term)
					if r == nil {
						r = b
					} else {
						r = w.ctx.Concat(r, b)
					}
				}
				return r
			})
			reg(e.recv+"PutUint"+suffix, func(w *Worker, fr *frame, a []Value, fn *ssa.Function) Value {
				s := a[1].(SliceV)
				v := a[2].(*Term)
				w.rtCheck(w.ctx.UGe(w.lenOf(s), w.k64(n)), "index out of range (binary.PutUint)")
				for i := 0; i < n; i++ {
					var sh int
					if e.big {
						sh = 8 * (n - 1 - i)
					} else {
						sh = 8 * i
					}
					w.store(w.sliceElemPtr(s, w.k64(i)), w.ctx.Extract(v, sh+7, sh))
				}
				return nil
			})
		}
	}

	// encoding/hex
	reg("encoding/hex.EncodeToString", func(w *Worker, fr *frame, a []Value, fn *ssa.Function) Value {
		s := w.bytesToString(a[0].(SliceV))
		return w.hexEncode(s.B)
	})
}
