package main

// Region merging ("veritesting"): at a symbolic If whose block has an
// immediate post-dominator J inside the function, both sides are explored up
// to J and the resulting states are merged (phi values and heap cells become
// ite-terms) instead of forking the whole path.

import (
	"fmt"

	"golang.org/x/tools/go/ssa"
)

const (
	decMergeOK   = -1
	decMergeFail = -2
)

type regionEscape struct{ why string }

// ---- post-dominators ----

type pdomInfo struct {
	ipdom map[*ssa.BasicBlock]*ssa.BasicBlock
}

func (w *Worker) joinBlock(fn *ssa.Function, b *ssa.BasicBlock) *ssa.BasicBlock {
	pi, ok := w.pdoms[fn]
	if !ok {
		pi = computePdom(fn)
		w.pdoms[fn] = pi
	}
	return pi.ipdom[b]
}

func computePdom(fn *ssa.Function) *pdomInfo {
	n := len(fn.Blocks)
	exit := n
	words := (n + 1 + 63) / 64
	type bs []uint64
	full := func() bs {
		s := make(bs, words)
		for i := 0; i <= n; i++ {
			s[i/64] |= 1 << uint(i%64)
		}
		return s
	}
	sets := make([]bs, n+1)
	for i := 0; i < n; i++ {
		sets[i] = full()
	}
	sets[exit] = make(bs, words)
	sets[exit][exit/64] |= 1 << uint(exit%64)
	succs := func(i int) []int {
		b := fn.Blocks[i]
		if len(b.Succs) == 0 {
			return []int{exit}
		}
		var r []int
		for _, s := range b.Succs {
			r = append(r, s.Index)
		}
		return r
	}
	changed := true
	for changed {
		changed = false
		for i := n - 1; i >= 0; i-- {
			ns := full()
			for _, s := range succs(i) {
				for k := range ns {
					ns[k] &= sets[s][k]
				}
			}
			ns[i/64] |= 1 << uint(i%64)
			for k := range ns {
				if ns[k] != sets[i][k] {
					changed = true
				}
			}
			sets[i] = ns
		}
	}
	has := func(s bs, i int) bool { return s[i/64]&(1<<uint(i%64)) != 0 }
	count := func(s bs) int {
		c := 0
		for i := 0; i <= n; i++ {
			if has(s, i) {
				c++
			}
		}
		return c
	}
	pi := &pdomInfo{ipdom: map[*ssa.BasicBlock]*ssa.BasicBlock{}}
	for i := 0; i < n; i++ {
		if !has(sets[i], exit) {
			continue // cannot reach exit
		}
		if count(sets[i]) == n+1 && n > 1 {
			// degenerate (unreachable-from-exit component)
		}
		best, bestC := -1, -1
		for p := 0; p <= n; p++ {
			if p == i || !has(sets[i], p) {
				continue
			}
			c := count(sets[p])
			if c > bestC {
				best, bestC = p, c
			}
		}
		if best >= 0 && best != exit {
			pi.ipdom[fn.Blocks[i]] = fn.Blocks[best]
		}
	}
	return pi
}

// ---- running a region ----

// runRegion executes blocks of fr starting at fr.block until control is about
// to enter stop. Returns the predecessor block through which stop was reached.
func (w *Worker) runRegion(fr *frame, stop *ssa.BasicBlock) {
	for {
		if fr.block == stop {
			return
		}
		w.execBlock(fr)
		if fr.block == nil {
			panic(regionEscape{"return inside region"})
		}
	}
}

type regOutcome struct {
	outcome
	phis []Value
}

// tryRegionMerge returns true if the If was handled by merging (fr.block = J).
func (w *Worker) tryRegionMerge(fr *frame, x *ssa.If, cnd *Term, J *ssa.BasicBlock) bool {
	d := w.dc
	site := w.site(skMerge)
	replaying := false
	if d.pos < len(d.prefix) {
		code := w.replayNext(d, site, "region merge")
		if code == decMergeFail {
			// mirror the counter update of the original execution
			if w.mergeFails[x] < 2 {
				w.mergeFails[x]++
			}
			return false
		}
		if code != decMergeOK {
			panic(pathAbort{abError, fmt.Sprintf("internal: decision desync at region merge (code %d)", code) + w.where()})
		}
		replaying = true
	} else {
		d.pos++
		if w.mergeFails[x] >= 2 || w.regionDepth >= w.prog.maxRegionDepth {
			d.taken = append(d.taken, encDec(site, decMergeFail))
			return false
		}
	}
	// reserve the decision slot before merging: regionMerge may take outer
	// decisions (choose between merged state and panics) which must follow it
	slot := -1
	if !replaying {
		slot = len(d.taken)
		d.taken = append(d.taken, encDec(site, decMergeOK))
	}
	// failed attempts must leave no trace in the blacklist except their own
	// entry: a re-execution skips them (decMergeFail) and would not repeat the
	// nested attempts
	var failSnap map[ssa.Instruction]int
	if !replaying {
		failSnap = make(map[ssa.Instruction]int, len(w.mergeFails))
		for k, v := range w.mergeFails {
			failSnap[k] = v
		}
	}
	ok := w.regionMerge(fr, x, cnd, J)
	if replaying {
		if !ok {
			panic(pathAbort{abError, "internal: region merge failed on replay but succeeded before: " + w.mergeWhy + w.where()})
		}
		return true
	}
	if !ok {
		d.taken[slot] = encDec(site, decMergeFail)
		w.mergeFails = failSnap
		w.mergeFails[x]++
	}
	return ok
}

func (w *Worker) regionMerge(fr *frame, x *ssa.If, cnd *Term, J *ssa.BasicBlock) bool {
	c := w.ctx
	saved := w.dc
	savedCur, savedDepth := w.cur, w.depth
	origBlock, origPrev := fr.block, fr.prev
	baseDefers := len(fr.defers)
	baseInputs := len(w.inputs)
	baseGor := w.gor
	baseRegions := len(w.regions)
	_ = baseRegions
	w.regionDepth++
	defer func() { w.regionDepth-- }()
	// phis at J
	var phis []*ssa.Phi
	for _, in := range J.Instrs {
		p, ok := in.(*ssa.Phi)
		if !ok {
			break
		}
		phis = append(phis, p)
	}
	// Values defined in blocks that dominate J can be used after J without a
	// phi; if the region re-executes such a block (loops: the If's own block
	// and the loop header) their env slots are merge outputs too.
	domSlots := w.domSlots(fr, J)
	envSnap := append([]Value{}, fr.env...)
	namesSnap := map[string]int{}
	for k, v := range w.names {
		namesSnap[k] = v
	}
	symSnap := map[ssa.Instruction]int{}
	for k, v := range fr.symCount {
		symSnap[k] = v
	}
	regionsSnap := map[string]*Term{}
	for k, v := range w.regions {
		regionsSnap[k] = v
	}
	restoreNames := func() {
		w.names = map[string]int{}
		for k, v := range namesSnap {
			w.names[k] = v
		}
		w.regions = map[string]*Term{}
		for k, v := range regionsSnap {
			w.regions[k] = v
		}
		// unwinding counters of this frame are per explored sub-path
		fr.symCount = map[ssa.Instruction]int{}
		for k, v := range symSnap {
			fr.symCount[k] = v
		}
	}
	regionsChanged := func() bool {
		if len(w.regions) != len(regionsSnap) {
			return true
		}
		for k, v := range w.regions {
			if regionsSnap[k] != v {
				return true
			}
		}
		return false
	}
	var outs []regOutcome
	queue := [][]int{{}}
	fail := false
	restore := func() {
		w.dc = saved
		w.cur, w.depth = savedCur, savedDepth
		fr.block, fr.prev = origBlock, origPrev
		fr.instr = x
		if len(fr.defers) > baseDefers {
			fr.defers = fr.defers[:baseDefers]
		}
		if len(w.inputs) > baseInputs {
			w.inputs = w.inputs[:baseInputs]
		}
	}
	for len(queue) > 0 && !fail {
		pre := queue[len(queue)-1]
		queue = queue[:len(queue)-1]
		var newq [][]int
		w.dc = &dctx{prefix: pre, queue: &newq}
		mark := w.newMark()
		pcMark := len(w.pc)
		w.solver.Push()
		var o regOutcome
		aborted := false
		copy(fr.env, envSnap)
		func() {
			defer func() {
				if r := recover(); r != nil {
					switch y := r.(type) {
					case targetPanic:
						o.pan = &y
					case regionEscape:
						fail = true
						w.mergeWhy = "escape: " + y.why
					case pathAbort:
						if y.kind == abInfeasible {
							aborted = true
							return
						}
						if w.prog.lazyRegions && y.kind != abKilled && w.solver.Check() == Unsat {
							// the sub-path was only explored lazily and is infeasible
							aborted = true
							return
						}
						w.rollback(mark)
						w.truncPC(pcMark)
						w.solver.Pop()
						copy(fr.env, envSnap)
						restoreNames()
						restore()
						panic(r)
					default:
						panic(r)
					}
				}
			}()
			if w.prog.lazyRegions && !isLoopHeader(origBlock) {
				w.lazyNext = true
			}
			w.cur = fr
			fr.instr = x
			t := w.branch(cnd)
			w.lazyNext = false
			fr.prev = origBlock
			if t {
				fr.block = origBlock.Succs[0]
			} else {
				fr.block = origBlock.Succs[1]
			}
			w.cur = fr
			w.runRegion(fr, J)
			// phi operands as seen from this sub-path
			pi := -1
			for i, p := range J.Preds {
				if p == fr.prev {
					pi = i
				}
			}
			o.phis = make([]Value, len(phis))
			if fr.skipPhi {
				// a nested merge already landed on J and assigned its phis
				fr.skipPhi = false
				for i, p := range phis {
					o.phis[i] = w.get(fr, p)
				}
			} else {
				for i, p := range phis {
					o.phis[i] = w.get(fr, p.Edges[pi])
				}
			}
			for _, sl := range domSlots {
				o.phis = append(o.phis, fr.env[sl])
			}
		}()
		if len(fr.defers) != baseDefers || len(w.inputs) != baseInputs || w.gor != baseGor || regionsChanged() {
			fail = true
			w.mergeWhy = fmt.Sprintf("side effects: defers %d/%d inputs %d/%d gor %v regions %d/%d", len(fr.defers), baseDefers, len(w.inputs), baseInputs, w.gor != baseGor, len(w.regions), baseRegions)
		}
		o.cond = c.And(w.pc[pcMark:]...)
		seen := map[*Object]bool{}
		o.syncW = map[string]int{}
		for i := len(w.journal) - 1; i >= mark; i-- {
			j := w.journal[i]
			if j.isSync {
				if _, ok := o.syncW[j.key]; !ok {
					o.syncW[j.key] = w.syncTab[j.key]
				}
				continue
			}
			if !seen[j.obj] {
				seen[j.obj] = true
				o.writes = append(o.writes, jent{obj: j.obj, old: j.obj.val})
			}
		}
		w.rollback(mark)
		w.truncPC(pcMark)
		w.solver.Pop()
		restoreNames()
		w.cur, w.depth = savedCur, savedDepth
		if len(fr.defers) > baseDefers {
			fr.defers = fr.defers[:baseDefers]
		}
		if len(w.inputs) > baseInputs {
			w.inputs = w.inputs[:baseInputs]
		}
		queue = append(queue, newq...)
		if !aborted && !fail {
			outs = append(outs, o)
		}
		if len(outs) > w.prog.maxRegionPaths {
			fail = true
			w.mergeWhy = "too many sub-paths"
		}
	}
	restore()
	copy(fr.env, envSnap)
	if fail {
		return false
	}
	if len(outs) == 0 {
		panic(pathAbort{abInfeasible, "no feasible path through region"})
	}
	var normal, pans []regOutcome
	for _, o := range outs {
		if o.pan != nil {
			pans = append(pans, o)
		} else {
			normal = append(normal, o)
		}
	}
	var groups []regOutcome
	if len(normal) > 0 {
		plain := make([]outcome, len(normal))
		for i, o := range normal {
			plain[i] = o.outcome
			plain[i].res = TupleV(o.phis)
		}
		m, ok := w.mergeOutcomes(plain)
		if !ok {
			w.mergeWhy = fmt.Sprintf("outcomes of %d sub-paths not mergeable", len(plain))
			return false
		}
		groups = append(groups, regOutcome{outcome: m, phis: []Value(m.res.(TupleV))})
	}
	groups = append(groups, pans...)
	pick := 0
	if len(groups) > 1 {
		conds := make([]*Term, len(groups))
		for i, g := range groups {
			conds[i] = g.cond
		}
		pick = w.choose(conds)
	} else {
		w.addPC(groups[0].cond)
	}
	g := groups[pick]
	for _, wr := range g.writes {
		w.setObj(wr.obj, wr.old)
	}
	for k, v := range g.syncW {
		w.syncSet(k, v)
	}
	if g.pan != nil {
		panic(*g.pan)
	}
	for i, p := range phis {
		w.setv(fr, p, g.phis[i])
	}
	for i, sl := range domSlots {
		fr.env[sl] = g.phis[len(phis)+i]
	}
	fr.block = J
	fr.prev = origBlock
	fr.skipPhi = true
	w.RegionsMerged++
	return true
}

// domSlots: env slots of the values defined in blocks that strictly dominate J
// or equal the If block chain (candidates for use after J without a phi).
func (w *Worker) domSlots(fr *frame, J *ssa.BasicBlock) []int {
	key := J
	if sl, ok := w.domSlotCache[key]; ok {
		return sl
	}
	var sl []int
	for b := J.Idom(); b != nil; b = b.Idom() {
		for _, in := range b.Instrs {
			if v, ok := in.(ssa.Value); ok {
				if i, ok := fr.info.idx[v]; ok {
					sl = append(sl, i)
				}
			}
		}
	}
	if w.domSlotCache == nil {
		w.domSlotCache = map[*ssa.BasicBlock][]int{}
	}
	w.domSlotCache[key] = sl
	return sl
}
