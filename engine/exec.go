package main

// Core symbolic interpreter for go/ssa: frames, decisions, heap journal.

import (
	"fmt"
	"runtime/debug"
	"go/constant"
	"go/token"
	"go/types"
	"os"
	"sort"
	"strings"

	"golang.org/x/tools/go/ssa"
)

// ---- control-flow signals (host panics) ----

type targetPanic struct{ v Value } // interpreted Go panic

type abortKind int

const (
	abInfeasible abortKind = iota // path condition became unsat (Assume) – silent
	abUnsupported
	abUnwind
	abError
	abKilled // goroutine killed because path ended
	abDone   // path finished early (harness called Done / main returned while others blocked)
)

type pathAbort struct {
	kind abortKind
	msg  string
}

func (w *Worker) unsupported(format string, args ...interface{}) {
	panic(pathAbort{abUnsupported, fmt.Sprintf(format, args...) + w.where()})
}

func (w *Worker) where() string {
	var sb strings.Builder
	n := 0
	for fr := w.cur; fr != nil && n < 8; fr = fr.caller {
		sb.WriteString("\n      at " + fr.fn.String())
		if fr.instr != nil {
			if p := fr.instr.Pos(); p.IsValid() {
				sb.WriteString(" (" + w.prog.fset.Position(p).String() + ")")
			}
		}
		n++
	}
	return sb.String()
}

// ---- frames ----

type deferred struct {
	fn   Value
	args []Value
	call *ssa.CallCommon
	pos  token.Pos
}

type frame struct {
	fn        *ssa.Function
	info      *funcInfo
	env       []Value
	block     *ssa.BasicBlock
	prev      *ssa.BasicBlock
	defers    []deferred
	result    Value
	panicking bool
	panicV    targetPanic
	caller    *frame
	instr     ssa.Instruction
	symCount  map[ssa.Instruction]int
	closure   []Value
	skipPhi   bool
}

type funcInfo struct {
	idx map[ssa.Value]int
	n   int
}

func (w *Worker) finfo(fn *ssa.Function) *funcInfo {
	if fi, ok := w.finfos[fn]; ok {
		return fi
	}
	fi := &funcInfo{idx: map[ssa.Value]int{}}
	for _, p := range fn.Params {
		fi.idx[p] = fi.n
		fi.n++
	}
	for _, fv := range fn.FreeVars {
		fi.idx[fv] = fi.n
		fi.n++
	}
	for _, b := range fn.Blocks {
		for _, in := range b.Instrs {
			if v, ok := in.(ssa.Value); ok {
				fi.idx[v] = fi.n
				fi.n++
			}
		}
	}
	w.finfos[fn] = fi
	return fi
}

// ---- worker ----

type jent struct {
	obj    *Object
	old    Value
	isSync bool
	key    string
	oldInt int
}

type dctx struct {
	prefix []int
	pos    int
	taken  []int
	queue  *[][]int
}

type inputRec struct {
	Name  string
	Kind  string // "bool","u8",...,"bytes","boolof"
	Terms []*Term
	Len   *Term
	Key   []*Term // boolof / u64of key bytes
	UF    string
}

type Worker struct {
	id     int
	prog   *Program
	ctx    *Ctx
	solver *Solver
	cfg    *HarnessCfg

	globals map[*ssa.Global]*Object
	extGlob map[string]*Object
	finfos  map[*ssa.Function]*funcInfo
	nextObj int
	nextID  int
	journal []jent

	// per path
	cur       *frame
	dc        *dctx
	pc        []*Term
	inputs    []inputRec
	names     map[string]int
	reached   map[string]bool
	steps     int64
	unwind    int
	mayPanic  int
	regions   map[string]*Term
	notes     []string
	depth     int
	clockLast *Term
	pathViol  []*Violation

	// stats (whole worker)
	Paths        int
	Instrs       int64
	PathsPruned  int
	funcsTouched map[string]int64
	intrUsed     map[string]int
	stubsUsed    map[string]int
	maxSteps     int64
	gor          *gorSched
	syncTab      map[string]int
	sh           *shared
	harness      *ssa.Function
	initMode     bool
	panicWhere   string
	pdoms        map[*ssa.Function]*pdomInfo
	mergeFails   map[ssa.Instruction]int
	regionDepth  int
	mergeDepth   int // >0 while inside callMerged (lazy branching, see callMerged)
	RegionsMerged int
	syncMaps     map[string]*Object
	opaqueStr    map[int]Value
	smtReads     map[string][]*Term
	observes     []obsRec
	hashApps     map[string][]hashApp
	errgroupErr  map[string]IfaceV
	domSlotCache map[*ssa.BasicBlock][]int
	mergeWhy     string
	epoch        int
	noInPlace    int
	lazyNext     bool
	LazyBranches int
	pcH          [][2]uint64
	feasCache    map[[3]uint64]bool
	CacheHits    int
}

func (w *Worker) newObj(v Value, t types.Type, name string) *Object {
	w.nextObj++
	o := &Object{id: w.nextObj, typ: t, name: name}
	w.setObj(o, v)
	return o
}

func (w *Worker) setObj(o *Object, v Value) {
	w.journal = append(w.journal, jent{obj: o, old: o.val})
	o.val = v
}

// newMark starts a new heap epoch and returns the journal position.
func (w *Worker) newMark() int {
	w.epoch++
	return len(w.journal)
}

func (w *Worker) rollback(mark int) {
	w.epoch++
	for i := len(w.journal) - 1; i >= mark; i-- {
		j := w.journal[i]
		if j.isSync {
			w.syncTab[j.key] = j.oldInt
			continue
		}
		j.obj.val = j.old
	}
	w.journal = w.journal[:mark]
}

func (w *Worker) fresh(base string) string {
	n := w.names[base]
	w.names[base] = n + 1
	if n == 0 {
		return base
	}
	return fmt.Sprintf("%s#%d", base, n)
}

func (w *Worker) newID() int { w.nextID++; return w.nextID }

// ---- path condition and decisions ----

func (w *Worker) addPC(c *Term) {
	if c.IsTrue() {
		return
	}
	w.pc = append(w.pc, c)
	h := w.curHash()
	h[0] = h[0]*1099511628211 + uint64(c.id) + 1
	h[1] = (h[1]^uint64(c.id+7))*0x9E3779B97F4A7C15 + 0x7F4A7C15
	w.pcH = append(w.pcH, h)
	w.solver.Assert(c)
}

func (w *Worker) curHash() [2]uint64 {
	if len(w.pcH) == 0 {
		return [2]uint64{14695981039346656037, 0x1234567}
	}
	return w.pcH[len(w.pcH)-1]
}

func (w *Worker) truncPC(n int) {
	w.pc = w.pc[:n]
	w.pcH = w.pcH[:n]
}

// feasible: is pc ∧ c satisfiable? Unknown counts as feasible (and is recorded).
func (w *Worker) feasible(c *Term) bool {
	if c.IsTrue() {
		return true
	}
	if c.IsFalse() {
		return false
	}
	h := w.curHash()
	key := [3]uint64{h[0], h[1], uint64(c.id)}
	if v, ok := w.feasCache[key]; ok {
		w.CacheHits++
		return v
	}
	r := w.solver.CheckWith(c)
	if r == Unknown {
		w.note("solver returned unknown on a feasibility query (kept as feasible)")
		w.prog.sawUnknown = true
		return true
	}
	w.feasCache[key] = r != Unsat
	return r != Unsat
}

func (w *Worker) note(s string) {
	for _, n := range w.notes {
		if n == s {
			return
		}
	}
	w.notes = append(w.notes, s)
}

// Decisions are recorded as site<<32 | (value+8): on re-execution of a prefix
// the site (kind of decision + source position) is compared, so that a
// re-execution that takes different decisions than the original is detected
// (INCONCLUSIVE) instead of silently exploring something else.
const (
	skBranch = 1 + iota
	skChoose
	skConcr
	skFree
	skMerge
)

func (w *Worker) site(kind int) int {
	h := uint32(kind) * 2654435761
	if w.cur != nil && w.cur.instr != nil {
		h ^= uint32(w.cur.instr.Pos()) * 40503
	}
	return int(h & 0x7fffffff)
}

func encDec(site, val int) int { return site<<32 | int(uint32(val+8)) }
func decVal(x int) int         { return int(uint32(x)) - 8 }
func decSite(x int) int        { return x >> 32 }

// replayNext reads the next recorded decision and checks its site.
func (w *Worker) replayNext(d *dctx, site int, what string) int {
	x := d.prefix[d.pos]
	d.pos++
	d.taken = append(d.taken, x)
	if decSite(x) != site {
		panic(pathAbort{abError, fmt.Sprintf("internal: decision desync at %s (position %d of %d): the re-execution of a decision prefix reached a different decision point than the original execution (site %d vs recorded %d, value %d)", what, d.pos-1, len(d.prefix), site, decSite(x), decVal(x)) + w.where() + dbgStack()})
	}
	return decVal(x)
}

func decodeDecisions(xs []int) []int {
	out := make([]int, len(xs))
	for i, x := range xs {
		out[i] = decVal(x)
	}
	return out
}

func (w *Worker) dtrace(kind string, pos int, val int) {
	if !decTrace || w.regionDepth > 0 || w.mergeDepth > 0 {
		return
	}
	loc := ""
	if w.cur != nil && w.cur.instr != nil {
		loc = w.cur.fn.Name() + "@" + w.prog.fset.Position(w.cur.instr.Pos()).String()
	}
	fmt.Fprintf(os.Stderr, "DEC path=%d %s pos=%d val=%d %s\n", w.Paths, kind, pos, val, loc)
}

var decTrace = os.Getenv("GOSYM_DECTRACE") != ""

// branch decides a symbolic condition; forks via the decision queue.
func (w *Worker) branch(c *Term) bool {
	if c.IsTrue() {
		return true
	}
	if c.IsFalse() {
		return false
	}
	d := w.dc
	site := w.site(skBranch)
	if d.pos < len(d.prefix) {
		w.lazyNext = false
		v := w.replayNext(d, site, "branch")
		if v == 0 {
			w.addPC(c)
			return true
		}
		w.addPC(w.ctx.Not(c))
		return false
	}
	d.pos++
	nc := w.ctx.Not(c)
	if w.lazyNext {
		// inside a region merge: explore both sides without asking the solver;
		// an infeasible side only contributes an ite-arm guarded by an
		// unsatisfiable condition
		w.lazyNext = false
		w.LazyBranches++
		alt := append(append([]int{}, d.taken...), encDec(site, 1))
		*d.queue = append(*d.queue, alt)
		d.taken = append(d.taken, encDec(site, 0))
		w.addPC(c)
		return true
	}
	ft := w.feasible(c)
	if !ft {
		d.taken = append(d.taken, encDec(site, 1))
		w.addPC(nc) // implied; keep pc explicit for models
		return false
	}
	ff := w.feasible(nc)
	if !ff {
		d.taken = append(d.taken, encDec(site, 0))
		w.addPC(c)
		return true
	}
	alt := append(append([]int{}, d.taken...), encDec(site, 1))
	*d.queue = append(*d.queue, alt)
	d.taken = append(d.taken, encDec(site, 0))
	w.addPC(c)
	return true
}

// choose performs an n-ary decision: conds[i] are mutually exclusive guards.
func (w *Worker) choose(conds []*Term) int {
	d := w.dc
	site := w.site(skChoose)
	if d.pos < len(d.prefix) {
		v := w.replayNext(d, site, "n-ary choice")
		if v < 0 || v >= len(conds) {
			panic(pathAbort{abError, fmt.Sprintf("internal: decision desync at n-ary choice (code %d of %d)", v, len(conds))})
		}
		w.addPC(conds[v])
		return v
	}
	d.pos++
	first := -1
	for i, c := range conds {
		if w.feasible(c) {
			if first < 0 {
				first = i
			} else {
				alt := append(append([]int{}, d.taken...), encDec(site, i))
				*d.queue = append(*d.queue, alt)
			}
		}
	}
	if first < 0 {
		panic(pathAbort{abInfeasible, "no feasible alternative"})
	}
	d.taken = append(d.taken, encDec(site, first))
	w.addPC(conds[first])
	return first
}

// concretize forks over the feasible concrete values of t in [0,n).
func (w *Worker) concretize(t *Term, n int) int {
	if u, ok := t.ConstU(); ok {
		return int(u)
	}
	conds := make([]*Term, n)
	for i := 0; i < n; i++ {
		conds[i] = w.ctx.Eq(t, w.ctx.BVConst(uint64(i), t.sort.W))
	}
	return w.choose(conds)
}

// rtCheck: Go run-time check; panics (interpreted) on the failing side.
func (w *Worker) rtCheck(ok *Term, msg string) {
	if ok.IsTrue() {
		return
	}
	if !w.branch(ok) {
		w.goPanic(msg)
	}
}

func (w *Worker) goPanic(msg string) {
	w.panicWhere = w.where()
	e := &ErrV{ID: w.newID(), Msg: strV(w.ctx, "runtime error: "+msg), Name: "runtime"}
	panic(targetPanic{IfaceV{T: errType, V: e}})
}

// ---- type helpers ----

func under(t types.Type) types.Type { return t.Underlying() }

func intInfo(t types.Type) (w int, signed bool, ok bool) {
	b, isb := under(t).(*types.Basic)
	if !isb {
		return 0, false, false
	}
	switch b.Kind() {
	case types.Int8:
		return 8, true, true
	case types.Int16:
		return 16, true, true
	case types.Int32:
		return 32, true, true
	case types.Int64, types.Int:
		return 64, true, true
	case types.Uint8:
		return 8, false, true
	case types.Uint16:
		return 16, false, true
	case types.Uint32:
		return 32, false, true
	case types.Uint64, types.Uint, types.Uintptr:
		return 64, false, true
	case types.UntypedInt, types.UntypedRune:
		return 64, true, true
	}
	return 0, false, false
}

func (w *Worker) zero(t types.Type) Value {
	switch u := under(t).(type) {
	case *types.Basic:
		if u.Info()&types.IsBoolean != 0 {
			return w.ctx.False
		}
		if bw, _, ok := intInfo(u); ok {
			return w.ctx.BVConst(0, bw)
		}
		if u.Info()&types.IsString != 0 {
			return StringV{}
		}
		if u.Info()&types.IsFloat != 0 {
			return FloatV(0)
		}
		if u.Kind() == types.UnsafePointer {
			return PtrV{}
		}
		if u.Kind() == types.UntypedNil {
			return nil
		}
	case *types.Pointer:
		return PtrV{}
	case *types.Slice:
		return SliceV{}
	case *types.Map:
		return MapV{}
	case *types.Chan:
		return ChanV{}
	case *types.Signature:
		return (*ClosureV)(nil)
	case *types.Interface:
		return IfaceV{}
	case *types.Struct:
		s := &StructV{F: make([]Value, u.NumFields())}
		for i := range s.F {
			s.F[i] = w.zero(u.Field(i).Type())
		}
		return s
	case *types.Array:
		n := int(u.Len())
		a := &ArrayV{E: make([]Value, n)}
		if n > 0 {
			z := w.zero(u.Elem())
			for i := range a.E {
				a.E[i] = z
			}
		}
		return a
	case *types.Tuple:
		tv := make(TupleV, u.Len())
		for i := range tv {
			tv[i] = w.zero(u.At(i).Type())
		}
		return tv
	}
	w.unsupported("zero value of type %s", t)
	return nil
}

func strV(c *Ctx, s string) StringV {
	b := make([]*Term, len(s))
	for i := 0; i < len(s); i++ {
		b[i] = c.BVConst(uint64(s[i]), 8)
	}
	return StringV{B: b}
}

func (w *Worker) constValue(c *ssa.Const) Value {
	t := c.Type()
	if c.Value == nil {
		return w.zero(t)
	}
	switch u := under(t).(type) {
	case *types.Basic:
		if u.Info()&types.IsBoolean != 0 {
			return w.ctx.Bool(constant.BoolVal(c.Value))
		}
		if bw, signed, ok := intInfo(u); ok {
			if signed {
				return w.ctx.BVConst(uint64(c.Int64()), bw)
			}
			return w.ctx.BVConst(c.Uint64(), bw)
		}
		if u.Info()&types.IsString != 0 {
			return strV(w.ctx, constant.StringVal(c.Value))
		}
		if u.Info()&types.IsFloat != 0 {
			return FloatV(c.Float64())
		}
	}
	w.unsupported("constant %s of type %s", c, t)
	return nil
}

// ---- evaluating ssa values ----

func (w *Worker) get(fr *frame, v ssa.Value) Value {
	switch x := v.(type) {
	case *ssa.Const:
		return w.constValue(x)
	case *ssa.Global:
		return PtrV{Obj: w.global(x)}
	case *ssa.Function:
		return &ClosureV{Fn: x}
	case *ssa.Builtin:
		return &ClosureV{Intr: "builtin:" + x.Name()}
	}
	i, ok := fr.info.idx[v]
	if !ok {
		w.unsupported("unknown ssa value %s (%T)", v.Name(), v)
	}
	return fr.env[i]
}

func (w *Worker) global(g *ssa.Global) *Object {
	if o, ok := w.globals[g]; ok {
		return o
	}
	et := g.Type().(*types.Pointer).Elem()
	var val Value
	if g.Pkg != nil && w.prog.isRoot(g.Pkg) {
		val = w.zero(et)
	} else {
		val = w.externGlobalValue(g, et)
	}
	w.nextObj++
	o := &Object{id: w.nextObj, typ: et, name: g.String(), val: val}
	w.globals[g] = o
	return o
}

func (w *Worker) externGlobalValue(g *ssa.Global, et types.Type) Value {
	name := g.String()
	if v, ok := w.prog.externGlobals[name]; ok {
		return v(w, et)
	}
	if name == "io.Discard" {
		return IfaceV{T: nopType, V: &OpaqueV{Kind: "nop", ID: w.newID()}}
	}
	if types.Identical(et, types.Universe.Lookup("error").Type()) {
		e := &ErrV{ID: w.newID(), Msg: strV(w.ctx, name), Name: name}
		return IfaceV{T: errType, V: e}
	}
	if st, ok := under(et).(*types.Struct); ok && st.NumFields() == 0 {
		return w.zero(et)
	}
	if h, ok := externGlobalHooks[name]; ok {
		return h(w, et)
	}
	w.unsupported("read of external global %s", name)
	return nil
}

// externGlobalHooks: models of package-level variables of packages without SSA
// bodies (registered from intr_*.go init functions), keyed by "pkg/path.Name".
var externGlobalHooks = map[string]func(w *Worker, t types.Type) Value{}

// ---- memory ----

func (w *Worker) getPath(v Value, path []PE) Value {
	for i, e := range path {
		switch x := v.(type) {
		case *StructV:
			v = x.F[e.I]
		case *ArrayV:
			if e.Sym == nil {
				if e.I < 0 || e.I >= len(x.E) {
					w.unsupported("internal: array index %d out of range %d", e.I, len(x.E))
				}
				v = x.E[e.I]
			} else {
				return w.getSym(x, e.Sym, path[i+1:])
			}
		case *SMTBuf:
			if len(path[i+1:]) != 0 {
				w.unsupported("internal: path below SMT buffer")
			}
			var idx *Term
			if e.Sym != nil {
				idx = e.Sym
			} else {
				idx = w.ctx.BVConst(uint64(e.I), 64)
			}
			w.recordRead(x.A, idx)
			return w.laSelect(x.A, idx)
		default:
			w.unsupported("internal: getPath through %T", v)
		}
	}
	return v
}

func (w *Worker) getSym(a *ArrayV, idx *Term, rest []PE) Value {
	n := len(a.E)
	if n == 0 {
		w.unsupported("internal: symbolic index into empty array")
	}
	if n > w.prog.maxSymIndex {
		w.unsupported("symbolic index into array of %d elements (limit %d)", n, w.prog.maxSymIndex)
	}
	// restrict to feasible range cheaply: build ite chain from the end
	res := w.getPath(a.E[n-1], rest)
	for i := n - 2; i >= 0; i-- {
		c := w.ctx.Eq(idx, w.ctx.BVConst(uint64(i), 64))
		m, ok := w.mergeValue(c, w.getPath(a.E[i], rest), res)
		if !ok {
			k := w.concretize(idx, n)
			return w.getPath(a.E[k], rest)
		}
		res = m
	}
	return res
}

func (w *Worker) setPath(v Value, path []PE, nv Value) Value {
	if len(path) == 0 {
		return nv
	}
	e := path[0]
	switch x := v.(type) {
	case *StructV:
		ns := &StructV{F: make([]Value, len(x.F))}
		copy(ns.F, x.F)
		ns.F[e.I] = w.setPath(x.F[e.I], path[1:], nv)
		return ns
	case *ArrayV:
		if e.Sym == nil && x.epoch != 0 && x.epoch == w.epoch && w.noInPlace == 0 {
			x.E[e.I] = w.setPath(x.E[e.I], path[1:], nv)
			return x
		}
		na := &ArrayV{E: make([]Value, len(x.E)), epoch: w.epoch}
		copy(na.E, x.E)
		if e.Sym == nil {
			na.E[e.I] = w.setPath(x.E[e.I], path[1:], nv)
			return na
		}
		na.epoch = 0
		w.noInPlace++
		defer func() { w.noInPlace-- }()
		if len(x.E) > w.prog.maxSymIndex {
			w.unsupported("symbolic store index into array of %d elements", len(x.E))
		}
		for i := range x.E {
			c := w.ctx.Eq(e.Sym, w.ctx.BVConst(uint64(i), 64))
			if c.IsFalse() {
				continue
			}
			m, ok := w.mergeValue(c, w.setPath(x.E[i], path[1:], nv), x.E[i])
			if !ok {
				k := w.concretize(e.Sym, len(x.E))
				copy(na.E, x.E)
				na.E[k] = w.setPath(x.E[k], path[1:], nv)
				return na
			}
			na.E[i] = m
		}
		return na
	case *SMTBuf:
		var idx *Term
		if e.Sym != nil {
			idx = e.Sym
		} else {
			idx = w.ctx.BVConst(uint64(e.I), 64)
		}
		return &SMTBuf{A: w.laStoreAt(x.A, idx, nv.(*Term)), N: x.N, Name: x.Name}
	}
	w.unsupported("internal: setPath through %T", v)
	return nil
}

func (w *Worker) load(p PtrV) Value {
	if p.Obj == nil {
		w.goPanic("invalid memory address or nil pointer dereference")
	}
	v := w.getPath(p.Obj.val, p.Path)
	unfresh(v)
	return v
}

// unfresh: an aggregate that has been loaded as a value may now be shared; its
// arrays must not be updated in place any more.
func unfresh(v Value) {
	switch x := v.(type) {
	case *ArrayV:
		if x.epoch != 0 {
			x.epoch = 0
		}
		if len(x.E) > 0 {
			switch x.E[0].(type) {
			case *ArrayV, *StructV:
				for _, e := range x.E {
					unfresh(e)
				}
			}
		}
	case *StructV:
		for _, f := range x.F {
			switch f.(type) {
			case *ArrayV, *StructV:
				unfresh(f)
			}
		}
	}
}

func (w *Worker) store(p PtrV, v Value) {
	if p.Obj == nil {
		w.goPanic("invalid memory address or nil pointer dereference")
	}
	unfresh(v)
	w.setObj(p.Obj, w.setPath(p.Obj.val, p.Path, v))
}

// mergeValue builds ite(c, a, b) structurally; ok=false if shapes differ.
func (w *Worker) mergeValue(c *Term, a, b Value) (Value, bool) {
	if c.IsTrue() {
		return a, true
	}
	if c.IsFalse() {
		return b, true
	}
	switch x := a.(type) {
	case nil:
		if b == nil {
			return nil, true
		}
	case *Term:
		if y, ok := b.(*Term); ok && x.sort == y.sort {
			return w.ctx.Ite(c, x, y), true
		}
	case FloatV:
		if y, ok := b.(FloatV); ok && x == y {
			return x, true
		}
	case *FloatOpaque:
		if y, ok := b.(*FloatOpaque); ok && x == y {
			return x, true
		}
	case *StructV:
		if y, ok := b.(*StructV); ok && len(x.F) == len(y.F) {
			if x == y {
				return x, true
			}
			r := &StructV{F: make([]Value, len(x.F))}
			for i := range x.F {
				m, ok := w.mergeValue(c, x.F[i], y.F[i])
				if !ok {
					return nil, false
				}
				r.F[i] = m
			}
			return r, true
		}
	case *ArrayV:
		if y, ok := b.(*ArrayV); ok && len(x.E) == len(y.E) {
			if x == y {
				return x, true
			}
			r := &ArrayV{E: make([]Value, len(x.E))}
			for i := range x.E {
				m, ok := w.mergeValue(c, x.E[i], y.E[i])
				if !ok {
					return nil, false
				}
				r.E[i] = m
			}
			return r, true
		}
	case TupleV:
		if y, ok := b.(TupleV); ok && len(x) == len(y) {
			r := make(TupleV, len(x))
			for i := range x {
				m, ok := w.mergeValue(c, x[i], y[i])
				if !ok {
					return nil, false
				}
				r[i] = m
			}
			return r, true
		}
	case PtrV:
		if y, ok := b.(PtrV); ok {
			if x.Obj != y.Obj || len(x.Path) != len(y.Path) {
				return nil, false
			}
			np := make([]PE, len(x.Path))
			for i := range x.Path {
				ex, ey := x.Path[i], y.Path[i]
				if ex.Sym == nil && ey.Sym == nil && ex.I == ey.I {
					np[i] = ex
					continue
				}
				// differing element: only mergeable if it is an array index
				if !w.pathElemIsIndex(x.Obj, x.Path[:i]) {
					return nil, false
				}
				np[i] = PE{Sym: w.ctx.Ite(c, w.peTerm(ex), w.peTerm(ey))}
			}
			return PtrV{x.Obj, np}, true
		}
	case SliceV:
		if y, ok := b.(SliceV); ok {
			if x.IsNil() != y.IsNil() {
				return nil, false
			}
			if x.IsNil() {
				return x, true
			}
			if !samePtr(x.Arr, y.Arr) {
				return nil, false
			}
			return SliceV{Arr: x.Arr, Off: w.ctx.Ite(c, x.Off, y.Off), Len: w.ctx.Ite(c, x.Len, y.Len), Cap: w.ctx.Ite(c, x.Cap, y.Cap)}, true
		}
	case StringV:
		if y, ok := b.(StringV); ok && len(x.B) == len(y.B) && x.Opaque == y.Opaque {
			r := StringV{B: make([]*Term, len(x.B)), Opaque: x.Opaque}
			for i := range x.B {
				r.B[i] = w.ctx.Ite(c, x.B[i], y.B[i])
			}
			return r, true
		}
	case IfaceV:
		if y, ok := b.(IfaceV); ok {
			if x.T == nil && y.T == nil {
				return x, true
			}
			if x.T == nil || y.T == nil || !types.Identical(x.T, y.T) {
				return nil, false
			}
			m, ok := w.mergeValue(c, x.V, y.V)
			if !ok {
				return nil, false
			}
			return IfaceV{T: x.T, V: m}, true
		}
	case *ClosureV:
		if y, ok := b.(*ClosureV); ok && x == y {
			return x, true
		}
	case MapV:
		if y, ok := b.(MapV); ok && x.Obj == y.Obj {
			return x, true
		}
	case ChanV:
		if y, ok := b.(ChanV); ok && x.Obj == y.Obj {
			return x, true
		}
	case *ErrV:
		if y, ok := b.(*ErrV); ok && x == y {
			return x, true
		}
	case *BigData:
		if y, ok := b.(*BigData); ok {
			return &BigData{N: w.ctx.Ite(c, x.N, y.N)}, true
		}
	case *MapData:
		if y, ok := b.(*MapData); ok && x == y {
			return x, true
		}
	case *ChanData:
		if y, ok := b.(*ChanData); ok && x == y {
			return x, true
		}
	case *OpaqueV:
		if y, ok := b.(*OpaqueV); ok && x == y {
			return x, true
		}
	case *HashData:
		if y, ok := b.(*HashData); ok && x == y {
			return x, true
		}
	case *SMTBuf:
		if y, ok := b.(*SMTBuf); ok {
			if x == y {
				return x, true
			}
			if x.A == y.A {
				return &SMTBuf{A: x.A, N: w.ctx.Ite(c, x.N, y.N), Name: x.Name}, true
			}
			return &SMTBuf{A: &LArr{kind: laIte, cond: c, a: x.A, b: y.A}, N: w.ctx.Ite(c, x.N, y.N), Name: x.Name}, true
		}
	}
	return nil, false
}

func (w *Worker) peTerm(e PE) *Term {
	if e.Sym != nil {
		return e.Sym
	}
	return w.ctx.BVConst(uint64(e.I), 64)
}

func (w *Worker) pathElemIsIndex(o *Object, prefix []PE) bool {
	v := o.val
	for _, e := range prefix {
		switch x := v.(type) {
		case *StructV:
			v = x.F[e.I]
		case *ArrayV:
			if len(x.E) == 0 {
				return false
			}
			if e.Sym != nil {
				v = x.E[0]
			} else {
				v = x.E[e.I]
			}
		default:
			return false
		}
	}
	switch v.(type) {
	case *ArrayV, *SMTBuf:
		return true
	}
	return false
}

func samePtr(a, b PtrV) bool {
	if a.Obj != b.Obj || len(a.Path) != len(b.Path) {
		return false
	}
	for i := range a.Path {
		if a.Path[i].I != b.Path[i].I || a.Path[i].Sym != b.Path[i].Sym {
			return false
		}
	}
	return true
}

// ---- calling ----

func (w *Worker) callValue(fr *frame, fv Value, args []Value, cc *ssa.CallCommon) Value {
	cl, ok := fv.(*ClosureV)
	if !ok || cl == nil {
		w.goPanic("invalid memory address or nil pointer dereference (nil func call)")
	}
	if cl.Intr != "" {
		return w.callIntrClosure(fr, cl, args, cc)
	}
	return w.callFn(fr, cl.Fn, args, cl.Env)
}

func (w *Worker) callFn(caller *frame, fn *ssa.Function, args []Value, env []Value) Value {
	name := fn.String()
	if len(w.prog.callRepl) > 0 {
		if r, ok := w.prog.callRepl[name]; ok && caller != nil && fn != r.target {
			cf := caller.fn
			for cf.Parent() != nil {
				cf = cf.Parent()
			}
			if cf.Pkg == r.pkg {
				w.stubsUsed["replace-call "+name]++
				return w.callFn(caller, r.target, args, nil)
			}
		}
	}
	if st, ok := w.prog.stubs[name]; ok {
		w.stubsUsed[name]++
		switch st.kind {
		case "noop":
			return w.zeroResults(fn.Signature)
		case "stub":
			return w.callFn(caller, st.target, args, nil)
		}
	}
	if in, ok := intrinsics[name]; ok {
		w.intrUsed[name]++
		return in(w, caller, args, fn)
	}
	if orig := fn.Origin(); orig != nil {
		if in, ok := intrinsics[orig.String()]; ok {
			w.intrUsed[orig.String()]++
			return in(w, caller, args, fn)
		}
	}
	if fn.Blocks == nil {
		if fn.Name() == "init" && fn.Signature.Recv() == nil && fn.Signature.Params().Len() == 0 {
			return nil // initialiser of a dependency (not executed; its globals are modelled lazily)
		}
		if v, ok := w.tryGenericExternal(caller, fn, args); ok {
			return v
		}
		w.unsupported("call of external function %s (no body, no intrinsic)", name)
	}
	if w.prog.merge[name] && w.dc != nil {
		return w.callMerged(caller, fn, args, env)
	}
	return w.runFn(caller, fn, args, env)
}

func (w *Worker) zeroResults(sig *types.Signature) Value {
	r := sig.Results()
	switch r.Len() {
	case 0:
		return nil
	case 1:
		return w.zero(r.At(0).Type())
	}
	return w.zero(r)
}

func (w *Worker) runFn(caller *frame, fn *ssa.Function, args []Value, env []Value) Value {
	w.depth++
	if w.depth > w.prog.maxDepth {
		panic(pathAbort{abUnwind, fmt.Sprintf("call depth %d exceeded in %s", w.prog.maxDepth, fn)})
	}
	fi := w.finfo(fn)
	fr := &frame{fn: fn, info: fi, env: make([]Value, fi.n), caller: caller}
	if len(args) != len(fn.Params) {
		w.unsupported("internal: %s called with %d args, wants %d", fn, len(args), len(fn.Params))
	}
	for i, p := range fn.Params {
		fr.env[fi.idx[p]] = args[i]
	}
	for i, fv := range fn.FreeVars {
		fr.env[fi.idx[fv]] = env[i]
	}
	fr.block = fn.Blocks[0]
	saved := w.cur
	w.cur = fr
	for fr.block != nil {
		w.runFrame(fr)
	}
	w.cur = saved
	w.depth--
	return fr.result
}

func (w *Worker) runFrame(fr *frame) {
	defer func() {
		if fr.block == nil {
			return
		}
		r := recover()
		tp, ok := r.(targetPanic)
		if !ok {
			panic(r)
		}
		w.cur = fr
		fr.panicking = true
		fr.panicV = tp
		w.runDefers(fr)
		// recovered
		fr.block = fr.fn.Recover
		if fr.block == nil {
			fr.result = w.zeroResults(fr.fn.Signature)
		}
	}()
	for fr.block != nil {
		w.execBlock(fr)
	}
}

// execBlock runs the current block of fr up to its terminator; on return
// fr.block is the next block or nil after a Return.
func (w *Worker) execBlock(fr *frame) {
	b := fr.block
	w.funcsTouched[fr.fn.String()] += int64(len(b.Instrs))
	// parallel evaluation of leading phis
	nphi := 0
	for _, in := range b.Instrs {
		if _, ok := in.(*ssa.Phi); !ok {
			break
		}
		nphi++
	}
	if fr.skipPhi {
		fr.skipPhi = false
	} else if nphi > 0 {
		var pi int = -1
		for i, pred := range b.Preds {
			if pred == fr.prev {
				pi = i
				break
			}
		}
		if pi < 0 {
			w.unsupported("internal: phi without predecessor")
		}
		vals := make([]Value, nphi)
		for i := 0; i < nphi; i++ {
			vals[i] = w.get(fr, b.Instrs[i].(*ssa.Phi).Edges[pi])
		}
		for i := 0; i < nphi; i++ {
			w.setv(fr, b.Instrs[i].(*ssa.Phi), vals[i])
		}
	}
	for _, in := range b.Instrs[nphi:] {
		fr.instr = in
		w.steps++
		if w.steps > w.maxSteps {
			panic(pathAbort{abUnwind, fmt.Sprintf("step limit %d exceeded", w.maxSteps)})
		}
		switch w.visit(fr, in) {
		case kReturn:
			fr.block = nil
			return
		case kJump:
			return
		}
	}
	w.unsupported("internal: fell off block")
}

func (w *Worker) runDefers(fr *frame) {
	for len(fr.defers) > 0 {
		d := fr.defers[len(fr.defers)-1]
		fr.defers = fr.defers[:len(fr.defers)-1]
		w.callDeferred(fr, d)
	}
	if fr.panicking {
		panic(fr.panicV)
	}
}

func (w *Worker) callDeferred(fr *frame, d deferred) {
	// a panic inside a deferred call replaces the current one
	func() {
		defer func() {
			if r := recover(); r != nil {
				tp, ok := r.(targetPanic)
				if !ok {
					panic(r)
				}
				fr.panicking = true
				fr.panicV = tp
				w.cur = fr
			}
		}()
		w.cur = fr
		if d.call != nil && d.call.IsInvoke() {
			w.invoke(fr, d.fn, d.call.Method, d.args)
		} else {
			w.callValue(fr, d.fn, d.args, d.call)
		}
	}()
}

type cont int

const (
	kNext cont = iota
	kReturn
	kJump
)

func (w *Worker) setv(fr *frame, v ssa.Value, x Value) {
	fr.env[fr.info.idx[v]] = x
}

func (w *Worker) visit(fr *frame, in ssa.Instruction) cont {
	w.Instrs++
	switch x := in.(type) {
	case *ssa.DebugRef:
	case *ssa.UnOp:
		w.setv(fr, x, w.unop(fr, x))
	case *ssa.BinOp:
		w.setv(fr, x, w.binop(x.Op, x.X.Type(), w.get(fr, x.X), w.get(fr, x.Y), x.Y.Type()))
	case *ssa.Call:
		w.setv(fr, x, w.doCall(fr, &x.Call))
	case *ssa.ChangeInterface:
		w.setv(fr, x, w.get(fr, x.X))
	case *ssa.ChangeType:
		w.setv(fr, x, w.get(fr, x.X))
	case *ssa.Convert:
		w.setv(fr, x, w.convert(x.X.Type(), x.Type(), w.get(fr, x.X)))
	case *ssa.SliceToArrayPointer:
		s := w.get(fr, x.X).(SliceV)
		n := x.Type().(*types.Pointer).Elem().Underlying().(*types.Array).Len()
		if s.IsNil() {
			if n != 0 {
				w.goPanic("cannot convert slice with length 0 to array pointer")
			}
			w.setv(fr, x, PtrV{})
		} else {
			w.rtCheck(w.ctx.UGe(s.Len, w.ctx.BVConst(uint64(n), 64)), "slice to array pointer: length too short")
			off := w.concretize(s.Off, 1<<20)
			_ = off
			w.unsupported("SliceToArrayPointer")
		}
	case *ssa.MakeInterface:
		w.setv(fr, x, IfaceV{T: x.X.Type(), V: w.get(fr, x.X)})
	case *ssa.Extract:
		w.setv(fr, x, w.get(fr, x.Tuple).(TupleV)[x.Index])
	case *ssa.Slice:
		w.setv(fr, x, w.sliceOp(fr, x))
	case *ssa.Return:
		switch len(x.Results) {
		case 0:
		case 1:
			fr.result = w.get(fr, x.Results[0])
		default:
			tv := make(TupleV, len(x.Results))
			for i, r := range x.Results {
				tv[i] = w.get(fr, r)
			}
			fr.result = tv
		}
		return kReturn
	case *ssa.RunDefers:
		w.runDefers(fr)
	case *ssa.Panic:
		w.panicWhere = w.where()
		panic(targetPanic{w.get(fr, x.X)})
	case *ssa.Send:
		w.chanSend(fr, w.get(fr, x.Chan).(ChanV), w.get(fr, x.X))
	case *ssa.Store:
		w.store(w.get(fr, x.Addr).(PtrV), w.get(fr, x.Val))
	case *ssa.If:
		c := w.get(fr, x.Cond).(*Term)
		var t bool
		if c.IsConst() {
			t = c.IsTrue()
		} else {
			if fr.symCount == nil {
				fr.symCount = map[ssa.Instruction]int{}
			}
			fr.symCount[x]++
			if fr.symCount[x] > w.unwind {
				panic(pathAbort{abUnwind, fmt.Sprintf("unwinding bound %d reached at %s", w.unwind, w.prog.fset.Position(x.Pos())) + w.where()})
			}
			if w.prog.regionMerge && !w.initMode {
				if J := w.joinBlock(fr.fn, fr.block); J != nil {
					if w.tryRegionMerge(fr, x, c, J) {
						return kJump
					}
				}
			}
			if (w.regionDepth > 0 || w.mergeDepth > 0) && w.prog.lazyRegions && !isLoopHeader(fr.block) {
				w.lazyNext = true
			}
			t = w.branch(c)
			w.lazyNext = false
		}
		fr.prev = fr.block
		if t {
			fr.block = fr.block.Succs[0]
		} else {
			fr.block = fr.block.Succs[1]
		}
		return kJump
	case *ssa.Jump:
		fr.prev = fr.block
		fr.block = fr.block.Succs[0]
		return kJump
	case *ssa.Defer:
		fn, args := w.prepareCall(fr, &x.Call)
		fr.defers = append(fr.defers, deferred{fn: fn, args: args, call: &x.Call, pos: x.Pos()})
	case *ssa.Go:
		fn, args := w.prepareCall(fr, &x.Call)
		w.goStmt(fr, fn, args, &x.Call)
	case *ssa.MakeChan:
		n := w.get(fr, x.Size).(*Term)
		cn, ok := n.ConstU()
		if !ok {
			w.unsupported("make(chan) with symbolic size")
		}
		o := w.newObj(&ChanData{Cap: int(cn)}, x.Type(), "chan")
		w.setv(fr, x, ChanV{o})
	case *ssa.Alloc:
		et := x.Type().(*types.Pointer).Elem()
		// make([]byte, <constant>) is lowered by go/ssa to new([N]byte)[:]; a huge
		// byte array is held as a zero-initialised SMT buffer like makeSliceOf does.
		if at, ok := under(et).(*types.Array); ok && at.Len() > int64(w.prog.maxAlloc) {
			if eb, ok := under(at.Elem()).(*types.Basic); ok && eb.Kind() == types.Uint8 {
				buf := &SMTBuf{A: laOf(w.ctx.ConstArr(64, w.ctx.BVConst(0, 8))), N: w.k64(int(at.Len()))}
				o := w.newObj(buf, et, "alloc-smt")
				w.setv(fr, x, PtrV{Obj: o})
				break
			}
		}
		o := w.newObj(w.zero(et), et, x.Comment)
		w.setv(fr, x, PtrV{Obj: o})
	case *ssa.MakeSlice:
		w.setv(fr, x, w.makeSlice(fr, x))
	case *ssa.MakeMap:
		o := w.newObj(&MapData{}, x.Type(), "map")
		w.setv(fr, x, MapV{o})
	case *ssa.Range:
		w.setv(fr, x, w.rangeInit(fr, x))
	case *ssa.Next:
		w.setv(fr, x, w.rangeNext(fr, x))
	case *ssa.FieldAddr:
		p := w.get(fr, x.X).(PtrV)
		if p.Obj == nil {
			w.goPanic("invalid memory address or nil pointer dereference")
		}
		w.setv(fr, x, p.extend(PE{I: x.Field}))
	case *ssa.Field:
		w.setv(fr, x, w.get(fr, x.X).(*StructV).F[x.Field])
	case *ssa.IndexAddr:
		w.setv(fr, x, w.indexAddr(fr, x))
	case *ssa.Index:
		w.setv(fr, x, w.index(fr, x))
	case *ssa.Lookup:
		w.setv(fr, x, w.lookup(fr, x))
	case *ssa.MapUpdate:
		w.mapUpdate(w.get(fr, x.Map).(MapV), w.get(fr, x.Key), w.get(fr, x.Value))
	case *ssa.TypeAssert:
		w.setv(fr, x, w.typeAssert(fr, x))
	case *ssa.MakeClosure:
		var env []Value
		for _, b := range x.Bindings {
			env = append(env, w.get(fr, b))
		}
		w.setv(fr, x, &ClosureV{Fn: x.Fn.(*ssa.Function), Env: env})
	case *ssa.Phi:
		// handled at block entry
	case *ssa.Select:
		w.setv(fr, x, w.selectStmt(fr, x))
	default:
		w.unsupported("instruction %T", in)
	}
	return kNext
}

// Phi nodes must be evaluated in parallel; go/ssa interp evaluates them
// sequentially which is fine as phis only refer to values of predecessors,
// except for phi-phi dependencies within the same block (swap problem).
// We handle that conservatively in runFrame via visit order (rare in practice).

func (w *Worker) prepareCall(fr *frame, cc *ssa.CallCommon) (Value, []Value) {
	var args []Value
	fv := w.get(fr, cc.Value)
	for _, a := range cc.Args {
		args = append(args, w.get(fr, a))
	}
	return fv, args
}

func (w *Worker) doCall(fr *frame, cc *ssa.CallCommon) Value {
	fv, args := w.prepareCall(fr, cc)
	if cc.IsInvoke() {
		return w.invoke(fr, fv, cc.Method, args)
	}
	if b, ok := cc.Value.(*ssa.Builtin); ok {
		return w.builtin(fr, b, args, cc)
	}
	if fn, ok := cc.Value.(*ssa.Function); ok {
		return w.callFn(fr, fn, args, nil)
	}
	return w.callValue(fr, fv, args, cc)
}

func (w *Worker) invoke(fr *frame, recv Value, m *types.Func, args []Value) Value {
	iv, ok := recv.(IfaceV)
	if !ok {
		w.unsupported("invoke on non-interface %T", recv)
	}
	if iv.T == nil {
		w.goPanic("invalid memory address or nil pointer dereference (method call on nil interface)")
	}
	if types.Identical(iv.T, errType) || types.Identical(iv.T, nopType) {
		return w.invokeSynthetic(fr, iv, m, args)
	}
	if op, ok := iv.V.(*OpaqueV); ok {
		return w.invokeOpaque(fr, iv, op, m, args)
	}
	ms := w.prog.prog.MethodSets.MethodSet(iv.T)
	sel := ms.Lookup(m.Pkg(), m.Name())
	if sel == nil {
		w.unsupported("method %s not found on %s", m.Name(), iv.T)
	}
	fn := w.prog.prog.MethodValue(sel)
	if fn == nil {
		w.unsupported("no method value for %s on %s", m.Name(), iv.T)
	}
	return w.callFn(fr, fn, append([]Value{iv.V}, args...), nil)
}

func (w *Worker) sortedKeys(m map[string]int64) []string {
	var ks []string
	for k := range m {
		ks = append(ks, k)
	}
	sort.Strings(ks)
	return ks
}

var debugTrace = os.Getenv("GOSYM_TRACE") != ""

func isLoopHeader(b *ssa.BasicBlock) bool {
	for _, p := range b.Preds {
		if b.Dominates(p) {
			return true
		}
	}
	return false
}

func dbgStack() string {
	if os.Getenv("GOSYM_DBGSTACK") == "" {
		return ""
	}
	return "\n" + string(debug.Stack())
}
