package main

// bytes.Buffer as used by pkg/soc (*SOC).toBytes: bytes.NewBuffer(nil|b),
// (*Buffer).Write / WriteByte / Len / Bytes. The buffer is a heap object that
// holds the byte terms; all lengths are concrete on the path (w.bytesOf
// concretises a symbolic slice length). Bytes() returns a fresh slice (the
// aliasing between the result of Bytes and later writes is not modelled).

import (
	"golang.org/x/tools/go/ssa"
)

type BufData struct {
	B []*Term
}

func init() {
	bd := func(w *Worker, v Value) (*Object, *BufData) {
		p, ok := v.(PtrV)
		if !ok || p.Obj == nil {
			w.goPanic("invalid memory address or nil pointer dereference (nil *bytes.Buffer)")
		}
		d, ok := p.Obj.val.(*BufData)
		if !ok {
			w.unsupported("bytes.Buffer that was not made by bytes.NewBuffer")
		}
		return p.Obj, d
	}
	reg("bytes.NewBuffer", func(w *Worker, fr *frame, a []Value, fn *ssa.Function) Value {
		var b []*Term
		if s, ok := a[0].(SliceV); ok && !s.IsNil() {
			b = w.bytesOf(s, "bytes.NewBuffer argument")
		}
		o := w.newObj(&BufData{B: b}, nil, "bytes.Buffer")
		return PtrV{Obj: o}
	})
	reg("(*bytes.Buffer).Write", func(w *Worker, fr *frame, a []Value, fn *ssa.Function) Value {
		o, d := bd(w, a[0])
		var b []*Term
		if s, ok := a[1].(SliceV); ok && !s.IsNil() {
			b = w.bytesOf(s, "bytes.Buffer.Write argument")
		}
		nb := append(append([]*Term{}, d.B...), b...)
		w.setObj(o, &BufData{B: nb})
		return TupleV{w.k64(len(b)), IfaceV{}}
	})
	reg("(*bytes.Buffer).WriteByte", func(w *Worker, fr *frame, a []Value, fn *ssa.Function) Value {
		o, d := bd(w, a[0])
		nb := append(append([]*Term{}, d.B...), a[1].(*Term))
		w.setObj(o, &BufData{B: nb})
		return IfaceV{}
	})
	reg("(*bytes.Buffer).Len", func(w *Worker, fr *frame, a []Value, fn *ssa.Function) Value {
		_, d := bd(w, a[0])
		return w.k64(len(d.B))
	})
	reg("(*bytes.Buffer).Bytes", func(w *Worker, fr *frame, a []Value, fn *ssa.Function) Value {
		_, d := bd(w, a[0])
		return w.newByteSlice(append([]*Term{}, d.B...))
	})
}
