package main

// math/bits on bit-vector terms.

import (
	"fmt"

	"golang.org/x/tools/go/ssa"
)

func init() {
	for _, bw := range []int{8, 16, 32, 64} {
		bw := bw
		sfx := fmt.Sprintf("%d", bw)
		names := []string{sfx}
		if bw == 64 {
			names = append(names, "") // bits.OnesCount(uint)
		}
		for _, n := range names {
			reg("math/bits.OnesCount"+n, func(w *Worker, fr *frame, a []Value, fn *ssa.Function) Value {
				c := w.ctx
				x := a[0].(*Term)
				sum := c.BVConst(0, 64)
				for i := 0; i < bw; i++ {
					sum = c.Add(sum, c.ZExt(c.Extract(x, i, i), 64))
				}
				return sum
			})
			reg("math/bits.LeadingZeros"+n, func(w *Worker, fr *frame, a []Value, fn *ssa.Function) Value {
				c := w.ctx
				x := a[0].(*Term)
				res := c.BVConst(uint64(bw), 64)
				for i := 0; i < bw; i++ { // bit i set => at least ... leading zeros = bw-1-i if highest
					res = c.Ite(c.Eq(c.Extract(x, i, i), c.BVConst(1, 1)), c.BVConst(uint64(bw-1-i), 64), res)
				}
				return res
			})
			reg("math/bits.Len"+n, func(w *Worker, fr *frame, a []Value, fn *ssa.Function) Value {
				c := w.ctx
				x := a[0].(*Term)
				res := c.BVConst(0, 64)
				for i := 0; i < bw; i++ {
					res = c.Ite(c.Eq(c.Extract(x, i, i), c.BVConst(1, 1)), c.BVConst(uint64(i+1), 64), res)
				}
				return res
			})
			reg("math/bits.TrailingZeros"+n, func(w *Worker, fr *frame, a []Value, fn *ssa.Function) Value {
				c := w.ctx
				x := a[0].(*Term)
				res := c.BVConst(uint64(bw), 64)
				for i := bw - 1; i >= 0; i-- {
					res = c.Ite(c.Eq(c.Extract(x, i, i), c.BVConst(1, 1)), c.BVConst(uint64(i), 64), res)
				}
				return res
			})
			reg("math/bits.Reverse"+n, func(w *Worker, fr *frame, a []Value, fn *ssa.Function) Value {
				c := w.ctx
				x := a[0].(*Term)
				var r *Term
				for i := 0; i < bw; i++ { // result bit (bw-1-i) = x bit i; build from msb
					b := c.Extract(x, i, i)
					if r == nil {
						r = b
					} else {
						r = c.Concat(r, b)
					}
				}
				return r
			})
			reg("math/bits.ReverseBytes"+n, func(w *Worker, fr *frame, a []Value, fn *ssa.Function) Value {
				c := w.ctx
				x := a[0].(*Term)
				var r *Term
				for i := 0; i < bw/8; i++ {
					b := c.Extract(x, 8*i+7, 8*i)
					if r == nil {
						r = b
					} else {
						r = c.Concat(r, b)
					}
				}
				return r
			})
			reg("math/bits.RotateLeft"+n, func(w *Worker, fr *frame, a []Value, fn *ssa.Function) Value {
				c := w.ctx
				x := a[0].(*Term)
				k := c.BAnd(a[1].(*Term), c.BVConst(uint64(bw-1), 64)) // k mod bw (two's complement handles negatives)
				kx := c.Extract(k, bw-1, 0)
				if bw == 64 {
					kx = k
				}
				inv := c.BAnd(c.Sub(c.BVConst(uint64(bw), bw), kx), c.BVConst(uint64(bw-1), bw))
				return c.BOr(c.Shl(x, kx), c.LShr(x, inv))
			})
		}
	}
}
