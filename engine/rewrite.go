package main

// Mirrors //verif:stub and //verif:noop directives in the native replay build:
// the source file of the replaced function is overlaid with a copy whose body
// calls the harness replacement (or returns zero values).

import (
	"fmt"
	"go/ast"
	"go/types"
	"os"
	"sort"
	"strings"

	"golang.org/x/tools/go/ssa"
)

type bodyEdit struct {
	start, end int // byte offsets of the body { ... }
	text       string
}

// nativeRewrites returns origFile -> rewritten content, plus notes about
// directives that could not be mirrored.
func (P *Program) nativeRewrites() (map[string][]byte, []string) {
	edits := map[string][]bodyEdit{}
	var notes []string
	byName := map[string]*ssa.Function{}
	for fn := range ssautilAllFunctions(P) {
		byName[fn.String()] = fn
	}
	names := make([]string, 0, len(P.stubs))
	for n := range P.stubs {
		names = append(names, n)
	}
	sort.Strings(names)
	for _, name := range names {
		st := P.stubs[name]
		fn := byName[name]
		if fn == nil {
			notes = append(notes, fmt.Sprintf("directive for %s is engine-only (external function)", name))
			continue
		}
		decl, ok := fn.Syntax().(*ast.FuncDecl)
		if !ok || decl.Body == nil {
			notes = append(notes, fmt.Sprintf("directive for %s is engine-only (no source body)", name))
			continue
		}
		file := P.fset.Position(decl.Pos()).Filename
		if _, isOverlay := P.overlay[file]; isOverlay {
			continue
		}
		var args []string
		okNames := true
		addField := func(f *ast.Field, variadic bool) {
			if len(f.Names) == 0 {
				okNames = false
				return
			}
			for _, n := range f.Names {
				if n.Name == "_" {
					okNames = false
					return
				}
				if variadic {
					args = append(args, n.Name+"...")
				} else {
					args = append(args, n.Name)
				}
			}
		}
		if decl.Recv != nil {
			for _, f := range decl.Recv.List {
				addField(f, false)
			}
		}
		for _, f := range decl.Type.Params.List {
			_, variadic := f.Type.(*ast.Ellipsis)
			addField(f, variadic)
		}
		hasRes := decl.Type.Results != nil && len(decl.Type.Results.List) > 0
		var body string
		switch st.kind {
		case "stub":
			if st.target.Pkg != fn.Pkg {
				notes = append(notes, fmt.Sprintf("stub %s = %s is engine-only (different packages)", name, st.tname))
				continue
			}
			if !okNames {
				notes = append(notes, fmt.Sprintf("stub %s is engine-only (unnamed parameters)", name))
				continue
			}
			call := st.target.Name() + "(" + strings.Join(args, ", ") + ")"
			if hasRes {
				body = "{ return " + call + " }"
			} else {
				body = "{ " + call + " }"
			}
		case "noop":
			if !hasRes {
				body = "{}"
			} else {
				// named zero results
				src, err := os.ReadFile(file)
				if err != nil {
					continue
				}
				var decls, rets []string
				i := 0
				for _, f := range decl.Type.Results.List {
					ts := string(src[P.fset.Position(f.Type.Pos()).Offset:P.fset.Position(f.Type.End()).Offset])
					k := len(f.Names)
					if k == 0 {
						k = 1
					}
					for j := 0; j < k; j++ {
						v := fmt.Sprintf("zzr%d", i)
						i++
						decls = append(decls, fmt.Sprintf("var %s %s", v, ts))
						rets = append(rets, v)
					}
				}
				body = "{ " + strings.Join(decls, "; ") + "; return " + strings.Join(rets, ", ") + " }"
			}
		default:
			continue
		}
		edits[file] = append(edits[file], bodyEdit{P.fset.Position(decl.Body.Lbrace).Offset, P.fset.Position(decl.Body.Rbrace).Offset + 1, body})
	}
	// call-site replacements of external functions (//verif:replace-call)
	for _, r := range P.callRepl {
		dot := strings.LastIndex(r.from, ".")
		if dot < 0 {
			continue
		}
		pkgPath, fname := r.from[:dot], r.from[dot+1:]
		for _, p := range P.pkgs {
			if p.Types != r.pkg.Pkg {
				continue
			}
			for j, f := range p.Syntax {
				file := p.CompiledGoFiles[j]
				if _, isOverlay := P.overlay[file]; isOverlay {
					continue
				}
				local := ""
				for _, im := range f.Imports {
					if strings.Trim(im.Path.Value, "\"") == pkgPath {
						local = pkgPath[strings.LastIndex(pkgPath, "/")+1:]
						if im.Name != nil {
							local = im.Name.Name
						}
					}
				}
				if local == "" {
					continue
				}
				found := false
				ast.Inspect(f, func(n ast.Node) bool {
					ce, ok := n.(*ast.CallExpr)
					if !ok {
						return true
					}
					se, ok := ce.Fun.(*ast.SelectorExpr)
					if !ok {
						return true
					}
					id, ok := se.X.(*ast.Ident)
					if !ok || id.Name != local || se.Sel.Name != fname {
						return true
					}
					edits[file] = append(edits[file], bodyEdit{P.fset.Position(se.Pos()).Offset, P.fset.Position(se.End()).Offset, r.target.Name()})
					found = true
					return true
				})
				if found {
					// keep the import used
					edits[file] = append(edits[file], bodyEdit{P.fset.Position(f.End()).Offset, P.fset.Position(f.End()).Offset, "\nvar _ = " + local + "." + fname + "\n"})
				}
			}
		}
	}
	out := map[string][]byte{}
	for file, es := range edits {
		src, err := os.ReadFile(file)
		if err != nil {
			continue
		}
		sort.Slice(es, func(i, j int) bool { return es[i].start > es[j].start })
		// an edit inside the range of another edit (a replaced call inside a
		// replaced function body) is dropped: the enclosing text is replaced as a whole
		var keep []bodyEdit
		for i, e := range es {
			nested := false
			for j, o := range es {
				if i != j && o.start <= e.start && e.end <= o.end && (o.start < e.start || e.end < o.end) {
					nested = true
				}
			}
			if !nested {
				keep = append(keep, e)
			}
		}
		es = keep
		for _, e := range es {
			src = append(append(append([]byte{}, src[:e.start]...), []byte(e.text)...), src[e.end:]...)
		}
		// imports that became unused would break the build: make them blank
		out[file] = blankUnusedImports(src, importNamesOf(P, file))
	}
	return out, notes
}

func ssautilAllFunctions(P *Program) map[*ssa.Function]bool {
	res := map[*ssa.Function]bool{}
	for pkg := range P.roots {
		for _, m := range pkg.Members {
			switch x := m.(type) {
			case *ssa.Function:
				res[x] = true
			case *ssa.Type:
				for _, T := range []interface{}{x.Type()} {
					_ = T
				}
				ms := P.prog.MethodSets.MethodSet(x.Type())
				for i := 0; i < ms.Len(); i++ {
					if f := P.prog.MethodValue(ms.At(i)); f != nil {
						res[f] = true
					}
				}
				msp := P.prog.MethodSets.MethodSet(typesNewPointer(x.Type()))
				for i := 0; i < msp.Len(); i++ {
					if f := P.prog.MethodValue(msp.At(i)); f != nil {
						res[f] = true
					}
				}
			}
		}
	}
	return res
}

func typesNewPointer(t types.Type) types.Type { return types.NewPointer(t) }
