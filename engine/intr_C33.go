package main

// C33 (real chequeStore variant): small models for the string helpers that
// pkg/settlement/traffic/cheque uses to build and parse state-store keys.
//
//  * the six key functions `fmt.Sprintf("%s_%x", <prefix var>, chainAddress)`:
//    if the core Sprintf model renders %x of a [20]byte array (formatValue case
//    *ArrayV, added in my workspace copy of intrinsics.go) the REAL body runs;
//    otherwise (older core) the call is modelled as value-of-the-real-prefix-
//    variable + "_" + lower-case hex of the address.
//  * strings.SplitAfter on concrete strings.
//  * common.HexToAddress on a concrete string (FromHex + BytesToAddress).

import (
	"encoding/hex"
	"go/types"
	"strings"

	"golang.org/x/tools/go/ssa"
)

func init() {
	chq := repoMod + "/pkg/settlement/traffic/cheque."
	for fname, gname := range map[string]string{
		"lastReceivedChequeKey":   "lastReceivedChequePrefix",
		"lastSendChequeKey":       "lastSendChequePrefix",
		"retrievedTraffic":        "retrievedTrafficPrefix",
		"transferredTraffic":      "transferredTrafficPrefix",
		"chainRetrievedTraffic":   "chainRetrievedTrafficPrefix",
		"chainTransferredTraffic": "chainTransferredTrafficPrefix",
	} {
		gname := gname
		reg(chq+fname, func(w *Worker, fr *frame, a []Value, fn *ssa.Function) Value {
			g, ok := fn.Pkg.Members[gname].(*ssa.Global)
			if !ok {
				w.unsupported("cheque key model: package variable %s not found", gname)
			}
			prefix, ok := w.global(g).val.(StringV)
			if !ok || prefix.Opaque != 0 {
				w.unsupported("cheque key model: %s is not a plain string", gname)
			}
			arr, ok := a[0].(*ArrayV)
			if !ok {
				w.unsupported("cheque key model: address is %T", a[0])
			}
			// If the core fmt model can render %x of a byte array, run the real body.
			if _, ok := w.formatValue(IfaceV{T: fn.Signature.Params().At(0).Type(), V: arr}, 'x'); ok {
				return w.runFn(fr, fn, a, nil)
			}
			b := make([]*Term, len(arr.E))
			for i, e := range arr.E {
				b[i] = e.(*Term)
			}
			out := StringV{B: append([]*Term{}, prefix.B...)}
			out.B = append(out.B, w.ctx.BVConst('_', 8))
			out.B = append(out.B, w.hexEncode(b).B...)
			return out
		})
	}

	reg("strings.SplitAfter", func(w *Worker, fr *frame, a []Value, fn *ssa.Function) Value {
		s, ok1 := a[0].(StringV).Concrete()
		sep, ok2 := a[1].(StringV).Concrete()
		if !ok1 || !ok2 {
			w.unsupported("strings.SplitAfter of a symbolic string")
		}
		parts := strings.SplitAfter(s, sep)
		arr := &ArrayV{E: make([]Value, len(parts))}
		for i, p := range parts {
			arr.E[i] = strV(w.ctx, p)
		}
		n := len(parts)
		o := w.newObj(arr, types.NewArray(types.Typ[types.String], int64(n)), "strings.SplitAfter")
		return SliceV{Arr: PtrV{Obj: o}, Off: w.k64(0), Len: w.k64(n), Cap: w.k64(n)}
	})

	reg("github.com/ethereum/go-ethereum/common.HexToAddress", func(w *Worker, fr *frame, a []Value, fn *ssa.Function) Value {
		s, ok := a[0].(StringV).Concrete()
		if !ok {
			w.unsupported("common.HexToAddress of a symbolic string")
		}
		// common.FromHex
		if len(s) >= 2 && s[0] == '0' && (s[1] == 'x' || s[1] == 'X') {
			s = s[2:]
		}
		if len(s)%2 == 1 {
			s = "0" + s
		}
		raw, _ := hex.DecodeString(s) // Hex2Bytes ignores the error and keeps the decoded prefix
		// common.BytesToAddress: keep the last 20 bytes, right-aligned
		if len(raw) > 20 {
			raw = raw[len(raw)-20:]
		}
		var out [20]byte
		copy(out[20-len(raw):], raw)
		arr := &ArrayV{E: make([]Value, 20)}
		for i := range out {
			arr.E[i] = w.ctx.BVConst(uint64(out[i]), 8)
		}
		return arr
	})
}
