package main

// Intrinsics added for the C37 parts (c), (d), (h), (b), (e) (retrieval,
// chunkinfo, multicast, hive2, routetab handlers):
//
//  * (*gcache.Cache).SetAdapter(a): stores the adapter into the embedded
//    Adapter field of the Cache value made by the gcache.New intrinsic
//    (intr_C27.go), so that a harness can supply its own cache model (the
//    default model is the always-empty cache whose SetIfNotExist reports
//    "already present", which would cut the multicast handlers short).
//  * (time.Time).UnixMilli(): an unconstrained 64-bit value (the callers only
//    put it into log / notification records; an exact ns/1e6 needs a 64-bit
//    division circuit).

import (
	"golang.org/x/tools/go/ssa"
)

func init() {
	reg("(*github.com/gogf/gf/v2/os/gcache.Cache).SetAdapter", func(w *Worker, fr *frame, a []Value, fn *ssa.Function) Value {
		p, ok := a[0].(PtrV)
		if !ok || p.IsNil() {
			w.goPanic("invalid memory address or nil pointer dereference (gcache.Cache.SetAdapter)")
		}
		w.store(p.extend(PE{I: 0}), a[1])
		return nil
	})
	// (time.Time).UnixMilli: bounded over-approximation in intr_C38s.go
}
