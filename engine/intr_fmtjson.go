package main

// Intrinsics added for C15 (pkg/pinning):
//  * fmt %s / %v of a value whose dynamic type has a String() string (or
//    Error() string) method with an SSA body: the method is executed, as fmt
//    does (hook called from (*Worker).sprintf).
//  * encoding/json.Unmarshal for the two shapes that boson.Address needs:
//    target *string (a JSON string literal without escapes) and targets whose
//    type has an UnmarshalJSON([]byte) error method with an SSA body.

import (
	"go/types"

	"golang.org/x/tools/go/ssa"
)

func (w *Worker) c15method(t types.Type, name string) *ssa.Function {
	ms := w.prog.prog.MethodSets.MethodSet(t)
	for i := 0; i < ms.Len(); i++ {
		if ms.At(i).Obj().Name() == name {
			fn := w.prog.prog.MethodValue(ms.At(i))
			if fn != nil && fn.Blocks != nil {
				return fn
			}
			return nil
		}
	}
	return nil
}

func init() {
	fmtStringerHook = func(w *Worker, fr *frame, v IfaceV) (StringV, bool) {
		if v.T == nil || types.Identical(v.T, errType) || types.Identical(v.T, nopType) || types.Identical(v.T, opqType) {
			return StringV{}, false
		}
		for _, name := range []string{"Error", "String"} {
			fn := w.c15method(v.T, name)
			if fn == nil {
				continue
			}
			sig := fn.Signature
			if sig.Params().Len() != 0 || sig.Results().Len() != 1 {
				continue
			}
			if b, ok := sig.Results().At(0).Type().Underlying().(*types.Basic); !ok || b.Kind() != types.String {
				continue
			}
			r, ok := w.callFn(fr, fn, []Value{v.V}, nil).(StringV)
			if !ok || r.Opaque != 0 {
				return StringV{}, false
			}
			return r, true
		}
		return StringV{}, false
	}

	reg("encoding/json.Unmarshal", func(w *Worker, fr *frame, a []Value, fn *ssa.Function) Value {
		data := a[0].(SliceV)
		tgt := a[1].(IfaceV)
		if tgt.T == nil {
			return w.newErr(strV(w.ctx, "json: Unmarshal(nil)"), nil)
		}
		pt, ok := tgt.T.Underlying().(*types.Pointer)
		if !ok {
			return w.newErr(strV(w.ctx, "json: Unmarshal(non-pointer)"), nil)
		}
		if m := w.c15method(tgt.T, "UnmarshalJSON"); m != nil {
			return w.callFn(fr, m, []Value{tgt.V, data}, nil)
		}
		if b, ok := pt.Elem().Underlying().(*types.Basic); ok && b.Kind() == types.String {
			s := w.bytesToString(data)
			c := w.ctx
			n := len(s.B)
			q := c.BVConst('"', 8)
			bs := c.BVConst('\\', 8)
			if n < 2 {
				return w.newErr(strV(c, "json: cannot unmarshal into string"), nil)
			}
			okc := []*Term{c.Eq(s.B[0], q), c.Eq(s.B[n-1], q)}
			for _, ch := range s.B[1 : n-1] {
				// plain printable ASCII only (no escapes, no control characters, no UTF-8)
				okc = append(okc, c.Not(c.Eq(ch, q)), c.Not(c.Eq(ch, bs)), c.UGe(ch, c.BVConst(0x20, 8)), c.ULt(ch, c.BVConst(0x7f, 8)))
			}
			cond := c.And(okc...)
			if cond.IsTrue() || w.branch(cond) {
				w.store(tgt.V.(PtrV), StringV{B: s.B[1 : n-1]})
				return IfaceV{}
			}
			w.unsupported("json.Unmarshal into *string of something else than a plain quoted ASCII string")
		}
		w.unsupported("json.Unmarshal into %s", tgt.T)
		return nil
	})
}
