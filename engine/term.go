package main

// SMT term DAG with hash-consing and eager simplification.

import (
	"fmt"
	"math/big"
	"strings"
)

type SortKind uint8

const (
	SBool SortKind = iota
	SBV
	SInt
	SArr // Array (BV iw) (BV ew)
)

type Sort struct {
	K  SortKind
	W  int // BV width / array index width
	EW int // array element width
}

var BoolSort = Sort{K: SBool}
var IntSort = Sort{K: SInt}

func BV(w int) Sort { return Sort{K: SBV, W: w} }

func (s Sort) String() string {
	switch s.K {
	case SBool:
		return "Bool"
	case SBV:
		return fmt.Sprintf("(_ BitVec %d)", s.W)
	case SInt:
		return "Int"
	case SArr:
		return fmt.Sprintf("(Array (_ BitVec %d) (_ BitVec %d))", s.W, s.EW)
	}
	return "?"
}

type Op uint8

const (
	OConst Op = iota
	OVar
	ONot
	OAnd
	OOr
	OIte
	OEq
	OBvAdd
	OBvSub
	OBvMul
	OBvUDiv
	OBvURem
	OBvSDiv
	OBvSRem
	OBvAnd
	OBvOr
	OBvXor
	OBvShl
	OBvLShr
	OBvAShr
	OBvNeg
	OBvNot
	OBvULt
	OBvULe
	OBvSLt
	OBvSLe
	OConcat
	OExtract
	OZExt
	OSExt
	OIAdd
	OISub
	OIMul
	OILt
	OILe
	OINeg
	OBv2Nat
	OInt2Bv
	OSelect
	OStore
	OApp // uninterpreted function application
	OConstArr
)

var opNames = map[Op]string{
	ONot: "not", OAnd: "and", OOr: "or", OIte: "ite", OEq: "=",
	OBvAdd: "bvadd", OBvSub: "bvsub", OBvMul: "bvmul", OBvUDiv: "bvudiv", OBvURem: "bvurem",
	OBvSDiv: "bvsdiv", OBvSRem: "bvsrem", OBvAnd: "bvand", OBvOr: "bvor", OBvXor: "bvxor",
	OBvShl: "bvshl", OBvLShr: "bvlshr", OBvAShr: "bvashr", OBvNeg: "bvneg", OBvNot: "bvnot",
	OBvULt: "bvult", OBvULe: "bvule", OBvSLt: "bvslt", OBvSLe: "bvsle", OConcat: "concat",
	OIAdd: "+", OISub: "-", OIMul: "*", OILt: "<", OILe: "<=", OINeg: "-",
	OBv2Nat: "bv2nat", OSelect: "select", OStore: "store",
}

type Term struct {
	id   int
	op   Op
	sort Sort
	args []*Term
	cv   uint64   // const value (BV, Bool: 0/1)
	iv   *big.Int // const value (Int)
	name string   // var / UF name
	hi   int      // extract hi / ext amount
	lo   int
	def  bool // defined in solver
}

func (t *Term) Sort() Sort { return t.sort }
func (t *Term) IsConst() bool { return t.op == OConst }
func (t *Term) IsTrue() bool  { return t.op == OConst && t.sort.K == SBool && t.cv == 1 }
func (t *Term) IsFalse() bool { return t.op == OConst && t.sort.K == SBool && t.cv == 0 }

// ConstU returns the constant value (zero-extended) and whether t is a BV/bool constant.
func (t *Term) ConstU() (uint64, bool) {
	if t.op == OConst && t.sort.K != SInt {
		return t.cv, true
	}
	return 0, false
}

// ConstS returns sign-extended constant value.
func (t *Term) ConstS() (int64, bool) {
	if t.op == OConst && t.sort.K == SBV {
		return sext(t.cv, t.sort.W), true
	}
	return 0, false
}

func sext(v uint64, w int) int64 {
	if w >= 64 {
		return int64(v)
	}
	if v&(1<<(uint(w)-1)) != 0 {
		return int64(v | ^mask(w))
	}
	return int64(v)
}

func mask(w int) uint64 {
	if w >= 64 {
		return ^uint64(0)
	}
	return (uint64(1) << uint(w)) - 1
}

type UFDecl struct {
	name string
	args []Sort
	ret  Sort
	decl bool
}

type Ctx struct {
	tab    map[string]*Term
	nextID int
	vars   []*Term // declaration order
	ufs    map[string]*UFDecl
	ufList []*UFDecl
	True   *Term
	False  *Term
	fresh  map[string]int
	hasInt bool
}

func NewCtx() *Ctx {
	c := &Ctx{tab: map[string]*Term{}, ufs: map[string]*UFDecl{}, fresh: map[string]int{}}
	c.False = c.mk(&Term{op: OConst, sort: BoolSort, cv: 0})
	c.True = c.mk(&Term{op: OConst, sort: BoolSort, cv: 1})
	return c
}

func (c *Ctx) key(t *Term) string {
	var sb strings.Builder
	fmt.Fprintf(&sb, "%d|%d.%d.%d|", t.op, t.sort.K, t.sort.W, t.sort.EW)
	switch t.op {
	case OConst:
		if t.sort.K == SInt {
			sb.WriteString(t.iv.String())
		} else {
			fmt.Fprintf(&sb, "%d", t.cv)
		}
	case OVar, OApp:
		sb.WriteString(t.name)
	case OExtract, OZExt, OSExt, OInt2Bv:
		fmt.Fprintf(&sb, "%d.%d", t.hi, t.lo)
	}
	for _, a := range t.args {
		fmt.Fprintf(&sb, ",%d", a.id)
	}
	return sb.String()
}

func (c *Ctx) mk(t *Term) *Term {
	if t.sort.K == SInt {
		c.hasInt = true
	}
	k := c.key(t)
	if x, ok := c.tab[k]; ok {
		return x
	}
	t.id = c.nextID
	c.nextID++
	c.tab[k] = t
	if t.op == OVar {
		c.vars = append(c.vars, t)
	}
	return t
}

// ---- constructors ----

func (c *Ctx) Bool(b bool) *Term {
	if b {
		return c.True
	}
	return c.False
}

func (c *Ctx) BVConst(v uint64, w int) *Term {
	return c.mk(&Term{op: OConst, sort: BV(w), cv: v & mask(w)})
}

func (c *Ctx) IntConst(v *big.Int) *Term {
	return c.mk(&Term{op: OConst, sort: IntSort, iv: new(big.Int).Set(v)})
}
func (c *Ctx) IntConst64(v int64) *Term { return c.IntConst(big.NewInt(v)) }

func (c *Ctx) Var(name string, s Sort) *Term {
	return c.mk(&Term{op: OVar, sort: s, name: name})
}

// FreshVar creates a variable with a deterministic unique name derived from base.
func (c *Ctx) FreshName(base string) string {
	n := c.fresh[base]
	c.fresh[base] = n + 1
	if n == 0 {
		return base
	}
	return fmt.Sprintf("%s#%d", base, n)
}

func (c *Ctx) Not(a *Term) *Term {
	if a.op == OConst {
		return c.Bool(a.cv == 0)
	}
	if a.op == ONot {
		return a.args[0]
	}
	return c.mk(&Term{op: ONot, sort: BoolSort, args: []*Term{a}})
}

func (c *Ctx) And(xs ...*Term) *Term {
	var out []*Term
	seen := map[int]bool{}
	for _, x := range xs {
		if x.IsFalse() {
			return c.False
		}
		if x.IsTrue() {
			continue
		}
		if x.op == OAnd {
			for _, y := range x.args {
				if !seen[y.id] {
					seen[y.id] = true
					out = append(out, y)
				}
			}
			continue
		}
		if !seen[x.id] {
			seen[x.id] = true
			out = append(out, x)
		}
	}
	for _, x := range out {
		if x.op == ONot && seen[x.args[0].id] {
			return c.False
		}
	}
	if len(out) == 0 {
		return c.True
	}
	if len(out) == 1 {
		return out[0]
	}
	return c.mk(&Term{op: OAnd, sort: BoolSort, args: out})
}

func (c *Ctx) Or(xs ...*Term) *Term {
	var out []*Term
	seen := map[int]bool{}
	for _, x := range xs {
		if x.IsTrue() {
			return c.True
		}
		if x.IsFalse() {
			continue
		}
		if x.op == OOr {
			for _, y := range x.args {
				if !seen[y.id] {
					seen[y.id] = true
					out = append(out, y)
				}
			}
			continue
		}
		if !seen[x.id] {
			seen[x.id] = true
			out = append(out, x)
		}
	}
	for _, x := range out {
		if x.op == ONot && seen[x.args[0].id] {
			return c.True
		}
	}
	if len(out) == 0 {
		return c.False
	}
	if len(out) == 1 {
		return out[0]
	}
	return c.mk(&Term{op: OOr, sort: BoolSort, args: out})
}

func (c *Ctx) Implies(a, b *Term) *Term { return c.Or(c.Not(a), b) }

func (c *Ctx) Ite(cnd, a, b *Term) *Term {
	if cnd.IsTrue() {
		return a
	}
	if cnd.IsFalse() {
		return b
	}
	if a == b {
		return a
	}
	if a.sort != b.sort {
		panic(fmt.Sprintf("ite sort mismatch %v %v", a.sort, b.sort))
	}
	if a.sort.K == SBool {
		if a.IsTrue() && b.IsFalse() {
			return cnd
		}
		if a.IsFalse() && b.IsTrue() {
			return c.Not(cnd)
		}
		if a.IsTrue() {
			return c.Or(cnd, b)
		}
		if a.IsFalse() {
			return c.And(c.Not(cnd), b)
		}
		if b.IsTrue() {
			return c.Or(c.Not(cnd), a)
		}
		if b.IsFalse() {
			return c.And(cnd, a)
		}
	}
	// ite(c, x, ite(c, y, z)) = ite(c, x, z)
	if b.op == OIte && b.args[0] == cnd {
		b = b.args[2]
	}
	if a.op == OIte && a.args[0] == cnd {
		a = a.args[1]
	}
	return c.mk(&Term{op: OIte, sort: a.sort, args: []*Term{cnd, a, b}})
}

func (c *Ctx) Eq(a, b *Term) *Term {
	if a == b {
		return c.True
	}
	if a.sort != b.sort {
		panic(fmt.Sprintf("eq sort mismatch %v %v", a.sort, b.sort))
	}
	if a.op == OConst && b.op == OConst {
		if a.sort.K == SInt {
			return c.Bool(a.iv.Cmp(b.iv) == 0)
		}
		return c.Bool(a.cv == b.cv)
	}
	if a.sort.K == SBool {
		if a.IsTrue() {
			return b
		}
		if b.IsTrue() {
			return a
		}
		if a.IsFalse() {
			return c.Not(b)
		}
		if b.IsFalse() {
			return c.Not(a)
		}
	}
	// eq(ite(c, k1, k2), k) with constants
	if b.op == OConst && a.op == OIte && a.args[1].op == OConst && a.args[2].op == OConst {
		return c.Ite(a.args[0], c.Eq(a.args[1], b), c.Eq(a.args[2], b))
	}
	if a.op == OConst && b.op == OIte && b.args[1].op == OConst && b.args[2].op == OConst {
		return c.Ite(b.args[0], c.Eq(b.args[1], a), c.Eq(b.args[2], a))
	}
	if a.id > b.id {
		a, b = b, a
	}
	return c.mk(&Term{op: OEq, sort: BoolSort, args: []*Term{a, b}})
}

func (c *Ctx) bvbin(op Op, a, b *Term) *Term {
	if a.sort != b.sort || a.sort.K != SBV {
		panic(fmt.Sprintf("bvbin %s sort mismatch %v %v", opNames[op], a.sort, b.sort))
	}
	w := a.sort.W
	if a.op == OConst && b.op == OConst {
		x, y := a.cv, b.cv
		var r uint64
		ok := true
		switch op {
		case OBvAdd:
			r = x + y
		case OBvSub:
			r = x - y
		case OBvMul:
			r = x * y
		case OBvAnd:
			r = x & y
		case OBvOr:
			r = x | y
		case OBvXor:
			r = x ^ y
		case OBvUDiv:
			if y == 0 {
				r = mask(w)
			} else {
				r = x / y
			}
		case OBvURem:
			if y == 0 {
				r = x
			} else {
				r = x % y
			}
		case OBvSDiv:
			sx, sy := sext(x, w), sext(y, w)
			if sy == 0 {
				ok = false
			} else if sy == -1 {
				r = uint64(-sx)
			} else {
				r = uint64(sx / sy)
			}
		case OBvSRem:
			sx, sy := sext(x, w), sext(y, w)
			if sy == 0 {
				ok = false
			} else if sy == -1 {
				r = 0
			} else {
				r = uint64(sx % sy)
			}
		case OBvShl:
			if y >= uint64(w) {
				r = 0
			} else {
				r = x << y
			}
		case OBvLShr:
			if y >= uint64(w) {
				r = 0
			} else {
				r = x >> y
			}
		case OBvAShr:
			sx := sext(x, w)
			if y >= uint64(w) {
				if sx < 0 {
					r = mask(w)
				} else {
					r = 0
				}
			} else {
				r = uint64(sx >> y)
			}
		default:
			ok = false
		}
		if ok {
			return c.BVConst(r, w)
		}
	}
	// division / remainder by a constant power of two: exact shift identities
	// (keeps bit-blasting cheap; bvsdiv/bvsrem circuits are very expensive)
	if b.op == OConst && b.cv != 0 && b.cv&(b.cv-1) == 0 && w > 1 {
		k := 0
		for (uint64(1) << uint(k)) != b.cv {
			k++
		}
		kc := c.BVConst(uint64(k), w)
		switch op {
		case OBvUDiv:
			return c.bvbin(OBvLShr, a, kc)
		case OBvURem:
			return c.bvbin(OBvAnd, a, c.BVConst(b.cv-1, w))
		case OBvSDiv, OBvSRem:
			if k == 0 {
				if op == OBvSDiv {
					return a
				}
				return c.BVConst(0, w)
			}
			if k < w-1 {
				sign := c.bvbin(OBvAShr, a, c.BVConst(uint64(w-1), w))
				bias := c.bvbin(OBvLShr, sign, c.BVConst(uint64(w-k), w))
				q := c.bvbin(OBvAShr, c.bvbin(OBvAdd, a, bias), kc)
				if op == OBvSDiv {
					return q
				}
				return c.bvbin(OBvSub, a, c.bvbin(OBvShl, q, kc))
			}
		}
	}
	// identities
	switch op {
	case OBvAdd:
		if a.op == OConst && a.cv == 0 {
			return b
		}
		if b.op == OConst && b.cv == 0 {
			return a
		}
		// (x + k1) + k2
		if b.op == OConst && a.op == OBvAdd && a.args[1].op == OConst {
			return c.bvbin(OBvAdd, a.args[0], c.BVConst(a.args[1].cv+b.cv, w))
		}
		if a.op == OConst {
			a, b = b, a
		}
	case OBvSub:
		if b.op == OConst && b.cv == 0 {
			return a
		}
		if a == b {
			return c.BVConst(0, w)
		}
		if b.op == OConst {
			return c.bvbin(OBvAdd, a, c.BVConst(-b.cv, w))
		}
	case OBvMul:
		if a.op == OConst {
			a, b = b, a
		}
		if b.op == OConst && b.cv == 0 {
			return b
		}
		if b.op == OConst && b.cv == 1 {
			return a
		}
	case OBvAnd:
		if a == b {
			return a
		}
		if a.op == OConst {
			a, b = b, a
		}
		if b.op == OConst && b.cv == 0 {
			return b
		}
		if b.op == OConst && b.cv == mask(w) {
			return a
		}
	case OBvOr:
		if a == b {
			return a
		}
		if a.op == OConst {
			a, b = b, a
		}
		if b.op == OConst && b.cv == 0 {
			return a
		}
		if b.op == OConst && b.cv == mask(w) {
			return b
		}
	case OBvXor:
		if a == b {
			return c.BVConst(0, w)
		}
		if a.op == OConst {
			a, b = b, a
		}
		if b.op == OConst && b.cv == 0 {
			return a
		}
	case OBvShl, OBvLShr, OBvAShr:
		if b.op == OConst && b.cv == 0 {
			return a
		}
	}
	return c.mk(&Term{op: op, sort: a.sort, args: []*Term{a, b}})
}

func (c *Ctx) Add(a, b *Term) *Term  { return c.bvbin(OBvAdd, a, b) }
func (c *Ctx) Sub(a, b *Term) *Term  { return c.bvbin(OBvSub, a, b) }
func (c *Ctx) Mul(a, b *Term) *Term  { return c.bvbin(OBvMul, a, b) }
func (c *Ctx) UDiv(a, b *Term) *Term { return c.bvbin(OBvUDiv, a, b) }
func (c *Ctx) URem(a, b *Term) *Term { return c.bvbin(OBvURem, a, b) }
func (c *Ctx) SDiv(a, b *Term) *Term { return c.bvbin(OBvSDiv, a, b) }
func (c *Ctx) SRem(a, b *Term) *Term { return c.bvbin(OBvSRem, a, b) }
func (c *Ctx) BAnd(a, b *Term) *Term { return c.bvbin(OBvAnd, a, b) }
func (c *Ctx) BOr(a, b *Term) *Term  { return c.bvbin(OBvOr, a, b) }
func (c *Ctx) BXor(a, b *Term) *Term { return c.bvbin(OBvXor, a, b) }
func (c *Ctx) Shl(a, b *Term) *Term  { return c.bvbin(OBvShl, a, b) }
func (c *Ctx) LShr(a, b *Term) *Term { return c.bvbin(OBvLShr, a, b) }
func (c *Ctx) AShr(a, b *Term) *Term { return c.bvbin(OBvAShr, a, b) }

func (c *Ctx) Neg(a *Term) *Term {
	if a.op == OConst {
		return c.BVConst(-a.cv, a.sort.W)
	}
	return c.mk(&Term{op: OBvNeg, sort: a.sort, args: []*Term{a}})
}

func (c *Ctx) BNot(a *Term) *Term {
	if a.op == OConst {
		return c.BVConst(^a.cv, a.sort.W)
	}
	return c.mk(&Term{op: OBvNot, sort: a.sort, args: []*Term{a}})
}

func (c *Ctx) bvcmp(op Op, a, b *Term) *Term {
	if a.sort != b.sort || a.sort.K != SBV {
		panic(fmt.Sprintf("bvcmp sort mismatch %v %v", a.sort, b.sort))
	}
	w := a.sort.W
	if a.op == OConst && b.op == OConst {
		switch op {
		case OBvULt:
			return c.Bool(a.cv < b.cv)
		case OBvULe:
			return c.Bool(a.cv <= b.cv)
		case OBvSLt:
			return c.Bool(sext(a.cv, w) < sext(b.cv, w))
		case OBvSLe:
			return c.Bool(sext(a.cv, w) <= sext(b.cv, w))
		}
	}
	if a == b {
		return c.Bool(op == OBvULe || op == OBvSLe)
	}
	if op == OBvULt && b.op == OConst && b.cv == 0 {
		return c.False
	}
	if op == OBvULe && a.op == OConst && a.cv == 0 {
		return c.True
	}
	if op == OBvULe && b.op == OConst && b.cv == mask(w) {
		return c.True
	}
	// zext comparisons against small constants
	if a.op == OZExt && b.op == OConst && (op == OBvULt || op == OBvULe) {
		iw := a.args[0].sort.W
		if b.cv > mask(iw) {
			return c.True
		}
	}
	return c.mk(&Term{op: op, sort: BoolSort, args: []*Term{a, b}})
}

func (c *Ctx) ULt(a, b *Term) *Term { return c.bvcmp(OBvULt, a, b) }
func (c *Ctx) ULe(a, b *Term) *Term { return c.bvcmp(OBvULe, a, b) }
func (c *Ctx) SLt(a, b *Term) *Term { return c.bvcmp(OBvSLt, a, b) }
func (c *Ctx) SLe(a, b *Term) *Term { return c.bvcmp(OBvSLe, a, b) }
func (c *Ctx) UGt(a, b *Term) *Term { return c.bvcmp(OBvULt, b, a) }
func (c *Ctx) UGe(a, b *Term) *Term { return c.bvcmp(OBvULe, b, a) }
func (c *Ctx) SGt(a, b *Term) *Term { return c.bvcmp(OBvSLt, b, a) }
func (c *Ctx) SGe(a, b *Term) *Term { return c.bvcmp(OBvSLe, b, a) }

func (c *Ctx) Concat(hi, lo *Term) *Term {
	w := hi.sort.W + lo.sort.W
	if hi.op == OConst && lo.op == OConst && w <= 64 {
		return c.BVConst(hi.cv<<uint(lo.sort.W)|lo.cv, w)
	}
	return c.mk(&Term{op: OConcat, sort: BV(w), args: []*Term{hi, lo}})
}

func (c *Ctx) Extract(a *Term, hi, lo int) *Term {
	w := hi - lo + 1
	if lo == 0 && w == a.sort.W {
		return a
	}
	if a.op == OConst && a.sort.W <= 64 {
		return c.BVConst(a.cv>>uint(lo), w)
	}
	if (a.op == OZExt || a.op == OSExt) && hi < a.args[0].sort.W {
		return c.Extract(a.args[0], hi, lo)
	}
	if a.op == OZExt && lo >= a.args[0].sort.W {
		return c.BVConst(0, w)
	}
	if a.op == OConcat {
		lw := a.args[1].sort.W
		if hi < lw {
			return c.Extract(a.args[1], hi, lo)
		}
		if lo >= lw {
			return c.Extract(a.args[0], hi-lw, lo-lw)
		}
	}
	return c.mk(&Term{op: OExtract, sort: BV(w), args: []*Term{a}, hi: hi, lo: lo})
}

func (c *Ctx) ZExt(a *Term, w int) *Term {
	if w == a.sort.W {
		return a
	}
	if w < a.sort.W {
		return c.Extract(a, w-1, 0)
	}
	if a.op == OConst {
		return c.BVConst(a.cv, w)
	}
	if a.op == OZExt {
		return c.ZExt(a.args[0], w)
	}
	return c.mk(&Term{op: OZExt, sort: BV(w), args: []*Term{a}, hi: w - a.sort.W})
}

func (c *Ctx) SExt(a *Term, w int) *Term {
	if w == a.sort.W {
		return a
	}
	if w < a.sort.W {
		return c.Extract(a, w-1, 0)
	}
	if a.op == OConst {
		return c.BVConst(uint64(sext(a.cv, a.sort.W)), w)
	}
	if a.op == OZExt {
		return c.ZExt(a.args[0], w)
	}
	return c.mk(&Term{op: OSExt, sort: BV(w), args: []*Term{a}, hi: w - a.sort.W})
}

// Int ops
func (c *Ctx) IAdd(a, b *Term) *Term {
	if a.op == OConst && b.op == OConst {
		return c.IntConst(new(big.Int).Add(a.iv, b.iv))
	}
	if a.op == OConst && a.iv.Sign() == 0 {
		return b
	}
	if b.op == OConst && b.iv.Sign() == 0 {
		return a
	}
	return c.mk(&Term{op: OIAdd, sort: IntSort, args: []*Term{a, b}})
}
func (c *Ctx) ISub(a, b *Term) *Term {
	if a.op == OConst && b.op == OConst {
		return c.IntConst(new(big.Int).Sub(a.iv, b.iv))
	}
	if b.op == OConst && b.iv.Sign() == 0 {
		return a
	}
	if a == b {
		return c.IntConst64(0)
	}
	return c.mk(&Term{op: OISub, sort: IntSort, args: []*Term{a, b}})
}
func (c *Ctx) IMul(a, b *Term) *Term {
	if a.op == OConst && b.op == OConst {
		return c.IntConst(new(big.Int).Mul(a.iv, b.iv))
	}
	return c.mk(&Term{op: OIMul, sort: IntSort, args: []*Term{a, b}})
}
func (c *Ctx) INeg(a *Term) *Term {
	if a.op == OConst {
		return c.IntConst(new(big.Int).Neg(a.iv))
	}
	return c.mk(&Term{op: OINeg, sort: IntSort, args: []*Term{a}})
}
func (c *Ctx) ILt(a, b *Term) *Term {
	if a.op == OConst && b.op == OConst {
		return c.Bool(a.iv.Cmp(b.iv) < 0)
	}
	if a == b {
		return c.False
	}
	return c.mk(&Term{op: OILt, sort: BoolSort, args: []*Term{a, b}})
}
func (c *Ctx) ILe(a, b *Term) *Term {
	if a.op == OConst && b.op == OConst {
		return c.Bool(a.iv.Cmp(b.iv) <= 0)
	}
	if a == b {
		return c.True
	}
	return c.mk(&Term{op: OILe, sort: BoolSort, args: []*Term{a, b}})
}

// Bv2Nat: unsigned value of a bit-vector as Int.
func (c *Ctx) Bv2Nat(a *Term) *Term {
	if a.op == OConst {
		return c.IntConst(new(big.Int).SetUint64(a.cv))
	}
	return c.mk(&Term{op: OBv2Nat, sort: IntSort, args: []*Term{a}})
}

// Bv2Int: signed value of a bit-vector as Int.
func (c *Ctx) Bv2IntSigned(a *Term) *Term {
	w := a.sort.W
	if a.op == OConst {
		return c.IntConst(big.NewInt(sext(a.cv, w)))
	}
	n := c.Bv2Nat(a)
	neg := c.SLt(a, c.BVConst(0, w))
	two := new(big.Int).Lsh(big.NewInt(1), uint(w))
	return c.Ite(neg, c.ISub(n, c.IntConst(two)), n)
}

func (c *Ctx) Int2Bv(a *Term, w int) *Term {
	if a.op == OConst {
		m := new(big.Int).Lsh(big.NewInt(1), uint(w))
		r := new(big.Int).Mod(a.iv, m)
		return c.BVConst(r.Uint64(), w)
	}
	return c.mk(&Term{op: OInt2Bv, sort: BV(w), args: []*Term{a}, hi: w})
}

func (c *Ctx) Select(arr, idx *Term) *Term {
	// read-over-write simplification with syntactic index comparison
	for arr.op == OStore {
		if arr.args[1] == idx {
			return arr.args[2]
		}
		if arr.args[1].op == OConst && idx.op == OConst {
			arr = arr.args[0]
			continue
		}
		break
	}
	if arr.op == OConstArr {
		return arr.args[0]
	}
	return c.mk(&Term{op: OSelect, sort: BV(arr.sort.EW), args: []*Term{arr, idx}})
}

func (c *Ctx) Store(arr, idx, v *Term) *Term {
	return c.mk(&Term{op: OStore, sort: arr.sort, args: []*Term{arr, idx, v}})
}

func (c *Ctx) ConstArr(iw int, v *Term) *Term {
	return c.mk(&Term{op: OConstArr, sort: Sort{K: SArr, W: iw, EW: v.sort.W}, args: []*Term{v}})
}

func (c *Ctx) App(name string, ret Sort, args ...*Term) *Term {
	d, ok := c.ufs[name]
	if !ok {
		d = &UFDecl{name: name, ret: ret}
		for _, a := range args {
			d.args = append(d.args, a.sort)
		}
		c.ufs[name] = d
		c.ufList = append(c.ufList, d)
	} else {
		if len(d.args) != len(args) || d.ret != ret {
			panic("UF " + name + " used with inconsistent signature")
		}
	}
	return c.mk(&Term{op: OApp, sort: ret, name: name, args: append([]*Term{}, args...)})
}

// ---- printing ----

// sortSuffix makes solver-level names unique per sort (the same harness input
// name may be used with different widths by different harnesses of one run).
func sortSuffix(s Sort) string {
	switch s.K {
	case SBool:
		return ":b"
	case SBV:
		return fmt.Sprintf(":%d", s.W)
	case SInt:
		return ":i"
	}
	return ":a"
}

func smtName(s string) string {
	return "|" + strings.NewReplacer("|", "_", "\\", "_").Replace(s) + "|"
}

func (t *Term) leafString() (string, bool) {
	switch t.op {
	case OConst:
		switch t.sort.K {
		case SBool:
			if t.cv == 1 {
				return "true", true
			}
			return "false", true
		case SBV:
			return fmt.Sprintf("(_ bv%d %d)", t.cv, t.sort.W), true
		case SInt:
			if t.iv.Sign() < 0 {
				return "(- " + new(big.Int).Neg(t.iv).String() + ")", true
			}
			return t.iv.String(), true
		}
	case OVar:
		return smtName(t.name + sortSuffix(t.sort)), true
	}
	return "", false
}

func (t *Term) ref() string {
	if s, ok := t.leafString(); ok {
		return s
	}
	return fmt.Sprintf("t%d", t.id)
}

func (t *Term) body() string {
	var sb strings.Builder
	switch t.op {
	case OExtract:
		fmt.Fprintf(&sb, "((_ extract %d %d) %s)", t.hi, t.lo, t.args[0].ref())
	case OZExt:
		fmt.Fprintf(&sb, "((_ zero_extend %d) %s)", t.hi, t.args[0].ref())
	case OSExt:
		fmt.Fprintf(&sb, "((_ sign_extend %d) %s)", t.hi, t.args[0].ref())
	case OInt2Bv:
		fmt.Fprintf(&sb, "((_ int2bv %d) %s)", t.hi, t.args[0].ref())
	case OConstArr:
		fmt.Fprintf(&sb, "((as const %s) %s)", t.sort.String(), t.args[0].ref())
	case OApp:
		if len(t.args) == 0 {
			return smtName(t.name)
		}
		sb.WriteString("(" + smtName(t.name))
		for _, a := range t.args {
			sb.WriteString(" " + a.ref())
		}
		sb.WriteString(")")
	default:
		sb.WriteString("(" + opNames[t.op])
		for _, a := range t.args {
			sb.WriteString(" " + a.ref())
		}
		sb.WriteString(")")
	}
	return sb.String()
}

// Debug string (expanded, depth limited)
func (t *Term) String() string { return t.str(6) }

func (t *Term) str(d int) string {
	if s, ok := t.leafString(); ok {
		if t.op == OConst && t.sort.K == SBV {
			return fmt.Sprintf("%d:%d", t.cv, t.sort.W)
		}
		return s
	}
	if d == 0 {
		return "…"
	}
	var sb strings.Builder
	switch t.op {
	case OExtract:
		fmt.Fprintf(&sb, "(extract[%d:%d] %s)", t.hi, t.lo, t.args[0].str(d-1))
		return sb.String()
	case OZExt:
		return "(zext " + t.args[0].str(d-1) + ")"
	case OSExt:
		return "(sext " + t.args[0].str(d-1) + ")"
	case OApp:
		sb.WriteString("(" + t.name)
	default:
		sb.WriteString("(" + opNames[t.op])
	}
	for _, a := range t.args {
		sb.WriteString(" " + a.str(d-1))
	}
	sb.WriteString(")")
	return sb.String()
}
