package main

// Intrinsics added while strengthening C38 (multicast de-duplication window)
// after seeded changes. The engine holds a time.Time as its UnixNano value ns
// (signed 64 bit, see intr_big.go).
//
//  * time.UnixMilli(ms) / time.UnixMicro(us): the instant ms*1e6 (us*1e3) ns.
//    The real time.Time has a separate seconds field and represents every
//    int64 millisecond count; the engine's single nanosecond word does not, so
//    the path condition has to entail |ms| <= 9223372036854 (|us| <=
//    9223372036854775), i.e. years 1678..2262 - otherwise the path stops as
//    UNSUPPORTED (never wrapped silently).
//
//  * (time.Time).UnixMilli(): a fresh value q bounded by shifts of ns
//    (2^19 < 1e6 < 2^20, so floor(ns/2^20) <= floor(ns/1e6) <= floor(ns/2^19)
//    for ns >= 0 and the other way round for ns < 0). This replaces the fully
//    unconstrained value of intr_C37b.go: still an over-approximation (sound
//    for proofs, the callers put the value into log records and creation
//    stamps), but a stamp taken from the clock now stays within the range that
//    time.UnixMilli accepts. An exact definition (fresh q, r with ns = q*1e6 + r,
//    0 <= r < 1e6, tried first) doubled the solver time of the C37
//    multicast harness, which reads the clock for every log record.

import (
	"golang.org/x/tools/go/ssa"
)

func c38sFromUnits(name string, unit int64) intrinsic {
	return func(w *Worker, fr *frame, a []Value, fn *ssa.Function) Value {
		c := w.ctx
		v := a[0].(*Term)
		rt := fn.Signature.Results().At(0).Type()
		maxQ := (int64(1)<<62 - 1 + int64(1)<<62) / unit
		k := func(x int64) *Term { return c.BVConst(uint64(x), 64) }
		if s, ok := v.ConstS(); ok {
			if s > maxQ || s < -maxQ {
				w.unsupported("%s(%d): outside the range of the engine's nanosecond instants", name, s)
			}
			return w.timeVal(k(s*unit), rt)
		}
		inRange := c.And(c.SLe(v, k(maxQ)), c.SGe(v, k(-maxQ)))
		if w.feasible(c.Not(inRange)) {
			w.unsupported("%s of a value that may lie outside the range of the engine's nanosecond instants (|v| <= %d): bound the value", name, maxQ)
		}
		return w.timeVal(c.Mul(v, k(unit)), rt)
	}
}

func init() {
	reg("time.UnixMilli", c38sFromUnits("time.UnixMilli", 1_000_000))
	reg("time.UnixMicro", c38sFromUnits("time.UnixMicro", 1_000))
	reg("(time.Time).UnixMilli", func(w *Worker, fr *frame, a []Value, fn *ssa.Function) Value {
		c := w.ctx
		ns := w.timeNS(a[0])
		if s, ok := ns.ConstS(); ok {
			return c.BVConst(uint64(c35sFloorDiv(s, 1_000_000)), 64)
		}
		k := func(v int64) *Term { return c.BVConst(uint64(v), 64) }
		q := c.Var("aux:"+w.fresh("unixmilli"), BV(64))
		lo, hi := c.AShr(ns, k(20)), c.AShr(ns, k(19))
		w.addPC(c.Ite(c.SGe(ns, k(0)),
			c.And(c.SLe(lo, q), c.SLe(q, hi)),
			c.And(c.SLe(hi, q), c.SLe(q, lo))))
		w.note("time.Time.UnixMilli is over-approximated (between ns>>20 and ns>>19)")
		return q
	})
}
