package main

// Added while strengthening C05 (pkg/soc) after seeded changes:
//
// bytes.Buffer (bytes.NewBuffer, (*Buffer).Write / WriteByte / Len / Bytes) for
// LARGE or SYMBOLIC-LENGTH writes. The model of intr_C05.go holds the buffer as
// a list of byte terms and needs a concrete length for every write; a wrapped
// chunk of 256 KiB (held as an SMT buffer, zzverif.BigBytes / symbolic make)
// written by (*SOC).toBytes would be 262152 terms or, with a symbolic payload
// length, a fork over the lengths.
//
// This file re-registers the five functions (it is initialised after
// intr_C05.go: Go initialises the files of a package in file-name order and
// reg() overwrites). Small writes of concrete length keep the term-list
// representation (identical behaviour to intr_C05.go). The first write whose
// argument is an SMT buffer or has a non-constant or large (> 4096) length
// switches the buffer to an SMT buffer: every such Write allocates a fresh SMT
// buffer of length old+len(arg) and copies old content and argument with
// copyN (lazy copy layers, symbolic lengths supported). Because every Write
// allocates a fresh buffer, the slices returned by earlier Bytes() calls are
// not affected by later writes (as in intr_C05.go the aliasing between the
// result of Bytes and later writes is not modelled).

import (
	"go/types"

	"golang.org/x/tools/go/ssa"
)

type c05sBuf struct {
	B   []*Term // term-list mode
	S   SliceV  // SMT mode
	Big bool
}

func init() {
	bd := func(w *Worker, v Value) (*Object, *c05sBuf) {
		p, ok := v.(PtrV)
		if !ok || p.Obj == nil {
			w.goPanic("invalid memory address or nil pointer dereference (nil *bytes.Buffer)")
		}
		d, ok := p.Obj.val.(*c05sBuf)
		if !ok {
			w.unsupported("bytes.Buffer that was not made by bytes.NewBuffer")
		}
		return p.Obj, d
	}
	// small: concrete length <= 4096 and not backed by an SMT buffer
	small := func(w *Worker, s SliceV) bool {
		if _, isSMT := w.smtBufOf(s); isSMT {
			return false
		}
		u, ok := s.Len.ConstU()
		return ok && u <= 4096
	}
	// grow returns a fresh SMT buffer holding old ++ s.
	grow := func(w *Worker, d *c05sBuf, s SliceV) SliceV {
		c := w.ctx
		var old SliceV
		oldLen := w.k64(0)
		if d.Big {
			old, oldLen = d.S, d.S.Len
		} else if len(d.B) > 0 {
			old = w.newByteSlice(append([]*Term{}, d.B...))
			oldLen = old.Len
		}
		nl := c.Add(oldLen, s.Len)
		w.rtCheck(c.And(c.UGe(nl, oldLen), c.SGe(nl, w.k64(0))), "bytes.Buffer: too large")
		buf := &SMTBuf{A: laOf(c.ConstArr(64, c.BVConst(0, 8))), N: nl}
		o := w.newObj(buf, nil, "bytes.Buffer-smt")
		ns := SliceV{Arr: PtrV{Obj: o}, Off: w.k64(0), Len: nl, Cap: nl}
		cpOld := func() {
			if !old.IsNil() {
				w.copyN(SliceV{Arr: ns.Arr, Off: w.k64(0), Len: oldLen, Cap: nl}, old, oldLen)
			}
		}
		cpArg := func() {
			w.copyN(SliceV{Arr: ns.Arr, Off: oldLen, Len: s.Len, Cap: c.Sub(nl, oldLen)}, s, s.Len)
		}
		// The two target ranges are disjoint, so the order of the two copies is
		// free. A copy from cells becomes one store per byte, a copy from an SMT
		// buffer one lazy copy layer; stores made on the fresh constant array
		// would be real SMT array stores BELOW the copy layer (every read that
		// misses the copy layer is then a select over a store chain: array
		// theory, slow in z3's incremental mode). With the SMT-buffer part
		// copied first the cell bytes become store LAYERS on top: reads at
		// concrete indices fold, reads at symbolic indices are ite-chains of
		// bit-vector equalities.
		if _, argSMT := w.smtBufOf(s); argSMT && !d.Big {
			cpArg()
			cpOld()
		} else {
			cpOld()
			cpArg()
		}
		return ns
	}
	reg("bytes.NewBuffer", func(w *Worker, fr *frame, a []Value, fn *ssa.Function) Value {
		d := &c05sBuf{}
		if s, ok := a[0].(SliceV); ok && !s.IsNil() {
			if small(w, s) {
				d.B = w.bytesOf(s, "bytes.NewBuffer argument")
			} else {
				d = &c05sBuf{S: grow(w, d, s), Big: true}
			}
		}
		o := w.newObj(d, nil, "bytes.Buffer")
		return PtrV{Obj: o}
	})
	reg("(*bytes.Buffer).Write", func(w *Worker, fr *frame, a []Value, fn *ssa.Function) Value {
		o, d := bd(w, a[0])
		s, ok := a[1].(SliceV)
		if !ok || s.IsNil() {
			return TupleV{w.k64(0), IfaceV{}}
		}
		if !d.Big && small(w, s) {
			b := w.bytesOf(s, "bytes.Buffer.Write argument")
			nb := append(append([]*Term{}, d.B...), b...)
			w.setObj(o, &c05sBuf{B: nb})
			return TupleV{w.k64(len(b)), IfaceV{}}
		}
		ns := grow(w, d, s)
		w.setObj(o, &c05sBuf{S: ns, Big: true})
		return TupleV{s.Len, IfaceV{}}
	})
	reg("(*bytes.Buffer).WriteByte", func(w *Worker, fr *frame, a []Value, fn *ssa.Function) Value {
		o, d := bd(w, a[0])
		if d.Big {
			one := w.newByteSlice([]*Term{a[1].(*Term)})
			w.setObj(o, &c05sBuf{S: grow(w, d, one), Big: true})
			return IfaceV{}
		}
		nb := append(append([]*Term{}, d.B...), a[1].(*Term))
		w.setObj(o, &c05sBuf{B: nb})
		return IfaceV{}
	})
	reg("(*bytes.Buffer).Len", func(w *Worker, fr *frame, a []Value, fn *ssa.Function) Value {
		_, d := bd(w, a[0])
		if d.Big {
			return d.S.Len
		}
		return w.k64(len(d.B))
	})
	reg("(*bytes.Buffer).Bytes", func(w *Worker, fr *frame, a []Value, fn *ssa.Function) Value {
		_, d := bd(w, a[0])
		if d.Big {
			return d.S
		}
		return w.newByteSlice(append([]*Term{}, d.B...))
	})
}

var _ types.Type
