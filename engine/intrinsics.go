package main

import (
	"fmt"
	"go/types"
	"strings"

	"golang.org/x/tools/go/ssa"
)

type intrinsic func(w *Worker, fr *frame, args []Value, fn *ssa.Function) Value

var intrinsics = map[string]intrinsic{}

const zz = repoMod + "/pkg/zzverif."

func reg(name string, f intrinsic) { intrinsics[name] = f }

// regIfAbsent registers a default model that a more specific file may replace.
func regIfAbsent(name string, f intrinsic) {
	if _, ok := intrinsics[name]; !ok {
		intrinsics[name] = f
	}
}

func (w *Worker) argStr(v Value) string {
	s, ok := v.(StringV).Concrete()
	if !ok {
		w.unsupported("zzverif name/label must be a concrete string")
	}
	return s
}

func (w *Worker) argInt(v Value) int {
	u, ok := v.(*Term).ConstS()
	if !ok {
		w.unsupported("argument must be a concrete integer")
	}
	return int(u)
}

func (w *Worker) inputScalar(name string, bw int, kind string) *Term {
	n := w.fresh(name)
	var v *Term
	if bw == 0 {
		v = w.ctx.Var("in:"+n, BoolSort)
	} else {
		v = w.ctx.Var("in:"+n, BV(bw))
	}
	w.inputs = append(w.inputs, inputRec{Name: n, Kind: kind, Terms: []*Term{v}})
	return v
}

func (w *Worker) inputBytes(name string, max int, exact bool) SliceV {
	n := w.fresh(name)
	arr := &ArrayV{E: make([]Value, max)}
	terms := make([]*Term, max)
	for i := 0; i < max; i++ {
		t := w.ctx.Var(fmt.Sprintf("in:%s[%d]", n, i), BV(8))
		arr.E[i] = t
		terms[i] = t
	}
	var ln *Term
	if exact {
		ln = w.k64(max)
	} else {
		ln = w.ctx.Var("in:"+n+".len", BV(64))
		w.addPC(w.ctx.ULe(ln, w.k64(max)))
	}
	w.inputs = append(w.inputs, inputRec{Name: n, Kind: "bytes", Terms: terms, Len: ln})
	o := w.newObj(arr, nil, "zzverif.Bytes:"+n)
	return SliceV{Arr: PtrV{Obj: o}, Off: w.k64(0), Len: ln, Cap: ln}
}

func init() {
	reg(zz+"Bool", func(w *Worker, fr *frame, a []Value, fn *ssa.Function) Value {
		return w.inputScalar(w.argStr(a[0]), 0, "bool")
	})
	for _, d := range []struct {
		n string
		w int
	}{{"U8", 8}, {"U16", 16}, {"U32", 32}, {"U64", 64}, {"I32", 32}, {"I64", 64}, {"Int", 64}} {
		d := d
		reg(zz+d.n, func(w *Worker, fr *frame, a []Value, fn *ssa.Function) Value {
			return w.inputScalar(w.argStr(a[0]), d.w, "num")
		})
	}
	reg(zz+"Choose", func(w *Worker, fr *frame, a []Value, fn *ssa.Function) Value {
		v := w.inputScalar(w.argStr(a[0]), 64, "num")
		k := w.argInt(a[1])
		w.addPC(w.ctx.ULt(v, w.k64(k)))
		// fork immediately: selectors are meant to be path splits
		return w.k64(w.concretize(v, k))
	})
	reg(zz+"Bytes", func(w *Worker, fr *frame, a []Value, fn *ssa.Function) Value {
		return w.inputBytes(w.argStr(a[0]), w.argInt(a[1]), false)
	})
	reg(zz+"BytesN", func(w *Worker, fr *frame, a []Value, fn *ssa.Function) Value {
		return w.inputBytes(w.argStr(a[0]), w.argInt(a[1]), true)
	})
	reg(zz+"BigNonNeg", func(w *Worker, fr *frame, a []Value, fn *ssa.Function) Value {
		n := w.fresh(w.argStr(a[0]))
		v := w.ctx.Var("in:"+n, IntSort)
		w.addPC(w.ctx.ILe(w.ctx.IntConst64(0), v))
		w.inputs = append(w.inputs, inputRec{Name: n, Kind: "big", Terms: []*Term{v}})
		return w.newBig(v)
	})
	ufOf := func(w *Worker, a []Value, ret Sort) *Term {
		name := w.argStr(a[0])
		s := a[1].(SliceV)
		n := w.sliceLenConcrete(s, "UF key")
		key := make([]*Term, n)
		for i := 0; i < n; i++ {
			key[i] = w.sliceElem(s, w.k64(i)).(*Term)
		}
		uf := fmt.Sprintf("uf:%s/%d", name, n)
		var app *Term
		if n == 0 {
			app = w.ctx.Var(uf, ret)
		} else {
			app = w.ctx.App(uf, ret, key...)
		}
		w.inputs = append(w.inputs, inputRec{Name: fmt.Sprintf("%s/%d", name, n), Kind: "uf", Terms: []*Term{app}, Key: key})
		return app
	}
	reg(zz+"BoolOf", func(w *Worker, fr *frame, a []Value, fn *ssa.Function) Value {
		return ufOf(w, a, BoolSort)
	})
	reg(zz+"U64Of", func(w *Worker, fr *frame, a []Value, fn *ssa.Function) Value {
		return ufOf(w, a, BV(64))
	})
	reg(zz+"Param", func(w *Worker, fr *frame, a []Value, fn *ssa.Function) Value {
		if w.cfg.Tier == "thorough" {
			return a[2]
		}
		return a[1]
	})
	reg(zz+"Assume", func(w *Worker, fr *frame, a []Value, fn *ssa.Function) Value {
		c := a[0].(*Term)
		if c.IsTrue() {
			return nil
		}
		if !w.feasible(c) {
			panic(pathAbort{abInfeasible, "assume"})
		}
		w.addPC(c)
		return nil
	})
	reg(zz+"Assert", func(w *Worker, fr *frame, a []Value, fn *ssa.Function) Value {
		w.assert(a[0].(*Term), w.argStr(a[1]))
		return nil
	})
	reg(zz+"Reach", func(w *Worker, fr *frame, a []Value, fn *ssa.Function) Value {
		w.reached[w.argStr(a[0])] = true
		return nil
	})
	reg(zz+"Region", func(w *Worker, fr *frame, a []Value, fn *ssa.Function) Value {
		w.regions[w.argStr(a[0])] = a[1].(*Term)
		return nil
	})
	reg(zz+"Observe", func(w *Worker, fr *frame, a []Value, fn *ssa.Function) Value {
		if iv, ok := a[1].(IfaceV); ok && w.regionDepth == 0 {
			w.observes = append(w.observes, obsRec{w.argStr(a[0]), iv})
		}
		return nil
	})
	reg(zz+"WaitUntil", func(w *Worker, fr *frame, a []Value, fn *ssa.Function) Value {
		// let every other goroutine run until all are blocked, then the condition must hold
		w.yield()
		r := w.callValue(fr, a[0], nil, nil).(*Term)
		if r.IsTrue() {
			return nil
		}
		if r.IsFalse() || !w.branch(r) {
			panic(pathAbort{abError, "zzverif.WaitUntil: condition does not hold after all goroutines quiesced: " + w.argStr(a[1]) + w.where()})
		}
		return nil
	})
	reg(zz+"Yield", func(w *Worker, fr *frame, a []Value, fn *ssa.Function) Value {
		w.yield()
		return nil
	})
	reg(zz+"Unwind", func(w *Worker, fr *frame, a []Value, fn *ssa.Function) Value {
		w.unwind = w.argInt(a[0])
		return nil
	})
	reg(zz+"MayPanic", func(w *Worker, fr *frame, a []Value, fn *ssa.Function) (res Value) {
		w.mayPanic++
		saved := w.cur
		depth := w.depth
		defer func() {
			w.mayPanic--
			if r := recover(); r != nil {
				if _, ok := r.(targetPanic); !ok {
					panic(r)
				}
				w.cur = saved
				w.depth = depth
				res = w.ctx.True
			}
		}()
		w.callValue(fr, a[0], nil, nil)
		return w.ctx.False
	})

	// ---- sync ----
	reg("(*sync.Mutex).Lock", func(w *Worker, fr *frame, a []Value, fn *ssa.Function) Value {
		k := w.syncKey(a[0].(PtrV))
		w.waitUntil(func() bool { return w.syncGet(k) == 0 }, "sync.Mutex.Lock")
		w.syncSet(k, 1)
		return nil
	})
	reg("(*sync.Mutex).TryLock", func(w *Worker, fr *frame, a []Value, fn *ssa.Function) Value {
		k := w.syncKey(a[0].(PtrV))
		if w.syncGet(k) != 0 {
			return w.ctx.False
		}
		w.syncSet(k, 1)
		return w.ctx.True
	})
	reg("(*sync.Mutex).Unlock", func(w *Worker, fr *frame, a []Value, fn *ssa.Function) Value {
		k := w.syncKey(a[0].(PtrV))
		if w.syncGet(k) == 0 {
			w.fatal("sync: unlock of unlocked mutex")
		}
		w.syncSet(k, 0)
		return nil
	})
	reg("(*sync.RWMutex).Lock", func(w *Worker, fr *frame, a []Value, fn *ssa.Function) Value {
		k := w.syncKey(a[0].(PtrV))
		w.waitUntil(func() bool { return w.syncGet(k) == 0 && w.syncGet(k+"/r") == 0 }, "sync.RWMutex.Lock")
		w.syncSet(k, 1)
		return nil
	})
	reg("(*sync.RWMutex).Unlock", func(w *Worker, fr *frame, a []Value, fn *ssa.Function) Value {
		k := w.syncKey(a[0].(PtrV))
		if w.syncGet(k) == 0 {
			w.fatal("sync: Unlock of unlocked RWMutex")
		}
		w.syncSet(k, 0)
		return nil
	})
	reg("(*sync.RWMutex).RLock", func(w *Worker, fr *frame, a []Value, fn *ssa.Function) Value {
		k := w.syncKey(a[0].(PtrV))
		w.waitUntil(func() bool { return w.syncGet(k) == 0 }, "sync.RWMutex.RLock")
		w.syncSet(k+"/r", w.syncGet(k+"/r")+1)
		return nil
	})
	reg("(*sync.RWMutex).RUnlock", func(w *Worker, fr *frame, a []Value, fn *ssa.Function) Value {
		k := w.syncKey(a[0].(PtrV))
		if w.syncGet(k+"/r") == 0 {
			w.fatal("sync: RUnlock of unlocked RWMutex")
		}
		w.syncSet(k+"/r", w.syncGet(k+"/r")-1)
		return nil
	})
	reg("(*sync.WaitGroup).Add", func(w *Worker, fr *frame, a []Value, fn *ssa.Function) Value {
		k := w.syncKey(a[0].(PtrV))
		n := w.syncGet(k) + w.argInt(a[1])
		if n < 0 {
			w.goPanicPlain("sync: negative WaitGroup counter")
		}
		w.syncSet(k, n)
		return nil
	})
	reg("(*sync.WaitGroup).Done", func(w *Worker, fr *frame, a []Value, fn *ssa.Function) Value {
		k := w.syncKey(a[0].(PtrV))
		n := w.syncGet(k) - 1
		if n < 0 {
			w.goPanicPlain("sync: negative WaitGroup counter")
		}
		w.syncSet(k, n)
		return nil
	})
	reg("(*sync.WaitGroup).Wait", func(w *Worker, fr *frame, a []Value, fn *ssa.Function) Value {
		k := w.syncKey(a[0].(PtrV))
		w.waitUntil(func() bool { return w.syncGet(k) == 0 }, "sync.WaitGroup.Wait")
		return nil
	})
	reg("(*sync.Once).Do", func(w *Worker, fr *frame, a []Value, fn *ssa.Function) Value {
		k := w.syncKey(a[0].(PtrV))
		if w.syncGet(k) == 0 {
			w.syncSet(k, 1)
			w.callValue(fr, a[1], nil, nil)
		}
		return nil
	})

	// ---- bytes / strings ----
	reg("bytes.Equal", func(w *Worker, fr *frame, a []Value, fn *ssa.Function) Value {
		return w.bytesEqual(a[0].(SliceV), a[1].(SliceV))
	})
	reg("bytes.Compare", func(w *Worker, fr *frame, a []Value, fn *ssa.Function) Value {
		x := w.bytesToString(a[0].(SliceV))
		y := w.bytesToString(a[1].(SliceV))
		c := w.ctx
		lt := w.strLess(x, y, false)
		gt := w.strLess(y, x, false)
		return c.Ite(lt, c.BVConst(^uint64(0), 64), c.Ite(gt, c.BVConst(1, 64), c.BVConst(0, 64)))
	})
	reg("bytes.HasPrefix", func(w *Worker, fr *frame, a []Value, fn *ssa.Function) Value {
		s, p := a[0].(SliceV), a[1].(SliceV)
		c := w.ctx
		pl := w.lenOf(p)
		sl := w.lenOf(s)
		if !w.branch(c.ULe(pl, sl)) {
			return c.False
		}
		if p.IsNil() {
			return c.True
		}
		return w.bytesEqual(SliceV{Arr: s.Arr, Off: s.Off, Len: pl, Cap: pl}, p)
	})
	reg("strings.HasPrefix", func(w *Worker, fr *frame, a []Value, fn *ssa.Function) Value {
		s, p := a[0].(StringV), a[1].(StringV)
		if len(p.B) > len(s.B) {
			return w.ctx.False
		}
		return w.equalValues(StringV{B: s.B[:len(p.B)]}, p)
	})
	reg("strings.HasSuffix", func(w *Worker, fr *frame, a []Value, fn *ssa.Function) Value {
		s, p := a[0].(StringV), a[1].(StringV)
		if len(p.B) > len(s.B) {
			return w.ctx.False
		}
		return w.equalValues(StringV{B: s.B[len(s.B)-len(p.B):]}, p)
	})
	reg("strings.TrimPrefix", func(w *Worker, fr *frame, a []Value, fn *ssa.Function) Value {
		s, p := a[0].(StringV), a[1].(StringV)
		if len(p.B) > len(s.B) {
			return s
		}
		if w.branch(w.equalValues(StringV{B: s.B[:len(p.B)]}, p)) {
			return StringV{B: s.B[len(p.B):]}
		}
		return s
	})

	// ---- errors / fmt ----
	reg("errors.New", func(w *Worker, fr *frame, a []Value, fn *ssa.Function) Value {
		return w.newErr(a[0].(StringV), nil)
	})
	reg("fmt.Errorf", func(w *Worker, fr *frame, a []Value, fn *ssa.Function) Value {
		msg, wrapped := w.sprintf(fr, a[0].(StringV), a[1].(SliceV))
		return w.newErr(msg, wrapped)
	})
	reg("fmt.Sprintf", func(w *Worker, fr *frame, a []Value, fn *ssa.Function) Value {
		msg, _ := w.sprintf(fr, a[0].(StringV), a[1].(SliceV))
		return msg
	})
	reg("fmt.Sprint", func(w *Worker, fr *frame, a []Value, fn *ssa.Function) Value {
		return StringV{Opaque: w.newID()}
	})
	for _, n := range []string{"fmt.Println", "fmt.Printf", "fmt.Print", "fmt.Fprintf", "fmt.Fprintln", "log.Printf", "log.Println"} {
		reg(n, func(w *Worker, fr *frame, a []Value, fn *ssa.Function) Value { return w.zeroResults(fn.Signature) })
	}
	reg("errors.Is", func(w *Worker, fr *frame, a []Value, fn *ssa.Function) Value {
		return w.errorsIs(fr, a[0].(IfaceV), a[1].(IfaceV))
	})
	reg("errors.Unwrap", func(w *Worker, fr *frame, a []Value, fn *ssa.Function) Value {
		e := a[0].(IfaceV)
		if ev, ok := e.V.(*ErrV); ok && ev.Wrap != nil {
			return *ev.Wrap
		}
		return IfaceV{}
	})
	reg("errors.As", func(w *Worker, fr *frame, a []Value, fn *ssa.Function) Value {
		e := a[0].(IfaceV)
		tgt := a[1].(IfaceV)
		pt, ok := tgt.T.(*types.Pointer)
		if !ok {
			w.unsupported("errors.As target %s", tgt.T)
		}
		want := pt.Elem()
		for e.T != nil {
			match := false
			if it, isI := under(want).(*types.Interface); isI {
				match = w.implements(e, it)
			} else {
				match = types.Identical(e.T, want)
			}
			if match {
				if _, isI := under(want).(*types.Interface); isI {
					w.store(tgt.V.(PtrV), e)
				} else {
					w.store(tgt.V.(PtrV), e.V)
				}
				return w.ctx.True
			}
			ev, ok := e.V.(*ErrV)
			if !ok || ev.Wrap == nil {
				break
			}
			e = *ev.Wrap
		}
		return w.ctx.False
	})
}

func (w *Worker) lenOf(s SliceV) *Term {
	if s.IsNil() {
		return w.k64(0)
	}
	return s.Len
}

func (w *Worker) goPanicPlain(msg string) {
	w.panicWhere = w.where()
	e := &ErrV{ID: w.newID(), Msg: strV(w.ctx, msg), Name: "panic"}
	panic(targetPanic{IfaceV{T: errType, V: e}})
}

// fatal: Go "fatal error" (not recoverable): reported as a crash of the path.
func (w *Worker) fatal(msg string) {
	panic(pathAbort{abError, "fatal error: " + msg + w.where()})
}

func (w *Worker) newErr(msg StringV, wrapped *IfaceV) Value {
	return IfaceV{T: errType, V: &ErrV{ID: w.newID(), Msg: msg, Wrap: wrapped}}
}

func (w *Worker) errorsIs(fr *frame, e, target IfaceV) Value {
	for e.T != nil {
		if w.equalValues(e, target).IsTrue() {
			return w.ctx.True
		}
		ev, ok := e.V.(*ErrV)
		if !ok {
			// repo error types with Unwrap
			if types.Identical(e.T, errType) {
				break
			}
			ms := w.prog.prog.MethodSets.MethodSet(e.T)
			var sel *types.Selection
			for i := 0; i < ms.Len(); i++ {
				if ms.At(i).Obj().Name() == "Unwrap" {
					sel = ms.At(i)
				}
			}
			if sel == nil {
				break
			}
			fn := w.prog.prog.MethodValue(sel)
			r := w.callFn(fr, fn, []Value{e.V}, nil)
			ne, ok := r.(IfaceV)
			if !ok {
				break
			}
			e = ne
			continue
		}
		if ev.Wrap == nil {
			break
		}
		e = *ev.Wrap
	}
	return w.ctx.False
}

// bytesEqual: equality of two byte slices (lengths may be symbolic).
func (w *Worker) bytesEqual(x, y SliceV) *Term {
	c := w.ctx
	lx, ly := w.lenOf(x), w.lenOf(y)
	if !w.branch(c.Eq(lx, ly)) {
		return c.False
	}
	if x.IsNil() || y.IsNil() {
		return c.True
	}
	n, ok := lx.ConstU()
	if !ok {
		n = w.concretizeAny(lx, w.prog.maxConcretize, "bytes.Equal length")
	}
	var cs []*Term
	for i := 0; i < int(n); i++ {
		a := w.sliceElem(x, w.k64(i)).(*Term)
		b := w.sliceElem(y, w.k64(i)).(*Term)
		cs = append(cs, c.Eq(a, b))
	}
	return c.And(cs...)
}

// sprintf: supports %s %v %x %d %q %w on the value kinds that matter; anything
// else yields an opaque string.
func (w *Worker) sprintf(fr *frame, format StringV, args SliceV) (StringV, *IfaceV) {
	f, ok := format.Concrete()
	if !ok {
		return StringV{Opaque: w.newID()}, nil
	}
	n := 0
	if !args.IsNil() {
		n = int(w.concretizeAny(args.Len, 32, "fmt args"))
	}
	vals := make([]IfaceV, n)
	for i := 0; i < n; i++ {
		vals[i], _ = w.sliceElem(args, w.k64(i)).(IfaceV)
	}
	var wrapped *IfaceV
	out := StringV{}
	ai := 0
	opaque := false
	for i := 0; i < len(f); i++ {
		if f[i] != '%' {
			out.B = append(out.B, w.ctx.BVConst(uint64(f[i]), 8))
			continue
		}
		i++
		if i >= len(f) {
			break
		}
		// skip flags/width
		for i < len(f) && strings.ContainsRune("+-# 0123456789.", rune(f[i])) {
			i++
		}
		if i >= len(f) {
			break
		}
		verb := f[i]
		if verb == '%' {
			out.B = append(out.B, w.ctx.BVConst('%', 8))
			continue
		}
		if ai >= n {
			opaque = true
			continue
		}
		v := vals[ai]
		ai++
		if verb == 'w' {
			vv := v
			wrapped = &vv
		}
		s, ok := w.formatValue(v, verb)
		if !ok && fmtStringerHook != nil && (verb == 's' || verb == 'v') {
			s, ok = fmtStringerHook(w, fr, v)
		}
		if !ok {
			opaque = true
			continue
		}
		out.B = append(out.B, s.B...)
	}
	if opaque {
		return StringV{Opaque: w.newID()}, wrapped
	}
	return out, wrapped
}

// fmtStringerHook: %s/%v of a value whose dynamic type has a String()/Error()
// method with an SSA body (set by intr_C15.go).
var fmtStringerHook func(w *Worker, fr *frame, v IfaceV) (StringV, bool)

func (w *Worker) formatValue(v IfaceV, verb byte) (StringV, bool) {
	if v.T == nil {
		return strV(w.ctx, "<nil>"), true
	}
	switch x := v.V.(type) {
	case StringV:
		if x.Opaque != 0 {
			return StringV{}, false
		}
		if verb == 's' || verb == 'v' {
			return x, true
		}
		if verb == 'x' {
			return w.hexEncode(x.B), true
		}
	case *Term:
		if u, ok := x.ConstU(); ok && x.sort.K == SBV {
			_, signed, _ := intInfo(v.T)
			switch verb {
			case 'd', 'v':
				if signed {
					return strV(w.ctx, fmt.Sprintf("%d", sext(u, x.sort.W))), true
				}
				return strV(w.ctx, fmt.Sprintf("%d", u)), true
			case 'x':
				return strV(w.ctx, fmt.Sprintf("%x", u)), true
			}
		}
		if x.sort.K == SBool && x.IsConst() {
			return strV(w.ctx, fmt.Sprintf("%v", x.IsTrue())), true
		}
	case *ErrV:
		if x.Msg.Opaque == 0 {
			return x.Msg, true
		}
	case SliceV:
		if verb == 'x' {
			if eb, ok := under(v.T).(*types.Slice); ok {
				if b, ok := under(eb.Elem()).(*types.Basic); ok && b.Kind() == types.Uint8 {
					s := w.bytesToString(x)
					return w.hexEncode(s.B), true
				}
			}
		}
	case *ArrayV:
		// %x of a byte array ([N]byte, e.g. common.Address): hex of the elements
		if verb == 'x' {
			if at, ok := under(v.T).(*types.Array); ok {
				if b, ok := under(at.Elem()).(*types.Basic); ok && b.Kind() == types.Uint8 {
					bs := make([]*Term, len(x.E))
					for i, e := range x.E {
						t, ok := e.(*Term)
						if !ok {
							return StringV{}, false
						}
						bs[i] = t
					}
					return w.hexEncode(bs), true
				}
			}
		}
	}
	return StringV{}, false
}

func (w *Worker) hexEncode(b []*Term) StringV {
	c := w.ctx
	out := StringV{B: make([]*Term, 0, 2*len(b))}
	nib := func(n *Term) *Term { // n is BV8 in 0..15
		return c.Ite(c.ULt(n, c.BVConst(10, 8)), c.Add(n, c.BVConst('0', 8)), c.Add(n, c.BVConst('a'-10, 8)))
	}
	for _, x := range b {
		out.B = append(out.B, nib(c.LShr(x, c.BVConst(4, 8))), nib(c.BAnd(x, c.BVConst(15, 8))))
	}
	return out
}

// ---- sync side table ----

func (w *Worker) syncKey(p PtrV) string {
	if p.Obj == nil {
		w.goPanic("invalid memory address or nil pointer dereference (sync primitive)")
	}
	var sb strings.Builder
	fmt.Fprintf(&sb, "%d", p.Obj.id)
	for _, e := range p.Path {
		if e.Sym != nil {
			w.unsupported("sync primitive at symbolic address")
		}
		fmt.Fprintf(&sb, ".%d", e.I)
	}
	return sb.String()
}

func (w *Worker) syncGet(k string) int { return w.syncTab[k] }

func (w *Worker) syncSet(k string, v int) {
	old := w.syncTab[k]
	w.journal = append(w.journal, jent{key: k, oldInt: old, isSync: true})
	w.syncTab[k] = v
}

// invokeSynthetic: method calls on engine-made interface values.
func (w *Worker) invokeSynthetic(fr *frame, iv IfaceV, m *types.Func, args []Value) Value {
	if ev, ok := iv.V.(*ErrV); ok {
		switch m.Name() {
		case "Error":
			return ev.Msg
		case "Unwrap":
			if ev.Wrap != nil {
				return *ev.Wrap
			}
			return IfaceV{}
		}
	}
	if types.Identical(iv.T, nopType) {
		sig := m.Type().(*types.Signature)
		r := sig.Results()
		switch r.Len() {
		case 0:
			return nil
		case 1:
			return w.nopValue(r.At(0).Type())
		}
		return w.nopValue(r)
	}
	w.unsupported("method %s on synthetic value %s", m.Name(), iv.T)
	return nil
}

func (w *Worker) invokeOpaque(fr *frame, iv IfaceV, op *OpaqueV, m *types.Func, args []Value) Value {
	if h, ok := opaqueMethods[op.Kind+"."+m.Name()]; ok {
		return h(w, fr, op, args, m)
	}
	w.unsupported("method %s on opaque %s", m.Name(), op.Kind)
	return nil
}

var opaqueMethods = map[string]func(w *Worker, fr *frame, op *OpaqueV, args []Value, m *types.Func) Value{}

func (w *Worker) callIntrClosure(fr *frame, cl *ClosureV, args []Value, cc *ssa.CallCommon) Value {
	if h, ok := intrClosures[cl.Intr]; ok {
		return h(w, fr, cl, args)
	}
	w.unsupported("intrinsic closure %s", cl.Intr)
	return nil
}

var intrClosures = map[string]func(w *Worker, fr *frame, cl *ClosureV, args []Value) Value{}

