package main

// Loading /repo packages with overlay harness files; directives.

import (
	"fmt"
	"go/ast"
	"go/token"
	"go/types"
	"os"
	"path/filepath"
	"regexp"
	"sort"
	"strconv"
	"strings"

	"golang.org/x/tools/go/packages"
	"golang.org/x/tools/go/ssa"
	"golang.org/x/tools/go/ssa/ssautil"
)

const repoMod = "github.com/gauss-project/aurorafs"

var repoDir = envOr("VERIF_REPO", "/repo")
var verifDir = envOr("VERIF_DIR", "/verif")

func envOr(k, d string) string {
	if v := os.Getenv(k); v != "" {
		return v
	}
	return d
}

type stubDir struct {
	kind   string // noop | stub
	target *ssa.Function
	tname  string
}

type callRepl struct {
	from   string // printed name of the external function, e.g. "time.After"
	target *ssa.Function
	pkg    *ssa.Package
}

type Program struct {
	fset          *token.FileSet
	prog          *ssa.Program
	pkgs          []*packages.Package
	roots         map[*ssa.Package]bool
	stubs         map[string]*stubDir
	merge         map[string]bool
	goIgnore      map[string]bool
	callRepl      map[string]*callRepl
	externGlobals map[string]func(w *Worker, t types.Type) Value
	overlay       map[string][]byte
	overlayFiles  map[string]string // virtual -> real
	harnessFuncs  map[string]*ssa.Function
	directives    []string

	maxSymIndex   int
	maxDepth      int
	maxConcretize int
	maxAlloc      int
	sawUnknown    bool
	regionMerge   bool
	maxRegionDepth int
	maxRegionPaths int
	lazyRegions    bool
	symbolicMake   bool
	noWitness      bool
	hashNoInj      bool // //verif:option hash-no-injectivity
	opaqueIntFloat bool // //verif:option opaque-int-float: float64(symbolic integer) is an untracked float
}

func (p *Program) isRoot(pkg *ssa.Package) bool { return p.roots[pkg] }

// HarnessSpec: which overlay files/packages to load for a property.
type HarnessSpec struct {
	Roots []string // repo-relative package dirs, e.g. "pkg/boson"
}

// collectOverlay maps /verif/harness/<rel>/zz_verif_*.go to /repo/<rel>/...
func collectOverlay(only map[string]bool) (map[string][]byte, map[string]string, []string, error) {
	ov := map[string][]byte{}
	files := map[string]string{}
	var dirs []string
	base := filepath.Join(verifDir, "harness")
	err := filepath.Walk(base, func(path string, info os.FileInfo, err error) error {
		if err != nil {
			return err
		}
		if info.IsDir() {
			if strings.HasPrefix(info.Name(), "_") {
				return filepath.SkipDir
			}
			return nil
		}
		if !strings.HasSuffix(path, ".go") {
			return nil
		}
		rel, _ := filepath.Rel(base, path)
		dir := filepath.Dir(rel)
		if only != nil && !only[dir] {
			return nil
		}
		data, err := os.ReadFile(path)
		if err != nil {
			return err
		}
		virt := filepath.Join(repoDir, rel)
		ov[virt] = data
		files[virt] = path
		dirs = append(dirs, dir)
		return nil
	})
	return ov, files, dirs, err
}

var dirRe = regexp.MustCompile(`^//verif:(\w[\w-]*)\s+(.*)$`)

func LoadProgram(rootDirs []string, harnessFilter func(file string) bool) (*Program, error) {
	only := map[string]bool{"pkg/zzverif": true}
	for _, r := range rootDirs {
		only[r] = true
	}
	ov, files, _, err := collectOverlay(only)
	if err != nil {
		return nil, err
	}
	if harnessFilter != nil {
		for virt := range ov {
			if strings.Contains(virt, "/pkg/zzverif/") {
				continue
			}
			if !harnessFilter(filepath.Base(virt)) {
				delete(ov, virt)
				delete(files, virt)
			}
		}
	}
	fset := token.NewFileSet()
	cfg := &packages.Config{
		Mode: packages.NeedName | packages.NeedFiles | packages.NeedCompiledGoFiles | packages.NeedImports |
			packages.NeedTypes | packages.NeedTypesSizes | packages.NeedSyntax | packages.NeedTypesInfo,
		Dir:     repoDir,
		Fset:    fset,
		Overlay: ov,
		Env:     append(os.Environ(), "GOFLAGS=-mod=mod", "GOPROXY=off", "GOSUMDB=off", "GOTOOLCHAIN=local", "CGO_ENABLED=0"),
	}
	var pats []string
	seen := map[string]bool{}
	for _, r := range append([]string{"pkg/zzverif"}, rootDirs...) {
		if !seen[r] {
			seen[r] = true
			if strings.HasPrefix(r, "std:") {
				pats = append(pats, strings.TrimPrefix(r, "std:"))
			} else {
				pats = append(pats, "./"+r)
			}
		}
	}
	pkgs, err := packages.Load(cfg, pats...)
	if err != nil {
		return nil, err
	}
	var errs []string
	for _, p := range pkgs {
		for _, e := range p.Errors {
			errs = append(errs, e.Error())
		}
	}
	if len(errs) > 0 {
		return nil, fmt.Errorf("load errors:\n  %s", strings.Join(errs, "\n  "))
	}
	prog, spkgs := ssautil.Packages(pkgs, ssa.InstantiateGenerics|ssa.SanityCheckFunctions&0)
	P := &Program{fset: fset, prog: prog, pkgs: pkgs, roots: map[*ssa.Package]bool{},
		stubs: map[string]*stubDir{}, merge: map[string]bool{}, goIgnore: map[string]bool{}, callRepl: map[string]*callRepl{},
		externGlobals: map[string]func(w *Worker, t types.Type) Value{},
		overlay:       ov, overlayFiles: files, harnessFuncs: map[string]*ssa.Function{},
		maxSymIndex: 4096, maxDepth: 400, maxConcretize: 70, maxAlloc: 8192,
		regionMerge: os.Getenv("GOSYM_NOMERGE") == "", maxRegionDepth: 200, maxRegionPaths: 64, lazyRegions: os.Getenv("GOSYM_NOLAZY") == ""}
	for _, sp := range spkgs {
		if sp == nil {
			continue
		}
		sp.Build()
		P.roots[sp] = true
	}
	// directives + harness functions from overlay files
	for i, p := range pkgs {
		sp := spkgs[i]
		for j, f := range p.Syntax {
			fname := p.CompiledGoFiles[j]
			if _, isOv := ov[fname]; !isOv {
				continue
			}
			for _, cg := range f.Comments {
				for _, cm := range cg.List {
					m := dirRe.FindStringSubmatch(strings.TrimSpace(cm.Text))
					if m == nil {
						continue
					}
					P.directives = append(P.directives, strings.TrimSpace(cm.Text))
					if err := P.applyDirective(m[1], strings.TrimSpace(m[2]), sp); err != nil {
						return nil, fmt.Errorf("%s: %v", fset.Position(cm.Pos()), err)
					}
				}
			}
			for _, d := range f.Decls {
				if fd, ok := d.(*ast.FuncDecl); ok && fd.Recv == nil && strings.HasPrefix(fd.Name.Name, "Verif") {
					if fn := sp.Func(fd.Name.Name); fn != nil {
						P.harnessFuncs[fd.Name.Name] = fn
					}
				}
			}
		}
	}
	sort.Strings(P.directives)
	return P, nil
}

// findFunc resolves "pkg/path.Func", "(*pkg/path.T).M" or "(pkg/path.T).M";
// package paths may be given relative to the repo module.
func (P *Program) findFunc(q string, cur *ssa.Package) (*ssa.Function, error) {
	q = strings.TrimSpace(q)
	// anonymous functions: "Func$1", "(*T).M$2$1" (go/ssa numbering, 1-based)
	if i := strings.LastIndex(q, "$"); i > 0 {
		parent, err := P.findFunc(q[:i], cur)
		if err != nil {
			return nil, err
		}
		k, err := strconv.Atoi(q[i+1:])
		if err != nil || k < 1 || k > len(parent.AnonFuncs) {
			return nil, fmt.Errorf("anonymous function %q not found", q)
		}
		return parent.AnonFuncs[k-1], nil
	}
	recvPtr := false
	var pkgPath, typ, name string
	if strings.HasPrefix(q, "(") {
		end := strings.Index(q, ")")
		if end < 0 {
			return nil, fmt.Errorf("bad function name %q", q)
		}
		recv := q[1:end]
		name = strings.TrimPrefix(q[end+1:], ".")
		if strings.HasPrefix(recv, "*") {
			recvPtr = true
			recv = recv[1:]
		}
		dot := strings.LastIndex(recv, ".")
		if dot < 0 {
			pkgPath, typ = "", recv
		} else {
			pkgPath, typ = recv[:dot], recv[dot+1:]
		}
	} else {
		dot := strings.LastIndex(q, ".")
		if dot < 0 {
			pkgPath, name = "", q
		} else {
			pkgPath, name = q[:dot], q[dot+1:]
		}
	}
	var sp *ssa.Package
	if pkgPath == "" {
		sp = cur
	} else {
		for _, cand := range []string{pkgPath, repoMod + "/" + pkgPath} {
			if x := P.prog.ImportedPackage(cand); x != nil {
				sp = x
				break
			}
		}
		if sp == nil {
			// try by package name among all packages
			for _, x := range P.prog.AllPackages() {
				if x.Pkg.Path() == pkgPath || strings.HasSuffix(x.Pkg.Path(), "/"+pkgPath) {
					sp = x
					break
				}
			}
		}
	}
	if sp == nil {
		return nil, fmt.Errorf("package %q not found for %q", pkgPath, q)
	}
	if typ == "" {
		fn := sp.Func(name)
		if fn == nil {
			return nil, fmt.Errorf("function %s not found", q)
		}
		return fn, nil
	}
	tm := sp.Type(typ)
	if tm == nil {
		return nil, fmt.Errorf("type %s not found in %s", typ, sp.Pkg.Path())
	}
	var T types.Type = tm.Type()
	if recvPtr {
		T = types.NewPointer(T)
	}
	sel := P.prog.MethodSets.MethodSet(T).Lookup(sp.Pkg, name)
	if sel == nil {
		// maybe value-receiver method requested through pointer or vice versa
		sel = P.prog.MethodSets.MethodSet(types.NewPointer(tm.Type())).Lookup(sp.Pkg, name)
		if sel == nil {
			return nil, fmt.Errorf("method %s not found", q)
		}
	}
	fn := P.prog.MethodValue(sel)
	if fn == nil {
		return nil, fmt.Errorf("method %s: no ssa function (interface method?)", q)
	}
	return fn, nil
}

func (P *Program) applyDirective(kind, rest string, cur *ssa.Package) error {
	switch kind {
	case "noop", "merge", "go-ignore":
		for _, q := range strings.Split(rest, ",") {
			q = strings.TrimSpace(q)
			if q == "" {
				continue
			}
			fn, err := P.findFunc(q, cur)
			if err != nil {
				// external functions may be addressed by their printed name
				if kind == "noop" {
					P.stubs[q] = &stubDir{kind: "noop"}
					continue
				}
				return err
			}
			switch kind {
			case "noop":
				P.stubs[fn.String()] = &stubDir{kind: "noop"}
			case "merge":
				P.merge[fn.String()] = true
			case "go-ignore":
				P.goIgnore[fn.String()] = true
			}
		}
	case "stub":
		parts := strings.SplitN(rest, "=", 2)
		if len(parts) != 2 {
			return fmt.Errorf("bad stub directive %q", rest)
		}
		src, err := P.findFunc(parts[0], cur)
		if err != nil {
			return err
		}
		dst, err := P.findFunc(parts[1], cur)
		if err != nil {
			return err
		}
		P.stubs[src.String()] = &stubDir{kind: "stub", target: dst, tname: dst.String()}
	case "replace-call":
		parts := strings.SplitN(rest, "=", 2)
		if len(parts) != 2 {
			return fmt.Errorf("bad replace-call directive %q", rest)
		}
		dst, err := P.findFunc(parts[1], cur)
		if err != nil {
			return err
		}
		from := strings.TrimSpace(parts[0])
		P.callRepl[from] = &callRepl{from: from, target: dst, pkg: cur}
	case "option":
		for _, o := range strings.Fields(rest) {
			switch o {
			case "symbolic-make":
				P.symbolicMake = true
			case "no-region-merge":
				P.regionMerge = false
			case "big-cell-arrays":
				P.maxAlloc = 1 << 21
			case "no-witness":
				P.noWitness = true
			case "hash-no-injectivity":
				P.hashNoInj = true
			case "opaque-int-float":
				P.opaqueIntFloat = true
			default:
				return fmt.Errorf("unknown option %q", o)
			}
		}
	case "root", "unwind", "note":
		// handled by the check configuration
	default:
		return fmt.Errorf("unknown directive verif:%s", kind)
	}
	return nil
}
