package main

// Intrinsics added for C35 (pkg/auth):
//
//  * encoding/base64: the four package-level encodings (extern globals) and
//    (*Encoding).EncodeToString / DecodeString.
//      - EncodeToString is modelled EXACTLY (bit slicing + alphabet as an
//        ite-chain); the source length must be concrete (it is concretized).
//      - DecodeString is exact on concrete strings (the real decoder is run)
//        and on strings that are the result of an earlier EncodeToString of the
//        same path/worker (decode(encode(x)) = x, recognised by term identity;
//        the result has len = len(x) and cap = DecodedLen(len(s)) like the real
//        decoder's buffer). Any other symbolic string is UNSUPPORTED (never
//        guessed).
//  * github.com/casbin/casbin/v2: NewEnforcer / model.NewModelFromString /
//    AddFunction / AddPolicy / AddPolicies return opaque successes;
//    (*Enforcer).Enforce(sub, obj, act) is the uninterpreted predicate
//    zzverif.BoolOf("casbin", key) with
//    key = [len(sub), len(obj), len(act)] ++ sub ++ obj ++ act
//    (same construction as the harness oracle, so that both denote the same
//    SMT function application) and never fails.
//  * crypto/rand.Reader: opaque reader value (only passed on; io.ReadFull is
//    redirected by the harness with //verif:replace-call).

import (
	"encoding/base64"
	"fmt"
	"go/types"
	"sync"

	"golang.org/x/tools/go/ssa"
)

type c35enc struct {
	kind  string
	chars []*Term
	src   []*Term
}

var c35tab sync.Map // *Worker -> *[]c35enc

func c35table(w *Worker) *[]c35enc {
	if v, ok := c35tab.Load(w); ok {
		return v.(*[]c35enc)
	}
	t := &[]c35enc{}
	c35tab.Store(w, t)
	return t
}

func c35realEnc(kind string) *base64.Encoding {
	switch kind {
	case "StdEncoding":
		return base64.StdEncoding
	case "URLEncoding":
		return base64.URLEncoding
	case "RawStdEncoding":
		return base64.RawStdEncoding
	case "RawURLEncoding":
		return base64.RawURLEncoding
	}
	return nil
}

func c35encKind(w *Worker, recv Value) string {
	p, ok := recv.(PtrV)
	if !ok || p.Obj == nil {
		w.goPanic("invalid memory address or nil pointer dereference (nil *base64.Encoding)")
	}
	const pre = "base64:"
	if len(p.Obj.name) > len(pre) && p.Obj.name[:len(pre)] == pre {
		return p.Obj.name[len(pre):]
	}
	w.unsupported("base64 method on an Encoding that is not one of the four standard ones")
	return ""
}

func init() {
	for _, k := range []string{"StdEncoding", "URLEncoding", "RawStdEncoding", "RawURLEncoding"} {
		k := k
		externGlobalHooks["encoding/base64."+k] = func(w *Worker, t types.Type) Value {
			// not journaled: the global lives for the whole run of the worker
			w.nextObj++
			var et types.Type
			if pt, ok := t.Underlying().(*types.Pointer); ok {
				et = pt.Elem()
			}
			o := &Object{id: w.nextObj, typ: et, name: "base64:" + k, val: &OpaqueV{Kind: "base64", ID: w.newID()}}
			return PtrV{Obj: o}
		}
	}
	externGlobalHooks["crypto/rand.Reader"] = func(w *Worker, t types.Type) Value {
		return IfaceV{T: opqType, V: &OpaqueV{Kind: "crypto-rand-reader", ID: w.newID()}}
	}

	reg("(*encoding/base64.Encoding).EncodeToString", func(w *Worker, fr *frame, a []Value, fn *ssa.Function) Value {
		kind := c35encKind(w, a[0])
		s := w.bytesToString(a[1].(SliceV)) // concretizes the length
		c := w.ctx
		if cs, ok := s.Concrete(); ok {
			return strV(c, c35realEnc(kind).EncodeToString([]byte(cs)))
		}
		url := kind == "URLEncoding" || kind == "RawURLEncoding"
		pad := kind == "StdEncoding" || kind == "URLEncoding"
		k8 := func(v int) *Term { return c.BVConst(uint64(v&0xff), 8) }
		alpha := func(v *Term) *Term { // v: BV8 in 0..63
			c62, c63 := '+', '/'
			if url {
				c62, c63 = '-', '_'
			}
			return c.Ite(c.ULt(v, k8(26)), c.Add(v, k8('A')),
				c.Ite(c.ULt(v, k8(52)), c.Add(v, k8('a'-26)),
					c.Ite(c.ULt(v, k8(62)), c.Add(v, k8('0'-52)),
						c.Ite(c.Eq(v, k8(62)), k8(int(c62)), k8(int(c63))))))
		}
		b := s.B
		n := len(b)
		var out []*Term
		i := 0
		for ; i+3 <= n; i += 3 {
			b0, b1, b2 := b[i], b[i+1], b[i+2]
			out = append(out,
				alpha(c.LShr(b0, k8(2))),
				alpha(c.BOr(c.Shl(c.BAnd(b0, k8(3)), k8(4)), c.LShr(b1, k8(4)))),
				alpha(c.BOr(c.Shl(c.BAnd(b1, k8(15)), k8(2)), c.LShr(b2, k8(6)))),
				alpha(c.BAnd(b2, k8(63))))
		}
		switch n - i {
		case 1:
			b0 := b[i]
			out = append(out, alpha(c.LShr(b0, k8(2))), alpha(c.Shl(c.BAnd(b0, k8(3)), k8(4))))
			if pad {
				out = append(out, k8('='), k8('='))
			}
		case 2:
			b0, b1 := b[i], b[i+1]
			out = append(out,
				alpha(c.LShr(b0, k8(2))),
				alpha(c.BOr(c.Shl(c.BAnd(b0, k8(3)), k8(4)), c.LShr(b1, k8(4)))),
				alpha(c.Shl(c.BAnd(b1, k8(15)), k8(2))))
			if pad {
				out = append(out, k8('='))
			}
		}
		t := c35table(w)
		*t = append(*t, c35enc{kind: kind, chars: out, src: append([]*Term{}, b...)})
		if len(*t) > 4096 {
			*t = (*t)[len(*t)-2048:]
		}
		return StringV{B: out}
	})

	reg("(*encoding/base64.Encoding).DecodeString", func(w *Worker, fr *frame, a []Value, fn *ssa.Function) Value {
		kind := c35encKind(w, a[0])
		s := a[1].(StringV)
		if s.Opaque != 0 {
			w.unsupported("base64.DecodeString of an opaque string")
		}
		c := w.ctx
		enc := c35realEnc(kind)
		bt := types.Typ[types.Uint8]
		mk := func(content []*Term, capN int) SliceV {
			if capN < len(content) {
				capN = len(content)
			}
			arr := &ArrayV{E: make([]Value, capN)}
			for i := range arr.E {
				if i < len(content) {
					arr.E[i] = content[i]
				} else {
					arr.E[i] = c.BVConst(0, 8)
				}
			}
			o := w.newObj(arr, types.NewArray(bt, int64(capN)), "base64.DecodeString")
			return SliceV{Arr: PtrV{Obj: o}, Off: w.k64(0), Len: w.k64(len(content)), Cap: w.k64(capN)}
		}
		capN := enc.DecodedLen(len(s.B))
		if cs, ok := s.Concrete(); ok {
			dec, err := enc.DecodeString(cs)
			content := make([]*Term, len(dec))
			for i, x := range dec {
				content[i] = c.BVConst(uint64(x), 8)
			}
			var ev Value = IfaceV{}
			if err != nil {
				ev = w.newErr(strV(c, err.Error()), nil)
			}
			return TupleV{mk(content, capN), ev}
		}
		t := c35table(w)
		for j := len(*t) - 1; j >= 0; j-- {
			e := (*t)[j]
			if e.kind != kind || len(e.chars) != len(s.B) {
				continue
			}
			same := true
			for i := range e.chars {
				if e.chars[i] != s.B[i] {
					same = false
					break
				}
			}
			if same {
				return TupleV{mk(e.src, capN), IfaceV{}}
			}
		}
		w.unsupported("base64.DecodeString of a symbolic string that is not the result of EncodeToString (len %d)", len(s.B))
		return nil
	})

	// ---- casbin ----
	const CB = "github.com/casbin/casbin/v2"
	reg(CB+"/model.NewModelFromString", func(w *Worker, fr *frame, a []Value, fn *ssa.Function) Value {
		res := fn.Signature.Results()
		return TupleV{w.zero(res.At(0).Type()), IfaceV{}}
	})
	reg(CB+".NewEnforcer", func(w *Worker, fr *frame, a []Value, fn *ssa.Function) Value {
		pt := fn.Signature.Results().At(0).Type().Underlying().(*types.Pointer)
		o := w.newObj(&OpaqueV{Kind: "casbin-enforcer", ID: w.newID()}, pt.Elem(), "casbin.Enforcer")
		return TupleV{PtrV{Obj: o}, IfaceV{}}
	})
	reg("(*"+CB+".Enforcer).AddFunction", func(w *Worker, fr *frame, a []Value, fn *ssa.Function) Value { return nil })
	for _, n := range []string{"AddPolicy", "AddPolicies"} {
		reg("(*"+CB+".Enforcer)."+n, func(w *Worker, fr *frame, a []Value, fn *ssa.Function) Value {
			return TupleV{w.ctx.True, IfaceV{}}
		})
	}
	reg("(*"+CB+".Enforcer).Enforce", func(w *Worker, fr *frame, a []Value, fn *ssa.Function) Value {
		if p, ok := a[0].(PtrV); !ok || p.Obj == nil {
			w.goPanic("invalid memory address or nil pointer dereference (nil *casbin.Enforcer)")
		}
		rv := a[1].(SliceV)
		n := w.sliceLenConcrete(rv, "casbin request")
		if n != 3 {
			w.unsupported("casbin Enforce with %d request values (model has 3)", n)
		}
		c := w.ctx
		var key []*Term
		var parts [][]*Term
		for i := 0; i < 3; i++ {
			iv, _ := w.sliceElem(rv, w.k64(i)).(IfaceV)
			sv, ok := iv.V.(StringV)
			if !ok || sv.Opaque != 0 {
				w.unsupported("casbin Enforce request value %d is not a plain string", i)
			}
			if len(sv.B) > 255 {
				w.unsupported("casbin Enforce request value longer than 255 bytes")
			}
			key = append(key, c.BVConst(uint64(len(sv.B)), 8))
			parts = append(parts, sv.B)
		}
		for _, p := range parts {
			key = append(key, p...)
		}
		uf := fmt.Sprintf("uf:casbin/%d", len(key))
		app := c.App(uf, BoolSort, key...)
		w.inputs = append(w.inputs, inputRec{Name: fmt.Sprintf("casbin/%d", len(key)), Kind: "uf", Terms: []*Term{app}, Key: key})
		return TupleV{app, IfaceV{}}
	})
}
