package main

// Environment intrinsics: logging/metrics no-ops, protobuf stream exchange,
// sync.Map, sync/atomic, math/rand, sort.

import (
	"fmt"
	"go/types"
	"strings"

	"golang.org/x/tools/go/ssa"
)

var (
	opqTypeName = types.NewTypeName(0, nil, "gosym.opaque", nil)
	opqType     = types.NewNamed(opqTypeName, types.NewStruct(nil, nil), nil)
)

// packages whose calls are irrelevant to every property: calls return "nop"
// values (interfaces whose methods do nothing, non-nil opaque pointers, zeros).
var nopPackages = []string{
	"github.com/prometheus/", "github.com/sirupsen/logrus", "github.com/opentracing/",
	repoMod + "/pkg/logging", repoMod + "/pkg/tracing", repoMod + "/pkg/metrics",
	"github.com/uber/jaeger",
}

func isNopPkg(path string) bool {
	for _, p := range nopPackages {
		if strings.HasPrefix(path, p) {
			return true
		}
	}
	return false
}

func (w *Worker) nopValue(t types.Type) Value {
	switch u := under(t).(type) {
	case *types.Interface:
		return IfaceV{T: nopType, V: &OpaqueV{Kind: "nop", ID: w.newID()}}
	case *types.Pointer:
		o := w.newObj(&OpaqueV{Kind: "nop-target", ID: w.newID()}, u.Elem(), "nop")
		return PtrV{Obj: o}
	case *types.Tuple:
		tv := make(TupleV, u.Len())
		for i := range tv {
			tv[i] = w.nopValue(u.At(i).Type())
		}
		return tv
	}
	return w.zero(t)
}

func init() {
	reg(zz+"Symbolic", func(w *Worker, fr *frame, a []Value, fn *ssa.Function) Value { return w.ctx.True })

	// ---- protobuf stream exchange ----
	P := repoMod + "/pkg/p2p/protobuf."
	mkRW := func(w *Worker, s Value, kind string, t types.Type) Value {
		z := w.zero(t).(*StructV)
		nz := &StructV{F: append([]Value{}, z.F...)}
		nz.F[0] = IfaceV{T: opqType, V: &OpaqueV{Kind: kind, ID: w.newID(), Data: s}}
		return nz
	}
	reg(P+"NewWriterAndReader", func(w *Worker, fr *frame, a []Value, fn *ssa.Function) Value {
		res := fn.Signature.Results()
		return TupleV{mkRW(w, a[0], "pbwriter", res.At(0).Type()), mkRW(w, a[0], "pbreader", res.At(1).Type())}
	})
	reg(P+"NewReader", func(w *Worker, fr *frame, a []Value, fn *ssa.Function) Value {
		return mkRW(w, a[0], "pbreader", fn.Signature.Results().At(0).Type())
	})
	reg(P+"NewWriter", func(w *Worker, fr *frame, a []Value, fn *ssa.Function) Value {
		return mkRW(w, a[0], "pbwriter", fn.Signature.Results().At(0).Type())
	})
	rwData := func(w *Worker, v Value) Value {
		return v.(*StructV).F[0].(IfaceV).V.(*OpaqueV).Data
	}
	pbRead := func(w *Worker, fr *frame, stream Value, msg Value) Value {
		r := w.invokeByName(fr, stream, "VerifPop", nil)
		tv := r.(TupleV)
		if e := tv[1].(IfaceV); e.T != nil {
			return e
		}
		src := tv[0].(IfaceV)
		dst := msg.(IfaceV)
		if src.T == nil {
			w.unsupported("VerifPop returned nil message without error")
		}
		if !types.Identical(src.T, dst.T) {
			// the decoder would produce garbage or an error for a foreign message type;
			// harnesses are expected to queue the type the code reads
			w.unsupported("protobuf read: queued message %s but code reads %s", src.T, dst.T)
		}
		w.store(dst.V.(PtrV), w.load(src.V.(PtrV)))
		return IfaceV{}
	}
	pbWrite := func(w *Worker, fr *frame, stream Value, msg Value) Value {
		// snapshot the message (the wire carries a copy)
		m := msg.(IfaceV)
		if m.T == nil {
			w.goPanic("invalid memory address or nil pointer dereference (nil message)")
		}
		p := m.V.(PtrV)
		if p.Obj == nil {
			// gogo Marshal of a typed nil pointer returns an error in WriteMsg (size 0 path); treat as error
			return w.newErr(strV(w.ctx, "proto: Marshal called with nil"), nil)
		}
		cp := w.newObj(w.load(p), p.Obj.typ, "pbmsg-copy")
		return w.invokeByName(fr, stream, "VerifPush", []Value{IfaceV{T: m.T, V: PtrV{Obj: cp}}})
	}
	reg("("+P+"Reader).ReadMsgWithContext", func(w *Worker, fr *frame, a []Value, fn *ssa.Function) Value {
		return pbRead(w, fr, rwData(w, a[0]), a[2])
	})
	reg("("+P+"Writer).WriteMsgWithContext", func(w *Worker, fr *frame, a []Value, fn *ssa.Function) Value {
		return pbWrite(w, fr, rwData(w, a[0]), a[2])
	})
	opaqueMethods["pbreader.ReadMsg"] = func(w *Worker, fr *frame, op *OpaqueV, args []Value, m *types.Func) Value {
		return pbRead(w, fr, op.Data, args[0])
	}
	opaqueMethods["pbwriter.WriteMsg"] = func(w *Worker, fr *frame, op *OpaqueV, args []Value, m *types.Func) Value {
		return pbWrite(w, fr, op.Data, args[0])
	}
	opaqueMethods["pbreader.Close"] = func(w *Worker, fr *frame, op *OpaqueV, args []Value, m *types.Func) Value { return IfaceV{} }
	opaqueMethods["pbwriter.Close"] = func(w *Worker, fr *frame, op *OpaqueV, args []Value, m *types.Func) Value { return IfaceV{} }

	// ---- sync/atomic (plain loads/stores: one schedule) ----
	for _, ty := range []string{"Int32", "Int64", "Uint32", "Uint64"} {
		ty := ty
		reg("sync/atomic.Load"+ty, func(w *Worker, fr *frame, a []Value, fn *ssa.Function) Value { return w.load(a[0].(PtrV)) })
		reg("sync/atomic.Store"+ty, func(w *Worker, fr *frame, a []Value, fn *ssa.Function) Value {
			w.store(a[0].(PtrV), a[1])
			return nil
		})
		reg("sync/atomic.Add"+ty, func(w *Worker, fr *frame, a []Value, fn *ssa.Function) Value {
			n := w.ctx.Add(w.load(a[0].(PtrV)).(*Term), a[1].(*Term))
			w.store(a[0].(PtrV), n)
			return n
		})
		reg("sync/atomic.CompareAndSwap"+ty, func(w *Worker, fr *frame, a []Value, fn *ssa.Function) Value {
			cur := w.load(a[0].(PtrV)).(*Term)
			eq := w.ctx.Eq(cur, a[1].(*Term))
			w.store(a[0].(PtrV), w.ctx.Ite(eq, a[2].(*Term), cur))
			return eq
		})
		// methods of atomic.IntNN: struct{_ noCopy; [align]; v T}
		for _, pk := range []string{"sync/atomic", "go.uber.org/atomic"} {
			recv := "(*" + pk + "." + ty + ")."
			reg(recv+"Load", func(w *Worker, fr *frame, a []Value, fn *ssa.Function) Value { return w.load(w.atomicCell(a[0].(PtrV))) })
			reg(recv+"Store", func(w *Worker, fr *frame, a []Value, fn *ssa.Function) Value {
				w.store(w.atomicCell(a[0].(PtrV)), a[1])
				return nil
			})
			reg(recv+"Add", func(w *Worker, fr *frame, a []Value, fn *ssa.Function) Value {
				p := w.atomicCell(a[0].(PtrV))
				n := w.ctx.Add(w.load(p).(*Term), a[1].(*Term))
				w.store(p, n)
				return n
			})
			reg(recv+"Inc", func(w *Worker, fr *frame, a []Value, fn *ssa.Function) Value {
				p := w.atomicCell(a[0].(PtrV))
				c := w.load(p).(*Term)
				n := w.ctx.Add(c, w.ctx.BVConst(1, c.sort.W))
				w.store(p, n)
				return n
			})
			reg(recv+"Dec", func(w *Worker, fr *frame, a []Value, fn *ssa.Function) Value {
				p := w.atomicCell(a[0].(PtrV))
				c := w.load(p).(*Term)
				n := w.ctx.Sub(c, w.ctx.BVConst(1, c.sort.W))
				w.store(p, n)
				return n
			})
			reg(recv+"CompareAndSwap", func(w *Worker, fr *frame, a []Value, fn *ssa.Function) Value {
				p := w.atomicCell(a[0].(PtrV))
				cur := w.load(p).(*Term)
				eq := w.ctx.Eq(cur, a[1].(*Term))
				w.store(p, w.ctx.Ite(eq, a[2].(*Term), cur))
				return eq
			})
			reg(recv+"CAS", intrinsics[recv+"CompareAndSwap"])
		}
	}
	for _, pk := range []string{"sync/atomic", "go.uber.org/atomic"} {
		recv := "(*" + pk + ".Bool)."
		reg(recv+"Load", func(w *Worker, fr *frame, a []Value, fn *ssa.Function) Value {
			return w.syncBool(a[0].(PtrV), nil)
		})
		reg(recv+"Store", func(w *Worker, fr *frame, a []Value, fn *ssa.Function) Value {
			w.syncBool(a[0].(PtrV), a[1].(*Term))
			return nil
		})
	}

	// ---- sync.Map as an ordinary map held in the side object table ----
	reg("(*sync.Map).Load", func(w *Worker, fr *frame, a []Value, fn *ssa.Function) Value {
		md := w.syncMap(a[0].(PtrV))
		if i := w.mapFind(md.Obj.val.(*MapData), a[1]); i >= 0 {
			return TupleV{md.Obj.val.(*MapData).E[i].V, w.ctx.True}
		}
		return TupleV{IfaceV{}, w.ctx.False}
	})
	reg("(*sync.Map).Store", func(w *Worker, fr *frame, a []Value, fn *ssa.Function) Value {
		w.mapUpdate(w.syncMap(a[0].(PtrV)), a[1], a[2])
		return nil
	})
	reg("(*sync.Map).Delete", func(w *Worker, fr *frame, a []Value, fn *ssa.Function) Value {
		w.mapDelete(w.syncMap(a[0].(PtrV)), a[1])
		return nil
	})
	reg("(*sync.Map).LoadOrStore", func(w *Worker, fr *frame, a []Value, fn *ssa.Function) Value {
		m := w.syncMap(a[0].(PtrV))
		md := m.Obj.val.(*MapData)
		if i := w.mapFind(md, a[1]); i >= 0 {
			return TupleV{md.E[i].V, w.ctx.True}
		}
		w.mapUpdate(m, a[1], a[2])
		return TupleV{a[2], w.ctx.False}
	})
	reg("(*sync.Map).LoadAndDelete", func(w *Worker, fr *frame, a []Value, fn *ssa.Function) Value {
		m := w.syncMap(a[0].(PtrV))
		md := m.Obj.val.(*MapData)
		if i := w.mapFind(md, a[1]); i >= 0 {
			v := md.E[i].V
			w.mapDelete(m, a[1])
			return TupleV{v, w.ctx.True}
		}
		return TupleV{IfaceV{}, w.ctx.False}
	})
	reg("(*sync.Map).Range", func(w *Worker, fr *frame, a []Value, fn *ssa.Function) Value {
		m := w.syncMap(a[0].(PtrV))
		w.note("sync.Map.Range visits entries in insertion order (one of the orders Go permits)")
		snap := append([]MapEntry{}, m.Obj.val.(*MapData).E...)
		for _, e := range snap {
			// skip entries deleted meanwhile
			still := false
			for _, c := range m.Obj.val.(*MapData).E {
				if sameKey(c.K, e.K) {
					still = true
					e = c
				}
			}
			if !still {
				continue
			}
			r := w.callValue(fr, a[1], []Value{e.K, e.V}, nil).(*Term)
			if !w.branch(r) {
				break
			}
		}
		return nil
	})

	// ---- math/rand: fresh symbols within range ----
	randIntn := func(w *Worker, n *Term, name string) *Term {
		v := w.inputScalar(name, n.sort.W, "num")
		w.rtCheck(w.ctx.SGt(n, w.ctx.BVConst(0, n.sort.W)), "invalid argument to Intn")
		w.addPC(w.ctx.ULt(v, n))
		w.note("math/rand results are unconstrained symbols within their range (not reproduced natively: replay may reject models that depend on them)")
		return v
	}
	reg("math/rand.Intn", func(w *Worker, fr *frame, a []Value, fn *ssa.Function) Value { return randIntn(w, a[0].(*Term), "rand") })
	reg("math/rand.Int63n", func(w *Worker, fr *frame, a []Value, fn *ssa.Function) Value { return randIntn(w, a[0].(*Term), "rand") })
	reg("math/rand.Int31n", func(w *Worker, fr *frame, a []Value, fn *ssa.Function) Value { return randIntn(w, a[0].(*Term), "rand") })
	reg("(*math/rand.Rand).Intn", func(w *Worker, fr *frame, a []Value, fn *ssa.Function) Value { return randIntn(w, a[1].(*Term), "rand") })
	reg("math/rand.Seed", func(w *Worker, fr *frame, a []Value, fn *ssa.Function) Value { return nil })
	reg("math/rand.Shuffle", func(w *Worker, fr *frame, a []Value, fn *ssa.Function) Value {
		n := w.argInt(a[0])
		for i := n - 1; i > 0; i-- {
			j := randIntn(w, w.k64(i+1), "rand")
			jc := w.concretize(j, i+1)
			w.callValue(fr, a[1], []Value{w.k64(i), w.k64(jc)}, nil)
		}
		return nil
	})

	// ---- sort ----
	reg("sort.Slice", func(w *Worker, fr *frame, a []Value, fn *ssa.Function) Value {
		w.sortSlice(fr, a[0].(IfaceV), a[1], false)
		return nil
	})
	reg("sort.SliceStable", func(w *Worker, fr *frame, a []Value, fn *ssa.Function) Value {
		w.sortSlice(fr, a[0].(IfaceV), a[1], true)
		return nil
	})
	reg("sort.Strings", func(w *Worker, fr *frame, a []Value, fn *ssa.Function) Value {
		s := a[0].(SliceV)
		n := w.sliceLenConcrete(s, "sort.Strings")
		for i := 1; i < n; i++ {
			for j := i; j > 0; j-- {
				x := w.sliceElem(s, w.k64(j-1)).(StringV)
				y := w.sliceElem(s, w.k64(j)).(StringV)
				if !w.branch(w.strLess(y, x, false)) {
					break
				}
				w.store(w.sliceElemPtr(s, w.k64(j-1)), y)
				w.store(w.sliceElemPtr(s, w.k64(j)), x)
			}
		}
		return nil
	})
}

// sortSlice: insertion sort using the less closure and element swaps.
func (w *Worker) sortSlice(fr *frame, sv IfaceV, less Value, stable bool) {
	s, ok := sv.V.(SliceV)
	if !ok {
		w.unsupported("sort.Slice on %T", sv.V)
	}
	n := w.sliceLenConcrete(s, "sort.Slice")
	if n > 8 {
		w.unsupported("sort.Slice on %d elements (limit 8)", n)
	}
	for i := 1; i < n; i++ {
		for j := i; j > 0; j-- {
			r := w.callValue(fr, less, []Value{w.k64(j), w.k64(j - 1)}, nil).(*Term)
			if !w.branch(r) {
				break
			}
			x := w.sliceElem(s, w.k64(j-1))
			y := w.sliceElem(s, w.k64(j))
			w.store(w.sliceElemPtr(s, w.k64(j-1)), y)
			w.store(w.sliceElemPtr(s, w.k64(j)), x)
		}
	}
	if !stable {
		w.note("sort.Slice is modelled as a stable insertion sort (order of equal elements is unspecified in Go)")
	}
}

// atomicCell finds the value field "v" of an atomic.IntNN-like struct.
func (w *Worker) atomicCell(p PtrV) PtrV {
	if p.Obj == nil {
		w.goPanic("invalid memory address or nil pointer dereference (atomic)")
	}
	v := w.load(p)
	sv, ok := v.(*StructV)
	if !ok {
		return p
	}
	for i := len(sv.F) - 1; i >= 0; i-- {
		if _, isT := sv.F[i].(*Term); isT {
			return p.extend(PE{I: i})
		}
	}
	w.unsupported("atomic value layout")
	return p
}

func (w *Worker) syncBool(p PtrV, set *Term) Value {
	k := w.syncKey(p) + "/bool"
	if set != nil {
		if !set.IsConst() {
			w.unsupported("atomic.Bool.Store of symbolic value")
		}
		v := 0
		if set.IsTrue() {
			v = 1
		}
		w.syncSet(k, v)
		return nil
	}
	return w.ctx.Bool(w.syncGet(k) != 0)
}

// syncMap returns the engine map standing for a sync.Map at p.
func (w *Worker) syncMap(p PtrV) MapV {
	k := w.syncKey(p)
	if o, ok := w.syncMaps[k]; ok && o.val != nil {
		return MapV{o}
	}
	o := w.newObj(&MapData{}, nil, "sync.Map")
	if w.syncMaps == nil {
		w.syncMaps = map[string]*Object{}
	}
	w.syncMaps[k] = o
	return MapV{o}
}

// invokeByName calls method name on the dynamic value of an interface.
func (w *Worker) invokeByName(fr *frame, recv Value, name string, args []Value) Value {
	iv, ok := recv.(IfaceV)
	if !ok || iv.T == nil {
		w.unsupported("invokeByName(%s) on %T", name, recv)
	}
	ms := w.prog.prog.MethodSets.MethodSet(iv.T)
	for i := 0; i < ms.Len(); i++ {
		if ms.At(i).Obj().Name() == name {
			fn := w.prog.prog.MethodValue(ms.At(i))
			return w.callFn(fr, fn, append([]Value{iv.V}, args...), nil)
		}
	}
	w.unsupported("stream stub %s has no method %s (use zzstream.Stream)", iv.T, name)
	return nil
}

func (w *Worker) tryGenericExternal(fr *frame, fn *ssa.Function, args []Value) (Value, bool) {
	pkg := ""
	if fn.Pkg != nil {
		pkg = fn.Pkg.Pkg.Path()
	} else if recv := fn.Signature.Recv(); recv != nil {
		t := recv.Type()
		if p, ok := t.(*types.Pointer); ok {
			t = p.Elem()
		}
		if n, ok := t.(*types.Named); ok && n.Obj().Pkg() != nil {
			pkg = n.Obj().Pkg().Path()
		}
	}
	if pkg != "" && isNopPkg(pkg) {
		w.intrUsed["nop:"+pkg]++
		res := fn.Signature.Results()
		switch res.Len() {
		case 0:
			return nil, true
		case 1:
			return w.nopValue(res.At(0).Type()), true
		}
		return w.nopValue(res), true
	}
	_ = fmt.Sprint
	return nil, false
}
