package main

// Intrinsic added for C16/C17 (pkg/chunkinfo): resenje.org/singleflight.
// (*Group).Do(ctx, key, fn) runs fn(ctx) directly and returns (v, false, err):
// the engine runs ONE schedule, so there is never a concurrent call with the
// same key to share a result with; the context is never cancelled.

import "golang.org/x/tools/go/ssa"

func init() {
	reg("(*resenje.org/singleflight.Group).Do", func(w *Worker, fr *frame, a []Value, fn *ssa.Function) Value {
		r := w.callValue(fr, a[3], []Value{a[1]}, nil).(TupleV)
		return TupleV{r[0], w.ctx.False, r[1]}
	})
}
