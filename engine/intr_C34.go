package main

// Intrinsics for C34 / C37(a): go-multiaddr parsing and the libp2p peer-id
// extraction are external libraries; they are modelled as uninterpreted
// total-or-error functions of the input bytes (DESIGN §5 C34):
//
//   ma.NewMultiaddrBytes(b)      = (M(b), nil)  if  ma.valid(b)   else (nil, err)
//   peer.AddrInfoFromP2pAddr(m)  = (&AddrInfo{ID: id(m)}, nil) if ma.p2p(bytes(m)) else (nil, err)
//
// ma.valid / ma.p2p are the same uninterpreted predicates a harness reaches
// with zzverif.BoolOf("ma.valid", b) / zzverif.BoolOf("ma.p2p", b), so a
// harness can tie them to facts it knows about concrete encodings (and check
// those facts natively against the real library).
// M(b) is an opaque multiaddr value that aliases b (as the real one does) and
// supports Bytes/MarshalBinary/Equal/String.
// The empty byte string is invalid (exact: "empty multiaddr").

import (
	"fmt"
	"go/types"

	"golang.org/x/tools/go/ssa"
)

// c34UF builds the application uf:<name>/<n>(key bytes) exactly like zzverif.BoolOf.
func (w *Worker) c34UF(name string, s SliceV, n int) *Term {
	key := make([]*Term, n)
	for i := 0; i < n; i++ {
		key[i] = w.sliceElem(s, w.k64(i)).(*Term)
	}
	uf := fmt.Sprintf("uf:%s/%d", name, n)
	var app *Term
	if n == 0 {
		app = w.ctx.Var(uf, BoolSort)
	} else {
		app = w.ctx.App(uf, BoolSort, key...)
	}
	w.inputs = append(w.inputs, inputRec{Name: fmt.Sprintf("%s/%d", name, n), Kind: "uf", Terms: []*Term{app}, Key: key})
	return app
}

// c34MABytes returns the byte slice behind a ma.Multiaddr interface value
// (engine-made opaque multiaddr, or a harness type: its Bytes method is called).
func (w *Worker) c34MABytes(fr *frame, v Value) SliceV {
	iv, ok := v.(IfaceV)
	if !ok || iv.T == nil {
		w.goPanic("invalid memory address or nil pointer dereference (nil Multiaddr)")
	}
	if op, ok := iv.V.(*OpaqueV); ok && op.Kind == "multiaddr" {
		return op.Data.(SliceV)
	}
	return w.invokeByName(fr, iv, "Bytes", nil).(SliceV)
}

func init() {
	const MA = "github.com/multiformats/go-multiaddr."
	reg(MA+"NewMultiaddrBytes", func(w *Worker, fr *frame, a []Value, fn *ssa.Function) Value {
		b := a[0].(SliceV)
		n := w.sliceLenConcrete(b, "multiaddr bytes")
		w.note("go-multiaddr NewMultiaddrBytes is modelled as an uninterpreted total-or-error function (predicate ma.valid of the bytes; empty input invalid)")
		fail := func() Value {
			return TupleV{IfaceV{}, w.newErr(strV(w.ctx, "multiaddr: invalid bytes (model)"), nil)}
		}
		if n == 0 {
			return fail()
		}
		if !w.branch(w.c34UF("ma.valid", b, n)) {
			return fail()
		}
		return TupleV{IfaceV{T: opqType, V: &OpaqueV{Kind: "multiaddr", ID: w.newID(), Data: b}}, IfaceV{}}
	})
	opaqueMethods["multiaddr.Bytes"] = func(w *Worker, fr *frame, op *OpaqueV, args []Value, m *types.Func) Value {
		return op.Data
	}
	opaqueMethods["multiaddr.MarshalBinary"] = func(w *Worker, fr *frame, op *OpaqueV, args []Value, m *types.Func) Value {
		return TupleV{op.Data, IfaceV{}}
	}
	opaqueMethods["multiaddr.Equal"] = func(w *Worker, fr *frame, op *OpaqueV, args []Value, m *types.Func) Value {
		return w.bytesEqual(op.Data.(SliceV), w.c34MABytes(fr, args[0]))
	}
	opaqueMethods["multiaddr.String"] = func(w *Worker, fr *frame, op *OpaqueV, args []Value, m *types.Func) Value {
		return StringV{Opaque: w.newID()}
	}

	reg("github.com/libp2p/go-libp2p-core/peer.AddrInfoFromP2pAddr", func(w *Worker, fr *frame, a []Value, fn *ssa.Function) Value {
		rt := fn.Signature.Results().At(0).Type() // *AddrInfo
		fail := func() Value {
			return TupleV{w.zero(rt), w.newErr(strV(w.ctx, "invalid p2p multiaddr (model)"), nil)}
		}
		if iv, ok := a[0].(IfaceV); !ok || iv.T == nil {
			return fail()
		}
		b := w.c34MABytes(fr, a[0])
		n := w.sliceLenConcrete(b, "multiaddr bytes")
		w.note("libp2p peer.AddrInfoFromP2pAddr is modelled by the uninterpreted predicate ma.p2p of the multiaddr bytes; the peer id is taken as the trailing <=34 bytes (exact for sha2-256 peer ids), Addrs is left empty")
		if n == 0 || !w.branch(w.c34UF("ma.p2p", b, n)) {
			return fail()
		}
		k := n
		if k > 34 {
			k = 34
		}
		id := StringV{B: make([]*Term, k)}
		for i := 0; i < k; i++ {
			id.B[i] = w.sliceElem(b, w.k64(n-k+i)).(*Term)
		}
		et := rt.Underlying().(*types.Pointer).Elem()
		z := w.zero(et).(*StructV)
		nz := &StructV{F: append([]Value{}, z.F...)}
		nz.F[0] = id
		return TupleV{PtrV{Obj: w.newObj(nz, et, "peer.AddrInfo")}, IfaceV{}}
	})
}
