package main

import (
	"fmt"
	"go/token"
	"go/types"
	"math"

	"golang.org/x/tools/go/ssa"
)

// concretizeAny forks over all feasible values of t (found with solver
// models), up to limit distinct values. The decision records the value.
func (w *Worker) concretizeAny(t *Term, limit int, what string) uint64 {
	if u, ok := t.ConstU(); ok {
		return u
	}
	d := w.dc
	site := w.site(skConcr)
	if d.pos < len(d.prefix) {
		v := w.replayNext(d, site, "concretisation of "+what)
		w.addPC(w.ctx.Eq(t, w.ctx.BVConst(uint64(v), t.sort.W)))
		return uint64(v)
	}
	d.pos++
	var vals []uint64
	w.solver.Push()
	for {
		r := w.solver.Check()
		if r == Unknown {
			w.prog.sawUnknown = true
			w.note("solver unknown while enumerating values of " + what)
			break
		}
		if r == Unsat {
			break
		}
		mv := w.solver.GetValues([]*Term{t})[0]
		vals = append(vals, mv.U)
		if mv.U > 1<<31 {
			w.solver.Pop()
			w.unsupported("concretisation of %s to a value above 2^31", what)
		}
		if len(vals) > limit {
			w.solver.Pop()
			panic(pathAbort{abUnwind, fmt.Sprintf("more than %d feasible values for %s", limit, what) + w.where()})
		}
		w.solver.Assert(w.ctx.Not(w.ctx.Eq(t, w.ctx.BVConst(mv.U, t.sort.W))))
	}
	w.solver.Pop()
	if len(vals) == 0 {
		panic(pathAbort{abInfeasible, "no feasible value"})
	}
	// deterministic order
	for i := 1; i < len(vals); i++ {
		for j := i; j > 0 && vals[j] < vals[j-1]; j-- {
			vals[j], vals[j-1] = vals[j-1], vals[j]
		}
	}
	for _, v := range vals[1:] {
		alt := append(append([]int{}, d.taken...), encDec(site, int(v)))
		*d.queue = append(*d.queue, alt)
	}
	d.taken = append(d.taken, encDec(site, int(vals[0])))
	w.addPC(w.ctx.Eq(t, w.ctx.BVConst(vals[0], t.sort.W)))
	return vals[0]
}

// toIdx converts an integer value of type t to a BV64 index/length term.
func (w *Worker) toIdx(v Value, t types.Type) *Term {
	x := v.(*Term)
	bw, signed, ok := intInfo(t)
	if !ok {
		w.unsupported("index of non-integer type %s", t)
	}
	if bw == 64 {
		return x
	}
	if signed {
		return w.ctx.SExt(x, 64)
	}
	return w.ctx.ZExt(x, 64)
}

func (w *Worker) k64(n int) *Term { return w.ctx.BVConst(uint64(n), 64) }

func (w *Worker) unop(fr *frame, x *ssa.UnOp) Value {
	v := w.get(fr, x.X)
	switch x.Op {
	case token.MUL: // load
		return w.load(v.(PtrV))
	case token.NOT:
		return w.ctx.Not(v.(*Term))
	case token.SUB:
		switch y := v.(type) {
		case *Term:
			return w.ctx.Neg(y)
		case FloatV:
			return -y
		}
	case token.XOR:
		return w.ctx.BNot(v.(*Term))
	case token.ARROW:
		return w.chanRecv(fr, v.(ChanV), x.CommaOk, x.Type())
	}
	w.unsupported("unop %s on %T", x.Op, v)
	return nil
}

func (w *Worker) binop(op token.Token, xt types.Type, a, b Value, yt types.Type) Value {
	c := w.ctx
	switch op {
	case token.EQL:
		return w.equalValues(a, b)
	case token.NEQ:
		return c.Not(w.equalValues(a, b))
	}
	switch x := a.(type) {
	case *Term:
		y := b.(*Term)
		if x.sort.K == SBool {
			switch op {
			case token.LAND, token.AND:
				return c.And(x, y)
			case token.LOR, token.OR:
				return c.Or(x, y)
			}
			w.unsupported("bool binop %s", op)
		}
		bw, signed, _ := intInfo(xt)
		_ = bw
		switch op {
		case token.ADD:
			return c.Add(x, y)
		case token.SUB:
			return c.Sub(x, y)
		case token.MUL:
			return c.Mul(x, y)
		case token.QUO:
			w.rtCheck(c.Not(c.Eq(y, c.BVConst(0, y.sort.W))), "integer divide by zero")
			if signed {
				return c.SDiv(x, y)
			}
			return c.UDiv(x, y)
		case token.REM:
			w.rtCheck(c.Not(c.Eq(y, c.BVConst(0, y.sort.W))), "integer divide by zero")
			if signed {
				return c.SRem(x, y)
			}
			return c.URem(x, y)
		case token.AND:
			return c.BAnd(x, y)
		case token.OR:
			return c.BOr(x, y)
		case token.XOR:
			return c.BXor(x, y)
		case token.AND_NOT:
			return c.BAnd(x, c.BNot(y))
		case token.SHL, token.SHR:
			yw, ysigned, _ := intInfo(yt)
			if ysigned {
				w.rtCheck(c.SGe(y, c.BVConst(0, yw)), "negative shift amount")
			}
			xw := x.sort.W
			// bring count to the width of x, saturating
			var cnt *Term
			var big *Term // count >= xw
			if yw > xw {
				big = c.UGe(y, c.BVConst(uint64(xw), yw))
				cnt = c.Extract(y, xw-1, 0)
			} else {
				cnt = c.ZExt(y, xw)
				big = c.UGe(cnt, c.BVConst(uint64(xw), xw))
			}
			var r, sat *Term
			if op == token.SHL {
				r = c.Shl(x, cnt)
				sat = c.BVConst(0, xw)
			} else if signed {
				r = c.AShr(x, cnt)
				sat = c.AShr(x, c.BVConst(uint64(xw-1), xw))
			} else {
				r = c.LShr(x, cnt)
				sat = c.BVConst(0, xw)
			}
			return c.Ite(big, sat, r)
		case token.LSS:
			if signed {
				return c.SLt(x, y)
			}
			return c.ULt(x, y)
		case token.LEQ:
			if signed {
				return c.SLe(x, y)
			}
			return c.ULe(x, y)
		case token.GTR:
			if signed {
				return c.SLt(y, x)
			}
			return c.ULt(y, x)
		case token.GEQ:
			if signed {
				return c.SLe(y, x)
			}
			return c.ULe(y, x)
		}
	case FloatV:
		y := b.(FloatV)
		switch op {
		case token.ADD:
			return x + y
		case token.SUB:
			return x - y
		case token.MUL:
			return x * y
		case token.QUO:
			return x / y
		case token.LSS:
			return c.Bool(x < y)
		case token.LEQ:
			return c.Bool(x <= y)
		case token.GTR:
			return c.Bool(x > y)
		case token.GEQ:
			return c.Bool(x >= y)
		}
	case StringV:
		y := b.(StringV)
		switch op {
		case token.ADD:
			if x.Opaque != 0 || y.Opaque != 0 {
				return StringV{Opaque: w.newID()}
			}
			r := StringV{B: make([]*Term, 0, len(x.B)+len(y.B))}
			r.B = append(append(r.B, x.B...), y.B...)
			return r
		case token.LSS:
			return w.strLess(x, y, false)
		case token.LEQ:
			return w.strLess(x, y, true)
		case token.GTR:
			return w.strLess(y, x, false)
		case token.GEQ:
			return w.strLess(y, x, true)
		}
	}
	w.unsupported("binop %s on %T", op, a)
	return nil
}

// strLess: lexicographic comparison of byte strings of concrete lengths.
func (w *Worker) strLess(a, b StringV, orEq bool) *Term {
	if a.Opaque != 0 || b.Opaque != 0 {
		w.unsupported("comparison of opaque strings")
	}
	c := w.ctx
	n := len(a.B)
	if len(b.B) < n {
		n = len(b.B)
	}
	// tail result when common prefix equal
	var res *Term
	if len(a.B) < len(b.B) {
		res = c.True
	} else if len(a.B) == len(b.B) {
		res = c.Bool(orEq)
	} else {
		res = c.False
	}
	for i := n - 1; i >= 0; i-- {
		res = c.Ite(c.ULt(a.B[i], b.B[i]), c.True, c.Ite(c.ULt(b.B[i], a.B[i]), c.False, res))
	}
	return res
}

func (w *Worker) equalValues(a, b Value) *Term {
	c := w.ctx
	switch x := a.(type) {
	case nil:
		switch y := b.(type) {
		case nil:
			return c.True
		case IfaceV:
			return c.Bool(y.T == nil)
		}
	case *Term:
		if y, ok := b.(*Term); ok {
			return c.Eq(x, y)
		}
	case FloatV:
		return c.Bool(x == b.(FloatV))
	case StringV:
		y := b.(StringV)
		if x.Opaque != 0 || y.Opaque != 0 {
			if x.Opaque == y.Opaque {
				return c.True
			}
			w.unsupported("equality of opaque strings")
		}
		if len(x.B) != len(y.B) {
			return c.False
		}
		var cs []*Term
		for i := range x.B {
			cs = append(cs, c.Eq(x.B[i], y.B[i]))
		}
		return c.And(cs...)
	case PtrV:
		y, ok := b.(PtrV)
		if !ok {
			break
		}
		if x.Obj != y.Obj || len(x.Path) != len(y.Path) {
			return c.False
		}
		var cs []*Term
		for i := range x.Path {
			cs = append(cs, c.Eq(w.peTerm(x.Path[i]), w.peTerm(y.Path[i])))
		}
		return c.And(cs...)
	case *StructV:
		y := b.(*StructV)
		var cs []*Term
		for i := range x.F {
			cs = append(cs, w.equalValues(x.F[i], y.F[i]))
		}
		return c.And(cs...)
	case *ArrayV:
		y := b.(*ArrayV)
		var cs []*Term
		for i := range x.E {
			cs = append(cs, w.equalValues(x.E[i], y.E[i]))
		}
		return c.And(cs...)
	case IfaceV:
		y, ok := b.(IfaceV)
		if !ok {
			if b == nil {
				return c.Bool(x.T == nil)
			}
			break
		}
		if x.T == nil || y.T == nil {
			return c.Bool(x.T == nil && y.T == nil)
		}
		if !types.Identical(x.T, y.T) {
			return c.False
		}
		return w.equalValues(x.V, y.V)
	case *ErrV:
		y, ok := b.(*ErrV)
		return c.Bool(ok && x == y)
	case *OpaqueV:
		y, ok := b.(*OpaqueV)
		return c.Bool(ok && x == y)
	case SliceV:
		if y, ok := b.(SliceV); ok && (x.IsNil() || y.IsNil()) {
			return c.Bool(x.IsNil() && y.IsNil())
		}
	case MapV:
		if y, ok := b.(MapV); ok {
			return c.Bool(x.Obj == y.Obj)
		}
	case ChanV:
		if y, ok := b.(ChanV); ok {
			return c.Bool(x.Obj == y.Obj)
		}
	case *ClosureV:
		if y, ok := b.(*ClosureV); ok && (x == nil || y == nil) {
			return c.Bool(x == nil && y == nil)
		}
	}
	w.unsupported("equality on %T / %T", a, b)
	return nil
}

func (w *Worker) convert(from, to types.Type, v Value) Value {
	c := w.ctx
	uf, ut := under(from), under(to)
	if fw, fsigned, ok := intInfo(uf); ok {
		x := v.(*Term)
		if tw, _, ok2 := intInfo(ut); ok2 {
			if tw == fw {
				return x
			}
			if tw < fw {
				return c.Extract(x, tw-1, 0)
			}
			if fsigned {
				return c.SExt(x, tw)
			}
			return c.ZExt(x, tw)
		}
		if tb, ok2 := ut.(*types.Basic); ok2 {
			if tb.Info()&types.IsFloat != 0 {
				if fsigned {
					s, ok := x.ConstS()
					if ok {
						return FloatV(float64(s))
					}
				} else if u, ok := x.ConstU(); ok {
					return FloatV(float64(u))
				}
				if w.prog.opaqueIntFloat {
					// //verif:option opaque-int-float: the float is only stored/passed on (metrics)
					return &FloatOpaque{ID: w.newID()}
				}
				u := w.concretizeAny(x, w.prog.maxConcretize, "integer converted to float")
				if fsigned {
					sh := uint(64 - fw)
					return FloatV(float64(int64(u<<sh) >> sh))
				}
				return FloatV(float64(u))
			}
			if tb.Info()&types.IsString != 0 {
				if u, ok := x.ConstU(); ok {
					return strV(c, string(rune(u)))
				}
				w.unsupported("string(symbolic rune)")
			}
			if tb.Kind() == types.UnsafePointer {
				w.unsupported("conversion to unsafe.Pointer")
			}
		}
	}
	if fb, ok := uf.(*types.Basic); ok {
		if fb.Info()&types.IsFloat != 0 {
			f := float64(v.(FloatV))
			if tw, tsigned, ok2 := intInfo(ut); ok2 {
				if tsigned {
					return c.BVConst(uint64(int64(f)), tw)
				}
				if f < 0 || f >= math.Pow(2, 64) {
					return c.BVConst(uint64(int64(f)), tw)
				}
				return c.BVConst(uint64(f), tw)
			}
			if tb, ok2 := ut.(*types.Basic); ok2 && tb.Info()&types.IsFloat != 0 {
				if tb.Kind() == types.Float32 {
					return FloatV(float64(float32(f)))
				}
				return FloatV(f)
			}
		}
		if fb.Info()&types.IsString != 0 {
			s := v.(StringV)
			if ts, ok2 := ut.(*types.Slice); ok2 {
				if s.Opaque != 0 {
					w.unsupported("[]byte(opaque string)")
				}
				if eb, ok3 := under(ts.Elem()).(*types.Basic); ok3 && eb.Kind() == types.Uint8 {
					arr := &ArrayV{E: make([]Value, len(s.B))}
					for i, b := range s.B {
						arr.E[i] = b
					}
					o := w.newObj(arr, types.NewArray(ts.Elem(), int64(len(s.B))), "[]byte(string)")
					n := w.k64(len(s.B))
					return SliceV{Arr: PtrV{Obj: o}, Off: w.k64(0), Len: n, Cap: n}
				}
				w.unsupported("[]rune(string)")
			}
			if tb, ok2 := ut.(*types.Basic); ok2 && tb.Info()&types.IsString != 0 {
				return s
			}
		}
	}
	if fs, ok := uf.(*types.Slice); ok {
		if tb, ok2 := ut.(*types.Basic); ok2 && tb.Info()&types.IsString != 0 {
			if eb, ok3 := under(fs.Elem()).(*types.Basic); ok3 && eb.Kind() == types.Uint8 {
				return w.bytesToString(v.(SliceV))
			}
		}
		if _, ok2 := ut.(*types.Slice); ok2 {
			return v
		}
	}
	if _, ok := uf.(*types.Pointer); ok {
		if _, ok2 := ut.(*types.Pointer); ok2 {
			return v
		}
	}
	w.unsupported("conversion %s -> %s", from, to)
	return nil
}

// sliceLenConcrete forks on the length of s if symbolic (bounded).
func (w *Worker) sliceLenConcrete(s SliceV, what string) int {
	if s.IsNil() {
		return 0
	}
	return int(w.concretizeAny(s.Len, w.prog.maxConcretize, "length of "+what))
}

func (w *Worker) bytesToString(s SliceV) StringV {
	n := w.sliceLenConcrete(s, "[]byte converted to string")
	r := StringV{B: make([]*Term, n)}
	for i := 0; i < n; i++ {
		r.B[i] = w.sliceElem(s, w.k64(i)).(*Term)
	}
	return r
}

// sliceElemPtr: pointer to element i (no bounds check).
func (w *Worker) sliceElemPtr(s SliceV, i *Term) PtrV {
	idx := w.ctx.Add(s.Off, i)
	if u, ok := idx.ConstU(); ok {
		return s.Arr.extend(PE{I: int(u)})
	}
	return s.Arr.extend(PE{Sym: idx})
}

func (w *Worker) sliceElem(s SliceV, i *Term) Value {
	return w.load(w.sliceElemPtr(s, i))
}

func (w *Worker) indexAddr(fr *frame, x *ssa.IndexAddr) Value {
	base := w.get(fr, x.X)
	idx := w.toIdx(w.get(fr, x.Index), x.Index.Type())
	switch b := base.(type) {
	case SliceV:
		if b.IsNil() {
			w.goPanic("index out of range (nil slice)")
		}
		w.rtCheck(w.ctx.ULt(idx, b.Len), "index out of range")
		return w.sliceElemPtr(b, idx)
	case PtrV:
		if b.Obj == nil {
			w.goPanic("invalid memory address or nil pointer dereference")
		}
		n := x.X.Type().Underlying().(*types.Pointer).Elem().Underlying().(*types.Array).Len()
		w.rtCheck(w.ctx.ULt(idx, w.k64(int(n))), "index out of range")
		if u, ok := idx.ConstU(); ok {
			return b.extend(PE{I: int(u)})
		}
		return b.extend(PE{Sym: idx})
	}
	w.unsupported("IndexAddr on %T", base)
	return nil
}

func (w *Worker) index(fr *frame, x *ssa.Index) Value {
	base := w.get(fr, x.X)
	idx := w.toIdx(w.get(fr, x.Index), x.Index.Type())
	switch b := base.(type) {
	case *ArrayV:
		w.rtCheck(w.ctx.ULt(idx, w.k64(len(b.E))), "index out of range")
		if u, ok := idx.ConstU(); ok {
			return b.E[u]
		}
		return w.getSym(b, idx, nil)
	case StringV:
		if b.Opaque != 0 {
			w.unsupported("index of opaque string")
		}
		w.rtCheck(w.ctx.ULt(idx, w.k64(len(b.B))), "index out of range")
		if u, ok := idx.ConstU(); ok {
			return b.B[u]
		}
		arr := &ArrayV{E: make([]Value, len(b.B))}
		for i, t := range b.B {
			arr.E[i] = t
		}
		return w.getSym(arr, idx, nil)
	}
	w.unsupported("Index on %T", base)
	return nil
}

func (w *Worker) sliceOp(fr *frame, x *ssa.Slice) Value {
	c := w.ctx
	base := w.get(fr, x.X)
	var lo, hi, max *Term
	if x.Low != nil {
		lo = w.toIdx(w.get(fr, x.Low), x.Low.Type())
	}
	if x.High != nil {
		hi = w.toIdx(w.get(fr, x.High), x.High.Type())
	}
	if x.Max != nil {
		max = w.toIdx(w.get(fr, x.Max), x.Max.Type())
	}
	if lo == nil {
		lo = w.k64(0)
	}
	switch b := base.(type) {
	case StringV:
		if b.Opaque != 0 {
			w.unsupported("slice of opaque string")
		}
		n := len(b.B)
		if hi == nil {
			hi = w.k64(n)
		}
		w.rtCheck(c.And(c.ULe(lo, hi), c.ULe(hi, w.k64(n))), "slice bounds out of range")
		h := int(w.concretizeAny(hi, w.prog.maxConcretize, "string slice bound"))
		l := int(w.concretizeAny(lo, w.prog.maxConcretize, "string slice bound"))
		return StringV{B: b.B[l:h]}
	case SliceV:
		var ln, cp *Term
		if b.IsNil() {
			ln, cp = w.k64(0), w.k64(0)
		} else {
			ln, cp = b.Len, b.Cap
		}
		if hi == nil {
			hi = ln
		}
		if max == nil {
			max = cp
		}
		w.rtCheck(c.And(c.ULe(lo, hi), c.ULe(hi, max), c.ULe(max, cp)), "slice bounds out of range")
		if b.IsNil() {
			return b
		}
		return SliceV{Arr: b.Arr, Off: c.Add(b.Off, lo), Len: c.Sub(hi, lo), Cap: c.Sub(max, lo)}
	case PtrV: // *array
		if b.Obj == nil {
			w.goPanic("invalid memory address or nil pointer dereference")
		}
		n := x.X.Type().Underlying().(*types.Pointer).Elem().Underlying().(*types.Array).Len()
		cp := w.k64(int(n))
		if hi == nil {
			hi = cp
		}
		if max == nil {
			max = cp
		}
		w.rtCheck(c.And(c.ULe(lo, hi), c.ULe(hi, max), c.ULe(max, cp)), "slice bounds out of range")
		return SliceV{Arr: b, Off: lo, Len: c.Sub(hi, lo), Cap: c.Sub(max, lo)}
	}
	w.unsupported("Slice on %T", base)
	return nil
}

func (w *Worker) makeSlice(fr *frame, x *ssa.MakeSlice) Value {
	et := x.Type().Underlying().(*types.Slice).Elem()
	ln := w.toIdx(w.get(fr, x.Len), x.Len.Type())
	cp := w.toIdx(w.get(fr, x.Cap), x.Cap.Type())
	return w.makeSliceOf(et, ln, cp)
}

func (w *Worker) makeSliceOf(et types.Type, ln, cp *Term) SliceV {
	c := w.ctx
	w.rtCheck(c.And(c.SGe(ln, w.k64(0)), c.SLe(ln, cp)), "makeslice: len out of range")
	var n int
	if u, ok := cp.ConstU(); ok {
		n = int(u)
	} else {
		if eb, ok := under(et).(*types.Basic); ok && eb.Kind() == types.Uint8 && w.prog.symbolicMake {
			buf := &SMTBuf{A: laOf(c.ConstArr(64, c.BVConst(0, 8))), N: cp}
			o := w.newObj(buf, nil, "make-smt-sym")
			return SliceV{Arr: PtrV{Obj: o}, Off: w.k64(0), Len: ln, Cap: cp}
		}
		n = int(w.concretizeAny(cp, w.prog.maxConcretize, "make([]T, n) capacity"))
	}
	if n > w.prog.maxAlloc {
		if eb, ok := under(et).(*types.Basic); ok && eb.Kind() == types.Uint8 {
			buf := &SMTBuf{A: laOf(c.ConstArr(64, c.BVConst(0, 8))), N: w.k64(n)}
			o := w.newObj(buf, types.NewArray(et, int64(n)), "make-smt")
			return SliceV{Arr: PtrV{Obj: o}, Off: w.k64(0), Len: ln, Cap: w.k64(n)}
		}
		if n > 1<<21 {
			w.unsupported("make of %d elements of %s (limit %d)", n, et, 1<<21)
		}
	}
	arr := &ArrayV{E: make([]Value, n), epoch: w.epoch}
	if n > 0 {
		z := w.zero(et)
		for i := range arr.E {
			arr.E[i] = z
		}
	}
	o := w.newObj(arr, types.NewArray(et, int64(n)), "make")
	return SliceV{Arr: PtrV{Obj: o}, Off: w.k64(0), Len: ln, Cap: w.k64(n)}
}

// ---- maps ----

// mapFind returns the index of the entry whose key equals k (forking on
// symbolic equalities) or -1.
func (w *Worker) mapFind(md *MapData, k Value) int {
	for i, e := range md.E {
		eq := w.equalValues(k, e.K)
		if eq.IsFalse() {
			continue
		}
		if eq.IsTrue() || w.branch(eq) {
			return i
		}
	}
	return -1
}

func (w *Worker) lookup(fr *frame, x *ssa.Lookup) Value {
	m := w.get(fr, x.X)
	k := w.get(fr, x.Index)
	if s, ok := m.(StringV); ok {
		idx := w.toIdx(k, x.Index.Type())
		w.rtCheck(w.ctx.ULt(idx, w.k64(len(s.B))), "index out of range")
		if u, ok := idx.ConstU(); ok {
			return s.B[u]
		}
		arr := &ArrayV{E: make([]Value, len(s.B))}
		for i, t := range s.B {
			arr.E[i] = t
		}
		return w.getSym(arr, idx, nil)
	}
	mv := m.(MapV)
	vt := x.X.Type().Underlying().(*types.Map).Elem()
	var val Value
	found := false
	if mv.Obj != nil {
		md := mv.Obj.val.(*MapData)
		if i := w.mapFind(md, k); i >= 0 {
			val = md.E[i].V
			found = true
		}
	}
	if !found {
		val = w.zero(vt)
	}
	if x.CommaOk {
		return TupleV{val, w.ctx.Bool(found)}
	}
	return val
}

func (w *Worker) mapUpdate(mv MapV, k, v Value) {
	if mv.Obj == nil {
		w.goPanic("assignment to entry in nil map")
	}
	md := mv.Obj.val.(*MapData)
	i := w.mapFind(md, k)
	nd := &MapData{E: make([]MapEntry, len(md.E), len(md.E)+1)}
	copy(nd.E, md.E)
	if i >= 0 {
		nd.E[i] = MapEntry{md.E[i].K, v}
	} else {
		nd.E = append(nd.E, MapEntry{k, v})
	}
	w.setObj(mv.Obj, nd)
}

func (w *Worker) mapDelete(mv MapV, k Value) {
	if mv.Obj == nil {
		return
	}
	md := mv.Obj.val.(*MapData)
	i := w.mapFind(md, k)
	if i < 0 {
		return
	}
	nd := &MapData{E: make([]MapEntry, 0, len(md.E))}
	nd.E = append(nd.E, md.E[:i]...)
	nd.E = append(nd.E, md.E[i+1:]...)
	w.setObj(mv.Obj, nd)
}

// ---- range ----

type iterV struct {
	str   StringV
	isStr bool
	m     MapV
	keys  []Value
	pos   int
}

func (w *Worker) rangeInit(fr *frame, x *ssa.Range) Value {
	v := w.get(fr, x.X)
	switch y := v.(type) {
	case StringV:
		if y.Opaque != 0 {
			w.unsupported("range over opaque string")
		}
		return &iterV{str: y, isStr: true}
	case MapV:
		it := &iterV{m: y}
		if y.Obj != nil {
			for _, e := range y.Obj.val.(*MapData).E {
				it.keys = append(it.keys, e.K)
			}
		}
		w.note("range over map visits entries in insertion order (one of the orders Go permits)")
		return it
	}
	w.unsupported("range over %T", v)
	return nil
}

func (w *Worker) rangeNext(fr *frame, x *ssa.Next) Value {
	it := w.get(fr, x.Iter).(*iterV)
	c := w.ctx
	if it.isStr {
		if it.pos >= len(it.str.B) {
			return TupleV{c.False, w.k64(0), c.BVConst(0, 32)}
		}
		b := it.str.B[it.pos]
		u, ok := b.ConstU()
		if !ok {
			// symbolic byte: treat as single-byte rune only if < 0x80
			w.rtCheckAssume(c.ULt(b, c.BVConst(0x80, 8)), "range over string with symbolic non-ASCII byte")
			i := it.pos
			it.pos++
			return TupleV{c.True, w.k64(i), c.ZExt(b, 32)}
		}
		if u < 0x80 {
			i := it.pos
			it.pos++
			return TupleV{c.True, w.k64(i), c.BVConst(u, 32)}
		}
		// decode concrete multi-byte rune
		s, ok2 := StringV{B: it.str.B[it.pos:]}.Concrete()
		if !ok2 {
			w.unsupported("range over string: symbolic continuation bytes")
		}
		for _, r := range s {
			i := it.pos
			it.pos += len(string(r))
			if r == 0xFFFD {
				it.pos = i + 1
			}
			return TupleV{c.True, w.k64(i), c.BVConst(uint64(r), 32)}
		}
	}
	// map
	for it.pos < len(it.keys) {
		k := it.keys[it.pos]
		it.pos++
		if it.m.Obj == nil {
			break
		}
		md := it.m.Obj.val.(*MapData)
		for _, e := range md.E {
			if sameKey(e.K, k) {
				return TupleV{c.True, k, e.V}
			}
		}
	}
	mt := x.Iter.(*ssa.Range).X.Type().Underlying().(*types.Map)
	return TupleV{c.False, w.zero(mt.Key()), w.zero(mt.Elem())}
}

// rtCheckAssume: the engine cannot follow the failing side; it is cut and noted.
func (w *Worker) rtCheckAssume(ok *Term, what string) {
	if ok.IsTrue() {
		return
	}
	if !w.branch(ok) {
		w.unsupported("%s", what)
	}
}

// sameKey: syntactic identity of map keys (same stored Value).
func sameKey(a, b Value) bool {
	switch x := a.(type) {
	case *Term:
		y, ok := b.(*Term)
		return ok && x == y
	case StringV:
		y, ok := b.(StringV)
		if !ok || len(x.B) != len(y.B) || x.Opaque != y.Opaque {
			return false
		}
		for i := range x.B {
			if x.B[i] != y.B[i] {
				return false
			}
		}
		return true
	case *ArrayV:
		y, ok := b.(*ArrayV)
		if !ok || len(x.E) != len(y.E) {
			return false
		}
		for i := range x.E {
			if !sameKey(x.E[i], y.E[i]) {
				return false
			}
		}
		return true
	case *StructV:
		y, ok := b.(*StructV)
		if !ok || len(x.F) != len(y.F) {
			return false
		}
		for i := range x.F {
			if !sameKey(x.F[i], y.F[i]) {
				return false
			}
		}
		return true
	case PtrV:
		y, ok := b.(PtrV)
		return ok && samePtr(x, y)
	case IfaceV:
		y, ok := b.(IfaceV)
		if !ok {
			return false
		}
		if x.T == nil || y.T == nil {
			return x.T == nil && y.T == nil
		}
		return types.Identical(x.T, y.T) && sameKey(x.V, y.V)
	case *ErrV:
		y, ok := b.(*ErrV)
		return ok && x == y
	case *OpaqueV:
		y, ok := b.(*OpaqueV)
		return ok && x == y
	}
	return false
}

// ---- type assertions ----

func (w *Worker) typeAssert(fr *frame, x *ssa.TypeAssert) Value {
	v := w.get(fr, x.X).(IfaceV)
	ok := false
	var res Value
	if v.T != nil {
		if it, isIface := under(x.AssertedType).(*types.Interface); isIface {
			if w.implements(v, it) {
				ok = true
				res = v
			}
		} else if types.Identical(v.T, x.AssertedType) {
			ok = true
			res = v.V
		}
	}
	if x.CommaOk {
		if !ok {
			res = w.zero(x.AssertedType)
		}
		return TupleV{res, w.ctx.Bool(ok)}
	}
	if !ok {
		tn := "nil"
		if v.T != nil {
			tn = v.T.String()
		}
		w.goPanic(fmt.Sprintf("interface conversion: interface is %s, not %s", tn, x.AssertedType))
	}
	return res
}

func (w *Worker) implements(v IfaceV, it *types.Interface) bool {
	if types.Identical(v.T, errType) {
		// engine errors implement error (and nothing else with more methods)
		for i := 0; i < it.NumMethods(); i++ {
			if it.Method(i).Name() != "Error" {
				return false
			}
		}
		return true
	}
	if types.Identical(v.T, nopType) {
		return true
	}
	if _, ok := v.V.(*OpaqueV); ok && types.Identical(v.T, opqType) {
		return true
	}
	return types.Implements(v.T, it)
}

// ---- builtins ----

func (w *Worker) builtin(fr *frame, b *ssa.Builtin, args []Value, cc *ssa.CallCommon) Value {
	c := w.ctx
	switch b.Name() {
	case "len":
		switch x := args[0].(type) {
		case SliceV:
			if x.IsNil() {
				return w.k64(0)
			}
			return x.Len
		case StringV:
			if x.Opaque != 0 {
				w.unsupported("len of opaque string")
			}
			return w.k64(len(x.B))
		case MapV:
			if x.Obj == nil {
				return w.k64(0)
			}
			return w.k64(len(x.Obj.val.(*MapData).E))
		case *ArrayV:
			return w.k64(len(x.E))
		case PtrV:
			n := cc.Args[0].Type().Underlying().(*types.Pointer).Elem().Underlying().(*types.Array).Len()
			return w.k64(int(n))
		case ChanV:
			if x.Obj == nil {
				return w.k64(0)
			}
			return w.k64(len(x.Obj.val.(*ChanData).Buf))
		}
	case "cap":
		switch x := args[0].(type) {
		case SliceV:
			if x.IsNil() {
				return w.k64(0)
			}
			return x.Cap
		case *ArrayV:
			return w.k64(len(x.E))
		case PtrV:
			n := cc.Args[0].Type().Underlying().(*types.Pointer).Elem().Underlying().(*types.Array).Len()
			return w.k64(int(n))
		case ChanV:
			if x.Obj == nil {
				return w.k64(0)
			}
			return w.k64(x.Obj.val.(*ChanData).Cap)
		}
	case "append":
		return w.appendOp(args[0].(SliceV), args[1], cc.Args[0].Type())
	case "copy":
		return w.copyOp(args[0].(SliceV), args[1])
	case "delete":
		w.mapDelete(args[0].(MapV), args[1])
		return nil
	case "close":
		w.chanClose(args[0].(ChanV))
		return nil
	case "panic":
		panic(targetPanic{args[0]})
	case "recover":
		// recover only works when called directly by a deferred function
		caller := fr.caller
		if caller != nil && caller.panicking {
			caller.panicking = false
			return caller.panicV.v
		}
		return IfaceV{}
	case "print", "println":
		return nil
	case "min", "max":
		x := args[0].(*Term)
		_, signed, _ := intInfo(cc.Args[0].Type())
		for _, a := range args[1:] {
			y := a.(*Term)
			var lt *Term
			if signed {
				lt = c.SLt(x, y)
			} else {
				lt = c.ULt(x, y)
			}
			if b.Name() == "min" {
				x = c.Ite(lt, x, y)
			} else {
				x = c.Ite(lt, y, x)
			}
		}
		return x
	case "ssa:wrapnilchk":
		if p, ok := args[0].(PtrV); ok && p.Obj == nil {
			w.goPanic("value method called using nil pointer")
		}
		return args[0]
	}
	w.unsupported("builtin %s on %T", b.Name(), args[0])
	return nil
}

// copyOp implements copy(dst, src) for slices with (possibly symbolic) lengths.
func (w *Worker) copyOp(dst SliceV, srcv Value) Value {
	c := w.ctx
	var src SliceV
	switch s := srcv.(type) {
	case SliceV:
		src = s
	case StringV:
		if s.Opaque != 0 {
			w.unsupported("copy from opaque string")
		}
		arr := &ArrayV{E: make([]Value, len(s.B))}
		for i, t := range s.B {
			arr.E[i] = t
		}
		o := w.newObj(arr, nil, "copy-src-string")
		src = SliceV{Arr: PtrV{Obj: o}, Off: w.k64(0), Len: w.k64(len(s.B)), Cap: w.k64(len(s.B))}
	}
	if dst.IsNil() || src.IsNil() {
		return w.k64(0)
	}
	n := c.Ite(c.ULt(dst.Len, src.Len), dst.Len, src.Len)
	w.copyN(dst, src, n)
	return n
}

// copyN copies n elements src[0:n] -> dst[0:n] with memmove semantics.
func (w *Worker) copyN(dst, src SliceV, n *Term) {
	c := w.ctx
	// SMT buffers: express as per-index ite on a fresh array
	if db, ok := w.getPath(dst.Arr.Obj.val, dst.Arr.Path).(*SMTBuf); ok {
		w.copyToSMT(dst, db, src, n)
		return
	}
	if sb, ok := w.getPath(src.Arr.Obj.val, src.Arr.Path).(*SMTBuf); ok {
		w.copyFromSMT(dst, src, sb, n)
		return
	}
	if nc, ok := n.ConstU(); ok {
		// read all first (memmove semantics)
		vals := make([]Value, nc)
		for i := range vals {
			vals[i] = w.sliceElem(src, w.k64(i))
		}
		// concrete destination range: one array update instead of nc
		if off, ok := dst.Off.ConstU(); ok && nc > 1 {
			if arr, ok := w.getPath(dst.Arr.Obj.val, dst.Arr.Path).(*ArrayV); ok && int(off)+int(nc) <= len(arr.E) {
				if arr.epoch != 0 && arr.epoch == w.epoch && w.noInPlace == 0 {
					copy(arr.E[off:], vals)
					return
				}
				na := &ArrayV{E: make([]Value, len(arr.E))}
				copy(na.E, arr.E)
				copy(na.E[off:], vals)
				w.setObj(dst.Arr.Obj, w.setPath(dst.Arr.Obj.val, dst.Arr.Path, na))
				na.epoch = w.epoch
				return
			}
		}
		for i := range vals {
			w.store(w.sliceElemPtr(dst, w.k64(i)), vals[i])
		}
		return
	}
	// symbolic count: bound by the concrete capacity of the smaller backing
	max := w.maxLen(dst)
	if m2 := w.maxLen(src); m2 < max {
		max = m2
	}
	if max > w.prog.maxSymIndex {
		// fall back to forking on n
		k := int(w.concretizeAny(n, w.prog.maxConcretize, "copy length"))
		w.copyN(dst, src, w.k64(k))
		return
	}
	vals := make([]Value, max)
	for i := 0; i < max; i++ {
		// guarded read: only meaningful when i < n
		vals[i] = w.guardedElem(src, i, n)
	}
	for i := 0; i < max; i++ {
		g := c.ULt(w.k64(i), n)
		if g.IsFalse() {
			break
		}
		p := w.guardedPtr(dst, i)
		if p == nil {
			break
		}
		old := w.load(*p)
		m, ok := w.mergeValue(g, vals[i], old)
		if !ok {
			k := int(w.concretizeAny(n, w.prog.maxConcretize, "copy length"))
			w.copyN(dst, src, w.k64(k))
			return
		}
		w.store(*p, m)
	}
}

// maxLen: concrete upper bound on the number of elements addressable via s.
func (w *Worker) maxLen(s SliceV) int {
	v := w.getPath(s.Arr.Obj.val, s.Arr.Path)
	total := 0
	switch a := v.(type) {
	case *ArrayV:
		total = len(a.E)
	case *SMTBuf:
		if u, ok := a.N.ConstU(); ok {
			total = int(u)
		} else {
			total = 1 << 30
		}
	}
	if u, ok := s.Off.ConstU(); ok {
		total -= int(u)
	}
	if u, ok := s.Len.ConstU(); ok && int(u) < total {
		total = int(u)
	}
	return total
}

func (w *Worker) guardedPtr(s SliceV, i int) *PtrV {
	idx := w.ctx.Add(s.Off, w.k64(i))
	v := w.getPath(s.Arr.Obj.val, s.Arr.Path)
	if a, ok := v.(*ArrayV); ok {
		if u, ok := idx.ConstU(); ok {
			if int(u) >= len(a.E) {
				return nil
			}
			p := s.Arr.extend(PE{I: int(u)})
			return &p
		}
	}
	p := s.Arr.extend(PE{Sym: idx})
	return &p
}

func (w *Worker) guardedElem(s SliceV, i int, n *Term) Value {
	p := w.guardedPtr(s, i)
	if p == nil {
		// out of the backing array: value is irrelevant (guard i<n is false there)
		v := w.getPath(s.Arr.Obj.val, s.Arr.Path)
		if a, ok := v.(*ArrayV); ok && len(a.E) > 0 {
			return a.E[0]
		}
		return nil
	}
	if p.Path[len(p.Path)-1].Sym != nil {
		// symbolic offset: clamp index into range to keep the ite chain total
		return w.load(*p)
	}
	return w.load(*p)
}

func (w *Worker) appendOp(s SliceV, more Value, st types.Type) Value {
	c := w.ctx
	et := st.Underlying().(*types.Slice).Elem()
	var src SliceV
	switch m := more.(type) {
	case SliceV:
		src = m
	case StringV:
		arr := &ArrayV{E: make([]Value, len(m.B))}
		for i, t := range m.B {
			arr.E[i] = t
		}
		o := w.newObj(arr, nil, "append-src-string")
		src = SliceV{Arr: PtrV{Obj: o}, Off: w.k64(0), Len: w.k64(len(m.B)), Cap: w.k64(len(m.B))}
	}
	if src.IsNil() {
		return s
	}
	var sl, sc *Term
	if s.IsNil() {
		sl, sc = w.k64(0), w.k64(0)
	} else {
		sl, sc = s.Len, s.Cap
	}
	nl := c.Add(sl, src.Len)
	if _, ok := src.Len.ConstU(); ok {
		if u, _ := src.Len.ConstU(); u == 0 {
			return s
		}
	}
	fits := c.ULe(nl, sc)
	if !s.IsNil() && w.branch(fits) {
		// in place
		dst := SliceV{Arr: s.Arr, Off: c.Add(s.Off, sl), Len: src.Len, Cap: c.Sub(sc, sl)}
		w.copyN(dst, src, src.Len)
		return SliceV{Arr: s.Arr, Off: s.Off, Len: nl, Cap: sc}
	}
	// grow: new backing array with concrete capacity = concrete new length
	n := int(w.concretizeAny(nl, w.prog.maxConcretize, "append result length"))
	ncap := n
	if !s.IsNil() {
		// amortised growth is unobservable except through cap(); use exact fit
		// plus the Go growth for small slices so later appends do not realloc each time
		if oc, ok := sc.ConstU(); ok && int(oc)*2 > ncap && oc < 256 {
			ncap = int(oc) * 2
		}
	}
	w.note("append: capacity after growth is modelled as max(newLen, 2*oldCap) (cap() of grown slices is unspecified in Go)")
	ns := w.makeSliceOf(et, w.k64(n), w.k64(ncap))
	if !s.IsNil() {
		w.copyN(SliceV{Arr: ns.Arr, Off: ns.Off, Len: sl, Cap: ns.Cap}, s, sl)
	}
	w.copyN(SliceV{Arr: ns.Arr, Off: c.Add(ns.Off, sl), Len: src.Len, Cap: ns.Cap}, src, src.Len)
	return ns
}

