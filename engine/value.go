package main

import (
	"fmt"
	"go/types"

	"golang.org/x/tools/go/ssa"
)

// Value is one of:
//   *Term (bool / integer), FloatV, *StructV, *ArrayV, TupleV, PtrV, SliceV,
//   StringV, IfaceV, *ClosureV, MapV, ChanV, *ErrV (only inside IfaceV),
//   *BigV ... , OpaqueV, nil (uninitialised).
// Aggregate values (*StructV, *ArrayV) are immutable: updates build new values.
type Value interface{}

type FloatV float64

type StructV struct{ F []Value }
type ArrayV struct {
	E []Value
	// epoch != 0: the array was created by a copy-on-write store in that heap
	// epoch and is referenced only from its owning object, so further stores in
	// the same epoch may update it in place (big concrete buffers).
	epoch int
}
type TupleV []Value

// Object: a heap cell (root of a value tree). All mutation goes through
// Exec.setObj so that it can be journaled and rolled back.
type Object struct {
	id   int
	val  Value
	typ  types.Type // type of val (element type tree root)
	name string     // debugging
	// for objects backed by an SMT array (large / symbolic-size byte buffers)
}

// PE: path element: field index or array index (possibly symbolic).
type PE struct {
	I   int
	Sym *Term // if non-nil, symbolic array index (BV64)
}

type PtrV struct {
	Obj  *Object
	Path []PE
}

func (p PtrV) IsNil() bool { return p.Obj == nil }

func (p PtrV) extend(e PE) PtrV {
	np := make([]PE, len(p.Path)+1)
	copy(np, p.Path)
	np[len(p.Path)] = e
	return PtrV{p.Obj, np}
}

// SliceV: view on an array location.
type SliceV struct {
	Arr PtrV // pointer to array location (ArrayV or *SMTBuf); nil obj => nil slice
	Off *Term
	Len *Term
	Cap *Term
}

func (s SliceV) IsNil() bool { return s.Arr.Obj == nil }

// StringV: immutable byte string with concrete length.
type StringV struct {
	B []*Term // BV8 each
	// opaque strings (results of formatting symbolic values) carry an id; their
	// bytes are not available.
	Opaque int
}

type IfaceV struct {
	T types.Type // dynamic type; nil => nil interface
	V Value
}

func (i IfaceV) IsNil() bool { return i.T == nil }

type ClosureV struct {
	Fn   *ssa.Function
	Env  []Value
	Intr string // intrinsic closure name (engine-made closures)
	Data Value
}

type MapV struct{ Obj *Object } // Obj.val is *MapData; nil Obj => nil map

type MapEntry struct {
	K Value
	V Value
}
type MapData struct {
	E []MapEntry
}

type ChanV struct{ Obj *Object } // Obj.val is *ChanData

type ChanData struct {
	Buf    []Value
	Cap    int
	Closed bool
	Timer  bool // timer channels fire only on zzverif.Fire
}

// ErrV: engine-made error value (errors.New / fmt.Errorf / opaque externals).
type ErrV struct {
	ID   int
	Msg  StringV
	Wrap *IfaceV // wrapped error or nil
	Name string  // for external sentinel errors (io.EOF ...)
}

// BigV: *big.Int is a pointer to an object whose value is BigData.
type BigData struct{ N *Term } // Int sort

// OpaqueV: value of an external type we do not model; carries an identity.
type OpaqueV struct {
	Kind string
	ID   int
	Data Value
}

// Named synthetic types for engine-made interface contents.
var (
	errTypeName = types.NewTypeName(0, nil, "gosym.error", nil)
	errType     = types.NewNamed(errTypeName, types.NewStruct(nil, nil), nil)
	nopTypeName = types.NewTypeName(0, nil, "gosym.nop", nil)
	nopType     = types.NewNamed(nopTypeName, types.NewStruct(nil, nil), nil)
)

func fmtValue(v Value) string {
	switch x := v.(type) {
	case nil:
		return "<nil>"
	case *Term:
		return x.String()
	case *StructV:
		s := "{"
		for i, f := range x.F {
			if i > 0 {
				s += ", "
			}
			s += fmtValue(f)
		}
		return s + "}"
	case *ArrayV:
		if len(x.E) > 16 {
			return fmt.Sprintf("[%d]…", len(x.E))
		}
		s := "["
		for i, f := range x.E {
			if i > 0 {
				s += ", "
			}
			s += fmtValue(f)
		}
		return s + "]"
	case PtrV:
		if x.Obj == nil {
			return "nilptr"
		}
		return fmt.Sprintf("&obj%d%v", x.Obj.id, x.Path)
	case SliceV:
		if x.IsNil() {
			return "nilslice"
		}
		return fmt.Sprintf("slice(obj%d off=%v len=%v cap=%v)", x.Arr.Obj.id, x.Off, x.Len, x.Cap)
	case StringV:
		if s, ok := x.Concrete(); ok {
			return fmt.Sprintf("%q", s)
		}
		return fmt.Sprintf("symstr(len=%d)", len(x.B))
	case IfaceV:
		if x.T == nil {
			return "nil-iface"
		}
		return fmt.Sprintf("iface(%s: %s)", x.T, fmtValue(x.V))
	case *ErrV:
		s, _ := x.Msg.Concrete()
		return fmt.Sprintf("error#%d(%q)", x.ID, s)
	}
	return fmt.Sprintf("%T", v)
}

func (s StringV) Concrete() (string, bool) {
	if s.Opaque != 0 {
		return fmt.Sprintf("<opaque#%d>", s.Opaque), false
	}
	b := make([]byte, len(s.B))
	for i, t := range s.B {
		u, ok := t.ConstU()
		if !ok {
			return "", false
		}
		b[i] = byte(u)
	}
	return string(b), true
}
