package main

// (*big.Int).Int64 / Uint64 without int2bv (added while strengthening C30).
//
// The engine holds a big.Int as an SMT Int x. intr_big.go models Int64() as
// ((_ int2bv 64) x), which z3 axiomatises through integer div/mod of x by
// powers of two; queries in which such a term meets bv2int-derived integers
// (big.NewInt(0), Cmp results ...) were not decided within the time limit.
//
// Here the low 64 bits are a FRESH bit-vector v tied to x by one linear
// equation over the Int sort:
//
//	x = k * 2^64 + bv2nat(v)        (k a fresh Int)
//
// Since 0 <= bv2nat(v) < 2^64, v = x mod 2^64 and k = floor(x / 2^64) are
// uniquely determined, which is exactly what Int64()/Uint64() return in Go
// (low 64 bits of |x|, negated for negative x, i.e. x mod 2^64 in two's
// complement). Only the bv2nat direction is used (a sum of bits for the
// solver). v and k are named after the term x, so equal integers get the
// same conversion. Registered from intr_big.go.

import (
	"fmt"
	"math/big"

	"golang.org/x/tools/go/ssa"
)

func c30sLow64(w *Worker, fr *frame, a []Value, fn *ssa.Function) Value {
	c := w.ctx
	x := w.bigGet(a[0])
	if x.IsConst() {
		return c.Int2Bv(x, 64) // constant folding
	}
	if x.op == OBv2Nat && x.args[0].sort == BV(64) {
		return x.args[0]
	}
	v := c.Var(fmt.Sprintf("aux:low64!%d", x.id), BV(64))
	k := c.Var(fmt.Sprintf("aux:hi64!%d", x.id), IntSort)
	two64 := c.IntConst(new(big.Int).Lsh(big.NewInt(1), 64))
	w.addPC(c.Eq(x, c.IAdd(c.IMul(k, two64), c.Bv2Nat(v))))
	return v
}
