package main

// Cryptographic hashes as uninterpreted functions of their input bytes
// (concrete input length on the path), with ground-instantiated injectivity
// (collision resistance is an ASSUMPTION of every check that uses them).

import (
	"fmt"
	"go/types"
	"sort"
	"strings"

	"golang.org/x/tools/go/ssa"
)

type HashData struct {
	Alg string
	Buf []*Term
}

type hashApp struct {
	in  []*Term
	out []*Term // 4 x BV64
}

// hashUF returns the 32 digest bytes of alg over in.
func (w *Worker) hashUF(alg string, in []*Term) []*Term {
	c := w.ctx
	n := len(in)
	words := make([]*Term, 4)
	for i := range words {
		name := fmt.Sprintf("hash:%s/%d/%d", alg, n, i)
		if n == 0 {
			words[i] = c.Var(name, BV(64))
		} else {
			words[i] = c.App(name, BV(64), in...)
		}
	}
	key := fmt.Sprintf("%s/%d", alg, n)
	if w.hashApps == nil {
		w.hashApps = map[string][]hashApp{}
	}
	// injectivity against earlier applications on this path
	for _, prev := range w.hashApps[key] {
		if w.prog.hashNoInj {
			// only congruence (built into the UF); sound for proving equalities of digests
			break
		}
		same := true
		var eqIn []*Term
		for i := range in {
			if prev.in[i] != in[i] {
				same = false
			}
			eqIn = append(eqIn, c.Eq(prev.in[i], in[i]))
		}
		if same {
			continue
		}
		var eqOut []*Term
		for i := range words {
			eqOut = append(eqOut, c.Eq(prev.out[i], words[i]))
		}
		w.addPC(c.Implies(c.And(eqOut...), c.And(eqIn...)))
	}
	if !w.prog.hashNoInj {
		// digests of inputs of different lengths differ as well
		var keys []string
		for k2 := range w.hashApps {
			if k2 != key && strings.HasPrefix(k2, alg+"/") {
				keys = append(keys, k2)
			}
		}
		sort.Strings(keys)
		for _, k2 := range keys {
			for _, prev := range w.hashApps[k2] {
				var eqOut []*Term
				for i := range words {
					eqOut = append(eqOut, c.Eq(prev.out[i], words[i]))
				}
				w.addPC(c.Not(c.And(eqOut...)))
			}
		}
	}
	if len(w.hashApps[key]) < 64 {
		w.hashApps[key] = append(w.hashApps[key], hashApp{in: in, out: words})
	}
	w.note("hash " + alg + " is an uninterpreted function of its input bytes; collision resistance is assumed (injectivity instantiated between the applications on a path)")
	out := make([]*Term, 32)
	for i := 0; i < 32; i++ {
		wd := words[i/8]
		sh := 8 * (7 - i%8)
		out[i] = c.Extract(wd, sh+7, sh)
	}
	return out
}

func (w *Worker) bytesOf(s SliceV, what string) []*Term {
	n := w.sliceLenConcrete(s, what)
	out := make([]*Term, n)
	for i := 0; i < n; i++ {
		out[i] = w.sliceElem(s, w.k64(i)).(*Term)
	}
	return out
}

func (w *Worker) newByteSlice(b []*Term) SliceV {
	arr := &ArrayV{E: make([]Value, len(b))}
	for i, t := range b {
		arr.E[i] = t
	}
	o := w.newObj(arr, types.NewArray(types.Typ[types.Uint8], int64(len(b))), "bytes")
	n := w.k64(len(b))
	return SliceV{Arr: PtrV{Obj: o}, Off: w.k64(0), Len: n, Cap: n}
}

func (w *Worker) newHash(alg string) Value {
	o := w.newObj(&HashData{Alg: alg}, nil, "hash."+alg)
	return IfaceV{T: opqType, V: &OpaqueV{Kind: "hash", ID: w.newID(), Data: PtrV{Obj: o}}}
}

func init() {
	reg("golang.org/x/crypto/sha3.NewLegacyKeccak256", func(w *Worker, fr *frame, a []Value, fn *ssa.Function) Value {
		return w.newHash("keccak256")
	})
	reg("crypto/sha256.New", func(w *Worker, fr *frame, a []Value, fn *ssa.Function) Value {
		return w.newHash("sha256")
	})
	regIfAbsent("crypto/sha256.Sum256", func(w *Worker, fr *frame, a []Value, fn *ssa.Function) Value {
		d := w.hashUF("sha256", w.bytesOf(a[0].(SliceV), "sha256 input"))
		arr := &ArrayV{E: make([]Value, 32)}
		for i := range d {
			arr.E[i] = d[i]
		}
		return arr
	})
	hd := func(w *Worker, op *OpaqueV) (*Object, *HashData) {
		o := op.Data.(PtrV).Obj
		return o, o.val.(*HashData)
	}
	opaqueMethods["hash.Write"] = func(w *Worker, fr *frame, op *OpaqueV, args []Value, m *types.Func) Value {
		o, h := hd(w, op)
		s := args[0].(SliceV)
		var b []*Term
		if !s.IsNil() {
			b = w.bytesOf(s, "hash.Write input")
		}
		nb := append(append([]*Term{}, h.Buf...), b...)
		w.setObj(o, &HashData{Alg: h.Alg, Buf: nb})
		return TupleV{w.k64(len(b)), IfaceV{}}
	}
	opaqueMethods["hash.Sum"] = func(w *Worker, fr *frame, op *OpaqueV, args []Value, m *types.Func) Value {
		_, h := hd(w, op)
		d := w.hashUF(h.Alg, h.Buf)
		pre := args[0].(SliceV)
		var b []*Term
		if !pre.IsNil() {
			b = w.bytesOf(pre, "hash.Sum prefix")
		}
		return w.newByteSlice(append(b, d...))
	}
	opaqueMethods["hash.Reset"] = func(w *Worker, fr *frame, op *OpaqueV, args []Value, m *types.Func) Value {
		o, h := hd(w, op)
		w.setObj(o, &HashData{Alg: h.Alg})
		return nil
	}
	opaqueMethods["hash.Size"] = func(w *Worker, fr *frame, op *OpaqueV, args []Value, m *types.Func) Value { return w.k64(32) }
	opaqueMethods["hash.BlockSize"] = func(w *Worker, fr *frame, op *OpaqueV, args []Value, m *types.Func) Value {
		_, h := hd(w, op)
		if h.Alg == "sha256" {
			return w.k64(64)
		}
		return w.k64(136)
	}
}
