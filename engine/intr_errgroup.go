package main

// golang.org/x/sync/errgroup: Go runs the function to completion at the call
// (one legal schedule), Wait returns the first error.

import (
	"go/types"

	"golang.org/x/tools/go/ssa"
)

func init() {
	G := "(*golang.org/x/sync/errgroup.Group)."
	reg(G+"Go", func(w *Worker, fr *frame, a []Value, fn *ssa.Function) Value {
		k := w.syncKey(a[0].(PtrV)) + "/errgroup"
		r := w.callValue(fr, a[1], nil, nil)
		if e, ok := r.(IfaceV); ok && e.T != nil {
			if _, have := w.errgroupErr[k]; !have || w.syncGet(k) == 0 {
				if w.errgroupErr == nil {
					w.errgroupErr = map[string]IfaceV{}
				}
				w.errgroupErr[k] = e
				w.syncSet(k, 1)
			}
		}
		w.note("errgroup.Group.Go runs its function to completion at the call (one legal schedule)")
		return nil
	})
	reg(G+"Wait", func(w *Worker, fr *frame, a []Value, fn *ssa.Function) Value {
		k := w.syncKey(a[0].(PtrV)) + "/errgroup"
		if w.syncGet(k) != 0 {
			return w.errgroupErr[k]
		}
		return IfaceV{}
	})
	reg("golang.org/x/sync/errgroup.WithContext", func(w *Worker, fr *frame, a []Value, fn *ssa.Function) Value {
		gt := fn.Signature.Results().At(0).Type().(*types.Pointer).Elem()
		o := w.newObj(w.zero(gt), gt, "errgroup")
		return TupleV{PtrV{Obj: o}, a[0]}
	})
}
