package main

import (
	"go/types"
	"time"

	"golang.org/x/tools/go/ssa"
)

// FloatOpaque: a float whose value the engine does not track (result of a
// float conversion of a symbolic integer). It can be stored and copied only.
type FloatOpaque struct{ ID int }

func (w *Worker) opaqueStrWith(payload Value) StringV {
	id := w.newID()
	if w.opaqueStr == nil {
		w.opaqueStr = map[int]Value{}
	}
	w.opaqueStr[id] = payload
	return StringV{Opaque: id}
}

func init() {
	reg("(time.Duration).String", func(w *Worker, fr *frame, a []Value, fn *ssa.Function) Value {
		d := a[0].(*Term)
		if s, ok := d.ConstS(); ok {
			return strV(w.ctx, time.Duration(s).String())
		}
		w.note("time.Duration.String / time.ParseDuration are modelled as an exact round trip through an opaque string")
		return w.opaqueStrWith(d)
	})
	reg("time.ParseDuration", func(w *Worker, fr *frame, a []Value, fn *ssa.Function) Value {
		s := a[0].(StringV)
		if s.Opaque != 0 {
			if p, ok := w.opaqueStr[s.Opaque]; ok {
				if t, ok := p.(*Term); ok && t.sort == BV(64) {
					return TupleV{t, IfaceV{}}
				}
			}
			return TupleV{w.k64(0), w.newErr(strV(w.ctx, "time: invalid duration"), nil)}
		}
		cs, ok := s.Concrete()
		if !ok {
			w.unsupported("time.ParseDuration of a string with symbolic bytes")
		}
		d, err := time.ParseDuration(cs)
		if err != nil {
			return TupleV{w.k64(0), w.newErr(strV(w.ctx, err.Error()), nil)}
		}
		return TupleV{w.ctx.BVConst(uint64(d), 64), IfaceV{}}
	})
	reg("(time.Duration).Seconds", func(w *Worker, fr *frame, a []Value, fn *ssa.Function) Value {
		if s, ok := a[0].(*Term).ConstS(); ok {
			return FloatV(time.Duration(s).Seconds())
		}
		return &FloatOpaque{ID: w.newID()}
	})
	reg("time.Unix", func(w *Worker, fr *frame, a []Value, fn *ssa.Function) Value {
		sec, nsec := a[0].(*Term), a[1].(*Term)
		s, ok := sec.ConstS()
		if !ok {
			w.unsupported("time.Unix with symbolic seconds")
		}
		ns := w.ctx.Add(w.ctx.BVConst(uint64(s*1_000_000_000), 64), nsec)
		return w.timeVal(ns, fn.Signature.Results().At(0).Type())
	})
	reg("(time.Time).Format", func(w *Worker, fr *frame, a []Value, fn *ssa.Function) Value {
		return StringV{Opaque: w.newID()}
	})
	reg("(time.Time).String", func(w *Worker, fr *frame, a []Value, fn *ssa.Function) Value {
		return StringV{Opaque: w.newID()}
	})
	// (time.Time).Unix: exact quotient/remainder model in intr_C35s.go

	reg("encoding/hex.DecodeString", func(w *Worker, fr *frame, a []Value, fn *ssa.Function) Value {
		s := a[0].(StringV)
		if s.Opaque != 0 {
			w.unsupported("hex.DecodeString of opaque string")
		}
		c := w.ctx
		bt := types.Typ[types.Uint8]
		fail := func(msg string) Value {
			return TupleV{SliceV{}, w.newErr(strV(c, msg), nil)}
		}
		k8 := func(v int) *Term { return c.BVConst(uint64(v), 8) }
		var valid []*Term
		nib := make([]*Term, len(s.B))
		for i, ch := range s.B {
			isD := c.And(c.UGe(ch, k8('0')), c.ULe(ch, k8('9')))
			isL := c.And(c.UGe(ch, k8('a')), c.ULe(ch, k8('f')))
			isU := c.And(c.UGe(ch, k8('A')), c.ULe(ch, k8('F')))
			valid = append(valid, c.Or(isD, isL, isU))
			nib[i] = c.Ite(isD, c.Sub(ch, k8('0')), c.Ite(isL, c.Sub(ch, k8('a'-10)), c.Sub(ch, k8('A'-10))))
		}
		if !w.branch(c.And(valid...)) {
			return fail("encoding/hex: invalid byte")
		}
		if len(s.B)%2 == 1 {
			return fail("encoding/hex: odd length hex string")
		}
		n := len(s.B) / 2
		arr := &ArrayV{E: make([]Value, n)}
		for i := 0; i < n; i++ {
			arr.E[i] = c.BOr(c.Shl(nib[2*i], k8(4)), nib[2*i+1])
		}
		o := w.newObj(arr, types.NewArray(bt, int64(n)), "hex.DecodeString")
		return TupleV{SliceV{Arr: PtrV{Obj: o}, Off: w.k64(0), Len: w.k64(n), Cap: w.k64(n)}, IfaceV{}}
	})
}
