package main

// Path exploration: workers, decision-prefix queue, assertions, violations.

import (
	"fmt"
	"math/big"
	"os"
	"runtime/debug"
	"sort"
	"strings"
	"sync"
	"time"

	"golang.org/x/tools/go/ssa"
)

type HarnessCfg struct {
	Tier       string
	Unwind     int
	MaxSteps   int64
	TimeoutMs  int
	MaxPaths   int
	Known      []KnownFinding // for this property
	PropertyID string
}

type Violation struct {
	Harness  string
	Label    string
	Kind     string // assert | panic | deadlock
	Model    map[string]string
	UFs      map[string][]ufEntry
	Regions  []string // known-finding regions this witness lies in ("" => new)
	Known    *KnownFinding
	Detail   string
	PathLen  int
	Replayed string // "", "reproduced", "not-reproduced: ..."
	File     string
}

type ufEntry struct {
	Key string `json:"key"`
	Val string `json:"val"`
}

type HarnessResult struct {
	Name        string
	Paths       int
	Pruned      int
	Instrs      int64
	Queries     int
	QSat        int
	QUnsat      int
	QUnknown    int
	SolverTime  time.Duration
	Wall        time.Duration
	Violations  []*Violation
	Reached     map[string]bool
	Inconcl     []string // reasons (unwind, unsupported, unknown ...)
	Funcs       map[string]int64
	Intrinsics  map[string]int
	Stubs       map[string]int
	Notes       []string
	Asserts     map[string]int // label -> number of queries discharged unsat
	SamplePaths []string
	CrossChecked int
	CrossDisagree []string
	FinalQueries []string // scripts for cross-check (thorough)
	Witnesses    []*Witness
}

type Witness struct {
	Harness  string
	Model    map[string]string
	UFs      map[string][]ufEntry
	Observed []string
	File     string
	Result   string
}

type obsRec struct {
	label string
	v     IfaceV
}

type shared struct {
	witnessLimit int
	mu       sync.Mutex
	queue    [][]int
	inflight int
	cond     *sync.Cond
	res      *HarnessResult
	violated map[string]bool // label -> new violation already recorded
	knownHit map[string]bool
	stop     bool
	paths    int
}

func newWorker(id int, prog *Program, cfg *HarnessCfg) *Worker {
	ctx := NewCtx()
	w := &Worker{id: id, prog: prog, ctx: ctx, cfg: cfg,
		globals: map[*ssa.Global]*Object{}, finfos: map[*ssa.Function]*funcInfo{},
		funcsTouched: map[string]int64{}, intrUsed: map[string]int{}, stubsUsed: map[string]int{},
		syncTab: map[string]int{}, pdoms: map[*ssa.Function]*pdomInfo{}, mergeFails: map[ssa.Instruction]int{}, feasCache: map[[3]uint64]bool{}, names: map[string]int{}, reached: map[string]bool{}, regions: map[string]*Term{}}
	w.solver = NewSolver(ctx, cfg.TimeoutMs)
	if f := os.Getenv("GOSYM_SMTLOG"); f != "" {
		lf, _ := os.Create(fmt.Sprintf("%s.%d", f, id))
		w.solver.log = lf
	}
	w.maxSteps = cfg.MaxSteps
	w.unwind = cfg.Unwind
	return w
}

// runInit executes the package initialisers of root packages (tolerantly).
func (w *Worker) runInit() []string {
	var warnings []string
	// order: dependencies first (packages.Load order is not topological; use import graph)
	var order []*ssa.Package
	seen := map[*ssa.Package]bool{}
	var visit func(p *ssa.Package)
	visit = func(p *ssa.Package) {
		if seen[p] {
			return
		}
		seen[p] = true
		var imps []string
		for _, ip := range p.Pkg.Imports() {
			imps = append(imps, ip.Path())
		}
		sort.Strings(imps)
		for _, ip := range imps {
			if sp := w.prog.prog.ImportedPackage(ip); sp != nil && w.prog.roots[sp] {
				visit(sp)
			}
		}
		order = append(order, p)
	}
	var roots []*ssa.Package
	for p := range w.prog.roots {
		roots = append(roots, p)
	}
	sort.Slice(roots, func(i, j int) bool { return roots[i].Pkg.Path() < roots[j].Pkg.Path() })
	for _, p := range roots {
		visit(p)
	}
	w.names = map[string]int{}
	q := [][]int{}
	w.dc = &dctx{queue: &q}
	w.unwind = 1 << 30
	w.steps = 0
	w.maxSteps = 50_000_000
	for _, p := range order {
		initFn := p.Func("init")
		if initFn == nil || initFn.Blocks == nil {
			continue
		}
		func() {
			defer func() {
				if r := recover(); r != nil {
					switch x := r.(type) {
					case pathAbort:
						warnings = append(warnings, fmt.Sprintf("init of %s stopped early: %s", p.Pkg.Path(), firstLine(x.msg)))
					case targetPanic:
						warnings = append(warnings, fmt.Sprintf("init of %s panicked: %s", p.Pkg.Path(), w.panicString(x)))
					default:
						panic(r)
					}
					w.cur = nil
					w.depth = 0
				}
			}()
			w.initMode = true
			w.runFn(nil, initFn, nil, nil)
		}()
		w.initMode = false
	}
	w.dc = nil
	w.truncPC(0)
	w.journal = w.journal[:0] // init state is the baseline
	w.maxSteps = w.cfg.MaxSteps
	w.unwind = w.cfg.Unwind
	return warnings
}

func firstLine(s string) string {
	if i := strings.Index(s, "\n"); i >= 0 {
		return s[:i]
	}
	return s
}

// runPath executes one path of harness h under decision prefix.
func (w *Worker) runPath(h *ssa.Function, prefix []int, sh *shared) {
	mark := w.newMark()
	w.truncPC(0)
	w.inputs = w.inputs[:0]
	w.names = map[string]int{}
	w.reached = map[string]bool{}
	w.regions = map[string]*Term{}
	w.steps = 0
	w.unwind = w.cfg.Unwind
	w.mayPanic = 0
	w.depth = 0
	w.cur = nil
	w.clockLast = nil
	w.observes = w.observes[:0]
	w.smtReads = nil
	w.hashApps = nil
	// the merge blacklist is per path: re-executions of a prefix must see the
	// same sequence of merge attempts as the original execution
	w.mergeFails = map[ssa.Instruction]int{}
	w.gor = nil
	var newq [][]int
	w.dc = &dctx{prefix: prefix, queue: &newq}
	w.sh = sh
	w.harness = h
	w.solver.Push()
	status := "done"
	func() {
		defer func() {
			if r := recover(); r != nil {
				switch x := r.(type) {
				case pathAbort:
					switch x.kind {
					case abInfeasible:
						status = "pruned"
					case abDone:
						status = "done"
					default:
						status = "inconclusive"
						sh.addInconcl(fmt.Sprintf("%s: %s", [...]string{"infeasible", "UNSUPPORTED", "UNWIND", "ERROR", "killed", "done"}[x.kind], x.msg))
						if x.kind == abError && strings.Contains(x.msg, "PANIC-IN-GOROUTINE") {
							status = "panic"
						}
					}
				case targetPanic:
					status = "panic"
					w.reportPanic(x)
				default:
					status = "inconclusive"
					sh.addInconcl(fmt.Sprintf("ENGINE-BUG: %v\n%s\n%s", r, w.where(), debug.Stack()))
				}
			}
		}()
		w.runFn(nil, h, nil, nil)
	}()
	if status == "done" {
		w.maybeWitness(h, sh)
	}
	w.killGoroutines()
	w.solver.Pop()
	w.rollback(mark)
	w.Paths++
	sh.mu.Lock()
	if status == "pruned" {
		sh.res.Pruned++
	} else {
		sh.res.Paths++
	}
	for k := range w.reached {
		sh.res.Reached[k] = true
	}
	if len(sh.res.SamplePaths) < 5 && status != "pruned" {
		sh.res.SamplePaths = append(sh.res.SamplePaths, fmt.Sprintf("%s decisions=%v inputs=%d pc=%d steps=%d status=%s", h.Name(), decodeDecisions(w.dc.taken), len(w.inputs), len(w.pc), w.steps, status))
	}
	sh.queue = append(sh.queue, newq...)
	sh.mu.Unlock()
}

func (sh *shared) addInconcl(s string) {
	sh.mu.Lock()
	defer sh.mu.Unlock()
	if len(sh.res.Inconcl) < 20 {
		for _, x := range sh.res.Inconcl {
			if x == s {
				return
			}
		}
		sh.res.Inconcl = append(sh.res.Inconcl, s)
	}
}

func (w *Worker) reportPanic(tp targetPanic) {
	msg := w.panicString(tp)
	label := "no-panic"
	// the panic is feasible (we are on a feasible path): record a violation with a model of pc
	w.recordViolation(label, "panic", "uncaught panic: "+msg+w.panicWhere, nil)
}

// assert checks pc ⇒ c.
func (w *Worker) assert(c *Term, label string) {
	sh := w.sh
	if c.IsTrue() {
		sh.mu.Lock()
		sh.res.Asserts[label]++
		sh.mu.Unlock()
		return
	}
	nc := w.ctx.Not(c)
	w.checkViolation(nc, label, "assert", "assertion "+label+" can fail")
	// continue under the assumption that it held
	if !w.feasible(c) {
		panic(pathAbort{abInfeasible, "assert always fails on this path"})
	}
	w.addPC(c)
}

func (w *Worker) recordViolation(label, kind, detail string, extra *Term) {
	if extra == nil {
		extra = w.ctx.True
	}
	w.checkViolation(extra, label, kind, detail)
}

// checkViolation: is pc ∧ bad satisfiable? Applies the known-finding regions.
func (w *Worker) checkViolation(bad *Term, label, kind, detail string) {
	sh := w.sh
	c := w.ctx
	sh.mu.Lock()
	already := sh.violated[label]
	sh.mu.Unlock()
	// regions listed as known findings for this (harness,label)
	var listed []*Term
	var listedK []*KnownFinding
	for i := range w.cfg.Known {
		k := &w.cfg.Known[i]
		if k.Harness != w.harness.Name() || k.Label != label || k.Status != "open" {
			continue
		}
		if r, ok := w.regions[k.Region]; ok {
			listed = append(listed, r)
			listedK = append(listedK, k)
		}
	}
	outside := bad
	if len(listed) > 0 {
		outside = c.And(bad, c.Not(c.Or(listed...)))
	}
	if !already {
		w.solver.Push()
		w.solver.Assert(outside)
		r := w.solver.CheckHard()
		if w.cfg.Tier == "thorough" && r != Sat {
			w.saveFinalQuery(outside)
		}
		switch r {
		case Sat:
			v := w.extractViolation(label, kind, detail)
			w.solver.Pop()
			sh.mu.Lock()
			if !sh.violated[label] {
				sh.violated[label] = true
				sh.res.Violations = append(sh.res.Violations, v)
			}
			sh.mu.Unlock()
		case Unknown:
			w.solver.Pop()
			if d := os.Getenv("GOSYM_DUMPHARD"); d != "" {
				os.MkdirAll(d, 0o755)
				as := append(append([]*Term{}, w.pc...), outside)
				os.WriteFile(fmt.Sprintf("%s/hard-%d-%d.smt2", d, w.id, w.solver.Queries), []byte(w.ctx.Script(as)), 0o644)
			}
			w.prog.sawUnknown = true
			sh.addInconcl("UNKNOWN: solver could not decide assertion " + label)
		default:
			w.solver.Pop()
			sh.mu.Lock()
			sh.res.Asserts[label]++
			sh.mu.Unlock()
		}
	}
	// known-finding witnesses (one per region)
	for i, reg := range listed {
		key := label + "|" + listedK[i].Region
		sh.mu.Lock()
		hit := sh.knownHit[key]
		sh.mu.Unlock()
		if hit {
			continue
		}
		w.solver.Push()
		w.solver.Assert(c.And(bad, reg))
		if w.solver.CheckHard() == Sat {
			v := w.extractViolation(label, kind, detail)
			v.Known = listedK[i]
			sh.mu.Lock()
			if !sh.knownHit[key] {
				sh.knownHit[key] = true
				sh.res.Violations = append(sh.res.Violations, v)
			}
			sh.mu.Unlock()
		}
		w.solver.Pop()
	}
}

func (w *Worker) saveFinalQuery(bad *Term) {
	sh := w.sh
	sh.mu.Lock()
	n := len(sh.res.FinalQueries)
	sh.mu.Unlock()
	if n >= 400 {
		return
	}
	as := append(append([]*Term{}, w.pc...), bad)
	s := w.ctx.Script(as)
	sh.mu.Lock()
	sh.res.FinalQueries = append(sh.res.FinalQueries, s)
	sh.mu.Unlock()
}

// extractViolation reads the model of the current (sat) solver state.
func (w *Worker) extractViolation(label, kind, detail string) *Violation {
	v := &Violation{Harness: w.harness.Name(), Label: label, Kind: kind, Detail: detail,
		Model: map[string]string{}, UFs: map[string][]ufEntry{}, PathLen: len(w.pc)}
	var terms []*Term
	for _, in := range w.inputs {
		terms = append(terms, in.Terms...)
		if in.Len != nil {
			terms = append(terms, in.Len)
		}
		terms = append(terms, in.Key...)
	}
	// big (SMT-array) inputs: length plus the bytes actually read on this path
	type bigIn struct {
		name string
		ln   *Term
		idx  []*Term
		val  []*Term
	}
	var bigs []bigIn
	var bterms []*Term
	for _, in := range w.inputs {
		if in.Kind != "bigbytes" {
			continue
		}
		b := bigIn{name: in.Name, ln: in.Len}
		for _, ix := range w.smtReads[in.Terms[0].name] {
			b.idx = append(b.idx, ix)
			b.val = append(b.val, w.ctx.Select(in.Terms[0], ix))
		}
		bigs = append(bigs, b)
		bterms = append(bterms, b.ln)
		bterms = append(bterms, b.idx...)
		bterms = append(bterms, b.val...)
	}
	if len(bigs) > 0 {
		bv := w.solver.GetValues(bterms)
		p := 0
		for _, b := range bigs {
			n := int(bv[p].U)
			p++
			if n > 1<<21 {
				n = 1 << 21
			}
			buf := make([]byte, n)
			for i := range b.idx {
				at := bv[p+i].U
				if at < uint64(n) {
					buf[at] = byte(bv[p+len(b.idx)+i].U)
				}
			}
			p += 2 * len(b.idx)
			v.Model[b.name] = fmt.Sprintf("%x", buf)
		}
	}
	var sterms []*Term
	for _, in := range w.inputs {
		if in.Kind == "bigbytes" {
			continue
		}
		sterms = append(sterms, in.Terms...)
		if in.Len != nil {
			sterms = append(sterms, in.Len)
		}
		sterms = append(sterms, in.Key...)
	}
	terms = sterms
	vals := w.solver.GetValues(terms)
	k := 0
	for _, in := range w.inputs {
		switch in.Kind {
		case "bigbytes":
		case "bool":
			if vals[k].B {
				v.Model[in.Name] = "1"
			} else {
				v.Model[in.Name] = "0"
			}
			k++
		case "num":
			v.Model[in.Name] = fmt.Sprintf("%d", vals[k].U)
			k++
		case "big":
			if vals[k].I != nil {
				v.Model[in.Name] = vals[k].I.String()
			} else {
				v.Model[in.Name] = "0"
			}
			k++
		case "bytes":
			bs := make([]byte, len(in.Terms))
			for i := range in.Terms {
				bs[i] = byte(vals[k].U)
				k++
			}
			n := len(bs)
			if in.Len != nil {
				n = int(vals[k].U)
				k++
				if n > len(bs) {
					n = len(bs)
				}
			}
			v.Model[in.Name] = fmt.Sprintf("%x", bs[:n])
		case "uf":
			res := vals[k]
			k++
			key := make([]byte, len(in.Key))
			for i := range in.Key {
				key[i] = byte(vals[k].U)
				k++
			}
			val := "0"
			if res.IsBool {
				if res.B {
					val = "1"
				}
			} else {
				val = fmt.Sprintf("%d", res.U)
			}
			v.UFs[in.Name] = append(v.UFs[in.Name], ufEntry{Key: fmt.Sprintf("%x", key), Val: val})
		}
	}
	_ = big.NewInt
	return v
}

// ---- merged calls (function summaries) ----

type outcome struct {
	cond   *Term
	res    Value
	pan    *targetPanic
	writes []jent // final values of touched objects (obj,new) – stored as old=final
	syncW  map[string]int
}

func (w *Worker) callMerged(caller *frame, fn *ssa.Function, args []Value, env []Value) Value {
	c := w.ctx
	saved := w.dc
	savedCur, savedDepth := w.cur, w.depth
	var outs []outcome
	queue := [][]int{{}}
	baseInputs := len(w.inputs)
	w.mergeDepth++
	defer func() { w.mergeDepth-- }()
	for len(queue) > 0 {
		pre := queue[0]
		queue = queue[1:]
		var newq [][]int
		w.dc = &dctx{prefix: pre, queue: &newq}
		mark := w.newMark()
		pcMark := len(w.pc)
		w.solver.Push()
		var o outcome
		aborted := false
		func() {
			defer func() {
				if r := recover(); r != nil {
					switch x := r.(type) {
					case targetPanic:
						o.pan = &x
					case pathAbort:
						if x.kind == abInfeasible {
							aborted = true
							return
						}
						if w.prog.lazyRegions && x.kind != abKilled && w.solver.Check() == Unsat {
							// the sub-path was only explored lazily and is infeasible
							aborted = true
							return
						}
						// restore and propagate
						w.solver.Pop()
						w.dc = saved
						panic(r)
					default:
						panic(r)
					}
				}
			}()
			o.res = w.runFn(caller, fn, args, env)
		}()
		w.cur, w.depth = savedCur, savedDepth
		o.cond = c.And(w.pc[pcMark:]...)
		// collect final values of objects touched since mark
		seen := map[*Object]bool{}
		o.syncW = map[string]int{}
		for i := len(w.journal) - 1; i >= mark; i-- {
			j := w.journal[i]
			if j.isSync {
				if _, ok := o.syncW[j.key]; !ok {
					o.syncW[j.key] = w.syncTab[j.key]
				}
				continue
			}
			if !seen[j.obj] {
				seen[j.obj] = true
				o.writes = append(o.writes, jent{obj: j.obj, old: j.obj.val})
			}
		}
		w.rollback(mark)
		w.truncPC(pcMark)
		w.solver.Pop()
		if len(w.inputs) != baseInputs {
			w.dc = saved
			w.unsupported("zzverif inputs are drawn inside the merged function %s (draw them outside, or do not merge it)", fn)
		}
		queue = append(queue, newq...)
		if !aborted {
			outs = append(outs, o)
		}
		if len(outs) > 4096 {
			w.dc = saved
			w.unsupported("merged call %s has more than 4096 paths", fn)
		}
	}
	w.dc = saved
	if len(outs) == 0 {
		panic(pathAbort{abInfeasible, "no feasible path through merged call"})
	}
	// try to merge all normal outcomes into one
	var normal, pans []outcome
	for _, o := range outs {
		if o.pan != nil {
			pans = append(pans, o)
		} else {
			normal = append(normal, o)
		}
	}
	groups := []outcome{}
	if len(normal) > 0 {
		if m, ok := w.mergeOutcomes(normal); ok {
			groups = append(groups, m)
		} else {
			// not all outcomes have the same shape: merge greedily into
			// classes of mutually mergeable outcomes (deterministic order)
			var classes [][]outcome
			for _, o := range normal {
				placed := false
				for i := range classes {
					cand := append(append([]outcome{}, classes[i]...), o)
					if _, ok := w.mergeOutcomes(cand); ok {
						classes[i] = cand
						placed = true
						break
					}
				}
				if !placed {
					classes = append(classes, []outcome{o})
				}
			}
			for _, cl := range classes {
				m, _ := w.mergeOutcomes(cl)
				groups = append(groups, m)
			}
		}
	}
	groups = append(groups, pans...)
	pick := 0
	if len(groups) > 1 {
		conds := make([]*Term, len(groups))
		for i, g := range groups {
			conds[i] = g.cond
		}
		pick = w.choose(conds)
	} else {
		w.addPC(groups[0].cond)
	}
	g := groups[pick]
	for _, wr := range g.writes {
		w.setObj(wr.obj, wr.old)
	}
	for k, v := range g.syncW {
		w.syncSet(k, v)
	}
	if g.pan != nil {
		panic(*g.pan)
	}
	return g.res
}

func (w *Worker) mergeOutcomes(outs []outcome) (outcome, bool) {
	c := w.ctx
	if len(outs) == 1 {
		return outs[0], true
	}
	// sync writes must agree
	for _, o := range outs[1:] {
		if len(o.syncW) != len(outs[0].syncW) {
			return outcome{}, false
		}
		for k, v := range o.syncW {
			if v2, ok := outs[0].syncW[k]; !ok || v2 != v {
				return outcome{}, false
			}
		}
	}
	var conds []*Term
	for _, o := range outs {
		conds = append(conds, o.cond)
	}
	m := outcome{cond: c.Or(conds...), syncW: outs[0].syncW}
	// result
	res := outs[len(outs)-1].res
	for i := len(outs) - 2; i >= 0; i-- {
		r, ok := w.mergeValue(outs[i].cond, outs[i].res, res)
		if !ok {
			return outcome{}, false
		}
		res = r
	}
	m.res = res
	// writes: union of objects
	objs := []*Object{}
	seen := map[*Object]bool{}
	for _, o := range outs {
		for _, wr := range o.writes {
			if !seen[wr.obj] {
				seen[wr.obj] = true
				objs = append(objs, wr.obj)
			}
		}
	}
	for _, ob := range objs {
		final := func(o outcome) Value {
			for _, wr := range o.writes {
				if wr.obj == ob {
					return wr.old
				}
			}
			return ob.val
		}
		if ob.val == nil {
			// object allocated inside the call: must be path-private garbage or identical
			var only Value
			cnt := 0
			for _, o := range outs {
				for _, wr := range o.writes {
					if wr.obj == ob {
						only = wr.old
						cnt++
					}
				}
			}
			if cnt == 1 {
				m.writes = append(m.writes, jent{obj: ob, old: only})
				continue
			}
		}
		v := final(outs[len(outs)-1])
		for i := len(outs) - 2; i >= 0; i-- {
			r, ok := w.mergeValue(outs[i].cond, final(outs[i]), v)
			if !ok {
				return outcome{}, false
			}
			v = r
		}
		m.writes = append(m.writes, jent{obj: ob, old: v})
	}
	return m, true
}

// ---- running a harness with a worker pool ----

func RunHarness(prog *Program, h *ssa.Function, cfg *HarnessCfg, workers []*Worker) *HarnessResult {
	t0 := time.Now()
	res := &HarnessResult{Name: h.Name(), Reached: map[string]bool{}, Funcs: map[string]int64{}, Intrinsics: map[string]int{}, Stubs: map[string]int{}, Asserts: map[string]int{}}
	sh := &shared{res: res, violated: map[string]bool{}, knownHit: map[string]bool{}, witnessLimit: 3}
	if cfg.Tier == "thorough" {
		sh.witnessLimit = 12
	}
	sh.cond = sync.NewCond(&sh.mu)
	sh.queue = [][]int{{}}
	type snap struct {
		q, s, u, k int
		t          time.Duration
		instr      int64
	}
	before := make([]snap, len(workers))
	for i, w := range workers {
		before[i] = snap{w.solver.Queries, w.solver.NSat, w.solver.NUnsat, w.solver.NUnk, w.solver.Time, w.Instrs}
		w.funcsTouched = map[string]int64{}
		w.intrUsed = map[string]int{}
		w.stubsUsed = map[string]int{}
		w.notes = nil
	}
	stopProg := make(chan struct{})
	if os.Getenv("GOSYM_PROGRESS") != "" {
		go func() {
			tk := time.NewTicker(5 * time.Second)
			defer tk.Stop()
			for {
				select {
				case <-stopProg:
					return
				case <-tk.C:
					sh.mu.Lock()
					q := 0
					var merged int
					for _, w := range workers {
						q += w.solver.Queries
						merged += w.RegionsMerged
					}
					fmt.Fprintf(os.Stderr, "[progress %s] paths=%d pruned=%d queue=%d inflight=%d queries=%d regionsMerged=%d viol=%d\n", h.Name(), res.Paths, res.Pruned, len(sh.queue), sh.inflight, q, merged, len(res.Violations))
					sh.mu.Unlock()
				}
			}
		}()
	}
	defer close(stopProg)
	var wg sync.WaitGroup
	for _, w := range workers {
		wg.Add(1)
		go func(w *Worker) {
			defer wg.Done()
			for {
				sh.mu.Lock()
				for len(sh.queue) == 0 && sh.inflight > 0 && !sh.stop {
					sh.cond.Wait()
				}
				if sh.stop || (len(sh.queue) == 0 && sh.inflight == 0) {
					sh.mu.Unlock()
					sh.cond.Broadcast()
					return
				}
				// DFS order: take the most recently added prefix
				p := sh.queue[len(sh.queue)-1]
				sh.queue = sh.queue[:len(sh.queue)-1]
				sh.inflight++
				sh.paths++
				if cfg.MaxPaths > 0 && sh.paths > cfg.MaxPaths {
					sh.stop = true
					res.Inconcl = append(res.Inconcl, fmt.Sprintf("PATH-LIMIT: more than %d paths", cfg.MaxPaths))
					sh.inflight--
					sh.mu.Unlock()
					sh.cond.Broadcast()
					return
				}
				sh.mu.Unlock()
				w.runPath(h, p, sh)
				sh.mu.Lock()
				sh.inflight--
				sh.mu.Unlock()
				sh.cond.Broadcast()
			}
		}(w)
	}
	wg.Wait()
	for i, w := range workers {
		res.Queries += w.solver.Queries - before[i].q
		res.QSat += w.solver.NSat - before[i].s
		res.QUnsat += w.solver.NUnsat - before[i].u
		res.QUnknown += w.solver.NUnk - before[i].k
		res.SolverTime += w.solver.Time - before[i].t
		res.Instrs += w.Instrs - before[i].instr
		for k, v := range w.funcsTouched {
			res.Funcs[k] += v
		}
		for k, v := range w.intrUsed {
			res.Intrinsics[k] += v
		}
		for k, v := range w.stubsUsed {
			res.Stubs[k] += v
		}
		for _, n := range w.notes {
			dup := false
			for _, m := range res.Notes {
				if m == n {
					dup = true
				}
			}
			if !dup {
				res.Notes = append(res.Notes, n)
			}
		}
		if len(w.solver.Errors) > 0 {
			res.Inconcl = append(res.Inconcl, "SOLVER-ERROR: "+w.solver.Errors[0])
			w.solver.Errors = nil
		}
	}
	if res.QUnknown > 0 {
		res.Inconcl = append(res.Inconcl, fmt.Sprintf("UNKNOWN: %d solver queries returned unknown/timeout", res.QUnknown))
	}
	if len(res.Reached) == 0 && len(res.Inconcl) == 0 {
		res.Inconcl = append(res.Inconcl, "VACUOUS: no path reached a zzverif.Reach marker")
	}
	res.Wall = time.Since(t0)
	return res
}

// maybeWitness: take a model of the completed path and the values the engine
// predicts for the Observe expressions; it is later run natively (translator
// validation: the native run must pass every assertion and observe the same values).
func (w *Worker) maybeWitness(h *ssa.Function, sh *shared) {
	sh.mu.Lock()
	want := len(sh.res.Witnesses) < sh.witnessLimit
	if want {
		sh.res.Witnesses = append(sh.res.Witnesses, nil) // reserve
	}
	idx := len(sh.res.Witnesses) - 1
	sh.mu.Unlock()
	if !want {
		return
	}
	var wit *Witness
	if w.solver.Check() == Sat {
		v := w.extractViolation("witness", "witness", "")
		wit = &Witness{Harness: h.Name(), Model: v.Model, UFs: v.UFs}
		for _, o := range w.observes {
			wit.Observed = append(wit.Observed, o.label+"="+w.evalObserved(o.v))
		}
	}
	sh.mu.Lock()
	sh.res.Witnesses[idx] = wit
	sh.mu.Unlock()
}

func (w *Worker) evalObserved(iv IfaceV) string {
	if iv.T == nil {
		return "<nil>"
	}
	switch x := iv.V.(type) {
	case *Term:
		mv := w.solver.GetValues([]*Term{x})[0]
		if x.sort.K == SBool {
			return fmt.Sprintf("%v", mv.B)
		}
		if _, signed, ok := intInfo(iv.T); ok && signed {
			return fmt.Sprintf("%d", sext(mv.U, x.sort.W))
		}
		return fmt.Sprintf("%d", mv.U)
	case StringV:
		if x.Opaque != 0 {
			return "?"
		}
		vals := w.solver.GetValues(x.B)
		b := make([]byte, len(vals))
		for i, v := range vals {
			b[i] = byte(v.U)
		}
		return fmt.Sprintf("%x", b)
	case SliceV:
		if x.IsNil() {
			return ""
		}
		ln := w.solver.GetValues([]*Term{x.Len})[0].U
		if ln > 4096 {
			return "?"
		}
		ts := make([]*Term, ln)
		for i := range ts {
			t, ok := w.sliceElem(x, w.k64(i)).(*Term)
			if !ok {
				return "?"
			}
			ts[i] = t
		}
		vals := w.solver.GetValues(ts)
		b := make([]byte, len(vals))
		for i, v := range vals {
			b[i] = byte(v.U)
		}
		return fmt.Sprintf("%x", b)
	}
	return "?"
}
