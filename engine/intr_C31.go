package main

// C31/C33: go-ethereum common.Address is a non-root external type ([20]byte).
// Its String()/Hex() (EIP-55 checksummed hex, needs keccak) is only used by the
// traffic service as a map key / pub-sub topic, so the model is the injective
// lower-case rendering "0x" + hex(bytes). Natively the real method runs; the
// two agree on equality of results, which is all the code under test uses.

import (
	"golang.org/x/tools/go/ssa"
)

func init() {
	addrHex := func(w *Worker, fr *frame, a []Value, fn *ssa.Function) Value {
		arr, ok := a[0].(*ArrayV)
		if !ok {
			w.unsupported("common.Address.String on %T", a[0])
		}
		b := make([]*Term, len(arr.E))
		for i, e := range arr.E {
			b[i] = e.(*Term)
		}
		h := w.hexEncode(b)
		out := strV(w.ctx, "0x")
		out.B = append(out.B, h.B...)
		return out
	}
	reg("(github.com/ethereum/go-ethereum/common.Address).String", addrHex)
	reg("(github.com/ethereum/go-ethereum/common.Address).Hex", addrHex)
}
