#!/bin/bash
# usage: seedrun.sh <seeded dir name> [tier]
# Runs the property's check against the seeded change. The change is applied in a
# scratch worktree of /repo (VERIF_REPO), so /repo itself is never touched and
# several seeds can run in parallel. (Equivalent to: git -C /repo apply patch.diff;
# run the check; git -C /repo checkout -- .)
d=/verif/seeded/$1; tier=${2:-quick}
id=${PROP:-${1:0:3}}   # PROP=<other id>: run another property's check against this change
wt=/tmp/seedwt/$1
rm -rf $wt; mkdir -p /tmp/seedwt
git -C /repo worktree prune
git -C /repo worktree add --detach $wt HEAD >/dev/null 2>&1 || { echo "worktree failed"; exit 2; }
trap "git -C /repo worktree remove --force $wt >/dev/null 2>&1" EXIT
git -C $wt apply $d/patch.diff || { echo "patch does not apply"; exit 2; }
cd /verif && VERIF_REPO=$wt VERIF_DIR=/verif timeout 3000 ./bin/gosym check $id --tier $tier --workers ${WORKERS:-6} --evidence-dir /tmp/seedwt/evidence > /tmp/seedrun_$1.log 2>&1
rc=$?
viol=$(grep -c "^VIOLATION" /tmp/seedrun_$1.log)
echo "$1 tier=$tier exit=$rc violations=$viol"
grep "^VIOLATION\|^  harness=" /tmp/seedrun_$1.log | cut -c1-200 | head -6
grep "INCONCLUSIVE" /tmp/seedrun_$1.log | cut -c1-300 | head -3
python3 - "$d" "$1" "$tier" "$rc" <<'PY'
import json,sys,os,re
d,name,tier,rc=sys.argv[1:5]
if os.environ.get("PROP"): tier=tier+"@"+os.environ["PROP"]
mp=os.path.join(d,'meta.json')
m=json.load(open(mp)) if os.path.exists(mp) else {"property":name[:3],"name":name[4:]}
log=open('/tmp/seedrun_%s.log'%name).read()
labels=re.findall(r'harness=(\S+) label=(.*?) kind=',log)
m.setdefault('runs',{})[tier]={"exit":int(rc),"detected":int(rc)==1,"violations":[{"harness":h,"label":l} for h,l in labels]}
json.dump(m,open(mp,'w'),indent=1)
PY
