#!/usr/bin/env python3
"""Regenerates MANIFEST.json from checks.json (claimed checks) and properties.jsonl."""
import json
props=[json.loads(l) for l in open('/verif/properties.jsonl')]
import glob,os
claimed={os.path.basename(f)[:-5]:json.load(open(f)) for f in glob.glob('/verif/checks/C*.json')}
na=json.load(open('/verif/checks/not_applicable.json'))
m={"version":1,
 "setup_cmd":"./setup.sh",
 "hooks":{"guard":"verif","enable":"no source hooks are needed: harness files and the zzverif package are injected with go/packages Overlay (symbolic run) and go test -overlay (native replay); guard 'verif' is reserved and unused","baseline_off_cmd":"cd /repo && go test -vet=off -count=1 -timeout 25m ./...","source_commits":[],"add_only":True},
 "engines":[{"name":"gosym","path":"/verif/engine","serves_properties":sorted(claimed.keys()),"kind_free_text":"bounded symbolic executor for go/ssa (own implementation) with SMT back end: z3 4.8.12 deciding, cvc5 1.0 / z3 5.1.0 cross-check in thorough tier; counterexamples replayed natively with go test -overlay"}],
 "checks":[],
 "notes":"All checks: ./bin/gosym check <id> --tier quick|thorough. Exit 0 holds within bounds, 1 replay-confirmed violation, 2 inconclusive. See DESIGN.md.",
 "not_applicable":[]}
for p in props:
    i=p['id']
    if i in claimed:
        c=claimed[i]
        m['checks'].append({"property_id":i,
          "quick_cmd":f"./bin/gosym check {i} --tier quick",
          "thorough_cmd":f"./bin/gosym check {i} --tier thorough",
          "evidence_file":f"/verif/evidence/{i}.json",
          "replay_cmd_template":"./bin/gosym replay {path}",
          "engine":"gosym",
          "level_claimed":{"category":"model_checking","text":c['text'],"design_ref":c.get('design_ref','DESIGN.md §5 '+i)},
          "level_note":c['note'],
          "technique":"solver-based bounded symbolic execution of the real Go code (go/ssa -> SMT, z3/cvc5), counterexamples replayed natively"})
    else:
        m['not_applicable'].append({"property_id":i,"reason":na.get(i,"check not built yet (work in progress)")})
json.dump(m,open('/verif/MANIFEST.json','w'),indent=1)
print(len(m['checks']),'claimed',len(m['not_applicable']),'not applicable')
