#!/bin/bash
# usage: seedconfirm.sh <propID> <name> <pkgdir> [<extra go test flags>]
# Confirms a seeded change in a scratch worktree: existing package tests give the same
# results with and without the patch; the demo fails with and passes without it.
# On success stores it under /verif/seeded/<propID>-<name>/.
id=$1; name=$2; pkg=$3; shift 3; flags="$@"
src=/tmp/mut/$id/OUT/$name
wt=/tmp/seedconf/$id-$name
export GOFLAGS=-mod=mod GOPROXY=off GOSUMDB=off GOTOOLCHAIN=local
rm -rf $wt; mkdir -p /tmp/seedconf
git -C /repo worktree add --detach $wt HEAD >/dev/null 2>&1 || { echo "worktree failed"; exit 2; }
cleanup() { git -C /repo worktree remove --force $wt >/dev/null 2>&1; }
trap cleanup EXIT
cd $wt
if [ -n "$MASK" ]; then
  # the package's own tests do not build/run in this sandbox: "existing tests" = build + vet of the package
  mkdir -p /tmp/seedconf/aside-$id-$name; mv $wt/$pkg/*_test.go /tmp/seedconf/aside-$id-$name/ 2>/dev/null
fi
run_tests() {
  if [ -n "$MASK" ]; then (go build ./$pkg/ 2>&1; go vet ./$pkg/ 2>&1) | md5sum; return; fi
  run_tests_real
}
run_tests_real() { go test -count=1 $flags -json ./$pkg/ 2>/dev/null | python3 -c "
import sys,json
r={}
for l in sys.stdin:
    try: e=json.loads(l)
    except: continue
    if e.get('Action') in ('pass','fail') and e.get('Test'): r[e['Test']]=e['Action']
print(json.dumps(r,sort_keys=True))"; }
base=$(run_tests)
demo=$(ls $src/*_test.go | head -1)
demopkg=$(grep -m1 '^package ' $demo | awk '{print $2}')
cp $demo $wt/$pkg/zz_seed_demo_test.go
demoname=$(grep -o 'func Test[A-Za-z0-9_]*' $demo | awk '{print $2}' | paste -sd'|')
d0=$(go test -count=1 $flags -run "^($demoname)\$" ./$pkg/ 2>&1 | tail -3 | tr '\n' ' ')
rm $wt/$pkg/zz_seed_demo_test.go
git apply $src/patch.diff || { echo "PATCH DOES NOT APPLY"; exit 1; }
go build ./$pkg/ || { echo "DOES NOT COMPILE"; exit 1; }
with=$(run_tests)
cp $demo $wt/$pkg/zz_seed_demo_test.go
d1=$(go test -count=1 $flags -run "^($demoname)\$" ./$pkg/ 2>&1 | tail -3 | tr '\n' ' ')
echo "existing tests identical: $([ "$base" == "$with" ] && echo yes || echo NO)"
echo "demo without patch: $d0"
echo "demo with patch:    $d1"
ok=1
[ "$base" == "$with" ] || ok=0
echo "$d0" | grep -q "^ok\|ok  " || ok=0
echo "$d1" | grep -q "FAIL" || ok=0
if [ $ok == 1 ]; then
  out=/verif/seeded/$id-$name; mkdir -p $out
  cp $src/patch.diff $out/patch.diff; cp $demo $out/demo_test.go; cp $src/README.md $out/README.md 2>/dev/null
  echo "CONFIRMED -> $out"
else
  echo "NOT CONFIRMED"
fi
