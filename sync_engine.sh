#!/bin/bash
# usage: sync_engine.sh <workspace>  -- copies the current core engine + zzverif into an agent workspace (keeps its intr_C*.go) and rebuilds
set -e
d=$1
for f in /verif/engine/*.go; do b=$(basename $f); cp $f $d/engine/$b; done
cp /verif/engine/go.mod /verif/engine/go.sum $d/engine/ 2>/dev/null || true
rsync -a /verif/harness/pkg/zzverif/ $d/harness/pkg/zzverif/
cp /verif/HARNESS_GUIDE.md $d/
export GOFLAGS=-mod=mod GOPROXY=off GOSUMDB=off GOTOOLCHAIN=local
(cd $d/engine && go build -o ../bin/gosym .)
echo "engine synced into $d"
