#!/bin/bash
# creates a scratch worktree of /repo for a seeded-change author: /tmp/mut/<id>/repo, and prints the property text
set -e
id=$1
d=/tmp/mut/$id
rm -rf $d; mkdir -p $d/OUT
git -C /repo worktree prune
git -C /repo worktree add --detach $d/repo HEAD >/dev/null 2>&1
python3 - "$id" > $d/PROPERTY.txt <<'PY'
import json,sys
pid=sys.argv[1][:3]
for l in open('/verif/properties.jsonl'):
    p=json.loads(l)
    if p['id']==pid:
        print("Property %s: %s\n\nStatement: %s\n\nQuantified over: %s\n\nCode anchors (files): %s"%(p['id'],p['title'],p['statement'],p['quantifier']['text'],", ".join(p['anchors']['files'])))
PY
echo $d
