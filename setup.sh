#!/bin/bash
# builds the gosym engine offline
set -e
cd "$(dirname "$0")"
export GOFLAGS=-mod=mod GOPROXY=off GOSUMDB=off GOTOOLCHAIN=local CGO_ENABLED=0
mkdir -p bin evidence replays
(cd engine && go build -o ../bin/gosym .)
echo "setup ok"
