#!/bin/bash
# usage: merge_agent.sh <agent> <ID> [<ID>...]  -- copies an agent's deliverables for the given property ids into /verif
set -e
a=/tmp/vw/$1; shift
for id in "$@"; do
  (cd $a/harness && find . -name "zz_verif_${id}*.go" -o -name "zz_verif_common*.go" | while read f; do case "$f" in *zz_verif_common*) case "$f" in *common_${id}*) ;; *) [ -e /verif/harness/$f ] && continue;; esac;; esac; mkdir -p /verif/harness/$(dirname $f); cp $f /verif/harness/$f; echo "harness $f"; done)
  for d in harness/bounds checks notes; do for f in $a/$d/${id}*; do [ -e "$f" ] && cp $f /verif/$d/ && echo "$d/$(basename $f)"; done; done
  for f in $a/engine/intr_${id}*.go; do [ -e "$f" ] && cp $f /verif/engine/ && echo "engine/$(basename $f)"; done
done
exit 0
