#!/usr/bin/env python3
"""Regenerates the generated sections of DESIGN.md (between <!-- GEN:x --> markers) from
harness/bounds/*.json, checks/*.json, known_findings.json, seeded/*/meta.json and the harness sources."""
import json,glob,os,re
V='/verif'
props={}
for l in open(f'{V}/properties.jsonl'):
    p=json.loads(l); props[p['id']]=p
def harness_funcs(pid):
    out=[]
    for f in glob.glob(f'{V}/harness/**/zz_verif_{pid}*.go',recursive=True):
        pk=os.path.relpath(os.path.dirname(f),f'{V}/harness')
        for m in re.finditer(r'^func (Verif%s_\w+)\('%pid,open(f).read(),re.M):
            out.append((pk,m.group(1)))
    return sorted(set(out))
def sec_props():
    rows=[]
    na=json.load(open(f'{V}/checks/not_applicable.json'))
    for pid in sorted(props):
        bf=f'{V}/harness/bounds/{pid}.json'
        if os.path.exists(bf) and os.path.exists(f'{V}/checks/{pid}.json'):
            b=json.load(open(bf)); hf=harness_funcs(pid)
            rows.append(f"### {pid} {props[pid]['title']} — claimed\n")
            rows.append("Harnesses: "+", ".join(f"`{h}` ({pk})" for pk,h in hf)+"\n")
            rows.append(f"* Quick bounds: {b.get('quick','')}\n* Thorough bounds: {b.get('thorough','')}")
            if b.get('assumptions'): rows.append("* Stubs / assumptions: "+"; ".join(b['assumptions']))
            if b.get('outside_claim'): rows.append("* Outside the claim: "+"; ".join(b['outside_claim']))
            if os.path.exists(f'{V}/notes/{pid}.md') or glob.glob(f'{V}/notes/{pid}_*.md'):
                rows.append(f"* Details: notes/{pid}*.md")
            rows.append("")
        else:
            rows.append(f"### {pid} {props[pid]['title']} — not claimed\n\n{na.get(pid,'no check built (see MANIFEST not_applicable)')}\n")
    return "\n".join(rows)
def sec_findings():
    k=json.load(open(f'{V}/known_findings.json'))['findings']
    seen={}
    for f in k:
        key=(f['property'],f.get('commit','') or f.get('region',''))
        seen.setdefault(key,[]).append(f)
    rows=["| property | status | commit | what | assertion label(s) / region |","|---|---|---|---|---|"]
    for (pid,c),fs in sorted(seen.items()):
        what=fs[0]['what'].replace('|','/')[:300]
        labs="; ".join(sorted(set((f['label']+' ['+f.get('region','')+']') for f in fs))).replace('|','/')
        rows.append(f"| {pid} | {fs[0]['status']} | {c if fs[0]['status']=='fixed' else '-'} | {what} | {labs[:400]} |")
    return "\n".join(rows)
def sec_seeds():
    rows=["| seeded change | property | quick tier | detected by (harness: label) |","|---|---|---|---|"]
    for d in sorted(glob.glob(f'{V}/seeded/*')):
        mp=os.path.join(d,'meta.json')
        if not os.path.exists(mp): 
            rows.append(f"| {os.path.basename(d)} | {os.path.basename(d)[:3]} | not run yet | |"); continue
        m=json.load(open(mp)); r=m.get('runs',{})
        def fmt(t):
            x=r.get(t)
            if not x: return 'not run'
            return {0:'MISSED (exit 0)',1:'detected',2:'inconclusive (exit 2)',124:'timeout'}.get(x['exit'],'exit %d'%x['exit'])
        q=r.get('quick') or {}
        det="; ".join(f"{v['harness']}: {v['label']}" for v in q.get('violations',[]))[:300].replace('|','/')
        extra=''
        if 'thorough' in r: extra=' / thorough: '+fmt('thorough')
        for k in sorted(r):
            if '@' in k: extra+=' / check '+k.split('@')[1]+': '+fmt(k)+(' ('+'; '.join(v['harness']+': '+v['label'] for v in r[k].get('violations',[])[:2])+')' if r[k].get('violations') else '')
        rows.append(f"| {os.path.basename(d)} | {m['property']} | {fmt('quick')}{extra} | {det} |")
    return "\n".join(rows)
gen={'PROPS':sec_props,'FINDINGS':sec_findings,'SEEDS':sec_seeds}
s=open(f'{V}/DESIGN.md').read()
for name,fn in gen.items():
    a=f'<!-- GEN:{name} -->'; b=f'<!-- /GEN:{name} -->'
    if a in s and b in s:
        i=s.index(a)+len(a); j=s.index(b)
        s=s[:i]+"\n"+fn()+"\n"+s[j:]
open(f'{V}/DESIGN.md','w').write(s)
print('DESIGN.md tables regenerated')
