#!/bin/bash
# usage: run_par.sh <tier> <lanes> <workers-per-lane> [ids...]
# runs the given tier of every check (or the given ids) in <lanes> parallel lanes; summary on stdout
tier=${1:-thorough}; lanes=${2:-3}; wk=${3:-5}; shift 3
cd /verif
ids="$@"
[ -z "$ids" ] && ids=$(ls checks/C*.json | xargs -n1 basename | cut -c1-3 | sort -u)
one() {
  id=$1
  s=$(date +%s)
  timeout 7200 ./bin/gosym check $id --tier $tier --workers $wk > /tmp/par_${tier}_$id.log 2>&1
  rc=$?
  e=$(date +%s)
  echo "$id exit=$rc time=$((e-s))s $(grep -c '^KNOWN-FINDING' /tmp/par_${tier}_$id.log) known, $(grep -c '^VIOLATION' /tmp/par_${tier}_$id.log) viol, $(grep -c '^INCONCLUSIVE' /tmp/par_${tier}_$id.log) inconcl"
}
export -f one; export tier wk
echo $ids | tr ' ' '\n' | xargs -P $lanes -I{} bash -c 'one {}'
