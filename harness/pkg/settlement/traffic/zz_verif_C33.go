package traffic

// C33: traffic totals survive restarts (sequential claim).
//
// Two Service instances share one persistent cheque-store stub. Instance 1 is
// initialised (Init) and runs a short history of credits (PutRetrieveTraffic),
// debits (PutTransferTraffic), pay attempts (Pay; delivery may fail), received
// cheques (ReceiveCheque) and - thorough tier - refreshes. Then the node
// "restarts": instance 2 is built over the same store, the chain has moved on
// (values >= the earlier ones) and Init runs. Asserted: no per-peer total and
// no last-cheque amount is lower than before, and a payment after the restart
// never re-issues an amount already paid.

import (
	"context"
	"errors"
	"math/big"
	"time"

	"github.com/ethereum/go-ethereum/common"
	"github.com/gauss-project/aurorafs/pkg/boson"
	"github.com/gauss-project/aurorafs/pkg/logging"
	"github.com/gauss-project/aurorafs/pkg/settlement/chain"
	chequePkg "github.com/gauss-project/aurorafs/pkg/settlement/traffic/cheque"
	"github.com/gauss-project/aurorafs/pkg/subscribe"
	"github.com/gauss-project/aurorafs/pkg/zzverif"
)

//verif:root pkg/boson
//verif:go-ignore (*Service).PublishHeader, (*Service).PublishTrafficCheque

const verifC33N = 2 // peers

var (
	verifC33Self = common.Address{0xaa}
	verifC33CA   = [verifC33N]common.Address{{0x01}, {0x02}}
	verifC33OV   = [verifC33N]boson.Address{boson.NewAddress([]byte{0x11}), boson.NewAddress([]byte{0x22})}
	verifC33Err  = errors.New("verif: injected failure")
)

func verifC33idx(a common.Address) int {
	for i := 0; i < verifC33N; i++ {
		if a == verifC33CA[i] {
			return i
		}
	}
	return -1
}

func verifC33cp(x *big.Int) *big.Int { return new(big.Int).Set(x) }

// ---- world: chain + reference values ----

type verifC33World struct {
	cashedByPeer [verifC33N]*big.Int // chain: TransAmount(self, p)  (peer p cashed from us)
	cashedByUs   [verifC33N]*big.Int // chain: TransAmount(p, self)  (we cashed from peer p)
	balance      *big.Int
	chainDown    bool // the per-peer chain reads (TransAmount) fail: fallback to the persisted chain totals
	// unlisted[p]: the contract does not know peer p (nothing was ever cashed
	// between p and this node): p is on neither address list and its on-chain
	// totals are 0. Such a peer is restored after a restart only if the store's
	// own records name it.
	unlisted [verifC33N]bool

	delivered         [verifC33N]*big.Int // payout of the last cheque delivered to p (or shown by p and acknowledged in a handshake)
	totalsWritten     [verifC33N]bool     // a consumed- or served-traffic update addressed p (it persists a total for p)
	accepted          [verifC33N]*big.Int // payout of the last cheque accepted from p
	restarted         bool
	emitsAfterRestart int
}

type verifC33Chain struct {
	chain.Traffic // CashChequeBeneficiary, RetrievedTotal unused
	w             *verifC33World
}

func (c *verifC33Chain) TransferredAddress(common.Address) ([]common.Address, error) {
	var l []common.Address
	if !c.w.unlisted[1] {
		l = append(l, verifC33CA[1])
	}
	return l, nil
}
func (c *verifC33Chain) RetrievedAddress(common.Address) ([]common.Address, error) {
	var l []common.Address
	for p := 0; p < verifC33N; p++ {
		if !c.w.unlisted[p] {
			l = append(l, verifC33CA[p])
		}
	}
	return l, nil
}
func (c *verifC33Chain) BalanceOf(a common.Address) (*big.Int, error) {
	if a == verifC33Self {
		return verifC33cp(c.w.balance), nil
	}
	return big.NewInt(0), nil
}
func (c *verifC33Chain) TransferredTotal(common.Address) (*big.Int, error) {
	return big.NewInt(0), nil
}
func (c *verifC33Chain) TransAmount(beneficiary, recipient common.Address) (*big.Int, error) {
	if c.w.chainDown {
		return nil, verifC33Err
	}
	if beneficiary == verifC33Self {
		return verifC33cp(c.w.cashedByPeer[verifC33idx(recipient)]), nil
	}
	return verifC33cp(c.w.cashedByUs[verifC33idx(beneficiary)]), nil
}

// ---- persistent cheque store stub (survives the restart): typed records with
// value semantics - Put stores a copy, Get returns a fresh copy ----

type verifC33Store struct {
	sendCheque    [verifC33N]*chequePkg.Cheque
	recvCheque    [verifC33N]*chequePkg.SignedCheque
	retrieve      [verifC33N]*big.Int
	transfer      [verifC33N]*big.Int
	chainRetrieve [verifC33N]*big.Int
	chainTransfer [verifC33N]*big.Int
}

func verifC33get(x *big.Int) (*big.Int, error) {
	if x == nil {
		return big.NewInt(0), nil
	}
	return verifC33cp(x), nil
}

// ReceiveCheque: signature/recipient checks are C30's business; here a cheque
// is accepted iff its cumulative payout exceeds the last accepted one.
func (s *verifC33Store) ReceiveCheque(_ context.Context, c *chequePkg.SignedCheque) (*big.Int, error) {
	p := verifC33idx(c.Beneficiary)
	last := big.NewInt(0)
	if s.recvCheque[p] != nil {
		last = s.recvCheque[p].CumulativePayout
	}
	amount := new(big.Int).Sub(c.CumulativePayout, last)
	if amount.Sign() <= 0 {
		return nil, chequePkg.ErrChequeNotIncreasing
	}
	s.recvCheque[p] = &chequePkg.SignedCheque{Cheque: chequePkg.Cheque{Recipient: c.Recipient, Beneficiary: c.Beneficiary, CumulativePayout: verifC33cp(c.CumulativePayout)}, Signature: []byte{1}}
	return amount, nil
}

// VerifyCheque: signature recovery is C30's business; every cheque is taken to
// be signed by its stated issuer.
func (s *verifC33Store) VerifyCheque(c *chequePkg.SignedCheque, _ int64) (common.Address, error) {
	return c.Beneficiary, nil
}
func (s *verifC33Store) PutSendCheque(_ context.Context, c *chequePkg.Cheque, a common.Address) error {
	s.sendCheque[verifC33idx(a)] = &chequePkg.Cheque{Recipient: c.Recipient, Beneficiary: c.Beneficiary, CumulativePayout: verifC33cp(c.CumulativePayout)}
	return nil
}
func (s *verifC33Store) PutReceivedCheques(common.Address, chequePkg.SignedCheque) error {
	panic("unused")
}
func (s *verifC33Store) LastReceivedCheque(a common.Address) (*chequePkg.SignedCheque, error) {
	c := s.recvCheque[verifC33idx(a)]
	if c == nil {
		return &chequePkg.SignedCheque{Cheque: chequePkg.Cheque{CumulativePayout: big.NewInt(0)}}, chequePkg.ErrNoCheque
	}
	return &chequePkg.SignedCheque{Cheque: chequePkg.Cheque{Recipient: c.Recipient, Beneficiary: c.Beneficiary, CumulativePayout: verifC33cp(c.CumulativePayout)}, Signature: []byte{1}}, nil
}
func (s *verifC33Store) LastReceivedCheques() (map[common.Address]*chequePkg.SignedCheque, error) {
	m := map[common.Address]*chequePkg.SignedCheque{}
	for i := 0; i < verifC33N; i++ {
		if s.recvCheque[i] != nil {
			m[verifC33CA[i]], _ = s.LastReceivedCheque(verifC33CA[i])
		}
	}
	return m, nil
}
func (s *verifC33Store) LastSendCheque(a common.Address) (*chequePkg.Cheque, error) {
	c := s.sendCheque[verifC33idx(a)]
	if c == nil {
		return &chequePkg.Cheque{CumulativePayout: new(big.Int).SetInt64(0)}, chequePkg.ErrNoCheque
	}
	return &chequePkg.Cheque{Recipient: c.Recipient, Beneficiary: c.Beneficiary, CumulativePayout: verifC33cp(c.CumulativePayout)}, nil
}
func (s *verifC33Store) LastSendCheques() (map[common.Address]*chequePkg.Cheque, error) {
	m := map[common.Address]*chequePkg.Cheque{}
	for i := 0; i < verifC33N; i++ {
		if s.sendCheque[i] != nil {
			m[verifC33CA[i]], _ = s.LastSendCheque(verifC33CA[i])
		}
	}
	return m, nil
}
func (s *verifC33Store) PutRetrieveTraffic(a common.Address, t *big.Int) error {
	s.retrieve[verifC33idx(a)] = verifC33cp(t)
	return nil
}
func (s *verifC33Store) PutTransferTraffic(a common.Address, t *big.Int) error {
	s.transfer[verifC33idx(a)] = verifC33cp(t)
	return nil
}
func (s *verifC33Store) GetRetrieveTraffic(a common.Address) (*big.Int, error) {
	return verifC33get(s.retrieve[verifC33idx(a)])
}
func (s *verifC33Store) GetTransferTraffic(a common.Address) (*big.Int, error) {
	return verifC33get(s.transfer[verifC33idx(a)])
}
func (s *verifC33Store) PutChainRetrieveTraffic(a common.Address, t *big.Int) error {
	s.chainRetrieve[verifC33idx(a)] = verifC33cp(t)
	return nil
}
func (s *verifC33Store) PutChainTransferTraffic(a common.Address, t *big.Int) error {
	s.chainTransfer[verifC33idx(a)] = verifC33cp(t)
	return nil
}
func (s *verifC33Store) GetChainRetrieveTraffic(a common.Address) (*big.Int, error) {
	return verifC33get(s.chainRetrieve[verifC33idx(a)])
}
func (s *verifC33Store) GetChainTransferTraffic(a common.Address) (*big.Int, error) {
	return verifC33get(s.chainTransfer[verifC33idx(a)])
}
func (s *verifC33Store) GetAllRetrieveTransferAddresses() (map[common.Address]struct{}, error) {
	m := map[common.Address]struct{}{}
	for i := 0; i < verifC33N; i++ {
		if s.retrieve[i] != nil || s.transfer[i] != nil {
			m[verifC33CA[i]] = struct{}{}
		}
	}
	return m, nil
}

// ---- signer, protocol, address book, pub/sub ----

type verifC33Signer struct{}

func (verifC33Signer) Sign(*chequePkg.Cheque) ([]byte, error) { return []byte{1}, nil }

type verifC33Proto struct{ w *verifC33World }

func (e *verifC33Proto) EmitCheque(_ context.Context, peer boson.Address, c *chequePkg.SignedCheque) error {
	w := e.w
	p := verifC33idx(c.Recipient)
	zzverif.Assert(p >= 0 && peer.Equal(verifC33OV[p]), "cheque addressed to the paid peer")
	if w.restarted {
		w.emitsAfterRestart++
		zzverif.Reach("C33-cheque-emitted-after-restart")
		zzverif.Assert(c.CumulativePayout.Cmp(w.delivered[p]) > 0, "cheque after restart exceeds the last paid amount")
	}
	if zzverif.Bool("emitFail") {
		return verifC33Err
	}
	if !w.restarted {
		zzverif.Reach("C33-cheque-delivered-before-restart")
	}
	w.delivered[p] = verifC33cp(c.CumulativePayout)
	return nil
}

type verifC33Book struct{}

func (verifC33Book) Beneficiary(peer boson.Address) (common.Address, bool) {
	for i := 0; i < verifC33N; i++ {
		if peer.Equal(verifC33OV[i]) {
			return verifC33CA[i], true
		}
	}
	return common.Address{}, false
}
func (verifC33Book) BeneficiaryPeer(a common.Address) (boson.Address, bool) {
	if i := verifC33idx(a); i >= 0 {
		return verifC33OV[i], true
	}
	return boson.ZeroAddress, false
}
func (verifC33Book) PutBeneficiary(boson.Address, common.Address) error { panic("unused") }
func (verifC33Book) InitAddressBook() error                             { return nil }

type verifC33Pub struct{ subscribe.SubPub }

func (verifC33Pub) Publish(string, string, string, interface{}) error { return nil }

type verifC33Sink struct{}

func (verifC33Sink) Write(b []byte) (int, error) { return len(b), nil }

// ---- rig ----

// verifC33NewService mirrors New() without its two background goroutines
// (24h ticker, cash-out receipt worker - the latter is exercised by C31).
func verifC33NewService(w *verifC33World, st chequePkg.ChequeStore) *Service {
	s := &Service{
		logger:              logging.New(verifC33Sink{}, 0),
		chainAddress:        verifC33Self,
		trafficChainService: &verifC33Chain{w: w},
		chequeStore:         st,
		addressBook:         verifC33Book{},
		chequeSigner:        verifC33Signer{},
		protocol:            &verifC33Proto{w},
		chainID:             1,
		trafficPeers: TrafficPeer{
			trafficPeers: make(map[string]*Traffic),
			balance:      big.NewInt(0),
			totalPaidOut: big.NewInt(0),
		},
		subPub:         verifC33Pub{},
		cashChequeChan: make(chan cashCheque, 5),
	}
	s.SetNotifyPaymentFunc(func(boson.Address, *big.Int) error { return nil })
	return s
}

func verifC33settle() {
	if !zzverif.Symbolic() {
		time.Sleep(2 * time.Millisecond)
	}
}

// the chain only moves forward (new value = old value + arbitrary increment)
func verifC33moveChain(w *verifC33World) {
	for p := 0; p < verifC33N; p++ {
		if w.unlisted[p] {
			continue // nothing cashed between this peer and the node
		}
		w.cashedByPeer[p] = new(big.Int).Add(w.cashedByPeer[p], zzverif.BigNonNeg("cashedByPeer+"))
		w.cashedByUs[p] = new(big.Int).Add(w.cashedByUs[p], zzverif.BigNonNeg("cashedByUs+"))
	}
	w.balance = zzverif.BigNonNeg("balance")
}

// any payment threshold >= 1
func verifC33threshold() *big.Int {
	return new(big.Int).Add(big.NewInt(1), zzverif.BigNonNeg("threshold-1"))
}

type verifC33Totals struct {
	retrieve, transfer, retrieveCheque, transferCheque *big.Int
}

func verifC33snapshot(s *Service, p int) verifC33Totals {
	s.trafficPeers.trafficLock.Lock()
	tr := s.trafficPeers.trafficPeers[verifC33CA[p].String()]
	s.trafficPeers.trafficLock.Unlock()
	if tr == nil {
		z := big.NewInt(0)
		return verifC33Totals{z, z, z, z}
	}
	tr.Lock()
	defer tr.Unlock()
	return verifC33Totals{verifC33cp(tr.retrieveTraffic), verifC33cp(tr.transferTraffic), verifC33cp(tr.retrieveChequeTraffic), verifC33cp(tr.transferChequeTraffic)}
}

// operations of a history
const (
	verifC33opCredit    = iota // PutRetrieveTraffic
	verifC33opDebit            // PutTransferTraffic
	verifC33opPay              // Pay
	verifC33opReceive          // ReceiveCheque
	verifC33opRefresh          // chain moves on + Init
	verifC33opHandshake        // Handshake: the peer shows a cheque of ours
)

var verifC33basicOps = []int{verifC33opCredit, verifC33opDebit, verifC33opPay, verifC33opReceive, verifC33opRefresh}

func verifC33step(s *Service, w *verifC33World, ops []int) {
	ctx := context.Background()
	p := zzverif.Choose("peer", verifC33N)
	switch ops[zzverif.Choose("op", len(ops))] {
	case verifC33opCredit: // we consumed traffic from p (we owe more)
		err := s.PutRetrieveTraffic(verifC33OV[p], zzverif.BigNonNeg("amount"))
		zzverif.Assert(err == nil, "PutRetrieveTraffic succeeds")
		w.totalsWritten[p] = true
	case verifC33opDebit: // we served traffic to p
		err := s.PutTransferTraffic(verifC33OV[p], zzverif.BigNonNeg("amount"))
		zzverif.Assert(err == nil, "PutTransferTraffic succeeds")
		w.totalsWritten[p] = true
	case verifC33opPay: // cheque send attempt
		_ = s.Pay(ctx, verifC33OV[p], verifC33threshold())
	case verifC33opReceive: // cheque received from p (accepted iff increasing)
		c := &chequePkg.SignedCheque{Cheque: chequePkg.Cheque{Recipient: verifC33Self, Beneficiary: verifC33CA[p], CumulativePayout: zzverif.BigNonNeg("payout")}, Signature: []byte{1}}
		if s.ReceiveCheque(ctx, verifC33OV[p], c) == nil {
			w.accepted[p] = verifC33cp(c.CumulativePayout)
		}
	case verifC33opRefresh: // refresh
		verifC33moveChain(w)
		zzverif.Assert(s.Init() == nil, "Init succeeds")
	case verifC33opHandshake:
		// (Re)connection handshake: the peer shows the last cheque it holds from
		// this node, any amount. It may exceed the node's own record (the node
		// lost state, or stopped between sending the cheque and recording it);
		// the node then adopts the cheque. Once the node has acknowledged the
		// cheque, its amount counts as paid.
		c := chequePkg.SignedCheque{Cheque: chequePkg.Cheque{Recipient: verifC33CA[p], Beneficiary: verifC33Self, CumulativePayout: zzverif.BigNonNeg("shownPayout")}, Signature: []byte{1}}
		if s.Handshake(verifC33OV[p], verifC33CA[p], c) == nil && c.CumulativePayout.Cmp(w.delivered[p]) > 0 {
			w.delivered[p] = verifC33cp(c.CumulativePayout)
			zzverif.Reach("C33-newer-cheque-acknowledged-in-handshake")
		}
	}
	verifC33settle()
}

// VerifC33_Restart: history on instance 1, restart, totals on instance 2
// (cheque store = typed stub).
func VerifC33_Restart() {
	// quick: 2 steps over credit/debit/pay/handshake (received cheques: VerifC33_RealStore);
	// thorough: 3 steps over credit/debit/pay (received cheques and handshakes stay covered at
	// 2 steps by VerifC33_RealStore)
	ops := []int{verifC33opCredit, verifC33opDebit, verifC33opPay, verifC33opHandshake}
	if zzverif.Param("threeSteps", 0, 1) == 1 {
		ops = ops[:3]
	}
	verifC33run(&verifC33Store{}, zzverif.Param("steps", 2, 3), ops, false, [verifC33N]bool{}, "C33-restart")
}

// verifC33run: steps operations out of ops on instance 1, then the restart;
// withChainDown: the per-peer chain reads of the restart Init may all fail;
// unlisted: peers the contract does not know (see verifC33World).
func verifC33run(st chequePkg.ChequeStore, steps int, ops []int, withChainDown bool, unlisted [verifC33N]bool, reach string) {
	w := &verifC33World{balance: big.NewInt(0), unlisted: unlisted}
	for p := 0; p < verifC33N; p++ {
		w.cashedByPeer[p], w.cashedByUs[p] = big.NewInt(0), big.NewInt(0)
		w.delivered[p], w.accepted[p] = big.NewInt(0), big.NewInt(0)
	}
	verifC33moveChain(w) // arbitrary chain state at the first start
	s1 := verifC33NewService(w, st)
	zzverif.Assert(s1.Init() == nil, "first Init succeeds")
	for i := 0; i < steps; i++ {
		verifC33step(s1, w, ops)
	}

	// ---- the node stops here; only the store and the chain survive ----
	var before [verifC33N]verifC33Totals
	var sentBefore, recvBefore [verifC33N]*big.Int
	for p := 0; p < verifC33N; p++ {
		before[p] = verifC33snapshot(s1, p)
		c, _ := s1.LastSentCheque(verifC33OV[p])
		sentBefore[p] = verifC33cp(c.CumulativePayout)
		r, _ := s1.LastReceivedCheque(verifC33OV[p])
		recvBefore[p] = verifC33cp(r.CumulativePayout)
	}
	verifC33moveChain(w)
	if withChainDown {
		w.chainDown = zzverif.Bool("chainDown")
	}
	w.restarted = true
	s2 := verifC33NewService(w, st)
	zzverif.Assert(s2.Init() == nil, "Init after restart succeeds")
	w.chainDown = false

	// Known finding (see notes/C33.md): trafficInit restores the peers named by
	// the chain's address lists and by the stored traffic totals only, although
	// it has the stored cheques in hand. A peer new to the contract for which
	// no traffic total was ever written, but a cheque was stored, is skipped.
	onlyReceived, onlySent := false, false
	for p := 0; p < verifC33N; p++ {
		if w.unlisted[p] && !w.totalsWritten[p] {
			if w.accepted[p].Sign() > 0 {
				onlyReceived = true
			}
			if w.delivered[p].Sign() > 0 {
				onlySent = true
			}
		}
	}
	zzverif.Region("C33/new-peer-known-only-by-its-received-cheque", onlyReceived)
	zzverif.Region("C33/new-peer-known-only-by-its-adopted-sent-cheque", onlySent)

	for p := 0; p < verifC33N; p++ {
		after := verifC33snapshot(s2, p)
		zzverif.Assert(after.retrieve.Cmp(before[p].retrieve) >= 0, "consumed-traffic total not lower after restart")
		zzverif.Assert(after.transfer.Cmp(before[p].transfer) >= 0, "served-traffic total not lower after restart")
		zzverif.Assert(after.retrieveCheque.Cmp(w.delivered[p]) >= 0, "sent-cheque total covers the last delivered cheque")
		zzverif.Assert(after.transferCheque.Cmp(w.accepted[p]) >= 0, "received-cheque total covers the last accepted cheque")
		zzverif.Assert(after.transferCheque.Cmp(before[p].transferCheque) >= 0, "received-cheque total not lower after restart")
		c, _ := s2.LastSentCheque(verifC33OV[p])
		zzverif.Assert(c.CumulativePayout.Cmp(sentBefore[p]) >= 0, "last sent cheque amount not lower after restart")
		r, _ := s2.LastReceivedCheque(verifC33OV[p])
		zzverif.Assert(r.CumulativePayout.Cmp(recvBefore[p]) >= 0, "last received cheque amount not lower after restart")
	}

	// ---- a payment after the restart (optionally after more consumption) ----
	p := zzverif.Choose("peer", verifC33N)
	err := s2.PutRetrieveTraffic(verifC33OV[p], zzverif.BigNonNeg("amount"))
	zzverif.Assert(err == nil, "PutRetrieveTraffic succeeds")
	_ = s2.Pay(context.Background(), verifC33OV[p], verifC33threshold())
	verifC33settle()
	zzverif.Reach(reach)
}
