package cheque

import (
	"context"
	"encoding/hex"
	"errors"
	"math/big"

	"github.com/ethereum/go-ethereum/common"
	"github.com/gauss-project/aurorafs/pkg/shed/driver"
	"github.com/gauss-project/aurorafs/pkg/storage"
	"github.com/gauss-project/aurorafs/pkg/zzverif"
)

// ---------------------------------------------------------------------------
// C30 (cheque-store level): chequeStore.ReceiveCheque / LastReceivedCheque.
//
// Environment (everything else is the real code):
//   * state store    = verifC30Store, typed in-memory map key -> SignedCheque
//                      (deep copy on Put and Get = exact JSON round trip);
//   * signature      = abstract signature scheme: the RecoverChequeFunc handed
//                      to NewChequeStore is an UNINTERPRETED function of the
//                      whole signed cheque (recipient, stated issuer, payout,
//                      signature bytes): whether recovery succeeds and which
//                      address it yields are arbitrary but deterministic in
//                      (content, signature) - exactly what the code may assume
//                      of ECDSA recovery. In particular the same signature
//                      bytes on different contents may recover to different
//                      addresses (a copied signature), and different
//                      signatures may recover to the same one. The payout (an
//                      unbounded integer) enters the function through its
//                      index among the distinct payouts of the history. The
//                      real ECDSA/EIP-712 code is outside the claim;
//   * store keys     = lastReceivedChequeKey is replaced under gosym by
//                      verifC30Key (prefix + "_" + lower-case hex of the
//                      address) because the engine's Sprintf cannot format a
//                      [20]byte with %x. Natively the real function runs; both
//                      are injective in the address, which is all that the
//                      typed store looks at.
// ---------------------------------------------------------------------------

// pkg/crypto/eip712 is a root only so that this package's initialiser (which
// reads eip712.EIP712DomainType before it reaches the error sentinels) runs to
// completion.
//verif:root pkg/crypto/eip712
//verif:stub lastReceivedChequeKey = verifC30Key
//verif:merge (*verifC30Store).find

func verifC30Key(chainAddress common.Address) string {
	return lastReceivedChequePrefix + "_" + hex.EncodeToString(chainAddress[:])
}

type verifC30Store struct {
	keys []string
	vals []SignedCheque
	puts int
}

func (s *verifC30Store) find(key string) int {
	r := -1
	for i, k := range s.keys {
		if k == key {
			r = i
		}
	}
	return r
}

func verifC30Clone(c *SignedCheque) SignedCheque {
	out := *c
	if c.CumulativePayout != nil {
		out.CumulativePayout = new(big.Int).Set(c.CumulativePayout)
	}
	if c.Signature != nil {
		out.Signature = append([]byte{}, c.Signature...)
	}
	return out
}

func (s *verifC30Store) Get(key string, i interface{}) error {
	idx := s.find(key)
	if idx < 0 {
		return storage.ErrNotFound
	}
	c := verifC30Clone(&s.vals[idx])
	switch p := i.(type) {
	case **SignedCheque:
		*p = &c
	case *SignedCheque:
		*p = c
	default:
		panic("verifC30Store.Get: unexpected type")
	}
	return nil
}

func (s *verifC30Store) Put(key string, i interface{}) error {
	var c SignedCheque
	switch v := i.(type) {
	case *SignedCheque:
		c = verifC30Clone(v)
	case SignedCheque:
		c = verifC30Clone(&v)
	default:
		panic("verifC30Store.Put: unexpected type")
	}
	s.puts++
	if idx := s.find(key); idx >= 0 {
		s.vals[idx] = c
		return nil
	}
	s.keys = append(s.keys, key)
	s.vals = append(s.vals, c)
	return nil
}
func (s *verifC30Store) Delete(key string) error                               { panic("unused") }
func (s *verifC30Store) Iterate(prefix string, fn storage.StateIterFunc) error { panic("unused") }
func (s *verifC30Store) DB() driver.BatchDB                                    { return nil }
func (s *verifC30Store) Close() error                                          { return nil }

var verifC30ErrBadSig = errors.New("verif: signature does not recover")

// verifC30SigLen: signatures are arbitrary byte strings of this length (only
// their identity matters to the abstract scheme).
const verifC30SigLen = 3

// verifC30Payouts: every payout the harness has put on a cheque so far; a
// payout is named by the index of its first occurrence (equal payouts get
// equal names, different payouts different names).
var verifC30Payouts []*big.Int

func verifC30PayoutID(p *big.Int) byte {
	id := byte(0xff)
	for i := len(verifC30Payouts) - 1; i >= 0; i-- {
		if verifC30Payouts[i].Cmp(p) == 0 {
			id = byte(i)
		}
	}
	return id
}

// verifC30SigKey: injective encoding of (content, signature) of a cheque.
func verifC30SigKey(c *SignedCheque) []byte {
	k := make([]byte, 0, 41+len(c.Signature))
	k = append(k, c.Recipient[:]...)
	k = append(k, c.Beneficiary[:]...)
	k = append(k, verifC30PayoutID(c.CumulativePayout))
	return append(k, c.Signature...)
}

// verifC30SigEval: the abstract signature scheme as a total function of the
// cheque: does (content, signature) recover, and to which address (branch-free,
// so that the harness's own evaluation does not split paths).
func verifC30SigEval(c *SignedCheque) (ok bool, a common.Address) {
	key := verifC30SigKey(c)
	ok = zzverif.BoolOf("sig-recovers", key)
	// the recovered address ranges over the same address space as all others
	// (verifC30AddrBytes arbitrary trailing bytes)
	for w := 0; w*8 < verifC30AddrBytes; w++ {
		v := zzverif.U64Of(verifC30SignerUF[w], key)
		for j := 0; j < 8 && w*8+j < verifC30AddrBytes; j++ {
			a[19-w*8-j] = byte(v >> (8 * uint(j)))
		}
	}
	return
}

// verifC30Recover: the RecoverChequeFunc handed to NewChequeStore.
func verifC30Recover(c *SignedCheque, chainID int64) (common.Address, error) {
	ok, a := verifC30SigEval(c)
	if !ok {
		return common.Address{}, verifC30ErrBadSig
	}
	return a, nil
}

var verifC30SignerUF = [3]string{"sig-signer0", "sig-signer1", "sig-signer2"}

// verifC30AddrBytes: number of symbolic (trailing) bytes of every address; the
// leading bytes are zero (tier parameter; 20 = fully symbolic).
var verifC30AddrBytes = 20

func verifC30Addr(name string) common.Address {
	var a common.Address
	copy(a[20-verifC30AddrBytes:], zzverif.BytesN(name, verifC30AddrBytes))
	return a
}

// verifC30Cheque draws an arbitrary cheque: any recipient, any stated issuer
// (Beneficiary field), any integer payout (negative ones included), any
// signature bytes. Returns the cheque, whether its signature recovers at all
// (for this content) and the address it recovers to.
func verifC30Cheque() (c *SignedCheque, sigOK bool, signer common.Address) {
	payout := zzverif.BigNonNeg("payout")
	if zzverif.Bool("negative") {
		payout = new(big.Int).Neg(payout)
	}
	verifC30Payouts = append(verifC30Payouts, new(big.Int).Set(payout))
	sig := zzverif.BytesN("sig", verifC30SigLen)
	c = &SignedCheque{
		Cheque: Cheque{
			Recipient:        verifC30Addr("recipient"),
			Beneficiary:      verifC30Addr("issuer"),
			CumulativePayout: payout,
		},
		Signature: sig,
	}
	// what the signature scheme says about exactly this cheque (evaluated on
	// a copy, before the code under test sees the cheque)
	cp := verifC30Clone(c)
	sigOK, signer = verifC30SigEval(&cp)
	return
}

// VerifC30_ChequeStore: an arbitrary history of cheques handed to the real
// cheque store. X is an arbitrary (symbolic) issuer address: everything that
// is asserted "per issuer" is asserted for X, hence for every issuer.
// Addresses: leading bytes zero, the last 2 / 4 bytes arbitrary.
func VerifC30_ChequeStore() {
	verifC30AddrBytes = zzverif.Param("address-symbolic-bytes", 2, 4)
	verifC30Run(zzverif.Param("steps", 3, 4))
	zzverif.Reach("C30-store")
}

// VerifC30_ChequeStoreFullAddress: the same with all 20 bytes of every address
// arbitrary, over shorter histories.
func VerifC30_ChequeStoreFullAddress() {
	verifC30AddrBytes = 20
	verifC30Run(zzverif.Param("steps", 2, 3))
	zzverif.Reach("C30-store-full-address")
}

func verifC30Run(steps int) {
	verifC30Payouts = nil
	self := verifC30Addr("self")
	st := &verifC30Store{}
	cs := NewChequeStore(st, self, verifC30Recover, 7)

	x := verifC30Addr("X")
	refMax := big.NewInt(0)   // highest accepted cumulative payout of issuer X
	credited := big.NewInt(0) // sum of the amounts ReceiveCheque reported for X
	acceptedX := false

	for s := 0; s < steps; s++ {
		c, sigOK, signer := verifC30Cheque()
		// the caller keeps its own copy of what it sent
		recipient, issuer := c.Recipient, c.Beneficiary
		payout := new(big.Int).Set(c.CumulativePayout)
		putsBefore := st.puts

		amount, err := cs.ReceiveCheque(context.Background(), c)

		if err == nil {
			zzverif.Assert(recipient == self, "accepted => names this node as recipient")
			zzverif.Assert(sigOK && signer == issuer, "accepted => signature of the stated issuer")
			zzverif.Assert(amount != nil && amount.Sign() > 0, "accepted => positive amount credited")
			if issuer == x {
				zzverif.Assert(payout.Cmp(refMax) > 0, "accepted => raises the issuer's cumulative payout")
				credited.Add(credited, amount)
				if payout.Cmp(refMax) > 0 {
					refMax = payout
				}
				acceptedX = true
			}
			zzverif.Reach("C30-store-accepted")
		} else {
			zzverif.Assert(amount == nil, "rejected => nothing credited")
			zzverif.Assert(st.puts == putsBefore, "rejected => nothing stored")
		}

		// history clause, checked after every step
		zzverif.Assert(credited.Cmp(refMax) == 0, "credited total of issuer = highest accepted cumulative payout")
		last, lerr := cs.LastReceivedCheque(x)
		if acceptedX {
			zzverif.Assert(lerr == nil && last != nil, "LastReceivedCheque finds the accepted cheque")
			zzverif.Assert(last.CumulativePayout.Cmp(refMax) == 0, "stored last cheque = highest accepted cumulative payout")
			zzverif.Assert(last.Beneficiary == x && last.Recipient == self, "stored last cheque is the issuer's and addressed to this node")
		} else {
			zzverif.Assert(lerr == ErrNoCheque, "no accepted cheque => ErrNoCheque")
			zzverif.Assert(last != nil && last.CumulativePayout.Sign() == 0, "no accepted cheque => zero payout")
		}
	}
}
