package traffic

// C31: issued cheques never inflate the available balance.
//
// The real Service methods (Pay/issue/putSendCheque/AvailableBalance/
// PutRetrieveTraffic/retrieveTraffic/trafficInit/getAllAddress/replaceTraffic/
// trafficPeerChainUpdate/trafficPeerChequeUpdate/maxBigint/CashCheque/
// cashChequeReceiptUpdate) run against harness stubs for the chain back end,
// the cheque store, the signer, the cheque protocol, the address book, the
// cash-out service and the pub/sub hub. All amounts are arbitrary non-negative
// big integers; the engine models *big.Int cells with identity and in-place
// mutation, so sharing of one big.Int object between per-peer totals is visible.

import (
	"context"
	"errors"
	"math/big"
	"time"

	"github.com/ethereum/go-ethereum/common"
	"github.com/gauss-project/aurorafs/pkg/boson"
	"github.com/gauss-project/aurorafs/pkg/logging"
	"github.com/gauss-project/aurorafs/pkg/settlement/chain"
	chequePkg "github.com/gauss-project/aurorafs/pkg/settlement/traffic/cheque"
	"github.com/gauss-project/aurorafs/pkg/subscribe"
	"github.com/gauss-project/aurorafs/pkg/zzverif"
)

//verif:root pkg/boson
//verif:noop (github.com/ethereum/go-ethereum/common.Hash).String
//verif:go-ignore (*Service).PublishHeader, (*Service).PublishTrafficCheque

const verifC31N = 2 // peers

var (
	verifC31Self = common.Address{0xaa}
	verifC31CA   = [verifC31N]common.Address{{0x01}, {0x02}}
	verifC31OV   = [verifC31N]boson.Address{boson.NewAddress([]byte{0x11}), boson.NewAddress([]byte{0x22})}
	verifC31Err  = errors.New("verif: injected failure")
)

func verifC31idx(a common.Address) int {
	for i := 0; i < verifC31N; i++ {
		if a == verifC31CA[i] {
			return i
		}
	}
	return -1
}

func verifC31cp(x *big.Int) *big.Int { return new(big.Int).Set(x) }

// ---- reference model + world state shared by the stubs ----

type verifC31World struct {
	// the chain (moved only by the harness)
	chainCashed  [verifC31N]*big.Int // amount peer p has cashed from us on chain
	chainBalance *big.Int
	// what the service has been told (last values handed out by the chain stub)
	suppliedCashed  [verifC31N]*big.Int
	suppliedBalance *big.Int
	// reference totals
	owed       [verifC31N]*big.Int // initial persisted total + sum of credits
	delivered  [verifC31N]*big.Int // cumulative payout of the last delivered (or persisted) cheque
	maxEmitted [verifC31N]*big.Int // highest cumulative payout ever signed and handed to the protocol
	emits      int
	// region bookkeeping (history-level description of the known defect)
	fromChain   [verifC31N]bool // at the last refresh the cheque total of p was taken from the on-chain cashed amount
	risk        bool            // a cheque was signed for such a peer since
	signFail    bool            // signer may fail (tier parameter)
	cashDone    chan struct{}
	lastReceipt int
}

// ---- chain back end stub ----

type verifC31Chain struct {
	chain.Traffic // unused methods (CashChequeBeneficiary, RetrievedTotal): nil => panic
	w             *verifC31World
}

func (c *verifC31Chain) TransferredAddress(common.Address) ([]common.Address, error) {
	return nil, nil
}
func (c *verifC31Chain) RetrievedAddress(common.Address) ([]common.Address, error) {
	return []common.Address{verifC31CA[0], verifC31CA[1]}, nil
}
func (c *verifC31Chain) BalanceOf(a common.Address) (*big.Int, error) {
	if a == verifC31Self {
		c.w.suppliedBalance = verifC31cp(c.w.chainBalance)
		return verifC31cp(c.w.chainBalance), nil
	}
	return big.NewInt(0), nil
}
func (c *verifC31Chain) TransferredTotal(common.Address) (*big.Int, error) {
	return big.NewInt(0), nil
}
func (c *verifC31Chain) TransAmount(beneficiary, recipient common.Address) (*big.Int, error) {
	if beneficiary == verifC31Self {
		// what `recipient` has cashed from us
		p := verifC31idx(recipient)
		c.w.suppliedCashed[p] = verifC31cp(c.w.chainCashed[p])
		return verifC31cp(c.w.chainCashed[p]), nil
	}
	// what we cashed from the peer: not part of the property
	return big.NewInt(0), nil
}

// ---- cheque store stub: typed in-memory records, value semantics (every
// Put stores a copy, every Get hands out a fresh copy, like the JSON state store) ----

type verifC31Store struct {
	sendCheque    [verifC31N]*chequePkg.Cheque
	retrieve      [verifC31N]*big.Int
	transfer      [verifC31N]*big.Int
	chainRetrieve [verifC31N]*big.Int
	chainTransfer [verifC31N]*big.Int
}

func verifC31get(x *big.Int) (*big.Int, error) {
	if x == nil {
		return big.NewInt(0), nil
	}
	return verifC31cp(x), nil
}

func (s *verifC31Store) ReceiveCheque(context.Context, *chequePkg.SignedCheque) (*big.Int, error) {
	panic("unused")
}
func (s *verifC31Store) VerifyCheque(*chequePkg.SignedCheque, int64) (common.Address, error) {
	panic("unused")
}
func (s *verifC31Store) PutSendCheque(_ context.Context, c *chequePkg.Cheque, a common.Address) error {
	s.sendCheque[verifC31idx(a)] = &chequePkg.Cheque{Recipient: c.Recipient, Beneficiary: c.Beneficiary, CumulativePayout: verifC31cp(c.CumulativePayout)}
	return nil
}
func (s *verifC31Store) PutReceivedCheques(common.Address, chequePkg.SignedCheque) error {
	panic("unused")
}
func (s *verifC31Store) LastReceivedCheque(common.Address) (*chequePkg.SignedCheque, error) {
	return &chequePkg.SignedCheque{Cheque: chequePkg.Cheque{CumulativePayout: big.NewInt(0)}}, chequePkg.ErrNoCheque
}
func (s *verifC31Store) LastReceivedCheques() (map[common.Address]*chequePkg.SignedCheque, error) {
	return map[common.Address]*chequePkg.SignedCheque{}, nil
}
func (s *verifC31Store) LastSendCheque(a common.Address) (*chequePkg.Cheque, error) {
	c := s.sendCheque[verifC31idx(a)]
	if c == nil {
		return &chequePkg.Cheque{CumulativePayout: new(big.Int).SetInt64(0)}, chequePkg.ErrNoCheque
	}
	return &chequePkg.Cheque{Recipient: c.Recipient, Beneficiary: c.Beneficiary, CumulativePayout: verifC31cp(c.CumulativePayout)}, nil
}
func (s *verifC31Store) LastSendCheques() (map[common.Address]*chequePkg.Cheque, error) {
	m := map[common.Address]*chequePkg.Cheque{}
	for i := 0; i < verifC31N; i++ {
		if s.sendCheque[i] != nil {
			m[verifC31CA[i]], _ = s.LastSendCheque(verifC31CA[i])
		}
	}
	return m, nil
}
func (s *verifC31Store) PutRetrieveTraffic(a common.Address, t *big.Int) error {
	s.retrieve[verifC31idx(a)] = verifC31cp(t)
	return nil
}
func (s *verifC31Store) PutTransferTraffic(a common.Address, t *big.Int) error {
	s.transfer[verifC31idx(a)] = verifC31cp(t)
	return nil
}
func (s *verifC31Store) GetRetrieveTraffic(a common.Address) (*big.Int, error) {
	return verifC31get(s.retrieve[verifC31idx(a)])
}
func (s *verifC31Store) GetTransferTraffic(a common.Address) (*big.Int, error) {
	return verifC31get(s.transfer[verifC31idx(a)])
}
func (s *verifC31Store) PutChainRetrieveTraffic(a common.Address, t *big.Int) error {
	s.chainRetrieve[verifC31idx(a)] = verifC31cp(t)
	return nil
}
func (s *verifC31Store) PutChainTransferTraffic(a common.Address, t *big.Int) error {
	s.chainTransfer[verifC31idx(a)] = verifC31cp(t)
	return nil
}
func (s *verifC31Store) GetChainRetrieveTraffic(a common.Address) (*big.Int, error) {
	return verifC31get(s.chainRetrieve[verifC31idx(a)])
}
func (s *verifC31Store) GetChainTransferTraffic(a common.Address) (*big.Int, error) {
	return verifC31get(s.chainTransfer[verifC31idx(a)])
}
func (s *verifC31Store) GetAllRetrieveTransferAddresses() (map[common.Address]struct{}, error) {
	m := map[common.Address]struct{}{}
	for i := 0; i < verifC31N; i++ {
		if s.retrieve[i] != nil || s.transfer[i] != nil {
			m[verifC31CA[i]] = struct{}{}
		}
	}
	return m, nil
}

// ---- signer, protocol, address book, cash-out, pub/sub stubs ----

type verifC31Signer struct{ w *verifC31World }

func (g *verifC31Signer) Sign(c *chequePkg.Cheque) ([]byte, error) {
	p := verifC31idx(c.Recipient)
	if g.w.fromChain[p] {
		g.w.risk = true
	}
	if g.w.signFail && zzverif.Bool("signFail") {
		return nil, verifC31Err
	}
	return []byte{1}, nil
}

type verifC31Proto struct{ w *verifC31World }

// EmitCheque observes every cheque handed to the wire; delivery may fail.
func (e *verifC31Proto) EmitCheque(_ context.Context, peer boson.Address, c *chequePkg.SignedCheque) error {
	w := e.w
	p := verifC31idx(c.Recipient)
	zzverif.Assert(p >= 0 && peer.Equal(verifC31OV[p]), "cheque addressed to the paid peer")
	zzverif.Assert(c.Beneficiary == verifC31Self, "cheque drawn on our own account")
	zzverif.Region("C31/cheque-signed-after-refresh-took-cheque-total-from-chain", w.risk)
	zzverif.Assert(c.CumulativePayout.Cmp(w.delivered[p]) > 0, "cumulative payout strictly increases")
	zzverif.Assert(c.CumulativePayout.Cmp(w.owed[p]) <= 0, "cumulative payout within traffic owed")
	w.emits++
	zzverif.Reach("C31-cheque-emitted")
	if c.CumulativePayout.Cmp(w.maxEmitted[p]) > 0 {
		w.maxEmitted[p] = verifC31cp(c.CumulativePayout)
	}
	if zzverif.Bool("emitFail") {
		return verifC31Err
	}
	w.delivered[p] = verifC31cp(c.CumulativePayout)
	return nil
}

type verifC31Book struct{}

func (verifC31Book) Beneficiary(peer boson.Address) (common.Address, bool) {
	for i := 0; i < verifC31N; i++ {
		if peer.Equal(verifC31OV[i]) {
			return verifC31CA[i], true
		}
	}
	return common.Address{}, false
}
func (verifC31Book) BeneficiaryPeer(a common.Address) (boson.Address, bool) {
	if i := verifC31idx(a); i >= 0 {
		return verifC31OV[i], true
	}
	return boson.ZeroAddress, false
}
func (verifC31Book) PutBeneficiary(boson.Address, common.Address) error { panic("unused") }
func (verifC31Book) InitAddressBook() error                             { return nil }

type verifC31Cashout struct{ w *verifC31World }

func (verifC31Cashout) CashCheque(context.Context, boson.Address, common.Address, common.Address) (common.Hash, error) {
	return common.Hash{0x77}, nil
}

// WaitForReceipt: the receipt is successful (1), failed (0) or unavailable.
func (c verifC31Cashout) WaitForReceipt(context.Context, common.Hash) (uint64, error) {
	c.w.lastReceipt = zzverif.Choose("receipt", 3)
	switch c.w.lastReceipt {
	case 0:
		return 0, nil
	case 1:
		return 1, nil
	}
	return 0, verifC31Err
}

// pub/sub hub: only used to learn that the cash-out receipt worker has finished one item.
type verifC31Pub struct {
	subscribe.SubPub
	w *verifC31World
}

func (h *verifC31Pub) Publish(_ string, kind string, _ string, _ interface{}) error {
	if kind == "cashOut" {
		h.w.cashDone <- struct{}{}
	}
	return nil
}

// ---- rig ----

type verifC31Sink struct{}

func (verifC31Sink) Write(b []byte) (int, error) { return len(b), nil }

const verifC31Region = "C31/cheque-signed-after-refresh-took-cheque-total-from-chain"

func verifC31NewWorld() *verifC31World {
	w := &verifC31World{chainBalance: big.NewInt(0), suppliedBalance: big.NewInt(0), cashDone: make(chan struct{})}
	for p := 0; p < verifC31N; p++ {
		w.chainCashed[p] = big.NewInt(0)
		w.suppliedCashed[p] = big.NewInt(0)
		w.owed[p] = big.NewInt(0)
		w.delivered[p] = big.NewInt(0)
		w.maxEmitted[p] = big.NewInt(0)
	}
	return w
}

// verifC31NewService mirrors New() without the 24h ticker goroutine.
func verifC31NewService(w *verifC31World, st *verifC31Store) *Service {
	s := &Service{
		logger:              logging.New(verifC31Sink{}, 0),
		chainAddress:        verifC31Self,
		trafficChainService: &verifC31Chain{w: w},
		chequeStore:         st,
		cashout:             verifC31Cashout{w},
		addressBook:         verifC31Book{},
		chequeSigner:        &verifC31Signer{w},
		protocol:            &verifC31Proto{w},
		chainID:             1,
		trafficPeers: TrafficPeer{
			trafficPeers: make(map[string]*Traffic),
			balance:      big.NewInt(0),
			totalPaidOut: big.NewInt(0),
		},
		subPub:         &verifC31Pub{w: w},
		cashChequeChan: make(chan cashCheque, 5),
	}
	s.SetNotifyPaymentFunc(func(boson.Address, *big.Int) error { return nil })
	s.cashChequeReceiptUpdate()
	return s
}

// native only: let the fire-and-forget publisher goroutines of the last call finish
func verifC31settle() {
	if !zzverif.Symbolic() {
		time.Sleep(2 * time.Millisecond)
	}
}

// the chain moves: peers may have cashed more of the cheques we signed; the balance is arbitrary
func verifC31moveChain(w *verifC31World) {
	for p := 0; p < verifC31N; p++ {
		nx := new(big.Int).Add(w.chainCashed[p], zzverif.BigNonNeg("cashed+"))
		zzverif.Assume(nx.Cmp(w.maxEmitted[p]) <= 0)
		w.chainCashed[p] = nx
	}
	w.chainBalance = zzverif.BigNonNeg("balance")
}

func (w *verifC31World) cashedRecord(s *Service, p int) *big.Int {
	s.trafficPeers.trafficLock.Lock()
	defer s.trafficPeers.trafficLock.Unlock()
	tr := s.trafficPeers.trafficPeers[verifC31CA[p].String()]
	if tr == nil {
		return big.NewInt(0)
	}
	return verifC31cp(tr.retrieveChainTraffic)
}

// verifC31check: the state clauses of the property, after every step.
func verifC31check(s *Service, w *verifC31World) {
	verifC31settle()
	zzverif.Region(verifC31Region, w.risk)
	want := verifC31cp(w.suppliedBalance)
	for p := 0; p < verifC31N; p++ {
		zzverif.Assert(w.cashedRecord(s, p).Cmp(w.suppliedCashed[p]) == 0, "cashed record = last chain value")
		want.Add(want, w.suppliedCashed[p])
		want.Sub(want, w.owed[p])
	}
	av, err := s.AvailableBalance()
	zzverif.Assert(err == nil, "AvailableBalance succeeds")
	zzverif.Assert(av.Cmp(want) == 0, "available = chain balance + cashed - owed")
}

func verifC31refresh(s *Service, w *verifC31World, st *verifC31Store) {
	for p := 0; p < verifC31N; p++ {
		w.fromChain[p] = st.sendCheque[p] == nil || st.sendCheque[p].CumulativePayout.Cmp(w.chainCashed[p]) <= 0
	}
	err := s.Init()
	zzverif.Assert(err == nil, "Init succeeds")
}

func verifC31step(s *Service, w *verifC31World, st *verifC31Store) {
	ctx := context.Background()
	switch zzverif.Choose("op", 4) {
	case 0: // traffic owed to a peer grows
		p := zzverif.Choose("peer", verifC31N)
		a := zzverif.BigNonNeg("amount")
		err := s.PutRetrieveTraffic(verifC31OV[p], a)
		zzverif.Assert(err == nil, "PutRetrieveTraffic succeeds")
		w.owed[p] = new(big.Int).Add(w.owed[p], a)
	case 1: // pay attempt (delivery may fail)
		p := zzverif.Choose("peer", verifC31N)
		th := new(big.Int).Add(big.NewInt(1), zzverif.BigNonNeg("threshold-1")) // any threshold >= 1
		var before [verifC31N]*big.Int
		for q := 0; q < verifC31N; q++ {
			before[q] = w.cashedRecord(s, q)
		}
		_ = s.Pay(ctx, verifC31OV[p], th)
		zzverif.Region(verifC31Region, w.risk)
		for q := 0; q < verifC31N; q++ {
			zzverif.Assert(w.cashedRecord(s, q).Cmp(before[q]) == 0, "paying keeps the cashed record")
		}
	case 2: // 24h refresh / TrafficInit
		verifC31moveChain(w)
		verifC31refresh(s, w, st)
	case 3: // we cash a peer's cheque; the receipt worker re-reads the chain
		p := zzverif.Choose("peer", verifC31N)
		verifC31moveChain(w)
		_, err := s.CashCheque(ctx, verifC31OV[p])
		zzverif.Assert(err == nil, "CashCheque succeeds")
		<-w.cashDone
		if w.lastReceipt == 1 {
			w.fromChain[p] = false
		}
	}
	verifC31check(s, w)
}

// VerifC31_History: fresh service (state of New()), then any history of
// credit / pay / refresh / cash-out receipt over two peers.
func VerifC31_History() {
	steps := zzverif.Param("steps", 3, 4)
	w := verifC31NewWorld()
	w.signFail = zzverif.Param("signfail", 0, 1) == 1
	st := &verifC31Store{}
	s := verifC31NewService(w, st)
	verifC31check(s, w)
	for i := 0; i < steps; i++ {
		verifC31step(s, w, st)
	}
	zzverif.Reach("C31-history")
}

// VerifC31_Restart: the node starts on an arbitrary consistent persisted state
// (cashed <= last sent cheque <= traffic owed per peer), runs Init, then a history.
func VerifC31_Restart() {
	steps := zzverif.Param("steps", 1, 2)
	w := verifC31NewWorld()
	st := &verifC31Store{}
	for p := 0; p < verifC31N; p++ {
		x := zzverif.BigNonNeg("cashed0")
		c := zzverif.BigNonNeg("cheque0")
		r := zzverif.BigNonNeg("owed0")
		zzverif.Assume(x.Cmp(c) <= 0 && c.Cmp(r) <= 0)
		w.chainCashed[p] = x
		w.delivered[p] = verifC31cp(c)
		w.maxEmitted[p] = verifC31cp(c)
		w.owed[p] = verifC31cp(r)
		if c.Sign() > 0 {
			st.sendCheque[p] = &chequePkg.Cheque{Recipient: verifC31CA[p], Beneficiary: verifC31Self, CumulativePayout: verifC31cp(c)}
		}
		if r.Sign() > 0 {
			st.retrieve[p] = verifC31cp(r)
		}
	}
	w.chainBalance = zzverif.BigNonNeg("balance")
	s := verifC31NewService(w, st)
	verifC31refresh(s, w, st)
	verifC31check(s, w)
	for i := 0; i < steps; i++ {
		verifC31step(s, w, st)
	}
	zzverif.Reach("C31-restart")
}
