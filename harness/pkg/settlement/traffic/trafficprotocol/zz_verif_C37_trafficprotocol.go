package trafficprotocol

// C37 (g): "malformed peer messages never crash the node", cheque protocol
// ("pseudosettle/traffic" and "pseudosettle/init" streams).
//
// The stream handlers `handler`, `initHandler` and the client side `init`
// (which reads the peer's answer) run on arbitrary well-typed decoded
// pb.EmitCheque messages. The JSON decoding of the cheque carried in the
// SignedCheque bytes is replaced (//verif:replace-call, mirrored natively) by
// VerifC37Unmarshal, which yields an ARBITRARY decoding result that real JSON
// can produce: an error, a nil cheque pointer (JSON `null`), or a cheque whose
// CumulativePayout is nil / negative / non-negative and whose Signature is
// nil / empty / 65 bytes, with arbitrary addresses.
//
// Here the Traffic back end is a nondeterministic stub; the composition with
// the real traffic.Service (ReceiveCheque / Handshake / LastReceivedCheque) is
// checked by zz_verif_C37_traffic.go in pkg/settlement/traffic (that package
// imports this one, so it cannot be done here).
//
// The only obligation is the absence of a panic (label no-panic).

import (
	"context"
	"errors"
	"io"
	"math/big"

	"github.com/ethereum/go-ethereum/common"
	"github.com/gauss-project/aurorafs/pkg/boson"
	"github.com/gauss-project/aurorafs/pkg/logging"
	"github.com/gauss-project/aurorafs/pkg/p2p"
	"github.com/gauss-project/aurorafs/pkg/settlement/traffic/cheque"
	"github.com/gauss-project/aurorafs/pkg/settlement/traffic/trafficprotocol/pb"
	"github.com/gauss-project/aurorafs/pkg/zzverif"
	"github.com/gauss-project/aurorafs/pkg/zzverif/zzstream"
	"github.com/gogo/protobuf/proto"
)

//verif:root pkg/boson pkg/zzverif/zzstream pkg/settlement/traffic/cheque
//verif:replace-call encoding/json.Unmarshal = VerifC37Unmarshal
//verif:replace-call encoding/json.Marshal = VerifC37Marshal

var (
	VerifC37errJSON   = errors.New("verif: invalid JSON")
	verifC37errStream = errors.New("verif: stream failure")
	verifC37errBack   = errors.New("verif: back end failure")
)

func verifC37addr(name string) (a common.Address) {
	copy(a[:], zzverif.BytesN(name, 20))
	return a
}

// VerifC37Cheque: an arbitrary value that json.Unmarshal can produce for a
// cheque.SignedCheque object.
func VerifC37Cheque() *cheque.SignedCheque {
	c := &cheque.SignedCheque{}
	c.Recipient = verifC37addr("cheque.recipient")
	c.Beneficiary = verifC37addr("cheque.beneficiary")
	switch zzverif.Choose("cheque.payout", 3) {
	case 0: // field absent or null
	case 1:
		c.CumulativePayout = zzverif.BigNonNeg("cheque.payoutValue")
	case 2:
		c.CumulativePayout = new(big.Int).Neg(zzverif.BigNonNeg("cheque.payoutValue"))
	}
	switch zzverif.Choose("cheque.sig", 3) {
	case 0: // absent or null
	case 1:
		c.Signature = []byte{}
	case 2:
		c.Signature = zzverif.BytesN("cheque.sigValue", 65)
	}
	return c
}

// VerifC37OnNull is called when the decoding result is the nil pointer (used by
// the harness of pkg/settlement/traffic to name the input region of its known
// finding).
var VerifC37OnNull func()

// VerifC37Unmarshal stands for encoding/json.Unmarshal at the call sites of
// this package (targets **cheque.SignedCheque and *cheque.SignedCheque).
func VerifC37Unmarshal(data []byte, v interface{}) error {
	switch t := v.(type) {
	case **cheque.SignedCheque:
		switch zzverif.Choose("json", 3) {
		case 0:
			return VerifC37errJSON
		case 1:
			*t = nil // JSON null
			if VerifC37OnNull != nil {
				VerifC37OnNull()
			}
			return nil
		}
		*t = VerifC37Cheque()
		return nil
	case *cheque.SignedCheque:
		if zzverif.Choose("json", 2) == 0 {
			return VerifC37errJSON
		}
		*t = *VerifC37Cheque() // JSON null leaves the zero value: included
		return nil
	}
	panic("VerifC37Unmarshal: unexpected target type")
}

// VerifC37Marshal stands for encoding/json.Marshal of a cheque (the bytes are
// only sent to the peer).
func VerifC37Marshal(v interface{}) ([]byte, error) {
	if zzverif.Bool("marshalFails") {
		return nil, VerifC37errJSON
	}
	return []byte("{}"), nil
}

// ---- nondeterministic Traffic back end ----

type verifC37traffic struct{}

func (verifC37traffic) ReceiveCheque(ctx context.Context, peer boson.Address, c *cheque.SignedCheque) error {
	if zzverif.Bool("receiveFails") {
		return verifC37errBack
	}
	return nil
}
func (verifC37traffic) Handshake(peer boson.Address, beneficiary common.Address, c cheque.SignedCheque) error {
	if zzverif.Bool("handshakeFails") {
		return verifC37errBack
	}
	return nil
}
func (verifC37traffic) LastReceivedCheque(peer boson.Address) (*cheque.SignedCheque, error) {
	var err error
	if zzverif.Bool("lastFails") {
		err = verifC37errBack
	}
	if zzverif.Bool("lastNil") {
		return nil, err
	}
	return &cheque.SignedCheque{Cheque: cheque.Cheque{CumulativePayout: zzverif.BigNonNeg("last.payout")}}, err
}
func (verifC37traffic) UpdatePeerBalance(peer boson.Address) error { panic("unused") }

// ---- streams ----

type verifC37streamer struct {
	s    *zzstream.Stream
	fail bool
}

func (v *verifC37streamer) NewStream(ctx context.Context, address boson.Address, h p2p.Headers, protocol, version, stream string) (p2p.Stream, error) {
	if v.fail {
		return nil, verifC37errStream
	}
	return v.s, nil
}
func (v *verifC37streamer) NewRelayStream(ctx context.Context, address boson.Address, h p2p.Headers, protocol, version, stream string, midCall bool) (p2p.Stream, error) {
	panic("unused")
}
func (v *verifC37streamer) NewConnChainRelayStream(ctx context.Context, target boson.Address, h p2p.Headers, protocolName, protocolVersion, streamName string) (p2p.Stream, error) {
	panic("unused")
}

// VerifC37EmitCheque: an arbitrary decoded pb.EmitCheque (byte fields absent,
// empty or of various lengths; the address field also shorter/longer than 20).
// With full == false only the address lengths "absent" and 20 are used (the
// harnesses of pkg/settlement/traffic, where the lengths were already covered
// here, use this to keep the path count down).
func VerifC37EmitCheque(full bool) *pb.EmitCheque {
	m := &pb.EmitCheque{}
	lens := []int{-1, 20}
	if full {
		lens = []int{-1, 0, 19, 20, 21}
		if zzverif.Param("moreAddressLengths", 0, 1) == 1 {
			lens = []int{-1, 0, 1, 19, 20, 21, 32, 33}
		}
	}
	if n := lens[zzverif.Choose("msg.addressLen", len(lens))]; n >= 0 {
		m.Address = zzverif.BytesN("msg.address", n)
	}
	// the content of the cheque bytes is irrelevant once JSON decoding is abstracted
	if !full || !zzverif.Bool("msg.chequeAbsent") {
		m.SignedCheque = zzverif.BytesN("msg.cheque", 2)
	}
	return m
}

// VerifC37Stream: a stream carrying 0 or 1 EmitCheque messages followed by EOF
// or a read error; writes may fail. With full == false: exactly one message,
// then EOF; writes may fail.
func VerifC37Stream(full bool) *zzstream.Stream {
	var in []proto.Message
	if !full || !zzverif.Bool("noMessage") {
		in = append(in, VerifC37EmitCheque(full))
	}
	s := zzstream.New(in...)
	if full && zzverif.Bool("readFails") {
		s.InErr = verifC37errStream
	}
	if zzverif.Bool("writeFails") {
		s.WriteErr = verifC37errStream
	}
	return s
}

func verifC37service(st p2p.Streamer) *Service {
	svc := New(st, logging.New(io.Discard, 0), verifC37addr("own"))
	svc.SetTraffic(verifC37traffic{})
	return svc
}

func verifC37peer() p2p.Peer {
	return p2p.Peer{Address: boson.NewAddress(zzverif.BytesN("peer", 32))}
}

// VerifC37_ChequeProtocol runs one of the three scenarios below.
func VerifC37_ChequeProtocol() {
	switch zzverif.Choose("scenario", 3) {
	case 0:
		verifC37chequeHandler()
	case 1:
		verifC37chequeInitHandler()
	case 2:
		verifC37chequeInitClient()
	}
}

// verifC37chequeHandler: stream "traffic" (a peer emits a cheque).
func verifC37chequeHandler() {
	svc := verifC37service(nil)
	h := svc.Protocol().StreamSpecs[0].Handler
	_ = h(context.Background(), verifC37peer(), VerifC37Stream(true))
	zzverif.Yield()
	zzverif.Reach("C37-cheque-handler")
}

// verifC37chequeInitHandler: stream "init" (handshake, server side).
func verifC37chequeInitHandler() {
	svc := verifC37service(nil)
	h := svc.Protocol().StreamSpecs[1].Handler
	_ = h(context.Background(), verifC37peer(), VerifC37Stream(true))
	zzverif.Yield()
	zzverif.Reach("C37-cheque-init-handler")
}

// verifC37chequeInitClient: ConnectOut hook (handshake, client side: sends the
// last received cheque and reads the peer's answer).
func verifC37chequeInitClient() {
	st := &verifC37streamer{s: VerifC37Stream(true), fail: zzverif.Bool("newStreamFails")}
	svc := verifC37service(st)
	_ = svc.Protocol().ConnectOut(context.Background(), verifC37peer())
	zzverif.Yield()
	zzverif.Reach("C37-cheque-init-client")
}
