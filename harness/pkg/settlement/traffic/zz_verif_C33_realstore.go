package traffic

// C33, second rig: the REAL cheque store (pkg/settlement/traffic/cheque:
// NewChequeStore, key derivation, Put*/Get*/Last*Cheque(s), ReceiveCheque,
// GetAllRetrieveTransferAddresses, keyChainAddress) over a typed in-memory
// state store that survives the restart.

import (
	"math/big"
	"strings"

	"github.com/ethereum/go-ethereum/common"
	"github.com/gauss-project/aurorafs/pkg/settlement/traffic/cheque"
	"github.com/gauss-project/aurorafs/pkg/shed/driver"
	"github.com/gauss-project/aurorafs/pkg/storage"
	"github.com/gauss-project/aurorafs/pkg/zzverif"
)

//verif:root pkg/settlement/traffic/cheque pkg/crypto/eip712

// verifC33KV: state store holding typed deep copies (the JSON round trip of
// *big.Int, cheque.Cheque and cheque.SignedCheque is assumed exact).
type verifC33KV struct {
	keys []string
	vals []interface{}
}

func verifC33cpCheque(c *cheque.Cheque) *cheque.Cheque {
	return &cheque.Cheque{Recipient: c.Recipient, Beneficiary: c.Beneficiary, CumulativePayout: verifC33cp(c.CumulativePayout)}
}
func verifC33cpSigned(c *cheque.SignedCheque) *cheque.SignedCheque {
	return &cheque.SignedCheque{Cheque: *verifC33cpCheque(&c.Cheque), Signature: append([]byte{}, c.Signature...)}
}

func (s *verifC33KV) find(key string) int {
	for i, k := range s.keys {
		if k == key {
			return i
		}
	}
	return -1
}
func (s *verifC33KV) Get(key string, i interface{}) error {
	idx := s.find(key)
	if idx < 0 {
		return storage.ErrNotFound
	}
	switch x := i.(type) {
	case **big.Int:
		*x = verifC33cp(s.vals[idx].(*big.Int))
	case **cheque.Cheque:
		*x = verifC33cpCheque(s.vals[idx].(*cheque.Cheque))
	case **cheque.SignedCheque:
		*x = verifC33cpSigned(s.vals[idx].(*cheque.SignedCheque))
	default:
		panic("verifC33KV.Get: unexpected record type")
	}
	return nil
}
func (s *verifC33KV) Put(key string, i interface{}) error {
	var v interface{}
	switch x := i.(type) {
	case *big.Int:
		v = verifC33cp(x)
	case *cheque.Cheque:
		v = verifC33cpCheque(x)
	case *cheque.SignedCheque:
		v = verifC33cpSigned(x)
	default:
		panic("verifC33KV.Put: unexpected record type")
	}
	if idx := s.find(key); idx >= 0 {
		s.vals[idx] = v
		return nil
	}
	s.keys = append(s.keys, key)
	s.vals = append(s.vals, v)
	return nil
}
func (s *verifC33KV) Delete(string) error { panic("unused") }
func (s *verifC33KV) Iterate(prefix string, fn storage.StateIterFunc) error {
	ks := append([]string{}, s.keys...)
	for _, k := range ks {
		if !strings.HasPrefix(k, prefix) {
			continue
		}
		stop, err := fn([]byte(k), nil)
		if err != nil {
			return err
		}
		if stop {
			return nil
		}
	}
	return nil
}
func (s *verifC33KV) DB() driver.BatchDB { return nil }
func (s *verifC33KV) Close() error       { return nil }

// the signature recovery is C30's business: every cheque is taken to be signed by its stated issuer
func verifC33recover(c *cheque.SignedCheque, _ int64) (common.Address, error) {
	return c.Beneficiary, nil
}

// VerifC33_RealStore: as VerifC33_Restart, with the real cheque store over a
// persistent typed state store.
//
// Peer 0 is NEW to the contract (first seen in this run: on neither of the
// chain's address lists, nothing cashed in either direction), so after the
// restart it is restored only through the records the real cheque store keeps
// and lists itself (GetAllRetrieveTransferAddresses over the state store's key
// prefixes) - e.g. a peer that was only served, or only consumed from. Peer 1
// is listed by the contract with arbitrary on-chain totals. Thorough tier:
// peer 0 listed or not (symbolic), and the histories include the handshake in
// which a peer shows a cheque of ours (see verifC33step).
func VerifC33_RealStore() {
	st := cheque.NewChequeStore(&verifC33KV{}, verifC33Self, verifC33recover, 1)
	ops := verifC33basicOps[:4]
	unlisted := [verifC33N]bool{true, false}
	if zzverif.Param("allops", 0, 1) == 1 {
		ops = append(append([]int{}, verifC33basicOps...), verifC33opHandshake)
		unlisted[0] = zzverif.Bool("peer0NewToTheContract")
	}
	verifC33run(st, 2, ops, zzverif.Param("chaindown", 0, 1) == 1, unlisted, "C33-restart-realstore")
}
