package traffic

// C37 (g), second half: the cheque stream handlers of trafficprotocol composed
// with the REAL traffic.Service (ReceiveCheque, Handshake, LastReceivedCheque,
// UpdatePeerBalance, getTraffic, putSendCheque, PublishTrafficCheque) and the
// REAL cheque.chequeStore (ReceiveCheque, VerifyCheque, LastSendCheque,
// LastReceivedCheque, PutSendCheque).
//
// Incoming messages and the JSON decoding result are arbitrary (see
// trafficprotocol/zz_verif_C37_trafficprotocol.go: VerifC37Stream,
// VerifC37Unmarshal). Environment stubs (all nondeterministic):
//   - state store: Get = not found | other error | an arbitrary WELL-FORMED
//     stored cheque (non-nil non-negative payout: only validated cheques are
//     ever stored); Put = ok | error;
//   - address book: peer known or not (arbitrary beneficiary), reverse lookup
//     arbitrary, PutBeneficiary makes the peer known;
//   - chain: BalanceOf = arbitrary non-negative amount | error;
//   - signature recovery (cheque.RecoverChequeFunc): error when the payout is
//     nil or negative or the signature does not have 65 bytes (that is what
//     RecoverCheque -> eip712 parseInteger / RecoverEIP712 do), otherwise an
//     error or an ARBITRARY issuer address (over-approximates the crypto);
//   - subscription hub: Publish is a no-op.
//
// The only obligation is the absence of a panic (label no-panic), including
// the goroutine `go s.PublishTrafficCheque(...)` started by the handlers.

import (
	"context"
	"errors"
	"io"
	"math/big"

	"github.com/ethereum/go-ethereum/common"
	"github.com/ethereum/go-ethereum/core/types"
	"github.com/gauss-project/aurorafs/pkg/boson"
	"github.com/gauss-project/aurorafs/pkg/logging"
	"github.com/gauss-project/aurorafs/pkg/p2p"
	"github.com/gauss-project/aurorafs/pkg/settlement/chain"
	chequePkg "github.com/gauss-project/aurorafs/pkg/settlement/traffic/cheque"
	"github.com/gauss-project/aurorafs/pkg/settlement/traffic/trafficprotocol"
	"github.com/gauss-project/aurorafs/pkg/shed/driver"
	"github.com/gauss-project/aurorafs/pkg/storage"
	"github.com/gauss-project/aurorafs/pkg/subscribe"
	"github.com/gauss-project/aurorafs/pkg/zzverif"
)

//verif:root pkg/boson pkg/zzverif/zzstream pkg/settlement/traffic/cheque pkg/settlement/traffic/trafficprotocol pkg/crypto/eip712

var verifC37errEnv = errors.New("verif: environment failure")

func verifC37addr(name string) (a common.Address) {
	copy(a[:], zzverif.BytesN(name, 20))
	return a
}

// ---- state store ----

type verifC37store struct{}

func (verifC37store) Get(key string, i interface{}) error {
	switch zzverif.Choose("store.get", 3) {
	case 0:
		return storage.ErrNotFound
	case 1:
		return verifC37errEnv
	}
	switch t := i.(type) {
	case **chequePkg.SignedCheque:
		*t = &chequePkg.SignedCheque{
			Cheque: chequePkg.Cheque{
				Recipient:        verifC37addr("stored.recipient"),
				Beneficiary:      verifC37addr("stored.beneficiary"),
				CumulativePayout: zzverif.BigNonNeg("stored.payout"),
			},
			Signature: zzverif.BytesN("stored.sig", 65),
		}
	case **chequePkg.Cheque:
		*t = &chequePkg.Cheque{
			Recipient:        verifC37addr("stored.recipient"),
			Beneficiary:      verifC37addr("stored.beneficiary"),
			CumulativePayout: zzverif.BigNonNeg("stored.payout"),
		}
	default:
		panic("verifC37store.Get: unexpected target type")
	}
	return nil
}
func (verifC37store) Put(key string, i interface{}) error {
	if zzverif.Bool("store.putFails") {
		return verifC37errEnv
	}
	return nil
}
func (verifC37store) Delete(key string) error                                  { panic("unused") }
func (verifC37store) Iterate(prefix string, fn storage.StateIterFunc) error    { panic("unused") }
func (verifC37store) DB() driver.BatchDB                                       { return nil }
func (verifC37store) Close() error                                             { return nil }

// ---- address book ----

type verifC37book struct {
	known       bool
	beneficiary common.Address
}

func (b *verifC37book) Beneficiary(peer boson.Address) (common.Address, bool) {
	if !b.known {
		return common.Address{}, false
	}
	return b.beneficiary, true
}
func (b *verifC37book) BeneficiaryPeer(beneficiary common.Address) (boson.Address, bool) {
	if zzverif.Bool("book.reverseKnown") {
		return boson.NewAddress(zzverif.BytesN("book.reversePeer", 32)), true
	}
	return boson.Address{}, false
}
func (b *verifC37book) PutBeneficiary(peer boson.Address, beneficiary common.Address) error {
	if zzverif.Bool("book.putFails") {
		return verifC37errEnv
	}
	b.known, b.beneficiary = true, beneficiary
	return nil
}
func (b *verifC37book) InitAddressBook() error { panic("unused") }

// ---- chain ----

type verifC37chain struct{}

func (verifC37chain) BalanceOf(account common.Address) (*big.Int, error) {
	if zzverif.Bool("chain.balanceFails") {
		return nil, verifC37errEnv
	}
	return zzverif.BigNonNeg("chain.balance"), nil
}
func (verifC37chain) TransferredAddress(address common.Address) ([]common.Address, error) {
	panic("unused")
}
func (verifC37chain) RetrievedAddress(address common.Address) ([]common.Address, error) {
	panic("unused")
}
func (verifC37chain) RetrievedTotal(address common.Address) (*big.Int, error)   { panic("unused") }
func (verifC37chain) TransferredTotal(address common.Address) (*big.Int, error) { panic("unused") }
func (verifC37chain) TransAmount(beneficiary, recipient common.Address) (*big.Int, error) {
	panic("unused")
}
func (verifC37chain) CashChequeBeneficiary(ctx context.Context, peer boson.Address, beneficiary, recipient common.Address, cumulativePayout *big.Int, signature []byte) (*types.Transaction, error) {
	panic("unused")
}

var _ chain.Traffic = verifC37chain{}

// ---- subscription hub ----

type verifC37subpub struct{}

func (verifC37subpub) Subscribe(n subscribe.INotifier, nameSpace, kind, param string) error {
	panic("unused")
}
func (verifC37subpub) Publish(nameSpace, kind, param string, message interface{}) error { return nil }
func (verifC37subpub) PublishArray(nameSpace, kind, field string, messageList []interface{}) error {
	return nil
}

// ---- signature recovery ----

func verifC37recover(c *chequePkg.SignedCheque, chainID int64) (common.Address, error) {
	if c.CumulativePayout == nil || c.CumulativePayout.Sign() < 0 || len(c.Signature) != 65 {
		return common.Address{}, verifC37errEnv
	}
	if zzverif.Bool("recover.fails") {
		return common.Address{}, verifC37errEnv
	}
	return verifC37addr("recover.issuer"), nil
}

// ---- the node ----

type verifC37streamer struct{ s p2p.Stream }

func (v *verifC37streamer) NewStream(ctx context.Context, address boson.Address, h p2p.Headers, protocol, version, stream string) (p2p.Stream, error) {
	if zzverif.Bool("newStreamFails") {
		return nil, verifC37errEnv
	}
	return v.s, nil
}
func (v *verifC37streamer) NewRelayStream(ctx context.Context, address boson.Address, h p2p.Headers, protocol, version, stream string, midCall bool) (p2p.Stream, error) {
	panic("unused")
}
func (v *verifC37streamer) NewConnChainRelayStream(ctx context.Context, target boson.Address, h p2p.Headers, protocolName, protocolVersion, streamName string) (p2p.Stream, error) {
	panic("unused")
}

func verifC37node(st p2p.Streamer) (*Service, *trafficprotocol.Service, *verifC37book) {
	own := verifC37addr("own")
	logger := logging.New(io.Discard, 0)
	book := &verifC37book{known: zzverif.Bool("book.known")}
	if book.known {
		book.beneficiary = verifC37addr("book.beneficiary")
	}
	tp := trafficprotocol.New(st, logger, own)
	svc := &Service{
		logger:              logger,
		chainAddress:        own,
		store:               verifC37store{},
		chequeStore:         chequePkg.NewChequeStore(verifC37store{}, own, verifC37recover, 1),
		trafficChainService: verifC37chain{},
		addressBook:         book,
		protocol:            tp,
		chainID:             1,
		subPub:              verifC37subpub{},
		trafficPeers: TrafficPeer{
			trafficPeers: make(map[string]*Traffic),
			balance:      big.NewInt(0),
			totalPaidOut: big.NewInt(0),
		},
	}
	tp.SetTraffic(svc)
	return svc, tp, book
}

func verifC37peer() p2p.Peer {
	return p2p.Peer{Address: boson.NewAddress(zzverif.BytesN("peer", 32))}
}

// VerifC37_TrafficCheques runs one of the three scenarios below.
func VerifC37_TrafficCheques() {
	trafficprotocol.VerifC37OnNull = nil
	switch zzverif.Choose("scenario", 3) {
	case 0:
		verifC37trafficReceiveCheque()
	case 1:
		verifC37trafficHandshake()
	case 2:
		verifC37trafficHandshakeClient()
	}
}

// verifC37trafficReceiveCheque: stream "traffic": trafficprotocol.handler ->
// traffic.ReceiveCheque -> chequeStore.ReceiveCheque -> PublishTrafficCheque.
func verifC37trafficReceiveCheque() {
	_, tp, book := verifC37node(nil)
	s := trafficprotocol.VerifC37Stream(zzverif.Param("fullStream", 0, 1) == 1)
	// known finding: the JSON text `null` decodes to a nil *SignedCheque which
	// traffic.ReceiveCheque dereferences when the peer's beneficiary is known
	trafficprotocol.VerifC37OnNull = func() {
		zzverif.Region("C37/null-cheque-from-known-peer", book.known)
	}
	h := tp.Protocol().StreamSpecs[0].Handler
	_ = h(context.Background(), verifC37peer(), s)
	zzverif.Yield()
	zzverif.Reach("C37-traffic-receive-cheque")
}

// verifC37trafficHandshake: stream "init", server side:
// trafficprotocol.initHandler -> traffic.Handshake (-> UpdatePeerBalance,
// VerifyCheque, LastSendCheque, putSendCheque) -> traffic.LastReceivedCheque.
func verifC37trafficHandshake() {
	_, tp, _ := verifC37node(nil)
	s := trafficprotocol.VerifC37Stream(zzverif.Param("fullStream", 0, 1) == 1)
	h := tp.Protocol().StreamSpecs[1].Handler
	_ = h(context.Background(), verifC37peer(), s)
	zzverif.Yield()
	zzverif.Reach("C37-traffic-handshake")
}

// verifC37trafficHandshakeClient: ConnectOut hook: trafficprotocol.init reads
// the peer's answer and calls traffic.Handshake.
func verifC37trafficHandshakeClient() {
	st := &verifC37streamer{s: trafficprotocol.VerifC37Stream(zzverif.Param("fullStream", 0, 1) == 1)}
	_, tp, _ := verifC37node(st)
	_ = tp.Protocol().ConnectOut(context.Background(), verifC37peer())
	zzverif.Yield()
	zzverif.Reach("C37-traffic-handshake-client")
}
