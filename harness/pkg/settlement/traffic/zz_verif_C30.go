package traffic

import (
	"context"
	"encoding/hex"
	"errors"
	"math/big"

	"github.com/ethereum/go-ethereum/common"
	"github.com/gauss-project/aurorafs/pkg/boson"
	"github.com/gauss-project/aurorafs/pkg/logging"
	chequePkg "github.com/gauss-project/aurorafs/pkg/settlement/traffic/cheque"
	"github.com/gauss-project/aurorafs/pkg/shed/driver"
	"github.com/gauss-project/aurorafs/pkg/storage"
	"github.com/gauss-project/aurorafs/pkg/subscribe"
	"github.com/gauss-project/aurorafs/pkg/zzverif"
)

// ---------------------------------------------------------------------------
// C30 (service level): traffic.(*Service).ReceiveCheque on top of the REAL
// cheque store (chequeStore.ReceiveCheque / LastReceivedCheque) and getTraffic.
//
// Environment:
//   * Service built with the real constructor New; its two background
//     goroutines (24 h chain refresh ticker, cash-out receipt loop) and
//     newMetrics are no-ops - none of them is involved in ReceiveCheque;
//   * cheque store    = real chequePkg.NewChequeStore over verifC30Store (typed
//                       in-memory store, deep copies = exact JSON round trip),
//                       recipient = the node's chain address as in pkg/node/chain.go;
//   * signature       = abstract scheme: verifC30Recover is an uninterpreted
//                       function of (recipient, stated issuer, payout, signature
//                       bytes) - success and recovered address arbitrary but
//                       deterministic in content AND signature (see the
//                       cheque-package harness; real ECDSA outside the claim);
//   * address book    = verifC30Book: two peers, each unregistered or registered
//                       with an arbitrary chain address, fixed during the history;
//   * subPub          = verifC30SubPub (notifications dropped);
//   * chain service, cash-out, p2p, signer, protocol = nil (never touched by
//     ReceiveCheque);
//   * common.Address.String (external, EIP-55 hex) is replaced under gosym by
//     lower-case hex: only used as the key of the per-address traffic map,
//     both are injective. lastReceivedChequeKey: see the cheque-package harness.
// ---------------------------------------------------------------------------

//verif:root pkg/settlement/traffic/cheque pkg/crypto/eip712 pkg/boson
//verif:stub (github.com/ethereum/go-ethereum/common.Address).String = verifC30AddrString
//verif:noop (*Service).triggerRefreshInit, (*Service).cashChequeReceiptUpdate, newMetrics
//verif:merge (*verifC30Store).find
// the change notification (subPub) is outside the claim; natively it runs
//verif:go-ignore (*Service).PublishTrafficCheque

func verifC30AddrString(a common.Address) string {
	return "0x" + hex.EncodeToString(a[:])
}

// ---- state store (same as in the cheque-package harness) ----

type verifC30Store struct {
	keys []string
	vals []chequePkg.SignedCheque
	puts int
}

func (s *verifC30Store) find(key string) int {
	r := -1
	for i, k := range s.keys {
		if k == key {
			r = i
		}
	}
	return r
}

func verifC30Clone(c *chequePkg.SignedCheque) chequePkg.SignedCheque {
	out := *c
	if c.CumulativePayout != nil {
		out.CumulativePayout = new(big.Int).Set(c.CumulativePayout)
	}
	if c.Signature != nil {
		out.Signature = append([]byte{}, c.Signature...)
	}
	return out
}

func (s *verifC30Store) Get(key string, i interface{}) error {
	idx := s.find(key)
	if idx < 0 {
		return storage.ErrNotFound
	}
	c := verifC30Clone(&s.vals[idx])
	switch p := i.(type) {
	case **chequePkg.SignedCheque:
		*p = &c
	case *chequePkg.SignedCheque:
		*p = c
	default:
		panic("verifC30Store.Get: unexpected type")
	}
	return nil
}

func (s *verifC30Store) Put(key string, i interface{}) error {
	var c chequePkg.SignedCheque
	switch v := i.(type) {
	case *chequePkg.SignedCheque:
		c = verifC30Clone(v)
	case chequePkg.SignedCheque:
		c = verifC30Clone(&v)
	default:
		panic("verifC30Store.Put: unexpected type")
	}
	s.puts++
	if idx := s.find(key); idx >= 0 {
		s.vals[idx] = c
		return nil
	}
	s.keys = append(s.keys, key)
	s.vals = append(s.vals, c)
	return nil
}
func (s *verifC30Store) Delete(key string) error                               { panic("unused") }
func (s *verifC30Store) Iterate(prefix string, fn storage.StateIterFunc) error { panic("unused") }
func (s *verifC30Store) DB() driver.BatchDB                                    { return nil }
func (s *verifC30Store) Close() error                                          { return nil }

// ---- abstract signatures ----

var verifC30ErrBadSig = errors.New("verif: signature does not recover")

const verifC30SigLen = 3

// verifC30Payouts: the payouts put on cheques so far; a payout is named by
// the index of its first occurrence.
var verifC30Payouts []*big.Int

func verifC30PayoutID(p *big.Int) byte {
	id := byte(0xff)
	for i := len(verifC30Payouts) - 1; i >= 0; i-- {
		if verifC30Payouts[i].Cmp(p) == 0 {
			id = byte(i)
		}
	}
	return id
}

func verifC30SigKey(c *chequePkg.SignedCheque) []byte {
	k := make([]byte, 0, 41+len(c.Signature))
	k = append(k, c.Recipient[:]...)
	k = append(k, c.Beneficiary[:]...)
	k = append(k, verifC30PayoutID(c.CumulativePayout))
	return append(k, c.Signature...)
}

// verifC30SigEval: the abstract signature scheme as a total function of the
// cheque: does (content, signature) recover, and to which address (branch-free,
// so that the harness's own evaluation does not split paths).
func verifC30SigEval(c *chequePkg.SignedCheque) (ok bool, a common.Address) {
	key := verifC30SigKey(c)
	ok = zzverif.BoolOf("sig-recovers", key)
	// the recovered address ranges over the same address space as all others
	// (verifC30AddrBytes arbitrary trailing bytes)
	for w := 0; w*8 < verifC30AddrBytes; w++ {
		v := zzverif.U64Of(verifC30SignerUF[w], key)
		for j := 0; j < 8 && w*8+j < verifC30AddrBytes; j++ {
			a[19-w*8-j] = byte(v >> (8 * uint(j)))
		}
	}
	return
}

// verifC30Recover: the RecoverChequeFunc handed to NewChequeStore.
func verifC30Recover(c *chequePkg.SignedCheque, chainID int64) (common.Address, error) {
	ok, a := verifC30SigEval(c)
	if !ok {
		return common.Address{}, verifC30ErrBadSig
	}
	return a, nil
}

var verifC30SignerUF = [3]string{"sig-signer0", "sig-signer1", "sig-signer2"}

// verifC30AddrBytes: number of symbolic (trailing) bytes of every address; the
// leading bytes are zero.
var verifC30AddrBytes = 20

func verifC30Addr(name string) common.Address {
	var a common.Address
	copy(a[20-verifC30AddrBytes:], zzverif.BytesN(name, verifC30AddrBytes))
	return a
}

// ---- address book: fixed registrations of two peers ----

type verifC30Book struct {
	peers [2]boson.Address
	known [2]bool
	chain [2]common.Address
}

// Both lookups are written without early returns so that the engine merges
// the loop into ite-terms instead of forking (first match wins, as in a map
// with unique keys).
func (b *verifC30Book) Beneficiary(peer boson.Address) (common.Address, bool) {
	var out common.Address
	known := false
	for i := len(b.peers) - 1; i >= 0; i-- {
		if b.known[i] && b.peers[i].Equal(peer) {
			out, known = b.chain[i], true
		}
	}
	return out, known
}
func (b *verifC30Book) BeneficiaryPeer(beneficiary common.Address) (boson.Address, bool) {
	out, known := boson.ZeroAddress, false
	for i := len(b.peers) - 1; i >= 0; i-- {
		if b.known[i] && b.chain[i] == beneficiary {
			out, known = b.peers[i], true
		}
	}
	return out, known
}
func (b *verifC30Book) PutBeneficiary(peer boson.Address, beneficiary common.Address) error {
	panic("unused")
}
func (b *verifC30Book) InitAddressBook() error { return nil }

type verifC30Discard struct{}

func (verifC30Discard) Write(p []byte) (int, error) { return len(p), nil }

// ---- notifications ----

type verifC30SubPub struct{}

func (verifC30SubPub) Subscribe(n subscribe.INotifier, nameSpace, kind, param string) error {
	panic("unused")
}
func (verifC30SubPub) Publish(nameSpace, kind, param string, message interface{}) error { return nil }
func (verifC30SubPub) PublishArray(nameSpace, kind, field string, messageList []interface{}) error {
	return nil
}

// credited: what the service holds as "received settlements" of chain address
// a (zero if it has no record). Written as a scan without early exit so that
// the engine merges it instead of forking per map entry.
func verifC30Credited(s *Service, a common.Address) *big.Int {
	out := big.NewInt(0)
	key := a.String()
	s.trafficPeers.trafficLock.Lock()
	defer s.trafficPeers.trafficLock.Unlock()
	for k, t := range s.trafficPeers.trafficPeers {
		if k == key {
			out.Set(t.transferChequeTraffic)
		}
	}
	return out
}

// VerifC30_Service: arbitrary history (every length 1..steps) of cheques
// delivered by registered and unregistered peers to the real Service + real
// cheque store. X is an arbitrary chain address; per-issuer clauses are
// asserted for X, hence for every issuer. The history clauses are asserted at
// the end of the history; as every history length is explored this covers
// every intermediate state.
func VerifC30_Service() {
	maxSteps := zzverif.Param("steps", 2, 3)
	steps := zzverif.Choose("history-length", maxSteps) + 1
	verifC30AddrBytes = zzverif.Param("address-symbolic-bytes", 1, 2)
	verifC30Payouts = nil
	self := verifC30Addr("self")
	st := &verifC30Store{}
	cs := chequePkg.NewChequeStore(st, self, verifC30Recover, 7)
	book := &verifC30Book{peers: [2]boson.Address{boson.NewAddress([]byte{0x11}), boson.NewAddress([]byte{0x22})}}
	for i := range book.peers {
		book.known[i] = zzverif.Bool("registered")
		book.chain[i] = verifC30Addr("chainaddr")
	}
	svc := New(logging.New(verifC30Discard{}, 0), self, st, nil, cs, nil, nil, book, nil, nil, 7, verifC30SubPub{})

	x := verifC30Addr("X")
	refMax := big.NewInt(0) // highest cumulative payout of an accepted cheque issued by X

	for s := 0; s < steps; s++ {
		// sender: peer 0x11, peer 0x22 (each registered or not) or a stranger 0x33
		sb := zzverif.U8("sender")
		zzverif.Assume(sb == 0x11 || sb == 0x22 || sb == 0x33)
		sender := boson.NewAddress([]byte{sb})
		// the harness's own view of the sender's registration
		sKnown := false
		var sChain common.Address
		if sb == 0x11 {
			sKnown, sChain = book.known[0], book.chain[0]
		}
		if sb == 0x22 {
			sKnown, sChain = book.known[1], book.chain[1]
		}

		payout := zzverif.BigNonNeg("payout")
		if zzverif.Bool("negative") {
			payout = new(big.Int).Neg(payout)
		}
		verifC30Payouts = append(verifC30Payouts, new(big.Int).Set(payout))
		sig := zzverif.BytesN("sig", verifC30SigLen)
		recipient, issuer := verifC30Addr("recipient"), verifC30Addr("issuer")
		c := &chequePkg.SignedCheque{
			Cheque:    chequePkg.Cheque{Recipient: recipient, Beneficiary: issuer, CumulativePayout: new(big.Int).Set(payout)},
			Signature: sig,
		}
		// what the signature scheme says about exactly this cheque
		cp := verifC30Clone(c)
		sigOK, signer := verifC30SigEval(&cp)

		err := svc.ReceiveCheque(context.Background(), sender, c)

		zzverif.Region("C30/issuer-differs-from-senders-registered-address", sKnown && sChain != issuer)
		if err == nil {
			zzverif.Assert(sKnown, "accepted => sender is a registered peer")
			zzverif.Assert(recipient == self, "accepted => names this node as recipient")
			zzverif.Assert(sigOK && signer == issuer, "accepted => signature of the stated issuer")
			zzverif.Assert(sKnown && sChain == issuer, "accepted => sender's registered chain address is the issuer")
			if issuer == x {
				zzverif.Assert(payout.Cmp(refMax) > 0, "accepted => raises the issuer's cumulative payout")
				if payout.Cmp(refMax) > 0 {
					refMax = payout
				}
			}
			zzverif.Reach("C30-service-accepted")
		}
	}

	// history clauses
	credited := verifC30Credited(svc, x)
	zzverif.Assert(credited.Cmp(refMax) == 0, "credited total of issuer = highest accepted cumulative payout")
	last, lerr := cs.LastReceivedCheque(x)
	if refMax.Sign() > 0 {
		zzverif.Assert(lerr == nil && last.CumulativePayout.Cmp(refMax) == 0, "stored last cheque = highest accepted cumulative payout")
	} else {
		zzverif.Assert(lerr == chequePkg.ErrNoCheque, "no accepted cheque => ErrNoCheque")
	}
	zzverif.Reach("C30-service")
}
