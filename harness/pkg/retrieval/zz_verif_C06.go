package retrieval

import (
	"bytes"
	"context"
	"errors"
	"io"

	"github.com/gauss-project/aurorafs/pkg/accounting"
	"github.com/gauss-project/aurorafs/pkg/bmt"
	"github.com/gauss-project/aurorafs/pkg/boson"
	"github.com/gauss-project/aurorafs/pkg/chunkinfo"
	"github.com/gauss-project/aurorafs/pkg/logging"
	"github.com/gauss-project/aurorafs/pkg/p2p"
	"github.com/gauss-project/aurorafs/pkg/retrieval/aco"
	"github.com/gauss-project/aurorafs/pkg/retrieval/pb"
	"github.com/gauss-project/aurorafs/pkg/routetab"
	"github.com/gauss-project/aurorafs/pkg/soc"
	"github.com/gauss-project/aurorafs/pkg/storage"
	"github.com/gauss-project/aurorafs/pkg/zzverif"
	"github.com/gauss-project/aurorafs/pkg/zzverif/zzstream"
	"github.com/gogo/protobuf/proto"
	"github.com/prometheus/client_golang/prometheus"
)

// C06 (a): whatever Delivery a peer sends, (*Service).retrieveChunk stores a
// chunk or hands one to the requester only if it is a valid content-addressed
// or single-owner chunk for the requested address.
//
// Executed for real: (*Service).retrieveChunk from the route connect to the
// return, cac.Valid + cac.hasher, bmtpool, boson chunk/address code, sctx.
// Models: BMT hasher contract (harness/pkg/bmt/zz_verif_C06_model.go, sampled
// flavour), soc.Valid = harness oracle (harness/pkg/soc/zz_verif_C06_socstub.go),
// stub streamer / route table / accounting / chunkinfo / storer below, the ACO
// route statistics are no-ops.

//verif:root pkg/boson pkg/cac pkg/soc pkg/bmt pkg/bmtpool pkg/sctx pkg/zzverif/zzstream
//verif:option symbolic-make
//verif:option no-witness
//verif:noop (*github.com/gauss-project/aurorafs/pkg/retrieval/aco.AcoServer).OnDownloadStart, (*github.com/gauss-project/aurorafs/pkg/retrieval/aco.AcoServer).OnDownloadEnd, (*github.com/gauss-project/aurorafs/pkg/retrieval/aco.AcoServer).OnDownloadFinish, (*github.com/gauss-project/aurorafs/pkg/retrieval/aco.Route).ToString, github.com/gauss-project/aurorafs/pkg/retrieval/aco.NewAcoServer

const (
	verifC06cap     = 262144
	verifC06maxData = 262144 + 8
)

var verifC06err = errors.New("verif: environment failure")

func verifC06metrics() metrics {
	c := func(n string) prometheus.Counter {
		return prometheus.NewCounter(prometheus.CounterOpts{Name: n})
	}
	return metrics{c("verif_a"), c("verif_b"), c("verif_c"), c("verif_d"), c("verif_e"), c("verif_f"), c("verif_g")}
}

type verifC06streamer struct {
	p2p.Streamer
	s    *zzstream.Stream
	fail bool
}

func (v *verifC06streamer) NewStream(ctx context.Context, address boson.Address, h p2p.Headers, protocol, version, stream string) (p2p.Stream, error) {
	if v.fail {
		return nil, verifC06err
	}
	return v.s, nil
}

type verifC06route struct {
	routetab.RouteTab
	fail bool
}

func (v *verifC06route) Connect(ctx context.Context, dest boson.Address) error {
	if v.fail {
		return verifC06err
	}
	return nil
}

type verifC06accounting struct {
	reserveFails, creditFails bool
}

var _ accounting.Interface = (*verifC06accounting)(nil)

func (v *verifC06accounting) Reserve(peer boson.Address, traffic uint64) error {
	if v.reserveFails {
		return verifC06err
	}
	return nil
}
func (v *verifC06accounting) Credit(ctx context.Context, peer boson.Address, traffic uint64) error {
	if v.creditFails {
		return verifC06err
	}
	return nil
}
func (v *verifC06accounting) Debit(peer boson.Address, traffic uint64) error { panic("unused") }

type verifC06chunkinfo struct {
	chunkinfo.Interface
	fail bool
}

func (v *verifC06chunkinfo) OnChunkRetrieved(cid, rootCid, sourceOverlay boson.Address) error {
	if v.fail {
		return verifC06err
	}
	return nil
}

func verifC06fill(b byte) []byte {
	out := make([]byte, boson.HashSize)
	for i := range out {
		out[i] = b
	}
	return out
}

// verifC06storer records every chunk handed to Put.
type verifC06storer struct {
	storage.Storer
	puts   []boson.Chunk
	fail   bool
	exists bool
}

func (v *verifC06storer) Put(ctx context.Context, mode storage.ModePut, chs ...boson.Chunk) ([]bool, error) {
	v.puts = append(v.puts, chs...)
	if v.fail {
		return nil, verifC06err
	}
	out := make([]bool, len(chs))
	for i := range out {
		out[i] = v.exists
	}
	return out, nil
}

// verifC06cacValid: the oracle "valid content-addressed chunk for address a":
// 8 <= len <= 256 KiB + 8 and a = H(first 8 bytes, rest), written against the
// hash model directly (not through cac.Valid).
func verifC06cacValid(a, payload []byte) bool {
	if len(payload) < 8 || len(payload) > verifC06maxData {
		return false
	}
	return bytes.Equal(bmt.VerifC06Model(payload[:8], payload[8:]), a)
}

// verifC06accepted: ch is valid for the address it carries, as a content-
// addressed chunk (oracle above) or as the chunk soc.Valid said yes to.
func verifC06accepted(ch boson.Chunk) bool {
	if verifC06cacValid(ch.Address().Bytes(), ch.Data()) {
		return true
	}
	for _, q := range soc.VerifC06Asked {
		if q == ch && soc.VerifC06Answer {
			return true
		}
	}
	return false
}

// VerifC06_Retrieve: one retrieveChunk call against a peer that answers with an
// arbitrary Delivery (Data of any length 0..262200 and content), no message, or
// a stream error; every environment call may fail.
func VerifC06_Retrieve() {
	// hasher model: sampled flavour
	bmt.VerifC06Small = 0
	s0, s1 := zzverif.Int("sample"), zzverif.Int("sample")
	zzverif.Assume(s0 >= 0 && s0 < verifC06cap && s1 >= 0 && s1 < verifC06cap)
	bmt.VerifC06Samples = []int{s0, s1}
	soc.VerifC06Answer = zzverif.Bool("soc-valid")
	soc.VerifC06Asked = nil

	want := boson.NewAddress(zzverif.BytesN("chunk-addr", boson.HashSize))
	root := boson.NewAddress(verifC06fill(0x11))
	link := boson.NewAddress(verifC06fill(0x22))
	target := boson.NewAddress(verifC06fill(0x33))

	data := zzverif.BigBytes("delivery", verifC06maxData+48)
	var in []proto.Message
	if zzverif.Bool("peer-answers") {
		in = append(in, &pb.Delivery{Data: data})
	}
	stream := zzstream.New(in...)
	if zzverif.Bool("read-fails") {
		stream.InErr = verifC06err
	}
	if zzverif.Bool("write-fails") {
		stream.WriteErr = verifC06err
	}
	st := &verifC06storer{fail: zzverif.Bool("put-fails"), exists: zzverif.Bool("exists")}
	svc := &Service{
		addr:       boson.NewAddress(verifC06fill(0x44)),
		streamer:   &verifC06streamer{s: stream, fail: zzverif.Bool("newstream-fails")},
		storer:     st,
		logger:     logging.New(io.Discard, 0),
		metrics:    verifC06metrics(),
		chunkinfo:  &verifC06chunkinfo{fail: zzverif.Bool("chunkinfo-fails")},
		acoServer:  aco.NewAcoServer(),
		routeTab:   &verifC06route{fail: zzverif.Bool("connect-fails")},
		accounting: &verifC06accounting{reserveFails: zzverif.Bool("reserve-fails"), creditFails: zzverif.Bool("credit-fails")},
		isFullNode: true,
	}

	ch, err := svc.retrieveChunk(context.Background(), aco.Route{LinkNode: link, TargetNode: target}, root, want)

	for _, p := range st.puts {
		zzverif.Assert(p.Address().Equal(want), "stored under the requested address")
		zzverif.Assert(verifC06accepted(p), "stored chunk is a valid content-addressed or single-owner chunk for its address")
	}
	if ch != nil {
		zzverif.Assert(ch.Address().Equal(want), "returned chunk has the requested address")
		zzverif.Assert(verifC06accepted(ch), "returned chunk is a valid content-addressed or single-owner chunk for its address")
	}
	if err == nil && ch != nil && len(st.puts) == 1 {
		zzverif.Reach("C06-retrieve-success")
	}
	zzverif.Reach("C06-retrieve")
}
