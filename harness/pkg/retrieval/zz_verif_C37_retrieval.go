package retrieval

// C37 (c): "malformed peer messages never crash the node", retrieval protocol.
//
// The stream handler (server side: reads a RequestChunk; when the chunk is not
// in the store and the request names another target it becomes a client itself
// through RetrieveChunkFromNode -> retrieveChunk and reads that node's
// Delivery) and retrieveChunk called directly (client side of RetrieveChunk)
// run on arbitrary well-typed decoded messages. The only obligation is the
// absence of a panic.
//
// Replaced (//verif:replace-call, mirrored natively): cac.Valid / soc.Valid of
// the delivered chunk (arbitrary verdicts; soc.Valid/FromChunk on arbitrary
// data is the subject of C05), time.NewTicker (a ticker that never fires),
// time.Now (fixed instant).

import (
	"context"
	"errors"
	"fmt"
	"io"
	"runtime/debug"
	"time"

	"github.com/gauss-project/aurorafs/pkg/aurora"
	"github.com/gauss-project/aurorafs/pkg/bitvector"
	"github.com/gauss-project/aurorafs/pkg/boson"
	"github.com/gauss-project/aurorafs/pkg/chunkinfo"
	"github.com/gauss-project/aurorafs/pkg/logging"
	"github.com/gauss-project/aurorafs/pkg/p2p"
	"github.com/gauss-project/aurorafs/pkg/retrieval/aco"
	"github.com/gauss-project/aurorafs/pkg/retrieval/pb"
	"github.com/gauss-project/aurorafs/pkg/routetab"
	"github.com/gauss-project/aurorafs/pkg/storage"
	"github.com/gauss-project/aurorafs/pkg/zzverif"
	"github.com/gauss-project/aurorafs/pkg/zzverif/zzstream"
	"github.com/gogo/protobuf/proto"
	"github.com/prometheus/client_golang/prometheus"
)

//verif:root pkg/boson pkg/bitvector pkg/aurora pkg/retrieval/aco pkg/retrieval/pb pkg/sctx pkg/zzverif/zzstream
//verif:stub newMetrics = verifC37metrics
//verif:replace-call time.NewTicker = verifC37ticker
//verif:replace-call time.Now = verifC37now
//verif:replace-call github.com/gauss-project/aurorafs/pkg/cac.Valid = verifC37cacValid
//verif:replace-call github.com/gauss-project/aurorafs/pkg/soc.Valid = verifC37socValid
//verif:noop (*time.Ticker).Stop
//verif:noop (*pkg/retrieval/aco.AcoServer).cleanTrigger

func verifC37metrics() metrics {
	c := func() prometheus.Counter { return prometheus.NewCounter(prometheus.CounterOpts{Name: "verif"}) }
	return metrics{c(), c(), c(), c(), c(), c(), c()}
}

func verifC37ticker(d time.Duration) *time.Ticker { return &time.Ticker{C: make(chan time.Time)} }
func verifC37now() time.Time                      { return time.Unix(1700000000, 0) }

type verifC37env struct {
	cacValid, socValid bool
	getMode            int // store.Get: 0 not found, 1 other error, 2 chunk found
	stored             []byte
	putFails           bool
	connectFails       bool
	reserveFails       bool
	creditFails        bool
	debitFails         bool
	newStreamFails     bool
	reportFails        bool
	replies            []proto.Message
	replyErr, writeErr error
}

// verifC37e: the environment of the running harness (the replaced cac.Valid /
// soc.Valid are plain functions and read it from here).
var verifC37e *verifC37env

func verifC37cacValid(c boson.Chunk) bool { return verifC37e.cacValid }
func verifC37socValid(c boson.Chunk) bool { return verifC37e.socValid }

func verifC37err() error { return errors.New("verif: environment failure") }

type verifC37store struct {
	storage.Storer
	e *verifC37env
}

func (s verifC37store) Get(_ context.Context, _ storage.ModeGet, a boson.Address) (boson.Chunk, error) {
	switch s.e.getMode {
	case 0:
		return nil, storage.ErrNotFound
	case 1:
		return nil, verifC37err()
	}
	return boson.NewChunk(a, s.e.stored), nil
}
func (s verifC37store) Put(_ context.Context, _ storage.ModePut, chs ...boson.Chunk) ([]bool, error) {
	if s.e.putFails {
		return nil, verifC37err()
	}
	return make([]bool, len(chs)), nil
}

type verifC37ci struct {
	chunkinfo.Interface
	e *verifC37env
}

func (c verifC37ci) OnChunkRetrieved(cid, rootCid, sourceOverlay boson.Address) error {
	if c.e.reportFails {
		return verifC37err()
	}
	return nil
}
func (c verifC37ci) OnChunkTransferred(cid, rootCid, overlays, target boson.Address) error {
	if c.e.reportFails {
		return verifC37err()
	}
	return nil
}

type verifC37acct struct{ e *verifC37env }

func (a verifC37acct) Reserve(boson.Address, uint64) error {
	if a.e.reserveFails {
		return verifC37err()
	}
	return nil
}
func (a verifC37acct) Credit(context.Context, boson.Address, uint64) error {
	if a.e.creditFails {
		return verifC37err()
	}
	return nil
}
func (a verifC37acct) Debit(boson.Address, uint64) error {
	if a.e.debitFails {
		return verifC37err()
	}
	return nil
}

type verifC37route struct {
	routetab.RouteTab
	e *verifC37env
}

func (r verifC37route) Connect(context.Context, boson.Address) error {
	if r.e.connectFails {
		return verifC37err()
	}
	return nil
}

type verifC37streamer struct{ e *verifC37env }

func (v verifC37streamer) NewStream(context.Context, boson.Address, p2p.Headers, string, string, string) (p2p.Stream, error) {
	if v.e.newStreamFails {
		return nil, verifC37err()
	}
	s := zzstream.New(append([]proto.Message{}, v.e.replies...)...)
	s.InErr = v.e.replyErr
	s.WriteErr = v.e.writeErr
	return s, nil
}
func (v verifC37streamer) NewRelayStream(context.Context, boson.Address, p2p.Headers, string, string, string, bool) (p2p.Stream, error) {
	panic("unused")
}
func (v verifC37streamer) NewConnChainRelayStream(context.Context, boson.Address, p2p.Headers, string, string, string) (p2p.Stream, error) {
	panic("unused")
}

func verifC37self() boson.Address { return boson.NewAddress([]byte{0x5e, 0x1f}) }
func verifC37peer() boson.Address { return boson.NewAddress([]byte{0x9e, 0xe1}) }

// verifC37new: the Service as New builds it (the aco server's clean-up ticker
// goroutine is not started: cleanTrigger is a no-op).
// The chunk info service is always configured (node.go calls Config
// unconditionally right after New).
func verifC37new() (*Service, *verifC37env) {
	e := &verifC37env{}
	verifC37e = e
	e.cacValid = zzverif.Bool("env.cacValid")
	e.socValid = zzverif.Bool("env.socValid")
	e.getMode = int(zzverif.U8("env.getMode"))
	zzverif.Assume(e.getMode < 3)
	e.stored = zzverif.Bytes("env.stored", 9)
	e.putFails = zzverif.Bool("env.putFails")
	e.connectFails = zzverif.Bool("env.connectFails")
	e.reserveFails = zzverif.Bool("env.reserveFails")
	e.creditFails = zzverif.Bool("env.creditFails")
	e.debitFails = zzverif.Bool("env.debitFails")
	e.newStreamFails = zzverif.Bool("env.newStreamFails")
	e.reportFails = zzverif.Bool("env.reportFails")
	if zzverif.Bool("env.writeFails") {
		e.writeErr = verifC37err()
	}
	s := &Service{
		addr:       verifC37self(),
		streamer:   verifC37streamer{e},
		storer:     verifC37store{e: e},
		logger:     logging.New(io.Discard, 0),
		metrics:    newMetrics(),
		acoServer:  aco.NewAcoServer(),
		routeTab:   verifC37route{e: e},
		accounting: verifC37acct{e},
		isFullNode: true,
	}
	s.Config(verifC37ci{e: e})
	return s, e
}

// verifC37addr: an address field of a message: absent, or 1, 2 (the length of
// the harness's own addresses), 3 or 32 arbitrary bytes (quick tier: absent or 2).
func verifC37addr(name string) []byte {
	lens := []int{0, 2}
	if zzverif.Param("addressLengths", 0, 1) == 1 {
		lens = []int{0, 1, 2, 3, 32}
	}
	n := lens[zzverif.Choose(name+".len", len(lens))]
	if n == 0 {
		return nil
	}
	return zzverif.BytesN(name, n)
}

// verifC37delivery: what the serving peer answers: nothing (EOF / error) or a
// Delivery with absent or arbitrary data.
func verifC37delivery(e *verifC37env) {
	switch zzverif.Choose("reply.kind", 3) {
	case 0: // EOF
	case 1:
		e.replyErr = verifC37err()
	case 2:
		d := &pb.Delivery{}
		if !zzverif.Bool("reply.dataAbsent") {
			d.Data = zzverif.Bytes("reply.data", zzverif.Param("dataLen", 9, 40))
		}
		e.replies = append(e.replies, d)
	}
}

func verifC37try(f func()) bool {
	if zzverif.Symbolic() {
		return zzverif.MayPanic(f)
	}
	return zzverif.MayPanic(func() {
		defer func() {
			if r := recover(); r != nil {
				fmt.Printf("ZZVERIF-NOTE recovered panic: %v\n%s\n", r, debug.Stack())
				panic(r)
			}
		}()
		f()
	})
}

func verifC37mode() aurora.Model {
	bv, err := bitvector.NewFromBytes([]byte{zzverif.U8("peer.mode")}, 1)
	if err != nil {
		panic("verifC37: node mode")
	}
	return aurora.Model{Bv: bv}
}

// VerifC37_Retrieval runs one of the two scenarios below.
func VerifC37_Retrieval() {
	if zzverif.Choose("scenario", 2) == 0 {
		verifC37retrievalHandler()
	} else {
		verifC37retrievalClient()
	}
}

func verifC37retrievalHandler() {
	s, e := verifC37new()
	var in []proto.Message
	if !zzverif.Bool("noMessage") {
		in = append(in, &pb.RequestChunk{
			TargetAddr: verifC37addr("msg.target"),
			RootAddr:   verifC37addr("msg.root"),
			ChunkAddr:  verifC37addr("msg.chunk"),
		})
	}
	st := zzstream.New(in...)
	if zzverif.Bool("readFails") {
		st.InErr = verifC37err()
	}
	if zzverif.Bool("answerFails") {
		st.WriteErr = verifC37err()
	}
	verifC37delivery(e)
	peer := p2p.Peer{Address: verifC37peer(), Mode: verifC37mode()}
	h := s.Protocol().StreamSpecs[0].Handler
	panicked := verifC37try(func() {
		_ = h(context.Background(), peer, st)
		zzverif.Yield()
	})
	zzverif.Assert(!panicked, "RequestChunk: no panic (including the forwarded retrieval)")
	zzverif.Reach("C37c-retrieval-handler")
}

func verifC37retrievalClient() {
	s, e := verifC37new()
	verifC37delivery(e)
	link, target := verifC37peer(), verifC37peer()
	if zzverif.Bool("route.relayed") {
		target = boson.NewAddress([]byte{0x9e, 0xe2})
	}
	root := boson.NewAddress(zzverif.BytesN("local.root", 2))
	cid := boson.NewAddress(zzverif.BytesN("local.cid", 2))
	panicked := verifC37try(func() {
		_, _ = s.retrieveChunk(context.Background(), aco.NewRoute(link, target), root, cid)
		zzverif.Yield()
	})
	zzverif.Assert(!panicked, "Delivery (client read): no panic")
	zzverif.Reach("C37c-retrieval-client")
}
