package soc

import (
	"bytes"
	"encoding/binary"

	"github.com/gauss-project/aurorafs/pkg/boson"
	"github.com/gauss-project/aurorafs/pkg/cac"
	"github.com/gauss-project/aurorafs/pkg/crypto"
	"github.com/gauss-project/aurorafs/pkg/zzverif"
)

//verif:option symbolic-make

// VerifC05_AnySizeRoundTrip: the round-trip clause for wrapped payloads of EVERY
// length cac.New accepts, 1..boson.ChunkSize (262144) bytes, length and content
// symbolic (the payload is an SMT buffer): the chunk signed with a key is valid
// and parses back to the same id, owner and wrapped chunk (address, length and
// content of its data), and its address is keccak256(id || owner).
//
// The other C05 harnesses use payloads of 1..8 bytes because their model of the
// content-address hash is keccak over span||data, which needs a concrete input
// length. Here the hash is the sampled uninterpreted function described in
// harness/pkg/cac/zz_verif_C05_cacstub.go (a function of span, length and the
// byte at a symbolic position; the check holds for every choice of the
// position). Signatures: the Dolev-Yao model of the other harnesses.
// Buffers of this size are compared at a symbolic index instead of bytes.Equal.
func VerifC05_AnySizeRoundTrip() {
	zzverif.Unwind(16)
	crypto.VerifC05Reset()
	owner := zzverif.BytesN("owner", crypto.AddressSize)
	other := zzverif.BytesN("other", crypto.AddressSize)
	zzverif.Assume(!bytes.Equal(owner, other))
	crypto.VerifC05RegisterKey(verifC05ownerKey, owner)
	crypto.VerifC05RegisterKey(verifC05otherKey, other)
	crypto.VerifC05OtherKey = verifC05otherKey
	signer := &verifC05signer{key: verifC05ownerKey, owner: owner}

	// sample position of the hash model (any position: the model hash depends on every byte for some choice)
	s0 := zzverif.Int("sample")
	zzverif.Assume(s0 >= 0 && s0 < boson.ChunkSize)
	cac.VerifC05Samples = []int{s0}

	id := zzverif.BytesN("id", IdSize)
	payload := zzverif.BigBytes("bigpayload", boson.ChunkSize)
	n := len(payload)
	zzverif.Assume(n >= 1) // cac.New rejects the empty payload

	wrapped, err := cac.New(payload)
	zzverif.Assert(err == nil && wrapped != nil, "cac.New accepts the payload")
	sch, err := New(id, wrapped).Sign(signer)
	zzverif.Assert(err == nil && sch != nil, "Sign succeeds")

	// The serialized chunk is id || signature || wrapped chunk data (the layout the
	// mutation harness relies on as well): parsing its tail as a content-addressed
	// chunk gives the wrapped address again. This is part of "parses back to the
	// same wrapped chunk"; it is asserted first, on its own, because the fact
	// "recomputed wrapped address = wrapped address" then is in the path condition
	// when FromChunk compares the recovered digest byte by byte (without it z3's
	// incremental mode does not decide those queries reliably, see notes/C05.md).
	tail, err := cac.NewWithDataSpan(sch.Data()[IdSize+SignatureSize:])
	zzverif.Assert(err == nil && tail != nil && tail.Address().Equal(wrapped.Address()), "same wrapped address")

	want := verifC05keccak(id, owner)
	zzverif.Assert(bytes.Equal(sch.Address().Bytes(), want), "address = keccak256(id || owner)")
	zzverif.Assert(Valid(sch), "signed chunk is valid")

	s, err := FromChunk(sch)
	zzverif.Assert(err == nil && s != nil, "FromChunk parses the signed chunk")
	if !zzverif.Symbolic() && s == nil {
		return // native replay of a violation: nothing left to compare
	}
	zzverif.Assert(bytes.Equal(s.id, id), "same id")
	zzverif.Assert(bytes.Equal(s.owner, owner), "same owner")
	zzverif.Assert(s.WrappedChunk().Address().Equal(wrapped.Address()), "same wrapped address")
	wd := s.WrappedChunk().Data()
	zzverif.Assert(len(wd) == len(wrapped.Data()), "same wrapped data")
	zzverif.Assert(len(wd) == boson.SpanSize+n && binary.LittleEndian.Uint64(wd[:boson.SpanSize]) == uint64(n), "wrapped data is span || payload")
	// content at an arbitrary position
	i := zzverif.Int("i")
	zzverif.Assume(i >= 0 && i < len(wd) && i < len(wrapped.Data()))
	zzverif.Assert(wd[i] == wrapped.Data()[i], "same wrapped data")
	if i >= boson.SpanSize {
		zzverif.Assert(wd[i] == payload[i-boson.SpanSize], "wrapped data is span || payload")
	}
	zzverif.Reach("C05-roundtrip-any-size")
}
