package soc

import (
	"github.com/gauss-project/aurorafs/pkg/boson"
)

// C06: soc.Valid (single-owner chunk validity: the subject of C05) is an ORACLE
// here: an arbitrary predicate answered by the harness (one symbolic Boolean per
// run; retrieveChunk asks at most once), which records what it was asked about.
// The retrieval monitor accepts "single-owner valid" only for the very chunk the
// oracle answered true for. Same package, named parameter: mirrored natively.

//verif:stub Valid = verifC06Valid

var (
	VerifC06Answer bool
	VerifC06Asked  []boson.Chunk
)

func verifC06Valid(ch boson.Chunk) bool {
	VerifC06Asked = append(VerifC06Asked, ch)
	return VerifC06Answer
}
