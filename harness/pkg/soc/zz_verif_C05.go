package soc

import (
	"bytes"
	"crypto/ecdsa"
	"encoding/binary"
	"math/big"

	"github.com/ethereum/go-ethereum/common"
	"github.com/ethereum/go-ethereum/core/types"
	"github.com/gauss-project/aurorafs/pkg/boson"
	"github.com/gauss-project/aurorafs/pkg/cac"
	"github.com/gauss-project/aurorafs/pkg/crypto"
	"github.com/gauss-project/aurorafs/pkg/crypto/eip712"
	"github.com/gauss-project/aurorafs/pkg/zzverif"
	"golang.org/x/crypto/sha3"
)

// C05: single-owner chunks bind address, owner and signature.
//
// Executed for real: soc.New/NewSigned/Sign/Chunk/toBytes/FromChunk/address/
// CreateAddress/hash/recoverAddress/Valid, cac.New/NewWithDataSpan/newWithSpan,
// boson.NewChunk/NewAddress/Address.Equal. keccak256 is the engine's hash model.
// Stubs (see harness/pkg/cac/zz_verif_C05_cacstub.go and
// harness/pkg/crypto/zz_verif_C05_cryptostub.go): the BMT hash inside
// cac.hasher, crypto.Recover and crypto.NewEthereumAddress (Dolev-Yao
// signatures with the unforgeability assumption stated there).

//verif:root pkg/boson pkg/cac pkg/crypto

const (
	verifC05ownerKey = 1
	verifC05otherKey = 2
)

var verifC05sigNames = [...]string{"sig0", "sig1", "sig2", "sig3", "sig4", "sig5", "sig6", "sig7", "sig8"}

// verifC05signer is the honest signer: its signature over a digest is an
// uninterpreted function of (key, digest); every produced pair is recorded for
// the Recover model.
type verifC05signer struct {
	key   int64
	owner []byte
}

func (s *verifC05signer) Sign(data []byte) ([]byte, error) {
	in := make([]byte, 0, 1+len(data))
	in = append(in, byte(s.key))
	in = append(in, data...)
	sig := make([]byte, 72)
	for i, n := range verifC05sigNames {
		binary.BigEndian.PutUint64(sig[8*i:], zzverif.U64Of(n, in))
	}
	sig = sig[:SignatureSize]
	crypto.VerifC05RecordSignature(s.key, sig, data)
	return sig, nil
}

func (s *verifC05signer) PublicKey() (*ecdsa.PublicKey, error) {
	return crypto.VerifC05PublicKey(s.key), nil
}

func (s *verifC05signer) EthereumAddress() (common.Address, error) {
	var a common.Address
	copy(a[:], s.owner)
	return a, nil
}

func (s *verifC05signer) SignTx(*types.Transaction, *big.Int) (*types.Transaction, error) {
	panic("unused")
}
func (s *verifC05signer) SignTypedData(*eip712.TypedData) ([]byte, error) { panic("unused") }
func (s *verifC05signer) PrivateKey() *ecdsa.PrivateKey                   { panic("unused") }

// verifC05keccak: keccak256 of the concatenation, written against the hash
// package directly (the oracle for "address = keccak256(id || owner)").
func verifC05keccak(parts ...[]byte) []byte {
	var all []byte
	for _, p := range parts {
		all = append(all, p...)
	}
	h := sha3.NewLegacyKeccak256()
	_, _ = h.Write(all)
	return h.Sum(nil)
}

type verifC05world struct {
	owner, other []byte
	id, payload  []byte
	signer       *verifC05signer
	wrapped      boson.Chunk
	soc          boson.Chunk
}

// verifC05setup draws the owner address, the address unknown signatures may
// recover to, the id and the wrapped payload (length 1..maxPayload, concrete
// per path), and signs the single-owner chunk with the real code.
func verifC05setup() *verifC05world {
	crypto.VerifC05Reset()
	cac.VerifC05Samples = nil // keccak model of the content-address hash
	w := &verifC05world{}
	w.owner = zzverif.BytesN("owner", crypto.AddressSize)
	w.other = zzverif.BytesN("other", crypto.AddressSize)
	zzverif.Assume(!bytes.Equal(w.owner, w.other))
	crypto.VerifC05RegisterKey(verifC05ownerKey, w.owner)
	crypto.VerifC05RegisterKey(verifC05otherKey, w.other)
	crypto.VerifC05OtherKey = verifC05otherKey
	w.signer = &verifC05signer{key: verifC05ownerKey, owner: w.owner}

	w.id = zzverif.BytesN("id", IdSize)
	n := 1 + zzverif.Choose("payload-len", zzverif.Param("max-payload", 3, 8))
	w.payload = zzverif.BytesN("payload", n)

	ch, err := cac.New(w.payload)
	zzverif.Assert(err == nil && ch != nil, "cac.New accepts the payload")
	w.wrapped = ch
	sch, err := New(w.id, ch).Sign(w.signer)
	zzverif.Assert(err == nil && sch != nil, "Sign succeeds")
	w.soc = sch
	return w
}

// VerifC05_RoundTrip: a chunk signed with a key is valid, parses back to the
// same id, owner and wrapped chunk, and its address is keccak256(id || owner).
func VerifC05_RoundTrip() {
	w := verifC05setup()
	want := verifC05keccak(w.id, w.owner)
	zzverif.Assert(bytes.Equal(w.soc.Address().Bytes(), want), "address = keccak256(id || owner)")
	zzverif.Assert(Valid(w.soc), "signed chunk is valid")

	s, err := FromChunk(w.soc)
	zzverif.Assert(err == nil && s != nil, "FromChunk parses the signed chunk")
	zzverif.Assert(bytes.Equal(s.id, w.id), "same id")
	zzverif.Assert(bytes.Equal(s.owner, w.owner), "same owner")
	zzverif.Assert(s.WrappedChunk().Address().Equal(w.wrapped.Address()), "same wrapped address")
	zzverif.Assert(bytes.Equal(s.WrappedChunk().Data(), w.wrapped.Data()), "same wrapped data")
	// wrapped data = span(len) || payload (the harness's own payload bytes)
	wd := s.WrappedChunk().Data()
	zzverif.Assert(len(wd) == boson.SpanSize+len(w.payload) && bytes.Equal(wd[boson.SpanSize:], w.payload) &&
		binary.LittleEndian.Uint64(wd[:boson.SpanSize]) == uint64(len(w.payload)), "wrapped data is span || payload")

	a, err := CreateAddress(w.id, w.owner)
	zzverif.Assert(err == nil && bytes.Equal(a.Bytes(), want), "CreateAddress = keccak256(id || owner)")

	// the same chunk from already signed data
	s2, err := NewSigned(w.id, w.wrapped, w.owner, s.signature)
	zzverif.Assert(err == nil && s2 != nil, "NewSigned accepts a 20-byte owner")
	c2, err := s2.Chunk()
	zzverif.Assert(err == nil && c2.Address().Equal(w.soc.Address()) && bytes.Equal(c2.Data(), w.soc.Data()), "NewSigned(...).Chunk() = signed chunk")
	zzverif.Assert(Valid(c2), "chunk from NewSigned is valid")
	zzverif.Reach("C05-roundtrip")
}

// VerifC05_Mutation: flipping any bits of one byte (symbolic offset, symbolic
// non-zero mask) of the serialized chunk (id, signature, span or payload) or of
// its address makes the chunk invalid.
func VerifC05_Mutation() {
	w := verifC05setup()
	data := make([]byte, len(w.soc.Data()))
	copy(data, w.soc.Data())
	addr := make([]byte, boson.HashSize)
	copy(addr, w.soc.Address().Bytes())
	zzverif.Assert(len(data) == IdSize+SignatureSize+boson.SpanSize+len(w.payload), "serialized length")

	mask := zzverif.U8("mask")
	zzverif.Assume(mask != 0)
	off := zzverif.Int("offset")
	var lo, hi int
	region := zzverif.Choose("region", 5)
	switch region {
	case 0: // id
		lo, hi = 0, IdSize
	case 1: // signature
		lo, hi = IdSize, IdSize+SignatureSize
	case 2: // span of the wrapped chunk
		lo, hi = IdSize+SignatureSize, IdSize+SignatureSize+boson.SpanSize
	case 3: // wrapped payload
		lo, hi = IdSize+SignatureSize+boson.SpanSize, len(data)
	case 4: // address
		lo, hi = 0, boson.HashSize
	}
	zzverif.Assume(off >= lo && off < hi)
	// the symbolic-offset write is done on a copy of the chosen field so that
	// the bytes outside it stay syntactically unchanged
	target := data
	if region == 4 {
		target = addr
	}
	field := make([]byte, hi-lo)
	copy(field, target[lo:hi])
	field[off-lo] ^= mask
	copy(target[lo:hi], field)
	m := boson.NewChunk(boson.NewAddress(addr), data)
	zzverif.Assert(!Valid(m), "mutated chunk is invalid")
	zzverif.Reach("C05-mutation")
}

// VerifC05_Malformed: chunks shorter than the minimum size (id + signature +
// span) are rejected by FromChunk and Valid without panic, for every length
// 0..104 and content; a chunk whose wrapped part exceeds the cac range is
// rejected; arbitrary chunks of the minimum size and a little above never
// panic.
func VerifC05_Malformed() {
	crypto.VerifC05Reset()
	cac.VerifC05Samples = nil // keccak model of the content-address hash
	other := zzverif.BytesN("other", crypto.AddressSize)
	crypto.VerifC05RegisterKey(verifC05otherKey, other)
	crypto.VerifC05OtherKey = verifC05otherKey
	addr := boson.NewAddress(zzverif.BytesN("addr", boson.HashSize))
	zzverif.Assert(minChunkSize == 32+65+8, "minimum size constant")
	switch zzverif.Choose("case", 3) {
	case 0:
		data := zzverif.Bytes("short", minChunkSize-1)
		c := boson.NewChunk(addr, data)
		s, err := FromChunk(c)
		zzverif.Assert(s == nil && err == errWrongChunkSize, "short chunk rejected by FromChunk")
		zzverif.Assert(!Valid(c), "short chunk invalid")
	case 1:
		data := make([]byte, IdSize+SignatureSize+boson.SpanSize+boson.ChunkSize+1)
		c := boson.NewChunk(addr, data)
		s, err := FromChunk(c)
		zzverif.Assert(s == nil && err != nil, "oversized wrapped chunk rejected by FromChunk")
		zzverif.Assert(!Valid(c), "oversized wrapped chunk invalid")
	case 2:
		n := minChunkSize + zzverif.Choose("extra", 3)
		c := boson.NewChunk(addr, zzverif.BytesN("arbitrary", n))
		_ = Valid(c) // must not panic
	}
	zzverif.Reach("C05-malformed")
}
