package manifest

import (
	"github.com/gauss-project/aurorafs/pkg/boson"
	"github.com/gauss-project/aurorafs/pkg/file"
)

// C06 (b): the manifest walk of traversal.GetChunkHashes is not executed. The
// reference is reported as "not a manifest", which sends GetChunkHashes to its
// plain-file fallback, where the model joiner
// (harness/pkg/file/joiner/zz_verif_C06_joinerstub.go) performs an arbitrary
// sequence of Gets on the pyramid store. For the property only the SET of
// entries fetched during the walk matters (those are stored afterwards); the
// model walk can fetch any set. Same package, named parameters: mirrored
// natively.

//verif:stub NewDefaultManifestReference = verifC06NewDefaultManifestReference

func verifC06NewDefaultManifestReference(reference boson.Address, ls file.LoadSaver) (Interface, error) {
	return nil, ErrInvalidManifestType
}
