package crypto

// C34 environment: a Dolev-Yao model of the secp256k1 signature scheme and of
// the overlay derivation, used identically by the engine and by the native
// replay (the real Recover needs btcec, the real NewOverlayAddress keccak/sha3:
// both external).
//
//   * a key is identified by a 64-bit id; its public key is the pair (id, 1);
//   * an honest signer (VerifC34Signer) outputs the signature bytes it was
//     given by the harness and records (signature, data, key);
//   * Recover(sig, data): a signature must have 65 bytes (real check kept);
//     a pair recorded by an honest signer recovers that signer's key; any other
//     pair takes the next outcome from VerifC34.Other (failure, or some key
//     chosen by the harness: the harness constrains it to differ from the
//     honest keys = unforgeability);
//   * NewOverlayAddress(key, networkID) = VerifC34Overlay(id): injective in the
//     key and independent of the network id, like the real derivation
//     (collision freedom of keccak/sha3 assumed).
// Every Recover call is logged so that a harness can compare the signed data
// byte for byte with its own specification of the record encoding.

import (
	"bytes"
	"crypto/ecdsa"
	"errors"
	"math/big"

	"github.com/ethereum/go-ethereum/common"
	"github.com/ethereum/go-ethereum/core/types"
	"github.com/gauss-project/aurorafs/pkg/boson"
	"github.com/gauss-project/aurorafs/pkg/crypto/eip712"
)

//verif:stub Recover = verifC34Recover
//verif:stub NewOverlayAddress = verifC34NewOverlayAddress

type VerifC34Signed struct {
	Sig, Data []byte
	Key       uint64
}

type VerifC34Outcome struct {
	OK  bool
	Key uint64
}

type VerifC34Call struct {
	Sig, Data []byte
	OK        bool
	Key       uint64
	Honest    bool // the pair was produced by an honest signer
}

var VerifC34 struct {
	Signed []VerifC34Signed  // pairs produced by honest signers in this run
	Other  []VerifC34Outcome // outcomes for pairs not produced by an honest signer, in call order
	Calls  []VerifC34Call    // log of Recover calls
	next   int
}

func VerifC34Reset(other []VerifC34Outcome) {
	VerifC34.Signed = nil
	VerifC34.Other = other
	VerifC34.Calls = nil
	VerifC34.next = 0
}

// VerifC34Overlay: overlay address of a key (32 bytes, injective).
func VerifC34Overlay(key uint64) []byte {
	o := make([]byte, 32)
	for i := 0; i < 8; i++ {
		o[i] = byte(key >> (56 - 8*uint(i)))
	}
	for i := 8; i < 32; i++ {
		o[i] = byte(0xa0 + i)
	}
	return o
}

func verifC34pub(key uint64) *ecdsa.PublicKey {
	return &ecdsa.PublicKey{X: new(big.Int).SetUint64(key), Y: big.NewInt(1)}
}

func verifC34clone(b []byte) []byte {
	c := make([]byte, len(b))
	copy(c, b)
	return c
}

func verifC34Recover(signature, data []byte) (*ecdsa.PublicKey, error) {
	e := &VerifC34
	call := VerifC34Call{Sig: verifC34clone(signature), Data: verifC34clone(data)}
	if len(signature) != 65 {
		e.Calls = append(e.Calls, call)
		return nil, ErrInvalidLength
	}
	for _, s := range e.Signed {
		if bytes.Equal(s.Sig, signature) && bytes.Equal(s.Data, data) {
			call.OK, call.Key, call.Honest = true, s.Key, true
			e.Calls = append(e.Calls, call)
			return verifC34pub(s.Key), nil
		}
	}
	if e.next >= len(e.Other) {
		panic("verifC34: more foreign Recover calls than the harness provided outcomes for")
	}
	o := e.Other[e.next]
	e.next++
	if !o.OK {
		e.Calls = append(e.Calls, call)
		return nil, errors.New("verif: signature recovery failed")
	}
	call.OK, call.Key = true, o.Key
	e.Calls = append(e.Calls, call)
	return verifC34pub(o.Key), nil
}

func verifC34NewOverlayAddress(p ecdsa.PublicKey, networkID uint64) (boson.Address, error) {
	if p.X == nil || p.Y == nil {
		return boson.ZeroAddress, errors.New("invalid public key")
	}
	return boson.NewAddress(VerifC34Overlay(p.X.Uint64())), nil
}

// VerifC34Signer is an honest signer holding key Key.
type VerifC34Signer struct {
	Key  uint64
	Sig  []byte // the signature bytes it outputs (chosen by the harness)
	Fail bool
}

func (s *VerifC34Signer) Sign(data []byte) ([]byte, error) {
	if s.Fail {
		return nil, errors.New("verif: sign failed")
	}
	VerifC34.Signed = append(VerifC34.Signed, VerifC34Signed{Sig: verifC34clone(s.Sig), Data: verifC34clone(data), Key: s.Key})
	return verifC34clone(s.Sig), nil
}
func (s *VerifC34Signer) SignTx(*types.Transaction, *big.Int) (*types.Transaction, error) {
	panic("unused")
}
func (s *VerifC34Signer) SignTypedData(*eip712.TypedData) ([]byte, error) { panic("unused") }
func (s *VerifC34Signer) PublicKey() (*ecdsa.PublicKey, error)            { return verifC34pub(s.Key), nil }
func (s *VerifC34Signer) EthereumAddress() (common.Address, error)        { panic("unused") }
func (s *VerifC34Signer) PrivateKey() *ecdsa.PrivateKey                   { panic("unused") }
