package crypto

// C37(a) environment: the secp256k1 signature recovery (btcec, external) and the
// overlay derivation (keccak/sha3, external) are replaced by an arbitrary
// outcome chosen by the harness before the code under test runs. The length
// check of the real Recover is kept.

import (
	"crypto/ecdsa"
	"errors"
	"math/big"

	"github.com/gauss-project/aurorafs/pkg/boson"
)

//verif:stub Recover = verifC37Recover
//verif:stub NewOverlayAddress = verifC37NewOverlayAddress

// VerifC37Env is filled by the handshake harness (pkg/p2p/libp2p/internal/handshake).
var VerifC37Env struct {
	RecoverFails bool   // Recover returns an error for a 65 byte signature
	OverlayFails bool   // NewOverlayAddress returns an error
	Overlay      []byte // overlay derived from the recovered key
}

func verifC37Recover(signature, data []byte) (*ecdsa.PublicKey, error) {
	if len(signature) != 65 {
		return nil, ErrInvalidLength
	}
	if VerifC37Env.RecoverFails {
		return nil, errors.New("verif: signature recovery failed")
	}
	return &ecdsa.PublicKey{X: big.NewInt(1), Y: big.NewInt(2)}, nil
}

func verifC37NewOverlayAddress(p ecdsa.PublicKey, networkID uint64) (boson.Address, error) {
	if p.X == nil || p.Y == nil {
		return boson.ZeroAddress, errors.New("invalid public key")
	}
	if VerifC37Env.OverlayFails {
		return boson.ZeroAddress, errors.New("verif: overlay derivation failed")
	}
	return boson.NewAddress(VerifC37Env.Overlay), nil
}
