package crypto

import (
	"bytes"
	"crypto/ecdsa"
	"errors"
	"math/big"

	"github.com/gauss-project/aurorafs/pkg/zzverif"
)

// C05 Dolev-Yao model of secp256k1 signatures (the real code is
// btcec.SignCompact / RecoverCompact / elliptic.Marshal: outside the claim).
//
// A key is a small integer carried in PublicKey.X; every key is registered with
// its (arbitrary, symbolic) Ethereum address. The harness signer records every
// (signature, digest) pair it produced. The two in-repo functions used by
// pkg/soc are replaced (engine and native replay build):
//
//   NewEthereumAddress(pub) = the address registered for pub.X
//   Recover(sig, digest)    = the signing key, exactly for the recorded pairs;
//                             for every other pair an error or the key
//                             VerifC05OtherKey, whose address differs from all
//                             honest owners (chosen by zzverif.Bool).
//
// ASSUMPTION (unforgeability, no malleability): a (signature, digest) pair that
// the honest signer did not produce never recovers to the honest owner.

//verif:stub Recover = verifC05Recover
//verif:stub NewEthereumAddress = verifC05NewEthereumAddress

type verifC05key struct {
	id    int64
	owner []byte
}

type verifC05pair struct {
	key         int64
	sig, digest []byte
}

var (
	verifC05keys   []verifC05key
	verifC05signed []verifC05pair
	// VerifC05OtherKey is the key an unknown signature recovers to (if any).
	VerifC05OtherKey int64
)

func VerifC05Reset() {
	verifC05keys = nil
	verifC05signed = nil
	VerifC05OtherKey = 0
}

func VerifC05RegisterKey(id int64, owner []byte) {
	verifC05keys = append(verifC05keys, verifC05key{id: id, owner: owner})
}

func VerifC05RecordSignature(key int64, sig, digest []byte) {
	s := make([]byte, len(sig))
	copy(s, sig)
	d := make([]byte, len(digest))
	copy(d, digest)
	verifC05signed = append(verifC05signed, verifC05pair{key: key, sig: s, digest: d})
}

func VerifC05PublicKey(id int64) *ecdsa.PublicKey {
	return &ecdsa.PublicKey{X: big.NewInt(id), Y: big.NewInt(1)}
}

func verifC05NewEthereumAddress(p ecdsa.PublicKey) ([]byte, error) {
	if p.X == nil || p.Y == nil {
		return nil, errors.New("invalid public key")
	}
	id := p.X.Int64()
	for _, k := range verifC05keys {
		if k.id == id {
			out := make([]byte, len(k.owner))
			copy(out, k.owner)
			return out, nil
		}
	}
	return nil, errors.New("verif: unregistered key")
}

func verifC05Recover(signature, data []byte) (*ecdsa.PublicKey, error) {
	if len(signature) != 65 {
		return nil, ErrInvalidLength
	}
	for _, e := range verifC05signed {
		if bytes.Equal(e.sig, signature) && bytes.Equal(e.digest, data) {
			return VerifC05PublicKey(e.key), nil
		}
	}
	if zzverif.Bool("recover-fails") {
		return nil, errors.New("verif: invalid signature")
	}
	return VerifC05PublicKey(VerifC05OtherKey), nil
}
