package localstore

import (
	"bytes"
	"context"
	"io"
	"time"

	"github.com/gauss-project/aurorafs/pkg/boson"
	"github.com/gauss-project/aurorafs/pkg/logging"
	"github.com/gauss-project/aurorafs/pkg/shed"
	"github.com/gauss-project/aurorafs/pkg/shed/driver"
	"github.com/gauss-project/aurorafs/pkg/storage"
	"github.com/gauss-project/aurorafs/pkg/zzverif"
)

//verif:root pkg/shed pkg/shed/driver pkg/boson pkg/sctx pkg/storage pkg/metrics
//verif:noop totalTimeMetric

// ---------------------------------------------------------------------------
// Environment: model key-value driver (copied from harness/pkg/shed/zz_verif_C19.go,
// see there): entries sorted by key, cursors/snapshots on copies, batch = write
// list applied in order on Commit. Additions: CreateField (key = {1}+name like
// the leveldb driver), a counter of driver-level writes (Put, Delete, Commit)
// and a crash position after which every write is dropped (C14).
// ---------------------------------------------------------------------------

type verifC11entry struct {
	k, v []byte
}

type verifC11db struct {
	ents   []verifC11entry
	names  []string // names of created indexes (prefix = 2+position)
	writes int      // number of driver-level writes so far
	// crashAt >= 0: the process "stops" after that many writes: later writes are dropped
	crashAt int
}

func verifC11copy(b []byte) []byte {
	out := make([]byte, len(b))
	copy(out, b)
	return out
}

func verifC11find(ents []verifC11entry, key []byte) int {
	for i := range ents {
		if bytes.Equal(ents[i].k, key) {
			return i
		}
	}
	return -1
}

//verif:merge verifC11find

func (d *verifC11db) Get(key driver.Key) ([]byte, error) {
	i := verifC11find(d.ents, key.Data)
	if i < 0 {
		return nil, driver.ErrNotFound
	}
	return verifC11copy(d.ents[i].v), nil
}

func (d *verifC11db) Has(key driver.Key) (bool, error) {
	return verifC11find(d.ents, key.Data) >= 0, nil
}

// dead reports whether the write is dropped (after the crash position), and counts it otherwise.
func (d *verifC11db) dead() bool {
	if d.crashAt >= 0 && d.writes >= d.crashAt {
		return true
	}
	d.writes++
	return false
}

func (d *verifC11db) Put(key driver.Key, value driver.Value) error {
	if d.dead() {
		return nil
	}
	d.put(key.Data, value.Data)
	return nil
}

func (d *verifC11db) put(key, value []byte) {
	e := verifC11entry{k: verifC11copy(key), v: verifC11copy(value)}
	out := make([]verifC11entry, 0, len(d.ents)+1)
	placed := false
	for _, x := range d.ents {
		c := bytes.Compare(e.k, x.k)
		if c == 0 {
			out = append(out, e)
			placed = true
			continue
		}
		if !placed && c < 0 {
			out = append(out, e)
			placed = true
		}
		out = append(out, x)
	}
	if !placed {
		out = append(out, e)
	}
	d.ents = out
}

func (d *verifC11db) Delete(key driver.Key) error {
	if d.dead() {
		return nil
	}
	d.del(key.Data)
	return nil
}

func (d *verifC11db) del(key []byte) {
	out := make([]verifC11entry, 0, len(d.ents))
	for _, x := range d.ents {
		if !bytes.Equal(x.k, key) {
			out = append(out, x)
		}
	}
	d.ents = out
}

func (d *verifC11db) snapshot(q *driver.Query) []verifC11entry {
	out := make([]verifC11entry, 0, len(d.ents))
	for _, x := range d.ents {
		if q != nil && q.MatchPrefix && !bytes.HasPrefix(x.k, q.Prefix.Data) {
			continue
		}
		out = append(out, x)
	}
	return out
}

func (d *verifC11db) Search(q driver.Query) driver.Cursor {
	c := &verifC11cur{ents: d.snapshot(&q)}
	c.Seek(q.Prefix)
	return c
}

func (d *verifC11db) GetSnapshot() (driver.Snapshot, error) {
	return &verifC11snap{ents: d.snapshot(nil)}, nil
}

func (d *verifC11db) NewBatch() driver.Batching { return &verifC11batch{db: d} }
func (d *verifC11db) Close() error              { return nil }

func (d *verifC11db) DefaultFieldKey() []byte { return []byte{1} }
func (d *verifC11db) DefaultIndexKey() []byte { return []byte{2} }
func (d *verifC11db) InitSchema() error       { return nil }
func (d *verifC11db) GetSchemaSpec() (driver.SchemaSpec, error) {
	panic("unused")
}
func (d *verifC11db) CreateField(spec driver.FieldSpec) ([]byte, error) {
	return append([]byte{1}, []byte(spec.Name)...), nil
}
func (d *verifC11db) RenameIndex(string, string) (bool, error) { panic("unused") }
func (d *verifC11db) CreateIndex(spec driver.IndexSpec) ([]byte, error) {
	for i, n := range d.names {
		if n == spec.Name {
			return []byte{byte(2 + i)}, nil
		}
	}
	d.names = append(d.names, spec.Name)
	return []byte{byte(1 + len(d.names))}, nil
}

type verifC11snap struct{ ents []verifC11entry }

func (s *verifC11snap) Get(key driver.Key) ([]byte, error) {
	i := verifC11find(s.ents, key.Data)
	if i < 0 {
		return nil, driver.ErrNotFound
	}
	return verifC11copy(s.ents[i].v), nil
}
func (s *verifC11snap) Has(key driver.Key) (bool, error) {
	return verifC11find(s.ents, key.Data) >= 0, nil
}
func (s *verifC11snap) Close() error { return nil }

type verifC11op struct {
	del  bool
	k, v []byte
}

type verifC11batch struct {
	db  *verifC11db
	ops []verifC11op
}

func (b *verifC11batch) Put(key driver.Key, value driver.Value) error {
	b.ops = append(b.ops, verifC11op{k: verifC11copy(key.Data), v: verifC11copy(value.Data)})
	return nil
}
func (b *verifC11batch) Delete(key driver.Key) error {
	b.ops = append(b.ops, verifC11op{del: true, k: verifC11copy(key.Data)})
	return nil
}

// Commit is one atomic driver-level write.
func (b *verifC11batch) Commit() error {
	if b.db.dead() {
		b.ops = nil
		return nil
	}
	for _, o := range b.ops {
		if o.del {
			b.db.del(o.k)
		} else {
			b.db.put(o.k, o.v)
		}
	}
	b.ops = nil
	return nil
}

type verifC11cur struct {
	ents []verifC11entry
	pos  int // -1 before first .. len(ents) after last
}

func (c *verifC11cur) Valid() bool { return c.pos >= 0 && c.pos < len(c.ents) }
func (c *verifC11cur) Next() bool {
	if c.pos < len(c.ents) {
		c.pos++
	}
	return c.Valid()
}
func (c *verifC11cur) Prev() bool {
	if c.pos >= 0 {
		c.pos--
	}
	return c.Valid()
}
func (c *verifC11cur) Last() bool {
	c.pos = len(c.ents) - 1
	return c.Valid()
}
func (c *verifC11cur) Seek(key driver.Key) bool {
	c.pos = len(c.ents)
	for i := len(c.ents) - 1; i >= 0; i-- {
		if bytes.Compare(c.ents[i].k, key.Data) >= 0 {
			c.pos = i
		}
	}
	return c.Valid()
}
func (c *verifC11cur) Key() []byte {
	if !c.Valid() {
		return nil
	}
	return c.ents[c.pos].k
}
func (c *verifC11cur) Value() []byte {
	if !c.Valid() {
		return nil
	}
	return c.ents[c.pos].v
}
func (c *verifC11cur) Error() error { return nil }
func (c *verifC11cur) Close() error { return nil }

// the registered driver: Open hands out the current model database (so a
// re-open sees the state left behind)
type verifC11driver struct{ db *verifC11db }

func (d *verifC11driver) Open(path, options string) (driver.DB, error) { return d.db, nil }

var verifC11theDriver *verifC11driver

const verifC11driverName = "verifC11model"

// verifC11open runs the real localstore.New over the given model database.
func verifC11open(d *verifC11db) *DB {
	if verifC11theDriver == nil {
		verifC11theDriver = &verifC11driver{}
		shed.Register(verifC11driverName, verifC11theDriver)
	}
	verifC11theDriver.db = d
	db, err := New("", verifC11base(), &Options{Driver: verifC11driverName, Capacity: 1000000}, logging.New(io.Discard, 0))
	zzverif.Assert(err == nil && db != nil, "New succeeds")
	return db
}

func verifC11base() []byte { return make([]byte, 32) }

// the harness clock: strictly increasing concrete timestamps
var verifC11clock int64

func verifC11now() int64 {
	verifC11clock++
	return verifC11clock
}

// address universe: concrete, pairwise distinct 32-byte addresses
func verifC11addr(i int) boson.Address {
	b := make([]byte, 32)
	b[0] = byte(0x80 >> uint(i)) // different proximity bins w.r.t. the zero base key
	b[31] = byte(i + 1)
	return boson.NewAddress(b)
}

// ---------------------------------------------------------------------------
// Context carrying the root (file) address: sctx.GetRootHash reads
// ctx.Value(rootHashKey{}).(boson.Address); the key type is unexported in
// pkg/sctx, so this context answers every key with the root address (nil
// when there is no file context).
// ---------------------------------------------------------------------------

type verifC11ctx struct {
	root    boson.Address
	hasRoot bool
}

func (c *verifC11ctx) Deadline() (time.Time, bool) { return time.Time{}, false }
func (c *verifC11ctx) Done() <-chan struct{}       { return nil }
func (c *verifC11ctx) Err() error                  { return nil }
func (c *verifC11ctx) Value(key interface{}) interface{} {
	if c.hasRoot {
		return c.root
	}
	return nil
}

// verifC11rootCtx: r == 0: no file context; r >= 1: root = address r-1
func verifC11rootCtx(r int) context.Context {
	if r == 0 {
		return &verifC11ctx{}
	}
	return &verifC11ctx{root: verifC11addr(r - 1), hasRoot: true}
}

func verifC11eq(a, b []byte) bool {
	if len(a) != len(b) {
		return false
	}
	for i := range a {
		if a[i] != b[i] {
			return false
		}
	}
	return true
}

//verif:merge verifC11eq

func verifC11putModes() [4]storage.ModePut {
	return [4]storage.ModePut{storage.ModePutUpload, storage.ModePutRequest, storage.ModePutUploadPin, storage.ModePutRequestPin}
}

func verifC11setModes() [4]storage.ModeSet {
	return [4]storage.ModeSet{storage.ModeSetRemove, storage.ModeSetPin, storage.ModeSetUnpin, storage.ModeSetSync}
}

func verifC11getModes() [4]storage.ModeGet {
	return [4]storage.ModeGet{storage.ModeGetRequest, storage.ModeGetSync, storage.ModeGetLookup, storage.ModeGetPin}
}

// verifC11pins reads the pin counter of address i directly from the pin index
// (0 when there is no entry). It is only used to decide what a removal has to
// do ("removal honours pin counters"); how pin counters evolve is not asserted here.
func verifC11pins(db *DB, i int) uint64 {
	it, err := db.pinIndex.Get(addressToItem(verifC11addr(i)))
	if err != nil {
		return 0
	}
	return it.PinCounter
}

// one step of a history; all inputs are drawn before the first assertion
type verifC11in struct {
	op, mode, k, k2, r int
	d1, d2             []byte
}
