package localstore

import (
	"github.com/gauss-project/aurorafs/pkg/boson"
	"github.com/gauss-project/aurorafs/pkg/zzverif"
)

//verif:option opaque-int-float

// ---------------------------------------------------------------------------
// Stage (a): the arithmetic kernel of the cache accounting.
// ---------------------------------------------------------------------------

// VerifC13_IncGCSize: incGCSizeInBatch on the real DB (real Uint64Field over
// the model driver) with an arbitrary stored counter `old` and an arbitrary
// int64 change: nothing is visible before the batch commits; after the commit
// the stored counter is old+change whenever that value is representable as a
// uint64 (no wrap upwards, no underflow), and a zero change writes nothing.
func VerifC13_IncGCSize() {
	capacity := uint64(zzverif.Param("capacity", 10, 10))
	r := verifC13newRig(capacity)
	old := zzverif.U64("old")
	change := zzverif.I64("change")
	preset := zzverif.Bool("counter-present") // false: the field was never written (reads as 0)
	if preset {
		if err := r.db.gcSize.Put(old); err != nil {
			panic("put failed")
		}
	} else {
		zzverif.Assume(old == 0)
	}

	batch := r.db.shed.NewBatch()
	w0 := r.kv.writes
	r.db.batchMu.Lock()
	err := r.db.incGCSizeInBatch(batch, change)
	r.db.batchMu.Unlock()
	zzverif.Assert(err == nil, "incGCSizeInBatch succeeds")
	zzverif.Assert(r.size() == old && r.kv.writes == w0, "nothing written before the batch commits")
	if batch.Commit() != nil {
		panic("commit failed")
	}
	got := r.size()

	// specification, written with 128-bit style case analysis on the halves:
	// mag = |change| as uint64 (correct also for MinInt64)
	neg := change < 0
	mag := uint64(change)
	if neg {
		mag = ^mag + 1
	}
	var representable bool
	var want uint64
	if neg {
		representable = mag <= old
		want = old - mag
	} else {
		representable = mag <= ^uint64(0)-old
		want = old + mag
	}
	zzverif.Observe("representable", representable)
	if representable {
		zzverif.Assert(got == want, "new = old + change when representable")
	}
	if change == 0 {
		zzverif.Assert(got == old, "zero change leaves the counter")
	}
	zzverif.Reach("C13-inc")
}

// verifC13seed writes the state of one cached file directly through the real
// index encoders (as a sequence of request puts under the root would leave
// it): chunk data for every chunk of the file, the access time of the root,
// and the gc index entry root -> GCounter = number of chunks of the file.
func (r *verifC13rig) seed(f *verifC13file, ts int64, binBase uint64) uint64 {
	for i, c := range f.cids {
		it := addressToItem(c)
		it.Data = []byte{byte(i)}
		it.BinID = binBase + uint64(i)
		it.StoreTimestamp = ts
		if r.db.retrievalDataIndex.Put(it) != nil {
			panic("seed: data")
		}
	}
	root := addressToItem(f.root)
	root.AccessTimestamp = ts
	root.BinID = binBase
	root.GCounter = uint64(len(f.cids))
	if r.db.retrievalAccessIndex.Put(root) != nil || r.db.gcIndex.Put(root) != nil {
		panic("seed: gc")
	}
	f.registered = true
	return root.GCounter
}

// VerifC13_GCRecount: the size recomputation of collectGarbage on directly
// constructed states: 0..2 cached files (2 and 1 chunks, root included, no
// sharing, nothing pinned), the stored counter `old` arbitrary above the
// target. Each candidate is symbolically: evicted, dirty (an access to the
// root between candidate selection and eviction), or unknown to chunk info.
// Specification: the counter after the run is old minus the GCounter values of
// the gc index entries the run removed, whenever that is representable; in
// particular a run that removes nothing leaves the counter alone.
func VerifC13_GCRecount() {
	capacity := uint64(zzverif.Param("capacity", 3, 3)) // target 2
	r := verifC13newRig(capacity)
	f0 := &verifC13file{root: verifC13addr(0), cids: []boson.Address{verifC13addr(0), verifC13addr(2)}, nums: []int{1, 1}}
	f1 := &verifC13file{root: verifC13addr(1), cids: []boson.Address{verifC13addr(1)}, nums: []int{1}}
	r.ci.files = []*verifC13file{f0, f1}
	nfiles := zzverif.Choose("files", 3)
	fate0 := zzverif.Choose("fate-0", 3) // 0 evict, 1 dirty, 2 unknown to chunk info
	fate1 := zzverif.Choose("fate-1", 3)
	old := zzverif.U64("old")
	zzverif.Assume(old > 2)

	var g [2]uint64
	if nfiles >= 1 {
		g[0] = r.seed(f0, 10, 1)
	}
	if nfiles >= 2 {
		g[1] = r.seed(f1, 20, 5)
	}
	if r.db.gcSize.Put(old) != nil {
		panic("put")
	}
	sumBefore, entriesBefore := r.sum()
	fates := [2]int{fate0, fate1}
	files := [2]*verifC13file{f0, f1}
	for i := 0; i < 2; i++ {
		if fates[i] == 2 {
			files[i].registered = false
		}
	}
	// dirty: the root is touched (access-time update of a Get in request mode)
	// after the candidates were selected
	testHookGCIteratorDone = func() {
		for i := 0; i < nfiles; i++ {
			if fates[i] == 1 {
				if err := r.db.updateGC(addressToItem(files[i].root)); err != nil {
					panic("updateGC")
				}
			}
		}
	}
	_, done, err := r.db.collectGarbage()
	testHookGCIteratorDone = nil
	zzverif.Assert(err == nil, "collectGarbage succeeds")

	got := r.size()
	sumAfter, _ := r.sum()
	removed := sumBefore - sumAfter // GCounter total of the entries that disappeared
	zzverif.Assert(sumAfter <= sumBefore, "a collection does not add cached counts")
	allKept := sumAfter == sumBefore
	// known deviations (notes/C13.md): the run subtracts one more than the
	// chunks it deleted per evicted file; a run above the target that evicts
	// nothing (all candidates dirty or unknown to chunk info) zeroes the counter
	zzverif.Region("C13/gc-evicted-a-file", !allKept && old > removed)
	zzverif.Region("C13/gc-recycled-nothing", allKept && entriesBefore > 0)
	if entriesBefore == 0 {
		// the documented repair: nothing is collectable, the counter is reset
		zzverif.Assert(got == 0, "empty gc index: counter repaired to zero")
	} else if allKept {
		zzverif.Assert(got == old, "no gc entry removed: counter unchanged")
	} else if removed <= old {
		zzverif.Assert(got == old-removed, "counter after GC = old - counts of the removed gc entries")
	}
	if done {
		zzverif.Assert(got <= capacity, "done => counter within capacity")
	}
	zzverif.Reach("C13-gc-recount")
}
