package localstore

import (
	"bytes"
	"encoding/binary"

	"github.com/gauss-project/aurorafs/pkg/boson"
	"github.com/gauss-project/aurorafs/pkg/chunkinfo"
	"github.com/gauss-project/aurorafs/pkg/storage"
	"github.com/gauss-project/aurorafs/pkg/zzverif"
)

// ---------------------------------------------------------------------------
// C14: crash consistency. One store over the model driver (zz_verif_common_C11.go).
// The model driver counts driver-level writes (Put, Delete, batch Commit) and,
// when crashAt >= 0, drops every write after the crashAt-th one: the store's
// persistent state is frozen as if the process had stopped right after that
// write (what the dead process "reads" or returns afterwards is ignored).
//
// Shape of a run: a crash-free prefix history; state B (before) is recorded;
// the last operation runs completely once: state A (after) is recorded; the
// driver is set back to B (the driver entries are the only persistent state),
// the clock is set back, and the same operation runs again with the crash
// position c = Choose: it stops after c writes (c = 0: before the first write;
// c >= number of writes of the operation: no crash). Then the real
// localstore.New runs on the frozen driver state and the post-conditions of the
// statement are asserted on the reopened store and on the raw driver entries:
//
//  (1) per chunk address x, on the records of x in all four indexes (retrieval
//      data, retrieval access, gc, pin: every driver entry whose key ends with
//      the address): (1a) verifC14consistent(x) holds after the crash whenever
//      it holds in B and in A (a crash-free run can already leave records that
//      fail it, e.g. the gc entry of a removed root chunk: that is not a crash
//      matter); (1b) stronger, relative reading that follows the mechanism
//      "one write batch per operation": the records of x are exactly its
//      records in B or exactly its records in A, never a mixture;
//  (2) the pin counter of every address read through the reopened store equals
//      its value in B or in A; Has(chunk) likewise;
//  (3) gc-size field (after New's start-up correction) >= sum of the GCounter
//      values of the gc index, both decoded from the raw driver entries.
// ---------------------------------------------------------------------------

// index prefixes in creation order of New: 2 retrieval data, 3 retrieval access, 4 gc, 5 pin
const (
	verifC14pfxData   = 2
	verifC14pfxAccess = 3
	verifC14pfxGC     = 4
	verifC14pfxPin    = 5
)

// verifC14records: the driver entries that belong to the chunk address.
func verifC14records(ents []verifC11entry, addr []byte) []verifC11entry {
	var out []verifC11entry
	for _, e := range ents {
		if len(e.k) < 1+len(addr) || e.k[0] < verifC14pfxData || e.k[0] > verifC14pfxPin {
			continue
		}
		if bytes.Equal(e.k[len(e.k)-len(addr):], addr) {
			out = append(out, e)
		}
	}
	return out
}

func verifC14sameRecords(a, b []verifC11entry) bool {
	if len(a) != len(b) {
		return false
	}
	ok := true
	for i := range a {
		ok = ok && verifC11eq(a[i].k, b[i].k) && verifC11eq(a[i].v, b[i].v)
	}
	return ok
}

// verifC14consistent: the absolute reading of "fully present with consistent
// bookkeeping or fully absent" for one chunk address on raw driver entries:
// absent (no retrieval data entry): no access, gc or pin entry either; present:
// at most one gc entry, and it is filed under the chunk's access timestamp and
// bin id (so the store can find it again) with a counter >= 1; a pin entry, if
// any, has a counter >= 1.
func verifC14consistent(ents []verifC11entry, addr []byte) bool {
	var data, access, pin []byte
	var gcK, gcV [][]byte
	for _, e := range ents {
		if len(e.k) < 1+len(addr) || !bytes.Equal(e.k[len(e.k)-len(addr):], addr) {
			continue
		}
		switch {
		case e.k[0] == verifC14pfxData && len(e.k) == 1+len(addr):
			data = e.v
		case e.k[0] == verifC14pfxAccess && len(e.k) == 1+len(addr):
			access = e.v
		case e.k[0] == verifC14pfxPin && len(e.k) == 1+len(addr):
			pin = e.v
		case e.k[0] == verifC14pfxGC && len(e.k) == 17+len(addr):
			gcK = append(gcK, e.k)
			gcV = append(gcV, e.v)
		}
	}
	if data == nil {
		return access == nil && pin == nil && len(gcK) == 0
	}
	ok := len(gcK) <= 1 && len(data) >= 16
	for i := range gcK {
		ok = ok && access != nil && len(access) == 8 && verifC11eq(gcK[i][1:9], access) && verifC11eq(gcK[i][9:17], data[:8])
		ok = ok && len(gcV[i]) == 8 && binary.BigEndian.Uint64(gcV[i]) >= 1
	}
	if pin != nil {
		ok = ok && len(pin) == 8 && binary.BigEndian.Uint64(pin) >= 1
	}
	return ok
}

func verifC14hasData(ents []verifC11entry, addr []byte) bool {
	for _, e := range ents {
		if len(e.k) == 1+len(addr) && e.k[0] == verifC14pfxData && bytes.Equal(e.k[1:], addr) {
			return true
		}
	}
	return false
}

func verifC14rawPins(ents []verifC11entry, addr []byte) uint64 {
	for _, e := range ents {
		if len(e.k) == 1+len(addr) && e.k[0] == verifC14pfxPin && bytes.Equal(e.k[1:], addr) && len(e.v) == 8 {
			return binary.BigEndian.Uint64(e.v)
		}
	}
	return 0
}

// verifC14gc: the gc-size field and the sum of the GCounter values, from the raw entries
func verifC14gc(ents []verifC11entry) (gcSize, sum uint64) {
	key := append([]byte{1}, []byte("gc-size")...)
	for _, e := range ents {
		if bytes.Equal(e.k, key) && len(e.v) == 8 {
			gcSize = binary.BigEndian.Uint64(e.v)
		}
		if len(e.k) > 0 && e.k[0] == verifC14pfxGC && len(e.v) == 8 {
			sum += binary.BigEndian.Uint64(e.v)
		}
	}
	return
}

// verifC14gcCount: the GCounter of the gc entry of the address in the raw entries
func verifC14gcCount(ents []verifC11entry, addr []byte) (count uint64, found bool) {
	for _, e := range ents {
		if len(e.k) == 17+len(addr) && e.k[0] == verifC14pfxGC && bytes.Equal(e.k[17:], addr) && len(e.v) == 8 {
			return binary.BigEndian.Uint64(e.v), true
		}
	}
	return 0, false
}

// verifC14tornPinRegion delimits the known deviation (notes/C14.md): a pinning
// operation (Set pin, Put upload-pin) under the file context of a file whose
// root has a gc entry that does not count exactly 1 (a cached file with more
// than one chunk, or a synced root), which pins the file's root chunk itself
// or pins two chunks in one call, stopped right after its first driver write
// (setPin's direct gcIndex.Put).
func verifC14tornPinRegion(d *verifC11db, in verifC11in, c int) bool {
	if c != 1 || in.r == 0 {
		return false
	}
	root := in.r - 1
	// setPin deletes the gc entry in the batch when it counts exactly 1 and
	// otherwise (> 1, or the 0 that setSync writes) rewrites it directly
	if g, found := verifC14gcCount(d.ents, verifC11addr(root).Bytes()); !found || g == 1 {
		return false
	}
	switch in.op {
	case 0:
		return verifC11putModes()[in.mode] == storage.ModePutUploadPin && in.k == root
	case 1:
		return verifC11setModes()[in.mode] == storage.ModeSetPin && in.k == root
	case 3:
		// (a repeated chunk is skipped: one setPin call only)
		return verifC11putModes()[in.mode] == storage.ModePutUploadPin && (in.k == root || in.k2 == root || in.k != in.k2)
	case 4:
		// two setPin calls: the second one completes the gc update in the batch
		return verifC11setModes()[in.mode] == storage.ModeSetPin
	}
	return false
}

func verifC14snapshot(d *verifC11db) []verifC11entry {
	out := make([]verifC11entry, len(d.ents))
	copy(out, d.ents) // entries are never modified in place
	return out
}

// verifC14apply runs one operation (results are not looked at: C11 checks them)
func verifC14apply(db *DB, in verifC11in) {
	ctx := verifC11rootCtx(in.r)
	a := verifC11addr(in.k)
	switch in.op {
	case 0:
		_, _ = db.Put(ctx, verifC11putModes()[in.mode], boson.NewChunk(a, in.d1))
	case 1:
		_ = db.Set(ctx, verifC11setModes()[in.mode], a)
	case 2:
		// the access-time update of a retrieval
		_, _ = db.Get(ctx, storage.ModeGetRequest, a)
		db.updateGCWG.Wait()
	case 3:
		// two chunks in one call
		_, _ = db.Put(ctx, verifC11putModes()[in.mode], boson.NewChunk(a, in.d1), boson.NewChunk(verifC11addr(in.k2), in.d2))
	case 4:
		// two addresses in one call
		_ = db.Set(ctx, verifC11setModes()[in.mode], a, verifC11addr(in.k2))
	}
}

// verifC14draw: ops 0 put one chunk, 1 set one address, 2 retrieval (access-time
// update), 3 put two chunks in one call, 4 set two addresses in one call.
// Inputs an operation does not use are not drawn (fewer identical paths).
func verifC14draw(nops, K, R int) verifC11in {
	var in verifC11in
	in.op = zzverif.Choose("op", nops)
	if in.op != 2 {
		in.mode = zzverif.Choose("mode", 4)
	}
	in.k = zzverif.Choose("k", K)
	in.r = zzverif.Choose("root", R)
	if in.op >= 3 {
		in.k2 = zzverif.Choose("k2", K)
	}
	in.d1 = zzverif.BytesN("data", 2)
	in.d2 = zzverif.BytesN("data2", 2)
	return in
}

// verifC14crashCheck: db/d hold the state B; runs op completely, then again
// from B with the crash position c, reopens and asserts the post-conditions.
func verifC14crashCheck(db *DB, d *verifC11db, K int, c int, op func()) {
	stateB := verifC14snapshot(d)
	clockB := verifC11clock

	op()
	stateA := verifC14snapshot(d)

	// back to B, and again with the crash
	d.ents = verifC14snapshot(&verifC11db{ents: stateB})
	verifC11clock = clockB
	d.crashAt = d.writes + c
	op()
	// the process is dead; a new one opens the store
	d.crashAt = -1
	db2 := verifC11open(d)
	stateC := verifC14snapshot(d)

	okRecords, okPins, okHas, okCons := true, true, true, true
	ctx := verifC11rootCtx(0)
	for i := 0; i < K; i++ {
		a := verifC11addr(i)
		rc := verifC14records(stateC, a.Bytes())
		okRecords = okRecords && (verifC14sameRecords(rc, verifC14records(stateB, a.Bytes())) || verifC14sameRecords(rc, verifC14records(stateA, a.Bytes())))
		if verifC14consistent(stateB, a.Bytes()) && verifC14consistent(stateA, a.Bytes()) {
			okCons = okCons && verifC14consistent(stateC, a.Bytes())
		}
		p := verifC11pins(db2, i)
		okPins = okPins && (p == verifC14rawPins(stateB, a.Bytes()) || p == verifC14rawPins(stateA, a.Bytes()))
		has, err := db2.Has(ctx, storage.ModeHasChunk, a)
		okHas = okHas && err == nil && (has == verifC14hasData(stateB, a.Bytes()) || has == verifC14hasData(stateA, a.Bytes()))
	}
	gcSize, sum := verifC14gc(stateC)
	zzverif.Assert(okCons, "after a crash every chunk is fully present with consistent records or fully absent")
	zzverif.Assert(okPins, "after a crash pin counters equal their value before or after the operation")
	zzverif.Assert(okHas, "after a crash a chunk is present iff it was before or is after the operation")
	zzverif.Assert(gcSize >= sum, "after reopening gc-size >= sum of the gc counters")
	// the stronger, relative reading (one write batch per operation)
	zzverif.Assert(okRecords, "after a crash every chunk's records are all old or all new")
}

// VerifC14_PutSet: crash at every driver write of a put (all modes, one or two
// chunks), a set (remove, pin, unpin, sync; one or two addresses) or the
// access-time update of a retrieval, after a crash-free prefix history.
func VerifC14_PutSet() {
	steps := zzverif.Param("prefix-steps", 1, 2)
	K := zzverif.Param("addresses", 2, 2)
	R := zzverif.Param("roots", 2, 2)
	C := zzverif.Param("crash-positions", 3, 3)
	// thorough: the first prefix step is a put and the crashing operation has
	// one chunk/address (two-chunk calls: quick tier and VerifC14_CachedFile)
	firstPut := zzverif.Param("first-step-is-put", 0, 1)
	lastOps := zzverif.Param("last-op-kinds", 5, 3)
	zzverif.Unwind(64)
	verifC11clock = 0
	now = verifC11now
	d := &verifC11db{crashAt: -1}
	db := verifC11open(d)
	for s := 0; s < steps; s++ {
		nops := 3
		if s == 0 && firstPut == 1 {
			nops = 1
		}
		in := verifC14draw(nops, K, R)
		verifC14apply(db, in)
	}
	in := verifC14draw(lastOps, K, R)
	c := zzverif.Choose("crash", C)
	zzverif.Region("C14/root-pin-under-cached-file-torn-after-direct-gc-write", verifC14tornPinRegion(d, in, c))
	verifC14crashCheck(db, d, K, c, func() { verifC14apply(db, in) })
	zzverif.Reach("C14-put-set")
}

// VerifC14_CachedFile: the store holds a cached (retrieved) file of two chunks:
// root chunk 0 and chunk 1 put in request mode under the file context of chunk
// 0, so the file's gc entry counts 2. Then any operation of VerifC14_PutSet
// crashes at any of its driver writes. (This prefix is the shortest one after
// which setPin takes its "GCounter > 1" branch.)
func VerifC14_CachedFile() {
	K := zzverif.Param("addresses", 2, 3)
	R := zzverif.Param("roots", 2, 2)
	C := zzverif.Param("crash-positions", 3, 4)
	zzverif.Unwind(64)
	verifC11clock = 0
	now = verifC11now
	d := &verifC11db{crashAt: -1}
	db := verifC11open(d)
	ctx := verifC11rootCtx(1)
	for i := 0; i < 2; i++ {
		data := zzverif.BytesN("file-data", 2)
		exist, err := db.Put(ctx, storage.ModePutRequest, boson.NewChunk(verifC11addr(i), data))
		zzverif.Assume(err == nil && len(exist) == 1 && !exist[0])
	}
	in := verifC14draw(5, K, R)
	c := zzverif.Choose("crash", C)
	zzverif.Region("C14/root-pin-under-cached-file-torn-after-direct-gc-write", verifC14tornPinRegion(d, in, c))
	verifC14crashCheck(db, d, K, c, func() { verifC14apply(db, in) })
	zzverif.Reach("C14-cached-file")
}

// ---------------------------------------------------------------------------
// Garbage collection: chunkinfo stub that knows one file (root chunk 0 with the
// chunks listed in its pyramid); DelFile runs the localstore's deletion
// callback and passes its error on (as the real (*ChunkInfo).DelFile does
// after its own look-ups). Unused methods: nil embedded interface (panic).
// ---------------------------------------------------------------------------

type verifC14discover struct {
	chunkinfo.Interface
	pyramid []*chunkinfo.PyramidCidNum
}

func (s *verifC14discover) IsDiscover(rootCid boson.Address) bool { return false }
func (s *verifC14discover) DelDiscover(rootCid boson.Address)     {}
func (s *verifC14discover) DelFile(rootCid boson.Address, del func() error) error {
	return del()
}
func (s *verifC14discover) GetChunkPyramid(rootCid boson.Address) []*chunkinfo.PyramidCidNum {
	return s.pyramid
}

// VerifC14_GC: the store holds the cached two-chunk file of VerifC14_CachedFile;
// chunk 0 (the root) and chunk 1 are pinned 0..2 times each (Set pin without a
// file context); then the capacity is lowered to 1 and collectGarbage is
// called directly (the worker goroutine is idle) and stops at any of its
// driver writes (direct pin counter updates, then the batch commit).
func VerifC14_GC() {
	K := 2
	C := zzverif.Param("crash-positions", 4, 4)
	zzverif.Unwind(64)
	verifC11clock = 0
	now = verifC11now
	d := &verifC11db{crashAt: -1}
	db := verifC11open(d)
	ctx := verifC11rootCtx(1)
	for i := 0; i < 2; i++ {
		data := zzverif.BytesN("file-data", 2)
		exist, err := db.Put(ctx, storage.ModePutRequest, boson.NewChunk(verifC11addr(i), data))
		zzverif.Assume(err == nil && len(exist) == 1 && !exist[0])
	}
	p0 := zzverif.Choose("pins-root", 3)
	p1 := zzverif.Choose("pins-chunk1", 3)
	withRoot := zzverif.Choose("pyramid-lists-root", 2) == 1
	c := zzverif.Choose("crash", C)
	for i := 0; i < p0; i++ {
		zzverif.Assume(db.Set(verifC11rootCtx(0), storage.ModeSetPin, verifC11addr(0)) == nil)
	}
	for i := 0; i < p1; i++ {
		zzverif.Assume(db.Set(verifC11rootCtx(0), storage.ModeSetPin, verifC11addr(1)) == nil)
	}
	st := &verifC14discover{}
	if withRoot {
		st.pyramid = append(st.pyramid, &chunkinfo.PyramidCidNum{Cid: verifC11addr(0), Number: 1})
	}
	st.pyramid = append(st.pyramid, &chunkinfo.PyramidCidNum{Cid: verifC11addr(1), Number: 1})
	db.SetChunkInfo(st)
	db.capacity = 1

	// known deviation under reading (1b), see notes/C14.md: the root chunk is
	// pinned more often than the pyramid counts it; collectGarbage lowers its pin
	// counter with a direct pinIndex.Put and stops before the batch commit
	zzverif.Region("C14/gc-overpinned-root-direct-pin-write", p0 == 2 && withRoot && (c == 1 || c == 2 && p1 == 2))
	verifC14crashCheck(db, d, K, c, func() { _, _, _ = db.collectGarbage() })
	zzverif.Reach("C14-gc")
}
