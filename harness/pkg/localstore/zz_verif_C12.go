package localstore

import (
	"github.com/gauss-project/aurorafs/pkg/storage"
	"github.com/gauss-project/aurorafs/pkg/zzverif"
)

// VerifC12_History: C12 on the real localstore over the model driver (rig of
// zz_verif_common_C13rig.go), capacity 2 (target 1) so that collections evict.
//
// Universe: F0 = [c0 (root), c2 (occurs twice in the file), c4], F1 = [c1 (root),
// c3, c4]; c4 is shared. Both pyramids are known to chunk info (the stub
// follows chunkinfo.getUnRepeatChunk: chunks referenced by more than one known
// file are not in the pyramid handed to the collector).
//
// Start states: (0) F0 cached by request puts; (1) F1 uploaded and pinned
// (ModePutUploadPin under its root), then F0 cached - the shared chunk c4 was
// stored by the upload; (2) F1 uploaded without pins, then F0 cached; (3) F0
// cached first (c4 stored by the request), then F1 uploaded and pinned.
// Start states with chunks pinned MORE THAN ONCE (real operations; there the
// collection is a full sweep: capacity 1, target 0, every file of the gc index
// is a candidate): (4) F1 uploaded and pinned, every chunk of F1 pinned a
// second time under the root of F1, then F0 cached; (5) F1 and F0 both
// uploaded and pinned under their roots - the shared chunk c4 carries two pins,
// nothing is cached. An unpin under a root then leaves the chunk pinned.
// Then a history of request puts, uploads, pinned uploads, pinned request puts,
// pins and unpins of single chunks of either file, and one collection (plain,
// or racing with an access to a root). After the collection:
//   - every chunk whose pin counter was positive before the collection is
//     still retrievable (Has and Get in lookup mode),
//   - every chunk stored by a local upload is still retrievable,
//   - the pin counter of every chunk is what it was before the collection.
func VerifC12_History() {
	capacity := uint64(zzverif.Param("capacity", 2, 2))
	steps := zzverif.Param("steps", 1, 2)
	// start states 4.. (chunks pinned more than once): full-sweep collection
	starts := zzverif.Param("start-states", 6, 6)
	stepsRepinned := zzverif.Param("steps-from-repinned-start", 1, 2)
	start := zzverif.Choose("start", starts)
	if start >= 4 {
		capacity = uint64(zzverif.Param("capacity-full-sweep", 1, 1))
		steps = stepsRepinned
	}
	r := verifC13newRig(capacity)
	r.ci.files = verifC13universe()
	for _, f := range r.ci.files {
		f.registered = true
	}
	all := []int{0, 1, 2, 3, 4}
	uploaded := make([]bool, 5) // chunk (by address number) stored by a local upload
	idx := func(f, k int) int { return [2][3]int{{0, 2, 4}, {1, 3, 4}}[f][k] }
	ops := []int{verifC13opPutReq, verifC13opUpload, verifC13opUploadPin, verifC13opPutReqPin, verifC13opPin, verifC13opUnpin, verifC13opGet}

	// cacheable[f] (reference, from the history alone): the file was given a
	// cached-chunk count under its root - a request put stored a new chunk
	// under the root, or an unpin under the root released the last pin of a
	// chunk. Uploads, pinned puts, pins and gets never make a file collectable.
	var cacheable [2]bool
	apply := func(op, f, k int) error {
		a := verifC13addr(idx(f, k))
		absent := !r.has(a)
		pins := r.pinCount(a)
		err, _ := r.do(op, f, k)
		if (op == verifC13opUpload || op == verifC13opUploadPin) && absent && r.has(a) {
			uploaded[idx(f, k)] = true
		}
		if op == verifC13opPutReq && absent && r.has(a) {
			cacheable[f] = true
		}
		if op == verifC13opUnpin && err == nil && pins == 1 {
			cacheable[f] = true
		}
		if op == verifC13opUnpin && err == nil && pins > 1 {
			// the chunk stays pinned: nothing becomes collectable
			zzverif.Reach("C12-unpin-left-the-chunk-pinned")
		}
		return err
	}
	cacheF0 := func() {
		for k := 0; k < 3; k++ {
			zzverif.Assert(apply(verifC13opPutReq, 0, k) == nil, "start state: request put succeeds")
		}
	}
	uploadF1 := func(op int) {
		for k := 0; k < 3; k++ {
			zzverif.Assert(apply(op, 1, k) == nil, "start state: upload succeeds")
		}
	}
	uploadF0 := func(op int) {
		for k := 0; k < 3; k++ {
			zzverif.Assert(apply(op, 0, k) == nil, "start state: upload succeeds")
		}
	}
	switch start {
	case 0:
		cacheF0()
	case 1:
		uploadF1(verifC13opUploadPin)
		cacheF0()
	case 2:
		uploadF1(verifC13opUpload)
		cacheF0()
	case 3:
		cacheF0()
		uploadF1(verifC13opUploadPin)
	case 4:
		uploadF1(verifC13opUploadPin)
		for k := 0; k < 3; k++ {
			zzverif.Assert(apply(verifC13opPin, 1, k) == nil, "start state: pin succeeds")
		}
		cacheF0()
	case 5:
		uploadF1(verifC13opUploadPin)
		uploadF0(verifC13opUploadPin)
	}

	for s := 0; s < steps; s++ {
		op := ops[zzverif.Choose("op", len(ops))]
		f := zzverif.Choose("file", 2)
		k := zzverif.Choose("chunk", 3)
		_ = apply(op, f, k)
	}
	race := zzverif.Choose("gc-race", 3) // 0: plain, 1/2: access to the root of F0/F1 during the run

	var pinBefore [5]uint64
	var hadBefore [5]bool
	for _, c := range all {
		pinBefore[c] = r.pinCount(verifC13addr(c))
		hadBefore[c] = r.has(verifC13addr(c))
	}
	sumBefore, _ := r.sum()
	// known deviations (notes/C12.md): a pinned / uploaded chunk ALL of whose
	// known files were made cacheable by the history: nothing keeps it out of
	// the pyramids the collector works on
	collectable := cacheable
	inFile := func(f, c int) bool { return idx(f, 0) == c || idx(f, 1) == c || idx(f, 2) == c }
	pinnedExposed, uploadExposed := false, false
	for _, c := range all {
		exposed := hadBefore[c]
		for f := 0; f < 2; f++ {
			if inFile(f, c) && !collectable[f] {
				exposed = false
			}
		}
		if exposed && pinBefore[c] > 0 {
			pinnedExposed = true
		}
		if exposed && uploaded[c] {
			uploadExposed = true
		}
	}
	zzverif.Region("C12/pinned-chunk-only-in-collectable-files", pinnedExposed)
	zzverif.Region("C12/uploaded-chunk-only-in-collectable-files", uploadExposed)

	var err error
	if race == 0 {
		err, _ = r.do(verifC13opGC, 0, 0)
	} else {
		err, _ = r.do(verifC13opGCRace, race-1, 0)
	}
	zzverif.Assert(err == nil, "collectGarbage succeeds")

	pinnedKept, uploadKept, pinsSame := true, true, true
	for _, c := range all {
		a := verifC13addr(c)
		_, gerr := r.db.get(storage.ModeGetLookup, a, a)
		present := r.has(a) && gerr == nil
		if pinBefore[c] > 0 && hadBefore[c] && !present {
			pinnedKept = false
		}
		if uploaded[c] && hadBefore[c] && !present {
			uploadKept = false
		}
		if r.pinCount(a) != pinBefore[c] {
			pinsSame = false
		}
	}
	zzverif.Assert(pinnedKept, "pinned chunks survive the collection")
	zzverif.Assert(uploadKept, "chunks stored by local upload survive the collection")
	zzverif.Assert(pinsSame, "the collection changes no pin counter")
	sumAfter, _ := r.sum()
	if sumAfter < sumBefore {
		zzverif.Reach("C12-collection-evicted-a-file")
	}
	zzverif.Reach("C12-history")
}
