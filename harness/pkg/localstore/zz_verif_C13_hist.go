package localstore

import (
	"github.com/gauss-project/aurorafs/pkg/zzverif"
)

// ---------------------------------------------------------------------------
// Stage (b): histories on the real localstore over the model driver.
// ---------------------------------------------------------------------------

// known deviations (see notes/C13.md): sticky flags over the history, declared
// as regions so that each finding is identified separately and everything
// outside them is still checked.
type verifC13dev struct {
	batchNew  bool // a request put of two chunks in one call, both not stored before
	gcEvicted bool // a collection that removed a gc index entry
	gcNothing bool // a collection above the target with a non-empty gc index that removed no entry
	pinNoGC   bool // a pin under a root that has an access-time entry but no gc index entry
	uploadPin bool // a pinned upload under a root that has a gc index entry
}

func (d *verifC13dev) regions() {
	zzverif.Region("C13/batched-request-put-of-two-new-chunks", d.batchNew)
	zzverif.Region("C13/gc-evicted-a-file", d.gcEvicted)
	zzverif.Region("C13/gc-recycled-nothing", d.gcNothing)
	zzverif.Region("C13/pin-under-root-without-gc-entry", d.pinNoGC)
	zzverif.Region("C13/pinned-upload-under-collectable-root", d.uploadPin)
}

// note records the deviation triggers of one operation (before: state read
// before the operation through the real indexes)
func (d *verifC13dev) note(r *verifC13rig, op int, gc verifC13gcResult, bothNew, rootNoGC, rootGC bool) {
	if op == verifC13opUploadPin && rootGC {
		d.uploadPin = true
	}
	if (op == verifC13opPin || op == verifC13opPutReqPin || op == verifC13opUploadPin) && rootNoGC {
		d.pinNoGC = true
	}
	if op == verifC13opPutReq2 && bothNew {
		d.batchNew = true
	}
	if gc.ran {
		sum, _ := r.sum()
		if sum < gc.sumBefore {
			d.gcEvicted = true
		} else if gc.sizeBefore > r.db.gcTarget() && gc.entBefore > 0 {
			d.gcNothing = true
		}
	}
}

// verifC13check: the two clauses of C13 at a point outside a collection run.
func (r *verifC13rig) check(capacity uint64, gc verifC13gcResult) {
	size := r.size()
	sum, _ := r.sum()
	if gc.ran && gc.done && gc.err == nil {
		zzverif.Assert(sum <= capacity, "collection done => recorded cached total within capacity")
		zzverif.Assert(size <= capacity, "collection done => gcSize within capacity")
	}
	zzverif.Assert(size == sum, "gcSize = sum of GCounter over the gc index")
}

// VerifC13_History: from a start state built with single request puts (empty /
// F0 cached / F0 and the root of F1 cached), a history of 2 operations: request
// puts (single and two chunks per call), request gets, pins, unpins, removals
// and collections (plain, or racing with an access to a file's root); thorough
// tier: also uploads, pinned uploads, pinned request puts, and from the third
// start state additionally 3 operations of the first six kinds. After every
// operation: gcSize equals the sum of GCounter over the gc index (recomputed
// as localstore.New does); after a collection that reports done that sum and
// gcSize are at most the capacity. Finally the store is reopened with the real
// New on the same driver state and the equality is checked again.
func VerifC13_History() {
	capacity := uint64(zzverif.Param("capacity", 3, 3))
	steps := zzverif.Param("steps", 2, 2)
	starts := zzverif.Param("start-states", 3, 4) // thorough: state 2 once more with 3 steps of the first 6 operation kinds
	nops := zzverif.Param("ops", 8, 11)           // thorough: also upload, pinned upload, pinned request put
	r := verifC13newRig(capacity)
	r.ci.files = verifC13universe()
	for _, f := range r.ci.files {
		f.registered = true
	}
	dev := &verifC13dev{}
	dev.regions()
	start := zzverif.Choose("start", starts)
	if start >= 1 {
		for k := 0; k < 3; k++ {
			err, _ := r.do(verifC13opPutReq, 0, k)
			zzverif.Assert(err == nil, "start state: request put succeeds")
		}
	}
	if start >= 2 {
		err, _ := r.do(verifC13opPutReq, 1, 0)
		zzverif.Assert(err == nil, "start state: request put succeeds")
	}
	r.check(capacity, verifC13gcResult{})
	if start == 3 {
		steps, nops = 3, 6
	}
	// coarse clock: the operations of the history may all read the instant the
	// last start-state operation recorded
	r.stall = zzverif.Bool("clock-stalls")

	for s := 0; s < steps; s++ {
		op := zzverif.Choose("op", nops)
		f, k := 0, 0
		if op != verifC13opGC {
			f = zzverif.Choose("file", 2)
		}
		if op != verifC13opGC && op != verifC13opGCRace {
			k = zzverif.Choose("chunk", 3)
		}
		file := r.ci.files[f]
		bothNew := !r.has(file.cids[k]) && !r.has(file.cids[(k+1)%3])
		rootGC := r.gcEntries(file.root) > 0
		rootNoGC := r.accessed(file.root) && !rootGC
		_, gc := r.do(op, f, k)
		dev.note(r, op, gc, bothNew, rootNoGC, rootGC)
		dev.regions()
		r.check(capacity, gc)
	}

	// reopen: the real New on the same driver state
	db2, err := verifC13open(r.kv, capacity)
	zzverif.Assert(err == nil && db2 != nil, "reopen succeeds")
	r.db = db2
	db2.SetChunkInfo(r.ci)
	dev.regions()
	r.check(capacity, verifC13gcResult{})
	zzverif.Reach("C13-history")
}
