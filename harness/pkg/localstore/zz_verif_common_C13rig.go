package localstore

import (
	"bytes"
	"context"
	"errors"
	"io"

	"github.com/gauss-project/aurorafs/pkg/aurora"
	"github.com/gauss-project/aurorafs/pkg/boson"
	"github.com/gauss-project/aurorafs/pkg/chunkinfo"
	"github.com/gauss-project/aurorafs/pkg/logging"
	"github.com/gauss-project/aurorafs/pkg/retrieval/aco"
	"github.com/gauss-project/aurorafs/pkg/shed"
	"github.com/gauss-project/aurorafs/pkg/shed/driver"
	"github.com/gauss-project/aurorafs/pkg/storage"
	"github.com/gauss-project/aurorafs/pkg/zzverif"
)

// Shared rig of the localstore harnesses C13 / C12: the REAL localstore.New
// (real shed.NewDB, real field/index/vector code with the encode/decode
// closures of New) over a model key-value driver registered in shed's driver
// registry, a harness clock, and a chunkinfo.Interface stub.

//verif:root pkg/shed pkg/shed/driver pkg/boson pkg/storage pkg/metrics
//verif:merge pkg/boson.Proximity, (pkg/boson.Address).Equal, (pkg/boson.Address).MemberOf
//verif:noop pkg/localstore.totalTimeMetric
//verif:go-ignore (*pkg/localstore.DB).collectGarbageWorker

// ---------------------------------------------------------------------------
// Model key-value driver (copy of the C19 model driver, plus CreateField and a
// driver.Driver front): entries sorted by key (sorted insertion), cursors and
// snapshots on a copy, batch = write list applied in order by Commit.
// ---------------------------------------------------------------------------

type verifC13entry struct {
	k, v []byte
}

type verifC13kv struct {
	ents   []verifC13entry
	names  []string // names of created indexes; index i gets prefix byte 2+i (as the leveldb driver)
	writes int      // number of driver-level writes (Put/Delete/Commit)
}

func verifC13copy(b []byte) []byte {
	out := make([]byte, len(b))
	copy(out, b)
	return out
}

func verifC13find(ents []verifC13entry, key []byte) int {
	for i := range ents {
		if bytes.Equal(ents[i].k, key) {
			return i
		}
	}
	return -1
}

func (d *verifC13kv) Get(key driver.Key) ([]byte, error) {
	i := verifC13find(d.ents, key.Data)
	if i < 0 {
		return nil, driver.ErrNotFound
	}
	return verifC13copy(d.ents[i].v), nil
}

func (d *verifC13kv) Has(key driver.Key) (bool, error) {
	return verifC13find(d.ents, key.Data) >= 0, nil
}

func (d *verifC13kv) put(k, v []byte) {
	e := verifC13entry{k: verifC13copy(k), v: verifC13copy(v)}
	out := make([]verifC13entry, 0, len(d.ents)+1)
	placed := false
	for _, x := range d.ents {
		c := bytes.Compare(e.k, x.k)
		if c == 0 {
			out = append(out, e)
			placed = true
			continue
		}
		if !placed && c < 0 {
			out = append(out, e)
			placed = true
		}
		out = append(out, x)
	}
	if !placed {
		out = append(out, e)
	}
	d.ents = out
}

func (d *verifC13kv) del(k []byte) {
	out := make([]verifC13entry, 0, len(d.ents))
	for _, x := range d.ents {
		if !bytes.Equal(x.k, k) {
			out = append(out, x)
		}
	}
	d.ents = out
}

func (d *verifC13kv) Put(key driver.Key, value driver.Value) error {
	d.writes++
	d.put(key.Data, value.Data)
	return nil
}

func (d *verifC13kv) Delete(key driver.Key) error {
	d.writes++
	d.del(key.Data)
	return nil
}

func (d *verifC13kv) snapshot() []verifC13entry {
	out := make([]verifC13entry, len(d.ents))
	copy(out, d.ents)
	return out
}

func (d *verifC13kv) Search(q driver.Query) driver.Cursor {
	c := &verifC13cur{ents: d.snapshot()}
	c.Seek(q.Prefix)
	return c
}

func (d *verifC13kv) GetSnapshot() (driver.Snapshot, error) {
	return &verifC13snap{ents: d.snapshot()}, nil
}

func (d *verifC13kv) NewBatch() driver.Batching { return &verifC13batch{db: d} }
func (d *verifC13kv) Close() error              { return nil }

func (d *verifC13kv) DefaultFieldKey() []byte { return []byte{1} }
func (d *verifC13kv) DefaultIndexKey() []byte { return []byte{2} }
func (d *verifC13kv) InitSchema() error {
	d.put([]byte{0}, []byte("schema"))
	return nil
}
func (d *verifC13kv) GetSchemaSpec() (driver.SchemaSpec, error) { panic("unused") }
func (d *verifC13kv) RenameIndex(string, string) (bool, error)  { panic("unused") }

// CreateField: like the leveldb driver, the key of a field is {1} + name.
func (d *verifC13kv) CreateField(spec driver.FieldSpec) ([]byte, error) {
	return append([]byte{1}, []byte(spec.Name)...), nil
}

// CreateIndex: like the leveldb driver, prefixes 2,3,4.. in creation order.
func (d *verifC13kv) CreateIndex(spec driver.IndexSpec) ([]byte, error) {
	for i, n := range d.names {
		if n == spec.Name {
			return []byte{byte(2 + i)}, nil
		}
	}
	d.names = append(d.names, spec.Name)
	return []byte{byte(1 + len(d.names))}, nil
}

type verifC13snap struct{ ents []verifC13entry }

func (s *verifC13snap) Get(key driver.Key) ([]byte, error) {
	i := verifC13find(s.ents, key.Data)
	if i < 0 {
		return nil, driver.ErrNotFound
	}
	return verifC13copy(s.ents[i].v), nil
}
func (s *verifC13snap) Has(key driver.Key) (bool, error) {
	return verifC13find(s.ents, key.Data) >= 0, nil
}
func (s *verifC13snap) Close() error { return nil }

type verifC13op struct {
	del  bool
	k, v []byte
}

type verifC13batch struct {
	db  *verifC13kv
	ops []verifC13op
}

func (b *verifC13batch) Put(key driver.Key, value driver.Value) error {
	b.ops = append(b.ops, verifC13op{k: verifC13copy(key.Data), v: verifC13copy(value.Data)})
	return nil
}
func (b *verifC13batch) Delete(key driver.Key) error {
	b.ops = append(b.ops, verifC13op{del: true, k: verifC13copy(key.Data)})
	return nil
}
func (b *verifC13batch) Commit() error {
	b.db.writes++
	for _, o := range b.ops {
		if o.del {
			b.db.del(o.k)
		} else {
			b.db.put(o.k, o.v)
		}
	}
	b.ops = nil
	return nil
}

type verifC13cur struct {
	ents []verifC13entry
	pos  int // -1 before first .. len(ents) after last
}

func (c *verifC13cur) Valid() bool { return c.pos >= 0 && c.pos < len(c.ents) }
func (c *verifC13cur) Next() bool {
	if c.pos < len(c.ents) {
		c.pos++
	}
	return c.Valid()
}
func (c *verifC13cur) Prev() bool {
	if c.pos >= 0 {
		c.pos--
	}
	return c.Valid()
}
func (c *verifC13cur) Last() bool {
	c.pos = len(c.ents) - 1
	return c.Valid()
}
func (c *verifC13cur) Seek(key driver.Key) bool {
	c.pos = len(c.ents)
	for i := len(c.ents) - 1; i >= 0; i-- {
		if bytes.Compare(c.ents[i].k, key.Data) >= 0 {
			c.pos = i
		}
	}
	return c.Valid()
}
func (c *verifC13cur) Key() []byte {
	if !c.Valid() {
		return nil
	}
	return c.ents[c.pos].k
}
func (c *verifC13cur) Value() []byte {
	if !c.Valid() {
		return nil
	}
	return c.ents[c.pos].v
}
func (c *verifC13cur) Error() error { return nil }
func (c *verifC13cur) Close() error { return nil }

// driver.Driver front: Open hands out the model database selected by the
// harness (verifC13next).
type verifC13driver struct{}

var verifC13next *verifC13kv

func (verifC13driver) Open(dsn, options string) (driver.DB, error) {
	if verifC13next == nil {
		return nil, errors.New("verifC13: no model database selected")
	}
	return verifC13next, nil
}

const verifC13driverName = "verifc13"

func verifC13register() {
	for _, n := range shed.Drivers() {
		if n == verifC13driverName {
			return
		}
	}
	shed.Register(verifC13driverName, verifC13driver{})
}

// ---------------------------------------------------------------------------
// chunkinfo.Interface stub: the files known to chunk info, each with its
// pyramid (root chunk first, then the other chunks with their repetition
// numbers). GetChunkPyramid follows chunkinfo.getUnRepeatChunk: the chunks of
// the file whose reference count over the registered files is at most 1.
// DelFile follows chunkinfo.DelFile: unknown file -> storage.ErrNotFound (the
// traversal fails on the missing root chunk); otherwise run the callback and,
// if it succeeds, forget the file.
// ---------------------------------------------------------------------------

type verifC13file struct {
	root       boson.Address
	cids       []boson.Address // distinct chunks, cids[0] == root
	nums       []int           // how often the chunk occurs in the file
	registered bool
}

type verifC13ci struct {
	files []*verifC13file
	// before is called by DelFile before the delete callback runs (models an
	// operation of another goroutine between candidate selection and eviction)
	before func(root boson.Address)
}

func (c *verifC13ci) file(root boson.Address) *verifC13file {
	for _, f := range c.files {
		if f.registered && f.root.Equal(root) {
			return f
		}
	}
	return nil
}

func (c *verifC13ci) refs(cid boson.Address) int {
	n := 0
	for _, f := range c.files {
		if !f.registered {
			continue
		}
		for _, x := range f.cids {
			if x.Equal(cid) {
				n++
			}
		}
	}
	return n
}

func (c *verifC13ci) GetChunkPyramid(rootCid boson.Address) []*chunkinfo.PyramidCidNum {
	f := c.file(rootCid)
	if f == nil {
		return nil
	}
	var out []*chunkinfo.PyramidCidNum
	for i, x := range f.cids {
		if c.refs(x) > 1 {
			continue
		}
		out = append(out, &chunkinfo.PyramidCidNum{Cid: x, Number: f.nums[i]})
	}
	return out
}

func (c *verifC13ci) DelFile(rootCid boson.Address, del func() error) error {
	if c.before != nil {
		c.before(rootCid)
	}
	f := c.file(rootCid)
	if f == nil {
		return storage.ErrNotFound
	}
	if err := del(); err != nil {
		return err
	}
	f.registered = false
	return nil
}

func (c *verifC13ci) IsDiscover(rootCid boson.Address) bool { return false }
func (c *verifC13ci) DelDiscover(rootCid boson.Address)     {}

func (c *verifC13ci) FindChunkInfo(ctx context.Context, authInfo []byte, rootCid boson.Address, overlays []boson.Address) bool {
	panic("unused")
}
func (c *verifC13ci) GetChunkInfo(rootCid boson.Address, cid boson.Address) []aco.Route {
	panic("unused")
}
func (c *verifC13ci) GetChunkInfoDiscoverOverlays(rootCid boson.Address) []aurora.ChunkInfoOverlay {
	panic("unused")
}
func (c *verifC13ci) GetChunkInfoServerOverlays(rootCid boson.Address) []aurora.ChunkInfoOverlay {
	panic("unused")
}
func (c *verifC13ci) CancelFindChunkInfo(rootCid boson.Address) { panic("unused") }
func (c *verifC13ci) OnChunkTransferred(cid boson.Address, rootCid boson.Address, overlays, target boson.Address) error {
	panic("unused")
}
func (c *verifC13ci) Init(ctx context.Context, authInfo []byte, rootCid boson.Address) bool {
	panic("unused")
}
func (c *verifC13ci) GetFileList(overlay boson.Address) (fileListInfo []map[string]interface{}, rootList []boson.Address) {
	panic("unused")
}
func (c *verifC13ci) OnChunkRetrieved(cid, rootCid, sourceOverlay boson.Address) error {
	panic("unused")
}
func (c *verifC13ci) GetChunkInfoSource(rootCid boson.Address) aurora.ChunkInfoSourceApi {
	panic("unused")
}
func (c *verifC13ci) ManifestView(ctx context.Context, nameOrHex, pathVar string, depth int) (*chunkinfo.ManifestNode, error) {
	panic("unused")
}
func (c *verifC13ci) GetManifest(rootCid, pathVar string, depth int) (maniFest *chunkinfo.ManifestNode) {
	panic("unused")
}

// ---------------------------------------------------------------------------
// The rig
// ---------------------------------------------------------------------------

type verifC13rig struct {
	kv    *verifC13kv
	db    *DB
	ci    *verifC13ci
	clock int64
	stall bool // coarse clock: further readings return the last tick again
}

// verifC13addr: concrete, pairwise distinct 32-byte addresses (first byte i+1,
// second byte 0x80|i so that proximity orders to the base key differ).
func verifC13addr(i int) boson.Address {
	b := make([]byte, 32)
	b[0] = byte(i + 1)
	b[1] = byte(0x80 | i)
	b[31] = byte(0xA0 + i)
	return boson.NewAddress(b)
}

// verifC13open runs the real localstore.New over the given model database
// (empty or left by an earlier instance). The GC worker goroutine started by
// New is stopped at once (close channel + wait for its exit), so collections
// happen only where the harness calls collectGarbage (under the engine the
// `go db.collectGarbageWorker()` statement is skipped: //verif:go-ignore).
func verifC13open(kv *verifC13kv, capacity uint64) (*DB, error) {
	verifC13register()
	verifC13next = kv
	baseKey := make([]byte, 32)
	db, err := New("", baseKey, &Options{Driver: verifC13driverName, Capacity: capacity}, logging.New(io.Discard, 0))
	verifC13next = nil
	if err != nil {
		return nil, err
	}
	if !zzverif.Symbolic() {
		// natively the worker goroutine exists: stop it and wait until it has gone
		close(db.close)
		<-db.collectGarbageWorkerDone
	}
	return db, nil
}

func verifC13newRig(capacity uint64) *verifC13rig {
	r := &verifC13rig{kv: &verifC13kv{}, ci: &verifC13ci{}}
	// harness clock: concrete ticks, strictly increasing until the harness
	// stalls it (a coarse clock returns the same instant for a while)
	now = func() int64 {
		if !r.stall {
			r.clock++
		}
		return r.clock
	}
	db, err := verifC13open(r.kv, capacity)
	if err != nil || db == nil {
		panic("verifC13: localstore.New failed")
	}
	db.SetChunkInfo(r.ci)
	r.db = db
	return r
}

// sum recomputes the cached-chunk total the way localstore.New does: the sum
// of GCounter over the gc index.
func (r *verifC13rig) sum() (total uint64, entries int) {
	err := r.db.gcIndex.Iterate(func(item shed.Item) (bool, error) {
		total += item.GCounter
		entries++
		return false, nil
	}, nil)
	if err != nil {
		panic("verifC13: gc index iteration failed")
	}
	return total, entries
}

// gcEntries: number of gc index entries of a root (observation by iteration)
func (r *verifC13rig) gcEntries(root boson.Address) (n int) {
	err := r.db.gcIndex.Iterate(func(item shed.Item) (bool, error) {
		if bytes.Equal(item.Address, root.Bytes()) {
			n++
		}
		return false, nil
	}, nil)
	if err != nil {
		panic("verifC13: gc index iteration failed")
	}
	return n
}

// accessed: the root has an entry in the access-time index
func (r *verifC13rig) accessed(root boson.Address) bool {
	ok, err := r.db.retrievalAccessIndex.Has(addressToItem(root))
	return err == nil && ok
}

func (r *verifC13rig) size() uint64 {
	v, err := r.db.gcSize.Get()
	if err != nil {
		panic("verifC13: gcSize.Get failed")
	}
	return v
}

func (r *verifC13rig) pinCount(a boson.Address) uint64 {
	it, err := r.db.pinIndex.Get(addressToItem(a))
	if err != nil {
		return 0
	}
	return it.PinCounter
}

func (r *verifC13rig) has(a boson.Address) bool {
	ok, err := r.db.retrievalDataIndex.Has(addressToItem(a))
	return err == nil && ok
}

var _ chunkinfo.Interface = (*verifC13ci)(nil)

// ---------------------------------------------------------------------------
// Operations of the history harnesses. The in-package entry points put / set /
// get are called directly with the root cid (the exported Put/Set/Get only add
// metrics and read the root cid out of the context: the engine's context model
// does not carry values).
// ---------------------------------------------------------------------------

const (
	verifC13opPutReq    = iota // request put of one chunk under the file's root
	verifC13opGet              // request get of a chunk with the file's root (touches the access time)
	verifC13opPin              // ModeSetPin of a chunk with the file's root
	verifC13opUnpin            // ModeSetUnpin
	verifC13opGC               // collectGarbage (repeated until it reports done, at most 3 runs)
	verifC13opRemove           // ModeSetRemove
	verifC13opPutReq2          // request put of two chunks of the file in one call
	verifC13opGCRace           // collectGarbage with a request get of the file's root between selection and eviction
	verifC13opUpload           // ModePutUpload of one chunk
	verifC13opUploadPin        // ModePutUploadPin of one chunk under the file's root
	verifC13opPutReqPin        // ModePutRequestPin of one chunk under the file's root
)

// universe: two files of three chunks each, the third chunk shared:
// F0 = [c0 (root), c2, c4], F1 = [c1 (root), c3, c4]
func verifC13universe() []*verifC13file {
	a := verifC13addr
	return []*verifC13file{
		{root: a(0), cids: []boson.Address{a(0), a(2), a(4)}, nums: []int{1, 2, 1}},
		{root: a(1), cids: []boson.Address{a(1), a(3), a(4)}, nums: []int{1, 1, 1}},
	}
}

func verifC13chunk(a boson.Address) boson.Chunk {
	return boson.NewChunk(a, []byte{a.Bytes()[0], 0x55})
}

type verifC13gcResult struct {
	ran        bool
	runs       int
	done       bool
	err        error
	sumBefore  uint64
	entBefore  int
	sizeBefore uint64
}

// do performs one operation on file f / chunk k and returns its error.
func (r *verifC13rig) do(op, f, k int) (err error, gc verifC13gcResult) {
	file := r.ci.files[f]
	root := file.root
	addr := file.cids[k]
	switch op {
	case verifC13opPutReq:
		_, err = r.db.put(storage.ModePutRequest, root, verifC13chunk(addr))
	case verifC13opPutReq2:
		_, err = r.db.put(storage.ModePutRequest, root, verifC13chunk(addr), verifC13chunk(file.cids[(k+1)%len(file.cids)]))
	case verifC13opPutReqPin:
		_, err = r.db.put(storage.ModePutRequestPin, root, verifC13chunk(addr))
	case verifC13opUpload:
		_, err = r.db.put(storage.ModePutUpload, root, verifC13chunk(addr))
	case verifC13opUploadPin:
		_, err = r.db.put(storage.ModePutUploadPin, root, verifC13chunk(addr))
	case verifC13opGet:
		_, err = r.db.get(storage.ModeGetRequest, addr, root)
		r.db.updateGCWG.Wait()
	case verifC13opPin:
		err = r.db.set(storage.ModeSetPin, root, addr)
	case verifC13opUnpin:
		err = r.db.set(storage.ModeSetUnpin, root, addr)
	case verifC13opRemove:
		err = r.db.set(storage.ModeSetRemove, root, addr)
	case verifC13opGC, verifC13opGCRace:
		gc.ran = true
		gc.sumBefore, gc.entBefore = r.sum()
		gc.sizeBefore = r.size()
		if op == verifC13opGCRace {
			testHookGCIteratorDone = func() {
				_, _ = r.db.get(storage.ModeGetRequest, root, root)
				r.db.updateGCWG.Wait()
			}
		}
		for gc.runs < 3 {
			gc.runs++
			_, gc.done, gc.err = r.db.collectGarbage()
			testHookGCIteratorDone = nil
			if gc.done || gc.err != nil {
				break
			}
		}
		err = gc.err
	default:
		panic("verifC13: unknown operation")
	}
	return err, gc
}
