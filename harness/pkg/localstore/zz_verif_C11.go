package localstore

import (
	"errors"

	"github.com/gauss-project/aurorafs/pkg/boson"
	"github.com/gauss-project/aurorafs/pkg/storage"
	"github.com/gauss-project/aurorafs/pkg/zzverif"
)

// ---------------------------------------------------------------------------
// Reference: what was put and not removed since, with the bytes of the first put
// ---------------------------------------------------------------------------

const verifC11maxK = 3

type verifC11ref struct {
	k       int
	present [verifC11maxK]bool
	data    [verifC11maxK][]byte
}

// rootOK: the operation's file context is absent, or the root chunk is stored
// already, or the operation's subject is the root chunk itself. Under this
// condition the operations below have to succeed; outside it (a chunk of a
// file whose root chunk is not in the store) the code refuses some operations
// with an error and only "nothing changes" is asserted.
func (ref *verifC11ref) rootOK(r int, subject int) bool {
	return r == 0 || ref.present[r-1] || r-1 == subject
}

// verifC11observe checks every lookup entry point against the reference.
func verifC11observe(db *DB, ref *verifC11ref) {
	ctx := verifC11rootCtx(0)
	okHas, okGet, okHasMulti, okGetMulti := true, true, true, true
	addrs := make([]boson.Address, 0, ref.k)
	var presentAddrs []boson.Address
	var presentIdx []int
	all := true
	for i := 0; i < ref.k; i++ {
		a := verifC11addr(i)
		addrs = append(addrs, a)
		has, err := db.Has(ctx, storage.ModeHasChunk, a)
		okHas = okHas && err == nil && has == ref.present[i]
		for _, m := range []storage.ModeGet{storage.ModeGetLookup, storage.ModeGetSync} {
			ch, err := db.Get(ctx, m, a)
			if ref.present[i] {
				okGet = okGet && err == nil && ch != nil && ch.Address().Equal(a) && verifC11eq(ch.Data(), ref.data[i])
			} else {
				okGet = okGet && errors.Is(err, storage.ErrNotFound)
			}
		}
		if ref.present[i] {
			presentAddrs = append(presentAddrs, a)
			presentIdx = append(presentIdx, i)
		} else {
			all = false
		}
	}
	have, err := db.HasMulti(ctx, storage.ModeHasChunk, addrs...)
	okHasMulti = err == nil && len(have) == ref.k
	if okHasMulti {
		for i := 0; i < ref.k; i++ {
			okHasMulti = okHasMulti && have[i] == ref.present[i]
		}
	}
	// GetMulti of all addresses: all chunks or ErrNotFound
	chs, err := db.GetMulti(ctx, storage.ModeGetLookup, addrs...)
	if all {
		okGetMulti = err == nil && len(chs) == ref.k
		if okGetMulti {
			for i := 0; i < ref.k; i++ {
				okGetMulti = okGetMulti && chs[i].Address().Equal(addrs[i]) && verifC11eq(chs[i].Data(), ref.data[i])
			}
		}
	} else {
		okGetMulti = errors.Is(err, storage.ErrNotFound)
	}
	// GetMulti of the present addresses
	if len(presentAddrs) > 0 {
		chs, err := db.GetMulti(ctx, storage.ModeGetSync, presentAddrs...)
		ok := err == nil && len(chs) == len(presentAddrs)
		if ok {
			for j, i := range presentIdx {
				ok = ok && chs[j].Address().Equal(addrs[i]) && verifC11eq(chs[j].Data(), ref.data[i])
			}
		}
		okGetMulti = okGetMulti && ok
	}
	zzverif.Assert(okHas, "Has: present iff put and not removed since")
	zzverif.Assert(okGet, "Get: exact bytes of present chunks, ErrNotFound otherwise")
	zzverif.Assert(okHasMulti, "HasMulti agrees with the reference")
	zzverif.Assert(okGetMulti, "GetMulti: exact bytes / ErrNotFound if one is absent")
}

// ops: 0 put one chunk, 1 set, 2 get, 3 put two chunks in one call
func verifC11draw(nops, K, R int) verifC11in {
	var in verifC11in
	in.op = zzverif.Choose("op", nops)
	in.mode = zzverif.Choose("mode", 4)
	in.k = zzverif.Choose("k", K)
	in.r = zzverif.Choose("root", R)
	in.d1 = zzverif.BytesN("data", 2)
	return in
}

// verifC11applyPut: reference effect of a successful put of the chunks (in
// order); returns the expected exist flags.
func (ref *verifC11ref) put(ks []int, ds [][]byte) []bool {
	exist := make([]bool, len(ks))
	for j, k := range ks {
		exist[j] = ref.present[k]
		if !ref.present[k] {
			ref.present[k] = true
			ref.data[k] = ds[j]
		}
	}
	return exist
}

func verifC11step(db *DB, ref *verifC11ref, in verifC11in) {
	ctx := verifC11rootCtx(in.r)
	a := verifC11addr(in.k)
	switch in.op {
	case 0:
		mode := verifC11putModes()[in.mode]
		must := mode == storage.ModePutUpload || mode == storage.ModePutUploadPin || ref.rootOK(in.r, in.k)
		exist, err := db.Put(ctx, mode, boson.NewChunk(a, in.d1))
		if must {
			zzverif.Assert(err == nil, "Put succeeds")
		}
		if err == nil {
			want := ref.put([]int{in.k}, [][]byte{in.d1})
			zzverif.Assert(len(exist) == 1 && exist[0] == want[0], "Put: 'already existed' exactly for chunks already present")
		}
	case 1:
		mode := verifC11setModes()[in.mode]
		pins := verifC11pins(db, in.k)
		err := db.Set(ctx, mode, a)
		switch mode {
		case storage.ModeSetRemove:
			if ref.present[in.k] && ref.rootOK(in.r, in.k) {
				zzverif.Assert(err == nil, "Set(remove) of a present chunk succeeds")
			}
			if err == nil && pins <= 1 {
				// (pins > 1: the removal only takes one pin away)
				ref.present[in.k] = false
				ref.data[in.k] = nil
			}
		case storage.ModeSetPin:
			if ref.present[in.k] && ref.rootOK(in.r, in.k) {
				zzverif.Assert(err == nil, "Set(pin) of a present chunk succeeds")
			}
			if !ref.present[in.k] {
				zzverif.Assert(errors.Is(err, storage.ErrNotFound), "Set(pin) of an absent chunk: ErrNotFound")
			}
		case storage.ModeSetSync:
			zzverif.Assert(err == nil, "Set(sync) succeeds")
		}
	case 2:
		mode := verifC11getModes()[in.mode]
		ch, err := db.Get(ctx, mode, a)
		db.updateGCWG.Wait() // the access-time update of ModeGetRequest runs in a goroutine
		zzverif.Region("C11/get-modegetpin", mode == storage.ModeGetPin)
		if mode == storage.ModeGetPin {
			// ModeGetPin needs a pin entry as well
			if ref.present[in.k] && verifC11pins(db, in.k) > 0 {
				zzverif.Assert(err == nil && ch != nil && ch.Address().Equal(a), "Get(ModeGetPin) of a present pinned chunk succeeds")
				zzverif.Assert(err != nil || verifC11eq(ch.Data(), ref.data[in.k]), "Get(ModeGetPin) returns the exact bytes")
			}
			if !ref.present[in.k] {
				zzverif.Assert(errors.Is(err, storage.ErrNotFound), "Get(ModeGetPin) of an absent chunk: ErrNotFound")
			}
		} else if ref.present[in.k] {
			zzverif.Assert(err == nil && ch != nil && ch.Address().Equal(a) && verifC11eq(ch.Data(), ref.data[in.k]), "Get: exact bytes")
		} else {
			zzverif.Assert(errors.Is(err, storage.ErrNotFound), "Get of an absent chunk: ErrNotFound")
		}
	}
	verifC11observe(db, ref)
}

func verifC11start(K int) (*DB, *verifC11ref) {
	zzverif.Unwind(64)
	verifC11clock = 0
	now = verifC11now
	d := &verifC11db{crashAt: -1}
	db := verifC11open(d)
	ref := &verifC11ref{k: K}
	return db, ref
}

// VerifC11_History: histories of single-chunk puts (all four modes), sets
// (remove, pin, unpin, sync) and gets (all four modes) with or without a file
// context, from the empty store; after every step every lookup entry point
// agrees with the reference.
func VerifC11_History() {
	steps := zzverif.Param("steps", 2, 3)
	K := zzverif.Param("addresses", 2, 2)
	R := zzverif.Param("roots", 2, 2)
	// thorough: the first step is a put (a history that starts with a set or a
	// get on the empty store is covered by the quick tier)
	firstPut := zzverif.Param("first-step-is-put", 0, 1)
	db, ref := verifC11start(K)
	verifC11observe(db, ref)
	for s := 0; s < steps; s++ {
		nops := 3
		if s == 0 && firstPut == 1 {
			nops = 1
		}
		in := verifC11draw(nops, K, R)
		verifC11step(db, ref, in)
	}
	zzverif.Reach("C11-history")
}

// VerifC11_BatchSeq: two stores with the same one-step prefix history; then
// store X gets Put(mode, root, c1, c2) in one call and store Y gets
// Put(mode, root, c1); Put(mode, root, c2) (addresses may coincide, payloads
// are independent symbolic bytes). The exist flags, the outcome and every
// lookup afterwards have to agree between X and Y and with the reference.
func VerifC11_BatchSeq() {
	steps := zzverif.Param("prefix-steps", 1, 1)
	K := zzverif.Param("addresses", 2, 3)
	R := zzverif.Param("roots", 2, 2)
	dbX, refX := verifC11start(K)
	dbY, refY := verifC11start(K)
	for s := 0; s < steps; s++ {
		in := verifC11draw(2, K, R) // puts and sets
		verifC11step(dbX, refX, in)
		verifC11step(dbY, refY, in)
	}
	mode := verifC11putModes()[zzverif.Choose("batch-mode", 4)]
	r := zzverif.Choose("batch-root", R)
	k1 := zzverif.Choose("k1", K)
	k2 := zzverif.Choose("k2", K)
	d1 := zzverif.BytesN("d1", 2)
	d2 := zzverif.BytesN("d2", 2)
	ctx := verifC11rootCtx(r)
	c1 := boson.NewChunk(verifC11addr(k1), d1)
	c2 := boson.NewChunk(verifC11addr(k2), d2)

	existX, errX := dbX.Put(ctx, mode, c1, c2)
	e1, errY1 := dbY.Put(ctx, mode, c1)
	var e2 []bool
	var errY2 error
	if errY1 == nil {
		e2, errY2 = dbY.Put(ctx, mode, c2)
	}
	seqOK := errY1 == nil && errY2 == nil

	// a file's root chunk and another chunk of the file arriving in one
	// request-mode call while the root is not stored yet (see notes/C11.md)
	zzverif.Region("C11/request-batch-root-then-other-chunk-root-unstored", mode == storage.ModePutRequest && r != 0 && !refX.present[r-1] && k1 == r-1 && k2 != r-1)
	zzverif.Assert((errX == nil) == seqOK || errY1 != nil && errX != nil, "batched put succeeds iff the sequence of single puts does")
	if errX == nil && seqOK {
		want := refX.put([]int{k1, k2}, [][]byte{d1, d2})
		refY.put([]int{k1, k2}, [][]byte{d1, d2})
		zzverif.Assert(len(existX) == 2 && existX[0] == want[0] && existX[1] == want[1], "batched put: 'already existed' exactly for chunks already present (or earlier in the call)")
		zzverif.Assert(len(e1) == 1 && len(e2) == 1 && e1[0] == existX[0] && e2[0] == existX[1], "batched put reports the same flags as the sequence")
		verifC11observe(dbX, refX)
		verifC11observe(dbY, refY)
		samePins := true
		for i := 0; i < K; i++ {
			samePins = samePins && verifC11pins(dbX, i) == verifC11pins(dbY, i)
		}
		zzverif.Region("C11/uploadpin-batch-with-repeated-address", k1 == k2 && mode == storage.ModePutUploadPin)
		zzverif.Assert(samePins, "batched put leaves the same pin counters as the sequence")
	}
	if errX != nil {
		// a failed put stores nothing
		verifC11observe(dbX, refX)
	}
	zzverif.Reach("C11-batch-seq")
}

// verifC11startPinned builds, with REAL operations on the empty store, a start
// state in which chunk a0 carries more than one pin (the histories of
// VerifC11_History are too short to get there and then go on):
//
//	0: Put(ModePutUploadPin, a0) without file context, then Set(ModeSetPin, a0)
//	1: Put(ModePutUpload, a0), Set(ModeSetPin, a0) twice, all under file context root = a0
//	2: Put(ModePutUploadPin, a0), Set(ModeSetPin, a0) twice (three pins) and
//	   Put(ModePutUploadPin, a1) (one pin), without file context
//
// The operations have to succeed (no file context, or the subject is the root
// itself). The pin counters reached are not asserted (C15); the marker
// "C11-start-state-chunk-pinned-more-than-once" (listed in the evidence file
// when reached) shows that the state is built.
func verifC11startPinned(db *DB, ref *verifC11ref, variant int) {
	r := 0
	if variant == 1 {
		r = 1
	}
	ctx := verifC11rootCtx(r)
	mode := storage.ModePutUploadPin
	if variant == 1 {
		mode = storage.ModePutUpload
	}
	d0 := zzverif.BytesN("start-data", 2)
	exist, err := db.Put(ctx, mode, boson.NewChunk(verifC11addr(0), d0))
	zzverif.Assert(err == nil, "Put succeeds")
	want := ref.put([]int{0}, [][]byte{d0})
	zzverif.Assert(len(exist) == 1 && exist[0] == want[0], "Put: 'already existed' exactly for chunks already present")
	npins := 1
	if variant >= 1 {
		npins = 2
	}
	for i := 0; i < npins; i++ {
		zzverif.Assert(db.Set(ctx, storage.ModeSetPin, verifC11addr(0)) == nil, "Set(pin) of a present chunk succeeds")
	}
	if variant == 2 && ref.k > 1 {
		d1 := zzverif.BytesN("start-data", 2)
		_, err := db.Put(ctx, storage.ModePutUploadPin, boson.NewChunk(verifC11addr(1), d1))
		zzverif.Assert(err == nil, "Put succeeds")
		ref.put([]int{1}, [][]byte{d1})
	}
	if verifC11pins(db, 0) > 1 {
		zzverif.Reach("C11-start-state-chunk-pinned-more-than-once")
	}
	verifC11observe(db, ref)
}

// VerifC11_PinnedStart: the histories of VerifC11_History (single-chunk puts in
// all four modes, sets remove/pin/unpin/sync, gets in all four modes, with or
// without a file context) continued from a start state in which a chunk is
// pinned more than once, so that removals that only take a pin away, removals
// of the last pin and puts/lookups after them are reached. Same reference and
// same assertions as VerifC11_History.
func VerifC11_PinnedStart() {
	steps := zzverif.Param("steps-from-pinned-start", 2, 2)
	starts := zzverif.Param("pinned-start-states", 1, 3)
	K := zzverif.Param("addresses", 2, 2)
	R := zzverif.Param("roots", 2, 2)
	db, ref := verifC11start(K)
	verifC11startPinned(db, ref, zzverif.Choose("start", starts))
	for s := 0; s < steps; s++ {
		in := verifC11draw(3, K, R)
		verifC11step(db, ref, in)
	}
	zzverif.Reach("C11-pinned-start-history")
}
