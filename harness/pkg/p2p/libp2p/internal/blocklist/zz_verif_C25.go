package blocklist

import (
	"strings"
	"time"

	"github.com/gauss-project/aurorafs/pkg/boson"
	"github.com/gauss-project/aurorafs/pkg/shed/driver"
	"github.com/gauss-project/aurorafs/pkg/storage"
	"github.com/gauss-project/aurorafs/pkg/zzverif"
)

//verif:root pkg/boson pkg/storage

// verifStore: typed in-memory state store (the JSON round trip of `entry` is
// assumed exact).
type verifStore struct {
	keys []string
	vals []entry
}

func (s *verifStore) find(key string) int {
	for i, k := range s.keys {
		if k == key {
			return i
		}
	}
	return -1
}
func (s *verifStore) Get(key string, i interface{}) error {
	idx := s.find(key)
	if idx < 0 {
		return storage.ErrNotFound
	}
	*(i.(*entry)) = s.vals[idx]
	return nil
}
func (s *verifStore) Put(key string, i interface{}) error {
	e := *(i.(*entry))
	if idx := s.find(key); idx >= 0 {
		s.vals[idx] = e
		return nil
	}
	s.keys = append(s.keys, key)
	s.vals = append(s.vals, e)
	return nil
}
func (s *verifStore) Delete(key string) error {
	if idx := s.find(key); idx >= 0 {
		s.keys = append(s.keys[:idx], s.keys[idx+1:]...)
		s.vals = append(s.vals[:idx], s.vals[idx+1:]...)
	}
	return nil
}
func (s *verifStore) Iterate(prefix string, fn storage.StateIterFunc) error {
	ks := append([]string{}, s.keys...)
	for _, k := range ks {
		if !strings.HasPrefix(k, prefix) {
			continue
		}
		stop, err := fn([]byte(k), nil)
		if err != nil {
			return err
		}
		if stop {
			return nil
		}
	}
	return nil
}
func (s *verifStore) DB() driver.BatchDB { return nil }
func (s *verifStore) Close() error       { return nil }

// reference model per peer
type verifRef struct {
	blockedFrom  int64 // time of latest Add since last removal (valid if active)
	active       bool  // at least one Add since last Remove
	forever      bool  // some request since last removal had duration 0
	maxDur       int64 // longest duration requested since last removal
	lastReq      int64
	lastReqDur   int64
	lastReqValid bool
	end          int64 // end of the block as implied by the implementation-independent lower bound: max over requests of (t+d)
}

// VerifC25_Blocklist: histories of Add/Remove/Exists/Peers on two peers at
// arbitrary non-decreasing clock times.
func VerifC25_Blocklist() {
	steps := zzverif.Param("steps", 3, 4)
	zzverif.Unwind(64)
	// the clock is harness state: it advances by an arbitrary amount before every
	// operation and timeNow() reads it (so the instant of a request does not
	// depend on whether the code under test looks at the clock)
	var now int64
	timeNow = func() time.Time { return time.Unix(0, 0).Add(time.Duration(now)) }
	advance := func() {
		t := zzverif.I64("now")
		zzverif.Assume(t >= now && t < 1<<60)
		now = t
	}
	st := &verifStore{}
	bl := NewBlocklist(st)
	peers := []boson.Address{boson.NewAddress([]byte{0x11}), boson.NewAddress([]byte{0x22})}
	var ref [2]verifRef

	for s := 0; s < steps; s++ {
		p := zzverif.Choose("peer", 2)
		r := &ref[p]
		advance()
		t := now
		switch zzverif.Choose("op", 3) {
		case 0: // Add
			d := zzverif.I64("dur")
			zzverif.Assume(d >= 0 && d < 1<<59)
			err := bl.Add(peers[p], time.Duration(d))
			zzverif.Assert(err == nil, "Add succeeds")
			r.active = true
			if d == 0 {
				r.forever = true
			}
			if d > r.maxDur {
				r.maxDur = d
			}
			if t+d > r.end {
				r.end = t + d
			}
			r.lastReq = t
		case 1: // Remove
			err := bl.Remove(peers[p])
			zzverif.Assert(err == nil, "Remove succeeds")
			*r = verifRef{}
		case 2: // Exists (query) and listing at the same instant
			ex, err := bl.Exists(peers[p])
			zzverif.Assert(err == nil, "Exists succeeds")
			zzverif.Observe("exists", ex)
			if !r.active {
				zzverif.Assert(!ex, "not blocked without request since removal")
			} else {
				if r.forever {
					zzverif.Assert(ex, "zero duration blocks forever")
				}
				if t <= r.end {
					zzverif.Assert(ex, "blocked during every requested period")
				}
				if t > r.lastReq+r.maxDur && !r.forever {
					zzverif.Assert(!ex, "never blocked beyond latest request + longest duration")
				}
			}
			ex2, _ := bl.Exists(peers[p])
			list, lerr := bl.Peers()
			zzverif.Assert(lerr == nil, "Peers succeeds")
			in := false
			for _, bp := range list {
				if bp.Address.Equal(peers[p]) {
					in = true
				}
			}
			zzverif.Assert(in == ex2, "listing agrees with Exists")
		}
	}
	zzverif.Reach("C25")
}
