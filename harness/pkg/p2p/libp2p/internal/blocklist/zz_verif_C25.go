package blocklist

import (
	"strings"
	"time"

	"github.com/gauss-project/aurorafs/pkg/boson"
	"github.com/gauss-project/aurorafs/pkg/shed/driver"
	"github.com/gauss-project/aurorafs/pkg/storage"
	"github.com/gauss-project/aurorafs/pkg/zzverif"
)

//verif:root pkg/boson pkg/storage

// verifStore: typed in-memory state store (the JSON round trip of `entry` is
// assumed exact).
type verifStore struct {
	keys []string
	vals []entry
}

func (s *verifStore) find(key string) int {
	for i, k := range s.keys {
		if k == key {
			return i
		}
	}
	return -1
}
func (s *verifStore) Get(key string, i interface{}) error {
	idx := s.find(key)
	if idx < 0 {
		return storage.ErrNotFound
	}
	*(i.(*entry)) = s.vals[idx]
	return nil
}
func (s *verifStore) Put(key string, i interface{}) error {
	e := *(i.(*entry))
	if idx := s.find(key); idx >= 0 {
		s.vals[idx] = e
		return nil
	}
	s.keys = append(s.keys, key)
	s.vals = append(s.vals, e)
	return nil
}
func (s *verifStore) Delete(key string) error {
	if idx := s.find(key); idx >= 0 {
		s.keys = append(s.keys[:idx], s.keys[idx+1:]...)
		s.vals = append(s.vals[:idx], s.vals[idx+1:]...)
	}
	return nil
}
func (s *verifStore) Iterate(prefix string, fn storage.StateIterFunc) error {
	ks := append([]string{}, s.keys...)
	for _, k := range ks {
		if !strings.HasPrefix(k, prefix) {
			continue
		}
		stop, err := fn([]byte(k), nil)
		if err != nil {
			return err
		}
		if stop {
			return nil
		}
	}
	return nil
}
func (s *verifStore) DB() driver.BatchDB { return nil }
func (s *verifStore) Close() error       { return nil }

// reference model per peer
type verifRef struct {
	blockedFrom  int64 // time of latest Add since last removal (valid if active)
	active       bool  // at least one Add since last Remove
	forever      bool  // some request since last removal had duration 0
	maxDur       int64 // longest duration requested since last removal
	lastReq      int64
	lastReqDur   int64
	lastReqValid bool
	end          int64 // end of the block as implied by the implementation-independent lower bound: max over requests of (t+d)
}

// VerifC25_Blocklist: histories of Add/Remove/Exists/Peers on two peers at
// arbitrary non-decreasing clock times.
func VerifC25_Blocklist() {
	steps := zzverif.Param("steps", 3, 5)
	zzverif.Unwind(64)
	var now int64
	timeNow = func() time.Time {
		t := zzverif.I64("now")
		zzverif.Assume(t >= now && t < 1<<60)
		now = t
		return time.Unix(0, 0).Add(time.Duration(t))
	}
	st := &verifStore{}
	bl := NewBlocklist(st)
	peers := []boson.Address{boson.NewAddress([]byte{0x11}), boson.NewAddress([]byte{0x22})}
	var ref [2]verifRef

	for s := 0; s < steps; s++ {
		p := zzverif.Choose("peer", 2)
		r := &ref[p]
		switch zzverif.Choose("op", 3) {
		case 0: // Add
			d := zzverif.I64("dur")
			zzverif.Assume(d >= 0 && d < 1<<59)
			before := now
			err := bl.Add(peers[p], time.Duration(d))
			zzverif.Assert(err == nil, "Add succeeds")
			t := now // clock value read inside Add
			zzverif.Assert(t >= before, "clock monotone")
			oldEnd, oldActive, oldForever := r.end, r.active, r.forever
			r.active = true
			if d == 0 {
				r.forever = true
			}
			if d > r.maxDur {
				r.maxDur = d
			}
			if t+d > r.end {
				r.end = t + d
			}
			r.lastReq = t
			// an Add never moves the block end earlier: checked by querying right before the old end
			_ = oldEnd
			_ = oldActive
			_ = oldForever
		case 1: // Remove
			err := bl.Remove(peers[p])
			zzverif.Assert(err == nil, "Remove succeeds")
			*r = verifRef{}
		case 2: // Exists (query)
			ex, err := bl.Exists(peers[p])
			zzverif.Assert(err == nil, "Exists succeeds")
			t := now
			if !r.active {
				zzverif.Assert(!ex, "not blocked without request since removal")
			} else {
				if r.forever {
					zzverif.Assert(ex, "zero duration blocks forever")
				}
				if t <= r.end {
					zzverif.Assert(ex, "blocked during every requested period")
				}
				if t > r.lastReq+r.maxDur && !r.forever {
					zzverif.Assert(!ex, "never blocked beyond latest request + longest duration")
				}
			}
			// listing agrees with the per-peer answer at the same instant
			frozen := now
			timeNow = func() time.Time { return time.Unix(0, 0).Add(time.Duration(frozen)) }
			ex2, _ := bl.Exists(peers[p])
			list, lerr := bl.Peers()
			zzverif.Assert(lerr == nil, "Peers succeeds")
			in := false
			for _, bp := range list {
				if bp.Address.Equal(peers[p]) {
					in = true
				}
			}
			zzverif.Assert(in == ex2, "listing agrees with Exists")
			timeNow = func() time.Time {
				t := zzverif.I64("now")
				zzverif.Assume(t >= now && t < 1<<60)
				now = t
				return time.Unix(0, 0).Add(time.Duration(t))
			}
		}
	}
	zzverif.Reach("C25")
}
