package handshake

// C34 (handshake part): a peer address record received in the handshake is
// accepted only if it is authentic; records made by an honest peer's own signer
// are accepted; the record this node sends is one its peers accept.
// Signature scheme: Dolev-Yao model in harness/pkg/crypto/zz_verif_C34_crypto.go.

import (
	"bytes"
	"context"
	"errors"
	"io"

	"github.com/gauss-project/aurorafs/pkg/aurora"
	"github.com/gauss-project/aurorafs/pkg/bitvector"
	"github.com/gauss-project/aurorafs/pkg/boson"
	"github.com/gauss-project/aurorafs/pkg/crypto"
	"github.com/gauss-project/aurorafs/pkg/logging"
	"github.com/gauss-project/aurorafs/pkg/p2p"
	"github.com/gauss-project/aurorafs/pkg/p2p/libp2p/internal/handshake/pb"
	"github.com/gauss-project/aurorafs/pkg/topology/model"
	"github.com/gauss-project/aurorafs/pkg/zzverif"
	"github.com/gauss-project/aurorafs/pkg/zzverif/zzstream"
	"github.com/gogo/protobuf/proto"
	libp2ppeer "github.com/libp2p/go-libp2p-core/peer"
	ma "github.com/multiformats/go-multiaddr"
	"github.com/prometheus/client_golang/prometheus"
)

//verif:root pkg/aurora pkg/crypto pkg/boson pkg/bitvector pkg/zzverif/zzstream
//verif:stub buildFullMA = verifC34buildFullMA
//verif:stub (*Service).GetWelcomeMessage = verifC34welcome
//verif:stub newMetrics = verifC34metrics

func verifC34metrics() metrics {
	c := func() prometheus.Counter { return prometheus.NewCounter(prometheus.CounterOpts{Name: "verif"}) }
	return metrics{SynRx: c(), SynRxFailed: c(), SynAckTx: c(), SynAckTxFailed: c(), AckRx: c(), AckRxFailed: c()}
}

func verifC34welcome(s *Service) string { return "hello" }

func verifC34buildFullMA(addr ma.Multiaddr, peerID libp2ppeer.ID) (ma.Multiaddr, error) {
	return &verifC34MA{b: []byte{0x04, 10, 0, 0, 1, 0x06, 0x1b, 0x9e}}, nil
}

// /ip4/127.0.0.1/tcp/7070/p2p/QmYyQSo1c1Ym7orWxLYvCrM2EmxFTANf8wXmmE7DWjhx5N
var verifC34p2pAddr = []byte{
	0x04, 0x7f, 0x00, 0x00, 0x01, 0x06, 0x1b, 0x9e, 0xa5, 0x03, 0x22,
	0x12, 0x20, 0x9d, 0xff, 0x3b, 0x17, 0xd7, 0x4c, 0xf4, 0xd3, 0x8a, 0x50, 0xd8, 0xb6, 0x38, 0x3e, 0x92, 0xd1,
	0x81, 0xa1, 0x03, 0x95, 0xa5, 0xe7, 0x3a, 0x72, 0x6d, 0xcc, 0xcb, 0xd2, 0x1b, 0xf6, 0xf0, 0xb9,
}

// verifC34underlay: bytes of an underlay field, from families of encodings whose
// status with the (external) multiaddr library is known for every content; the
// fact is stated to the engine's uninterpreted multiaddr model and re-checked
// against the real library in every native run.
//
//	0: /ip4/127.0.0.1/tcp/7070/p2p/Qm...            valid
//	1: /ip4/a.b.c.d followed by k times /tcp/p      valid (lengths 5, 8, 11 ...)
//	2: ip4 code followed by fewer than 4 bytes       invalid (lengths 1..4)
func verifC34underlay(name string, fam int) []byte {
	var b []byte
	switch fam {
	case 0:
		b = append([]byte{}, verifC34p2pAddr...)
		verifC34tie(b, true, true)
	case 1:
		k := zzverif.Choose(name+".hops", zzverif.Param("underlayHops", 2, 4))
		x := zzverif.BytesN(name+".ip4", 4)
		b = []byte{0x04, x[0], x[1], x[2], x[3]}
		for i := 0; i < k; i++ {
			p := zzverif.BytesN(name+".port", 2)
			b = append(b, 0x06, p[0], p[1])
		}
		verifC34tie(b, true, false)
	default:
		j := zzverif.Choose(name+".short", 4)
		b = append([]byte{0x04}, zzverif.BytesN(name+".trunc", j)...)
		verifC34tie(b, false, false)
	}
	return b
}

func verifC34tie(b []byte, valid, p2pOK bool) {
	zzverif.Assume(zzverif.BoolOf("ma.valid", b) == valid)
	if valid {
		zzverif.Assume(zzverif.BoolOf("ma.p2p", b) == p2pOK)
	}
	if !zzverif.Symbolic() {
		m, err := ma.NewMultiaddrBytes(b)
		if (err == nil) != valid {
			panic("verifC34: multiaddr validity fact does not hold natively")
		}
		if valid {
			if _, err = libp2ppeer.AddrInfoFromP2pAddr(m); (err == nil) != p2pOK {
				panic("verifC34: multiaddr p2p fact does not hold natively")
			}
		}
	}
}

type verifC34MA struct{ b []byte }

func (m *verifC34MA) MarshalJSON() ([]byte, error)          { panic("unused") }
func (m *verifC34MA) UnmarshalJSON([]byte) error            { panic("unused") }
func (m *verifC34MA) MarshalText() ([]byte, error)          { panic("unused") }
func (m *verifC34MA) UnmarshalText([]byte) error            { panic("unused") }
func (m *verifC34MA) UnmarshalBinary([]byte) error          { panic("unused") }
func (m *verifC34MA) Protocols() []ma.Protocol              { panic("unused") }
func (m *verifC34MA) Encapsulate(ma.Multiaddr) ma.Multiaddr { panic("unused") }
func (m *verifC34MA) Decapsulate(ma.Multiaddr) ma.Multiaddr { panic("unused") }
func (m *verifC34MA) ValueForProtocol(int) (string, error)  { panic("unused") }
func (m *verifC34MA) String() string                        { return "/verif" }
func (m *verifC34MA) Bytes() []byte                         { return m.b }
func (m *verifC34MA) Equal(o ma.Multiaddr) bool             { return bytes.Equal(m.b, o.Bytes()) }
func (m *verifC34MA) MarshalBinary() ([]byte, error)        { return m.b, nil }

type verifC34resolver struct{}

func (verifC34resolver) Resolve(observed ma.Multiaddr) (ma.Multiaddr, error) { return observed, nil }

type verifC34light struct{}

func (verifC34light) Connected(context.Context, p2p.Peer) { panic("unused") }
func (verifC34light) Disconnected(p2p.Peer)               { panic("unused") }
func (verifC34light) Count() int                          { return 0 }
func (verifC34light) RandomPeer(boson.Address) (boson.Address, error) {
	panic("unused")
}
func (verifC34light) EachPeer(model.EachPeerFunc) error { panic("unused") }

func verifC34spec(u, o []byte, nid uint64) []byte {
	const prefix = "aurorafs-handshake-"
	out := make([]byte, len(prefix)+len(u)+len(o)+8)
	k := 0
	for i := 0; i < len(prefix); i++ {
		out[k] = prefix[i]
		k++
	}
	for i := 0; i < len(u); i++ {
		out[k] = u[i]
		k++
	}
	for i := 0; i < len(o); i++ {
		out[k] = o[i]
		k++
	}
	for i := 0; i < 8; i++ {
		out[k] = byte(nid >> (56 - 8*uint(i)))
		k++
	}
	return out
}

// verifC34world: the local node L (code under test) and an honest remote peer R.
type verifC34world struct {
	s          *Service
	keyL, keyR uint64
	nidL       uint64
	other      []crypto.VerifC34Outcome
	// R's record (possibly changed in one field) as it goes into the Ack
	rec       *aurora.Address
	u, o, sig []byte
	mut       int
	ack       *pb.Ack
}

func verifC34setup() *verifC34world {
	w := &verifC34world{}
	w.keyL = zzverif.U64("local.key")
	w.keyR = zzverif.U64("remote.key")
	zzverif.Assume(w.keyL != w.keyR)
	w.nidL = zzverif.U64("local.networkID")
	w.other = []crypto.VerifC34Outcome{
		{OK: zzverif.Bool("recover.ok"), Key: zzverif.U64("recover.key")},
		{OK: zzverif.Bool("recover.ok"), Key: zzverif.U64("recover.key")},
	}
	for _, o := range w.other {
		zzverif.Assume(o.Key != w.keyL && o.Key != w.keyR) // A1: nobody forges for an honest key
	}
	crypto.VerifC34Reset(w.other)

	bv, err := bitvector.NewFromBytes([]byte{zzverif.U8("local.nodeMode")}, 1)
	if err != nil {
		panic("verifC34: node mode")
	}
	w.s = &Service{
		signer:                &crypto.VerifC34Signer{Key: w.keyL, Sig: zzverif.BytesN("local.sig", 65)},
		advertisableAddresser: verifC34resolver{},
		overlay:               boson.NewAddress(crypto.VerifC34Overlay(w.keyL)),
		nodeMode:              aurora.Model{Bv: bv},
		networkID:             w.nidL,
		logger:                logging.New(io.Discard, 0),
		libp2pID:              libp2ppeer.ID(verifC34p2pAddr[11:]),
		metrics:               newMetrics(),
		lightNodes:            verifC34light{},
		lightNodeLimit:        100,
	}

	// the honest remote peer R makes its record with its own signer
	w.mut = zzverif.Choose("mutate", 5) // 0 none, 1 underlay, 2 overlay, 3 signature, 4 signed under another network id
	nidR := w.nidL
	if w.mut == 4 {
		nidR = zzverif.U64("remote.networkID")
		zzverif.Assume(nidR != w.nidL)
	}
	uR := verifC34underlay("remote.underlay", 1)
	signerR := &crypto.VerifC34Signer{Key: w.keyR, Sig: zzverif.BytesN("remote.sig", 65)}
	// A4: signatures are fresh values: two honest signers never output the same bytes
	zzverif.Assume(!bytes.Equal(signerR.Sig, w.s.signer.(*crypto.VerifC34Signer).Sig))
	w.rec, err = aurora.NewAddress(signerR, &verifC34MA{b: uR}, boson.NewAddress(crypto.VerifC34Overlay(w.keyR)), nidR)
	if err != nil {
		panic("verifC34: remote record")
	}
	w.u, w.o, w.sig = uR, w.rec.Overlay.Bytes(), w.rec.Signature
	switch w.mut {
	case 1:
		w.u = verifC34underlay("underlay2", zzverif.Choose("underlay2Fam", 3))
		zzverif.Assume(!bytes.Equal(w.u, uR))
	case 2:
		w.o = zzverif.Bytes("overlay2", 33)
		n := len(w.o)
		zzverif.Assume(n == 0 || n == 31 || n == 32 || n == 33)
		zzverif.Assume(!bytes.Equal(w.o, w.rec.Overlay.Bytes()))
		for _, o := range w.other { // A3
			zzverif.Assume(!(o.OK && bytes.Equal(w.o, crypto.VerifC34Overlay(o.Key))))
		}
	case 3:
		w.sig = zzverif.Bytes("sig2", 66)
		n := len(w.sig)
		zzverif.Assume(n == 0 || n == 64 || n == 65 || n == 66)
		zzverif.Assume(!bytes.Equal(w.sig, w.rec.Signature))
	}
	w.ack = &pb.Ack{
		Address:        &pb.BzzAddress{Underlay: w.u, Overlay: w.o, Signature: w.sig},
		NetworkID:      zzverif.U64("ack.networkID"),
		NodeMode:       zzverif.Bytes("ack.nodeMode", 1),
		WelcomeMessage: "hi",
	}
	return w
}

// verifC34checkResult: the clauses about the received record.
func (w *verifC34world) checkResult(info *aurora.AddressInfo, err error, what string) {
	zzverif.Assert((info == nil) != (err == nil), what+": result xor error")
	if err == nil {
		zzverif.Assert(w.mut == 0, what+": a record with one changed field is rejected")
		zzverif.Assert(w.ack.NetworkID == w.nidL, what+": an Ack for another network is rejected")
		a := info.Address
		zzverif.Assert(a != nil && bytes.Equal(a.Overlay.Bytes(), crypto.VerifC34Overlay(w.keyR)) &&
			bytes.Equal(a.Underlay.Bytes(), w.rec.Underlay.Bytes()) && bytes.Equal(a.Signature, w.rec.Signature),
			what+": the accepted record is the signer's record")
		// soundness irrespective of the Dolev-Yao assumptions: the accepting recovery ran on
		// exactly the specified bytes and yielded the key of the claimed overlay
		calls := crypto.VerifC34.Calls
		okCall := false
		for _, c := range calls {
			if c.OK && bytes.Equal(c.Sig, w.sig) && bytes.Equal(c.Data, verifC34spec(w.u, w.o, w.nidL)) &&
				bytes.Equal(w.o, crypto.VerifC34Overlay(c.Key)) {
				okCall = true
			}
		}
		zzverif.Assert(okCall, what+": accepted => recovery over prefix|underlay|overlay|BE64(own network id) gave the key of the claimed overlay")
		zzverif.Reach("C34-" + what + "-accepted")
	} else {
		zzverif.Reach("C34-" + what + "-rejected")
	}
	if w.mut == 0 && w.ack.NetworkID == w.nidL && len(w.ack.NodeMode) == 1 {
		zzverif.Assert(err == nil, what+": the record made by the peer's own signer is accepted")
	}
}

// verifC34checkSent: the record this node put on the wire is accepted by a peer
// of the same network and signs exactly the specified data.
func (w *verifC34world) checkSent(ack *pb.Ack, observed []byte, what string) {
	zzverif.Assert(ack != nil && ack.Address != nil, what+": an Ack with an address record was sent")
	if ack == nil || ack.Address == nil {
		return
	}
	r := ack.Address
	oL := crypto.VerifC34Overlay(w.keyL)
	zzverif.Assert(ack.NetworkID == w.nidL && bytes.Equal(r.Overlay, oL) && bytes.Equal(r.Underlay, observed), what+": sent record carries own overlay, advertised underlay, own network id")
	found := false
	for _, s := range crypto.VerifC34.Signed {
		if s.Key == w.keyL && bytes.Equal(s.Sig, r.Signature) && bytes.Equal(s.Data, verifC34spec(observed, oL, w.nidL)) {
			found = true
		}
	}
	zzverif.Assert(found, what+": sent signature is the own signer's over prefix|underlay|overlay|BE64(network id)")
	_, err := aurora.ParseAddress(r.Underlay, r.Overlay, r.Signature, w.nidL)
	zzverif.Assert(err == nil, what+": sent record is accepted by a peer of the same network")
}

// verifC34handle: listening side; the remote sends a Syn and an Ack carrying
// the honest peer's record with at most one field changed.
func verifC34handle() {
	w := verifC34setup()
	observed := verifC34underlay("syn.observed", zzverif.Choose("syn.observedFam", 2))
	st := zzstream.New(&pb.Syn{ObservedUnderlay: observed}, w.ack)
	info, err := w.s.Handle(context.Background(), st, &verifC34MA{b: []byte{0x04, 10, 0, 0, 1, 0x06, 0x1b, 0x9e}}, libp2ppeer.ID("remote-peer"))
	w.checkResult(info, err, "Handle")
	out := st.Written(func(i int) proto.Message {
		if i == 0 {
			return &pb.SynAck{}
		}
		return nil
	})
	zzverif.Assert(len(out) == 1, "Handle: a SynAck was sent")
	if len(out) == 1 {
		w.checkSent(out[0].(*pb.SynAck).Ack, observed, "Handle")
	}
	zzverif.Reach("C34-handle")
}

// verifC34handshake: dialling side; the remote answers with a SynAck carrying
// the honest peer's record with at most one field changed.
func verifC34handshake() {
	w := verifC34setup()
	observed := verifC34underlay("synack.observed", 0)
	st := zzstream.New(&pb.SynAck{Syn: &pb.Syn{ObservedUnderlay: observed}, Ack: w.ack})
	info, err := w.s.Handshake(context.Background(), st, &verifC34MA{b: []byte{0x04, 10, 0, 0, 1, 0x06, 0x1b, 0x9e}}, libp2ppeer.ID("remote-peer"))
	w.checkResult(info, err, "Handshake")
	out := st.Written(func(i int) proto.Message {
		switch i {
		case 0:
			return &pb.Syn{}
		case 1:
			return &pb.Ack{}
		}
		return nil
	})
	// the own record goes out only after the remote record was accepted
	zzverif.Assert((len(out) == 2) == (err == nil || errors.Is(err, aurora.ErrInvalidNodeMode)), "Handshake: own Ack is sent iff the remote record was accepted")
	if len(out) == 2 {
		w.checkSent(out[1].(*pb.Ack), observed, "Handshake")
	}
	zzverif.Reach("C34-handshake")
}

// VerifC34_Handshake runs the listening or the dialling scenario.
func VerifC34_Handshake() {
	if zzverif.Choose("scenario", 2) == 0 {
		verifC34handle()
	} else {
		verifC34handshake()
	}
}
