package handshake

// C37 part (a): panic freedom of handshake.Handshake / Handle / parseCheckAck for
// arbitrary well-typed decoded handshake messages (missing sub-messages, empty
// or odd-length byte fields, arbitrary scalars).

import (
	"context"
	"crypto/ecdsa"
	"errors"
	"fmt"
	"io"
	"math/big"
	"runtime/debug"

	"github.com/ethereum/go-ethereum/common"
	"github.com/ethereum/go-ethereum/core/types"
	"github.com/gauss-project/aurorafs/pkg/aurora"
	"github.com/gauss-project/aurorafs/pkg/bitvector"
	"github.com/gauss-project/aurorafs/pkg/boson"
	"github.com/gauss-project/aurorafs/pkg/crypto"
	"github.com/gauss-project/aurorafs/pkg/crypto/eip712"
	"github.com/gauss-project/aurorafs/pkg/logging"
	"github.com/gauss-project/aurorafs/pkg/p2p"
	"github.com/gauss-project/aurorafs/pkg/p2p/libp2p/internal/handshake/pb"
	"github.com/gauss-project/aurorafs/pkg/topology/model"
	"github.com/gauss-project/aurorafs/pkg/zzverif"
	"github.com/gauss-project/aurorafs/pkg/zzverif/zzstream"
	"github.com/gogo/protobuf/proto"
	libp2ppeer "github.com/libp2p/go-libp2p-core/peer"
	ma "github.com/multiformats/go-multiaddr"
	"github.com/prometheus/client_golang/prometheus"
)

//verif:root pkg/aurora pkg/crypto pkg/boson pkg/bitvector pkg/zzverif/zzstream
//verif:stub buildFullMA = verifC37buildFullMA
//verif:stub (*Service).GetWelcomeMessage = verifC37welcome
//verif:stub newMetrics = verifC37metrics

// verifC37metrics: newMetrics reads the package variable metrics.Namespace of a
// package the engine treats as a no-op; the counters are irrelevant here.
func verifC37metrics() metrics {
	c := func() prometheus.Counter { return prometheus.NewCounter(prometheus.CounterOpts{Name: "verif"}) }
	return metrics{SynRx: c(), SynRxFailed: c(), SynAckTx: c(), SynAckTxFailed: c(), AckRx: c(), AckRxFailed: c()}
}

// ---- multiaddr encodings -------------------------------------------------

// /ip4/127.0.0.1/tcp/7070/p2p/QmYyQSo1c1Ym7orWxLYvCrM2EmxFTANf8wXmmE7DWjhx5N
var verifC37p2pAddr = []byte{
	0x04, 0x7f, 0x00, 0x00, 0x01, 0x06, 0x1b, 0x9e, 0xa5, 0x03, 0x22,
	0x12, 0x20, 0x9d, 0xff, 0x3b, 0x17, 0xd7, 0x4c, 0xf4, 0xd3, 0x8a, 0x50, 0xd8, 0xb6, 0x38, 0x3e, 0x92, 0xd1,
	0x81, 0xa1, 0x03, 0x95, 0xa5, 0xe7, 0x3a, 0x72, 0x6d, 0xcc, 0xcb, 0xd2, 0x1b, 0xf6, 0xf0, 0xb9,
}

// verifC37underlay draws the bytes of a multiaddr field sent by the remote peer.
// The multiaddr library is external: the engine treats validity (ma.valid) and
// "ends in a /p2p component" (ma.p2p) as uninterpreted predicates of the bytes.
// Families 0..2 are encodings whose status is known (and re-checked against the
// real library in every native run); family 3 is an arbitrary byte string whose
// status is left open (both outcomes are explored).
func verifC37underlay(name string, fam int) []byte {
	var b []byte
	switch fam {
	case 0: // valid, with peer id
		b = append([]byte{}, verifC37p2pAddr...)
		verifC37tie(b, true, true)
	case 1: // /ip4/a.b.c.d/tcp/p: valid for every content, no peer id
		x := zzverif.BytesN(name+".ip4tcp", 6)
		b = []byte{0x04, x[0], x[1], x[2], x[3], 0x06, x[4], x[5]}
		verifC37tie(b, true, false)
	case 2: // protocol code 0 does not exist: invalid
		b = []byte{0x00}
		verifC37tie(b, false, false)
	default:
		b = zzverif.Bytes(name+".free", zzverif.Param("freeUnderlayMax", 3, 6))
	}
	return b
}

// verifC37tie states a known fact about the external multiaddr library and
// checks it against the real library natively.
func verifC37tie(b []byte, valid, p2pOK bool) {
	zzverif.Assume(zzverif.BoolOf("ma.valid", b) == valid)
	if valid {
		zzverif.Assume(zzverif.BoolOf("ma.p2p", b) == p2pOK)
	}
	if !zzverif.Symbolic() {
		m, err := ma.NewMultiaddrBytes(b)
		if (err == nil) != valid {
			panic("verifC37: multiaddr validity fact does not hold natively")
		}
		if valid {
			_, err = libp2ppeer.AddrInfoFromP2pAddr(m)
			if (err == nil) != p2pOK {
				panic("verifC37: multiaddr p2p fact does not hold natively")
			}
		}
	}
}

// verifC37MA: harness multiaddr for values produced by local collaborators.
type verifC37MA struct {
	b    []byte
	fail bool // MarshalBinary fails
}

func (m *verifC37MA) MarshalJSON() ([]byte, error)          { panic("unused") }
func (m *verifC37MA) UnmarshalJSON([]byte) error            { panic("unused") }
func (m *verifC37MA) MarshalText() ([]byte, error)          { panic("unused") }
func (m *verifC37MA) UnmarshalText([]byte) error            { panic("unused") }
func (m *verifC37MA) UnmarshalBinary([]byte) error          { panic("unused") }
func (m *verifC37MA) Protocols() []ma.Protocol              { panic("unused") }
func (m *verifC37MA) Encapsulate(ma.Multiaddr) ma.Multiaddr { panic("unused") }
func (m *verifC37MA) Decapsulate(ma.Multiaddr) ma.Multiaddr { panic("unused") }
func (m *verifC37MA) ValueForProtocol(int) (string, error)  { panic("unused") }
func (m *verifC37MA) String() string                        { return "/verif" }
func (m *verifC37MA) Bytes() []byte                         { return m.b }
func (m *verifC37MA) Equal(o ma.Multiaddr) bool {
	ob := o.Bytes()
	if len(ob) != len(m.b) {
		return false
	}
	for i := range ob {
		if ob[i] != m.b[i] {
			return false
		}
	}
	return true
}
func (m *verifC37MA) MarshalBinary() ([]byte, error) {
	if m.fail {
		return nil, errors.New("verif: marshal failed")
	}
	return m.b, nil
}

// ---- local collaborators ---------------------------------------------------

type verifC37env struct {
	fullMAFails bool
	resolveMode int // 0 error, 1 observed address itself, 2 a different address, 3 an address that cannot be marshalled
	signFails   bool
	sig         []byte
	pick        bool
	lightCount  int
}

var verifC37e verifC37env

func verifC37buildFullMA(addr ma.Multiaddr, peerID libp2ppeer.ID) (ma.Multiaddr, error) {
	if verifC37e.fullMAFails {
		return nil, errors.New("verif: bad multiaddr")
	}
	return &verifC37MA{b: []byte{0x04, 10, 0, 0, 1, 0x06, 0x1b, 0x9e}}, nil
}

func verifC37welcome(s *Service) string { return "hello" }

type verifC37resolver struct{}

func (verifC37resolver) Resolve(observed ma.Multiaddr) (ma.Multiaddr, error) {
	switch verifC37e.resolveMode {
	case 0:
		return nil, errors.New("verif: resolve failed")
	case 1:
		return observed, nil
	case 2:
		return &verifC37MA{b: []byte{0x04, 192, 168, 0, 7, 0x06, 0x1b, 0x9e}}, nil
	}
	return &verifC37MA{fail: true}, nil
}

type verifC37signer struct{}

func (verifC37signer) Sign(data []byte) ([]byte, error) {
	if verifC37e.signFails {
		return nil, errors.New("verif: sign failed")
	}
	return verifC37e.sig, nil
}
func (verifC37signer) SignTx(*types.Transaction, *big.Int) (*types.Transaction, error) {
	panic("unused")
}
func (verifC37signer) SignTypedData(*eip712.TypedData) ([]byte, error) { panic("unused") }
func (verifC37signer) PublicKey() (*ecdsa.PublicKey, error)            { panic("unused") }
func (verifC37signer) EthereumAddress() (common.Address, error)        { panic("unused") }
func (verifC37signer) PrivateKey() *ecdsa.PrivateKey                   { panic("unused") }

type verifC37picker struct{}

func (verifC37picker) Pick(p2p.Peer) bool { return verifC37e.pick }

type verifC37light struct{}

func (verifC37light) Connected(context.Context, p2p.Peer) { panic("unused") }
func (verifC37light) Disconnected(p2p.Peer)               { panic("unused") }
func (verifC37light) Count() int                          { return verifC37e.lightCount }
func (verifC37light) RandomPeer(boson.Address) (boson.Address, error) {
	panic("unused")
}
func (verifC37light) EachPeer(model.EachPeerFunc) error { panic("unused") }

// verifC37service builds the Service as New does (struct literal: the welcome
// message holder is a sync/atomic.Value which the engine does not model; its
// only reader GetWelcomeMessage is stubbed). All local choices are symbolic
// values that fork only where the code under test consults them.
func verifC37service(withPicker bool) *Service {
	e := &verifC37e
	e.fullMAFails = zzverif.Bool("local.fullMAFails")
	e.resolveMode = int(zzverif.U8("local.resolveMode"))
	zzverif.Assume(e.resolveMode < 4)
	e.signFails = zzverif.Bool("local.signFails")
	e.sig = zzverif.BytesN("local.sig", 65)
	e.pick = zzverif.Bool("local.pick")
	e.lightCount = int(zzverif.U8("local.lightCount"))

	ce := &crypto.VerifC37Env
	ce.RecoverFails = zzverif.Bool("crypto.recoverFails")
	ce.OverlayFails = zzverif.Bool("crypto.overlayFails")
	ce.Overlay = zzverif.BytesN("crypto.recoveredOverlay", 32)

	bv, err := bitvector.NewFromBytes([]byte{zzverif.U8("local.nodeMode")}, 1)
	if err != nil {
		panic("verifC37: node mode")
	}
	s := &Service{
		signer:                verifC37signer{},
		advertisableAddresser: verifC37resolver{},
		overlay:               boson.NewAddress(zzverif.BytesN("local.overlay", 32)),
		nodeMode:              aurora.Model{Bv: bv},
		networkID:             zzverif.U64("local.networkID"),
		logger:                logging.New(io.Discard, 0),
		libp2pID:              libp2ppeer.ID(string(zzverif.BytesN("local.peerID", 34))),
		metrics:               newMetrics(),
		lightNodes:            verifC37light{},
		lightNodeLimit:        int(zzverif.U8("local.lightLimit")),
	}
	if withPicker {
		s.SetPicker(verifC37picker{})
	}
	return s
}

// verifC37pair selects the encodings of the two multiaddr fields of one
// exchange (observed underlay in Syn, underlay in Ack.Address). Quick tier: at
// least one of the two is the canonical valid encoding of its field (7 pairs);
// thorough tier: all 16 pairs.
func verifC37pair() (synFam, ackFam int) {
	if zzverif.Param("allPairs", 0, 1) == 1 {
		p := zzverif.Choose("underlayPair", 16)
		return p / 4, p % 4
	}
	p := zzverif.Choose("underlayPair", 7)
	if p < 4 {
		return p, 1
	}
	return 0, []int{0, 2, 3}[p-4]
}

// verifC37ack draws an arbitrary well-typed Ack message. addrNil reports a
// missing Address sub-message.
func verifC37ack(underlayFam int, allLengths bool) (ack *pb.Ack, addrNil bool) {
	ack = &pb.Ack{
		NetworkID:      zzverif.U64("ack.networkID"),
		NodeMode:       zzverif.Bytes("ack.nodeMode", 2),
		WelcomeMessage: string(zzverif.BytesN("ack.welcome", zzverif.Param("welcomeLen", 2, 0))),
	}
	if zzverif.Param("welcomeLen", 2, 0) == 0 && zzverif.Bool("ack.hasWelcome") {
		ack.WelcomeMessage = string(zzverif.BytesN("ack.welcome3", 3))
	}
	addrNil = zzverif.Bool("ack.addressNil")
	if !addrNil {
		ack.Address = &pb.BzzAddress{
			Underlay:  verifC37underlay("ack.underlay", underlayFam),
			Overlay:   verifC37bytesLen("ack.overlay", 33, allLengths),
			Signature: verifC37bytesLen("ack.signature", 66, allLengths),
		}
	}
	return ack, addrNil
}

// verifC37bytesLen: byte field of length 0..max; either every length or the
// sample {0, 1, max-1, max} (max-1 is the well-formed length).
func verifC37bytesLen(name string, max int, all bool) []byte {
	b := zzverif.Bytes(name, max)
	if !all {
		n := len(b)
		zzverif.Assume(n == 0 || n == 1 || n == max-1 || n == max)
	}
	return b
}

// verifC37try runs f and reports whether it panicked. Natively the recovered
// panic value and stack are printed first, so that `gosym replay` shows where
// the real code crashed.
func verifC37try(f func()) bool {
	if zzverif.Symbolic() {
		return zzverif.MayPanic(f)
	}
	return zzverif.MayPanic(func() {
		defer func() {
			if r := recover(); r != nil {
				fmt.Printf("ZZVERIF-NOTE recovered panic: %v\n%s\n", r, debug.Stack())
				panic(r)
			}
		}()
		f()
	})
}

var verifC37peerMA = &verifC37MA{b: []byte{0x04, 10, 0, 0, 1, 0x06, 0x1b, 0x9e}}

// VerifC37_Handshake: the dialling side. The remote answers the Syn with an
// arbitrary SynAck, or closes/resets the stream.
func VerifC37_Handshake() {
	s := verifC37service(false)
	e := &verifC37e
	var in []proto.Message
	scen := zzverif.Choose("scenario", 3) // 0: stream closed before the SynAck, 1: our write fails, 2: SynAck delivered
	delivered := scen == 2
	synNil, ackNil, addrNil := false, false, false
	synFam := 0
	var ackNetID uint64
	if delivered {
		var ackFam int
		synFam, ackFam = verifC37pair()
		m := &pb.SynAck{}
		synNil = zzverif.Bool("synack.synNil")
		if !synNil {
			m.Syn = &pb.Syn{ObservedUnderlay: verifC37underlay("synack.underlay", synFam)}
		}
		ackNil = zzverif.Bool("synack.ackNil")
		if !ackNil {
			m.Ack, addrNil = verifC37ack(ackFam, false)
			ackNetID = m.Ack.NetworkID
		}
		in = append(in, m)
	}
	// A missing sub-message behind a multiaddr of unknown status is not probed:
	// the crash needs the multiaddr to parse, and an uninterpreted "it parses"
	// cannot be replayed against the real library (see notes/C37_a.md).
	zzverif.Assume(!((ackNil || addrNil) && synFam == 3))
	st := zzstream.New(in...)
	if scen == 1 {
		st.WriteErr = errors.New("verif: write failed")
	}
	reachesAck := delivered && !synNil && synFam == 0 && !e.fullMAFails &&
		e.resolveMode != 0 && e.resolveMode != 3 && !e.signFails
	zzverif.Region("C37/handshake-synack-syn-missing", delivered && synNil && !e.fullMAFails)
	zzverif.Region("C37/handshake-synack-ack-missing", reachesAck && ackNil)
	zzverif.Region("C37/handshake-synack-ack-address-missing", reachesAck && !ackNil && addrNil && ackNetID == s.networkID)

	var info *aurora.AddressInfo
	var err error
	panicked := verifC37try(func() {
		info, err = s.Handshake(context.Background(), st, verifC37peerMA, libp2ppeer.ID("remote-peer"))
	})
	switch {
	case synNil:
		zzverif.Assert(!panicked, "Handshake: no panic when SynAck.Syn is missing")
	case ackNil:
		zzverif.Assert(!panicked, "Handshake: no panic when SynAck.Ack is missing")
	case addrNil:
		zzverif.Assert(!panicked, "Handshake: no panic when SynAck.Ack.Address is missing")
	default:
		zzverif.Assert(!panicked, "Handshake: no panic on complete SynAck")
	}
	if !panicked {
		zzverif.Assert((info == nil) != (err == nil), "Handshake: result xor error")
		if !delivered || synNil || ackNil || addrNil {
			zzverif.Assert(err != nil, "Handshake: malformed SynAck makes the handshake fail")
		}
	}
	zzverif.Reach("C37a-handshake")
}

// VerifC37_Handle: the listening side. The remote sends an arbitrary Syn and,
// after our SynAck, an arbitrary Ack (or closes/resets the stream at either point).
func VerifC37_Handle() {
	s := verifC37service(zzverif.Bool("local.hasPicker"))
	e := &verifC37e
	var in []proto.Message
	// 0: closed before the Syn, 1: Syn, then our SynAck write fails, 2: Syn, then closed, 3: Syn and Ack
	scen := zzverif.Choose("scenario", 4)
	addrNil := false
	synFam := 0
	var ackNetID uint64
	if scen >= 1 {
		var ackFam int
		synFam, ackFam = verifC37pair()
		in = append(in, &pb.Syn{ObservedUnderlay: verifC37underlay("syn.underlay", synFam)})
		if scen == 3 {
			var ack *pb.Ack
			ack, addrNil = verifC37ack(ackFam, false)
			ackNetID = ack.NetworkID
			in = append(in, ack)
		}
	}
	zzverif.Assume(!(addrNil && synFam == 3)) // as in VerifC37_Handshake
	st := zzstream.New(in...)
	if scen == 1 {
		st.WriteErr = errors.New("verif: write failed")
	}
	zzverif.Region("C37/handle-ack-address-missing", scen == 3 && addrNil && ackNetID == s.networkID && synFam != 3 && synFam != 2 &&
		!e.fullMAFails && e.resolveMode != 0 && e.resolveMode != 3 && !e.signFails)

	var info *aurora.AddressInfo
	var err error
	panicked := verifC37try(func() {
		info, err = s.Handle(context.Background(), st, verifC37peerMA, libp2ppeer.ID("remote-peer"))
	})
	if addrNil {
		zzverif.Assert(!panicked, "Handle: no panic when Ack.Address is missing")
	} else {
		zzverif.Assert(!panicked, "Handle: no panic on complete Syn and Ack")
	}
	if !panicked {
		zzverif.Assert((info == nil) != (err == nil), "Handle: result xor error")
		if scen != 3 || addrNil {
			zzverif.Assert(err != nil, "Handle: malformed or missing message makes the handshake fail")
		}
	}
	zzverif.Reach("C37a-handle")
}

// VerifC37_ParseCheckAck: parseCheckAck (and aurora.ParseAddress under it) on an
// arbitrary Ack whose Address is present, with every multiaddr family. The
// callers hand it the decoded Ack unchecked; the missing-Address case is the
// crash reported by VerifC37_Handshake (region
// C37/handshake-synack-ack-address-missing) and is not repeated here.
func VerifC37_ParseCheckAck() {
	s := verifC37service(false)
	ack, addrNil := verifC37ack(zzverif.Choose("ack.underlayFam", 4), zzverif.Param("allLengths", 0, 1) == 1)
	zzverif.Assume(!addrNil)
	var a *aurora.Address
	var err error
	panicked := verifC37try(func() { a, err = s.parseCheckAck(ack) })
	zzverif.Assert(!panicked, "parseCheckAck: no panic on complete Ack")
	if !panicked {
		zzverif.Assert((a == nil) != (err == nil), "parseCheckAck: result xor error")
	}
	zzverif.Reach("C37a-parsecheckack")
}
