// This file holds regression harnesses for the gosym engine itself
// (property id T00): each must HOLD and its path witnesses must agree natively.
package boson

import (
	"github.com/gauss-project/aurorafs/pkg/zzverif"
)

func verifT00loop(length uint64) uint64 {
	for length > 262144 {
		length = length + (262144 - 1)
		length = length / 262144
		length *= 64
	}
	return length
}

// loop-carried value used after the loop without a phi at the exit
func VerifT00_LoopCarried() {
	s := zzverif.U64("s")
	zzverif.Assume(s < 1<<30)
	a := verifT00loop(s)
	zzverif.Observe("a", a)
	zzverif.Assert(s > 262144 || a == s, "small spans unchanged")
	zzverif.Assert(s <= 262144 || a == ((s+262143)/262144)*64, "one level")
	zzverif.Reach("x")
}

func verifT00match(xs []byte, a, b byte) bool {
	r := false
	for _, x := range xs {
		if x == a && x != b {
			r = true
		}
	}
	return r
}

// && inside a range loop (nested merges landing on the loop header)
func VerifT00_AndInLoop() {
	xs := zzverif.BytesN("xs", 1)
	a, b := zzverif.U8("a"), zzverif.U8("b")
	r := verifT00match(xs, a, b)
	zzverif.Observe("r", r)
	zzverif.Assert(r == (xs[0] == a && xs[0] != b), "and-in-loop")
	ys := zzverif.BytesN("ys", 3)
	r2 := verifT00match(ys, a, b)
	want := false
	for i := 0; i < 3; i++ {
		if ys[i] == a {
			if ys[i] != b {
				want = true
			}
		}
	}
	zzverif.Observe("r2", r2)
	zzverif.Assert(r2 == want, "and-in-loop-3")
	zzverif.Reach("x")
}

type verifT00pair struct {
	k, v byte
}

// maps, slices of structs, append growth, early return in a search loop
func verifT00find(ps []verifT00pair, k byte) (byte, bool) {
	for _, p := range ps {
		if p.k == k {
			return p.v, true
		}
	}
	return 0, false
}

func VerifT00_SearchAppend() {
	var ps []verifT00pair
	m := map[byte]byte{}
	for i := 0; i < 3; i++ {
		k, v := zzverif.U8("k"), zzverif.U8("v")
		if _, ok := verifT00find(ps, k); !ok {
			ps = append(ps, verifT00pair{k, v})
		}
		if _, ok := m[k]; !ok {
			m[k] = v
		}
	}
	q := zzverif.U8("q")
	v1, ok1 := verifT00find(ps, q)
	v2, ok2 := m[q]
	zzverif.Observe("ok1", ok1)
	zzverif.Observe("v1", v1)
	zzverif.Assert(ok1 == ok2 && v1 == v2, "slice search agrees with map")
	zzverif.Assert(len(ps) == len(m), "sizes agree")
	zzverif.Reach("x")
}

// defer / recover / named results
func verifT00div(a, b int) (r int, err error) {
	defer func() {
		if x := recover(); x != nil {
			r, err = -1, errT00
		}
	}()
	return a / b, nil
}

type verifT00err struct{}

func (verifT00err) Error() string { return "div" }

var errT00 error = verifT00err{}

func VerifT00_DeferRecover() {
	a, b := zzverif.Int("a"), zzverif.Int("b")
	zzverif.Assume(a >= -1000 && a <= 1000 && b >= -4 && b <= 4)
	r, err := verifT00div(a, b)
	zzverif.Observe("r", r)
	if b == 0 {
		zzverif.Assert(r == -1 && err == errT00, "recovered division by zero")
	} else {
		zzverif.Assert(err == nil && r*b+a%b == a, "division")
	}
	zzverif.Reach("x")
}

// copy with symbolic length, sub-slices, capacity aliasing
func VerifT00_CopyAlias() {
	src := zzverif.Bytes("src", 6)
	dst := make([]byte, 8)
	n := copy(dst[1:], src)
	zzverif.Observe("n", n)
	zzverif.Assert(n == len(src), "copy count")
	i := zzverif.Int("i")
	zzverif.Assume(i >= 0 && i < 8)
	if i >= 1 && i-1 < len(src) {
		zzverif.Assert(dst[i] == src[i-1], "copied byte")
	} else {
		zzverif.Assert(dst[i] == 0, "untouched byte")
	}
	a := dst[:2]
	b := append(a, 0xee) // writes dst[2] in place (cap 8)
	zzverif.Assert(dst[2] == 0xee && len(b) == 3, "append in place aliases backing array")
	zzverif.Observe("dst", dst)
	zzverif.Reach("x")
}
