package boson

import (
	"github.com/gauss-project/aurorafs/pkg/zzverif"
)

// clzSpec: number of leading zero bits of the first n bytes of x^y (n*8 if all equal),
// written independently of Proximity's loop structure: a ladder over bytes using
// comparisons against powers of two.
func verifC20clz(x, y []byte, n int) int {
	for i := 0; i < n; i++ {
		d := x[i] ^ y[i]
		if d == 0 {
			continue
		}
		k := 0
		switch {
		case d >= 128:
			k = 0
		case d >= 64:
			k = 1
		case d >= 32:
			k = 2
		case d >= 16:
			k = 3
		case d >= 8:
			k = 4
		case d >= 4:
			k = 5
		case d >= 2:
			k = 6
		default:
			k = 7
		}
		return i*8 + k
	}
	return n * 8
}

//verif:merge Proximity, ExtendedProximity, verifC20clz

// VerifC20_Proximity: Proximity/ExtendedProximity equal the capped count of
// leading equal bits, and are symmetric, for all equal-length address pairs.
func VerifC20_Proximity() {
	maxLen := zzverif.Param("maxlen", 8, 40)
	zzverif.Unwind(400)
	x := zzverif.Bytes("x", maxLen)
	y := zzverif.Bytes("y", maxLen)
	zzverif.Assume(len(x) == len(y))
	n := len(x)

	p := Proximity(x, y)
	q := Proximity(y, x)
	zzverif.Assert(p == q, "proximity-symmetric")
	zzverif.Assert(p <= MaxPO, "proximity-capped")
	insp := int(MaxPO)/8 + 1
	if n >= insp {
		lz := verifC20clz(x, y, insp)
		want := lz
		if want > int(MaxPO) {
			want = int(MaxPO)
		}
		zzverif.Assert(int(p) == want, "proximity=min(clz,MaxPO)")
	} else {
		// shorter than the inspected prefix: asserted only when the addresses differ
		lz := verifC20clz(x, y, n)
		if lz < n*8 {
			zzverif.Assert(int(p) == lz, "proximity=clz(short)")
		}
	}

	e := ExtendedProximity(x, y)
	e2 := ExtendedProximity(y, x)
	zzverif.Assert(e == e2, "extproximity-symmetric")
	zzverif.Assert(e <= ExtendedPO, "extproximity-capped")
	einsp := int(ExtendedPO)/8 + 1
	if n >= einsp {
		lz := verifC20clz(x, y, einsp)
		want := lz
		if want > int(ExtendedPO) {
			want = int(ExtendedPO)
		}
		zzverif.Assert(int(e) == want, "extproximity=min(clz,ExtendedPO)")
	} else {
		lz := verifC20clz(x, y, n)
		if lz < n*8 {
			zzverif.Assert(int(e) == lz, "extproximity=clz(short)")
		}
	}
	zzverif.Reach("C20-proximity")
}

// verifC20word packs up to 8 bytes of v[from:] xor a[from:] big-endian into a uint64.
func verifC20word(v, a []byte, from, n int) uint64 {
	var r uint64
	for i := 0; i < 8; i++ {
		r <<= 8
		if from+i < n {
			r |= uint64(v[from+i] ^ a[from+i])
		}
	}
	return r
}

//verif:merge DistanceCmp

// VerifC20_Distance: DistanceCmp orders x and y by the big-endian integer value
// of their XOR distance to a; Closer agrees; DistanceRaw is the byte-wise XOR;
// length mismatches are errors.
func VerifC20_Distance() {
	maxLen := zzverif.Param("maxlen", 8, 16)
	zzverif.Unwind(400)
	a := zzverif.Bytes("a", maxLen)
	x := zzverif.Bytes("x", maxLen)
	y := zzverif.Bytes("y", maxLen)
	n := len(a)
	if len(x) != n || len(y) != n {
		_, err := DistanceCmp(a, x, y)
		zzverif.Assert(err != nil, "distancecmp-length-mismatch-error")
		if len(x) != n {
			_, err2 := DistanceRaw(a, x)
			zzverif.Assert(err2 != nil, "distanceraw-length-mismatch-error")
		}
		zzverif.Reach("C20-distance-mismatch")
		return
	}
	got, err := DistanceCmp(a, x, y)
	zzverif.Assert(err == nil, "distancecmp-no-error")
	// specification: compare the XOR distances as big-endian integers, word by word
	hx, hy := verifC20word(x, a, 0, n), verifC20word(y, a, 0, n)
	lx, ly := verifC20word(x, a, 8, n), verifC20word(y, a, 8, n)
	want := 0
	switch {
	case hx < hy:
		want = 1
	case hx > hy:
		want = -1
	case lx < ly:
		want = 1
	case lx > ly:
		want = -1
	}
	zzverif.Assert(got == want, "distancecmp=sign(xor-distance compare)")
	// antisymmetry
	rev, _ := DistanceCmp(a, y, x)
	zzverif.Assert(rev == -got, "distancecmp-antisymmetric")
	// Closer: x.Closer(a, y) <=> x strictly closer to a than y
	cl, cerr := NewAddress(x).Closer(NewAddress(a), NewAddress(y))
	zzverif.Assert(cerr == nil && cl == (want == 1), "closer-consistent")
	// DistanceRaw is the byte-wise XOR
	raw, rerr := DistanceRaw(a, x)
	zzverif.Assert(rerr == nil && len(raw) == n, "distanceraw-length")
	k := zzverif.Int("k")
	zzverif.Assume(k >= 0 && k < n)
	zzverif.Assert(raw[k] == a[k]^x[k], "distanceraw-xor")
	zzverif.Reach("C20-distance")
}
