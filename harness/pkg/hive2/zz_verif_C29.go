package hive2

import (
	"context"
	"errors"

	"github.com/gauss-project/aurorafs/pkg/addressbook"
	"github.com/gauss-project/aurorafs/pkg/aurora"
	"github.com/gauss-project/aurorafs/pkg/boson"
	"github.com/gauss-project/aurorafs/pkg/hive2/pb"
	"github.com/gauss-project/aurorafs/pkg/logging"
	"github.com/gauss-project/aurorafs/pkg/p2p"
	"github.com/gauss-project/aurorafs/pkg/topology/kademlia"
	"github.com/gauss-project/aurorafs/pkg/zzverif"
	"github.com/gauss-project/aurorafs/pkg/zzverif/zzstream"
	"github.com/gogo/protobuf/proto"
	ma "github.com/multiformats/go-multiaddr"
	manet "github.com/multiformats/go-multiaddr/net"
)

//verif:root pkg/boson pkg/topology/kademlia pkg/topology/pslice pkg/zzverif/zzstream pkg/metrics
//verif:merge inArray, pkg/boson.Proximity, (pkg/boson.Address).MemberOf, (pkg/boson.Address).Equal
//verif:noop math/rand.Shuffle, math/rand.Seed
//verif:stub github.com/multiformats/go-multiaddr/net.IsPublicAddr = verifC29IsPublic
//verif:stub github.com/multiformats/go-multiaddr/net.IsPrivateAddr = verifC29IsPrivate

// ---- underlay stub -------------------------------------------------------
//
// verifC29MA implements ma.Multiaddr. Its binary form is a REAL multiaddr
// /ip4/<A>.0.0.<idx>/tcp/1634 where A depends on the class:
//
//	class 0 -> 8.0.0.idx    (public)
//	class 1 -> 10.0.0.idx   (private, RFC1918)
//	class 2 -> 240.0.0.idx  (reserved 240/4: neither public nor private for manet)
//
// Natively the real manet.IsPublicAddr/IsPrivateAddr parse these bytes; under
// gosym they are replaced by verifC29IsPublic/verifC29IsPrivate which read the
// class (mutually exclusive predicates with a third "neither" case).
type verifC29MA struct {
	class uint8
	idx   uint8
}

func verifC29ClassByte(class uint8) byte {
	b := byte(240)
	if class == 0 {
		b = 8
	}
	if class == 1 {
		b = 10
	}
	return b
}

func (m *verifC29MA) Bytes() []byte {
	return []byte{0x04, verifC29ClassByte(m.class), 0, 0, m.idx, 0x06, 0x06, 0x62}
}
func (m *verifC29MA) Equal(o ma.Multiaddr) bool {
	x, ok := o.(*verifC29MA)
	return ok && x.class == m.class && x.idx == m.idx
}
func (m *verifC29MA) String() string                        { return "verifC29MA" }
func (m *verifC29MA) Protocols() []ma.Protocol              { panic("unused") }
func (m *verifC29MA) Encapsulate(ma.Multiaddr) ma.Multiaddr { panic("unused") }
func (m *verifC29MA) Decapsulate(ma.Multiaddr) ma.Multiaddr { panic("unused") }
func (m *verifC29MA) ValueForProtocol(int) (string, error)  { panic("unused") }
func (m *verifC29MA) MarshalJSON() ([]byte, error)          { panic("unused") }
func (m *verifC29MA) UnmarshalJSON([]byte) error            { panic("unused") }
func (m *verifC29MA) MarshalText() ([]byte, error)          { panic("unused") }
func (m *verifC29MA) UnmarshalText([]byte) error            { panic("unused") }
func (m *verifC29MA) MarshalBinary() ([]byte, error)        { panic("unused") }
func (m *verifC29MA) UnmarshalBinary([]byte) error          { panic("unused") }

func verifC29IsPublic(a ma.Multiaddr) bool  { return a.(*verifC29MA).class == 0 }
func verifC29IsPrivate(a ma.Multiaddr) bool { return a.(*verifC29MA).class == 1 }

type verifC29Discard struct{}

func (verifC29Discard) Write(p []byte) (int, error) { return len(p), nil }

// ---- address book stub ---------------------------------------------------

type verifC29Entry struct {
	overlay boson.Address
	present bool  // address book has a record
	class   uint8 // 0 public, 1 private, 2 neither
	idx     uint8
}

type verifC29Book struct {
	entries []verifC29Entry
	reqErr  bool          // lookup of the requester fails with a storage error
	req     boson.Address // the requester
}

var verifC29ErrStore = errors.New("verifC29: store failure")

func (b *verifC29Book) Get(overlay boson.Address) (*aurora.Address, error) {
	if b.reqErr && overlay.Equal(b.req) {
		return nil, verifC29ErrStore
	}
	for i := range b.entries {
		e := &b.entries[i]
		if e.overlay.Equal(overlay) {
			if !e.present {
				return nil, addressbook.ErrNotFound
			}
			return &aurora.Address{
				Underlay:  &verifC29MA{class: e.class, idx: e.idx},
				Overlay:   e.overlay,
				Signature: []byte{0x51, e.idx},
			}, nil
		}
	}
	return nil, addressbook.ErrNotFound
}
func (b *verifC29Book) Put(boson.Address, aurora.Address) error { panic("unused") }

// ---- oracles (independent of the code under test) --------------------------

// verifC29PO: number of leading bits shared by the first min(4,len) bytes,
// 31 if no difference is found there. Written branch-free on the data (xor,
// bit smearing, population count) - unlike boson.Proximity which scans bits.
func verifC29PO(t, a []byte) int32 {
	n := 4
	if len(t) < n {
		n = len(t)
	}
	if len(a) < n {
		n = len(a)
	}
	var x uint32
	for i := 0; i < n; i++ {
		x |= uint32(t[i]^a[i]) << uint(24-8*i)
	}
	// smear the highest set bit downwards, count the ones
	x |= x >> 1
	x |= x >> 2
	x |= x >> 4
	x |= x >> 8
	x |= x >> 16
	x = x - ((x >> 1) & 0x55555555)
	x = (x & 0x33333333) + ((x >> 2) & 0x33333333)
	x = (x + (x >> 4)) & 0x0f0f0f0f
	x += x >> 8
	x += x >> 16
	ones := int32(x & 0x3f)
	po := 32 - ones // leading zeros of the xor, 32 when equal
	if po > 31 {
		po = 31
	}
	return po
}

// verifC29InOrders: some element of pos equals po (branch-free on the data).
func verifC29InOrders(po int32, pos []int32) bool {
	allDiffer := uint32(1)
	for _, v := range pos {
		z := uint32(v ^ po)
		allDiffer &= (z | -z) >> 31
	}
	return allDiffer == 0
}

func verifC29Same(a, b []byte) bool {
	if len(a) != len(b) {
		return false
	}
	same := true
	for i := range a {
		if a[i] != b[i] {
			same = false
		}
	}
	return same
}

func verifC29Addr(first byte, second byte) boson.Address {
	b := make([]byte, 32)
	b[0] = first
	b[1] = second
	b[31] = 0xA5
	return boson.NewAddress(b)
}

// native-only sanity check of the manet model used under gosym
func verifC29CheckManetModel() {
	if zzverif.Symbolic() {
		return
	}
	for c := uint8(0); c < 3; c++ {
		m := &verifC29MA{class: c, idx: 7}
		if manet.IsPublicAddr(m) != (c == 0) || manet.IsPrivateAddr(m) != (c == 1) {
			panic("verifC29: manet classification differs from the harness model")
		}
		if _, err := ma.NewMultiaddrBytes(m.Bytes()); err != nil {
			panic("verifC29: underlay stub is not a valid multiaddr")
		}
	}
}

// VerifC29_FindNode: one findNode request against a node whose connected and
// known peer sets are subsets of a small universe (the requester + candidates).
//
//	profile 0 (both tiers): 2 candidates, every membership combination
//	  (thorough tier: every option symbolic);
//	profile 1 (both tiers): 4 candidates with fixed memberships (three
//	  connected, one known) - the smallest universe in which a wrong split of
//	  the limit between the connected and the known half (limit >= 3) becomes
//	  visible in the reply size; quick tier: candidate classes fixed to
//	  "neither", thorough tier: symbolic;
//	profile 2 (thorough tier): 3 candidates, every membership combination,
//	  fewer options.
func VerifC29_FindNode() {
	switch zzverif.Choose("profile", zzverif.Param("profiles", 2, 3)) {
	case 1:
		verifC29Run(4, 2, 1, 2, 0, []int{0, 1, 1, 1, 2}, zzverif.Param("splitProfileClass", 2, -1))
	case 2:
		verifC29Run(3, 2, 1, 2, 0, nil, -1)
	default:
		verifC29Run(2,
			zzverif.Param("orders", 2, 3),
			zzverif.Param("symbolicTargetBytes", 1, 2),
			zzverif.Param("requesterMemberships", 2, 4),
			zzverif.Param("candidatePresenceSymbolic", 0, 1), nil, -1)
	}
}

// verifC29Run: n candidates, npos requested orders, tsym leading target bytes
// symbolic (the rest zero), reqMemb = 2 (requester in no list / in both) or 4
// (none, connected, known, both), symPresent != 0: candidates may lack an
// address-book record; fixedMemb != nil: concrete list memberships for
// univ[0..n]; fixedClass >= 0: concrete underlay class of the candidates.
func verifC29Run(n, npos, tsym, reqMemb, symPresent int, fixedMemb []int, fixedClass int) {
	verifC29CheckManetModel()
	zzverif.Unwind(64)
	candMemb := zzverif.Param("candidateMemberships", 3, 4)

	base := verifC29Addr(0x00, 0x00)
	// universe: univ[0] is the requester (po 0 to base); candidates have po 1,
	// 1, 2, 2 to base (pairs of them share a bin).
	all := []boson.Address{
		verifC29Addr(0x80, 0x01),
		verifC29Addr(0x40, 0x02),
		verifC29Addr(0x41, 0x03),
		verifC29Addr(0x20, 0x04),
		verifC29Addr(0x21, 0x05),
	}
	univ := all[:n+1]
	requester := univ[0]

	book := &verifC29Book{req: requester}
	var conn, known []boson.Address
	for i := range univ {
		// 0 none, 1 connected, 2 known, 3 both. For the requester "none" is
		// the case of a requester unknown to the topology; the quick tier
		// only tries none/both for the requester.
		memb := 0
		if fixedMemb != nil {
			memb = fixedMemb[i]
		} else if i == 0 && reqMemb == 2 {
			memb = 3 * zzverif.Choose("member", 2)
		} else if i > 0 && candMemb == 3 {
			// quick tier: a candidate in no list behaves like a candidate
			// whose proximity is not requested; only connected/known/both
			memb = 1 + zzverif.Choose("member", 3)
		} else {
			memb = zzverif.Choose("member", 4)
		}
		if memb&1 != 0 {
			conn = append(conn, univ[i])
		}
		if memb&2 != 0 {
			known = append(known, univ[i])
		}
		cl := uint8(2)
		if i == 0 || fixedClass < 0 {
			cl = zzverif.U8("class")
			zzverif.Assume(cl < 3)
		} else {
			cl = uint8(fixedClass)
		}
		// address-book record present? (symbolic for the requester; for the
		// candidates only if symPresent)
		present := true
		if i == 0 || symPresent != 0 {
			present = zzverif.Bool("present")
		}
		book.entries = append(book.entries, verifC29Entry{
			overlay: univ[i], present: present, class: cl, idx: uint8(i + 1),
		})
	}
	book.reqErr = zzverif.Bool("requesterLookupFails")
	allow := zzverif.Bool("allowPrivateCIDRs")

	// the request
	limit := zzverif.I32("limit")
	zzverif.Assume(limit >= 0 && limit <= 40)
	target := make([]byte, 32)
	copy(target, zzverif.BytesN("target", tsym))
	pos := make([]int32, npos)
	for i := range pos {
		v := zzverif.I32("order")
		// orders are bin numbers; the handler compares them as uint8, values
		// outside 0..255 are outside the claim (see notes)
		zzverif.Assume(v >= 0 && v <= 255)
		pos[i] = v
	}
	verifC29Exec(base, requester, book, conn, known, allow, limit, target, pos)
}

// verifC29Exec answers one request with the real handler and asserts the
// clauses of the statement on the reply. book.entries[0] is the requester.
func verifC29Exec(base, requester boson.Address, book *verifC29Book, conn, known []boson.Address, allow bool, limit int32, target []byte, pos []int32) {
	req := &pb.FindNodeReq{Target: target, Pos: pos, Limit: limit}

	s := &Service{
		addressBook: book,
		logger:      logging.New(verifC29Discard{}, 0),
		metrics:     newMetrics(),
	}
	s.SetConfig(Config{
		Kad:               kademlia.VerifC29Kad(base, conn, known),
		Base:              base,
		AllowPrivateCIDRs: allow,
	})

	zzverif.Region("C29/limit-below-2", limit < 2)

	stream := zzstream.New(req)
	err := s.onFindNode(context.Background(), p2p.Peer{Address: requester}, stream)
	out := stream.Written(func(i int) proto.Message {
		if i == 0 {
			return &pb.Peers{}
		}
		return nil
	})
	if book.reqErr {
		zzverif.Assert(err != nil && len(out) == 0, "no reply when the requester lookup fails")
		zzverif.Reach("C29-lookup-error")
		return
	}
	zzverif.Assert(err == nil, "handler succeeds")
	zzverif.Assert(len(out) == 1, "exactly one reply message")
	reply := out[0].(*pb.Peers)
	peers := reply.Peers

	// (1) never more peers than requested, at most 30 honoured
	max := int(limit)
	if max > 30 {
		max = 30
	}
	zzverif.Assert(len(peers) <= max, "count <= min(limit,30)")

	// requester's own classification as recorded in the address book
	reqPublic := book.entries[0].present && book.entries[0].class == 0

	for i, p := range peers {
		// (2) requester absent
		zzverif.Assert(!verifC29Same(p.Overlay, requester.Bytes()), "requester absent")
		// (3) proximity to the target is among the requested orders
		zzverif.Assert(verifC29InOrders(verifC29PO(target, p.Overlay), pos), "proximity among requested orders")
		// (4) no repeats
		for j := 0; j < i; j++ {
			zzverif.Assert(!verifC29Same(p.Overlay, peers[j].Overlay), "no repeated peer")
		}
		// (5) no private underlay to a public requester unless allowed
		if reqPublic && !allow {
			u := p.Underlay
			private := len(u) >= 2 && u[0] == 0x04 && u[1] == 10
			zzverif.Assert(!private, "no private address to public requester")
		}
	}
	zzverif.Observe("replyCount", len(peers))
	zzverif.Reach("C29")
}

// VerifC29_FindNodeMany: the count clause for limits ABOVE the maximum of 30
// can only be observed on a node that has more than 30 suitable peers. Here
// the node has `per` connected and `per` known peers (20 + 20: each list can
// fill its share of every limit up to 40), all recorded in the address book
// with underlay class "neither"; connected peers have proximity 1 to the
// (zero) target, known peers proximity 2. The limit takes every value 0..40
// and the requested orders are {1,2}, {1,1} or {2,2} (concrete forks), so
// that both lists, only the connected or only the known peers are suitable; the requester is recorded with a public underlay and
// is in no list, AllowPrivateCIDRs is false. Everything else about a request
// is varied by VerifC29_FindNode over small universes. All clauses of the
// statement are asserted on the reply as there.
func VerifC29_FindNodeMany() {
	verifC29CheckManetModel()
	zzverif.Unwind(64)
	per := zzverif.Param("manyPerList", 20, 20)

	base := verifC29Addr(0x00, 0x00)
	requester := verifC29Addr(0x80, 0x01)
	book := &verifC29Book{req: requester}
	book.entries = append(book.entries, verifC29Entry{overlay: requester, present: true, class: 0, idx: 1})
	var conn, known []boson.Address
	for i := 0; i < 2*per; i++ {
		first := byte(0x40) // proximity 1 to base and target
		if i >= per {
			first = 0x20 // proximity 2
		}
		a := verifC29Addr(first, byte(i+1))
		if i < per {
			conn = append(conn, a)
		} else {
			known = append(known, a)
		}
		book.entries = append(book.entries, verifC29Entry{overlay: a, present: true, class: 2, idx: uint8(i + 2)})
	}

	// every limit 0..40 as a concrete fork: a symbolic limit makes the lengths
	// of both halves of the reply symbolic terms, which costs some hundred
	// solver queries per path with 40 peers; enumerating is exhaustive too
	limit := int32(zzverif.Choose("limit", 41))
	target := make([]byte, 32)
	pos := [][]int32{{1, 2}, {1, 1}, {2, 2}}[zzverif.Choose("orders", 3)]
	verifC29Exec(base, requester, book, conn, known, false, limit, target, pos)
}
