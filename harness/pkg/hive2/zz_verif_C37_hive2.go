package hive2

// C37 (b): "malformed peer messages never crash the node", hive2 peer exchange,
// client side: DoFindNode writes a FindNodeReq and reads the peer's pb.Peers
// answer; the answer goes through the real peersChan worker
// (startCheckPeersHandler) into checkAndAddPeers, which parses every reported
// underlay, pings it, stores the address and reports the overlay on the result
// channel that the caller (lookup.query) drains. The request handler onFindNode
// is executed by the C29 check.
//
// The only obligation is the absence of a panic. All goroutines of the
// exchange run to completion inside the call (zzverif.Yield).

import (
	"context"
	"errors"
	"fmt"
	"io"
	"runtime/debug"
	"time"

	"github.com/gauss-project/aurorafs/pkg/aurora"
	"github.com/gauss-project/aurorafs/pkg/boson"
	"github.com/gauss-project/aurorafs/pkg/hive2/pb"
	"github.com/gauss-project/aurorafs/pkg/logging"
	"github.com/gauss-project/aurorafs/pkg/p2p"
	"github.com/gauss-project/aurorafs/pkg/zzverif"
	"github.com/gauss-project/aurorafs/pkg/zzverif/zzstream"
	"github.com/gogo/protobuf/proto"
	ma "github.com/multiformats/go-multiaddr"
	"github.com/prometheus/client_golang/prometheus"
)

//verif:root pkg/boson pkg/hive2/pb pkg/zzverif/zzstream
//verif:stub newMetrics = verifC37metrics
//verif:replace-call time.After = verifC37after
//verif:noop github.com/gogo/protobuf/proto.CompactTextString
//verif:noop golang.org/x/sync/semaphore.NewWeighted, (*golang.org/x/sync/semaphore.Weighted).Acquire, (*golang.org/x/sync/semaphore.Weighted).Release

func verifC37metrics() metrics {
	c := func() prometheus.Counter { return prometheus.NewCounter(prometheus.CounterOpts{Name: "verif"}) }
	return metrics{c(), c(), c(), c(), c()}
}

// verifC37after: the 500 ms pause of checkAndAddPeers elapses at once.
func verifC37after(d time.Duration) <-chan time.Time {
	ch := make(chan time.Time, 1)
	ch <- time.Time{}
	return ch
}

func verifC37err() error { return errors.New("verif: environment failure") }

type verifC37env struct {
	streamFails, pingFails, putFails bool
	replies                          []proto.Message
	replyErr, writeErr               error
	added                            int
}

type verifC37streamer struct{ e *verifC37env }

func (v verifC37streamer) NewStream(context.Context, boson.Address, p2p.Headers, string, string, string) (p2p.Stream, error) {
	if v.e.streamFails {
		return nil, verifC37err()
	}
	s := zzstream.New(append([]proto.Message{}, v.e.replies...)...)
	s.InErr = v.e.replyErr
	s.WriteErr = v.e.writeErr
	return s, nil
}
func (v verifC37streamer) NewRelayStream(context.Context, boson.Address, p2p.Headers, string, string, string, bool) (p2p.Stream, error) {
	panic("unused")
}
func (v verifC37streamer) NewConnChainRelayStream(context.Context, boson.Address, p2p.Headers, string, string, string) (p2p.Stream, error) {
	panic("unused")
}
func (v verifC37streamer) Ping(context.Context, ma.Multiaddr) (time.Duration, error) {
	if v.e.pingFails {
		return 0, verifC37err()
	}
	return time.Millisecond, nil
}

type verifC37book struct{ e *verifC37env }

func (b verifC37book) Get(boson.Address) (*aurora.Address, error) { panic("unused") }
func (b verifC37book) Put(boson.Address, aurora.Address) error {
	if b.e.putFails {
		return verifC37err()
	}
	return nil
}

// /ip4/127.0.0.1/tcp/7070/p2p/QmYyQSo1c1Ym7orWxLYvCrM2EmxFTANf8wXmmE7DWjhx5N
func verifC37p2pAddr() []byte {
	return []byte{
		0x04, 0x7f, 0x00, 0x00, 0x01, 0x06, 0x1b, 0x9e, 0xa5, 0x03, 0x22,
		0x12, 0x20, 0x9d, 0xff, 0x3b, 0x17, 0xd7, 0x4c, 0xf4, 0xd3, 0x8a, 0x50, 0xd8, 0xb6, 0x38, 0x3e, 0x92, 0xd1,
		0x81, 0xa1, 0x03, 0x95, 0xa5, 0xe7, 0x3a, 0x72, 0x6d, 0xcc, 0xcb, 0xd2, 0x1b, 0xf6, 0xf0, 0xb9,
	}
}

// verifC37tie states a known fact about the external multiaddr library (the
// engine models validity as an uninterpreted predicate of the bytes, see
// engine/intr_C34.go) and checks it against the real library natively.
func verifC37tie(b []byte, valid bool) {
	zzverif.Assume(zzverif.BoolOf("ma.valid", b) == valid)
	if !zzverif.Symbolic() {
		if _, err := ma.NewMultiaddrBytes(b); (err == nil) != valid {
			panic("verifC37: multiaddr validity fact does not hold natively")
		}
	}
}

// verifC37underlay: the underlay bytes of a reported peer: a valid /p2p
// address, /ip4/a.b.c.d/tcp/p with arbitrary content (valid), the invalid byte
// 00, absent, or 1..3 arbitrary bytes whose validity is left open.
func verifC37underlay(name string) []byte {
	switch zzverif.Choose(name+".kind", 5) {
	case 0:
		b := verifC37p2pAddr()
		verifC37tie(b, true)
		return b
	case 1:
		x := zzverif.BytesN(name+".ip4tcp", 6)
		b := []byte{0x04, x[0], x[1], x[2], x[3], 0x06, x[4], x[5]}
		verifC37tie(b, true)
		return b
	case 2:
		b := []byte{0x00}
		verifC37tie(b, false)
		return b
	case 3:
		return nil
	}
	return zzverif.Bytes(name+".free", 3)
}

func verifC37try(f func()) bool {
	if zzverif.Symbolic() {
		return zzverif.MayPanic(f)
	}
	return zzverif.MayPanic(func() {
		defer func() {
			if r := recover(); r != nil {
				fmt.Printf("ZZVERIF-NOTE recovered panic: %v\n%s\n", r, debug.Stack())
				panic(r)
			}
		}()
		f()
	})
}

// VerifC37_Hive2Client: DoFindNode against a peer that answers with nothing,
// a stream error, or a pb.Peers with 0..2 arbitrary entries.
func VerifC37_Hive2Client() {
	e := &verifC37env{}
	e.streamFails = zzverif.Bool("env.streamFails")
	e.pingFails = zzverif.Bool("env.pingFails")
	e.putFails = zzverif.Bool("env.putFails")
	if zzverif.Bool("env.writeFails") {
		e.writeErr = verifC37err()
	}
	s := New(verifC37streamer{e}, verifC37book{e}, zzverif.U64("local.networkID"), logging.New(io.Discard, 0))
	if zzverif.Bool("local.hasAddPeersHandler") {
		s.SetAddPeersHandler(func(a ...boson.Address) { e.added += len(a) })
	}
	switch zzverif.Choose("reply.kind", 3) {
	case 0:
	case 1:
		e.replyErr = verifC37err()
	case 2:
		m := &pb.Peers{}
		n := zzverif.Choose("reply.peers", 3)
		for i := 0; i < n; i++ {
			p := &pb.AuroraAddress{Underlay: verifC37underlay("reply.underlay"), Signature: zzverif.Bytes("reply.signature", 2)}
			// overlay: absent (= the zero address, which the caller takes for
			// the end of the results), 32 or 3 arbitrary bytes; thorough: also 1, 2.
			// (Fixed lengths: with a symbolic length the engine reported a
			// spurious deadlock of the result channel, see notes.)
			lens := []int{0, 32, 3}
			if zzverif.Param("overlayLengths", 0, 1) == 1 {
				lens = []int{0, 32, 3, 1, 2}
			}
			if n := lens[zzverif.Choose("reply.overlay.len", len(lens))]; n > 0 {
				p.Overlay = zzverif.BytesN("reply.overlay", n)
			}
			m.Peers = append(m.Peers, p)
		}
		e.replies = []proto.Message{m}
	}
	target := boson.NewAddress(zzverif.BytesN("local.target", 32))
	peer := boson.NewAddress(zzverif.BytesN("local.peer", 32))
	got := 0
	panicked := verifC37try(func() {
		ch, err := s.DoFindNode(context.Background(), target, peer, []int32{0, 1, 2}, 16)
		if err == nil {
			// what lookup.query does with the result channel
			for {
				addr := <-ch
				if addr.IsZero() {
					break
				}
				got++
			}
		}
		zzverif.Yield()
	})
	zzverif.Assert(!panicked, "Peers (DoFindNode client read, checkAndAddPeers): no panic")
	zzverif.Reach("C37b-hive2-client")
}
