package aurora

// C34: peer address records are authenticated (aurora.NewAddress /
// ParseAddress / generateSignData), with the Dolev-Yao model of signatures in
// harness/pkg/crypto/zz_verif_C34_crypto.go.

import (
	"bytes"

	"github.com/gauss-project/aurorafs/pkg/boson"
	"github.com/gauss-project/aurorafs/pkg/crypto"
	"github.com/gauss-project/aurorafs/pkg/zzverif"
	ma "github.com/multiformats/go-multiaddr"
)

//verif:root pkg/crypto pkg/boson

// /ip4/127.0.0.1/tcp/7070/p2p/QmYyQSo1c1Ym7orWxLYvCrM2EmxFTANf8wXmmE7DWjhx5N
var verifC34p2pAddr = []byte{
	0x04, 0x7f, 0x00, 0x00, 0x01, 0x06, 0x1b, 0x9e, 0xa5, 0x03, 0x22,
	0x12, 0x20, 0x9d, 0xff, 0x3b, 0x17, 0xd7, 0x4c, 0xf4, 0xd3, 0x8a, 0x50, 0xd8, 0xb6, 0x38, 0x3e, 0x92, 0xd1,
	0x81, 0xa1, 0x03, 0x95, 0xa5, 0xe7, 0x3a, 0x72, 0x6d, 0xcc, 0xcb, 0xd2, 0x1b, 0xf6, 0xf0, 0xb9,
}

// verifC34underlay: bytes of an underlay field, from families of encodings whose
// status with the (external) multiaddr library is known for every content; the
// fact is stated to the engine's uninterpreted multiaddr model and re-checked
// against the real library in every native run.
//
//	0: /ip4/127.0.0.1/tcp/7070/p2p/Qm...            valid
//	1: /ip4/a.b.c.d followed by k times /tcp/p      valid (lengths 5, 8, 11 ...)
//	2: ip4 code followed by fewer than 4 bytes       invalid (lengths 1..4)
func verifC34underlay(name string, fam int) []byte {
	var b []byte
	switch fam {
	case 0:
		b = append([]byte{}, verifC34p2pAddr...)
		verifC34tie(b, true)
	case 1:
		k := zzverif.Choose(name+".hops", zzverif.Param("underlayHops", 2, 4))
		x := zzverif.BytesN(name+".ip4", 4)
		b = []byte{0x04, x[0], x[1], x[2], x[3]}
		for i := 0; i < k; i++ {
			p := zzverif.BytesN(name+".port", 2)
			b = append(b, 0x06, p[0], p[1])
		}
		verifC34tie(b, true)
	default:
		j := zzverif.Choose(name+".short", 4)
		b = append([]byte{0x04}, zzverif.BytesN(name+".trunc", j)...)
		verifC34tie(b, false)
	}
	return b
}

func verifC34tie(b []byte, valid bool) {
	zzverif.Assume(zzverif.BoolOf("ma.valid", b) == valid)
	if !zzverif.Symbolic() {
		if _, err := ma.NewMultiaddrBytes(b); (err == nil) != valid {
			panic("verifC34: multiaddr validity fact does not hold natively")
		}
	}
}

// verifC34valid: is b a multiaddr (engine: the uninterpreted predicate the
// multiaddr model uses; natively: the real library).
func verifC34valid(b []byte) bool {
	if zzverif.Symbolic() {
		return len(b) > 0 && zzverif.BoolOf("ma.valid", b)
	}
	_, err := ma.NewMultiaddrBytes(b)
	return err == nil
}

// verifC34MA: multiaddr value held by the local node (a valid encoding).
type verifC34MA struct{ b []byte }

func (m *verifC34MA) MarshalJSON() ([]byte, error)          { panic("unused") }
func (m *verifC34MA) UnmarshalJSON([]byte) error            { panic("unused") }
func (m *verifC34MA) MarshalText() ([]byte, error)          { panic("unused") }
func (m *verifC34MA) UnmarshalText([]byte) error            { panic("unused") }
func (m *verifC34MA) UnmarshalBinary([]byte) error          { panic("unused") }
func (m *verifC34MA) Protocols() []ma.Protocol              { panic("unused") }
func (m *verifC34MA) Encapsulate(ma.Multiaddr) ma.Multiaddr { panic("unused") }
func (m *verifC34MA) Decapsulate(ma.Multiaddr) ma.Multiaddr { panic("unused") }
func (m *verifC34MA) ValueForProtocol(int) (string, error)  { panic("unused") }
func (m *verifC34MA) String() string                        { return "/verif" }
func (m *verifC34MA) Bytes() []byte                         { return m.b }
func (m *verifC34MA) Equal(o ma.Multiaddr) bool             { return bytes.Equal(m.b, o.Bytes()) }
func (m *verifC34MA) MarshalBinary() ([]byte, error)        { return m.b, nil }

// verifC34spec: the specified encoding of the signed data:
// "aurorafs-handshake-" | underlay | overlay | big-endian 64-bit network id.
func verifC34spec(u, o []byte, nid uint64) []byte {
	const prefix = "aurorafs-handshake-"
	out := make([]byte, len(prefix)+len(u)+len(o)+8)
	k := 0
	for i := 0; i < len(prefix); i++ {
		out[k] = prefix[i]
		k++
	}
	for i := 0; i < len(u); i++ {
		out[k] = u[i]
		k++
	}
	for i := 0; i < len(o); i++ {
		out[k] = o[i]
		k++
	}
	for i := 0; i < 8; i++ {
		out[k] = byte(nid >> (56 - 8*uint(i)))
		k++
	}
	return out
}

// verifC34bytesLen: byte field of length 0..max (quick: lengths 0, max-2,
// max-1, max where max-1 is the well-formed length; thorough: all).
func verifC34bytesLen(name string, max int) []byte {
	b := zzverif.Bytes(name, max)
	if zzverif.Param("allLengths", 0, 1) == 0 {
		n := len(b)
		zzverif.Assume(n == 0 || n == max-2 || n == max-1 || n == max)
	}
	return b
}

// verifC34parseAddressSound: for arbitrary record fields and an arbitrary
// outcome of the signature recovery (no assumption on the signature scheme):
// ParseAddress accepts only if the recovery succeeded for exactly the record's
// signature over exactly the specified data, the claimed overlay is the overlay
// of the recovered key, and the underlay is a multiaddr; the accepted record is
// returned unchanged.
func verifC34parseAddressSound() {
	nid := zzverif.U64("networkID")
	u := verifC34underlay("underlay", zzverif.Choose("underlayFam", 3))
	o := verifC34bytesLen("overlay", 33)
	sig := verifC34bytesLen("signature", 66)
	crypto.VerifC34Reset([]crypto.VerifC34Outcome{{OK: zzverif.Bool("recover.ok"), Key: zzverif.U64("recover.key")}})

	a, err := ParseAddress(u, o, sig, nid)

	zzverif.Assert((a == nil) != (err == nil), "result xor error")
	if err == nil {
		calls := crypto.VerifC34.Calls
		zzverif.Assert(len(calls) == 1 && calls[0].OK, "accepted => signature recovery succeeded")
		if len(calls) == 1 {
			zzverif.Assert(bytes.Equal(calls[0].Sig, sig), "recovery used the record's signature")
			zzverif.Assert(bytes.Equal(calls[0].Data, verifC34spec(u, o, nid)), "recovery used prefix|underlay|overlay|BE64(networkID)")
			zzverif.Assert(bytes.Equal(o, crypto.VerifC34Overlay(calls[0].Key)), "accepted => claimed overlay is the overlay of the recovered key")
		}
		zzverif.Assert(verifC34valid(u), "accepted => underlay is a multiaddr")
		zzverif.Assert(bytes.Equal(a.Overlay.Bytes(), o) && bytes.Equal(a.Signature, sig) && bytes.Equal(a.Underlay.Bytes(), u), "accepted record is returned unchanged")
		zzverif.Reach("C34-accepted")
	} else {
		zzverif.Assert(err == ErrInvalidAddress, "rejection error")
		zzverif.Reach("C34-rejected")
	}
	zzverif.Reach("C34-parse")
}

// verifC34ownRecordAndMutations: a record made by NewAddress with the node's
// own signer (key K, overlay = overlay of K) signs exactly the specified data and
// is accepted by ParseAddress under the same network id; after changing exactly
// one of underlay, overlay, network id, signature it is rejected.
// Dolev-Yao assumptions (stated in bounds/C34.json): a (signature, data) pair
// not produced by the honest signer never recovers the honest key (A1,
// unforgeability incl. non-malleability); different keys have different
// overlays (A2, built into VerifC34Overlay); an honest signature replayed over
// data with a different overlay field does not recover a key whose overlay is
// that field (A3).
func verifC34ownRecordAndMutations() {
	// all inputs first (a replayed model fixes only the inputs drawn before the
	// failing assertion)
	key := zzverif.U64("key")
	nid := zzverif.U64("networkID")
	sig := zzverif.BytesN("sig", 65)
	signer := &crypto.VerifC34Signer{Key: key, Sig: sig}
	other := crypto.VerifC34Outcome{OK: zzverif.Bool("recover.ok"), Key: zzverif.U64("recover.key")}
	zzverif.Assume(other.Key != key) // A1
	crypto.VerifC34Reset([]crypto.VerifC34Outcome{other})
	u := verifC34underlay("underlay", zzverif.Choose("underlayFam", 2))
	o := crypto.VerifC34Overlay(key)
	u2, o2, sig2, nid2 := u, o, sig, nid
	switch zzverif.Choose("mutate", 4) {
	case 0:
		u2 = verifC34underlay("underlay2", zzverif.Choose("underlay2Fam", 3))
		zzverif.Assume(!bytes.Equal(u2, u))
	case 1:
		o2 = verifC34bytesLen("overlay2", 33)
		zzverif.Assume(!bytes.Equal(o2, o))
		zzverif.Assume(!(other.OK && bytes.Equal(o2, crypto.VerifC34Overlay(other.Key)))) // A3
	case 2:
		nid2 = zzverif.U64("networkID2")
		zzverif.Assume(nid2 != nid)
	case 3:
		sig2 = verifC34bytesLen("sig2", 66)
		zzverif.Assume(!bytes.Equal(sig2, sig))
	}

	rec, err := NewAddress(signer, &verifC34MA{b: u}, boson.NewAddress(o), nid)
	zzverif.Assert(err == nil && rec != nil, "own record is produced")
	if err != nil || rec == nil {
		return
	}
	signed := crypto.VerifC34.Signed
	zzverif.Assert(len(signed) == 1 && bytes.Equal(signed[0].Data, verifC34spec(u, o, nid)), "own record signs prefix|underlay|overlay|BE64(networkID)")
	ub, err := rec.Underlay.MarshalBinary()
	zzverif.Assert(err == nil && bytes.Equal(ub, u) && bytes.Equal(rec.Overlay.Bytes(), o) && bytes.Equal(rec.Signature, sig), "own record carries underlay, overlay and the signer's signature")

	a, err := ParseAddress(ub, rec.Overlay.Bytes(), rec.Signature, nid)
	zzverif.Assert(err == nil, "own record is accepted")
	if err == nil {
		zzverif.Assert(a.Overlay.Equal(rec.Overlay) && bytes.Equal(a.Signature, rec.Signature) && bytes.Equal(a.Underlay.Bytes(), u), "accepted record equals the own record")
	}

	b, err := ParseAddress(u2, o2, sig2, nid2)
	zzverif.Assert(err != nil && b == nil, "record with one changed field is rejected")
	zzverif.Reach("C34-own")
}

// VerifC34_Aurora runs one of the two scenarios above (one entry point per
// package keeps the number of native replay builds small).
func VerifC34_Aurora() {
	if zzverif.Choose("scenario", 2) == 0 {
		verifC34parseAddressSound()
	} else {
		verifC34ownRecordAndMutations()
	}
}
