package routetab

import (
	"context"
	"errors"
	"sync"
	"sync/atomic"

	"github.com/gauss-project/aurorafs/pkg/addressbook"
	"github.com/gauss-project/aurorafs/pkg/aurora"
	"github.com/gauss-project/aurorafs/pkg/boson"
	"github.com/gauss-project/aurorafs/pkg/logging"
	"github.com/gauss-project/aurorafs/pkg/p2p"
	"github.com/gauss-project/aurorafs/pkg/routetab/pb"
	"github.com/gauss-project/aurorafs/pkg/shed/driver"
	"github.com/gauss-project/aurorafs/pkg/storage"
	"github.com/gauss-project/aurorafs/pkg/topology/kademlia"
	"github.com/gauss-project/aurorafs/pkg/zzverif"
	"github.com/gauss-project/aurorafs/pkg/zzverif/zzstream"
	"github.com/gogo/protobuf/proto"
)

//verif:root pkg/boson pkg/zzverif/zzstream pkg/metrics pkg/topology/pslice pkg/topology/kademlia/internal/metrics
//verif:noop github.com/gogf/gf/v2/os/gctx.New, github.com/gogf/gf/v2/util/gconv.Bytes, github.com/gauss-project/aurorafs/pkg/crypto/bls.Sign
//verif:merge inPath, inPaths, existRoute, (pkg/boson.Address).Equal, (pkg/boson.Address).MemberOf, verifC28BEq, verifC28Has, verifC28Ext, verifC28ExtOfSome, verifC28EqSome, verifC28Count, verifC28In28, pkg/boson.Proximity, (*pkg/topology/pslice.PSlice).index

// ---- environment stubs ----

type verifC28Discard struct{}

func (verifC28Discard) Write(p []byte) (int, error) { return len(p), nil }

type verifC28Store struct{}

func (s *verifC28Store) Get(key string, i interface{}) error { return storage.ErrNotFound }
func (s *verifC28Store) Put(key string, i interface{}) error { return nil }
func (s *verifC28Store) Delete(key string) error             { return nil }
func (s *verifC28Store) Iterate(prefix string, fn storage.StateIterFunc) error {
	return nil
}
func (s *verifC28Store) DB() driver.BatchDB { return nil }
func (s *verifC28Store) Close() error       { return nil }

// address book without entries
type verifC28Book struct{}

func (verifC28Book) Get(overlay boson.Address) (*aurora.Address, error) {
	return nil, addressbook.ErrNotFound
}
func (verifC28Book) Put(overlay boson.Address, addr aurora.Address) error { return nil }
func (verifC28Book) Remove(overlay boson.Address) error                   { return nil }
func (verifC28Book) Overlays() ([]boson.Address, error)                   { return nil, nil }
func (verifC28Book) IterateOverlays(func(boson.Address) (bool, error)) error {
	return nil
}
func (verifC28Book) Addresses() ([]aurora.Address, error) { return nil, nil }

// streamer that records every stream the node opens
type verifC28Sent struct {
	peer boson.Address
	name string
	s    *zzstream.Stream
}

type verifC28Streamer struct {
	mu     sync.Mutex
	sent   []*verifC28Sent
	fail   bool   // NewStream fails (after recording the attempt)
	refuse string // NewStream fails for streams of this name (after recording the attempt)
}

func (v *verifC28Streamer) NewStream(ctx context.Context, address boson.Address, h p2p.Headers, protocol, version, stream string) (p2p.Stream, error) {
	st := zzstream.New()
	v.mu.Lock()
	v.sent = append(v.sent, &verifC28Sent{peer: address, name: stream, s: st})
	v.mu.Unlock()
	if v.fail || (v.refuse != "" && stream == v.refuse) {
		return nil, errors.New("verif: stream refused")
	}
	return st, nil
}

// number of streams opened so far (safe while a handler runs in another goroutine)
func (v *verifC28Streamer) count() int {
	v.mu.Lock()
	defer v.mu.Unlock()
	return len(v.sent)
}
func (v *verifC28Streamer) NewRelayStream(ctx context.Context, address boson.Address, h p2p.Headers, protocol, version, stream string, midCall bool) (p2p.Stream, error) {
	panic("unused")
}
func (v *verifC28Streamer) NewConnChainRelayStream(ctx context.Context, target boson.Address, h p2p.Headers, protocolName, protocolVersion, streamName string) (p2p.Stream, error) {
	panic("unused")
}

func verifC28Service(self boson.Address, str *verifC28Streamer) *Service {
	return &Service{
		self:          self,
		stream:        str,
		logger:        logging.New(verifC28Discard{}, 0),
		metrics:       newMetrics(),
		pendingCalls:  newPendCallResTab(),
		routeTable:    newRouteTable(self, &verifC28Store{}),
		addressbook:   verifC28Book{},
		networkID:     1,
		findRouteCall: make(map[string][]chan *finRoutePending),
	}
}

// ---- specification helpers (written independently of inPath/generatePaths) ----

func verifC28BEq(a, b []byte) bool {
	if len(a) != len(b) {
		return false
	}
	eq := true
	for i := range a {
		if a[i] != b[i] {
			eq = false
		}
	}
	return eq
}

// number of occurrences of x in items
func verifC28Count(items [][]byte, x []byte) int {
	n := 0
	for _, it := range items {
		if verifC28BEq(it, x) {
			n++
		}
	}
	return n
}

func verifC28Has(items [][]byte, x []byte) bool { return verifC28Count(items, x) > 0 }

// out == in ++ [self]
func verifC28Ext(out, in [][]byte, self []byte) bool {
	if len(out) != len(in)+1 {
		return false
	}
	ok := verifC28BEq(out[len(in)], self)
	for i := range in {
		if !verifC28BEq(out[i], in[i]) {
			ok = false
		}
	}
	return ok
}

func verifC28ExtOfSome(out [][]byte, recv [][][]byte, self []byte) bool {
	r := false
	for _, in := range recv {
		if verifC28Ext(out, in, self) {
			r = true
		}
	}
	return r
}

func verifC28EqSome(x [][]byte, recv [][][]byte) bool {
	r := false
	for _, in := range recv {
		if len(in) == len(x) {
			eq := true
			for i := range in {
				if !verifC28BEq(in[i], x[i]) {
					eq = false
				}
			}
			if eq {
				r = true
			}
		}
	}
	return r
}

func verifC28Path(name string, maxLen int) [][]byte {
	n := zzverif.Choose(name+"-len", maxLen+1)
	items := make([][]byte, n)
	for i := range items {
		items[i] = zzverif.BytesN(name+"-item", 1)
	}
	return items
}

// verifC28Saved: obligation (a) on everything the node has recorded.
func verifC28Saved(s *Service, recv [][][]byte) {
	ttl := int(atomic.LoadInt32(&MaxTTL))
	self := s.self.Bytes()
	s.routeTable.paths.Range(func(k, v interface{}) bool {
		items := convItemsToBytes(v.(*Path).Items)
		zzverif.Assert(len(items) <= ttl, "saved-path-within-ttl")
		zzverif.Assert(!verifC28Has(items, self), "saved-path-without-self")
		zzverif.Assert(verifC28EqSome(items, recv), "saved-path-was-received")
		return true
	})
}

// VerifC28_RouteResp: one route response with 0..2 arbitrary paths handled by
// the real onRouteResp, with 0..2 requesters waiting for it.
func VerifC28_RouteResp() {
	ttl := zzverif.Param("ttl", 2, 3)
	atomic.StoreInt32(&MaxTTL, int32(ttl))
	zzverif.Unwind(64)
	self := boson.NewAddress([]byte{0xee})
	str := &verifC28Streamer{}
	s := verifC28Service(self, str)

	target := zzverif.BytesN("dest", 1)
	peer := boson.NewAddress(zzverif.BytesN("peer", 1))
	np := zzverif.Choose("npaths", 3)
	var recv [][][]byte
	resp := &pb.RouteResp{Dest: target}
	for i := 0; i < np; i++ {
		items := verifC28Path("p", ttl+1)
		recv = append(recv, items)
		resp.Paths = append(resp.Paths, &pb.Path{Items: items})
	}
	// requesters waiting for this target (a remote one and/or the node itself)
	nsrc := zzverif.Choose("nsrc", 3)
	var srcs []boson.Address
	for i := 0; i < nsrc; i++ {
		if zzverif.Bool("src-is-self") {
			s.pendingCalls.Add(boson.NewAddress(target), self, peer, make(chan struct{}, 4))
		} else {
			src := boson.NewAddress(zzverif.BytesN("src", 1))
			srcs = append(srcs, src)
			s.pendingCalls.Add(boson.NewAddress(target), src, peer, nil)
		}
	}

	err := s.onRouteResp(context.Background(), p2p.Peer{Address: peer}, zzstream.New(resp))
	zzverif.Assert(err == nil, "onRouteResp-no-error")

	verifC28Saved(s, recv)
	// (b) every forwarded path is a received path with self appended once
	for k, snt := range str.sent {
		// Known finding: respForward hands the same *pb.RouteResp to doRouteResp
		// for every waiting requester and doRouteResp extends resp.Paths in
		// place, so the 2nd, 3rd ... requester gets self appended 2, 3 ... times.
		zzverif.Region("C28/response-relayed-to-second-or-later-requester", k >= 1)
		zzverif.Assert(snt.name == streamOnRouteResp, "forward-on-resp-stream")
		msgs := snt.s.Written(func(i int) proto.Message {
			if i == 0 {
				return &pb.RouteResp{}
			}
			return nil
		})
		zzverif.Assert(len(msgs) == 1, "one-message-per-stream")
		if len(msgs) != 1 {
			continue
		}
		m := msgs[0].(*pb.RouteResp)
		zzverif.Assert(verifC28BEq(m.Dest, target), "forward-keeps-dest")
		zzverif.Assert(len(m.Paths) > 0, "forward-has-paths")
		for _, fp := range m.Paths {
			zzverif.Assert(verifC28ExtOfSome(fp.Items, recv, self.Bytes()), "forwarded-path-is-received-path-plus-self")
			zzverif.Assert(verifC28Count(fp.Items, self.Bytes()) == 1, "forwarded-path-contains-self-once")
			zzverif.Assert(len(fp.Items) <= ttl+1, "forwarded-path-at-most-ttl-plus-one")
		}
	}
	zzverif.Reach("C28-resp")
}

// VerifC28_ReqForward: two route requests (same or different target) forwarded
// by the real doRouteReq to arbitrary next hops, optionally separated by the
// arrival of a response; obligations (b) for requests and (c).
func VerifC28_ReqForward() {
	ttl := zzverif.Param("ttl", 2, 3)
	atomic.StoreInt32(&MaxTTL, int32(ttl))
	zzverif.Unwind(64)
	self := boson.NewAddress([]byte{0xee})
	str := &verifC28Streamer{}
	s := verifC28Service(self, str)

	type pend struct{ target, next []byte }
	var pending []pend
	isPending := func(t, n []byte) bool {
		r := false
		for _, p := range pending {
			if verifC28BEq(p.target, t) && verifC28BEq(p.next, n) {
				r = true
			}
		}
		return r
	}
	checked := 0
	round := func() {
		target := zzverif.BytesN("dest", 1)
		src := boson.NewAddress(zzverif.BytesN("src", 1))
		var recv [][][]byte
		var req *pb.RouteReq
		var ch chan struct{}
		if zzverif.Bool("own-request") {
			// request originated by this node: FindRoute passes req == nil and the
			// channel on which it waits for the answer (thorough tier: also without)
			src = self
			if zzverif.Param("own-channel-varies", 0, 1) == 0 || zzverif.Bool("own-with-channel") {
				ch = make(chan struct{}, 4)
			}
		} else {
			items := verifC28Path("p", zzverif.Param("reqpathmax", 1, ttl))
			recv = append(recv, items)
			req = &pb.RouteReq{Dest: target, Alpha: 2, Paths: []*pb.Path{{Items: items}}}
		}
		// quick tier: always two next hops (which may coincide: the second one is
		// then suppressed by the pending table); thorough tier: one or two
		nn := 2
		if zzverif.Param("nnext-varies", 0, 1) == 1 {
			nn = zzverif.Choose("nnext", 2) + 1
		}
		var next []boson.Address
		for i := 0; i < nn; i++ {
			next = append(next, boson.NewAddress(zzverif.BytesN("next", 1)))
		}
		s.doRouteReq(context.Background(), next, src, boson.NewAddress(target), req, ch)
		for ; checked < len(str.sent); checked++ {
			snt := str.sent[checked]
			zzverif.Assert(snt.name == streamOnRouteReq, "forward-on-req-stream")
			zzverif.Assert(verifC28In28(snt.peer, next), "forward-only-to-chosen-next")
			zzverif.Assert(!isPending(target, snt.peer.Bytes()), "no-second-forward-while-pending")
			pending = append(pending, pend{target, snt.peer.Bytes()})
			msgs := snt.s.Written(func(i int) proto.Message {
				if i == 0 {
					return &pb.RouteReq{}
				}
				return nil
			})
			zzverif.Assert(len(msgs) == 1, "one-message-per-stream")
			if len(msgs) != 1 {
				continue
			}
			m := msgs[0].(*pb.RouteReq)
			zzverif.Assert(verifC28BEq(m.Dest, target), "forward-keeps-dest")
			zzverif.Assert(len(m.Paths) == 1, "request-carries-one-path")
			for _, fp := range m.Paths {
				if req == nil {
					zzverif.Assert(len(fp.Items) == 1 && verifC28BEq(fp.Items[0], self.Bytes()), "own-request-path-is-self")
				} else {
					zzverif.Assert(verifC28ExtOfSome(fp.Items, recv, self.Bytes()), "forwarded-path-is-received-path-plus-self")
				}
			}
		}
	}
	round()
	if zzverif.Bool("response-between") {
		// a response for some target arrives from some neighbour: the pending
		// entry of that (target, neighbour) ends
		rt := zzverif.BytesN("resp-dest", 1)
		last := zzverif.BytesN("resp-from", 1)
		s.respForward(context.Background(), boson.NewAddress(rt), boson.NewAddress(last), &pb.RouteResp{Dest: rt, Paths: []*pb.Path{{Items: [][]byte{rt}}}})
		var keep []pend
		for _, p := range pending {
			if !(verifC28BEq(p.target, rt) && verifC28BEq(p.next, last)) {
				keep = append(keep, p)
			}
		}
		pending = keep
		checked = len(str.sent) // responses relayed by respForward are not requests
	}
	round()
	zzverif.Reach("C28-reqforward")
}

func verifC28In28(a boson.Address, list []boson.Address) bool {
	r := false
	for _, x := range list {
		if verifC28BEq(a.Bytes(), x.Bytes()) {
			r = true
		}
	}
	return r
}

// ---- full request handler and relay next hop, with a real Kad ----

var (
	verifC28N1 = []byte{0x10} // proximity order 0 to self (0xee)
	verifC28N2 = []byte{0x90} // proximity order 1 to self
)

// VerifC28_RouteReq: one arbitrary route request handled by the real
// onRouteReq (discard, answer as target, forward to the neighbouring target,
// answer from the table, forward to neighbours) on a node with two connected
// neighbours and 0..1 previously recorded route.
func VerifC28_RouteReq() {
	ttl := zzverif.Param("ttl", 2, 3)
	atomic.StoreInt32(&MaxTTL, int32(ttl))
	NeighborAlpha = 2
	zzverif.Unwind(64)
	self := boson.NewAddress([]byte{0xee})
	str := &verifC28Streamer{}
	s := verifC28Service(self, str)
	depth := uint8(0)
	if zzverif.Bool("deep") {
		depth = 8
	}
	s.kad = kademlia.VerifC28NewKad(self, depth,
		[]boson.Address{boson.NewAddress(verifC28N1), boson.NewAddress(verifC28N2)}, []bool{true, false})

	var known [][][]byte // received or previously recorded paths
	if zzverif.Bool("have-route") {
		n := zzverif.Choose("pre-len", ttl-1) + 2
		items := make([][]byte, n)
		for i := range items {
			items[i] = zzverif.BytesN("pre-item", 1)
		}
		// records made earlier satisfy obligation (a)
		zzverif.Assume(!verifC28Has(items, self.Bytes()))
		s.routeTable.SavePath(&pb.Path{Items: items})
		known = append(known, items)
	}

	target := zzverif.BytesN("dest", 1)
	peer := boson.NewAddress(zzverif.BytesN("peer", 1))
	req := &pb.RouteReq{Dest: target, UType: int32(zzverif.Choose("utype", 2))}
	// Alpha is sent by the requester: 0 and negative values mean "use the configured
	// NeighborAlpha" (2 here); explicit 2 and 3 only in the thorough tier
	req.Alpha = []int32{0, -1, 2, 3}[zzverif.Choose("alpha", 2+2*zzverif.Param("alpha-varies", 0, 1))]
	var recv [][][]byte
	if zzverif.Bool("with-path") {
		items := verifC28Path("p", ttl+1)
		recv = append(recv, items)
		known = append(known, items)
		req.Paths = []*pb.Path{{Items: items}}
	}

	err := s.onRouteReq(context.Background(), p2p.Peer{Address: peer}, zzstream.New(req))
	zzverif.Assert(err == nil, "onRouteReq-no-error")

	verifC28Saved(s, known)
	for _, snt := range str.sent {
		switch snt.name {
		case streamOnRouteReq: // forwarded request
			msgs := snt.s.Written(func(i int) proto.Message {
				if i == 0 {
					return &pb.RouteReq{}
				}
				return nil
			})
			zzverif.Assert(len(msgs) == 1, "one-message-per-stream")
			if len(msgs) != 1 {
				continue
			}
			m := msgs[0].(*pb.RouteReq)
			zzverif.Assert(verifC28BEq(m.Dest, target), "forward-keeps-dest")
			zzverif.Assert(len(m.Paths) == 1, "request-carries-one-path")
			for _, fp := range m.Paths {
				if len(recv) == 0 {
					zzverif.Assert(len(fp.Items) == 1 && verifC28BEq(fp.Items[0], self.Bytes()), "pathless-request-gets-self")
				} else {
					zzverif.Assert(verifC28ExtOfSome(fp.Items, recv, self.Bytes()), "forwarded-path-is-received-path-plus-self")
					zzverif.Assert(verifC28Count(fp.Items, self.Bytes()) == 1, "forwarded-path-contains-self-once")
				}
			}
			// not sent back to a node the request already visited, except to reach the target
			onPath := false
			for _, rp := range recv {
				if verifC28Has(rp, snt.peer.Bytes()) {
					onPath = true
				}
			}
			zzverif.Assert(!onPath || verifC28BEq(snt.peer.Bytes(), target), "request-not-forwarded-to-node-on-path")
			zzverif.Assert(!verifC28BEq(snt.peer.Bytes(), self.Bytes()), "request-not-forwarded-to-self")
		case streamOnRouteResp: // answer to the requester
			zzverif.Assert(verifC28BEq(snt.peer.Bytes(), peer.Bytes()), "answer-goes-to-requester")
			msgs := snt.s.Written(func(i int) proto.Message {
				if i == 0 {
					return &pb.RouteResp{}
				}
				return nil
			})
			zzverif.Assert(len(msgs) == 1, "one-message-per-stream")
			if len(msgs) != 1 {
				continue
			}
			m := msgs[0].(*pb.RouteResp)
			zzverif.Assert(verifC28BEq(m.Dest, target), "answer-keeps-dest")
			zzverif.Assert(len(m.Paths) == 1, "answer-carries-one-path")
			for _, fp := range m.Paths {
				own := len(fp.Items) == 1 && verifC28BEq(fp.Items[0], self.Bytes())
				zzverif.Assert(own || verifC28ExtOfSome(fp.Items, known, self.Bytes()), "answered-path-is-recorded-path-plus-self")
				zzverif.Assert(verifC28Count(fp.Items, self.Bytes()) == 1, "answered-path-contains-self-once")
			}
		default:
			zzverif.Assert(false, "unexpected-stream")
		}
	}
	zzverif.Reach("C28-req")
}

// VerifC28_RelayNext: next-hop selection of a relayed stream (the prefix of
// onRelayConnChain up to opening the forward stream, which the streamer stub
// refuses): the next hop is the target or a node that is not on the path.
func VerifC28_RelayNext() {
	ttl := zzverif.Param("ttl", 2, 3)
	atomic.StoreInt32(&MaxTTL, int32(ttl))
	NeighborAlpha = 2
	zzverif.Unwind(64)
	self := boson.NewAddress([]byte{0xee})
	str := &verifC28Streamer{fail: true}
	s := verifC28Service(self, str)
	// connected neighbours without reachability records: FindRoute finds no
	// candidate to ask and fails at once (no waiting on timers)
	s.kad = kademlia.VerifC28NewKad(self, 0,
		[]boson.Address{boson.NewAddress(verifC28N1), boson.NewAddress(verifC28N2)}, nil)

	nroutes := zzverif.Choose("nroutes", zzverif.Param("routes", 2, 3))
	for r := 0; r < nroutes; r++ {
		n := zzverif.Choose("pre-len", ttl-1) + 2
		items := make([][]byte, n)
		for i := range items {
			items[i] = zzverif.BytesN("pre-item", 1)
		}
		zzverif.Assume(!verifC28Has(items, self.Bytes()))
		s.routeTable.SavePath(&pb.Path{Items: items})
	}

	target := zzverif.BytesN("dest", 1)
	zzverif.Assume(!verifC28BEq(target, self.Bytes())) // delivery to this node is not a relay step
	peer := boson.NewAddress(zzverif.BytesN("peer", 1))
	path := verifC28Path("relay", 2)
	req := &pb.RouteRelayReq{Src: zzverif.BytesN("src", 1), Dest: target, Paths: path,
		ProtocolName: []byte("x"), ProtocolVersion: []byte("1"), StreamName: []byte("y")}

	err := s.onRelayConnChain(context.Background(), p2p.Peer{Address: peer}, zzstream.New(req))
	zzverif.Assert(err != nil, "relay-fails-when-forward-stream-refused")
	zzverif.Assert(len(str.sent) <= 1, "at-most-one-forward-stream")
	for _, snt := range str.sent {
		if snt.name != StreamOnRelayConnChain {
			continue // route requests sent by a FindRoute attempt
		}
		next := snt.peer.Bytes()
		zzverif.Assert(verifC28BEq(next, target) || !verifC28Has(path, next), "relay-next-hop-is-target-or-not-on-path")
		zzverif.Assert(!verifC28BEq(next, self.Bytes()), "relay-next-hop-is-not-self")
	}
	zzverif.Reach("C28-relay")
}

// VerifC28_RelayRefind: next-hop selection of a relayed stream on the re-find
// path of GetNextHopRandomOrFind: the first look-up finds no usable next hop
// (no route, or every recorded next hop is on the relay path / not connected),
// the real FindRoute asks the neighbours (doRouteReq with its result channel)
// and waits; the harness then delivers an arbitrary acceptable route response
// through the real onRouteResp, which records the paths and wakes FindRoute;
// the second look-up chooses the next hop. Obligation (d) on the stream that
// onRelayConnChain then opens (refused by the stub), and the "at most once
// while pending / not to self" clauses of (c) on the requests FindRoute sent.
func VerifC28_RelayRefind() {
	ttl := zzverif.Param("ttl", 2, 3)
	atomic.StoreInt32(&MaxTTL, int32(ttl))
	NeighborAlpha = 2
	zzverif.Unwind(64)
	self := boson.NewAddress([]byte{0xee})
	str := &verifC28Streamer{refuse: StreamOnRelayConnChain}
	s := verifC28Service(self, str)
	// two connected neighbours with reachability records: FindRoute has somebody to ask
	s.kad = kademlia.VerifC28NewKad(self, 0,
		[]boson.Address{boson.NewAddress(verifC28N1), boson.NewAddress(verifC28N2)}, []bool{true, false})

	nroutes := zzverif.Choose("nroutes", 2)
	for r := 0; r < nroutes; r++ {
		n := zzverif.Choose("pre-len", ttl-1) + 2
		items := make([][]byte, n)
		for i := range items {
			items[i] = zzverif.BytesN("pre-item", 1)
		}
		zzverif.Assume(!verifC28Has(items, self.Bytes()))
		s.routeTable.SavePath(&pb.Path{Items: items})
	}

	target := zzverif.BytesN("dest", 1)
	zzverif.Assume(!verifC28BEq(target, self.Bytes())) // delivery to this node is not a relay step
	peer := boson.NewAddress(zzverif.BytesN("peer", 1))
	path := verifC28Path("relay", 2)
	req := &pb.RouteRelayReq{Src: zzverif.BytesN("src", 1), Dest: target, Paths: path,
		ProtocolName: []byte("x"), ProtocolVersion: []byte("1"), StreamName: []byte("y")}

	// the response that will answer the route requests of FindRoute: one path
	// of 2..MaxTTL arbitrary items without this node (such a response is
	// accepted by onRouteResp; responses that are discarded leave FindRoute
	// waiting for its timer, which is outside the claim)
	from := boson.NewAddress(zzverif.BytesN("resp-from", 1))
	resp := &pb.RouteResp{Dest: target}
	{
		n := zzverif.Choose("resp-len", ttl-1) + 2
		items := make([][]byte, n)
		for j := range items {
			items[j] = zzverif.BytesN("resp-item", 1)
		}
		zzverif.Assume(!verifC28Has(items, self.Bytes()))
		resp.Paths = append(resp.Paths, &pb.Path{Items: items})
	}

	var mu sync.Mutex
	done := false
	var rerr error
	go func() {
		e := s.onRelayConnChain(context.Background(), p2p.Peer{Address: peer}, zzstream.New(req))
		mu.Lock()
		rerr = e
		done = true
		mu.Unlock()
	}()
	isDone := func() bool {
		mu.Lock()
		defer mu.Unlock()
		return done
	}
	// the handler has finished (next hop known at once, or nobody to ask) or it
	// has sent its route requests and waits for an answer
	zzverif.WaitUntil(func() bool { return isDone() || str.count() >= 1 }, "relay handler finished or asked for a route")
	if !isDone() {
		zzverif.Yield() // let the second route request (if any) go out
		nreq := str.count()
		for k := 0; k < nreq; k++ {
			snt := str.sent[k]
			zzverif.Assert(snt.name == streamOnRouteReq, "find-route-opens-request-streams")
			zzverif.Assert(!verifC28BEq(snt.peer.Bytes(), self.Bytes()), "request-not-forwarded-to-self")
			for j := 0; j < k; j++ {
				zzverif.Assert(!verifC28BEq(str.sent[j].peer.Bytes(), snt.peer.Bytes()), "no-second-forward-while-pending")
			}
		}
		err := s.onRouteResp(context.Background(), p2p.Peer{Address: from}, zzstream.New(resp))
		zzverif.Assert(err == nil, "onRouteResp-no-error")
		zzverif.WaitUntil(isDone, "relay handler finished after the route response")
		zzverif.Reach("C28-relay-refind-answered")
	}
	zzverif.Assert(rerr != nil, "relay-fails-when-forward-stream-refused")
	nrelay := 0
	for _, snt := range str.sent {
		if snt.name != StreamOnRelayConnChain {
			continue // route requests of FindRoute, responses relayed by respForward
		}
		nrelay++
		next := snt.peer.Bytes()
		zzverif.Assert(verifC28BEq(next, target) || !verifC28Has(path, next), "relay-next-hop-is-target-or-not-on-path")
		zzverif.Assert(!verifC28BEq(next, self.Bytes()), "relay-next-hop-is-not-self")
	}
	zzverif.Assert(nrelay <= 1, "at-most-one-forward-stream")
	zzverif.Reach("C28-relay-refind")
}
