package routetab

// C37 (e), partly: "malformed peer messages never crash the node", routing
// protocol, stream "onFindUnderlay": the handler onFindUnderlay (reads an
// UnderlayReq, answers from the address book) and the client FindUnderlay
// (reads an UnderlayResp and parses it with aurora.ParseAddress before it goes
// into the address book). onRouteReq / onRouteResp are executed by the C28
// check; onRelay / onRelayConnChain are NOT covered (see notes/C37_rest.md).
//
// Signature recovery and overlay derivation are the arbitrary-outcome stubs of
// harness/pkg/crypto/zz_verif_C37_handshake_crypto.go (shared with part (a)).

import (
	"context"
	"errors"
	"fmt"
	"io"
	"runtime/debug"

	"github.com/gauss-project/aurorafs/pkg/addressbook"
	"github.com/gauss-project/aurorafs/pkg/aurora"
	"github.com/gauss-project/aurorafs/pkg/boson"
	"github.com/gauss-project/aurorafs/pkg/crypto"
	"github.com/gauss-project/aurorafs/pkg/logging"
	"github.com/gauss-project/aurorafs/pkg/p2p"
	"github.com/gauss-project/aurorafs/pkg/routetab/pb"
	"github.com/gauss-project/aurorafs/pkg/zzverif"
	"github.com/gauss-project/aurorafs/pkg/zzverif/zzstream"
	"github.com/gogo/protobuf/proto"
	ma "github.com/multiformats/go-multiaddr"
)

//verif:root pkg/aurora pkg/crypto pkg/boson pkg/bitvector pkg/routetab/pb pkg/zzverif/zzstream

func verifC37err() error { return errors.New("verif: environment failure") }

type verifC37env struct {
	getMode            int // address book Get: 0 not found, 1 other error, 2 record found
	putFails           bool
	streamFails        bool
	replies            []proto.Message
	replyErr, writeErr error
}

// /ip4/127.0.0.1/tcp/7070/p2p/QmYyQSo1c1Ym7orWxLYvCrM2EmxFTANf8wXmmE7DWjhx5N
func verifC37p2pAddr() []byte {
	return []byte{
		0x04, 0x7f, 0x00, 0x00, 0x01, 0x06, 0x1b, 0x9e, 0xa5, 0x03, 0x22,
		0x12, 0x20, 0x9d, 0xff, 0x3b, 0x17, 0xd7, 0x4c, 0xf4, 0xd3, 0x8a, 0x50, 0xd8, 0xb6, 0x38, 0x3e, 0x92, 0xd1,
		0x81, 0xa1, 0x03, 0x95, 0xa5, 0xe7, 0x3a, 0x72, 0x6d, 0xcc, 0xcb, 0xd2, 0x1b, 0xf6, 0xf0, 0xb9,
	}
}

// verifC37tie: a known fact about the external multiaddr library (uninterpreted
// validity predicate in the engine), re-checked against the real library natively.
func verifC37tie(b []byte, valid bool) {
	zzverif.Assume(zzverif.BoolOf("ma.valid", b) == valid)
	if !zzverif.Symbolic() {
		if _, err := ma.NewMultiaddrBytes(b); (err == nil) != valid {
			panic("verifC37: multiaddr validity fact does not hold natively")
		}
	}
}

type verifC37book struct {
	addressbook.Interface
	e *verifC37env
}

func (b verifC37book) Get(o boson.Address) (*aurora.Address, error) {
	switch b.e.getMode {
	case 0:
		return nil, addressbook.ErrNotFound
	case 1:
		return nil, verifC37err()
	}
	// a record as the address book stores it: parsed multiaddr + signature
	verifC37tie(verifC37p2pAddr(), true)
	u, err := ma.NewMultiaddrBytes(verifC37p2pAddr())
	if err != nil {
		panic("verifC37: stored underlay")
	}
	return &aurora.Address{Overlay: o, Underlay: u, Signature: make([]byte, 65)}, nil
}
func (b verifC37book) Put(boson.Address, aurora.Address) error {
	if b.e.putFails {
		return verifC37err()
	}
	return nil
}

type verifC37streamer struct{ e *verifC37env }

func (v verifC37streamer) open() (p2p.Stream, error) {
	if v.e.streamFails {
		return nil, verifC37err()
	}
	s := zzstream.New(append([]proto.Message{}, v.e.replies...)...)
	s.InErr = v.e.replyErr
	s.WriteErr = v.e.writeErr
	return s, nil
}
func (v verifC37streamer) NewStream(context.Context, boson.Address, p2p.Headers, string, string, string) (p2p.Stream, error) {
	return v.open()
}
func (v verifC37streamer) NewRelayStream(context.Context, boson.Address, p2p.Headers, string, string, string, bool) (p2p.Stream, error) {
	return v.open()
}
func (v verifC37streamer) NewConnChainRelayStream(context.Context, boson.Address, p2p.Headers, string, string, string) (p2p.Stream, error) {
	return v.open()
}

func verifC37try(f func()) bool {
	if zzverif.Symbolic() {
		return zzverif.MayPanic(f)
	}
	return zzverif.MayPanic(func() {
		defer func() {
			if r := recover(); r != nil {
				fmt.Printf("ZZVERIF-NOTE recovered panic: %v\n%s\n", r, debug.Stack())
				panic(r)
			}
		}()
		f()
	})
}

// verifC37bytes: a byte field: absent, or 1, wellFormed-1, wellFormed,
// wellFormed+1 arbitrary bytes.
func verifC37bytes(name string, wellFormed int) []byte {
	n := []int{0, 1, wellFormed - 1, wellFormed, wellFormed + 1}[zzverif.Choose(name+".len", 5)]
	if n == 0 {
		return nil
	}
	return zzverif.BytesN(name, n)
}

// VerifC37_RoutetabUnderlay runs the handler or the client.
func VerifC37_RoutetabUnderlay() {
	e := &verifC37env{}
	e.getMode = zzverif.Choose("env.bookGet", 3)
	e.putFails = zzverif.Bool("env.putFails")
	e.streamFails = zzverif.Bool("env.streamFails")
	if zzverif.Bool("env.writeFails") {
		e.writeErr = verifC37err()
	}
	ce := &crypto.VerifC37Env
	ce.RecoverFails = zzverif.Bool("crypto.recoverFails")
	ce.OverlayFails = zzverif.Bool("crypto.overlayFails")
	ce.Overlay = zzverif.BytesN("crypto.recoveredOverlay", 32)
	s := &Service{
		self:        boson.NewAddress(zzverif.BytesN("local.overlay", 32)),
		stream:      verifC37streamer{e},
		logger:      logging.New(io.Discard, 0),
		networkID:   zzverif.U64("local.networkID"),
		addressbook: verifC37book{e: e},
	}
	ctx := context.Background()
	if zzverif.Choose("scenario", 2) == 0 {
		// handler
		var in []proto.Message
		if !zzverif.Bool("noMessage") {
			in = append(in, &pb.UnderlayReq{Dest: verifC37bytes("msg.dest", 32)})
		}
		st := zzstream.New(in...)
		if zzverif.Bool("readFails") {
			st.InErr = verifC37err()
		}
		if zzverif.Bool("answerFails") {
			st.WriteErr = verifC37err()
		}
		peer := p2p.Peer{Address: boson.NewAddress(zzverif.BytesN("peer", 32))}
		var h p2p.HandlerFunc = s.onFindUnderlay
		panicked := verifC37try(func() {
			_ = h(ctx, peer, st)
			zzverif.Yield()
		})
		zzverif.Assert(!panicked, "UnderlayReq: no panic")
	} else {
		// client
		switch zzverif.Choose("reply.kind", 3) {
		case 0:
		case 1:
			e.replyErr = verifC37err()
		case 2:
			m := &pb.UnderlayResp{Dest: verifC37bytes("reply.dest", 32), Signature: verifC37bytes("reply.signature", 65)}
			switch zzverif.Choose("reply.underlay.kind", 5) {
			case 0:
				m.Underlay = verifC37p2pAddr()
				verifC37tie(m.Underlay, true)
			case 1:
				x := zzverif.BytesN("reply.underlay.ip4tcp", 6)
				m.Underlay = []byte{0x04, x[0], x[1], x[2], x[3], 0x06, x[4], x[5]}
				verifC37tie(m.Underlay, true)
			case 2:
				m.Underlay = []byte{0x00}
				verifC37tie(m.Underlay, false)
			case 3:
			case 4:
				m.Underlay = zzverif.Bytes("reply.underlay.free", 3)
			}
			e.replies = []proto.Message{m}
		}
		target := boson.NewAddress(zzverif.BytesN("local.target", 32))
		var a *aurora.Address
		var err error
		panicked := verifC37try(func() {
			a, err = s.FindUnderlay(ctx, target)
			zzverif.Yield()
		})
		zzverif.Assert(!panicked, "UnderlayResp (FindUnderlay client read): no panic")
		if !panicked {
			zzverif.Assert((a == nil) != (err == nil), "FindUnderlay: result xor error")
		}
	}
	zzverif.Reach("C37e-routetab-underlay")
}
