package routetab

import (
	"time"

	"github.com/gauss-project/aurorafs/pkg/boson"
	"github.com/gauss-project/aurorafs/pkg/routetab/pb"
	"github.com/gauss-project/aurorafs/pkg/shed/driver"
	"github.com/gauss-project/aurorafs/pkg/storage"
	"github.com/gauss-project/aurorafs/pkg/zzverif"
)

//verif:root pkg/boson
//verif:noop github.com/gogf/gf/v2/os/gctx.New
//verif:merge existRoute, (pkg/boson.Address).Equal, (pkg/boson.Address).MemberOf, verifC27AddrEq, verifC27Eq, verifC27Before, verifC27Live, verifC27LiveHop, verifC27In

// verifC27Store: state store that discards everything (persistence / reload
// is outside the C27 claim; the table never reads the store in the functions
// exercised here).
type verifC27Store struct{ puts, dels int }

func (s *verifC27Store) Get(key string, i interface{}) error { return storage.ErrNotFound }
func (s *verifC27Store) Put(key string, i interface{}) error { s.puts++; return nil }
func (s *verifC27Store) Delete(key string) error             { s.dels++; return nil }
func (s *verifC27Store) Iterate(prefix string, fn storage.StateIterFunc) error {
	return nil
}
func (s *verifC27Store) DB() driver.BatchDB { return nil }
func (s *verifC27Store) Close() error       { return nil }

// reference model: the paths handed to SavePath so far (length >= 2), each
// with a flag "dead" = deleted or certainly expired since its latest save.
type verifC27Ref struct {
	items [][]byte
	dead  bool
	age   int64 // age given to the stored path before the latest Gc
}

func verifC27Eq(a, b [][]byte) bool {
	if len(a) != len(b) {
		return false
	}
	eq := true
	for i := range a {
		if len(a[i]) != len(b[i]) {
			return false
		}
		for j := range a[i] {
			if a[i][j] != b[i][j] {
				eq = false
			}
		}
	}
	return eq
}

func verifC27AddrEq(a boson.Address, b []byte) bool {
	x := a.Bytes()
	if len(x) != len(b) {
		return false
	}
	eq := true
	for j := range x {
		if x[j] != b[j] {
			eq = false
		}
	}
	return eq
}

// target occurs in items at an index <= len-2
func verifC27Before(items [][]byte, target boson.Address) bool {
	r := false
	for i := 0; i+1 < len(items); i++ {
		if verifC27AddrEq(target, items[i]) {
			r = true
		}
	}
	return r
}

func verifC27Conv(items []boson.Address) [][]byte {
	out := make([][]byte, len(items))
	for i, a := range items {
		out[i] = a.Bytes()
	}
	return out
}

// some live reference path has exactly these items
func verifC27Live(ref []*verifC27Ref, items [][]byte) bool {
	r := false
	for _, e := range ref {
		if !e.dead && verifC27Eq(e.items, items) {
			r = true
		}
	}
	return r
}

// some live reference path ends in hop and contains target before its last hop
func verifC27LiveHop(ref []*verifC27Ref, hop, target boson.Address) bool {
	r := false
	for _, e := range ref {
		if !e.dead && verifC27AddrEq(hop, e.items[len(e.items)-1]) && verifC27Before(e.items, target) {
			r = true
		}
	}
	return r
}

func verifC27In(a boson.Address, list []boson.Address) bool {
	r := false
	for _, x := range list {
		if verifC27AddrEq(a, x.Bytes()) {
			r = true
		}
	}
	return r
}

// verifC27Bound: white-box clause "each target has at most NeighborAlpha routes".
func verifC27Bound(t *Table) {
	for _, rs := range t.routes {
		zzverif.Assert(len(rs) <= int(NeighborAlpha), "routes-per-target-bounded")
	}
}

// verifC27Query: the API-level clauses for one arbitrary target and skip list.
func verifC27Query(t *Table, ref []*verifC27Ref) {
	q := boson.NewAddress(zzverif.BytesN("q", 1))
	paths, err := t.Get(q)
	if err == nil {
		zzverif.Assert(len(paths) <= int(NeighborAlpha), "get-bounded")
		for _, p := range paths {
			it := verifC27Conv(p.Items)
			zzverif.Assert(verifC27Before(it, q), "get-path-contains-target-before-last-hop")
			zzverif.Assert(verifC27Live(ref, it), "get-returns-only-stored-not-deleted-not-expired")
		}
	} else {
		zzverif.Assert(len(paths) == 0, "get-error-without-paths")
	}
	// two arbitrary skip addresses (a skip address that matches no neighbour
	// acts like an absent one, so shorter skip lists are covered semantically)
	skips := []boson.Address{boson.NewAddress(zzverif.BytesN("skip", 1)), boson.NewAddress(zzverif.BytesN("skip", 1))}
	next := t.GetNextHop(q, skips...)
	zzverif.Assert(len(next) <= int(NeighborAlpha), "nexthop-bounded")
	for i, n := range next {
		for j := 0; j < i; j++ {
			zzverif.Assert(!verifC27AddrEq(n, next[j].Bytes()), "nexthop-distinct")
		}
		zzverif.Assert(!verifC27In(n, skips), "nexthop-not-skipped")
		zzverif.Assert(verifC27LiveHop(ref, n, q), "nexthop-is-last-hop-of-stored-path-containing-target")
	}
}

// verifC27Op: one arbitrary operation on the table, mirrored on the reference.
func verifC27Op(t *Table, ref []*verifC27Ref, maxLen int) []*verifC27Ref {
	switch zzverif.Choose("op", 3) {
	case 0: // save a path of 1..maxLen arbitrary 1-byte items (loops, duplicates allowed)
		n := zzverif.Choose("len", maxLen) + 1
		items := make([][]byte, n)
		for i := range items {
			items[i] = zzverif.BytesN("item", 1)
		}
		t.SavePaths([]*pb.Path{{Items: items}})
		if n >= 2 {
			found := false
			for _, e := range ref {
				if verifC27Eq(e.items, items) {
					e.dead = false
					found = true
				}
			}
			if !found {
				ref = append(ref, &verifC27Ref{items: items})
			}
		}
	case 1: // delete one of the paths saved before
		if len(ref) == 0 {
			return ref
		}
		j := zzverif.Choose("del", len(ref))
		_, addrs := generatePathItems(ref[j].items)
		t.Delete(&Path{Items: addrs})
		for _, e := range ref {
			if verifC27Eq(e.items, ref[j].items) {
				e.dead = true
			}
		}
	case 2: // let time pass (every stored path gets an arbitrary age), then Gc
		for _, e := range ref {
			age := zzverif.I64("age")
			zzverif.Assume(age >= 0 && age < 1<<50)
			e.age = age
		}
		now := time.Now()
		t.paths.Range(func(k, v interface{}) bool {
			p := v.(*Path)
			it := verifC27Conv(p.Items)
			var age int64
			for _, e := range ref {
				if verifC27Eq(e.items, it) {
					age = e.age
				}
			}
			p.UsedTime = now.Add(-time.Duration(age))
			return true
		})
		expire := time.Duration(zzverif.I64("expire"))
		zzverif.Assume(expire > -(1<<50) && expire < 1<<50)
		t.Gc(expire)
		for _, e := range ref {
			// expired at the granularity the table uses (whole milliseconds);
			// the age only grows until Gc looks at the path
			if time.Duration(e.age).Milliseconds() > expire.Milliseconds() {
				e.dead = true
			}
		}
	}
	return ref
}

// configured route limit: 2 (default) in the quick tier, 1..maxThorough in the thorough tier
func verifC27Alpha(maxThorough int) {
	if zzverif.Param("alphas", 1, maxThorough) == 1 {
		NeighborAlpha = 2
	} else {
		NeighborAlpha = int32(zzverif.Choose("alpha", maxThorough) + 1)
	}
}

// VerifC27_History: histories of SavePaths / Delete / Gc from the empty table.
func VerifC27_History() {
	maxSteps := zzverif.Param("steps", 2, 3)
	maxLen := zzverif.Param("maxlen", 3, 3)
	zzverif.Unwind(64)
	verifC27Alpha(2) // a limit of 3 cannot be reached by 3 operations
	t := newRouteTable(boson.NewAddress([]byte{0xee}), &verifC27Store{})
	var ref []*verifC27Ref

	steps := zzverif.Choose("nsteps", maxSteps) + 1
	for s := 0; s < steps; s++ {
		ref = verifC27Op(t, ref, maxLen)
		verifC27Bound(t)
	}
	verifC27Query(t, ref)
	zzverif.Reach("C27-history")
}

// VerifC27_Step: induction step for the route list of one arbitrary target T.
// Pre-state (stands for "any state reachable by longer histories or reloaded
// from the store that satisfies the invariant"): T has an arbitrary full list of
// NeighborAlpha pairwise different routes; each route's path is stored,
// contains T before its last hop and ends in the route's neighbour; one more
// stored path without a route may exist. Then one arbitrary operation.
func VerifC27_Step() {
	maxLen := zzverif.Param("maxlen", 3, 3)
	zzverif.Unwind(64)
	verifC27Alpha(3)
	t := newRouteTable(boson.NewAddress([]byte{0xee}), &verifC27Store{})
	var ref []*verifC27Ref
	target := boson.NewAddress(zzverif.BytesN("T", 1))

	// full list (shorter lists are reached by VerifC27_History); thorough tier:
	// for NeighborAlpha <= 2 also one stored path that has no route (e.g. evicted)
	m, extra := int(NeighborAlpha), 0
	if zzverif.Param("extra-path", 0, 1) == 1 && NeighborAlpha <= 2 {
		extra = zzverif.Choose("extra", 2)
	}
	var list []TargetRoute
	for i := 0; i < m+extra; i++ {
		n := zzverif.Choose("plen", maxLen-1) + 2
		items := make([][]byte, n)
		for k := range items {
			items[k] = zzverif.BytesN("pitem", 1)
		}
		for _, e := range ref {
			zzverif.Assume(!verifC27Eq(e.items, items))
		}
		key, addrs := generatePathItems(items)
		t.paths.Store(key, &Path{Items: addrs, CreateTime: time.Now(), UsedTime: time.Now()})
		ref = append(ref, &verifC27Ref{items: items})
		if i < m {
			zzverif.Assume(verifC27Before(items, target))
			list = append(list, TargetRoute{Neighbor: addrs[n-1], PathKey: key})
		}
	}
	if m > 0 {
		t.routes[getTargetKey(target)] = list
	}

	ref = verifC27Op(t, ref, maxLen)
	verifC27Bound(t)
	verifC27Query(t, ref)
	zzverif.Reach("C27-step")
}

