package routetab

// C34 (routing part): an underlay record received in a FindUnderlay reply or in
// the UList of a route message goes into the address book only after
// aurora.ParseAddress accepted it (parse step of FindUnderlay, saveUnderlay).
// Signature scheme: Dolev-Yao model in harness/pkg/crypto/zz_verif_C34_crypto.go.

import (
	"bytes"
	"context"
	"errors"
	"io"

	"github.com/gauss-project/aurorafs/pkg/aurora"
	"github.com/gauss-project/aurorafs/pkg/boson"
	"github.com/gauss-project/aurorafs/pkg/crypto"
	"github.com/gauss-project/aurorafs/pkg/logging"
	"github.com/gauss-project/aurorafs/pkg/p2p"
	"github.com/gauss-project/aurorafs/pkg/routetab/pb"
	"github.com/gauss-project/aurorafs/pkg/zzverif"
	"github.com/gauss-project/aurorafs/pkg/zzverif/zzstream"
	ma "github.com/multiformats/go-multiaddr"
)

//verif:root pkg/aurora pkg/crypto pkg/boson pkg/zzverif/zzstream

// /ip4/127.0.0.1/tcp/7070/p2p/QmYyQSo1c1Ym7orWxLYvCrM2EmxFTANf8wXmmE7DWjhx5N
// (a function, not a package variable: the engine cannot finish the package
// initialisation of pkg/routetab, which calls into an external library)
func verifC34p2pAddr() []byte {
	return []byte{
		0x04, 0x7f, 0x00, 0x00, 0x01, 0x06, 0x1b, 0x9e, 0xa5, 0x03, 0x22,
		0x12, 0x20, 0x9d, 0xff, 0x3b, 0x17, 0xd7, 0x4c, 0xf4, 0xd3, 0x8a, 0x50, 0xd8, 0xb6, 0x38, 0x3e, 0x92, 0xd1,
		0x81, 0xa1, 0x03, 0x95, 0xa5, 0xe7, 0x3a, 0x72, 0x6d, 0xcc, 0xcb, 0xd2, 0x1b, 0xf6, 0xf0, 0xb9,
	}
}

// verifC34underlay: bytes of an underlay field, from families of encodings whose
// status with the (external) multiaddr library is known for every content; the
// fact is stated to the engine's uninterpreted multiaddr model and re-checked
// against the real library in every native run.
//
//	0: /ip4/127.0.0.1/tcp/7070/p2p/Qm...            valid
//	1: /ip4/a.b.c.d followed by k times /tcp/p      valid (lengths 5, 8, 11 ...)
//	2: ip4 code followed by fewer than 4 bytes       invalid (lengths 1..4)
func verifC34underlay(name string, fam int) []byte {
	var b []byte
	switch fam {
	case 0:
		b = verifC34p2pAddr()
		verifC34tie(b, true)
	case 1:
		k := zzverif.Choose(name+".hops", zzverif.Param("underlayHops", 2, 4))
		x := zzverif.BytesN(name+".ip4", 4)
		b = []byte{0x04, x[0], x[1], x[2], x[3]}
		for i := 0; i < k; i++ {
			p := zzverif.BytesN(name+".port", 2)
			b = append(b, 0x06, p[0], p[1])
		}
		verifC34tie(b, true)
	default:
		j := zzverif.Choose(name+".short", 4)
		b = append([]byte{0x04}, zzverif.BytesN(name+".trunc", j)...)
		verifC34tie(b, false)
	}
	return b
}

func verifC34tie(b []byte, valid bool) {
	zzverif.Assume(zzverif.BoolOf("ma.valid", b) == valid)
	if !zzverif.Symbolic() {
		if _, err := ma.NewMultiaddrBytes(b); (err == nil) != valid {
			panic("verifC34: multiaddr validity fact does not hold natively")
		}
	}
}

type verifC34MA struct{ b []byte }

func (m *verifC34MA) MarshalJSON() ([]byte, error)          { panic("unused") }
func (m *verifC34MA) UnmarshalJSON([]byte) error            { panic("unused") }
func (m *verifC34MA) MarshalText() ([]byte, error)          { panic("unused") }
func (m *verifC34MA) UnmarshalText([]byte) error            { panic("unused") }
func (m *verifC34MA) UnmarshalBinary([]byte) error          { panic("unused") }
func (m *verifC34MA) Protocols() []ma.Protocol              { panic("unused") }
func (m *verifC34MA) Encapsulate(ma.Multiaddr) ma.Multiaddr { panic("unused") }
func (m *verifC34MA) Decapsulate(ma.Multiaddr) ma.Multiaddr { panic("unused") }
func (m *verifC34MA) ValueForProtocol(int) (string, error)  { panic("unused") }
func (m *verifC34MA) String() string                        { return "/verif" }
func (m *verifC34MA) Bytes() []byte                         { return m.b }
func (m *verifC34MA) Equal(o ma.Multiaddr) bool             { return bytes.Equal(m.b, o.Bytes()) }
func (m *verifC34MA) MarshalBinary() ([]byte, error)        { return m.b, nil }

func verifC34spec(u, o []byte, nid uint64) []byte {
	const prefix = "aurorafs-handshake-"
	out := make([]byte, len(prefix)+len(u)+len(o)+8)
	k := 0
	for i := 0; i < len(prefix); i++ {
		out[k] = prefix[i]
		k++
	}
	for i := 0; i < len(u); i++ {
		out[k] = u[i]
		k++
	}
	for i := 0; i < len(o); i++ {
		out[k] = o[i]
		k++
	}
	for i := 0; i < 8; i++ {
		out[k] = byte(nid >> (56 - 8*uint(i)))
		k++
	}
	return out
}

// verifC34book: address book recording every Put.
type verifC34book struct {
	keys   []boson.Address
	puts   []aurora.Address
	putErr bool
}

func (b *verifC34book) Put(overlay boson.Address, addr aurora.Address) error {
	b.keys = append(b.keys, overlay)
	b.puts = append(b.puts, addr)
	if b.putErr {
		return errors.New("verif: put failed")
	}
	return nil
}
func (b *verifC34book) Get(boson.Address) (*aurora.Address, error)              { panic("unused") }
func (b *verifC34book) Remove(boson.Address) error                              { panic("unused") }
func (b *verifC34book) Overlays() ([]boson.Address, error)                      { panic("unused") }
func (b *verifC34book) IterateOverlays(func(boson.Address) (bool, error)) error { panic("unused") }
func (b *verifC34book) Addresses() ([]aurora.Address, error)                    { panic("unused") }

type verifC34streamer struct{ st *zzstream.Stream }

func (s *verifC34streamer) NewStream(context.Context, boson.Address, p2p.Headers, string, string, string) (p2p.Stream, error) {
	panic("unused")
}
func (s *verifC34streamer) NewRelayStream(context.Context, boson.Address, p2p.Headers, string, string, string, bool) (p2p.Stream, error) {
	return s.st, nil
}
func (s *verifC34streamer) NewConnChainRelayStream(context.Context, boson.Address, p2p.Headers, string, string, string) (p2p.Stream, error) {
	panic("unused")
}

// verifC34record: the record of an honest peer R (made with aurora.NewAddress and
// R's own signer), with at most one field changed (mut: 0 none, 1 underlay,
// 2 overlay, 3 signature, 4 signed under another network id).
type verifC34rec struct {
	keyR      uint64
	rec       *aurora.Address
	u, o, sig []byte
	mut       int
}

func verifC34record(nidL uint64, other []crypto.VerifC34Outcome) *verifC34rec {
	r := &verifC34rec{keyR: zzverif.U64("remote.key")}
	for _, o := range other {
		zzverif.Assume(o.Key != r.keyR) // A1
	}
	r.mut = zzverif.Choose("mutate", 5)
	nidR := nidL
	if r.mut == 4 {
		nidR = zzverif.U64("remote.networkID")
		zzverif.Assume(nidR != nidL)
	}
	uR := verifC34underlay("remote.underlay", zzverif.Choose("remote.underlayFam", 2))
	signerR := &crypto.VerifC34Signer{Key: r.keyR, Sig: zzverif.BytesN("remote.sig", 65)}
	var err error
	r.rec, err = aurora.NewAddress(signerR, &verifC34MA{b: uR}, boson.NewAddress(crypto.VerifC34Overlay(r.keyR)), nidR)
	if err != nil {
		panic("verifC34: remote record")
	}
	r.u, r.o, r.sig = uR, r.rec.Overlay.Bytes(), r.rec.Signature
	switch r.mut {
	case 1:
		r.u = verifC34underlay("underlay2", zzverif.Choose("underlay2Fam", 3))
		zzverif.Assume(!bytes.Equal(r.u, uR))
	case 2:
		r.o = zzverif.Bytes("overlay2", 33)
		n := len(r.o)
		zzverif.Assume(n == 0 || n == 31 || n == 32 || n == 33)
		zzverif.Assume(!bytes.Equal(r.o, r.rec.Overlay.Bytes()))
		for _, o := range other { // A3
			zzverif.Assume(!(o.OK && bytes.Equal(r.o, crypto.VerifC34Overlay(o.Key))))
		}
	case 3:
		r.sig = zzverif.Bytes("sig2", 66)
		n := len(r.sig)
		zzverif.Assume(n == 0 || n == 64 || n == 65 || n == 66)
		zzverif.Assume(!bytes.Equal(r.sig, r.rec.Signature))
	}
	return r
}

// verifC34authentic: the stored record was accepted on the strength of a
// successful recovery over exactly prefix|underlay|overlay|BE64(own network id)
// that yielded the key of the record's overlay.
func verifC34authentic(a aurora.Address, nidL uint64) bool {
	ub := a.Underlay.Bytes()
	ob := a.Overlay.Bytes()
	for _, c := range crypto.VerifC34.Calls {
		if c.OK && bytes.Equal(c.Sig, a.Signature) && bytes.Equal(c.Data, verifC34spec(ub, ob, nidL)) &&
			bytes.Equal(ob, crypto.VerifC34Overlay(c.Key)) {
			return true
		}
	}
	return false
}

func verifC34service(nidL uint64, book *verifC34book, st *zzstream.Stream) *Service {
	return &Service{
		self:        boson.NewAddress(zzverif.BytesN("self", 32)),
		stream:      &verifC34streamer{st: st},
		logger:      logging.New(io.Discard, 0),
		networkID:   nidL,
		addressbook: book,
	}
}

// verifC34findUnderlay: the reply carries an honest peer's record with at most
// one field changed.
func verifC34findUnderlay() {
	nidL := zzverif.U64("local.networkID")
	other := []crypto.VerifC34Outcome{{OK: zzverif.Bool("recover.ok"), Key: zzverif.U64("recover.key")}}
	crypto.VerifC34Reset(other)
	r := verifC34record(nidL, other)
	book := &verifC34book{putErr: zzverif.Bool("book.putFails")}
	st := zzstream.New(&pb.UnderlayResp{Dest: r.o, Underlay: r.u, Signature: r.sig})
	s := verifC34service(nidL, book, st)

	addr, err := s.FindUnderlay(context.Background(), boson.NewAddress(crypto.VerifC34Overlay(r.keyR)))

	zzverif.Assert((addr == nil) != (err == nil), "FindUnderlay: result xor error")
	zzverif.Assert(len(book.puts) <= 1, "FindUnderlay: at most one Put")
	for i, p := range book.puts {
		zzverif.Assert(verifC34authentic(p, nidL), "FindUnderlay: only an authenticated record is stored")
		zzverif.Assert(book.keys[i].Equal(p.Overlay), "FindUnderlay: stored under its own overlay")
		zzverif.Assert(r.mut == 0, "FindUnderlay: a record with one changed field is not stored")
	}
	if err == nil {
		zzverif.Assert(len(book.puts) == 1 && r.mut == 0, "FindUnderlay: a returned record was accepted and stored")
		zzverif.Assert(bytes.Equal(addr.Overlay.Bytes(), crypto.VerifC34Overlay(r.keyR)) && bytes.Equal(addr.Underlay.Bytes(), r.rec.Underlay.Bytes()) &&
			bytes.Equal(addr.Signature, r.rec.Signature), "FindUnderlay: the returned record is the signer's record")
		zzverif.Reach("C34-findunderlay-accepted")
	}
	if r.mut == 0 && !book.putErr {
		zzverif.Assert(err == nil, "FindUnderlay: the record made by the peer's own signer is accepted")
	}
	zzverif.Reach("C34-findunderlay")
}

// verifC34saveUnderlay: a UList with an arbitrary (attacker made) record and an
// honest peer's record with at most one field changed.
func verifC34saveUnderlay() {
	nidL := zzverif.U64("local.networkID")
	other := []crypto.VerifC34Outcome{
		{OK: zzverif.Bool("recover.ok"), Key: zzverif.U64("recover.key")},
		{OK: zzverif.Bool("recover.ok"), Key: zzverif.U64("recover.key")},
	}
	crypto.VerifC34Reset(other)
	r := verifC34record(nidL, other)
	book := &verifC34book{}
	s := verifC34service(nidL, book, nil)
	// attacker made record with well-formed field lengths (malformed lengths:
	// VerifC34_ParseAddressSound in pkg/aurora)
	free := &pb.UnderlayResp{
		Dest:      zzverif.BytesN("free.overlay", 32),
		Underlay:  verifC34underlay("free.underlay", 1),
		Signature: zzverif.BytesN("free.sig", 65),
	}
	// the attacker's record is not (a copy of) the honest record
	zzverif.Assume(!(bytes.Equal(free.Signature, r.rec.Signature)))

	s.saveUnderlay([]*pb.UnderlayResp{free, {Dest: r.o, Underlay: r.u, Signature: r.sig}})

	honestStored := false
	for i, p := range book.puts {
		zzverif.Assert(verifC34authentic(p, nidL), "saveUnderlay: only authenticated records are stored")
		zzverif.Assert(book.keys[i].Equal(p.Overlay), "saveUnderlay: stored under its own overlay")
		if bytes.Equal(p.Overlay.Bytes(), crypto.VerifC34Overlay(r.keyR)) {
			// a record for the honest peer's overlay can only be the honest record itself
			zzverif.Assert(r.mut == 0 && bytes.Equal(p.Signature, r.rec.Signature) && bytes.Equal(p.Underlay.Bytes(), r.rec.Underlay.Bytes()),
				"saveUnderlay: a record stored for an honest overlay is that peer's own record")
			honestStored = true
		}
	}
	zzverif.Assert(honestStored == (r.mut == 0), "saveUnderlay: the honest record is stored iff unchanged")
	zzverif.Reach("C34-saveunderlay")
}

// VerifC34_Routetab runs the FindUnderlay or the saveUnderlay scenario.
func VerifC34_Routetab() {
	if zzverif.Choose("scenario", 2) == 0 {
		verifC34findUnderlay()
	} else {
		verifC34saveUnderlay()
	}
}
