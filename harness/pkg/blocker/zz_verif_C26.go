package blocker

import (
	"sync"
	"time"

	"github.com/gauss-project/aurorafs/pkg/boson"
	"github.com/gauss-project/aurorafs/pkg/logging"
	"github.com/gauss-project/aurorafs/pkg/p2p"
	"github.com/gauss-project/aurorafs/pkg/zzverif"
)

//verif:root pkg/boson
//verif:replace-call time.After = verifC26After

// ---- harness-controlled timers (time.After call sites of this package are
// redirected here, in the engine and in the native replay build) ----

type verifC26timer struct {
	d     time.Duration
	ch    chan time.Time
	fired bool
}

var (
	verifC26mu     sync.Mutex
	verifC26timers []*verifC26timer
)

func verifC26After(d time.Duration) <-chan time.Time {
	verifC26mu.Lock()
	defer verifC26mu.Unlock()
	t := &verifC26timer{d: d, ch: make(chan time.Time, 1)}
	verifC26timers = append(verifC26timers, t)
	return t.ch
}

func verifC26pending(d time.Duration) *verifC26timer {
	verifC26mu.Lock()
	defer verifC26mu.Unlock()
	for i := len(verifC26timers) - 1; i >= 0; i-- {
		if t := verifC26timers[i]; t.d == d && !t.fired {
			return t
		}
	}
	return nil
}

func verifC26count(d time.Duration) int {
	verifC26mu.Lock()
	defer verifC26mu.Unlock()
	n := 0
	for _, t := range verifC26timers {
		if t.d == d {
			n++
		}
	}
	return n
}

// verifC26fire delivers one tick to the goroutine waiting on a timer of
// duration d and waits until that goroutine has gone round its loop (it then
// asks for the next timer).
func verifC26fire(d time.Duration) {
	t := verifC26pending(d)
	zzverif.Assume(t != nil)
	before := verifC26count(d)
	t.fired = true
	t.ch <- time.Time{}
	zzverif.WaitUntil(func() bool { return verifC26count(d) > before }, "worker asked for its next timer")
}

// ---- blocklister stub ----

type verifC26bl struct {
	mu      sync.Mutex
	avail   bool
	blocked []boson.Address
}

func (b *verifC26bl) NetworkStatus() p2p.NetworkStatus {
	b.mu.Lock()
	defer b.mu.Unlock()
	if b.avail {
		return p2p.NetworkStatusAvailable
	}
	return p2p.NetworkStatusUnavailable
}
func (b *verifC26bl) Blocklist(a boson.Address, d time.Duration, reason string) error {
	b.mu.Lock()
	defer b.mu.Unlock()
	b.blocked = append(b.blocked, a)
	return nil
}
func (b *verifC26bl) setAvail(v bool) { b.mu.Lock(); b.avail = v; b.mu.Unlock() }
func (b *verifC26bl) count(a boson.Address) int {
	b.mu.Lock()
	defer b.mu.Unlock()
	n := 0
	for _, x := range b.blocked {
		if x.Equal(a) {
			n++
		}
	}
	return n
}

type verifC26ref struct {
	flagged bool
	ticks   int // available sequencer ticks since the flag
}

// VerifC26_Blocker: histories of Flag/Unflag/PruneUnseen, sequencer ticks with
// the network available or not, and blocking sweeps, over two peers. The two
// worker goroutines of the real New() run as coroutines and are driven tick by
// tick.
func VerifC26_Blocker() {
	steps := zzverif.Param("steps", 3, 5)
	zzverif.Unwind(64)
	verifC26timers = nil
	sequencerResolution = time.Second
	T := 1 + zzverif.Choose("timeout", 2) // whole sequencer ticks in the flag timeout: 1 or 2
	flagTimeout := time.Duration(T)*time.Second + 500*time.Millisecond
	const wake = 7 * time.Second
	bl := &verifC26bl{avail: true}
	var cbCount [2]int
	peers := []boson.Address{boson.NewAddress([]byte{0xa1}), boson.NewAddress([]byte{0xb2})}
	b := New(bl, flagTimeout, time.Minute, wake, func(a boson.Address) {
		for i := range peers {
			if peers[i].Equal(a) {
				cbCount[i]++
			}
		}
	}, logging.New(nil, 0))
	// both workers are parked on their first timer
	zzverif.WaitUntil(func() bool { return verifC26count(time.Second) == 1 && verifC26count(wake) == 1 }, "workers started")

	var ref [2]verifC26ref
	var expectBlocked [2]int
	// optional earlier flag period that ended with a success (so that the
	// history below may be a second flag period of the peer)
	for i := range peers {
		if zzverif.Bool("earlier-flag-period") {
			bl.setAvail(true)
			b.Flag(peers[i])
			b.Unflag(peers[i])
		}
	}
	for s := 0; s < steps; s++ {
		switch zzverif.Choose("op", 5) {
		case 0: // Flag while the network is available (a flag during an outage is an unconstrained corner)
			p := zzverif.Choose("peer", 2)
			bl.setAvail(true)
			b.Flag(peers[p])
			if !ref[p].flagged {
				ref[p] = verifC26ref{flagged: true}
			}
		case 1: // Unflag
			p := zzverif.Choose("peer", 2)
			b.Unflag(peers[p])
			ref[p] = verifC26ref{}
		case 2: // PruneUnseen with a symbolic seen-set
			var seen []boson.Address
			for i := range peers {
				if zzverif.Bool("seen") {
					seen = append(seen, peers[i])
				} else {
					ref[i] = verifC26ref{}
				}
			}
			b.PruneUnseen(seen)
		case 3: // one or two sequencer ticks, network available or not
			av := zzverif.Bool("avail")
			nt := 1 + zzverif.Choose("ticks", 2)
			bl.setAvail(av)
			for k := 0; k < nt; k++ {
				verifC26fire(time.Second)
				if av {
					for i := range ref {
						if ref[i].flagged {
							ref[i].ticks++
						}
					}
				}
			}
		case 4: // blocking sweep (the network may be up or down at that moment)
			bl.setAvail(zzverif.Bool("avail-at-sweep"))
			verifC26fire(wake)
			for i := range ref {
				if ref[i].flagged && ref[i].ticks > T {
					expectBlocked[i]++
					ref[i] = verifC26ref{}
				}
			}
		}
		for i := range peers {
			zzverif.Assert(bl.count(peers[i]) == expectBlocked[i], "blocklisted exactly when flagged longer than the timeout of available ticks, once per flag period")
			zzverif.Assert(cbCount[i] == expectBlocked[i], "callback once per blocklisting")
		}
	}
	zzverif.MayPanic(func() { _ = b.Close() })
	zzverif.Reach("C26")
}

// VerifC26_NewParams: New panics exactly for the two documented parameter errors.
func VerifC26_NewParams() {
	verifC26timers = nil
	sequencerResolution = time.Second
	ft := time.Duration(zzverif.Choose("ft", 4)) * time.Second  // 0..3 s
	wu := time.Duration(zzverif.Choose("wu", 3)) * time.Second / 2 * 2 // 0,1,2 s
	bl := &verifC26bl{avail: true}
	var b *Blocker
	panicked := zzverif.MayPanic(func() { b = New(bl, ft, time.Minute, wu, nil, logging.New(nil, 0)) })
	zzverif.Assert(panicked == (ft <= time.Second || wu < time.Second), "New panics iff parameters are out of range")
	if !panicked {
		_ = b.Close()
	}
	zzverif.Reach("C26-new")
}
