package subscribe

import (
	"errors"
	"sync"

	"github.com/gauss-project/aurorafs/pkg/zzverif"
)

// C40: subscribers get every later message and none after leaving.
//
// The real NewSubPub / Subscribe / process / Publish run (process and the
// per-registration unsubscribe goroutines of Subscribe as coroutines). The
// harness supplies notifiers that record Notify calls and own the error
// channel. PublishArray (reflect) is not executed.

type verifC40msg struct {
	seq  int   // publication number (harness bookkeeping)
	body uint8 // symbolic payload
}

type verifC40rec struct {
	key string
	msg verifC40msg
}

// notifier stub: records Notify calls; the harness fires its error channel.
type verifC40notif struct {
	mu   sync.Mutex
	got  []verifC40rec
	errc chan error
}

func (n *verifC40notif) Notify(key string, data interface{}) error {
	n.mu.Lock()
	defer n.mu.Unlock()
	m, ok := data.(verifC40msg)
	if !ok {
		m = verifC40msg{seq: -1}
	}
	n.got = append(n.got, verifC40rec{key: key, msg: m})
	return nil
}
func (n *verifC40notif) Err() <-chan error { return n.errc }
func (n *verifC40notif) count() int {
	n.mu.Lock()
	defer n.mu.Unlock()
	return len(n.got)
}
func (n *verifC40notif) log() []verifC40rec {
	n.mu.Lock()
	defer n.mu.Unlock()
	return append([]verifC40rec(nil), n.got...)
}

// verifC40barrier waits, through the public API only, until process has
// handled every subscribe and unsubscribe record queued before the call:
// both queues are FIFO and process is sequential, so a probe subscription on a
// private key that has been registered (a probe message arrives) and then
// removed (a probe message no longer arrives) has passed behind all of them.
func verifC40barrier(s *subPub) {
	// let goroutines woken by a fired error channel queue their records first
	zzverif.Yield()
	d := &verifC40notif{errc: make(chan error)}
	_ = s.Subscribe(d, "zz", "barrier", "")
	zzverif.WaitUntil(func() bool {
		_ = s.Publish("zz", "barrier", "", 0)
		return d.count() > 0
	}, "probe registered: earlier subscriptions have taken effect")
	close(d.errc)
	zzverif.WaitUntil(func() bool {
		before := d.count()
		_ = s.Publish("zz", "barrier", "", 0)
		return d.count() == before
	}, "probe removed: earlier unsubscriptions have been processed")
}

// publication / subscription parameter i: "" (namespace-wide), "p1", "p2".
// (A function, not a package-level table: the package initialiser of
// pkg/subscribe stops early under gosym at gcache.New in metrics.go, so
// package-level variables of the harness would stay zero there.)
func verifC40param(i int) string {
	switch i {
	case 0:
		return ""
	case 1:
		return "p1"
	}
	return "p2"
}

// registration key i: 0 = namespace-wide key ns_k, 1 = ns_k_p1, 2 = ns_k_p2.
// A message published with parameter index p is "for" key 0 always and for
// key i>0 iff p == i.
func verifC40match(key, p int) bool { return key == 0 || key == p }

type verifC40reg struct{ n, key int }

type verifC40world struct {
	s     *subPub
	ns    [2]*verifC40notif
	regs  []verifC40reg
	fired [2]bool
	seq   int
	// per notifier: number of log entries already checked
	seen [2]int
}

func verifC40new(errCap int) *verifC40world {
	w := &verifC40world{s: NewSubPub()}
	for i := range w.ns {
		w.ns[i] = &verifC40notif{errc: make(chan error, errCap)}
	}
	return w
}

func (w *verifC40world) subscribe(n, key int) {
	_ = w.s.Subscribe(w.ns[n], "ns", "k", verifC40param(key))
	w.regs = append(w.regs, verifC40reg{n, key})
	verifC40barrier(w.s) // "registration has taken effect"
}

// publish one message with a fresh symbolic body and check every notifier.
func (w *verifC40world) publish(p int) {
	m := verifC40msg{seq: w.seq, body: zzverif.U8("body")}
	w.seq++
	_ = w.s.Publish("ns", "k", verifC40param(p), m)
	for n := range w.ns {
		registered := false
		for _, r := range w.regs {
			if r.n == n && verifC40match(r.key, p) {
				registered = true
			}
		}
		log := w.ns[n].log()
		got := 0
		for i := w.seen[n]; i < len(log); i++ {
			// only the message just published may have been appended: publication order
			zzverif.Assert(log[i].msg.seq == m.seq, "messages arrive in publication order")
			zzverif.Assert(log[i].msg.body == m.body, "the message delivered is the message published")
			got++
		}
		w.seen[n] = len(log)
		if w.fired[n] {
			zzverif.Assert(got == 0, "no message after the error channel fired")
		} else if registered {
			zzverif.Assert(got >= 1, "every later message for the key or its namespace key is delivered")
		}
	}
}

// adjacentDup: two consecutive registrations (in registration order, among
// those of one key) belong to notifier n.
func (w *verifC40world) adjacentDup(n int) bool {
	for key := 0; key < 3; key++ {
		prev := false
		for _, r := range w.regs {
			if r.key != key {
				continue
			}
			if r.n == n && prev {
				return true
			}
			prev = r.n == n
		}
	}
	return false
}

// observe: what each notifier received (keys and publication numbers), compared
// between the engine and the native run on the validated path witnesses.
func (w *verifC40world) observe() {
	for n := range w.ns {
		keys := ""
		seqs := 0
		for _, r := range w.ns[n].log() {
			keys += r.key + ";"
			seqs = seqs*16 + r.msg.seq + 1
		}
		zzverif.Observe("keys", keys)
		zzverif.Observe("seqs", seqs)
	}
}

func (w *verifC40world) nregs(n int) int {
	c := 0
	for _, r := range w.regs {
		if r.n == n {
			c++
		}
	}
	return c
}

// VerifC40_History: histories of subscribe (2 notifiers x 2..3 keys, duplicates
// allowed) / publish (3 parameters) / fire. The error channel fires the way all
// notifiers of the repository fire it: it is closed (rpc unsubscribe,
// NotifierWithMsgChan), optionally after one error value (rpc connection
// close: "s.err <- err; close(s.err)").
func VerifC40_History() {
	steps := zzverif.Param("steps", 4, 5)
	nkeys := zzverif.Param("keys", 2, 3)
	w := verifC40new(1)
	for st := 0; st < steps; st++ {
		switch zzverif.Choose("op", 3) {
		case 0:
			n := zzverif.Choose("notifier", 2)
			zzverif.Assume(!w.fired[n]) // re-subscribing a failed notifier races with its own removal: outside
			w.subscribe(n, zzverif.Choose("key", nkeys))
		case 1:
			w.publish(zzverif.Choose("param", 3))
		case 2:
			n := zzverif.Choose("notifier", 2)
			zzverif.Assume(!w.fired[n] && w.nregs(n) > 0)
			if zzverif.Choose("value-then-close", 2) == 1 {
				w.ns[n].errc <- errors.New("conn closed")
			}
			close(w.ns[n].errc)
			w.fired[n] = true
			verifC40barrier(w.s) // process has quiesced
		}
	}
	// final probe of every parameter
	for p := 0; p < 3; p++ {
		w.publish(p)
	}
	w.observe()
	zzverif.Reach("C40-history")
}

// VerifC40_SingleErrorValue: the error channel delivers ONE error value and is
// not closed (what `<-chan error` allows; rpc.ClientSubscription.Err behaves so).
// Exactly one of the notifier's unsubscribe goroutines wakes, so the clause is
// only demanded when all registrations of that notifier are for one key — the
// case the statement names ("even if it had subscribed to the same key several
// times").
func VerifC40_SingleErrorValue() {
	slots := zzverif.Param("slots", 3, 4)
	w := verifC40new(1)
	for i := 0; i < slots; i++ {
		if i > 0 && zzverif.Choose("more", 2) == 0 {
			break
		}
		w.subscribe(zzverif.Choose("notifier", 2), zzverif.Choose("key", 2))
	}
	w.publish(zzverif.Choose("param", 3))
	n := zzverif.Choose("fire", 2)
	zzverif.Assume(w.nregs(n) > 0)
	first := -1
	for _, r := range w.regs {
		if r.n == n {
			if first < 0 {
				first = r.key
			}
			zzverif.Assume(r.key == first)
		}
	}
	zzverif.Region("C40/error-value-without-close-and-notifier-registered-consecutively-for-the-key", w.adjacentDup(n))
	w.ns[n].errc <- errors.New("gone")
	w.fired[n] = true
	verifC40barrier(w.s)
	for p := 0; p < 3; p++ {
		w.publish(p)
	}
	w.observe()
	zzverif.Reach("C40-single-value")
}
