package pingpong

// C37 (f): "malformed peer messages never crash the node", pingpong protocol.
// The stream handler (server side) and Ping (client side: it reads the peer's
// Pong messages) are executed on arbitrary well-typed decoded messages; the
// only obligation is the absence of a panic (reported automatically, label
// no-panic). The gogo wire decoder and the length-delimited reader are not
// executed under gosym (messages are exchanged as values through zzstream);
// the native replay does run them.

import (
	"context"
	"errors"
	"io"

	"github.com/gauss-project/aurorafs/pkg/boson"
	"github.com/gauss-project/aurorafs/pkg/logging"
	"github.com/gauss-project/aurorafs/pkg/p2p"
	"github.com/gauss-project/aurorafs/pkg/pingpong/pb"
	"github.com/gauss-project/aurorafs/pkg/zzverif"
	"github.com/gauss-project/aurorafs/pkg/zzverif/zzstream"
	"github.com/gogo/protobuf/proto"
	"github.com/prometheus/client_golang/prometheus"
)

//verif:root pkg/boson pkg/zzverif/zzstream
//verif:stub newMetrics = verifC37newMetrics

var verifC37errStream = errors.New("verif: stream failure")

// verifC37newMetrics replaces newMetrics, which reads the package variable
// metrics.Namespace of a package without SSA body (prometheus itself is a
// no-op under gosym; natively these are real counters).
func verifC37newMetrics() metrics {
	c := func(n string) prometheus.Counter {
		return prometheus.NewCounter(prometheus.CounterOpts{Name: n})
	}
	return metrics{c("verif_a"), c("verif_b"), c("verif_c"), c("verif_d")}
}

// verifC37streamer hands out one prepared stream (or fails).
type verifC37streamer struct {
	s    *zzstream.Stream
	fail bool
}

func (v *verifC37streamer) NewStream(ctx context.Context, address boson.Address, h p2p.Headers, protocol, version, stream string) (p2p.Stream, error) {
	if v.fail {
		return nil, verifC37errStream
	}
	return v.s, nil
}
func (v *verifC37streamer) NewRelayStream(ctx context.Context, address boson.Address, h p2p.Headers, protocol, version, stream string, midCall bool) (p2p.Stream, error) {
	panic("unused")
}
func (v *verifC37streamer) NewConnChainRelayStream(ctx context.Context, target boson.Address, h p2p.Headers, protocolName, protocolVersion, streamName string) (p2p.Stream, error) {
	panic("unused")
}

func verifC37str(name string, max int) string {
	return string(zzverif.Bytes(name, max))
}

// verifC37failures: how the stream misbehaves besides the message contents.
func verifC37failures(s *zzstream.Stream) {
	if zzverif.Bool("readFails") {
		s.InErr = verifC37errStream // instead of a clean EOF after the queued messages
	}
	if zzverif.Bool("writeFails") {
		s.WriteErr = verifC37errStream
	}
}

// VerifC37_Pingpong runs one of the two scenarios below (one entry point per
// package keeps the number of native validation builds down).
func VerifC37_Pingpong() {
	if zzverif.Choose("scenario", 2) == 0 {
		verifC37pingpongHandler()
	} else {
		verifC37pingpongClient()
	}
}

// verifC37pingpongHandler: the handler serves 0..n Ping messages with
// arbitrary greetings, then the stream ends with EOF or an error; writes may fail.
func verifC37pingpongHandler() {
	maxMsgs := zzverif.Param("msgs", 2, 3)
	maxLen := zzverif.Param("greetingLen", 3, 8)
	svc := New(nil, logging.New(io.Discard, 0), nil)
	n := zzverif.Choose("n", maxMsgs+1)
	var in []proto.Message
	for i := 0; i < n; i++ {
		in = append(in, &pb.Ping{Greeting: verifC37str("greeting", maxLen)})
	}
	s := zzstream.New(in...)
	verifC37failures(s)
	peer := p2p.Peer{Address: boson.NewAddress(zzverif.BytesN("peer", 32))}
	// the handler registered in the protocol spec is the one libp2p calls
	h := svc.Protocol().StreamSpecs[0].Handler
	_ = h(context.Background(), peer, s)
	zzverif.Reach("C37-pingpong-handler")
}

// verifC37pingpongClient: Ping sends greetings and reads the peer's answers:
// 0..n Pong messages with arbitrary content, then EOF or an error.
func verifC37pingpongClient() {
	maxMsgs := zzverif.Param("msgs", 2, 3)
	maxLen := zzverif.Param("responseLen", 3, 8)
	n := zzverif.Choose("n", maxMsgs+1)
	var in []proto.Message
	for i := 0; i < n; i++ {
		in = append(in, &pb.Pong{Response: verifC37str("response", maxLen)})
	}
	s := zzstream.New(in...)
	verifC37failures(s)
	st := &verifC37streamer{s: s, fail: zzverif.Bool("newStreamFails")}
	svc := New(st, logging.New(io.Discard, 0), nil)
	greetings := []string{"a", "b", "c"}[:zzverif.Choose("greetings", 4)]
	_, _ = svc.Ping(context.Background(), boson.NewAddress(zzverif.BytesN("peer", 32)), greetings...)
	zzverif.Reach("C37-pingpong-client")
}
