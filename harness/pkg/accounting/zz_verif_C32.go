package accounting

import (
	"context"
	"fmt"
	"math/big"
	"time"

	"github.com/gauss-project/aurorafs/pkg/boson"
	"github.com/gauss-project/aurorafs/pkg/logging"
	"github.com/gauss-project/aurorafs/pkg/settlement"
	"github.com/gauss-project/aurorafs/pkg/zzverif"
	"github.com/prometheus/client_golang/prometheus"
)

// ---------------------------------------------------------------------------
// C32 (sequential content): Reserve / Credit / Debit / NotifyPayment /
// getAccountingPeer / settle of pkg/accounting over a settlement stub.
//
// Environment:
//   * settlement.Interface = verifC32Settle: RetrieveTraffic returns the peer's
//     fixed, arbitrary non-negative opening debt; TransferTraffic and
//     AvailableBalance return a fresh arbitrary value on every call
//     (AvailableBalance may be negative); Put* and Pay record their arguments
//     and succeed. Failing settlement calls are outside the claim.
//   * The Accounting value is built field by field exactly as NewAccounting does
//     (tolerance/threshold copied, map, payChan of capacity 1000) except that the
//     background goroutine `go acc.settle()` is not started: the harness
//     observes len(payChan) after every step and finally closes the channel and
//     runs the real settle() loop synchronously. This makes the payment-request
//     observation deterministic natively as well. metrics = the one counter that
//     Debit touches.
//   * p2p.NewBlockPeerError (pkg/p2p is not a root) is replaced under gosym by a
//     wrapping error; the harness only looks at err != nil.
// ---------------------------------------------------------------------------

//verif:root pkg/boson
//verif:stub pkg/p2p.NewBlockPeerError = verifC32BlockErr

func verifC32BlockErr(d time.Duration, err error) error { return fmt.Errorf("block peer: %w", err) }

type verifC32Discard struct{}

func (verifC32Discard) Write(p []byte) (int, error) { return len(p), nil }

type verifC32Settle struct {
	peers   [2]boson.Address
	opening [2]*big.Int // fixed opening debt per peer

	lastServed *big.Int // value returned by the latest TransferTraffic
	lastAvail  *big.Int // value returned by the latest AvailableBalance

	putRetrieveN    int
	putRetrievePeer int
	putRetrieveAmt  *big.Int
	putTransferN    int
	putTransferPeer int
	putTransferAmt  *big.Int
	payPeer         []int
	payThreshold    []*big.Int
}

func (s *verifC32Settle) idx(peer boson.Address) int {
	for i := range s.peers {
		if s.peers[i].Equal(peer) {
			return i
		}
	}
	panic("verifC32Settle: unknown peer")
}

func (s *verifC32Settle) Pay(ctx context.Context, peer boson.Address, paymentThreshold *big.Int) error {
	s.payPeer = append(s.payPeer, s.idx(peer))
	s.payThreshold = append(s.payThreshold, new(big.Int).Set(paymentThreshold))
	return nil
}
func (s *verifC32Settle) TransferTraffic(peer boson.Address) (*big.Int, error) {
	s.lastServed = zzverif.BigNonNeg("served")
	return new(big.Int).Set(s.lastServed), nil
}
func (s *verifC32Settle) RetrieveTraffic(peer boson.Address) (*big.Int, error) {
	return new(big.Int).Set(s.opening[s.idx(peer)]), nil
}
func (s *verifC32Settle) PutRetrieveTraffic(peer boson.Address, traffic *big.Int) error {
	s.putRetrieveN++
	s.putRetrievePeer = s.idx(peer)
	s.putRetrieveAmt = new(big.Int).Set(traffic)
	return nil
}
func (s *verifC32Settle) PutTransferTraffic(peer boson.Address, traffic *big.Int) error {
	s.putTransferN++
	s.putTransferPeer = s.idx(peer)
	s.putTransferAmt = new(big.Int).Set(traffic)
	return nil
}
func (s *verifC32Settle) AvailableBalance() (*big.Int, error) {
	v := zzverif.BigNonNeg("available")
	if zzverif.Bool("available-negative") {
		v = new(big.Int).Neg(v)
	}
	s.lastAvail = v
	return new(big.Int).Set(v), nil
}
func (s *verifC32Settle) SetNotifyPaymentFunc(f settlement.NotifyPaymentFunc)   { panic("unused") }
func (s *verifC32Settle) GetPeerBalance(peer boson.Address) (*big.Int, error)   { panic("unused") }
func (s *verifC32Settle) GetUnPaidBalance(peer boson.Address) (*big.Int, error) { panic("unused") }

// unpaid balance the accounting holds for a peer, read through the real
// getAccountingPeer (which loads the opening debt on first use).
func verifC32Unpaid(a *Accounting, peer boson.Address) *big.Int {
	ap, err := a.getAccountingPeer(peer)
	zzverif.Assert(err == nil && ap != nil, "accounting peer available")
	return new(big.Int).Set(ap.unPaidTraffic)
}

// VerifC32_TwoPeers: arbitrary sequential histories of Credit / NotifyPayment
// / Debit / Reserve over two peers with arbitrary threshold, tolerance, opening
// debts and amounts (short histories; shows that peers do not interfere).
func VerifC32_TwoPeers() {
	verifC32Run(2, zzverif.Param("steps", 2, 3))
	zzverif.Reach("C32-two-peers")
}

// VerifC32_OnePeer: the same with every operation on one peer while a second,
// idle peer is watched (longer histories).
func VerifC32_OnePeer() {
	verifC32Run(1, zzverif.Param("steps", 3, 4))
	zzverif.Reach("C32-one-peer")
}

func verifC32Run(activePeers, steps int) {
	threshold := zzverif.BigNonNeg("threshold")
	tolerance := zzverif.BigNonNeg("tolerance")
	st := &verifC32Settle{peers: [2]boson.Address{boson.NewAddress([]byte{0x11}), boson.NewAddress([]byte{0x22})}}
	st.opening[0] = zzverif.BigNonNeg("opening-debt")
	st.opening[1] = zzverif.BigNonNeg("opening-debt")

	acc := &Accounting{
		accountingPeers:  make(map[string]*accountingPeer),
		paymentTolerance: new(big.Int).Set(tolerance),
		paymentThreshold: new(big.Int).Set(threshold),
		logger:           logging.New(verifC32Discard{}, 0),
		settlement:       st,
		payChan:          make(chan payChan, 1000),
		metrics:          metrics{AccountingDisconnectsCount: prometheus.NewCounter(prometheus.CounterOpts{Name: "verif_c32"})},
	}

	// reference model: unpaid balance per peer, requested payments
	ref := [2]*big.Int{new(big.Int).Set(st.opening[0]), new(big.Int).Set(st.opening[1])}
	var wantPay []int

	for s := 0; s < steps; s++ {
		p := zzverif.Choose("peer", activePeers)
		peer := st.peers[p]
		q := 1 - p
		queued := len(acc.payChan)
		putR, putT := st.putRetrieveN, st.putTransferN
		requested := false

		switch zzverif.Choose("op", 4) {
		case 0: // Credit: we consumed `amount` of the peer's traffic
			amount := zzverif.U64("amount")
			err := acc.Credit(context.Background(), peer, amount)
			zzverif.Assert(err == nil, "Credit succeeds")
			ref[p] = new(big.Int).Add(ref[p], new(big.Int).SetUint64(amount))
			zzverif.Assert(st.putRetrieveN == putR+1 && st.putRetrievePeer == p &&
				st.putRetrieveAmt.Cmp(new(big.Int).SetUint64(amount)) == 0, "Credit records exactly the consumed traffic for the peer")
			requested = ref[p].Cmp(threshold) >= 0
			if requested {
				wantPay = append(wantPay, p)
			}
		case 1: // NotifyPayment: the settlement layer tells us `paid` was paid
			paid := zzverif.BigNonNeg("paid")
			err := acc.NotifyPayment(peer, paid)
			zzverif.Assert(err == nil, "NotifyPayment succeeds")
			d := new(big.Int).Sub(ref[p], paid)
			if d.Sign() < 0 {
				d = big.NewInt(0)
			}
			ref[p] = d
			zzverif.Assert(st.putRetrieveN == putR, "NotifyPayment records no consumption")
		case 2: // Debit: the peer asks us to serve `amount`
			amount := zzverif.U64("amount")
			err := acc.Debit(peer, amount)
			if st.lastServed.Cmp(tolerance) >= 0 {
				zzverif.Assert(err != nil, "Debit refused when served traffic has reached the tolerance")
				zzverif.Assert(st.putTransferN == putT, "refused Debit is not recorded")
			}
			if err == nil {
				zzverif.Assert(st.putTransferN == putT+1 && st.putTransferPeer == p &&
					st.putTransferAmt.Cmp(new(big.Int).SetUint64(amount)) == 0, "accepted Debit recorded once for the peer")
			} else {
				zzverif.Assert(st.putTransferN == putT, "failed Debit is not recorded")
			}
			zzverif.Assert(st.putRetrieveN == putR, "Debit records no consumption")
		case 3: // Reserve
			amount := zzverif.U64("amount")
			err := acc.Reserve(peer, amount)
			need := new(big.Int).Add(ref[p], new(big.Int).SetUint64(amount))
			zzverif.Assert((err != nil) == (st.lastAvail.Cmp(need) < 0), "Reserve refuses exactly when available < unpaid + amount")
			zzverif.Assert(st.putRetrieveN == putR && st.putTransferN == putT, "Reserve records nothing")
		}

		// after every step: exact unpaid balances of both peers, never negative
		up := verifC32Unpaid(acc, peer)
		uq := verifC32Unpaid(acc, st.peers[q])
		zzverif.Assert(up.Cmp(ref[p]) == 0, "unpaid balance = opening + credits - notified payments (floored at 0)")
		zzverif.Assert(uq.Cmp(ref[q]) == 0, "other peer's unpaid balance untouched")
		zzverif.Assert(up.Sign() >= 0 && uq.Sign() >= 0, "unpaid balance never negative")
		// a payment is requested whenever a credit leaves unpaid >= threshold
		// (the statement does not forbid other requests: not asserted)
		if requested {
			zzverif.Assert(len(acc.payChan) == queued+1, "payment requested when credit leaves unpaid >= threshold")
		}
	}

	// drain the queue with the real settle loop: every queued request is paid once
	queuedTotal := len(acc.payChan)
	close(acc.payChan)
	acc.settle()
	zzverif.Assert(len(st.payPeer) == queuedTotal, "settle pays once per queued request")
	if queuedTotal == len(wantPay) {
		for i := range wantPay {
			zzverif.Assert(st.payPeer[i] == wantPay[i], "payment goes to the peer whose credit triggered it")
			zzverif.Assert(st.payThreshold[i].Cmp(threshold) == 0, "payment carries the configured threshold")
		}
	}
}
