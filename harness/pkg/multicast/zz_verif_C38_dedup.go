package multicast

// C38, second clause: "Within the one-minute de-duplication window, a multicast
// message is delivered to each member's subscribers at most once, and its
// flooding stops after each node has forwarded it at most once."
//
// One node (a member of a joined group with a local subscriber, two directly
// connected members and one kept member) sees a short history of sightings of
// multicast messages: optionally it originates one itself (Service.Multicast),
// then copies arrive on the real stream handler Service.onMulticast, from
// either connected member, carrying (origin, id) out of a small set and ANY
// creation time stamp within +-3 minutes of the node's clock (the stamp is the
// origin's clock and the copy may have been on the way for a while). Between
// the sightings the node's clock advances by arbitrary amounts.
//
// Observed: publications to the group's subscribers (SubPub.Publish "group" /
// "multicastMsg") and MulticastMsg values written to "multicast" streams.
// Claim: two deliveries of the same (origin, id), and two forwarding rounds of
// the same (origin, id), are never less than one minute apart; a single
// sighting delivers at most once and sends at most one copy per peer.
//
// Environment (mirrored natively):
//   - time.Now / time.Since called from pkg/multicast read the harness clock;
//   - the gogf cache behind the package variable `cache` is replaced by the
//     adapter verifC38cache, a model of gcache's memory adapter: an entry set
//     with duration d at instant t is contained until t+d (d == 0: for ever,
//     d < 0: never), SetIfNotExist sets iff not contained. (The real adapter
//     counts in whole milliseconds, the model in nanoseconds.)

import (
	"context"
	"time"

	"github.com/gauss-project/aurorafs/pkg/aurora"
	"github.com/gauss-project/aurorafs/pkg/boson"
	"github.com/gauss-project/aurorafs/pkg/logging"
	"github.com/gauss-project/aurorafs/pkg/multicast/model"
	"github.com/gauss-project/aurorafs/pkg/multicast/pb"
	"github.com/gauss-project/aurorafs/pkg/p2p"
	"github.com/gauss-project/aurorafs/pkg/subscribe"
	"github.com/gauss-project/aurorafs/pkg/zzverif"
	"github.com/gauss-project/aurorafs/pkg/zzverif/zzstream"
	"github.com/gogf/gf/v2/os/gcache"
	"github.com/gogo/protobuf/proto"
)

//verif:root pkg/multicast/pb pkg/zzverif/zzstream
//verif:replace-call time.Now = verifC38Now
//verif:replace-call time.Since = verifC38Since

// ---- clock ----

// verifC38clock: the node's clock (ns); advanced by the harness between events.
var verifC38clock int64

const verifC38clock0 = int64(1_700_000_000_000) * 1_000_000 // ns

func verifC38Now() time.Time                  { return time.Unix(0, verifC38clock) }
func verifC38Since(t time.Time) time.Duration { return time.Unix(0, verifC38clock).Sub(t) }

// ---- cache adapter (model of gcache.AdapterMemory: Contains + Set with expiry) ----

type verifC38entry struct {
	key    string
	expire int64 // ns on the harness clock
	never  bool  // duration 0: does not expire
}

type verifC38store struct{ items []verifC38entry }

type verifC38cache struct {
	gcache.Adapter
	st *verifC38store
}

func (c verifC38cache) SetIfNotExist(ctx context.Context, key interface{}, value interface{}, duration time.Duration) (bool, error) {
	k, ok := key.(string)
	if !ok {
		panic("verifC38cache: key is not a string")
	}
	now := verifC38clock
	at := -1
	for i := range c.st.items {
		if c.st.items[i].key == k {
			at = i
		}
	}
	if at >= 0 {
		e := c.st.items[at]
		if e.never || e.expire >= now {
			return false, nil // contained
		}
	}
	ne := verifC38entry{key: k, expire: now + int64(duration), never: duration == 0}
	if at >= 0 {
		c.st.items[at] = ne
	} else {
		c.st.items = append(c.st.items, ne)
	}
	return true, nil
}

// ---- subscribers ----

type verifC38pub struct{ delivered []Message }

func (p *verifC38pub) Subscribe(subscribe.INotifier, string, string, string) error { return nil }
func (p *verifC38pub) Publish(ns string, kind string, param string, data interface{}) error {
	if ns == "group" && kind == "multicastMsg" {
		p.delivered = append(p.delivered, data.(Message))
	}
	return nil
}
func (p *verifC38pub) PublishArray(string, string, string, []interface{}) error { return nil }

// ---- streams opened by the node ----

type verifC38sent struct {
	dest   boson.Address
	name   string
	stream *zzstream.Stream
}

type verifC38streamer struct{ opened []verifC38sent }

func (v *verifC38streamer) open(dest boson.Address, name string) (p2p.Stream, error) {
	s := zzstream.New()
	v.opened = append(v.opened, verifC38sent{dest: dest, name: name, stream: s})
	return s, nil
}
func (v *verifC38streamer) NewStream(_ context.Context, dest boson.Address, _ p2p.Headers, _, _, stream string) (p2p.Stream, error) {
	return v.open(dest, stream)
}
func (v *verifC38streamer) NewRelayStream(context.Context, boson.Address, p2p.Headers, string, string, string, bool) (p2p.Stream, error) {
	panic("unused")
}
func (v *verifC38streamer) NewConnChainRelayStream(_ context.Context, dest boson.Address, _ p2p.Headers, _, _, stream string) (p2p.Stream, error) {
	return v.open(dest, stream)
}

func verifC38same(a, b []byte) bool {
	if len(a) != len(b) {
		return false
	}
	same := true
	for i := range a {
		if a[i] != b[i] {
			same = false
		}
	}
	return same
}

// verifC38sighting: what the harness saw the node do at one sighting
type verifC38sighting struct {
	origin    int // index into origins
	id        uint64
	at        int64 // clock (ns)
	delivered int   // publications of (origin, id) to the subscribers
	copies    int   // MulticastMsg (origin, id) written to multicast streams
}

// VerifC38_DedupWindow: see the comment at the top of the file.
func VerifC38_DedupWindow() {
	arrivals := zzverif.Param("arrivals", 2, 3)
	zzverif.Unwind(64)

	self := verifC38Addr(0x00, 0x01)
	gid := verifC38Addr(0xEE, 0x01)
	members := []boson.Address{verifC38Addr(0x80, 0x11), verifC38Addr(0x40, 0x22), verifC38Addr(0x41, 0x33)}
	origins := []boson.Address{verifC38Addr(0x20, 0x77), self} // a node further away in the group, this node

	verifC38clock = verifC38clock0
	cacheCtx = context.Background()
	cache = gcache.New()
	cache.SetAdapter(verifC38cache{st: &verifC38store{}})

	rt := &verifC38Route{peers: members, nb: []bool{true, true, false}}
	pub := &verifC38pub{}
	str := &verifC38streamer{}
	s := NewService(self, aurora.Model{}, nil, str, nil, rt, logging.New(verifC38Discard{}, 0), pub, Option{})
	g := s.newGroup(gid, model.ConfigNodeGroup{Name: "g", GType: model.GTypeJoin})
	g.connectedPeers.Add(members[0])
	g.connectedPeers.Add(members[1])
	g.keepPeers.Add(members[2])
	g.multicastSub = true

	var seen []verifC38sighting
	nd, ns := 0, 0 // entries of pub.delivered / str.opened already accounted for
	// account: reads what the node did since the last call
	account := func(origin int, id uint64) {
		sg := verifC38sighting{origin: origin, id: id, at: verifC38clock}
		for ; nd < len(pub.delivered); nd++ {
			m := pub.delivered[nd]
			if m.ID == id && verifC38same(m.Origin.Bytes(), origins[origin].Bytes()) {
				sg.delivered++
			}
		}
		perPeer := make([]int, len(members))
		for ; ns < len(str.opened); ns++ {
			o := str.opened[ns]
			if o.name != streamMulticast {
				continue
			}
			for _, w := range o.stream.Written(func(i int) proto.Message { return &pb.MulticastMsg{} }) {
				mm, ok := w.(*pb.MulticastMsg)
				if !ok || mm.Id != id || !verifC38same(mm.Origin, origins[origin].Bytes()) {
					continue
				}
				sg.copies++
				for j := range members {
					if verifC38same(o.dest.Bytes(), members[j].Bytes()) {
						perPeer[j]++
					}
				}
			}
		}
		zzverif.Assert(sg.delivered <= 1, "one sighting delivers a message to the subscribers at most once")
		for j := range members {
			zzverif.Assert(perPeer[j] <= 1, "one sighting sends at most one copy of a message to a peer")
		}
		seen = append(seen, sg)
	}

	// the node may originate a message itself: (self, 1)
	if zzverif.Bool("originates") {
		err := s.Multicast(&pb.MulticastMsg{Gid: gid.Bytes(), Data: []byte{0xA1}})
		zzverif.Assert(err == nil, "originating a message works")
		zzverif.Yield()
		account(1, 1)
	}

	for k := 0; k < arrivals; k++ {
		// time passes
		dt := zzverif.I64("clockAdvance")
		zzverif.Assume(dt >= 0 && dt <= int64(3*time.Minute))
		verifC38clock += dt

		origin := zzverif.Choose("msg.origin", len(origins))
		id := uint64(1 + zzverif.Choose("msg.id", 2))
		from := zzverif.Choose("msg.from", 2)
		// creation stamp (ms, the origin's clock)
		ct := zzverif.I64("msg.createTime")
		lo := verifC38clock0/1_000_000 - 180_000
		zzverif.Assume(ct >= lo && ct <= lo+720_000)
		msg := &pb.MulticastMsg{Id: id, CreateTime: ct, Origin: origins[origin].Bytes(), Gid: gid.Bytes(), Data: []byte{0xD0, byte(k)}}
		st := zzstream.New(msg)
		err := s.onMulticast(context.Background(), p2p.Peer{Address: members[from]}, st)
		zzverif.Assert(err == nil, "the multicast handler accepts a well-formed message")
		zzverif.Yield()
		account(origin, id)
	}

	// ---- the de-duplication window ----
	for i := range seen {
		for j := i + 1; j < len(seen); j++ {
			a, b := seen[i], seen[j]
			if a.origin != b.origin || a.id != b.id {
				continue
			}
			if b.at-a.at < int64(time.Minute) {
				zzverif.Assert(!(a.delivered > 0 && b.delivered > 0), "a message is delivered to the subscribers at most once within a minute")
				zzverif.Assert(!(a.copies > 0 && b.copies > 0), "a message is forwarded at most once within a minute")
			}
		}
	}
	zzverif.Reach("C38-dedup")
}
