package multicast

import (
	"context"
	"time"

	"github.com/gauss-project/aurorafs/pkg/aurora"
	"github.com/gauss-project/aurorafs/pkg/boson"
	"github.com/gauss-project/aurorafs/pkg/logging"
	"github.com/gauss-project/aurorafs/pkg/multicast/model"
	"github.com/gauss-project/aurorafs/pkg/routetab"
	"github.com/gauss-project/aurorafs/pkg/zzverif"
)

//verif:root pkg/boson pkg/topology/pslice
//verif:noop (*Group).notifyPeers
//verif:merge (pkg/boson.Address).Equal, (pkg/boson.Address).MemberOf

// verifC38Route: routetab stub; only IsNeighbor is used by Group.add. The
// neighbour relation is an arbitrary fixed predicate over the tracked peers
// during the step.
type verifC38Route struct {
	peers []boson.Address
	nb    []bool
}

func (r *verifC38Route) IsNeighbor(dest boson.Address) bool {
	has := false
	for i := range r.peers {
		if r.peers[i].Equal(dest) && r.nb[i] {
			has = true
		}
	}
	return has
}
func (r *verifC38Route) GetRoute(context.Context, boson.Address) ([]*routetab.Path, error) {
	panic("unused")
}
func (r *verifC38Route) FindRoute(context.Context, boson.Address, ...time.Duration) ([]*routetab.Path, error) {
	panic("unused")
}
func (r *verifC38Route) DelRoute(context.Context, boson.Address) error { panic("unused") }
func (r *verifC38Route) Connect(context.Context, boson.Address) error  { panic("unused") }
func (r *verifC38Route) GetTargetNeighbor(context.Context, boson.Address, int) ([]boson.Address, error) {
	panic("unused")
}
func (r *verifC38Route) FindUnderlay(context.Context, boson.Address, ...time.Duration) (*aurora.Address, error) {
	panic("unused")
}

type verifC38Discard struct{}

func (verifC38Discard) Write(p []byte) (int, error) { return len(p), nil }

func verifC38Addr(a, b byte) boson.Address {
	x := make([]byte, 32)
	x[0] = a
	x[1] = b
	x[31] = 0x5A
	return boson.NewAddress(x)
}

// verifC38Count: occurrences of p in a list (independent of pslice.Exists).
func verifC38Count(list []boson.Address, p boson.Address) int {
	n := 0
	pb := p.Bytes()
	for _, a := range list {
		ab := a.Bytes()
		same := len(ab) == len(pb)
		if same {
			for i := range ab {
				if ab[i] != pb[i] {
					same = false
				}
			}
		}
		if same {
			n++
		}
	}
	return n
}

const (
	verifC38None = iota
	verifC38Conn
	verifC38Kept
	verifC38Known
)

// VerifC38_MembershipStep: one-step induction for the group membership
// invariant. Pre-state: a real Group whose three pslices are filled according
// to an arbitrary assignment of each tracked peer to at most one list with
// connected => neighbour - or connected and NOT a neighbour any more ("stale":
// the direct link was lost after the peer was listed and no operation has
// addressed the peer since); then ONE operation with arbitrary arguments.
// Afterwards connected => neighbour must hold for every peer that was inside
// the invariant before and for the peer the operation addressed.
func VerifC38_MembershipStep() {
	np := zzverif.Param("peers", 2, 3)
	zzverif.Unwind(64)

	self := verifC38Addr(0x00, 0x01)
	gid := verifC38Addr(0xEE, 0x01)
	other := verifC38Addr(0xEE, 0x02) // a second group id
	all := []boson.Address{verifC38Addr(0x80, 0x11), verifC38Addr(0x40, 0x22), verifC38Addr(0x41, 0x33)}
	peers := all[:np]

	rt := &verifC38Route{peers: peers, nb: make([]bool, np)}
	s := NewService(self, aurora.Model{}, nil, nil, nil, rt, logging.New(verifC38Discard{}, 0), nil, Option{})
	g := s.newGroup(gid, model.ConfigNodeGroup{GType: model.GTypeJoin})

	// ---- pre-state -------------------------------------------------------
	pre := make([]int, np)
	// stale[i]: peer i is in the connected list but has stopped being a direct
	// neighbour since it was listed (the route table changes on its own; the
	// multicast service learns about it later). Such a peer is outside the
	// invariant until an operation addresses it; every operation that (re)lists
	// the peer has to restore "connected => neighbour" for it.
	stale := make([]bool, np)
	for i := range peers {
		rt.nb[i] = zzverif.Bool("neighbour")
		st := zzverif.Choose("list", 4)
		pre[i] = st
		switch st {
		case verifC38Conn:
			// invariant: connected => neighbour, unless the link was lost meanwhile
			stale[i] = !rt.nb[i]
			g.connectedPeers.Add(peers[i])
		case verifC38Kept:
			g.keepPeers.Add(peers[i])
		case verifC38Known:
			g.knownPeers.Add(peers[i])
		}
	}
	// the operation is drawn first: only pruneKnown needs a known list beyond
	// its cap; the other operations get one unrelated known peer
	op := zzverif.Choose("op", 4)
	// fillers: known-only peers distinct from the tracked ones
	nfill := 1
	if op == 2 && zzverif.Bool("knownOverfull") {
		nfill = maxKnownPeers
	}
	for i := 0; i < nfill; i++ {
		g.knownPeers.Add(verifC38Addr(0x10, byte(i+1)))
	}
	knownBefore := g.knownPeers.Length()

	// ---- one operation ---------------------------------------------------
	t := 0 // the peer the operation is about
	keep, intoKnown, joins, recorded := false, false, false, false
	switch op {
	case 0:
		t = zzverif.Choose("peer", np)
		keep = zzverif.Bool("keep")
		g.add(peers[t], keep)
	case 1:
		t = zzverif.Choose("peer", np)
		intoKnown = zzverif.Bool("intoKnown")
		g.remove(peers[t], intoKnown)
	case 2:
		g.pruneKnown()
	case 3:
		// updatePeerGroupsJoin: the peer announces the groups it has joined;
		// previously it was recorded as a member of g (if it is in a list)
		t = zzverif.Choose("peer", np)
		recorded = zzverif.Bool("recordedMember")
		if recorded {
			s.peerGroups[peers[t].String()] = []*Group{g}
		}
		joins = zzverif.Bool("announcesGroup")
		var gids []boson.Address
		if joins {
			gids = append(gids, gid)
		}
		if zzverif.Bool("announcesOtherGroup") {
			gids = append(gids, other)
		}
		s.updatePeerGroupsJoin(peers[t], gids)
	}

	// ---- post-state ------------------------------------------------------
	conn := g.connectedPeers.BinPeers(0)
	kept := g.keepPeers.BinPeers(0)
	known := g.knownPeers.BinPeers(0)
	for i := range peers {
		c := verifC38Count(conn, peers[i])
		k := verifC38Count(kept, peers[i])
		n := verifC38Count(known, peers[i])
		zzverif.Assert(c+k+n <= 1, "peer in at most one of connected/kept/known")
		// touched: the operation addresses this peer (add, remove, or an
		// announcement that concerns this group)
		touched := i == t && (op == 0 || op == 1 || (op == 3 && (joins || recorded)))
		if c > 0 && (!stale[i] || touched) {
			zzverif.Assert(rt.nb[i], "connected => neighbour")
		}
		now := verifC38None
		if c > 0 {
			now = verifC38Conn
		} else if k > 0 {
			now = verifC38Kept
		} else if n > 0 {
			now = verifC38Known
		}
		// documented moves
		switch {
		case op == 2:
			// pruneKnown only drops known peers
			zzverif.Assert(now == pre[i] || (pre[i] == verifC38Known && now == verifC38None), "pruneKnown only removes known peers")
		case i != t:
			zzverif.Assert(now == pre[i], "other peers keep their list")
		case op == 0 && !keep:
			zzverif.Assert(now == verifC38Known, "add(keep=false) => known")
		case op == 0 && keep && rt.nb[i]:
			zzverif.Assert(now == verifC38Conn, "add(keep=true) of a neighbour => connected")
		case op == 0 && keep && !rt.nb[i]:
			zzverif.Assert(now == verifC38Kept, "add(keep=true) of a non-neighbour => kept")
		case op == 1 && !intoKnown:
			zzverif.Assert(now == verifC38None, "remove(intoKnown=false) => in no list")
		case op == 1 && intoKnown:
			want := verifC38None
			if pre[i] != verifC38None {
				want = verifC38Known
			}
			zzverif.Assert(now == want, "remove(intoKnown=true) => known iff it was listed")
		case op == 3 && joins && rt.nb[i]:
			zzverif.Assert(now == verifC38Conn, "join announcement of a neighbour => connected")
		case op == 3 && joins && !rt.nb[i]:
			zzverif.Assert(now == verifC38Kept, "join announcement of a non-neighbour => kept")
		case op == 3 && !joins && recorded:
			zzverif.Assert(now == verifC38None, "leave announcement of a recorded member => in no list")
		case op == 3 && !joins && !recorded:
			zzverif.Assert(now == pre[i], "announcement about other groups leaves the peer alone")
		}
	}
	if op == 2 {
		// the fillers are known-only peers too
		after := len(known)
		if knownBefore > maxKnownPeers {
			zzverif.Assert(after <= maxKnownPeers, "pruneKnown brings the known list back to its cap")
		} else {
			zzverif.Assert(after == knownBefore, "pruneKnown leaves a list within the cap alone")
		}
		zzverif.Assert(len(conn)+len(kept) <= np, "pruneKnown does not add to connected/kept")
	}
	// fillers never leave the known list by add/remove of tracked peers
	if op != 2 {
		f := 0
		for i := 0; i < nfill; i++ {
			f += verifC38Count(known, verifC38Addr(0x10, byte(i+1)))
		}
		zzverif.Assert(f == nfill, "unrelated known peers untouched")
	}
	zzverif.Reach("C38-step")
}
