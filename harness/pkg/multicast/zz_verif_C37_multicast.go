package multicast

// C37 (h): "malformed peer messages never crash the node", multicast protocol
// (streams handshake, findGroup, multicast, notify, message).
//
// The five stream handlers and the two client reads (Handshake reads the peer's
// GIDs; discover -> doFindGroup -> getGroupNode reads a FindGroupResp and puts
// the reported addresses into the group's peer lists) run on arbitrary
// well-typed decoded messages, followed by local uses of the group state the
// message left behind. The only obligation is the absence of a panic.
//
// Replaced / stubbed (mirrored natively): the gogf cache adapter behind the
// package variable `cache` (SetIfNotExist answers arbitrarily: first sighting,
// duplicate or error), (*Group).notifyPeers (JSON + cache + timer: no-op),
// rpc.NewID (fixed id).

import (
	"context"
	"errors"
	"fmt"
	"io"
	"runtime/debug"
	"time"

	"github.com/gauss-project/aurorafs/pkg/aurora"
	"github.com/gauss-project/aurorafs/pkg/bitvector"
	"github.com/gauss-project/aurorafs/pkg/boson"
	"github.com/gauss-project/aurorafs/pkg/logging"
	"github.com/gauss-project/aurorafs/pkg/multicast/model"
	"github.com/gauss-project/aurorafs/pkg/multicast/pb"
	"github.com/gauss-project/aurorafs/pkg/p2p"
	"github.com/gauss-project/aurorafs/pkg/routetab"
	"github.com/gauss-project/aurorafs/pkg/rpc"
	"github.com/gauss-project/aurorafs/pkg/subscribe"
	"github.com/gauss-project/aurorafs/pkg/topology"
	"github.com/gauss-project/aurorafs/pkg/zzverif"
	"github.com/gauss-project/aurorafs/pkg/zzverif/zzstream"
	"github.com/gogf/gf/v2/os/gcache"
	"github.com/gogo/protobuf/proto"
)

//verif:root pkg/boson pkg/bitvector pkg/aurora pkg/topology/pslice pkg/multicast/pb pkg/zzverif/zzstream
//verif:noop (*Group).notifyPeers
//verif:replace-call github.com/gauss-project/aurorafs/pkg/rpc.NewID = verifC37newID
//verif:merge (pkg/boson.Address).Equal, (pkg/boson.Address).MemberOf, pkg/boson.Proximity

func verifC37newID() rpc.ID { return rpc.ID("verif-session") }

func verifC37err() error { return errors.New("verif: environment failure") }

type verifC37env struct {
	cacheOK, cacheErr bool
	neighbours        uint8 // bit i: peer i of verifC37peers() is a neighbour; bit 7: any other address
	streamFails       bool
	replies           []proto.Message // what a peer answers on a stream this node opens ...
	repliesOn         string          // ... with this stream name (other streams: EOF)
	replyErr          error
	writeErr          error
}

// quiet: from now on the network works (used before the "later local use" part)
func (e *verifC37env) quiet() {
	e.cacheOK, e.cacheErr, e.streamFails, e.writeErr, e.replies, e.replyErr = true, false, false, nil, nil, nil
}

// --- cache adapter: only SetIfNotExist is used by the executed code ---

type verifC37cache struct {
	gcache.Adapter
	e *verifC37env
}

func (c verifC37cache) SetIfNotExist(ctx context.Context, key interface{}, value interface{}, duration time.Duration) (bool, error) {
	if c.e.cacheErr {
		return false, verifC37err()
	}
	return c.e.cacheOK, nil
}

// subscriptions: dropped (every caller in this package ignores Publish's result)
type verifC37pub struct{}

func (verifC37pub) Subscribe(subscribe.INotifier, string, string, string) error { return nil }
func (verifC37pub) Publish(string, string, string, interface{}) error           { return nil }
func (verifC37pub) PublishArray(string, string, string, []interface{}) error    { return nil }

type verifC37route struct {
	routetab.RouteTab
	e *verifC37env
}

func (r verifC37route) IsNeighbor(dest boson.Address) bool {
	for i, p := range verifC37peers() {
		if p.Equal(dest) {
			return r.e.neighbours&(1<<uint(i)) != 0
		}
	}
	return r.e.neighbours&0x80 != 0
}
func (r verifC37route) Connect(context.Context, boson.Address) error { return nil }

type verifC37kad struct{ topology.Driver }

func (verifC37kad) RecordPeerLatency(boson.Address, time.Duration)            {}
func (verifC37kad) GetPeersWithLatencyEWMA(l []boson.Address) []boson.Address { return l }
func (verifC37kad) RefreshProtectPeer([]boson.Address)                        {}

type verifC37streamer struct{ e *verifC37env }

func (v verifC37streamer) open(name string) (p2p.Stream, error) {
	if v.e.streamFails {
		return nil, verifC37err()
	}
	var in []proto.Message
	if name == v.e.repliesOn {
		in = append(in, v.e.replies...)
	}
	s := zzstream.New(in...)
	s.InErr = v.e.replyErr
	s.WriteErr = v.e.writeErr
	return s, nil
}
func (v verifC37streamer) NewStream(_ context.Context, _ boson.Address, _ p2p.Headers, _, _, stream string) (p2p.Stream, error) {
	return v.open(stream)
}
func (v verifC37streamer) NewRelayStream(context.Context, boson.Address, p2p.Headers, string, string, string, bool) (p2p.Stream, error) {
	panic("unused")
}
func (v verifC37streamer) NewConnChainRelayStream(_ context.Context, _ boson.Address, _ p2p.Headers, _, _, stream string) (p2p.Stream, error) {
	return v.open(stream)
}

// 32-byte addresses (overlay addresses of connected peers are validated by the
// libp2p handshake; group ids of local groups are hashes).
func verifC37a32(a, b byte) boson.Address {
	x := make([]byte, 32)
	x[0], x[1], x[31] = a, b, 0x5a
	return boson.NewAddress(x)
}

// verifC37sym32: a 32-byte value sent by a peer with two arbitrary leading
// bytes (it can coincide with every 32-byte value of the harness, which differ
// in these two bytes); thorough tier: all 32 bytes arbitrary.
func verifC37sym32(name string) []byte {
	if zzverif.Param("full32", 0, 1) == 1 {
		return zzverif.BytesN(name, 32)
	}
	b := zzverif.BytesN(name, 2)
	return verifC37a32(b[0], b[1]).Bytes()
}
func verifC37self() boson.Address { return verifC37a32(0x00, 0x01) }
func verifC37peers() []boson.Address {
	return []boson.Address{verifC37a32(0x80, 0x11), verifC37a32(0x40, 0x22), verifC37a32(0x41, 0x33)}
}
func verifC37gidJ() boson.Address { return verifC37a32(0xee, 0x01) } // joined group
func verifC37gidK() boson.Address { return verifC37a32(0xee, 0x02) } // known group (peers only)

// verifC37state: what of the local state is explored (the rest is fixed)
type verifC37state struct {
	members    []int // candidate member configurations of the joined group: 0 no peers, 1 one connected, 2 one connected + one kept
	keepOpts   bool  // KeepConnectedPeers / KeepPingPeers 0 or 1 (else 0: discover has nothing to do)
	groupK     bool  // the known group exists or not (else: exists)
	neighbours bool  // which peers are neighbours is free (else: peer 0 and 2 are)
	network    bool  // stream creation / writes may fail (else they work)
}

// verifC37new builds the service and its groups.
func verifC37new(o verifC37state) (*Service, *verifC37env, *Group) {
	e := &verifC37env{neighbours: 0x05}
	e.cacheOK = zzverif.Bool("env.cacheFirstSighting")
	e.cacheErr = zzverif.Bool("env.cacheErr")
	if o.neighbours {
		e.neighbours = zzverif.U8("env.neighbours")
	}
	if o.network {
		e.streamFails = zzverif.Bool("env.streamFails")
		if zzverif.Bool("env.writeFails") {
			e.writeErr = verifC37err()
		}
	}
	// package variables (the package initialiser stops at gctx.New under gosym)
	cacheCtx = context.Background()
	cache = gcache.New()
	cache.SetAdapter(verifC37cache{e: e})

	bv, err := bitvector.NewFromBytes([]byte{zzverif.U8("local.nodeMode")}, 1)
	if err != nil {
		panic("verifC37: node mode")
	}
	s := NewService(verifC37self(), aurora.Model{Bv: bv}, nil, verifC37streamer{e}, verifC37kad{}, verifC37route{e: e},
		logging.New(io.Discard, 0), verifC37pub{}, Option{})
	ps := verifC37peers()
	opt := model.ConfigNodeGroup{Name: "j", GType: model.GTypeJoin}
	if o.keepOpts {
		opt.KeepConnectedPeers = zzverif.Choose("groupJ.keepConnected", 2)
		opt.KeepPingPeers = zzverif.Choose("groupJ.keepPing", 2)
	}
	gj := s.newGroup(verifC37gidJ(), opt)
	members := o.members[0]
	if len(o.members) > 1 {
		members = o.members[zzverif.Choose("groupJ.members", len(o.members))]
	}
	if members >= 1 {
		gj.connectedPeers.Add(ps[0])
	}
	if members >= 2 {
		gj.keepPeers.Add(ps[1])
	}
	gj.multicastSub = zzverif.Bool("groupJ.multicastSub")
	gj.groupMsgSub = zzverif.Bool("groupJ.groupMsgSub")
	if !o.groupK || zzverif.Bool("groupK.exists") {
		gk := s.newGroup(verifC37gidK(), model.ConfigNodeGroup{GType: model.GTypeKnown})
		gk.connectedPeers.Add(ps[2])
	}
	return s, e, gj
}

func verifC37try(f func()) bool {
	if zzverif.Symbolic() {
		return zzverif.MayPanic(f)
	}
	return zzverif.MayPanic(func() {
		defer func() {
			if r := recover(); r != nil {
				fmt.Printf("ZZVERIF-NOTE recovered panic: %v\n%s\n", r, debug.Stack())
				panic(r)
			}
		}()
		f()
	})
}

// verifC37id: a group id / address field sent by the peer: absent, the joined
// group, the known group, another 32-byte value, or 3 arbitrary bytes
// (thorough: 0..3). The first k kinds are used.
func verifC37id(name string, k int) []byte {
	switch zzverif.Choose(name+".kind", k) {
	case 0:
		return verifC37gidJ().Bytes()
	case 1:
		return verifC37sym32(name + ".b32")
	case 2:
		return nil
	case 3:
		return verifC37gidK().Bytes()
	}
	if zzverif.Param("shortLengths", 0, 1) == 1 {
		return zzverif.Bytes(name+".short", 3)
	}
	return zzverif.BytesN(name+".short", 3)
}

// verifC37ids: 0..2 ids; the second one from the first two kinds only.
func verifC37ids(name string) [][]byte {
	var out [][]byte
	n := zzverif.Choose(name+".n", 3)
	for i := 0; i < n; i++ {
		k := 5
		if i > 0 {
			k = 2
		}
		out = append(out, verifC37id(name, k))
	}
	return out
}

// verifC37addrList: 0..max addresses reported by a peer: a known peer, 3
// arbitrary bytes, 32 arbitrary bytes or this node (the first k kinds).
func verifC37addrList(name string, max, k int) [][]byte {
	var out [][]byte
	n := zzverif.Choose(name+".n", max+1)
	for i := 0; i < n; i++ {
		switch zzverif.Choose(name+".kind", k) {
		case 0:
			out = append(out, verifC37peers()[1].Bytes())
		case 1:
			out = append(out, zzverif.BytesN(name+".short", 3))
		case 2:
			out = append(out, verifC37sym32(name+".b32"))
		default:
			out = append(out, verifC37self().Bytes())
		}
	}
	return out
}

func verifC37peer(who int) p2p.Peer {
	bv, err := bitvector.NewFromBytes([]byte{1}, 1)
	if err != nil {
		panic("verifC37: peer mode")
	}
	return p2p.Peer{Address: verifC37peers()[who], Mode: aurora.Model{Bv: bv}}
}

// verifC37later: local uses of the group state after a message
func verifC37later(s *Service, e *verifC37env) {
	e.quiet()
	_ = s.Multicast(&pb.MulticastMsg{Gid: verifC37gidJ().Bytes(), Data: []byte{1}})
	_ = s.getSkipInGroupPeers(verifC37gidJ())
	_ = s.getGIDsByte()
	_ = s.getAllProtectPeers()
	s.gcGroup()
	for _, g := range s.getGroupAll() {
		_ = g.getPeers()
		g.pruneKnown()
	}
	zzverif.Yield()
}

// verifC37handler runs stream handler `spec` on a stream that carries msg (or,
// first, on a stream that ends before any message) and then the later uses.
func verifC37handler(s *Service, e *verifC37env, spec int, who int, msg proto.Message, label string, later bool) {
	in := []proto.Message{msg}
	empty := zzverif.Bool("noMessage")
	if empty {
		in = nil
		later = false
	}
	st := zzstream.New(in...)
	if empty && zzverif.Bool("readFails") {
		st.InErr = verifC37err()
	}
	if !empty && zzverif.Bool("answerFails") {
		st.WriteErr = verifC37err()
	}
	peer := verifC37peer(who)
	verifC37finish(s, e, func() { _ = s.Protocol().StreamSpecs[spec].Handler(context.Background(), peer, st) }, label, later)
}

func verifC37finish(s *Service, e *verifC37env, run func(), label string, later bool) {
	panicked := verifC37try(func() {
		run()
		zzverif.Yield()
	})
	zzverif.Assert(!panicked, label)
	if !panicked && later {
		l := verifC37try(func() { verifC37later(s, e) })
		zzverif.Assert(!l, "multicast: no panic in later local use of the group state")
	}
	zzverif.Reach("C37h-multicast")
}

// VerifC37_Multicast runs one of the scenarios below.
func VerifC37_Multicast() {
	ctx := context.Background()
	scen := zzverif.Choose("scenario", 7)
	switch scen {
	case 0: // stream "multicast": de-duplication, delivery to the subscriber, forwarding
		s, e, _ := verifC37new(verifC37state{members: []int{0, 2}, groupK: true, network: true})
		msg := &pb.MulticastMsg{Id: zzverif.U64("msg.id"), CreateTime: zzverif.I64("msg.createTime"),
			Gid: verifC37id("msg.gid", 5), Data: zzverif.Bytes("msg.data", 3)}
		switch zzverif.Choose("msg.origin.kind", 4) {
		case 0:
		case 1:
			msg.Origin = verifC37self().Bytes()
		case 2:
			msg.Origin = verifC37sym32("msg.origin.b32")
		case 3:
			msg.Origin = zzverif.BytesN("msg.origin.short", 3)
		}
		verifC37handler(s, e, 2, 0, msg, "MulticastMsg: no panic", false)
	case 1: // stream "notify": the peer joins / leaves groups
		s, e, _ := verifC37new(verifC37state{members: []int{0, 2}, neighbours: true})
		// status: join, leave, two values outside the enumeration
		msg := &pb.Notify{Status: []int32{1, 2, 0, -7}[zzverif.Choose("msg.status", 4)], Gids: verifC37ids("msg.gids")}
		verifC37handler(s, e, 3, zzverif.Choose("peer.who", 2), msg, "Notify: no panic", true)
	case 2: // stream "message"; after the message the sender closes or resets the stream
		s, e, gj := verifC37new(verifC37state{members: []int{1}})
		msg := &pb.GroupMsg{Gid: verifC37id("msg.gid", 5), Data: zzverif.Bytes("msg.data", 3),
			// SendOnly, SendStream, SendReceive, two values outside the enumeration
			// (concrete: a symbolic value makes the engine explore the
			// SendReceive branch lazily, see below)
			Type: []int32{0, 2, 1, 7, -1}[zzverif.Choose("msg.type", 5)],
			Err:  string(zzverif.BytesN("msg.err", 1))}
		// Type SendReceive on a subscribed joined group starts two session
		// goroutines that outlive the handler (one defers the builtin close, one
		// selects on a timer): not executable by the engine, see notes (native test)
		zzverif.Assume(!(msg.Type == int32(SendReceive) && gj.groupMsgSub && boson.NewAddress(msg.Gid).Equal(gj.gid)))
		verifC37handler(s, e, 4, 0, msg, "GroupMsg: no panic", false)
	case 3: // stream "findGroup": answers from the group lists or forwards and reads a FindGroupResp
		s, e, _ := verifC37new(verifC37state{members: []int{0, 2}, network: true})
		msg := &pb.FindGroupReq{Gid: verifC37id("msg.gid", 4), Limit: zzverif.I32("msg.limit"), Ttl: zzverif.I32("msg.ttl"),
			Paths: verifC37addrList("msg.paths", 1, 2)}
		switch zzverif.Choose("reply.kind", 3) {
		case 0:
		case 1:
			e.replyErr = verifC37err()
		case 2:
			e.replies, e.repliesOn = []proto.Message{&pb.FindGroupResp{Addresses: verifC37addrList("reply.addresses", 1, 4)}}, streamFindGroup
		}
		verifC37handler(s, e, 1, 0, msg, "FindGroupReq: no panic (including the forwarded request)", false)
	case 4: // stream "handshake", listening side
		s, e, _ := verifC37new(verifC37state{members: []int{0, 2}, neighbours: true})
		msg := &pb.GIDs{Gid: verifC37ids("msg.gids")}
		verifC37handler(s, e, 0, zzverif.Choose("peer.who", 2), msg, "GIDs (incoming handshake): no panic", true)
	case 5: // stream "handshake", dialling side: reads the peer's GIDs
		s, e, _ := verifC37new(verifC37state{members: []int{0, 2}, neighbours: true, network: true})
		switch zzverif.Choose("reply.kind", 3) {
		case 0:
		case 1:
			e.replyErr = verifC37err()
		case 2:
			e.replies, e.repliesOn = []proto.Message{&pb.GIDs{Gid: verifC37ids("reply.gids")}}, streamHandshake
		}
		peer := verifC37peers()[zzverif.Choose("peer.who", 2)]
		verifC37finish(s, e, func() { _ = s.Handshake(ctx, peer) }, "GIDs (outgoing handshake, client read): no panic", true)
	case 6: // discover: asks the group's peers for more members, reads a FindGroupResp
		s, e, gj := verifC37new(verifC37state{members: []int{0, 1, 2}, keepOpts: true, network: true})
		switch zzverif.Choose("reply.kind", 3) {
		case 0:
		case 1:
			e.replyErr = verifC37err()
		case 2:
			e.replies, e.repliesOn = []proto.Message{&pb.FindGroupResp{Addresses: verifC37addrList("reply.addresses", 2, 4)}}, streamFindGroup
		}
		verifC37finish(s, e, func() { s.discover(gj) }, "FindGroupResp (discover, client read): no panic", true)
	}
}
