package pinning

import (
	"context"
	"strings"

	"github.com/gauss-project/aurorafs/pkg/boson"
	"github.com/gauss-project/aurorafs/pkg/shed/driver"
	"github.com/gauss-project/aurorafs/pkg/storage"
	"github.com/gauss-project/aurorafs/pkg/zzverif"
)

//verif:root pkg/boson pkg/storage pkg/sctx std:github.com/hashicorp/go-multierror

// ---------------------------------------------------------------------------
// Environment stubs
// ---------------------------------------------------------------------------

// verifC15Storer: storage.Storer stub that keeps one pin counter per chunk of
// a fixed universe with the semantics of localstore.(*DB).set:
//
//	ModeSetPin   chunk not stored -> storage.ErrNotFound, otherwise counter++
//	ModeSetUnpin no pin entry (counter 0) -> driver.ErrNotFound (what
//	             pinIndex.Get returns), otherwise counter--
type verifC15Storer struct {
	chunks []boson.Address
	stored []bool
	cnt    []uint64
}

func (s *verifC15Storer) idx(a boson.Address) int {
	for i, c := range s.chunks {
		if c.Equal(a) {
			return i
		}
	}
	return -1
}

func (s *verifC15Storer) Set(ctx context.Context, mode storage.ModeSet, addrs ...boson.Address) error {
	for _, a := range addrs {
		i := s.idx(a)
		switch mode {
		case storage.ModeSetPin:
			if i < 0 || !s.stored[i] {
				return storage.ErrNotFound
			}
			s.cnt[i]++
		case storage.ModeSetUnpin:
			if i < 0 || s.cnt[i] == 0 {
				return driver.ErrNotFound
			}
			s.cnt[i]--
		default:
			panic("verifC15Storer: unused mode")
		}
	}
	return nil
}
func (s *verifC15Storer) Get(context.Context, storage.ModeGet, boson.Address) (boson.Chunk, error) {
	panic("unused")
}
func (s *verifC15Storer) Put(context.Context, storage.ModePut, ...boson.Chunk) ([]bool, error) {
	panic("unused")
}
func (s *verifC15Storer) GetMulti(context.Context, storage.ModeGet, ...boson.Address) ([]boson.Chunk, error) {
	panic("unused")
}
func (s *verifC15Storer) Has(context.Context, storage.ModeHas, boson.Address) (bool, error) {
	panic("unused")
}
func (s *verifC15Storer) HasMulti(context.Context, storage.ModeHas, ...boson.Address) ([]bool, error) {
	panic("unused")
}
func (s *verifC15Storer) Close() error { return nil }

// verifC15Trav: traversal.Traverser stub. Every reference has a fixed list of
// leaf slots (concrete chunk addresses, with repetitions and chunks shared
// with the other reference); a Boolean per slot decides whether the slot
// exists. The callback is called once per existing slot, in order, like
// joiner.IterateChunkAddresses does for every chunk occurrence.
type verifC15Trav struct {
	refs   []boson.Address
	leaves [][]boson.Address
	has    [][]bool
}

func (t *verifC15Trav) Traverse(ctx context.Context, ref boson.Address, fn boson.AddressIterFunc) error {
	for r := range t.refs {
		if !t.refs[r].Equal(ref) {
			continue
		}
		for j, leaf := range t.leaves[r] {
			if t.has[r][j] {
				if err := fn(leaf); err != nil {
					return err
				}
			}
		}
		return nil
	}
	return storage.ErrNotFound
}
func (t *verifC15Trav) GetPyramid(context.Context, boson.Address) (map[string][]byte, error) {
	panic("unused")
}
func (t *verifC15Trav) GetChunkHashes(context.Context, boson.Address, map[string][]byte) ([][][]byte, [][]byte, error) {
	panic("unused")
}

// verifC15State: typed state store. Values are boson.Address (the only type
// the pinning service stores); the JSON round trip of the real state stores is
// assumed exact, and Iterate hands out the JSON form of an address (a quoted
// hex string, see boson.Address.MarshalJSON). Entries for the known root keys
// exist from the start with a symbolic `present` flag (so that "already
// pinned" is part of the symbolic initial state).
type verifC15State struct {
	keys    []string
	vals    []boson.Address
	present []bool
}

func (s *verifC15State) find(key string) int {
	for i, k := range s.keys {
		if k == key {
			return i
		}
	}
	return -1
}
func (s *verifC15State) Get(key string, i interface{}) error {
	idx := s.find(key)
	if idx < 0 || !s.present[idx] {
		return storage.ErrNotFound
	}
	*(i.(*boson.Address)) = s.vals[idx]
	return nil
}
func (s *verifC15State) Put(key string, i interface{}) error {
	var v boson.Address
	switch x := i.(type) {
	case boson.Address:
		v = x
	case *boson.Address:
		v = *x
	default:
		panic("verifC15State: unexpected value type")
	}
	if idx := s.find(key); idx >= 0 {
		s.vals[idx] = v
		s.present[idx] = true
		return nil
	}
	s.keys = append(s.keys, key)
	s.vals = append(s.vals, v)
	s.present = append(s.present, true)
	return nil
}
func (s *verifC15State) Delete(key string) error {
	if idx := s.find(key); idx >= 0 {
		s.present[idx] = false
	}
	return nil
}
func (s *verifC15State) Iterate(prefix string, fn storage.StateIterFunc) error {
	for i, k := range s.keys {
		if !s.present[i] || !strings.HasPrefix(k, prefix) {
			continue
		}
		stop, err := fn([]byte(k), []byte("\""+s.vals[i].String()+"\""))
		if err != nil {
			return err
		}
		if stop {
			return nil
		}
	}
	return nil
}
func (s *verifC15State) DB() driver.BatchDB { return nil }
func (s *verifC15State) Close() error       { return nil }

// ---------------------------------------------------------------------------
// Harness
// ---------------------------------------------------------------------------

const (
	verifC15None  = 0 // no operation yet and not pinned initially
	verifC15Pin   = 1 // last operation was a pin (or: pinned in the initial state)
	verifC15Unpin = 2 // last operation was an unpin
)

// VerifC15_PinUnpinHistory: histories of pin / unpin on two references whose
// chunk lists overlap (shared chunks) and repeat chunks, from an initial state
// with arbitrary pin counters and arbitrary "already pinned" flags. After every
// operation HasPin and Pins are compared with "last operation was a pin".
func VerifC15_PinUnpinHistory() {
	steps := zzverif.Param("steps", 3, 4)
	wide := zzverif.Param("wide", 0, 1)
	zzverif.Unwind(64)

	// chunk universe: 0 = root chunk of A, 1 = root chunk of B, 2, 3 = data chunks
	chunks := []boson.Address{
		boson.NewAddress([]byte{0xa0, 0x01}),
		boson.NewAddress([]byte{0xb0, 0x02}),
		boson.NewAddress([]byte{0xc0, 0x03}),
		boson.NewAddress([]byte{0xc1, 0x04}),
	}
	nc := len(chunks)
	refs := []boson.Address{chunks[0], chunks[1]}
	// leaf slots per reference (index into chunks); slot 0 is the root chunk itself
	leafIdx := [][]int{{0, 2, 2, 3}, {1, 3, 2}}
	if wide == 1 {
		// A additionally may contain B's root (a manifest entry)
		leafIdx = [][]int{{0, 2, 2, 3, 1}, {1, 3, 2}}
	}

	tr := &verifC15Trav{refs: refs}
	for r := range leafIdx {
		var ls []boson.Address
		var hs []bool
		for j, ci := range leafIdx[r] {
			ls = append(ls, chunks[ci])
			if j == 0 {
				hs = append(hs, true)
			} else {
				hs = append(hs, zzverif.Bool("slot"))
			}
		}
		tr.leaves = append(tr.leaves, ls)
		tr.has = append(tr.has, hs)
	}
	// mult(r,c): how many times the traversal of r visits chunk c (independent
	// of the stub's loop: computed from the slot table)
	mult := func(r, c int) uint64 {
		var m uint64
		for j, ci := range leafIdx[r] {
			if ci == c && tr.has[r][j] {
				m++
			}
		}
		return m
	}

	st := &verifC15Storer{chunks: chunks}
	for range chunks {
		c := zzverif.U64("cnt")
		zzverif.Assume(c < 1<<32)
		st.cnt = append(st.cnt, c)
		st.stored = append(st.stored, true)
	}
	ss := &verifC15State{}
	var last [2]int
	var delta [2][]uint64
	for r := range refs {
		p := zzverif.Bool("pinned")
		ss.keys = append(ss.keys, "root-pin-"+refs[r].String())
		ss.vals = append(ss.vals, refs[r])
		ss.present = append(ss.present, p)
		if p {
			last[r] = verifC15Pin
		}
		for c := 0; c < nc; c++ {
			// an initial pin is assumed to have been made by one earlier
			// CreatePin(traverse) on the then unpinned reference
			d := uint64(0)
			if p {
				d = mult(r, c)
			}
			delta[r] = append(delta[r], d)
		}
	}
	// consistent initial state: counters account for the initially pinned references
	for c := 0; c < nc; c++ {
		zzverif.Assume(st.cnt[c] >= delta[0][c]+delta[1][c])
	}

	svc := NewService(st, ss, tr)
	ctx := context.Background()

	for s := 0; s < steps; s++ {
		r := zzverif.Choose("ref", 2)
		op := zzverif.Choose("op", 2)
		before := append([]uint64{}, st.cnt...)
		if op == 0 {
			err := svc.CreatePin(ctx, refs[r], true)
			zzverif.Assert(err == nil, "pin succeeds")
			if last[r] == verifC15Pin {
				// failing inputs: every pin of a reference whose root pin exists
				// (the root chunk itself is always visited again)
				zzverif.Region("C15/pin-of-pinned-reference", last[r] == verifC15Pin)
				same := true
				for c := 0; c < nc; c++ {
					if st.cnt[c] != before[c] {
						same = false
					}
				}
				zzverif.Assert(same, "repeated pin leaves every pin counter unchanged")
			} else {
				marked := true
				for c := 0; c < nc; c++ {
					if mult(r, c) > 0 && st.cnt[c] < 1 {
						marked = false
					}
					delta[r][c] = st.cnt[c] - before[c]
				}
				zzverif.Assert(marked, "pin marks every chunk of the reference as pinned")
			}
			last[r] = verifC15Pin
		} else {
			// an unpin of a reference that never was pinned is outside the statement
			zzverif.Assume(last[r] != verifC15None)
			err := svc.DeletePin(ctx, refs[r])
			if last[r] == verifC15Pin {
				zzverif.Assert(err == nil, "unpin of a pinned reference succeeds")
				restored := true
				for c := 0; c < nc; c++ {
					if st.cnt[c] != before[c]-delta[r][c] {
						restored = false
					}
				}
				zzverif.Assert(restored, "unpin returns every pin counter to its value before the pin")
			} else {
				// failing inputs: the reference is not pinned and one of its
				// chunks still has a pin count (from another pinned reference
				// or from before the history)
				counted := false
				for c := 0; c < nc; c++ {
					if mult(r, c) > 0 && before[c] > 0 {
						counted = true
					}
				}
				zzverif.Region("C15/unpin-of-unpinned-reference-with-counted-chunk", last[r] != verifC15Pin && counted)
				same := true
				for c := 0; c < nc; c++ {
					if st.cnt[c] != before[c] {
						same = false
					}
				}
				zzverif.Assert(same, "repeated unpin leaves every pin counter unchanged")
			}
			last[r] = verifC15Unpin
		}

		// listing: HasPin / Pins <=> last operation on the reference was a pin
		want := 0
		for q := range refs {
			has, err := svc.HasPin(refs[q])
			zzverif.Assert(err == nil, "HasPin succeeds")
			zzverif.Assert(has == (last[q] == verifC15Pin), "HasPin <=> last operation was a pin")
			if last[q] == verifC15Pin {
				want++
			}
		}
		pins, err := svc.Pins()
		zzverif.Assert(err == nil, "Pins succeeds")
		zzverif.Assert(len(pins) == want, "Pins lists exactly the pinned references")
		listedOK := true
		for q := range refs {
			in := false
			for _, p := range pins {
				if p.Equal(refs[q]) {
					in = true
				}
			}
			if in != (last[q] == verifC15Pin) {
				listedOK = false
			}
		}
		zzverif.Assert(listedOK, "Pins lists a reference <=> last operation was a pin")
	}
	zzverif.Reach("C15-history")
}
