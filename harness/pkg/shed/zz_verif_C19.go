package shed

import (
	"bytes"
	"errors"

	"github.com/gauss-project/aurorafs/pkg/shed/driver"
	"github.com/gauss-project/aurorafs/pkg/zzverif"
)

//verif:root pkg/shed/driver pkg/metrics

// ---------------------------------------------------------------------------
// Environment: a model key-value driver (ordinary Go, same behaviour natively)
// implementing driver.BatchDB: entries kept sorted by key (sorted insertion,
// the order is implemented, not assumed); cursors and snapshots work on a copy
// of the entries taken when they are created (like goleveldb); the cursor has
// goleveldb's positions "before first" (-1) and "after last" (len): Prev from
// after-last goes to the last entry, Next from before-first to the first one;
// Key()/Value() of an invalid cursor are nil. A batch is a write list applied
// in order by Commit. Index prefixes are handed out by CreateIndex from a list
// supplied by the harness (the leveldb driver hands out 2,3,4,... in creation
// order). InitSchema stores a schema record under key {0} like the leveldb
// driver.
// ---------------------------------------------------------------------------

type verifC19entry struct {
	k, v []byte
}

type verifC19db struct {
	ents  []verifC19entry
	ids   [][]byte // prefixes to hand out
	names []string // names of created indexes
}

func verifC19copy(b []byte) []byte {
	out := make([]byte, len(b))
	copy(out, b)
	return out
}

func verifC19find(ents []verifC19entry, key []byte) int {
	for i := range ents {
		if bytes.Equal(ents[i].k, key) {
			return i
		}
	}
	return -1
}

func (d *verifC19db) Get(key driver.Key) ([]byte, error) {
	i := verifC19find(d.ents, key.Data)
	if i < 0 {
		return nil, driver.ErrNotFound
	}
	return verifC19copy(d.ents[i].v), nil
}

func (d *verifC19db) Has(key driver.Key) (bool, error) {
	return verifC19find(d.ents, key.Data) >= 0, nil
}

func (d *verifC19db) Put(key driver.Key, value driver.Value) error {
	e := verifC19entry{k: verifC19copy(key.Data), v: verifC19copy(value.Data)}
	out := make([]verifC19entry, 0, len(d.ents)+1)
	placed := false
	for _, x := range d.ents {
		c := bytes.Compare(e.k, x.k)
		if c == 0 {
			// replace
			out = append(out, e)
			placed = true
			continue
		}
		if !placed && c < 0 {
			out = append(out, e)
			placed = true
		}
		out = append(out, x)
	}
	if !placed {
		out = append(out, e)
	}
	d.ents = out
	return nil
}

func (d *verifC19db) Delete(key driver.Key) error {
	out := make([]verifC19entry, 0, len(d.ents))
	for _, x := range d.ents {
		if !bytes.Equal(x.k, key.Data) {
			out = append(out, x)
		}
	}
	d.ents = out
	return nil
}

func (d *verifC19db) snapshot(q *driver.Query) []verifC19entry {
	out := make([]verifC19entry, 0, len(d.ents))
	for _, x := range d.ents {
		if q != nil && q.MatchPrefix && !bytes.HasPrefix(x.k, q.Prefix.Data) {
			continue
		}
		out = append(out, x)
	}
	return out
}

func (d *verifC19db) Search(q driver.Query) driver.Cursor {
	c := &verifC19cur{ents: d.snapshot(&q)}
	c.Seek(q.Prefix)
	return c
}

func (d *verifC19db) GetSnapshot() (driver.Snapshot, error) {
	return &verifC19snap{ents: d.snapshot(nil)}, nil
}

func (d *verifC19db) NewBatch() driver.Batching { return &verifC19batch{db: d} }
func (d *verifC19db) Close() error              { return nil }

func (d *verifC19db) DefaultFieldKey() []byte { return []byte{1} }
func (d *verifC19db) DefaultIndexKey() []byte { return []byte{2} }
func (d *verifC19db) InitSchema() error {
	return d.Put(driver.Key{Data: []byte{0}}, driver.Value{Data: []byte("schema")})
}
func (d *verifC19db) GetSchemaSpec() (driver.SchemaSpec, error)    { panic("unused") }
func (d *verifC19db) CreateField(driver.FieldSpec) ([]byte, error) { panic("unused") }
func (d *verifC19db) RenameIndex(string, string) (bool, error)     { panic("unused") }
func (d *verifC19db) CreateIndex(spec driver.IndexSpec) ([]byte, error) {
	for i, n := range d.names {
		if n == spec.Name {
			return d.ids[i], nil
		}
	}
	if len(d.names) >= len(d.ids) {
		return nil, errors.New("verifC19: no index prefix left")
	}
	d.names = append(d.names, spec.Name)
	return d.ids[len(d.names)-1], nil
}

type verifC19snap struct{ ents []verifC19entry }

func (s *verifC19snap) Get(key driver.Key) ([]byte, error) {
	i := verifC19find(s.ents, key.Data)
	if i < 0 {
		return nil, driver.ErrNotFound
	}
	return verifC19copy(s.ents[i].v), nil
}
func (s *verifC19snap) Has(key driver.Key) (bool, error) {
	return verifC19find(s.ents, key.Data) >= 0, nil
}
func (s *verifC19snap) Close() error { return nil }

type verifC19op struct {
	del  bool
	k, v []byte
}

type verifC19batch struct {
	db  *verifC19db
	ops []verifC19op
}

func (b *verifC19batch) Put(key driver.Key, value driver.Value) error {
	b.ops = append(b.ops, verifC19op{k: verifC19copy(key.Data), v: verifC19copy(value.Data)})
	return nil
}
func (b *verifC19batch) Delete(key driver.Key) error {
	b.ops = append(b.ops, verifC19op{del: true, k: verifC19copy(key.Data)})
	return nil
}
func (b *verifC19batch) Commit() error {
	for _, o := range b.ops {
		if o.del {
			_ = b.db.Delete(driver.Key{Data: o.k})
		} else {
			_ = b.db.Put(driver.Key{Data: o.k}, driver.Value{Data: o.v})
		}
	}
	b.ops = nil
	return nil
}

type verifC19cur struct {
	ents []verifC19entry
	pos  int // -1 before first .. len(ents) after last
}

func (c *verifC19cur) Valid() bool { return c.pos >= 0 && c.pos < len(c.ents) }
func (c *verifC19cur) Next() bool {
	if c.pos < len(c.ents) {
		c.pos++
	}
	return c.Valid()
}
func (c *verifC19cur) Prev() bool {
	if c.pos >= 0 {
		c.pos--
	}
	return c.Valid()
}
func (c *verifC19cur) Last() bool {
	c.pos = len(c.ents) - 1
	return c.Valid()
}
func (c *verifC19cur) Seek(key driver.Key) bool {
	c.pos = len(c.ents)
	for i := len(c.ents) - 1; i >= 0; i-- {
		if bytes.Compare(c.ents[i].k, key.Data) >= 0 {
			c.pos = i
		}
	}
	return c.Valid()
}
func (c *verifC19cur) Key() []byte {
	if !c.Valid() {
		return nil
	}
	return c.ents[c.pos].k
}
func (c *verifC19cur) Value() []byte {
	if !c.Valid() {
		return nil
	}
	return c.ents[c.pos].v
}
func (c *verifC19cur) Error() error { return nil }
func (c *verifC19cur) Close() error { return nil }

// ---------------------------------------------------------------------------
// Specification helpers (written without bytes.Compare/HasPrefix)
// ---------------------------------------------------------------------------

// a < b byte-wise lexicographically
func verifC19less(a, b []byte) bool {
	n := len(a)
	if len(b) < n {
		n = len(b)
	}
	for i := 0; i < n; i++ {
		if a[i] != b[i] {
			return a[i] < b[i]
		}
	}
	return len(a) < len(b)
}

func verifC19eq(a, b []byte) bool {
	if len(a) != len(b) {
		return false
	}
	for i := range a {
		if a[i] != b[i] {
			return false
		}
	}
	return true
}

func verifC19hasPrefix(k, p []byte) bool {
	if len(k) < len(p) {
		return false
	}
	for i := range p {
		if k[i] != p[i] {
			return false
		}
	}
	return true
}

func verifC19allFF(p []byte) bool {
	for _, x := range p {
		if x != 0xFF {
			return false
		}
	}
	return true
}

//verif:merge verifC19less, verifC19eq, verifC19hasPrefix, verifC19allFF, verifC19find

// VerifC19_BytesIncrement: for every prefix p (0..max bytes) bytesIncrement(p)
// is nil iff p consists of 0xFF bytes only (incl. the empty prefix); otherwise
// it is the least byte string greater than every string having prefix p:
//
//	(1) every s with prefix p is smaller than the result,
//	(2) every s with p <= s < result has prefix p.
//
// The argument is not modified.
func VerifC19_BytesIncrement() {
	maxP := zzverif.Param("maxprefix", 3, 5)
	zzverif.Unwind(64)
	p := zzverif.Bytes("p", maxP)
	s := zzverif.Bytes("s", maxP+1)
	orig := verifC19copy(p)

	r := bytesIncrement(p)

	zzverif.Assert(verifC19eq(p, orig), "argument unchanged")
	if verifC19allFF(p) {
		zzverif.Assert(r == nil, "all-0xFF prefix has no successor: nil")
	} else {
		zzverif.Assert(r != nil, "successor exists")
		if verifC19hasPrefix(s, p) {
			zzverif.Assert(verifC19less(s, r), "upper bound of all strings with the prefix")
		}
		if !verifC19less(s, p) && verifC19less(s, r) {
			zzverif.Assert(verifC19hasPrefix(s, p), "least upper bound")
		}
	}
	zzverif.Reach("C19-bytesIncrement")
}

// ---------------------------------------------------------------------------
// Reference: one unsorted association list per index
// ---------------------------------------------------------------------------

type verifC19ref struct {
	keys [][]byte
	vals [][]byte
}

func (r *verifC19ref) find(k []byte) int {
	for i := range r.keys {
		if verifC19eq(r.keys[i], k) {
			return i
		}
	}
	return -1
}

//verif:merge (*verifC19ref).find

func (r *verifC19ref) put(k, v []byte) {
	if i := r.find(k); i >= 0 {
		r.vals[i] = v
		return
	}
	r.keys = append(r.keys, k)
	r.vals = append(r.vals, v)
}

func (r *verifC19ref) del(k []byte) {
	i := r.find(k)
	if i < 0 {
		return
	}
	var nk, nv [][]byte
	for j := range r.keys {
		if j != i {
			nk = append(nk, r.keys[j])
			nv = append(nv, r.vals[j])
		}
	}
	r.keys, r.vals = nk, nv
}

// iteration specification
type verifC19spec struct {
	prefix  []byte
	start   []byte // nil: none
	skip    bool
	reverse bool
}

func (r *verifC19ref) in(j int, sp *verifC19spec) bool {
	k := r.keys[j]
	if !verifC19hasPrefix(k, sp.prefix) {
		return false
	}
	if sp.start != nil {
		if sp.reverse && verifC19less(sp.start, k) {
			return false
		}
		if !sp.reverse && verifC19less(k, sp.start) {
			return false
		}
		if sp.skip && verifC19eq(k, sp.start) {
			return false
		}
	}
	return true
}

func (r *verifC19ref) count(sp *verifC19spec) int {
	n := 0
	for j := range r.keys {
		if r.in(j, sp) {
			n++
		}
	}
	return n
}

// ranks computes, once per iteration, the expected set and the position of each
// expected key in the expected visiting sequence.
func (r *verifC19ref) ranks(sp *verifC19spec) (in []bool, rk []int) {
	in = make([]bool, len(r.keys))
	rk = make([]int, len(r.keys))
	for j := range r.keys {
		in[j] = r.in(j, sp)
	}
	for j := range r.keys {
		n := 0
		for m := range r.keys {
			if m == j || !in[m] {
				continue
			}
			if sp.reverse {
				if verifC19less(r.keys[j], r.keys[m]) {
					n++
				}
			} else if verifC19less(r.keys[m], r.keys[j]) {
				n++
			}
		}
		rk[j] = n
	}
	return in, rk
}

// byRank returns the index of the expected key at the given position (-1 if none).
func (r *verifC19ref) byRank(sp *verifC19spec, rank int) int {
	in, rk := r.ranks(sp)
	res := -1
	for j := range r.keys {
		if in[j] && rk[j] == rank {
			res = j
		}
	}
	return res
}

//verif:merge (*verifC19ref).in

func verifC19funcs() IndexFuncs {
	return IndexFuncs{
		EncodeKey:   func(i Item) ([]byte, error) { return i.Address, nil },
		DecodeKey:   func(k []byte) (Item, error) { return Item{Address: k}, nil },
		EncodeValue: func(i Item) ([]byte, error) { return i.Data, nil },
		DecodeValue: func(_ Item, v []byte) (Item, error) { return Item{Data: v}, nil },
	}
}

// verifC19concreteKeys: the key universe and the two index prefix bytes (2, 3) are fixed instead of symbolic (set by
// the history/batch harnesses in the quick tier, where the key content is not
// the point: the model driver then compares concrete bytes)
var verifC19concreteKeys bool

type verifC19rig struct {
	ida, idb byte
	drv      *verifC19db
	db       *DB
	idx      [2]Index
	ref      [2]*verifC19ref
	keys     [2][][]byte // key universe per index
}

// verifC19setup builds a DB over the model driver with two indexes whose
// prefix bytes are symbolic, distinct and in 2..0xFE (the leveldb driver hands
// out 2,3,..; 0xFF would need 254 indexes), and a key universe of nA / nB keys
// of lengths 1,2,2,3.. / 2,1,.. with symbolic bytes.
func verifC19setup(nA, nB int) *verifC19rig {
	ida := zzverif.U8("idA")
	idb := zzverif.U8("idB")
	zzverif.Assume(ida >= 2 && idb >= 2 && ida != idb && ida != 0xFF && idb != 0xFF)
	if verifC19concreteKeys {
		ida, idb = 2, 3 // what the leveldb driver hands out
	}
	// the prefixes have spare capacity (as a prefix decoded from the JSON schema has)
	pa := make([]byte, 1, 4)
	pa[0] = ida
	pb := make([]byte, 1, 4)
	pb[0] = idb
	r := &verifC19rig{ida: ida, idb: idb, drv: &verifC19db{ids: [][]byte{pa, pb}}}
	db, err := NewDBWrap(r.drv)
	zzverif.Assert(err == nil && db != nil, "NewDBWrap succeeds")
	r.db = db
	for i, name := range []string{"A", "B"} {
		ix, err := db.NewIndex(name, verifC19funcs())
		zzverif.Assert(err == nil, "NewIndex succeeds")
		r.idx[i] = ix
		r.ref[i] = &verifC19ref{}
	}
	lens := [2][]int{{1, 2, 2, 3, 3}, {2, 1, 2, 3}}
	n := [2]int{nA, nB}
	for x := 0; x < 2; x++ {
		for i := 0; i < n[x]; i++ {
			k := zzverif.BytesN("key", lens[x][i])
			if verifC19concreteKeys {
				// fixed, pairwise distinct keys (one a prefix of another)
				copy(k, []byte{0x05, 0x07, 0xFF}[:len(k)])
				if i >= 2 {
					k[len(k)-1] = 0xFE
				}
			}
			r.keys[x] = append(r.keys[x], k)
		}
	}
	return r
}

// fill puts every key of the universe (duplicates overwrite) through Index.Put
func (r *verifC19rig) fill() {
	for x := 0; x < 2; x++ {
		for _, k := range r.keys[x] {
			v := zzverif.BytesN("val", 1)
			err := r.idx[x].Put(Item{Address: k, Data: v})
			zzverif.Assert(err == nil, "Put succeeds")
			r.ref[x].put(k, v)
		}
	}
}

var verifC19errCallback = errors.New("verifC19: callback error")

// verifC19iterate runs Index.Iterate of index x with the given options and
// checks the visited sequence against the reference. withCallback: the
// callback answers stop / error symbolically.
func (r *verifC19rig) iterate(x int, sp *verifC19spec, withCallback bool) {
	opts := &IterateOptions{Prefix: sp.prefix, SkipStartFromItem: sp.skip, Reverse: sp.reverse}
	if sp.start != nil {
		opts.StartFrom = &Item{Address: sp.start}
	}
	var seenK, seenV [][]byte
	stopped, failed := false, false
	err := r.idx[x].Iterate(func(it Item) (bool, error) {
		zzverif.Assert(!stopped && !failed, "no callback after stop or error")
		seenK = append(seenK, verifC19copy(it.Address))
		seenV = append(seenV, verifC19copy(it.Data))
		if withCallback {
			// the two results are independent: the callback may ask to stop
			// and return an error at the same time (the error is still propagated)
			cbErr, cbStop := zzverif.Bool("cb-error"), zzverif.Bool("cb-stop")
			if cbStop {
				stopped = true
			}
			if cbErr {
				failed = true
				return cbStop, verifC19errCallback
			}
			return cbStop, nil
		}
		return false, nil
	}, opts)

	ref := r.ref[x]
	want := ref.count(sp)
	zzverif.Assert(len(seenK) <= want, "no more visits than expected keys")
	in, rk := ref.ranks(sp)
	allOK := true
	for i := range seenK {
		ok := false
		for j := range ref.keys {
			if in[j] && rk[j] == i {
				ok = verifC19eq(seenK[i], ref.keys[j]) && verifC19eq(seenV[i], ref.vals[j])
			}
		}
		allOK = allOK && ok
	}
	zzverif.Assert(allOK, "visits the index's own matching keys in order with their values")
	if !stopped && !failed {
		zzverif.Assert(len(seenK) == want, "visits all expected keys")
	}
	if failed {
		zzverif.Assert(errors.Is(err, verifC19errCallback), "callback error is propagated")
	} else {
		zzverif.Assert(err == nil, "Iterate succeeds")
	}
}

// verifC19options draws iteration options. Preconditions taken from the
// documentation/tests of IterateOptions: StartFrom (if given) carries the
// iteration prefix; SkipStartFromItem only together with StartFrom; in reverse
// order StartFrom is an item present in the index.
func (r *verifC19rig) options(x int) *verifC19spec {
	sp := &verifC19spec{}
	plen := zzverif.Choose("plen", 3)
	sp.prefix = zzverif.BytesN("prefix", plen)
	sp.reverse = zzverif.Bool("reverse")
	// all inputs are drawn unconditionally (same zzverif call sequence on every path)
	hasStart := zzverif.Bool("has-start")
	slen := zzverif.Choose("slen", 3) + 1
	start := zzverif.BytesN("start", slen)
	skip := zzverif.Bool("skip")
	if hasStart {
		sp.start = start
		sp.skip = skip
		zzverif.Assume(verifC19hasPrefix(sp.start, sp.prefix))
		if sp.reverse {
			zzverif.Assume(r.ref[x].find(sp.start) >= 0)
		}
	}
	return sp
}

// VerifC19_Iterate: two indexes filled with arbitrary keys; one Iterate on
// index A (the prefix bytes are symbolic, so A may sort before or after B).
// Variant 0: arbitrary options (prefix, start item, skip-start, reverse), the
// callback never stops: the visited sequence agrees with the reference.
// Variant 1: prefix/reverse only, the callback answers stop / error
// symbolically at every item: stop / error contract.
func VerifC19_Iterate() {
	nA := zzverif.Param("keysA", 2, 3)
	nB := zzverif.Param("keysB", 1, 1)
	zzverif.Unwind(64)
	r := verifC19setup(nA, nB)
	r.fill()
	if zzverif.Choose("variant", 2) == 0 {
		sp := r.options(0)
		r.iterate(0, sp, false)
	} else {
		sp := &verifC19spec{}
		plen := zzverif.Choose("plen", 2)
		sp.prefix = zzverif.BytesN("prefix", plen)
		sp.reverse = zzverif.Bool("reverse")
		r.iterate(0, sp, true)
	}
	zzverif.Reach("C19-iterate")
}

// VerifC19_FirstLast: First(prefix) / Last(prefix) return the smallest /
// greatest item of the index whose key has the prefix, ErrNotFound if none.
func VerifC19_FirstLast() {
	nA := zzverif.Param("keysA", 2, 3)
	nB := zzverif.Param("keysB", 1, 1)
	zzverif.Unwind(64)
	r := verifC19setup(nA, nB)
	r.fill()
	plen := zzverif.Choose("plen", 3)
	prefix := zzverif.BytesN("prefix", plen)
	ref := r.ref[0]

	fsp := &verifC19spec{prefix: prefix}
	lsp := &verifC19spec{prefix: prefix, reverse: true}
	n := ref.count(fsp)

	first, err := r.idx[0].First(prefix)
	if n == 0 {
		zzverif.Assert(errors.Is(err, driver.ErrNotFound), "First: ErrNotFound when no key has the prefix")
	} else {
		j := ref.byRank(fsp, 0)
		zzverif.Assert(err == nil, "First succeeds")
		zzverif.Assert(verifC19eq(first.Address, ref.keys[j]) && verifC19eq(first.Data, ref.vals[j]), "First = smallest matching key")
	}

	// regions of the known deviations of Last (see notes/C19.md)
	whole := len(prefix) == 0 || verifC19allFF(prefix)
	carry := len(prefix) > 0 && prefix[len(prefix)-1] == 0xFF && !whole
	// (index B is never empty here; it sorts after A iff idB > idA)
	zzverif.Region("C19/last-empty-or-allFF-prefix-and-later-index-nonempty", whole && r.idb > r.ida)
	zzverif.Region("C19/last-prefix-ending-FF", carry)
	last, err := r.idx[0].Last(prefix)
	if n == 0 {
		zzverif.Assert(errors.Is(err, driver.ErrNotFound), "Last: ErrNotFound when no key has the prefix")
	} else {
		j := ref.byRank(lsp, 0)
		ok := err == nil && verifC19eq(last.Address, ref.keys[j]) && verifC19eq(last.Data, ref.vals[j])
		// one label per region so that the two known deviations and the
		// regular case are reported separately
		switch {
		case whole:
			zzverif.Assert(ok, "Last(empty or all-0xFF prefix) = greatest matching key")
		case carry:
			zzverif.Assert(ok, "Last(prefix ending in 0xFF) = greatest matching key")
		default:
			zzverif.Assert(ok, "Last = greatest matching key")
		}
	}
	zzverif.Reach("C19-first-last")
}

// observe checks Get/Has of every key of the universe, Fill of all keys and a
// full forward iteration of both indexes against the reference.
func (r *verifC19rig) observe() {
	okGet, okHas, okFill := true, true, true
	for x := 0; x < 2; x++ {
		ix, ref := r.idx[x], r.ref[x]
		allPresent := true
		items := make([]Item, 0, len(r.keys[x]))
		for _, k := range r.keys[x] {
			out, err := ix.Get(Item{Address: k})
			has, herr := ix.Has(Item{Address: k})
			g := false
			if j := ref.find(k); j >= 0 {
				g = err == nil && verifC19eq(out.Data, ref.vals[j]) && verifC19eq(out.Address, k)
				okHas = okHas && herr == nil && has
			} else {
				g = errors.Is(err, driver.ErrNotFound)
				okHas = okHas && herr == nil && !has
				allPresent = false
			}
			okGet = okGet && g
			items = append(items, Item{Address: k})
		}
		err := ix.Fill(items)
		f := false
		if allPresent {
			f = err == nil
			for i, k := range r.keys[x] {
				j := ref.find(k)
				f = f && j >= 0 && verifC19eq(items[i].Data, ref.vals[j]) && verifC19eq(items[i].Address, k)
			}
		} else {
			f = errors.Is(err, driver.ErrNotFound)
		}
		okFill = okFill && f
		r.iterate(x, &verifC19spec{}, false)
	}
	zzverif.Assert(okGet, "Get: value written last / ErrNotFound for absent keys")
	zzverif.Assert(okHas, "Has agrees with the reference")
	zzverif.Assert(okFill, "Fill: stored values with key fields kept / ErrNotFound if a key is absent")
}

// verifC19shared: both indexes use the same key universe, so that equal
// encoded keys occur under both prefixes. concrete: fixed keys {05},{05 07}
// and index prefixes 2,3 instead of symbolic ones.
func verifC19shared(nk int, concrete bool) *verifC19rig {
	verifC19concreteKeys = concrete
	r := verifC19setup(nk, 0)
	verifC19concreteKeys = false
	r.keys[1] = r.keys[0]
	return r
}

// VerifC19_History: both indexes filled, then a history of direct Put/Delete
// on either index; after every step Get/Has/Fill/Iterate of both indexes agree
// with the reference (a write to one index never shows in the other).
// Variant 0: fixed keys and index prefixes (symbolic values), longer histories;
// variant 1: symbolic keys and index prefixes, shorter histories.
func VerifC19_History() {
	if zzverif.Choose("variant", 2) == 0 {
		verifC19history(true, zzverif.Param("steps-fixed-keys", 2, 3))
	} else {
		verifC19history(false, zzverif.Param("steps-symbolic-keys", 1, 2))
	}
	zzverif.Reach("C19-history")
}

func verifC19history(concrete bool, steps int) {
	nk := 2
	zzverif.Unwind(64)
	r := verifC19shared(nk, concrete)
	r.fill()
	r.observe()
	for s := 0; s < steps; s++ {
		x := zzverif.Choose("index", 2)
		k := r.keys[x][zzverif.Choose("k", nk)]
		v := zzverif.BytesN("val", 1)
		if zzverif.Choose("op", 2) == 0 {
			err := r.idx[x].Put(Item{Address: k, Data: v})
			zzverif.Assert(err == nil, "Put succeeds")
			r.ref[x].put(k, v)
		} else {
			err := r.idx[x].Delete(Item{Address: k})
			zzverif.Assert(err == nil, "Delete succeeds")
			r.ref[x].del(k)
		}
		r.observe()
	}
}

// VerifC19_Batch: PutInBatch/DeleteInBatch on both indexes are invisible until
// Commit and all visible (applied in order) afterwards.
// Variant 0: fixed keys and index prefixes (symbolic values), longer batches;
// variant 1: symbolic keys and index prefixes, shorter batches.
func VerifC19_Batch() {
	if zzverif.Choose("variant", 2) == 0 {
		verifC19batchRun(true, zzverif.Param("batch-ops-fixed-keys", 2, 3))
	} else {
		verifC19batchRun(false, zzverif.Param("batch-ops-symbolic-keys", 1, 2))
	}
	zzverif.Reach("C19-batch")
}

func verifC19batchRun(concrete bool, nops int) {
	nk := 2
	zzverif.Unwind(64)
	r := verifC19shared(nk, concrete)
	r.fill()
	// optionally remove one key directly first, so that batch puts of absent keys occur
	if zzverif.Bool("pre-delete") {
		err := r.idx[0].Delete(Item{Address: r.keys[0][0]})
		zzverif.Assert(err == nil, "Delete succeeds")
		r.ref[0].del(r.keys[0][0])
	}

	batch := r.db.NewBatch()
	type pend struct {
		x    int
		del  bool
		k, v []byte
	}
	var pending []pend
	for i := 0; i < nops; i++ {
		x := zzverif.Choose("index", 2)
		k := r.keys[x][zzverif.Choose("k", nk)]
		v := zzverif.BytesN("val", 1)
		if zzverif.Choose("op", 2) == 0 {
			err := r.idx[x].PutInBatch(batch, Item{Address: k, Data: v})
			zzverif.Assert(err == nil, "PutInBatch succeeds")
			pending = append(pending, pend{x: x, k: k, v: v})
		} else {
			err := r.idx[x].DeleteInBatch(batch, Item{Address: k})
			zzverif.Assert(err == nil, "DeleteInBatch succeeds")
			pending = append(pending, pend{x: x, del: true, k: k})
		}
	}
	// nothing visible before Commit (reference unchanged)
	r.observe()
	err := batch.Commit()
	zzverif.Assert(err == nil, "Commit succeeds")
	for _, p := range pending {
		if p.del {
			r.ref[p.x].del(p.k)
		} else {
			r.ref[p.x].put(p.k, p.v)
		}
	}
	// everything visible after Commit
	r.observe()
}

// VerifC19_PresetItems: Get and Fill with items on which, besides the key
// field, value and other non-key fields are ALREADY set (an item obtained
// earlier, from another index or before an overwrite): the result carries the
// value the index stores under the key (the reference map's value), whatever
// the passed item held in the fields that the index value encodes, and the key
// field is kept. Fields that the index value does not encode (timestamps,
// counters: the identity-style IndexFuncs store Data only) are set symbolically
// on the passed items but not asserted (the statement says nothing about them).
func VerifC19_PresetItems() {
	nk := 2
	zzverif.Unwind(64)
	r := verifC19shared(nk, zzverif.Param("preset-symbolic-keys", 0, 1) == 0)
	r.fill()
	// optionally remove one key first: lookups of absent keys with preset fields
	if zzverif.Bool("pre-delete") {
		err := r.idx[0].Delete(Item{Address: r.keys[0][0]})
		zzverif.Assert(err == nil, "Delete succeeds")
		r.ref[0].del(r.keys[0][0])
	}
	x := zzverif.Choose("index", 2)
	ix, ref := r.idx[x], r.ref[x]

	items := make([]Item, 0, nk)
	for _, k := range r.keys[x] {
		it := Item{
			Address:         k,
			AccessTimestamp: zzverif.I64("preset-access"),
			StoreTimestamp:  zzverif.I64("preset-store"),
			BinID:           zzverif.U64("preset-bin"),
			PinCounter:      zzverif.U64("preset-pin"),
		}
		// the value field: unset (nil), or set to an arbitrary (stale) value
		hasData, data := zzverif.Bool("preset-has-data"), zzverif.BytesN("preset-data", 1)
		if hasData {
			it.Data = data
		}
		items = append(items, it)
	}

	okGet, allPresent := true, true
	for i, k := range r.keys[x] {
		out, err := ix.Get(items[i])
		if j := ref.find(k); j >= 0 {
			okGet = okGet && err == nil && verifC19eq(out.Data, ref.vals[j]) && verifC19eq(out.Address, k)
		} else {
			okGet = okGet && errors.Is(err, driver.ErrNotFound)
			allPresent = false
		}
	}
	zzverif.Assert(okGet, "Get with preset item fields: stored value / ErrNotFound for absent keys")

	err := ix.Fill(items)
	if allPresent {
		f := err == nil
		for i, k := range r.keys[x] {
			j := ref.find(k)
			f = f && j >= 0 && verifC19eq(items[i].Data, ref.vals[j]) && verifC19eq(items[i].Address, k)
		}
		zzverif.Assert(f, "Fill with preset item fields: stored values with key fields kept")
	} else {
		zzverif.Assert(errors.Is(err, driver.ErrNotFound), "Fill with preset item fields: ErrNotFound if a key is absent")
	}
	zzverif.Reach("C19-preset-items")
}
