package mock

import (
	"bytes"
	"errors"

	"github.com/gauss-project/aurorafs/pkg/storage"
	"github.com/gauss-project/aurorafs/pkg/zzverif"
)

//verif:root pkg/storage

// Values take the BinaryMarshaler/BinaryUnmarshaler branch of Put/Get (the JSON
// branch is outside the claim).
type verifC18val struct{ b []byte }

func verifC18copy(b []byte) []byte {
	out := make([]byte, len(b))
	copy(out, b)
	return out
}

func (v *verifC18val) MarshalBinary() ([]byte, error) { return verifC18copy(v.b), nil }
func (v *verifC18val) UnmarshalBinary(d []byte) error { v.b = verifC18copy(d); return nil }

// reference: unsorted association list
type verifC18ref struct {
	keys []string
	vals [][]byte
}

func (r *verifC18ref) find(k string) int {
	for i := range r.keys {
		if r.keys[i] == k {
			return i
		}
	}
	return -1
}
func (r *verifC18ref) put(k string, v []byte) {
	if i := r.find(k); i >= 0 {
		r.vals[i] = v
		return
	}
	r.keys = append(r.keys, k)
	r.vals = append(r.vals, v)
}
func (r *verifC18ref) del(k string) {
	i := r.find(k)
	if i < 0 {
		return
	}
	var nk []string
	var nv [][]byte
	for j := range r.keys {
		if j != i {
			nk = append(nk, r.keys[j])
			nv = append(nv, r.vals[j])
		}
	}
	r.keys, r.vals = nk, nv
}

func verifC18hasPrefix(k, p string) bool {
	if len(k) < len(p) {
		return false
	}
	for i := 0; i < len(p); i++ {
		if k[i] != p[i] {
			return false
		}
	}
	return true
}

func (r *verifC18ref) matching(p string) int {
	n := 0
	for j := range r.keys {
		if verifC18hasPrefix(r.keys[j], p) {
			n++
		}
	}
	return n
}

//verif:merge verifC18hasPrefix, (*verifC18ref).find

var verifC18errCallback = errors.New("verifC18: callback error")

func verifC18keys(nk int) []string {
	lens := []int{1, 2, 2, 3, 3}
	ks := make([]string, nk)
	for i := 0; i < nk; i++ {
		ks[i] = string(zzverif.BytesN("key", lens[i]))
	}
	return ks
}

// VerifC18_MockHistory: histories of Put/Get/Delete/Iterate on the mock state
// store. The visiting ORDER of Iterate is not asserted (the mock ranges over a
// Go map; the engine iterates maps in insertion order, natively the order is
// random): only the set of visited keys and the stop/error contract.
// Values have 2 bytes (value lengths: VerifC18_MockValueLengths).
func VerifC18_MockHistory() {
	steps := zzverif.Param("steps", 3, 4)
	nk := zzverif.Param("keys", 3, 3)
	verifC18history(steps, nk, 2, 2)
	zzverif.Reach("C18-mock-history")
}

// VerifC18_MockValueLengths: shorter histories over fewer keys in which every
// Put writes a value of 0..2 bytes chosen per Put: a key holding a value of
// length 0 is a present key (Get succeeds and gives the empty value, Iterate
// visits it), and overwriting changes the length.
func VerifC18_MockValueLengths() {
	steps := zzverif.Param("steps", 2, 3)
	nk := zzverif.Param("keys", 2, 3)
	verifC18history(steps, nk, 0, 2)
	zzverif.Reach("C18-mock-value-lengths")
}

// verifC18history: `steps` operations over `nk` keys; every Put writes a value
// of minv..maxv bytes (the length is chosen per Put when minv < maxv).
func verifC18history(steps, nk, minv, maxv int) {
	zzverif.Unwind(64)

	var st storage.StateStorer = &store{store: make(map[string][]byte)}
	ref := &verifC18ref{}
	keys := verifC18keys(nk)

	for step := 0; step < steps; step++ {
		switch zzverif.Choose("op", 4) {
		case 0: // Put
			k := keys[zzverif.Choose("k", nk)]
			vlen := maxv
			if minv < maxv {
				vlen = minv + zzverif.Choose("vlen", maxv-minv+1)
			}
			v := zzverif.BytesN("val", vlen)
			err := st.Put(k, &verifC18val{b: v})
			zzverif.Assert(err == nil, "Put succeeds")
			ref.put(k, v)
		case 1: // Get
			k := keys[zzverif.Choose("k", nk)]
			var out verifC18val
			err := st.Get(k, &out)
			if i := ref.find(k); i >= 0 {
				zzverif.Assert(err == nil, "Get of present key succeeds")
				zzverif.Assert(bytes.Equal(out.b, ref.vals[i]), "Get returns the value written last")
			} else {
				zzverif.Assert(errors.Is(err, storage.ErrNotFound), "Get of absent key is ErrNotFound")
			}
		case 2: // Delete
			k := keys[zzverif.Choose("k", nk)]
			err := st.Delete(k)
			zzverif.Assert(err == nil, "Delete succeeds")
			ref.del(k)
		case 3: // Iterate
			verifC18iterate(st, ref)
		}
	}
}

func verifC18iterate(st storage.StateStorer, ref *verifC18ref) {
	plen := zzverif.Choose("plen", 3)
	prefix := string(zzverif.BytesN("prefix", plen))

	var seenK, seenV [][]byte
	stopped, failed := false, false
	err := st.Iterate(prefix, func(k, v []byte) (bool, error) {
		zzverif.Assert(!stopped && !failed, "no callback after stop or error")
		seenK = append(seenK, verifC18copy(k))
		seenV = append(seenV, verifC18copy(v))
		// the callback's two results are independent: it may ask to stop and
		// return an error at the same time (the error must still reach the caller)
		cbErr, cbStop := zzverif.Bool("cb-error"), zzverif.Bool("cb-stop")
		if cbStop {
			stopped = true
		}
		if cbErr {
			failed = true
			return cbStop, verifC18errCallback
		}
		return cbStop, nil
	})

	// visited = pairwise distinct matching keys with their values
	want := ref.matching(prefix)
	allOK, distinct := true, true
	for i := range seenK {
		k := string(seenK[i])
		j := ref.find(k)
		ok := j >= 0 && verifC18hasPrefix(k, prefix) && bytes.Equal(seenV[i], ref.vals[j])
		allOK = allOK && ok
		for i2 := 0; i2 < i; i2++ {
			distinct = distinct && !bytes.Equal(seenK[i2], seenK[i])
		}
	}
	zzverif.Assert(allOK, "visits only matching keys with their values")
	zzverif.Assert(distinct, "visits no key twice")
	if !stopped && !failed {
		zzverif.Assert(len(seenK) == want, "visits all matching keys")
	}
	if failed {
		zzverif.Assert(errors.Is(err, verifC18errCallback), "callback error is returned")
	} else {
		zzverif.Assert(err == nil, "no error without callback error")
	}
}
