package leveldb

import (
	"bytes"
	"errors"

	"github.com/gauss-project/aurorafs/pkg/shed/driver"
	"github.com/gauss-project/aurorafs/pkg/storage"
	"github.com/gauss-project/aurorafs/pkg/zzverif"
)

//verif:root pkg/storage pkg/shed/driver

// ---------------------------------------------------------------------------
// Environment: a model driver.BatchDB (ordinary Go, behaves the same natively).
// Entries are kept sorted by key (insertion keeps the order: the sortedness of
// the cursor is implemented, not assumed). A cursor works on a snapshot of the
// entries taken by Search, like a goleveldb iterator. Cursor Error()/Close()
// return the errors configured by the harness (symbolic nil / non-nil).
// ---------------------------------------------------------------------------

type verifC18entry struct {
	k, v []byte
}

type verifC18db struct {
	ents     []verifC18entry
	iterErr  error // returned by Cursor.Error()
	closeErr error // returned by Cursor.Close()
	opened   int
	closed   int
}

func verifC18copy(b []byte) []byte {
	out := make([]byte, len(b))
	copy(out, b)
	return out
}

func (d *verifC18db) find(key []byte) int {
	for i := range d.ents {
		if bytes.Equal(d.ents[i].k, key) {
			return i
		}
	}
	return -1
}

func (d *verifC18db) Get(key driver.Key) ([]byte, error) {
	i := d.find(key.Data)
	if i < 0 {
		return nil, driver.ErrNotFound
	}
	return verifC18copy(d.ents[i].v), nil
}

func (d *verifC18db) Has(key driver.Key) (bool, error) {
	return d.find(key.Data) >= 0, nil
}

func (d *verifC18db) Put(key driver.Key, value driver.Value) error {
	e := verifC18entry{k: verifC18copy(key.Data), v: verifC18copy(value.Data)}
	if i := d.find(key.Data); i >= 0 {
		d.ents[i] = e
		return nil
	}
	// sorted insert: position = number of keys smaller than the new key
	out := make([]verifC18entry, 0, len(d.ents)+1)
	placed := false
	for _, x := range d.ents {
		if !placed && bytes.Compare(e.k, x.k) < 0 {
			out = append(out, e)
			placed = true
		}
		out = append(out, x)
	}
	if !placed {
		out = append(out, e)
	}
	d.ents = out
	return nil
}

func (d *verifC18db) Delete(key driver.Key) error {
	i := d.find(key.Data)
	if i < 0 {
		return nil
	}
	out := make([]verifC18entry, 0, len(d.ents))
	for j, x := range d.ents {
		if j != i {
			out = append(out, x)
		}
	}
	d.ents = out
	return nil
}

func (d *verifC18db) Search(q driver.Query) driver.Cursor {
	d.opened++
	c := &verifC18cur{db: d}
	// snapshot restricted to the prefix range (MatchPrefix) and positioned at
	// the first key >= q.Prefix.Data
	for _, x := range d.ents {
		if q.MatchPrefix && !bytes.HasPrefix(x.k, q.Prefix.Data) {
			continue
		}
		c.ents = append(c.ents, x)
	}
	c.pos = len(c.ents)
	for i := len(c.ents) - 1; i >= 0; i-- {
		if bytes.Compare(c.ents[i].k, q.Prefix.Data) >= 0 {
			c.pos = i
		}
	}
	return c
}

func (d *verifC18db) NewBatch() driver.Batching             { panic("unused") }
func (d *verifC18db) GetSnapshot() (driver.Snapshot, error) { panic("unused") }
func (d *verifC18db) Close() error                          { return nil }
func (d *verifC18db) DefaultFieldKey() []byte               { panic("unused") }
func (d *verifC18db) DefaultIndexKey() []byte               { panic("unused") }
func (d *verifC18db) InitSchema() error                     { panic("unused") }
func (d *verifC18db) GetSchemaSpec() (driver.SchemaSpec, error) {
	panic("unused")
}
func (d *verifC18db) CreateField(driver.FieldSpec) ([]byte, error) { panic("unused") }
func (d *verifC18db) CreateIndex(driver.IndexSpec) ([]byte, error) { panic("unused") }
func (d *verifC18db) RenameIndex(string, string) (bool, error)     { panic("unused") }

type verifC18cur struct {
	db   *verifC18db
	ents []verifC18entry
	pos  int
}

func (c *verifC18cur) Valid() bool { return c.pos >= 0 && c.pos < len(c.ents) }
func (c *verifC18cur) Next() bool {
	if c.pos < len(c.ents) {
		c.pos++
	}
	return c.Valid()
}
func (c *verifC18cur) Key() []byte {
	if !c.Valid() {
		return nil
	}
	return c.ents[c.pos].k
}
func (c *verifC18cur) Value() []byte {
	if !c.Valid() {
		return nil
	}
	return c.ents[c.pos].v
}
func (c *verifC18cur) Error() error         { return c.db.iterErr }
func (c *verifC18cur) Close() error         { c.db.closed++; return c.db.closeErr }
func (c *verifC18cur) Prev() bool           { panic("unused") }
func (c *verifC18cur) Last() bool           { panic("unused") }
func (c *verifC18cur) Seek(driver.Key) bool { panic("unused") }

// ---------------------------------------------------------------------------
// Values: a type implementing encoding.BinaryMarshaler / BinaryUnmarshaler, so
// that Put/Get take their binary branch (the JSON branch is outside the claim).
// ---------------------------------------------------------------------------

type verifC18val struct{ b []byte }

func (v *verifC18val) MarshalBinary() ([]byte, error) { return verifC18copy(v.b), nil }
func (v *verifC18val) UnmarshalBinary(d []byte) error { v.b = verifC18copy(d); return nil }

// ---------------------------------------------------------------------------
// Reference: unsorted association list (independent of the driver model).
// ---------------------------------------------------------------------------

type verifC18ref struct {
	keys []string
	vals [][]byte
}

func (r *verifC18ref) find(k string) int {
	for i := range r.keys {
		if r.keys[i] == k {
			return i
		}
	}
	return -1
}
func (r *verifC18ref) put(k string, v []byte) {
	if i := r.find(k); i >= 0 {
		r.vals[i] = v
		return
	}
	r.keys = append(r.keys, k)
	r.vals = append(r.vals, v)
}
func (r *verifC18ref) del(k string) {
	i := r.find(k)
	if i < 0 {
		return
	}
	var nk []string
	var nv [][]byte
	for j := range r.keys {
		if j != i {
			nk = append(nk, r.keys[j])
			nv = append(nv, r.vals[j])
		}
	}
	r.keys, r.vals = nk, nv
}

// verifC18less: a < b in byte-wise lexicographic order (written without
// bytes.Compare / string comparison: first differing position decides).
func verifC18less(a, b string) bool {
	n := len(a)
	if len(b) < n {
		n = len(b)
	}
	for i := 0; i < n; i++ {
		if a[i] != b[i] {
			return a[i] < b[i]
		}
	}
	return len(a) < len(b)
}

func verifC18hasPrefix(k, p string) bool {
	if len(k) < len(p) {
		return false
	}
	for i := 0; i < len(p); i++ {
		if k[i] != p[i] {
			return false
		}
	}
	return true
}

// rank of key i among the reference keys matching prefix p = number of
// matching keys strictly smaller; the expected visit sequence is the matching
// keys ordered by rank (keys of the reference are pairwise distinct).
func (r *verifC18ref) rank(i int, p string) int {
	n := 0
	for j := range r.keys {
		if j != i && verifC18hasPrefix(r.keys[j], p) && verifC18less(r.keys[j], r.keys[i]) {
			n++
		}
	}
	return n
}

func (r *verifC18ref) matching(p string) int {
	n := 0
	for j := range r.keys {
		if verifC18hasPrefix(r.keys[j], p) {
			n++
		}
	}
	return n
}

// ranks computes, once per iteration, which reference keys match the prefix
// and the rank of each matching key.
func (r *verifC18ref) ranks(p string) (in []bool, rk []int) {
	in = make([]bool, len(r.keys))
	rk = make([]int, len(r.keys))
	for j := range r.keys {
		in[j] = verifC18hasPrefix(r.keys[j], p)
	}
	for j := range r.keys {
		n := 0
		for m := range r.keys {
			if m != j && in[m] && verifC18less(r.keys[m], r.keys[j]) {
				n++
			}
		}
		rk[j] = n
	}
	return in, rk
}

//verif:merge verifC18less, verifC18hasPrefix, (*verifC18ref).find, (*verifC18db).find

var (
	verifC18errCallback = errors.New("verifC18: callback error")
	verifC18errCursor   = errors.New("verifC18: cursor error")
	verifC18errClose    = errors.New("verifC18: close error")
)

// key universe: nk keys of lengths 1,2,2,3,.. with symbolic bytes (so that keys
// may be equal, prefixes of each other, or unrelated).
func verifC18keys(nk int) []string {
	lens := []int{1, 2, 2, 3, 3}
	ks := make([]string, nk)
	for i := 0; i < nk; i++ {
		ks[i] = string(zzverif.BytesN("key", lens[i]))
	}
	return ks
}

// VerifC18_LeveldbHistory: histories of Put/Get/Delete/Iterate on the real
// statestore/leveldb store over the model driver (driver errors: none).
// Values have 2 bytes (value lengths: VerifC18_LeveldbValueLengths).
func VerifC18_LeveldbHistory() {
	steps := zzverif.Param("steps", 3, 3)
	nk := zzverif.Param("keys", 3, 4)
	if zzverif.Param("long-variant", 0, 1) == 1 && zzverif.Choose("variant", 2) == 1 {
		// thorough tier only: longer histories over fewer keys
		steps, nk = 4, 2
	}
	verifC18history(steps, nk, 2, 2)
	zzverif.Reach("C18-leveldb-history")
}

// VerifC18_LeveldbValueLengths: shorter histories over fewer keys in which
// every Put writes a value of 0..2 bytes chosen per Put: a key holding a value
// of length 0 is a present key (Get succeeds and gives the empty value, Iterate
// visits it), and overwriting changes the length.
func VerifC18_LeveldbValueLengths() {
	steps := zzverif.Param("steps", 2, 3)
	nk := zzverif.Param("keys", 2, 3)
	verifC18history(steps, nk, 0, 2)
	zzverif.Reach("C18-leveldb-value-lengths")
}

// verifC18history: `steps` operations over `nk` keys; every Put writes a value
// of minv..maxv bytes (the length is chosen per Put when minv < maxv).
func verifC18history(steps, nk, minv, maxv int) {
	zzverif.Unwind(64)

	db := &verifC18db{}
	s := &store{db: db}
	var st storage.StateStorer = s
	ref := &verifC18ref{}
	keys := verifC18keys(nk)

	for step := 0; step < steps; step++ {
		switch zzverif.Choose("op", 4) {
		case 0: // Put
			k := keys[zzverif.Choose("k", nk)]
			vlen := maxv
			if minv < maxv {
				vlen = minv + zzverif.Choose("vlen", maxv-minv+1)
			}
			v := zzverif.BytesN("val", vlen)
			err := st.Put(k, &verifC18val{b: v})
			zzverif.Assert(err == nil, "Put succeeds")
			ref.put(k, v)
		case 1: // Get
			k := keys[zzverif.Choose("k", nk)]
			var out verifC18val
			err := st.Get(k, &out)
			if i := ref.find(k); i >= 0 {
				zzverif.Assert(err == nil, "Get of present key succeeds")
				zzverif.Assert(bytes.Equal(out.b, ref.vals[i]), "Get returns the value written last")
			} else {
				zzverif.Assert(errors.Is(err, storage.ErrNotFound), "Get of absent key is ErrNotFound")
			}
		case 2: // Delete
			k := keys[zzverif.Choose("k", nk)]
			err := st.Delete(k)
			zzverif.Assert(err == nil, "Delete succeeds")
			ref.del(k)
		case 3: // Iterate
			verifC18iterate(st, db, ref, false)
		}
	}
}

// VerifC18_LeveldbIterate: one Iterate over a store filled with arbitrary keys;
// the cursor's Error()/Close() results are symbolic (nil or an error).
func VerifC18_LeveldbIterate() {
	nk := zzverif.Param("keys", 3, 4)
	zzverif.Unwind(64)
	db := &verifC18db{}
	s := &store{db: db}
	var st storage.StateStorer = s
	ref := &verifC18ref{}
	keys := verifC18keys(nk)
	for i := 0; i < nk; i++ {
		v := zzverif.BytesN("val", 1)
		err := st.Put(keys[i], &verifC18val{b: v})
		zzverif.Assert(err == nil, "Put succeeds")
		ref.put(keys[i], v)
	}
	verifC18iterate(st, db, ref, true)
	zzverif.Reach("C18-leveldb-iterate")
}

// verifC18iterate runs one Iterate with a symbolic prefix and a callback that
// answers (stop, err) symbolically per entry, and checks the contract.
func verifC18iterate(st storage.StateStorer, db *verifC18db, ref *verifC18ref, driverErrors bool) {
	plen := zzverif.Choose("plen", 3)
	prefix := string(zzverif.BytesN("prefix", plen))
	db.iterErr, db.closeErr = nil, nil
	if driverErrors {
		if zzverif.Bool("cursor-error") {
			db.iterErr = verifC18errCursor
		}
		if zzverif.Bool("close-error") {
			db.closeErr = verifC18errClose
		}
	}

	var seenK, seenV [][]byte
	stopped, failed := false, false
	err := st.Iterate(prefix, func(k, v []byte) (bool, error) {
		zzverif.Assert(!stopped && !failed, "no callback after stop or error")
		seenK = append(seenK, verifC18copy(k))
		seenV = append(seenV, verifC18copy(v))
		// the callback's two results are independent: it may ask to stop and
		// return an error at the same time (the error must still reach the caller)
		cbErr, cbStop := zzverif.Bool("cb-error"), zzverif.Bool("cb-stop")
		if cbStop {
			stopped = true
		}
		if cbErr {
			failed = true
			return cbStop, verifC18errCallback
		}
		return cbStop, nil
	})

	// visited sequence = the matching keys in ascending byte order, cut where
	// the callback asked to stop / failed
	want := ref.matching(prefix)
	zzverif.Assert(len(seenK) <= want, "no more visits than matching keys")
	in, rk := ref.ranks(prefix)
	allOK := true
	for i := range seenK {
		ok := false
		for j := range ref.keys {
			if in[j] && rk[j] == i {
				ok = string(seenK[i]) == ref.keys[j] && bytes.Equal(seenV[i], ref.vals[j])
			}
		}
		allOK = allOK && ok
	}
	zzverif.Assert(allOK, "visits matching keys in ascending order with their values")
	if !stopped && !failed {
		zzverif.Assert(len(seenK) == want, "visits all matching keys")
	}

	driverOK := db.iterErr == nil && db.closeErr == nil
	// known finding (notes/C18.md): the deferred `err = iter.Close()` replaces the
	// callback's error; the callback error is lost whenever Close returns nil
	zzverif.Region("C18/callback-error-and-close-nil", failed && db.closeErr == nil)
	if failed {
		if driverOK {
			zzverif.Assert(errors.Is(err, verifC18errCallback), "callback error is returned")
		} else {
			// the statement does not say which error wins when the driver
			// fails as well: only "not success" is demanded
			zzverif.Assert(err != nil, "callback error is not turned into success")
		}
	} else if driverOK {
		zzverif.Assert(err == nil, "no error without callback/driver error")
	}
}
