package bmt

import (
	"bytes"
	"encoding/binary"
	"hash"
	"sync"

	"github.com/gauss-project/aurorafs/pkg/zzverif"
	"golang.org/x/crypto/sha3"
)

//verif:root pkg/boson
//verif:option hash-no-injectivity

// C03: BMT chunk hash = K(span || binary-Merkle-root(zero-padded data)).
//
// The REAL NewConf/NewPool/Get/Put and Hasher (SetHeader, SetHeaderInt64, Write,
// Hash, Reset, processSection, writeNode, writeFinalNode, toggle) run with the
// real constructor parameter segmentCount in {2,4} (thorough: also 8, partly 16) and a pool
// of ONE tree. The base hash is the production constructor
// sha3.NewLegacyKeccak256 (an uninterpreted function under gosym, real keccak
// natively). The oracle below never looks at the tree: it zero-pads the data and
// hashes recursively with the same constructor.

func verifC03K(parts ...[]byte) []byte {
	h := sha3.NewLegacyKeccak256()
	for _, p := range parts {
		_, _ = h.Write(p)
	}
	return h.Sum(nil)
}

// verifC03root: Merkle root over b (length 64 * 2^k): a 64-byte section is
// hashed directly, otherwise the two half roots are hashed together.
func verifC03root(b []byte) []byte {
	if len(b) == 64 {
		return verifC03K(b)
	}
	half := len(b) / 2
	return verifC03K(verifC03root(b[:half]), verifC03root(b[half:]))
}

// verifC03ref = K(span || root(data truncated to capacity and zero-padded)).
func verifC03ref(capacity int, span, data []byte) []byte {
	padded := make([]byte, capacity)
	copy(padded, data)
	return verifC03K(span, verifC03root(padded))
}

// segmentCount: quick 2,4; thorough 2,4,8 (and 16 where deep is set)
func verifC03segCount(deep bool) int {
	k := zzverif.Param("segcounts", 2, 3)
	if deep {
		k = zzverif.Param("segcounts-deep", 2, 4)
	}
	return 2 << uint(zzverif.Choose("segcount", k))
}

// boundary-dense points in [0, capacity+3]
func verifC03pts(capacity int) []int {
	p := []int{0, 1, 31, 32, 33}
	for m := 64; m <= capacity; m += 64 {
		p = append(p, m-1, m, m+1)
	}
	return append(p, capacity+3)
}

// choose a point <= hi (the candidates are the boundary points below hi, and hi)
func verifC03point(name string, capacity, hi int) int {
	var c []int
	for _, v := range verifC03pts(capacity) {
		if v < hi {
			c = append(c, v)
		}
	}
	c = append(c, hi)
	return c[zzverif.Choose(name, len(c))]
}

func verifC03newPool(segCount int) *Pool {
	return NewPool(NewConf(func() hash.Hash { return sha3.NewLegacyKeccak256() }, segCount, 1))
}

func verifC03header(h *Hasher) []byte {
	span := zzverif.BytesN("span", 8)
	if zzverif.Bool("header-as-int64") {
		h.SetHeaderInt64(int64(binary.LittleEndian.Uint64(span)))
	} else {
		h.SetHeader(span)
	}
	return span
}

// write data in the given pieces, checking Write's result against min(len, capacity-size)
func verifC03write(h *Hasher, capacity int, size *int, piece []byte) {
	n, err := h.Write(piece)
	want := len(piece)
	if want > capacity-*size {
		want = capacity - *size
	}
	zzverif.Assert(err == nil && n == want, "Write returns min(len, capacity - size)")
	zzverif.Observe("written", n)
	*size += want
}

// VerifC03_AllLengths: EVERY data length 0..capacity+3 in one Write on a fresh tree.
func VerifC03_AllLengths() {
	sc := verifC03segCount(true)
	capacity := sc * 32
	pool := verifC03newPool(sc)
	h := pool.Get()
	zzverif.Assert(h.Capacity() == capacity, "capacity = segmentCount * 32")
	span := verifC03header(h)
	L := zzverif.Choose("len", capacity+4)
	data := zzverif.BytesN("data", L)
	size := 0
	verifC03write(h, capacity, &size, data)
	got, err := h.Hash(nil)
	zzverif.Assert(err == nil && bytes.Equal(got, verifC03ref(capacity, span, data)), "hash = K(span || root(zero-padded data))")
	pool.Put(h)
	zzverif.Reach("C03-all-lengths")
}

// VerifC03_AllCuts: EVERY length 0..capacity+3 written in two pieces cut at
// EVERY position (segmentCount 2; thorough: 2 and 4).
func VerifC03_AllCuts() {
	sc := 2 << uint(zzverif.Choose("segcount", zzverif.Param("segcounts-cuts", 1, 2)))
	capacity := sc * 32
	pool := verifC03newPool(sc)
	h := pool.Get()
	span := verifC03header(h)
	L := zzverif.Choose("len", capacity+4)
	c1 := zzverif.Choose("cut", L+1)
	data := zzverif.BytesN("data", L)
	size := 0
	verifC03write(h, capacity, &size, data[:c1])
	verifC03write(h, capacity, &size, data[c1:])
	got, err := h.Hash(nil)
	zzverif.Assert(err == nil && bytes.Equal(got, verifC03ref(capacity, span, data)), "hash = K(span || root(zero-padded data))")
	pool.Put(h)
	zzverif.Reach("C03-all-cuts")
}

// VerifC03_Splits: boundary-dense lengths, data written in three pieces (cut
// points boundary-dense, pieces may be empty).
func VerifC03_Splits() {
	sc := verifC03segCount(true)
	capacity := sc * 32
	pool := verifC03newPool(sc)
	h := pool.Get()
	span := verifC03header(h)
	L := verifC03point("len", capacity, capacity+3)
	c2 := verifC03point("cut2", capacity, L)
	c1 := verifC03point("cut1", capacity, c2)
	data := zzverif.BytesN("data", L)
	size := 0
	verifC03write(h, capacity, &size, data[:c1])
	verifC03write(h, capacity, &size, data[c1:c2])
	verifC03write(h, capacity, &size, data[c2:])
	got, err := h.Hash(nil)
	zzverif.Assert(err == nil && bytes.Equal(got, verifC03ref(capacity, span, data)), "hash = K(span || root(zero-padded data))")
	pool.Put(h)
	zzverif.Reach("C03-splits")
}

// VerifC03_Reuse: a complete preceding use of the SAME pooled tree with
// another length, content and header, then either Put/Get (fresh Hasher, stale
// tree.buffer and node state) or Reset of the same Hasher; the second hash is
// written in two pieces.
func VerifC03_Reuse() {
	sc := verifC03segCount(false)
	capacity := sc * 32
	pool := verifC03newPool(sc)
	h := pool.Get()
	span0 := verifC03header(h)
	L0 := verifC03point("len0", capacity, capacity+3)
	data0 := zzverif.BytesN("data0", L0)
	size := 0
	verifC03write(h, capacity, &size, data0)
	got0, err := h.Hash(nil)
	zzverif.Assert(err == nil && bytes.Equal(got0, verifC03ref(capacity, span0, data0)), "first use: hash = K(span || root(zero-padded data))")
	if zzverif.Choose("reuse-by", 2) == 0 {
		pool.Put(h)
		h = pool.Get() // capacity 1: the same tree comes back
	} else {
		h.Reset()
		// Reset clears the header
		z, err := h.Hash(nil)
		zzverif.Assert(err == nil && bytes.Equal(z, verifC03ref(capacity, make([]byte, 8), nil)), "after Reset: hash of nothing with a zero header")
	}
	span := verifC03header(h)
	L := verifC03point("len", capacity, capacity+3)
	c1 := verifC03point("cut1", capacity, L)
	data := zzverif.BytesN("data", L)
	size = 0
	verifC03write(h, capacity, &size, data[:c1])
	verifC03write(h, capacity, &size, data[c1:])
	got, err := h.Hash(nil)
	zzverif.Assert(err == nil && bytes.Equal(got, verifC03ref(capacity, span, data)), "reused tree: hash = K(span || root(zero-padded data))")
	pool.Put(h)
	zzverif.Reach("C03-reuse")
}

// VerifC03_SectionOrder: the section workers (processSection -> writeNode /
// writeFinalNode -> toggle) run one after the other in EVERY order, in
// particular with the final section's worker arriving before the others (the
// nil-propagating branches of writeFinalNode, which the canonical coroutine
// schedule of Write/Hash never takes). Write/Hash themselves are replaced here
// by their bookkeeping (buffer fill, zero fill of the open section, the list of
// sections); afterwards the same tree is used again through the real API, which
// checks that every order leaves the tree clean.
func VerifC03_SectionOrder() {
	sc := 4 << uint(zzverif.Choose("segcount", 2)) // 4 or 8 (8: three node levels, needed for the nil-propagating branches)
	capacity := sc * 32
	pool := verifC03newPool(sc)
	h := pool.Get()
	span := verifC03header(h)
	L := 1 + verifC03point("len-1", capacity, capacity-1) // 1..capacity
	data := zzverif.BytesN("data", L)
	copy(h.bmt.buffer, data)
	copy(h.bmt.buffer[L:], zerosection)
	last := L / 64 // the open (final) section; complete sections before it
	if L == capacity {
		last--
	}
	// a permutation of 0..last by repeated choice among the remaining sections
	rest := make([]int, last+1)
	for i := range rest {
		rest[i] = i
	}
	var (
		mu        sync.Mutex
		done      int // section workers that returned
		delivered int // roots received from h.result
		res       []byte
	)
	go func() { // stands for the select in Hash
		for {
			r := <-h.result
			mu.Lock()
			res = r
			delivered++
			mu.Unlock()
		}
	}()
	for k := 0; len(rest) > 0; k++ {
		j := 0
		if len(rest) > 1 {
			j = zzverif.Choose("next", len(rest))
		}
		sec := rest[j]
		rest = append(rest[:j:j], rest[j+1:]...)
		go func() {
			h.processSection(sec, sec == last)
			mu.Lock()
			done++
			mu.Unlock()
		}()
		zzverif.WaitUntil(func() bool { mu.Lock(); defer mu.Unlock(); return done == k+1 }, "section worker returned")
	}
	zzverif.Yield() // natively: lets the receiver store the root
	mu.Lock()
	nres, root := delivered, res
	mu.Unlock()
	zzverif.Assert(nres == 1, "any worker order: exactly one root is delivered")
	if nres == 1 {
		zzverif.Assert(bytes.Equal(verifC03K(h.span, root), verifC03ref(capacity, span, data)), "any worker order: hash = K(span || root(zero-padded data))")
	}
	// the tree must be clean again: second use through the real API
	pool.Put(h)
	h = pool.Get()
	span2 := verifC03header(h)
	var L2 int
	if zzverif.Param("all-len2", 0, 1) == 1 {
		L2 = verifC03point("len2", capacity, capacity)
	} else {
		L2 = []int{1, capacity/2 + 1, capacity}[zzverif.Choose("len2", 3)]
	}
	data2 := zzverif.BytesN("data2", L2)
	size := 0
	verifC03write(h, capacity, &size, data2)
	got, err := h.Hash(nil)
	zzverif.Assert(err == nil && bytes.Equal(got, verifC03ref(capacity, span2, data2)), "tree clean after any worker order")
	pool.Put(h)
	zzverif.Reach("C03-section-order")
}
