package bmt

import (
	"encoding/binary"
	"hash"

	"github.com/gauss-project/aurorafs/pkg/zzverif"
	"golang.org/x/crypto/sha3"
)

// C04 model of the BMT hasher CONTRACT at the method boundary of *bmt.Hasher.
//
// What C03 establishes on the real hasher (for capacities 64..256 bytes) and
// what is ASSUMED here for the production capacity 8192*32 = 262144 bytes:
//
//	Get() returns a reset hasher; SetHeader(span) copies the 8 span bytes;
//	Write(b) takes the first min(len(b), capacity-size) bytes and reports that
//	count; Hash() = H(span, zero-padded written bytes) for a fixed function H.
//
// The tree (8192 keccak leaves, section goroutines) is not executed: the pool
// holds no trees, Write remembers the accepted prefix, Hash applies H.
// (*Hasher).SetHeader, (*Hasher).Reset, NewConf (real capacity computation) and
// the whole of package cac and bmtpool are the real code.
//
// H comes in two flavours, selected by the harness through VerifC04Small:
//
//   - VerifC04Small == 0 ("sampled", for 256 KiB payloads held as SMT arrays):
//     H = an uninterpreted function (zzverif.U64Of, 4 words) of span and of the
//     zero-padded data bytes at the positions VerifC04Samples, which the harness
//     draws as symbolic indices in 0..capacity-1. The check then holds for every
//     choice of sample positions, i.e. for a family of hash functions that
//     between them depend on every byte. Not injective: only used where the
//     code's hash and the oracle's hash are compared (iff / range clauses).
//   - VerifC04Small == k > 0 ("injective", payloads of at most k data bytes):
//     H = keccak256("bmt-model:" ‖ span ‖ data zero-padded to k bytes) through
//     the engine's hash model (uninterpreted + injectivity = collision
//     resistance assumed); natively the real keccak. Zero padding is the real
//     BMT's behaviour (data and data‖0 have the same root).
//
// All stubs are in package bmt with named parameters, so the native replay
// build runs the same model.

//verif:stub NewPool = verifC04NewPool
//verif:stub (*Pool).Get = verifC04Get
//verif:stub (*Pool).Put = verifC04Put
//verif:stub (*Hasher).Write = verifC04Write
//verif:stub (*Hasher).Hash = verifC04Hash
//verif:stub doHash = verifC04doHash

var (
	// VerifC04Small selects the injective small-payload model (see above).
	VerifC04Small int
	// VerifC04Samples are the sampled data positions of the sampled model.
	VerifC04Samples []int
	// VerifC04Gets / VerifC04Puts count pool operations (resource balance).
	VerifC04Gets, VerifC04Puts int
)

// verifC04doHash: the base hash is only used by NewConf for the table of
// zero-subtree hashes, which the model never reads (keeps 14 keccak
// applications and their pairwise injectivity axioms out of every query).
func verifC04doHash(h hash.Hash, data ...[]byte) ([]byte, error) {
	return make([]byte, 32), nil
}

func verifC04NewPool(c *Conf) *Pool {
	return &Pool{Conf: c}
}

func verifC04Get(p *Pool) *Hasher {
	VerifC04Gets++
	return &Hasher{
		Conf: p.Conf,
		span: make([]byte, SpanSize),
		bmt:  &tree{},
	}
}

func verifC04Put(p *Pool, h *Hasher) {
	VerifC04Puts++
}

// verifC04Write: the truncating Write contract. The accepted prefix is kept by
// reference (the callers under test do not modify the data between Write and
// Hash); one Write per hashing operation is modelled.
func verifC04Write(h *Hasher, b []byte) (int, error) {
	l := len(b)
	max := h.maxSize - h.size
	if l > max {
		l = max
	}
	if h.size != 0 {
		panic("verif model: more than one Write per hash")
	}
	h.bmt.buffer = b[:l]
	h.size += l
	return l, nil
}

func verifC04Hash(h *Hasher, b []byte) ([]byte, error) {
	return VerifC04Model(h.span, h.bmt.buffer[:h.size]), nil
}

// VerifC04Model is H(span, data) for len(span) == 8 and len(data) <= capacity.
func VerifC04Model(span, data []byte) []byte {
	if len(span) != SpanSize {
		panic("verif model: span size")
	}
	if VerifC04Small > 0 {
		if len(data) > VerifC04Small {
			panic("verif model: payload too long for the injective model")
		}
		padded := make([]byte, VerifC04Small)
		copy(padded, data)
		h := sha3.NewLegacyKeccak256()
		_, _ = h.Write([]byte("bmt-model:"))
		_, _ = h.Write(span)
		_, _ = h.Write(padded)
		return h.Sum(nil)
	}
	key := make([]byte, SpanSize+len(VerifC04Samples))
	copy(key, span)
	for k, s := range VerifC04Samples {
		var v byte
		if s < len(data) {
			v = data[s]
		}
		key[SpanSize+k] = v
	}
	out := make([]byte, 32)
	for i, n := range [...]string{"bmt0", "bmt1", "bmt2", "bmt3"} {
		binary.BigEndian.PutUint64(out[8*i:], zzverif.U64Of(n, key))
	}
	return out
}
