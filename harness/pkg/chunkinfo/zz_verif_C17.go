package chunkinfo

import (
	"context"
	"errors"
	"io"
	"strings"
	"time"

	"github.com/gauss-project/aurorafs/pkg/boson"
	"github.com/gauss-project/aurorafs/pkg/chunkinfo/pb"
	"github.com/gauss-project/aurorafs/pkg/logging"
	"github.com/gauss-project/aurorafs/pkg/shed/driver"
	"github.com/gauss-project/aurorafs/pkg/storage"
	"github.com/gauss-project/aurorafs/pkg/subscribe"
	"github.com/gauss-project/aurorafs/pkg/zzverif"
)

//verif:root pkg/boson pkg/bitvector
//verif:stub (*pkg/chunkinfo.ChunkInfo).chunkPutChanUpdate = verifC17Direct
//verif:stub time.Now = verifC17Now

// verifC17Now: concrete clock under gosym (the discovery table stores the Unix
// second of the update, which no checked clause depends on; Time.Unix of a
// symbolic instant is not modelled by the engine).
func verifC17Now() time.Time { return time.Unix(1700000000, 0) }

// ---------------------------------------------------------------------------
// Environment
// ---------------------------------------------------------------------------

// verifC17Direct replaces ChunkInfo.chunkPutChanUpdate under gosym: the real
// function sends (method, reflect params) over a channel to a listener goroutine
// that calls the method under the table lock via reflect and translates the
// result (error -> state=false; bool false -> state=false + error). Here the
// method is called directly with the same result translation. Natively the real
// function runs (the harness starts the listeners).
func verifC17Direct(ci *ChunkInfo, ctx context.Context, obj chunkPutEntry, method interface{}, params ...interface{}) (res chunkPutRes) {
	res.state = true
	obj.setLock()
	defer obj.setUnLock()
	a := func(i int) boson.Address { return params[i].(boson.Address) }
	setErr := func(err error) {
		if err != nil {
			res.err = err
			res.state = false
		}
	}
	setBool := func(ok bool) {
		res.state = ok
		if !ok {
			res.err = errors.New("chunkinfo - chunkPutChanUpdateListen error")
		}
	}
	switch m := method.(type) {
	case func(boson.Address, boson.Address, boson.Address) error:
		setErr(m(a(0), a(1), a(2)))
	case func(boson.Address, boson.Address) error:
		setErr(m(a(0), a(1)))
	case func(boson.Address) bool:
		setBool(m(a(0)))
	case func(boson.Address, pyramid, []string) bool:
		setBool(m(a(0), params[1].(pyramid), params[2].([]string)))
	case func(boson.Address, [][][]byte, map[string][]byte):
		m(a(0), params[1].([][][]byte), params[2].(map[string][]byte))
	case func(boson.Address, boson.Address, [][]byte):
		m(a(0), a(1), params[2].([][]byte))
	case func(context.Context, boson.Address) error:
		setErr(m(params[0].(context.Context), a(1)))
	default:
		panic("verifC17Direct: unexpected method type")
	}
	return res
}

// verifC17Store: typed state store (values: chunkinfo.BitVector records and
// strings; the JSON round trip of the real stores is assumed exact). Iterate
// works on a snapshot of the keys, like a leveldb iterator.
type verifC17Store struct {
	keys []string
	bits []BitVector
	strs []string
}

func (s *verifC17Store) find(key string) int {
	for i, k := range s.keys {
		if k == key {
			return i
		}
	}
	return -1
}
func (s *verifC17Store) Get(key string, i interface{}) error {
	idx := s.find(key)
	if idx < 0 {
		return storage.ErrNotFound
	}
	switch p := i.(type) {
	case *BitVector:
		*p = BitVector{Len: s.bits[idx].Len, B: append([]byte{}, s.bits[idx].B...)}
	case *string:
		*p = s.strs[idx]
	default:
		panic("verifC17Store: unexpected value type")
	}
	return nil
}
func (s *verifC17Store) Put(key string, i interface{}) error {
	var b BitVector
	var str string
	switch p := i.(type) {
	case *BitVector:
		b = BitVector{Len: p.Len, B: append([]byte{}, p.B...)}
	case string:
		str = p
	default:
		panic("verifC17Store: unexpected value type")
	}
	if idx := s.find(key); idx >= 0 {
		s.bits[idx], s.strs[idx] = b, str
		return nil
	}
	s.keys = append(s.keys, key)
	s.bits = append(s.bits, b)
	s.strs = append(s.strs, str)
	return nil
}
func (s *verifC17Store) Delete(key string) error {
	if idx := s.find(key); idx >= 0 {
		s.keys = append(append([]string{}, s.keys[:idx]...), s.keys[idx+1:]...)
		s.bits = append(append([]BitVector{}, s.bits[:idx]...), s.bits[idx+1:]...)
		s.strs = append(append([]string{}, s.strs[:idx]...), s.strs[idx+1:]...)
	}
	return nil
}
func (s *verifC17Store) Iterate(prefix string, fn storage.StateIterFunc) error {
	ks := append([]string{}, s.keys...)
	for _, k := range ks {
		if !strings.HasPrefix(k, prefix) {
			continue
		}
		stop, err := fn([]byte(k), nil)
		if err != nil {
			return err
		}
		if stop {
			return nil
		}
	}
	return nil
}
func (s *verifC17Store) DB() driver.BatchDB { return nil }
func (s *verifC17Store) Close() error       { return nil }

// verifC17Pub: subscribe.SubPub that drops everything.
type verifC17Pub struct{}

func (verifC17Pub) Subscribe(subscribe.INotifier, string, string, string) error { return nil }
func (verifC17Pub) Publish(string, string, string, interface{}) error           { return nil }
func (verifC17Pub) PublishArray(string, string, string, []interface{}) error     { return nil }

// verifC17Trav: traverser answering for one file; GetChunkHashes also returns
// the "pieces" (data chunks that arrived inside the pyramid, i.e. are stored).
type verifC17Trav struct {
	root   boson.Address
	data   [][][]byte
	trie   map[string][]byte
	pieces [][]byte
}

func (t *verifC17Trav) Traverse(context.Context, boson.Address, boson.AddressIterFunc) error {
	panic("unused")
}
func (t *verifC17Trav) GetPyramid(_ context.Context, a boson.Address) (map[string][]byte, error) {
	if !a.Equal(t.root) {
		return nil, errors.New("verifC17: unknown file")
	}
	return t.trie, nil
}
func (t *verifC17Trav) GetChunkHashes(_ context.Context, a boson.Address, p map[string][]byte) ([][][]byte, [][]byte, error) {
	if !a.Equal(t.root) {
		return nil, nil, errors.New("verifC17: unknown file")
	}
	if p == nil {
		return t.data, nil, nil
	}
	return t.data, t.pieces, nil
}

func verifC17New(self boson.Address, st *verifC17Store, tr *verifC17Trav) *ChunkInfo {
	logger := logging.New(io.Discard, 0)
	ci := &ChunkInfo{
		addr:        self,
		stateStorer: st,
		traversal:   tr,
		logger:      logger,
		ct:          newChunkInfoTabNeighbor(),
		cd:          newChunkInfoDiscover(),
		cp:          newChunkPyramid(),
		cpd:         newPendingFinderInfo(),
		cs:          newChunkSource(st, logger),
		subPub:      verifC17Pub{},
	}
	if !zzverif.Symbolic() {
		// native replay: the real chunkPutChanUpdate needs its listeners
		ci.chunkPutChanUpdateListen(ci.cp)
		ci.chunkPutChanUpdateListen(ci.cd)
		ci.chunkPutChanUpdateListen(ci.ct)
		ci.chunkPutChanUpdateListen(ci.cs)
	}
	return ci
}

// bit i of a presence byte string (bitvector layout: bit i%8 of byte i/8)
func verifC17Bit(b []byte, i int) bool {
	if i/8 >= len(b) {
		return false
	}
	return b[i/8]&(1<<uint(i%8)) != 0
}

// VerifC17_Record: a file with n distinct data chunks (optionally one of them
// repeated), its root chunk and one intermediate chunk. The file becomes known
// either by a pyramid response from a peer (download; a symbolic subset of
// "pieces" arrives with the pyramid) or by the first OnChunkRetrieved (upload /
// local read). Then a history of OnChunkRetrieved(cid, root, source) with an
// arbitrary chunk of the file as cid: exactly what netstore.Get / retrieval do
// after a chunk was read locally or stored after a retrieval. Checked:
//   - the node's own record (in memory, advertised, persisted) has bit i set
//     only if data chunk i was reported as stored,
//   - isDownload(root, self) only if all data chunks were reported,
//   - after DelFile no availability / discovery / source record remains in
//     memory, through the API, or in the state store.
func VerifC17_Record() {
	maxN := zzverif.Param("maxn", 3, 4)
	steps := zzverif.Param("steps", 2, 3)
	zzverif.Unwind(64)

	self := boson.NewAddress([]byte{0x5e, 0x1f})
	peer := boson.NewAddress([]byte{0x9e, 0xe1})
	peer2 := boson.NewAddress([]byte{0x9e, 0xe2})
	root := boson.NewAddress([]byte{0xf0, 0x01})
	inter := boson.NewAddress([]byte{0xf0, 0x02})
	dataAll := []boson.Address{
		boson.NewAddress([]byte{0xd0, 0x00}),
		boson.NewAddress([]byte{0xd0, 0x01}),
		boson.NewAddress([]byte{0xd0, 0x02}),
		boson.NewAddress([]byte{0xd0, 0x03}),
	}
	n := 1 + zzverif.Choose("n", maxN)
	data := dataAll[:n]

	var seq [][]byte
	for _, d := range data {
		seq = append(seq, d.Bytes())
	}
	if zzverif.Choose("repeat", 2) == 1 {
		seq = append(seq, data[0].Bytes()) // repeated content: same chunk again
	}
	tr := &verifC17Trav{root: root, data: [][][]byte{seq}, trie: map[string][]byte{
		root.String():  {1},
		inter.String(): {2},
	}}
	st := &verifC17Store{}
	ci := verifC17New(self, st, tr)
	ctx := context.Background()

	reported := make([]bool, n) // data chunk i is stored locally

	flow := zzverif.Choose("flow", 2)
	if flow == 0 {
		// download: pyramid response from `peer`; the last data chunk may arrive as a piece
		if zzverif.Choose("piece", 2) == 1 {
			tr.pieces = [][]byte{data[n-1].Bytes()}
			reported[n-1] = true
		}
		resps := []pb.ChunkPyramidResp{
			{Hash: root.Bytes(), Chunk: []byte{1}},
			{Hash: inter.Bytes(), Chunk: []byte{2}},
		}
		err := ci.onChunkPyramidResp(ctx, nil, root, peer, resps)
		zzverif.Assert(err == nil, "pyramid response accepted")
	}

	nonData := false
	for s := 0; s < steps; s++ {
		cid := boson.NewAddress(zzverif.BytesN("cid", 2))
		// the reported chunk is a chunk of the file: data, intermediate or root
		isFile := cid.Equal(root) || cid.Equal(inter)
		for i := range data {
			if cid.Equal(data[i]) {
				isFile = true
			}
		}
		zzverif.Assume(isFile)
		// source: a local read / upload (self) or a retrieval from `peer`. While
		// the file is still unknown (flow 1, first report) only a local report
		// is made (a report naming a peer would first ask that peer for the
		// pyramid over the network).
		src := self
		if (flow == 0 || s > 0) && zzverif.Choose("src", 2) == 1 {
			src = peer
		}
		err := ci.OnChunkRetrieved(cid, root, src)
		zzverif.Assert(err == nil, "OnChunkRetrieved succeeds")
		hit := false
		for i := range data {
			if cid.Equal(data[i]) {
				reported[i] = true
				hit = true
			}
		}
		if !hit {
			nonData = true
		}
	}

	// the failing inputs of the known finding: an intermediate / root chunk was
	// reported while data chunk 0 was not
	zzverif.Region("C17/non-data-chunk-reported-marks-chunk-0", nonData && !reported[0])

	all := true
	for i := range reported {
		if !reported[i] {
			all = false
		}
	}

	// own record: in memory / advertised / API / persisted
	selfHex := self.String()
	okMem, okAdv, okAPI, okDB := true, true, true, true
	bv := ci.ct.presence[root.String()][selfHex]
	zzverif.Assert(bv != nil, "own record exists")
	adv := ci.ct.getNeighborChunkInfo(root)[selfHex]
	var api []byte
	for _, o := range ci.GetChunkInfoServerOverlays(root) {
		if o.Overlay == selfHex {
			api = o.Bit.B
			zzverif.Assert(o.Bit.Len == n, "own record has one bit per distinct data chunk")
		}
	}
	var db BitVector
	zzverif.Assert(st.Get(keyPrefix+root.String()+"-"+selfHex, &db) == nil, "own record is persisted")
	for i := 0; i < n; i++ {
		if bv.Get(i) && !reported[i] {
			okMem = false
		}
		if verifC17Bit(adv, i) && !reported[i] {
			okAdv = false
		}
		if verifC17Bit(api, i) && !reported[i] {
			okAPI = false
		}
		if verifC17Bit(db.B, i) && !reported[i] {
			okDB = false
		}
	}
	zzverif.Assert(okMem, "own record marks a data chunk present only if it is stored")
	zzverif.Assert(okAdv, "advertised record marks a data chunk present only if it is stored")
	zzverif.Assert(okAPI, "API record marks a data chunk present only if it is stored")
	zzverif.Assert(okDB, "persisted record marks a data chunk present only if it is stored")
	if ci.ct.isDownload(root, self) {
		zzverif.Assert(all, "file reported fully downloaded only if all data chunks are stored")
	}

	// a discovery record about another peer (well-formed presence bytes)
	if zzverif.Choose("discover", 2) == 1 {
		ci.updateChunkInfo(root, peer2, zzverif.BytesN("presence", 1))
	}

	// deletion
	err := ci.DelFile(root, func() error { return nil })
	zzverif.Assert(err == nil, "DelFile succeeds")
	rc := root.String()
	_, inCt := ci.ct.presence[rc]
	_, inOv := ci.ct.overlays[rc]
	_, inCd := ci.cd.presence[rc]
	_, inCs := ci.cs.presence[rc]
	zzverif.Assert(!inCt && !inOv && !inCd && !inCs, "no in-memory record of the deleted file remains")
	src := ci.GetChunkInfoSource(root)
	_, roots := ci.GetFileList(self)
	zzverif.Assert(len(ci.GetChunkInfoServerOverlays(root)) == 0 && len(ci.GetChunkInfoDiscoverOverlays(root)) == 0 &&
		src.PyramidSource == "" && len(src.ChunkSource) == 0 && len(roots) == 0, "no record of the deleted file is reported")
	left := false
	for _, k := range st.keys {
		for _, pre := range []string{keyPrefix, discoverKeyPrefix, chunkSourceKeyPrefix, pyramidKeyPrefix} {
			if strings.HasPrefix(k, pre+rc) {
				left = true
			}
		}
	}
	zzverif.Assert(!left, "no persisted record of the deleted file remains")
	zzverif.Reach("C17-record")
}
