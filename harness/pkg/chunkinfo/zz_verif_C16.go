package chunkinfo

import (
	"context"
	"errors"

	"github.com/gauss-project/aurorafs/pkg/boson"
	"github.com/gauss-project/aurorafs/pkg/zzverif"
)

//verif:root pkg/boson

// ---------------------------------------------------------------------------
// Environment: a traverser that hands out harness-built pyramids
// ---------------------------------------------------------------------------

// verifC16File: what traversal reports for one file: the data chunk hashes in
// file order (GetChunkHashes; repeated chunks appear repeatedly; one group per
// manifest entry) and the "trie" (GetPyramid: every chunk that has to be kept
// to walk the file: manifest / intermediate chunks and the root chunk; for a
// one-chunk file the root is both a data chunk and a trie entry).
type verifC16File struct {
	root boson.Address
	data [][][]byte
	trie map[string][]byte
}

type verifC16Trav struct{ files []*verifC16File }

func (t *verifC16Trav) find(a boson.Address) *verifC16File {
	for _, f := range t.files {
		if f.root.Equal(a) {
			return f
		}
	}
	return nil
}
func (t *verifC16Trav) Traverse(context.Context, boson.Address, boson.AddressIterFunc) error {
	panic("unused")
}
func (t *verifC16Trav) GetPyramid(_ context.Context, a boson.Address) (map[string][]byte, error) {
	f := t.find(a)
	if f == nil {
		return nil, errors.New("verifC16: unknown file")
	}
	return f.trie, nil
}
func (t *verifC16Trav) GetChunkHashes(_ context.Context, a boson.Address, _ map[string][]byte) ([][][]byte, [][]byte, error) {
	f := t.find(a)
	if f == nil {
		return nil, nil, errors.New("verifC16: unknown file")
	}
	return f.data, nil, nil
}

// roles of a chunk inside a file
const (
	verifC16Absent   = 0
	verifC16Data1    = 1 // data chunk, once
	verifC16Data2    = 2 // data chunk, twice (repeated content)
	verifC16Trie     = 3 // intermediate / manifest chunk only
	verifC16DataTrie = 4 // data chunk that is also in the trie (one-chunk file root)
)

var verifC16RoleSets = [][]int{
	{verifC16Absent, verifC16Data1, verifC16Data2, verifC16Trie, verifC16DataTrie}, // full
	{verifC16Absent, verifC16Data1, verifC16Trie},                                  // reduced
	{verifC16Trie, verifC16DataTrie},                                               // own root
	{verifC16Absent, verifC16Trie},                                                 // foreign root (manifest entry)
	{verifC16Absent},
	{verifC16Trie},                  // 5
	{verifC16Absent, verifC16Data1}, // 6
}

func verifC16Role(set int) int {
	rs := verifC16RoleSets[set]
	if len(rs) == 1 {
		return rs[0]
	}
	return rs[zzverif.Choose("role", len(rs))]
}

// verifC16Build builds the traversal answer of a file from the role table.
func verifC16Build(root boson.Address, chunks []boson.Address, hexs []string, roles []int) *verifC16File {
	f := &verifC16File{root: root, trie: map[string][]byte{}}
	var seq [][]byte
	for c, r := range roles {
		switch r {
		case verifC16Data1, verifC16DataTrie:
			seq = append(seq, chunks[c].Bytes())
		case verifC16Data2:
			seq = append(seq, chunks[c].Bytes(), chunks[c].Bytes())
		}
		if r == verifC16Trie || r == verifC16DataTrie {
			f.trie[hexs[c]] = []byte{byte(c)}
		}
	}
	// two groups (manifest entries) when there is more than one data chunk
	if len(seq) > 1 {
		f.data = [][][]byte{seq[:1], seq[1:]}
	} else if len(seq) == 1 {
		f.data = [][][]byte{seq}
	}
	return f
}

// verifC16In: does the result list of getUnRepeatChunk contain chunk c?
func verifC16In(list []*PyramidCidNum, c boson.Address) bool {
	in := false
	for _, p := range list {
		if p.Cid.Equal(c) {
			in = true
		}
	}
	return in
}

// VerifC16_RefCount: two files with overlapping content are
// registered through the real initChunkPyramid/updateChunkPyramid, on top of
// arbitrary reference counts that stand for any number of other known files
// ("background"). Then the files are deleted one after the other the way
// ChunkInfo.DelFile does it (getPyramid, getPyramidHash, the deletion list
// getUnRepeatChunk that api/dirs.go and localstore/gc.go remove from the
// store, delRootCid). Checked at every deletion against the role tables:
//   - the deletion list contains no chunk that another known file uses,
//   - it contains every chunk of the file that no other known file uses,
//   - afterwards every chunk of another known file still has a reference
//     count >= 1, and chunks used only by the deleted file have none.
func VerifC16_RefCount() {
	thorough := zzverif.Param("thorough", 0, 1) == 1
	nfiles := 2
	zzverif.Unwind(64)

	// universe: 0,1 = roots of F,G; 2,3 = content chunks
	chunks := []boson.Address{
		boson.NewAddress([]byte{0xf0, 0x01}),
		boson.NewAddress([]byte{0xf0, 0x02}),
		boson.NewAddress([]byte{0xc0, 0x04}),
		boson.NewAddress([]byte{0xc0, 0x05}),
	}
	hexs := []string{"f001", "f002", "c004", "c005"}
	nc := len(chunks)

	// role table (index into verifC16RoleSets per file and chunk)
	//            rF rG c0 c1
	sets := [][]int{
		{2, 4, 0, 6}, // F
		{3, 5, 1, 6}, // G may contain F's root (G = manifest listing F)
	}
	// chunks with a symbolic background count (the others have none)
	bgSym := []bool{true, false, true, true}
	if thorough {
		sets = [][]int{
			{2, 4, 0, 6},
			{3, 2, 0, 6},
		}
		bgSym = []bool{true, true, true, true}
	}
	tr := &verifC16Trav{}
	roles := make([][]int, nfiles)
	for f := 0; f < nfiles; f++ {
		for c := 0; c < nc; c++ {
			roles[f] = append(roles[f], verifC16Role(sets[f][c]))
		}
		tr.files = append(tr.files, verifC16Build(chunks[f], chunks, hexs, roles[f]))
	}
	uses := func(f, c int) bool { return roles[f][c] != verifC16Absent }

	ci := verifC16envNew(boson.NewAddress([]byte{0xee}), &verifC16envStore{}, tr)

	// background reference counts (other known files, not modelled further).
	// An entry with value 0 is the same as no entry for every kernel function
	// (they read through the zero-value lookup; putChunk writes 1 either way),
	// so "no background user" is represented by the value 0.
	bg := make([]uint, nc)
	for c := 0; c < nc; c++ {
		if !bgSym[c] {
			continue
		}
		b := zzverif.U32("bg")
		zzverif.Assume(b < 1<<20)
		bg[c] = uint(b)
		ci.cp.chunk[hexs[c]] = bg[c]
	}

	ctx := context.Background()
	for f := 0; f < nfiles; f++ {
		err := ci.initChunkPyramid(ctx, chunks[f])
		zzverif.Assert(err == nil, "registration succeeds")
	}
	// registering a known file again is a no-op (guard in initChunkPyramid)
	zzverif.Assert(ci.initChunkPyramid(ctx, chunks[0]) == nil, "registration succeeds")

	alive := make([]bool, nfiles)
	for f := range alive {
		alive[f] = true
	}
	order := []int{0, 1}
	if thorough && zzverif.Choose("order", 2) == 1 {
		order = []int{1, 0}
	}
	for _, f := range order {
		// others(c): number of other known users of chunk c
		others := func(c int) uint {
			n := bg[c]
			for g := 0; g < nfiles; g++ {
				if g != f && alive[g] && uses(g, c) {
					n++
				}
			}
			return n
		}
		// --- the real DelFile; the caller's callback removes from the store what
		// GetChunkPyramid (= getUnRepeatChunk) hands out at that moment ---
		var del []*PyramidCidNum
		err := ci.DelFile(chunks[f], func() error {
			del = ci.GetChunkPyramid(chunks[f])
			return nil
		})
		zzverif.Assert(err == nil, "DelFile succeeds")
		alive[f] = false

		safe, complete, foreign := true, true, true
		for c := 0; c < nc; c++ {
			in := verifC16In(del, chunks[c])
			if in && others(c) > 0 {
				safe = false
			}
			if in && !uses(f, c) {
				foreign = false
			}
			if uses(f, c) && others(c) == 0 && !in {
				complete = false
			}
		}
		zzverif.Assert(safe, "deletion list has no chunk another known file uses")
		zzverif.Assert(foreign, "deletion list has only chunks of the deleted file")
		zzverif.Assert(complete, "deletion list has every chunk only the deleted file uses")

		kept, gone := true, true
		for c := 0; c < nc; c++ {
			n := ci.cp.chunk[hexs[c]]
			if others(c) > 0 && n < 1 {
				kept = false
			}
			if uses(f, c) && others(c) == 0 && n != 0 {
				gone = false
			}
		}
		zzverif.Assert(kept, "chunks of other known files keep a reference count >= 1")
		zzverif.Assert(gone, "chunks used only by the deleted file have no reference count left")
		_, known := ci.cp.hashData[hexs[f]]
		zzverif.Assert(!known, "deleted file is no longer registered")
	}
	zzverif.Reach("C16-refcount")
}
