package chunkinfo

// Environment of the C16 harness that lets the REAL ChunkInfo.DelFile run
// (copied from the C17 rig: files are loaded per property): a direct-call
// stand-in for the reflect/channel dispatcher chunkPutChanUpdate under gosym
// (natively the real dispatcher and its listeners run), a typed state store,
// a SubPub that drops everything, and a constructor.

import (
	"context"
	"errors"
	"io"
	"strings"

	"github.com/gauss-project/aurorafs/pkg/boson"
	"github.com/gauss-project/aurorafs/pkg/logging"
	"github.com/gauss-project/aurorafs/pkg/shed/driver"
	"github.com/gauss-project/aurorafs/pkg/storage"
	"github.com/gauss-project/aurorafs/pkg/subscribe"
	"github.com/gauss-project/aurorafs/pkg/zzverif"
)

//verif:root pkg/bitvector
//verif:stub (*pkg/chunkinfo.ChunkInfo).chunkPutChanUpdate = verifC16envDirect

// verifC16envDirect replaces ChunkInfo.chunkPutChanUpdate under gosym: the real
// function sends (method, reflect params) over a channel to a listener goroutine
// that calls the method under the table lock via reflect and translates the
// result (error -> state=false; bool false -> state=false + error). Here the
// method is called directly with the same result translation. Natively the real
// function runs (the harness starts the listeners).
func verifC16envDirect(ci *ChunkInfo, ctx context.Context, obj chunkPutEntry, method interface{}, params ...interface{}) (res chunkPutRes) {
	res.state = true
	obj.setLock()
	defer obj.setUnLock()
	a := func(i int) boson.Address { return params[i].(boson.Address) }
	setErr := func(err error) {
		if err != nil {
			res.err = err
			res.state = false
		}
	}
	setBool := func(ok bool) {
		res.state = ok
		if !ok {
			res.err = errors.New("chunkinfo - chunkPutChanUpdateListen error")
		}
	}
	switch m := method.(type) {
	case func(boson.Address, boson.Address, boson.Address) error:
		setErr(m(a(0), a(1), a(2)))
	case func(boson.Address, boson.Address) error:
		setErr(m(a(0), a(1)))
	case func(boson.Address) bool:
		setBool(m(a(0)))
	case func(boson.Address, pyramid, []string) bool:
		setBool(m(a(0), params[1].(pyramid), params[2].([]string)))
	case func(boson.Address, [][][]byte, map[string][]byte):
		m(a(0), params[1].([][][]byte), params[2].(map[string][]byte))
	case func(boson.Address, boson.Address, [][]byte):
		m(a(0), a(1), params[2].([][]byte))
	case func(context.Context, boson.Address) error:
		setErr(m(params[0].(context.Context), a(1)))
	default:
		panic("verifC16envDirect: unexpected method type")
	}
	return res
}

// verifC16envStore: typed state store (values: chunkinfo.BitVector records and
// strings; the JSON round trip of the real stores is assumed exact). Iterate
// works on a snapshot of the keys, like a leveldb iterator.
type verifC16envStore struct {
	keys []string
	bits []BitVector
	strs []string
}

func (s *verifC16envStore) find(key string) int {
	for i, k := range s.keys {
		if k == key {
			return i
		}
	}
	return -1
}
func (s *verifC16envStore) Get(key string, i interface{}) error {
	idx := s.find(key)
	if idx < 0 {
		return storage.ErrNotFound
	}
	switch p := i.(type) {
	case *BitVector:
		*p = BitVector{Len: s.bits[idx].Len, B: append([]byte{}, s.bits[idx].B...)}
	case *string:
		*p = s.strs[idx]
	default:
		panic("verifC16envStore: unexpected value type")
	}
	return nil
}
func (s *verifC16envStore) Put(key string, i interface{}) error {
	var b BitVector
	var str string
	switch p := i.(type) {
	case *BitVector:
		b = BitVector{Len: p.Len, B: append([]byte{}, p.B...)}
	case string:
		str = p
	default:
		panic("verifC16envStore: unexpected value type")
	}
	if idx := s.find(key); idx >= 0 {
		s.bits[idx], s.strs[idx] = b, str
		return nil
	}
	s.keys = append(s.keys, key)
	s.bits = append(s.bits, b)
	s.strs = append(s.strs, str)
	return nil
}
func (s *verifC16envStore) Delete(key string) error {
	if idx := s.find(key); idx >= 0 {
		s.keys = append(append([]string{}, s.keys[:idx]...), s.keys[idx+1:]...)
		s.bits = append(append([]BitVector{}, s.bits[:idx]...), s.bits[idx+1:]...)
		s.strs = append(append([]string{}, s.strs[:idx]...), s.strs[idx+1:]...)
	}
	return nil
}
func (s *verifC16envStore) Iterate(prefix string, fn storage.StateIterFunc) error {
	ks := append([]string{}, s.keys...)
	for _, k := range ks {
		if !strings.HasPrefix(k, prefix) {
			continue
		}
		stop, err := fn([]byte(k), nil)
		if err != nil {
			return err
		}
		if stop {
			return nil
		}
	}
	return nil
}
func (s *verifC16envStore) DB() driver.BatchDB { return nil }
func (s *verifC16envStore) Close() error       { return nil }

// verifC16envPub: subscribe.SubPub that drops everything.
type verifC16envPub struct{}

func (verifC16envPub) Subscribe(subscribe.INotifier, string, string, string) error { return nil }
func (verifC16envPub) Publish(string, string, string, interface{}) error           { return nil }
func (verifC16envPub) PublishArray(string, string, string, []interface{}) error     { return nil }

func verifC16envNew(self boson.Address, st *verifC16envStore, tr *verifC16Trav) *ChunkInfo {
	logger := logging.New(io.Discard, 0)
	ci := &ChunkInfo{
		addr:        self,
		stateStorer: st,
		traversal:   tr,
		logger:      logger,
		ct:          newChunkInfoTabNeighbor(),
		cd:          newChunkInfoDiscover(),
		cp:          newChunkPyramid(),
		cpd:         newPendingFinderInfo(),
		cs:          newChunkSource(st, logger),
		subPub:      verifC16envPub{},
	}
	if !zzverif.Symbolic() {
		// native replay: the real chunkPutChanUpdate needs its listeners
		ci.chunkPutChanUpdateListen(ci.cp)
		ci.chunkPutChanUpdateListen(ci.cd)
		ci.chunkPutChanUpdateListen(ci.ct)
		ci.chunkPutChanUpdateListen(ci.cs)
	}
	return ci
}
