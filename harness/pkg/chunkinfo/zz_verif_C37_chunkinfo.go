package chunkinfo

// C37 (d): "malformed peer messages never crash the node", chunk discovery and
// pyramid exchange (protocol "chunkinfo": streams chunkinforeq, chunkinforesp,
// chunkpyramid).
//
// The three stream handlers, the client side of the pyramid exchange
// (doFindChunkPyramid -> sendPyramids/sendPyramid, which reads the peer's
// ChunkPyramidResp messages) and the later local uses of the state a message
// created (getChunkInfo, isDownload, GetChunkInfoDiscoverOverlays, IsDiscover,
// DelDiscover, GetFileList, GetChunkPyramid) run on arbitrary well-typed decoded
// messages. The only obligation is the absence of a panic; the handler call is
// wrapped in zzverif.MayPanic so that every message shape gets its own label.
//
// ChunkInfo.chunkPutChanUpdate (channel hop to a listener goroutine that calls
// the method through reflect) is replaced, under gosym AND natively, by a direct
// call of the method under the same table lock (verifC37Direct). In the real
// node a panic inside the method kills the listener goroutine, i.e. the process.

import (
	"context"
	"errors"
	"fmt"
	"io"
	"runtime/debug"
	"time"

	"github.com/gauss-project/aurorafs/pkg/aurora"
	"github.com/gauss-project/aurorafs/pkg/boson"
	"github.com/gauss-project/aurorafs/pkg/chunkinfo/pb"
	"github.com/gauss-project/aurorafs/pkg/logging"
	"github.com/gauss-project/aurorafs/pkg/p2p"
	"github.com/gauss-project/aurorafs/pkg/routetab"
	"github.com/gauss-project/aurorafs/pkg/shed/driver"
	"github.com/gauss-project/aurorafs/pkg/storage"
	"github.com/gauss-project/aurorafs/pkg/subscribe"
	"github.com/gauss-project/aurorafs/pkg/zzverif"
	"github.com/gauss-project/aurorafs/pkg/zzverif/zzstream"
	"github.com/gogo/protobuf/proto"
	"github.com/prometheus/client_golang/prometheus"
)

//verif:root pkg/boson pkg/bitvector pkg/retrieval/aco pkg/chunkinfo/pb pkg/zzverif/zzstream
//verif:stub (*ChunkInfo).chunkPutChanUpdate = verifC37Direct
//verif:stub newMetrics = verifC37metrics
//verif:merge (*queue).isExists

// verifC37metrics: newMetrics reads the package variable metrics.Namespace of a
// package the engine treats as a no-op; the counters are irrelevant here.
func verifC37metrics() metrics {
	c := func() prometheus.Counter { return prometheus.NewCounter(prometheus.CounterOpts{Name: "verif"}) }
	return metrics{c(), c(), c(), c(), c(), c(), c(), c()}
}

func verifC37errEnv() error { return errors.New("verif: environment failure") }

// verifC37Direct replaces ChunkInfo.chunkPutChanUpdate: the method is called
// directly under the table lock, with the result translation of the listener
// (error -> state=false; bool false -> state=false + error).
func verifC37Direct(ci *ChunkInfo, ctx context.Context, obj chunkPutEntry, method interface{}, params ...interface{}) (res chunkPutRes) {
	res.state = true
	obj.setLock()
	defer obj.setUnLock()
	a := func(i int) boson.Address { return params[i].(boson.Address) }
	setErr := func(err error) {
		if err != nil {
			res.err = err
			res.state = false
		}
	}
	setBool := func(ok bool) {
		res.state = ok
		if !ok {
			res.err = errors.New("chunkinfo - chunkPutChanUpdateListen error")
		}
	}
	switch m := method.(type) {
	case func(boson.Address, boson.Address, []byte):
		m(a(0), a(1), params[2].([]byte))
	case func(boson.Address, boson.Address, boson.Address) error:
		setErr(m(a(0), a(1), a(2)))
	case func(boson.Address, boson.Address) error:
		setErr(m(a(0), a(1)))
	case func(boson.Address) bool:
		setBool(m(a(0)))
	case func(boson.Address, [][][]byte, map[string][]byte):
		m(a(0), params[1].([][][]byte), params[2].(map[string][]byte))
	case func(boson.Address, boson.Address, [][]byte):
		m(a(0), a(1), params[2].([][]byte))
	case func(context.Context, boson.Address) error:
		setErr(m(params[0].(context.Context), a(1)))
	default:
		panic("verifC37Direct: unexpected method type")
	}
	return res
}

// ---------------------------------------------------------------------------
// Environment (local collaborators). Every choice is a symbolic value drawn
// before the handler runs; it forks only where the code consults it.
// ---------------------------------------------------------------------------

type verifC37env struct {
	// local file: the traverser / local store know one file `root` with the
	// distinct data chunks `chunks` (in file order) and a trie of two entries
	root      boson.Address
	chunks    []boson.Address
	local     bool // the file is in the local store
	remoteOK  bool // a pyramid received for `root` verifies (bmt) and parses
	withPiece bool // ... and its last data chunk arrives inside the pyramid

	putFails       bool
	connectFailsA  bool // route.Connect to peer A fails
	connectFails   bool // route.Connect to any other node fails
	neighFails     bool
	neighCount     int
	newStreamFails bool

	// what the remote peer sends on a stream this node opens
	replies  []proto.Message
	replyErr error
	writeErr error
	streams  []*zzstream.Stream
}

func verifC37self() boson.Address  { return boson.NewAddress([]byte{0x5e, 0x1f}) }
func verifC37root() boson.Address  { return boson.NewAddress([]byte{0xf0, 0x01}) }
func verifC37inter() boson.Address { return boson.NewAddress([]byte{0xf0, 0x02}) }
func verifC37peerA() boson.Address { return boson.NewAddress([]byte{0x9e, 0xe1}) }
func verifC37peerB() boson.Address { return boson.NewAddress([]byte{0x9e, 0xe2}) }

// verifC37newEnv: how much of the local environment is free. Level 2: every
// network step this node initiates and the state store may fail
// independently. Level 1: "no connection to nodes other than peer A", "stream
// writes fail", "state store writes fail". Level 0: only the first of these.
// (The lower levels are used by scenario parts that are about the message
// contents: every free step multiplies their paths.)
func verifC37newEnv(nchunks int, level int) *verifC37env {
	e := &verifC37env{root: verifC37root()}
	for i := 0; i < nchunks; i++ {
		e.chunks = append(e.chunks, boson.NewAddress([]byte{0xd0, byte(i)}))
	}
	e.connectFails = zzverif.Bool("env.connectFails")
	e.neighFails = true
	if level >= 1 {
		e.putFails = zzverif.Bool("env.putFails")
		if zzverif.Bool("env.writeFails") {
			e.writeErr = verifC37errEnv()
		}
	}
	if level >= 2 {
		e.connectFailsA = zzverif.Bool("env.connectFailsA")
		e.neighFails = zzverif.Bool("env.neighFails")
		e.neighCount = zzverif.Choose("env.neighCount", 2) * 2 // no neighbour or two
		e.newStreamFails = zzverif.Bool("env.newStreamFails")
	}
	return e
}

// quiet: from now on the environment works (used before the "later local use"
// sections, which are about the state a message left behind).
func (e *verifC37env) quiet() {
	e.putFails, e.connectFails, e.connectFailsA, e.newStreamFails = false, false, false, false
	e.neighFails, e.writeErr = true, nil
}

// --- traverser ---

type verifC37trav struct{ e *verifC37env }

func (t verifC37trav) Traverse(context.Context, boson.Address, boson.AddressIterFunc) error {
	panic("unused")
}
func (t verifC37trav) trie() map[string][]byte {
	return map[string][]byte{t.e.root.String(): {1}, verifC37inter().String(): {2}}
}
func (t verifC37trav) data() [][][]byte {
	var seq [][]byte
	for _, c := range t.e.chunks {
		seq = append(seq, c.Bytes())
	}
	if len(seq) > 1 {
		seq = append(seq, seq[0]) // repeated content
		return [][][]byte{seq[:1], seq[1:]}
	}
	if len(seq) == 1 {
		return [][][]byte{seq}
	}
	return nil
}
func (t verifC37trav) GetPyramid(_ context.Context, a boson.Address) (map[string][]byte, error) {
	if !t.e.local || !a.Equal(t.e.root) {
		return nil, errors.New("verif: file not in the local store")
	}
	return t.trie(), nil
}
func (t verifC37trav) GetChunkHashes(_ context.Context, a boson.Address, p map[string][]byte) ([][][]byte, [][]byte, error) {
	if !a.Equal(t.e.root) {
		return nil, nil, errors.New("verif: unknown file")
	}
	if p == nil {
		if !t.e.local {
			return nil, nil, errors.New("verif: file not in the local store")
		}
		return t.data(), nil, nil
	}
	if !t.e.remoteOK {
		return nil, nil, errors.New("verif: invalid pyramid")
	}
	t.e.local = true // the real traverser stores the verified pyramid chunks
	pieces := make([][]byte, 0)
	if t.e.withPiece && len(t.e.chunks) > 0 {
		pieces = append(pieces, t.e.chunks[len(t.e.chunks)-1].Bytes())
	}
	return t.data(), pieces, nil
}

// --- state store: write-only ---

type verifC37store struct{ e *verifC37env }

func (s verifC37store) Get(string, interface{}) error { return storage.ErrNotFound }
func (s verifC37store) Put(string, interface{}) error {
	if s.e.putFails {
		return verifC37errEnv()
	}
	return nil
}
func (s verifC37store) Delete(string) error                         { return nil }
func (s verifC37store) Iterate(string, storage.StateIterFunc) error { return nil }
func (s verifC37store) DB() driver.BatchDB                          { return nil }
func (s verifC37store) Close() error                                { return nil }

// --- subscriptions: dropped ---

type verifC37pub struct{}

func (verifC37pub) Subscribe(subscribe.INotifier, string, string, string) error { return nil }
func (verifC37pub) Publish(string, string, string, interface{}) error           { return nil }
func (verifC37pub) PublishArray(string, string, string, []interface{}) error    { return nil }

// --- route table ---

type verifC37route struct{ e *verifC37env }

func (r verifC37route) Connect(_ context.Context, dest boson.Address) error {
	if dest.Equal(verifC37peerA()) {
		if r.e.connectFailsA {
			return verifC37errEnv()
		}
		return nil
	}
	if r.e.connectFails {
		return verifC37errEnv()
	}
	return nil
}
func (r verifC37route) GetTargetNeighbor(context.Context, boson.Address, int) ([]boson.Address, error) {
	if r.e.neighFails {
		return nil, verifC37errEnv()
	}
	return []boson.Address{verifC37peerA(), verifC37peerB()}[:r.e.neighCount], nil
}
func (r verifC37route) FindRoute(context.Context, boson.Address, ...time.Duration) ([]*routetab.Path, error) {
	return nil, verifC37errEnv()
}
func (r verifC37route) GetRoute(context.Context, boson.Address) ([]*routetab.Path, error) {
	panic("unused")
}
func (r verifC37route) DelRoute(context.Context, boson.Address) error { panic("unused") }
func (r verifC37route) IsNeighbor(boson.Address) bool                 { panic("unused") }
func (r verifC37route) FindUnderlay(context.Context, boson.Address, ...time.Duration) (*aurora.Address, error) {
	panic("unused")
}

// --- streamer: every stream this node opens carries the same remote replies ---

type verifC37streamer struct{ e *verifC37env }

func (v verifC37streamer) NewStream(context.Context, boson.Address, p2p.Headers, string, string, string) (p2p.Stream, error) {
	if v.e.newStreamFails {
		return nil, verifC37errEnv()
	}
	s := zzstream.New(append([]proto.Message{}, v.e.replies...)...)
	s.InErr = v.e.replyErr
	s.WriteErr = v.e.writeErr
	v.e.streams = append(v.e.streams, s)
	return s, nil
}
func (v verifC37streamer) NewRelayStream(context.Context, boson.Address, p2p.Headers, string, string, string, bool) (p2p.Stream, error) {
	panic("unused")
}
func (v verifC37streamer) NewConnChainRelayStream(context.Context, boson.Address, p2p.Headers, string, string, string) (p2p.Stream, error) {
	panic("unused")
}

// verifC37new builds the ChunkInfo as New does, without its ticker goroutines
// and listeners (chunkPutChanUpdate is a direct call here).
func verifC37new(e *verifC37env) *ChunkInfo {
	logger := logging.New(io.Discard, 0)
	st := verifC37store{e}
	return &ChunkInfo{
		addr:        verifC37self(),
		stateStorer: st,
		route:       verifC37route{e},
		metrics:     newMetrics(),
		ct:          newChunkInfoTabNeighbor(),
		cd:          newChunkInfoDiscover(),
		cp:          newChunkPyramid(),
		cpd:         newPendingFinderInfo(),
		tt:          newTimeoutTrigger(),
		streamer:    verifC37streamer{e},
		logger:      logger,
		traversal:   verifC37trav{e},
		cs:          newChunkSource(st, logger),
		pubSub:      make(map[string][]chan interface{}),
		subPub:      verifC37pub{},
	}
}

// verifC37try runs f and reports whether it panicked. Natively the recovered
// panic value and stack are printed first, so that `gosym replay` shows where
// the real code crashed.
func verifC37try(f func()) bool {
	if zzverif.Symbolic() {
		return zzverif.MayPanic(f)
	}
	return zzverif.MayPanic(func() {
		defer func() {
			if r := recover(); r != nil {
				fmt.Printf("ZZVERIF-NOTE recovered panic: %v\n%s\n", r, debug.Stack())
				panic(r)
			}
		}()
		f()
	})
}

// verifC37addr: an address field of a message. Quick tier: two arbitrary bytes
// (the length of all local addresses of the harness, so the field may or may
// not name this node, the known file or a known peer). Thorough tier: absent,
// or 1, 2 or 3 arbitrary bytes (with 32-byte fields the ChunkInfoResp harness
// stalled in the engine: 64-character symbolic hex keys).
func verifC37addr(name string) []byte {
	if zzverif.Param("addressLengths", 0, 1) == 0 {
		return zzverif.BytesN(name, 2)
	}
	n := []int{0, 1, 2, 3}[zzverif.Choose(name+".len", 4)]
	if n == 0 {
		return nil
	}
	return zzverif.BytesN(name, n)
}

// verifC37isHex: s is the hex encoding of some byte string (what
// boson.ParseHexAddress accepts).
func verifC37isHex(s string) bool {
	ok := len(s)%2 == 0
	for i := 0; i < len(s); i++ {
		c := s[i]
		if !((c >= '0' && c <= '9') || (c >= 'a' && c <= 'f') || (c >= 'A' && c <= 'F')) {
			ok = false
		}
	}
	return ok
}

func verifC37register(ci *ChunkInfo, e *verifC37env) {
	if err := ci.initChunkPyramid(context.Background(), e.root); err != nil {
		panic("verifC37: registration of the local file failed")
	}
}

// Entry points (one per stream / direction).
func VerifC37_ChunkinfoResp()          { verifC37chunkInfoResp() }
func VerifC37_ChunkinfoReq()           { verifC37chunkInfoReq() }
func VerifC37_ChunkinfoPyramid()       { verifC37pyramidHandler() }
func VerifC37_ChunkinfoPyramidClient() { verifC37pyramidClient() }

// verifC37noMessage: the peer opens the stream and closes / resets it.
func verifC37noMessage(ci *ChunkInfo, spec int, label string) {
	s := zzstream.New()
	if zzverif.Bool("readError") {
		s.InErr = verifC37errEnv()
	}
	h := ci.Protocol().StreamSpecs[spec].Handler
	panicked := verifC37try(func() {
		_ = h(context.Background(), p2p.Peer{Address: verifC37peerA()}, s)
		zzverif.Yield()
	})
	zzverif.Assert(!panicked, label)
}

// ---------------------------------------------------------------------------
// stream "chunkinforesp": a peer reports which chunks of a file other peers have
// ---------------------------------------------------------------------------

func verifC37chunkInfoResp() {
	// The handler's work falls into independent parts; each part is explored
	// with everything it depends on free and the rest fixed (part 4, the cross
	// product, is implemented but switched off in both tiers: > 120 000 paths):
	//  0 the message is for another node (Req != own address): forwarded
	//  1 for this node, about a file it knows nothing of
	//  2 for this node, about the known file, no discovery queue: the value
	//    reported under the peer's own key goes into the discovery table
	//  3 for this node, about the known file, with a discovery queue: the keys
	//    are queued as further peers to ask
	part := zzverif.Choose("part", 4+zzverif.Param("crossProduct", 0, 0))
	// the file has 1 data chunk (bit vector of 1 byte: presence bytes of length
	// 0 are too short, 1 exact, 2.. over-long); thorough tier: also 9 chunks
	nchunks := []int{1, 9}[zzverif.Choose("file.chunks", 1+zzverif.Param("nineChunks", 0, 1))]
	level := 1
	if part == 0 {
		level = 2
	} else if part == 3 {
		level = 0
	}
	e := verifC37newEnv(nchunks, level)
	ci := verifC37new(e)
	ctx := context.Background()
	need := (nchunks + 7) / 8

	if zzverif.Bool("noMessage") {
		verifC37noMessage(ci, 1, "ChunkInfoResp: no panic when the stream ends before the message")
		zzverif.Reach("C37d-chunkinforesp")
		return
	}

	// ---- local state ----
	// file: 0 not in the local store; 1 in the store, not registered yet
	// (getChunkSize registers it on demand); 2 registered
	// queue: 0 no discovery for the file; 1 a discovery runs (queue, pending
	// finder, peer A was asked = Pulling + timeout trigger, FindChunkInfo waits
	// for the first answer); 2 a discovery ran earlier or was cancelled (queue
	// with peer A pulling and peer B not asked yet, no pending finder)
	// prior: an earlier well-formed report about peer A: 0 none, 1 exact
	// length, 2 over-long bit vector
	fileState, queueState, prior := 2, 1, 1
	switch part {
	case 0:
		fileState, queueState, prior = 2, 2, 0
	case 2:
		queueState = 0
		fileState = zzverif.Choose("file.state", 3)
		prior = 0
		if fileState == 2 {
			prior = zzverif.Choose("state.prior", 3)
		}
	case 3:
		queueState = 1 + zzverif.Choose("state.queue", 2)
	case 4:
		fileState = zzverif.Choose("file.state", 3)
		queueState = zzverif.Choose("state.queue", 3)
		prior = 0
		if fileState == 2 {
			prior = zzverif.Choose("state.prior", 3)
		}
	}
	e.local = fileState > 0
	if fileState == 2 {
		verifC37register(ci, e)
	}
	if queueState > 0 {
		ci.newQueue(e.root.String())
		q := ci.getQueue(e.root.String())
		q.push(Pulling, verifC37peerA().Bytes())
		ci.tt.updateTimeOutTrigger(e.root.Bytes(), verifC37peerA().Bytes())
		if queueState == 1 {
			ci.cpd.updatePendingFinder(e.root)
			ci.syncMsg.Store(e.root.String(), make(chan bool, 1))
		} else {
			q.push(UnPull, verifC37peerB().Bytes())
		}
	}
	if prior > 0 {
		bits := zzverif.BytesN("state.priorBits", need+prior-1)
		if part == 3 {
			bits = make([]byte, need) // the queue part is not about the bits
		}
		ci.updateChunkInfo(e.root, verifC37peerA(), bits)
	}

	// ---- the message ----
	msg := &pb.ChunkInfoResp{}
	// Req: the node the answer is for
	if part == 0 {
		msg.Req = verifC37addr("msg.req")
		zzverif.Assume(!boson.NewAddress(msg.Req).Equal(ci.addr))
	} else {
		msg.Req = ci.addr.Bytes()
	}
	// RootCid: the file
	if part == 0 {
		msg.RootCid = verifC37addr("msg.root")
	} else if part == 1 {
		msg.RootCid = zzverif.BytesN("msg.root", 2)
		zzverif.Assume(!boson.NewAddress(msg.RootCid).Equal(e.root))
	} else {
		msg.RootCid = e.root.Bytes()
	}
	// Target: the reporting peer. With a queue: the asked peer A, the not yet
	// asked peer B, an unknown peer or this node itself (concrete addresses:
	// queue.popNode compares the queue entries with it inside a loop, and a
	// symbolic outcome there makes the queue length symbolic, which the engine
	// does not handle reliably - see notes). Without a queue: A or arbitrary.
	if part >= 3 {
		msg.Target = [][]byte{verifC37peerA().Bytes(), verifC37peerB().Bytes(), {0x9e, 0xe3}, ci.addr.Bytes()}[zzverif.Choose("msg.targetWho", 4)]
	} else if part == 2 && zzverif.Bool("msg.targetIsA") {
		msg.Target = verifC37peerA().Bytes()
	} else if part == 0 {
		msg.Target = verifC37addr("msg.target")
	} else {
		msg.Target = zzverif.BytesN("msg.target", 2)
	}
	ownKey := boson.NewAddress(msg.Target).String()
	valMax := zzverif.Param("valLen", 2, 3)
	keyLens := []int{0, 1, 4}
	if zzverif.Param("allKeyLengths", 0, 1) == 1 {
		keyLens = []int{0, 1, 2, 3, 4, 5, 6}
	}
	// Presence: the entry under the peer's own key (the only value that is
	// read), then 0..2 entries under arbitrary strings
	own := false
	nfree := 0
	switch part {
	case 0:
		own = zzverif.Bool("msg.ownEntry")
	case 1, 3:
		own = zzverif.Bool("msg.ownEntry")
		nfree = zzverif.Choose("msg.freeEntries", 3)
	case 2:
		own = true
	case 4:
		own = zzverif.Bool("msg.ownEntry")
		nfree = zzverif.Choose("msg.freeEntries", 3)
	}
	if own || nfree > 0 {
		msg.Presence = map[string][]byte{}
	}
	if own {
		if part == 3 {
			msg.Presence[ownKey] = make([]byte, need)
		} else {
			msg.Presence[ownKey] = zzverif.Bytes("msg.ownVal", valMax)
		}
	}
	// With a queue the further keys are taken from concrete classes (what the
	// queue code distinguishes: hex or not, this node, queued peers, new peers);
	// without a queue they are arbitrary strings (only looked up).
	keyClasses := []string{"zz", verifC37peerB().String(), "9ee3", ci.addr.String(), "", "9", verifC37peerA().String(), "9EE4"}
	for i := 0; i < nfree; i++ {
		var key string
		if part >= 3 {
			nc := len(keyClasses)
			if i > 0 && part == 3 {
				nc = 4
			}
			key = keyClasses[zzverif.Choose("msg.keyClass", nc)]
		} else {
			n := 4 // the second arbitrary key: 4 characters
			if i == 0 {
				n = keyLens[zzverif.Choose("msg.keyLen", len(keyLens))]
			}
			key = string(zzverif.BytesN("msg.key", n))
		}
		msg.Presence[key] = zzverif.Bytes("msg.val", valMax)
	}
	badKey := false
	hasOwn, ownLen := false, 0
	for k, v := range msg.Presence {
		if !verifC37isHex(k) {
			badKey = true
		}
		if k == ownKey {
			hasOwn, ownLen = true, len(v)
		}
	}
	cid := boson.NewAddress(zzverif.BytesN("later.cid", 2))
	short := hasOwn && ownLen*8 < nchunks

	// Input regions of the two defects found on the unchanged tree (see
	// notes/C37_rest.md). The message is processed when it is for this node.
	forMe := boson.NewAddress(msg.Req).Equal(ci.addr)
	rootIsFile := boson.NewAddress(msg.RootCid).Equal(e.root)
	targetIsA := boson.NewAddress(msg.Target).Equal(verifC37peerA())
	// (1) updateChunkInfo: the file's size is known (registered or in the local
	// store), there is no discovery record about the reporting peer yet, and the
	// bytes under its own key are too short for the file's bit vector
	r1 := forMe && rootIsFile && fileState > 0 && short && !(prior > 0 && targetIsA)
	// (2) updateQueue: a discovery queue exists for the file and some key is
	// not a hex string (reached unless (1) strikes first)
	r2 := forMe && rootIsFile && queueState > 0 && badKey && !r1
	zzverif.Region("C37/chunkinforesp-short-presence-bytes", r1)
	zzverif.Region("C37/chunkinforesp-presence-key-not-hex", r2)

	h := ci.Protocol().StreamSpecs[1].Handler
	panicked := verifC37try(func() {
		_ = h(ctx, p2p.Peer{Address: verifC37peerA()}, zzstream.New(msg))
		zzverif.Yield()
	})
	switch {
	case short && badKey:
		zzverif.Assert(!panicked, "ChunkInfoResp: no panic when the peer's own presence bytes are too short and a Presence key is not a hex address")
	case short:
		zzverif.Assert(!panicked, "ChunkInfoResp: no panic when the peer's own presence bytes are shorter than the file's bit vector")
	case badKey:
		zzverif.Assert(!panicked, "ChunkInfoResp: no panic when a Presence key is not a hex address")
	default:
		zzverif.Assert(!panicked, "ChunkInfoResp: no panic on well-formed presence entries")
	}
	if !panicked {
		later := verifC37try(func() {
			e.quiet()
			for _, r := range []boson.Address{e.root, boson.NewAddress(msg.RootCid)} {
				_ = ci.GetChunkInfo(r, cid)
				_ = ci.ct.isDownload(r, ci.addr)
				_ = ci.ct.isDownload(r, boson.NewAddress(msg.Target))
				_ = ci.GetChunkInfoDiscoverOverlays(r)
				_ = ci.IsDiscover(r)
			}
			ci.DelDiscover(e.root)
			zzverif.Yield()
		})
		zzverif.Assert(!later, "ChunkInfoResp: no panic in later local use of the discovery state")
	}
	zzverif.Reach("C37d-chunkinforesp")
}

// ---------------------------------------------------------------------------
// stream "chunkinforeq": a peer asks which chunks of a file this node's
// neighbourhood has
// ---------------------------------------------------------------------------

func verifC37chunkInfoReq() {
	nchunks := []int{1, 9}[zzverif.Choose("file.chunks", 2)]
	e := verifC37newEnv(nchunks, 2)
	ci := verifC37new(e)
	ctx := context.Background()

	if zzverif.Bool("noMessage") {
		verifC37noMessage(ci, 0, "ChunkInfoReq: no panic when the stream ends before the message")
		zzverif.Reach("C37d-chunkinforeq")
		return
	}
	// 0: file unknown; 1: the node serves it (own record); 2: own record and a
	// record about peer B
	served := zzverif.Choose("file.served", 3)
	e.local = served > 0
	if served > 0 {
		if err := ci.putChunkInfoNeighbor(e.root, ci.addr); err != nil && !e.putFails {
			panic("verifC37: own record")
		}
	}
	if served > 1 {
		_ = ci.putChunkInfoNeighbor(e.root, verifC37peerB())
	}
	msg := &pb.ChunkInfoReq{
		RootCid: verifC37addr("msg.root"),
		Target:  verifC37addr("msg.target"),
		Req:     verifC37addr("msg.req"),
	}
	h := ci.Protocol().StreamSpecs[0].Handler
	panicked := verifC37try(func() {
		_ = h(ctx, p2p.Peer{Address: verifC37peerA()}, zzstream.New(msg))
		zzverif.Yield()
	})
	zzverif.Assert(!panicked, "ChunkInfoReq: no panic")
	zzverif.Reach("C37d-chunkinforeq")
}

// ---------------------------------------------------------------------------
// stream "chunkpyramid"
// ---------------------------------------------------------------------------

// verifC37pyramidReplies: what a remote peer answers to a pyramid request:
// 0..maxEntries entries with arbitrary hash / chunk bytes, then the end marker,
// EOF or a stream error. (An entry with Ok set is the end marker.)
func verifC37pyramidReplies(e *verifC37env, maxEntries int) {
	chunkMax := zzverif.Param("chunkLen", 4, 9)
	symbolicHash := zzverif.Param("symbolicHash", 0, 1) == 1
	// hash classes (what the code can tell apart: the map key is its hex form;
	// updateChunkPyramid compares the keys with the file's data chunks): root
	// of the file, its intermediate chunk, a data chunk, something else, absent,
	// odd length. Thorough tier: additionally 0..4 arbitrary bytes.
	classes := [][]byte{verifC37root().Bytes(), {0xab, 0xcd}, nil, {0xd0, 0x00}, verifC37inter().Bytes(), {1, 2, 3}}
	n := zzverif.Choose("reply.entries", maxEntries+1)
	for i := 0; i < n; i++ {
		m := &pb.ChunkPyramidResp{}
		nc := len(classes)
		if i > 0 {
			nc = 3
		}
		if symbolicHash {
			nc++
		}
		if k := zzverif.Choose("reply.hashClass", nc); k < len(classes) && !(symbolicHash && k == nc-1) {
			m.Hash = classes[k]
		} else {
			m.Hash = zzverif.Bytes("reply.hash", 4)
		}
		m.Chunk = zzverif.Bytes("reply.chunk", chunkMax)
		e.replies = append(e.replies, m)
	}
	switch zzverif.Choose("reply.end", 3) {
	case 0:
		e.replies = append(e.replies, &pb.ChunkPyramidResp{Ok: true, Hash: zzverif.Bytes("reply.endHash", 2), Chunk: zzverif.Bytes("reply.endChunk", 2)})
	case 1: // EOF
	case 2:
		e.replyErr = verifC37errEnv()
	}
}

// verifC37laterCid: the chunk a later local call asks about: the first data
// chunk of the file or a chunk that is not part of it.
func verifC37laterCid() boson.Address {
	if zzverif.Bool("later.cidIsData") {
		return boson.NewAddress([]byte{0xd0, 0x00})
	}
	return boson.NewAddress([]byte{0xee, 0xee})
}

func verifC37pyramidLater(ci *ChunkInfo, e *verifC37env, root boson.Address, cid boson.Address) {
	e.quiet()
	for _, r := range []boson.Address{e.root, root} {
		_ = ci.GetChunkInfo(r, cid)
		_ = ci.ct.isDownload(r, ci.addr)
		_ = ci.ct.isDownload(r, verifC37peerB()) // a peer without a record
		_ = ci.GetChunkInfoServerOverlays(r)
		_ = ci.GetChunkInfoSource(r)
		_ = ci.GetChunkPyramid(r)
	}
	_, _ = ci.GetFileList(ci.addr)
	zzverif.Yield()
}

// verifC37pyramidHandler: server side. The request is answered from the local
// store, or forwarded when it is for another node and the file is unknown (the
// node then reads the remote answer: same code as the client side below, so
// the answers are kept smaller here).
func verifC37pyramidHandler() {
	nchunks := zzverif.Choose("file.chunks", 2) * 2 // 0: a pyramid without data chunks
	e := verifC37newEnv(nchunks, 2)
	ci := verifC37new(e)
	ctx := context.Background()

	if zzverif.Bool("noMessage") {
		verifC37noMessage(ci, 2, "ChunkPyramidReq: no panic when the stream ends before the message")
		zzverif.Reach("C37d-pyramid-handler")
		return
	}
	// file: 0 not in the local store; 1 in the store, not registered; 2 registered
	fileState := zzverif.Choose("file.state", 3)
	e.local = fileState > 0
	if fileState == 2 {
		verifC37register(ci, e)
	}
	msg := &pb.ChunkPyramidReq{RootCid: verifC37addr("msg.root")}
	// the request is for this node (answered from the local store; no remote
	// answers involved) or for arbitrary other nodes (forwarded unless the file
	// is registered)
	if zzverif.Bool("msg.forMe") {
		msg.Target = ci.addr.Bytes()
		e.replyErr = verifC37errEnv()
	} else {
		msg.Target = verifC37addr("msg.target")
		zzverif.Assume(!boson.NewAddress(msg.Target).Equal(ci.addr))
		// the remote answer is read by sendPyramid, the code the client
		// scenario explores with many more answers: here only no or one entry,
		// then the end marker or EOF
		e.remoteOK = zzverif.Bool("file.remoteOK")
		if zzverif.Bool("reply.entry") {
			e.replies = append(e.replies, &pb.ChunkPyramidResp{Hash: verifC37root().Bytes(), Chunk: zzverif.Bytes("reply.chunk", 4)})
		}
		if zzverif.Bool("reply.end") {
			e.replies = append(e.replies, &pb.ChunkPyramidResp{Ok: true})
		}
	}
	s := zzstream.New(msg)
	if zzverif.Bool("answerFails") {
		s.WriteErr = verifC37errEnv()
	}
	cid := verifC37laterCid()

	h := ci.Protocol().StreamSpecs[2].Handler
	panicked := verifC37try(func() {
		_ = h(ctx, p2p.Peer{Address: verifC37peerA()}, s)
		zzverif.Yield()
	})
	zzverif.Assert(!panicked, "ChunkPyramidReq: no panic (including the forwarded exchange)")
	if !panicked {
		later := verifC37try(func() { verifC37pyramidLater(ci, e, boson.NewAddress(msg.RootCid), cid) })
		zzverif.Assert(!later, "ChunkPyramidReq: no panic in later local use")
	}
	zzverif.Reach("C37d-pyramid-handler")
}

// verifC37pyramidClient: the node asks a peer for the pyramid of a file
// (FindChunkInfo / pyramidCheck -> doFindChunkPyramid) and reads the answer.
func verifC37pyramidClient() {
	nchunks := zzverif.Choose("file.chunks", 2) * 2 // 0: a pyramid without data chunks
	e := verifC37newEnv(nchunks, 2)
	ci := verifC37new(e)
	ctx := context.Background()

	e.remoteOK = zzverif.Bool("file.remoteOK")
	e.withPiece = zzverif.Bool("file.withPiece")
	verifC37pyramidReplies(e, 2)
	cid := verifC37laterCid()

	panicked := verifC37try(func() {
		_ = ci.doFindChunkPyramid(ctx, nil, e.root, verifC37peerA())
		zzverif.Yield()
	})
	zzverif.Assert(!panicked, "ChunkPyramidResp (client read): no panic")
	if !panicked {
		later := verifC37try(func() {
			// what netstore/retrieval report next for the file
			e.quiet()
			_ = ci.OnChunkRetrieved(cid, e.root, verifC37peerA())
			verifC37pyramidLater(ci, e, e.root, cid)
		})
		zzverif.Assert(!later, "ChunkPyramidResp (client read): no panic in later local use")
	}
	zzverif.Reach("C37d-pyramid-client")
}
