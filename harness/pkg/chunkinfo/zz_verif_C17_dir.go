package chunkinfo

import (
	"context"
	"strings"

	"github.com/gauss-project/aurorafs/pkg/boson"
	"github.com/gauss-project/aurorafs/pkg/chunkinfo/pb"
	"github.com/gauss-project/aurorafs/pkg/zzverif"
)

// VerifC17_Directory: a root that is a directory (manifest) with SEVERAL files:
// traversal.GetChunkHashes answers with one list of data-chunk hashes per file.
// File A has 1 or 2 data chunks, file B has 2; B may in addition end with A's
// first chunk (the same content in two files: one chunk, one bit). Besides the
// data chunks the file context has the root chunk and one manifest /
// intermediate chunk. As in VerifC17_Record the root becomes known through a
// pyramid response (optionally the last data chunk of the last file arrives as
// a piece) or through the first local report; then a history of
// OnChunkRetrieved(cid, root, source) with cid any chunk of the directory.
//
// The clauses are the same as in VerifC17_Record. Which bit stands for which
// chunk is NOT assumed here: a record "marks data chunk c present" iff the bit
// at the index the node itself uses for c (getCidSort - the index every lookup,
// getChunkInfo, and every peer that evaluates the advertised vector uses) is
// set. So the clause reads: for every data chunk c of every file of the
// directory that was not reported as stored, the own record (in memory,
// advertised, API, persisted) does not mark c.
func VerifC17_Directory() {
	steps := zzverif.Param("dir-steps", 2, 3)
	zzverif.Unwind(64)

	self := boson.NewAddress([]byte{0x5e, 0x1f})
	peer := boson.NewAddress([]byte{0x9e, 0xe1})
	peer2 := boson.NewAddress([]byte{0x9e, 0xe2})
	root := boson.NewAddress([]byte{0xf0, 0x01})
	inter := boson.NewAddress([]byte{0xf0, 0x02})
	a := []boson.Address{boson.NewAddress([]byte{0xa0, 0x00}), boson.NewAddress([]byte{0xa0, 0x01})}
	b := []boson.Address{boson.NewAddress([]byte{0xb0, 0x00}), boson.NewAddress([]byte{0xb0, 0x01})}

	nA := 1 + zzverif.Choose("nA", 2)
	var fileA, fileB [][]byte
	var data []boson.Address // the distinct data chunks of the directory
	for _, c := range a[:nA] {
		fileA = append(fileA, c.Bytes())
		data = append(data, c)
	}
	for _, c := range b {
		fileB = append(fileB, c.Bytes())
		data = append(data, c)
	}
	if zzverif.Choose("shared", 2) == 1 {
		fileB = append(fileB, a[0].Bytes()) // same content in both files
	}
	n := len(data)
	chunks := append(append([]boson.Address{}, data...), inter, root)

	tr := &verifC17Trav{root: root, data: [][][]byte{fileA, fileB}, trie: map[string][]byte{
		root.String():  {1},
		inter.String(): {2},
	}}
	st := &verifC17Store{}
	ci := verifC17New(self, st, tr)
	ctx := context.Background()

	reported := make([]bool, n) // data chunk i is stored locally

	flow := zzverif.Choose("flow", 2)
	if flow == 0 {
		// download: pyramid response from `peer`; the last data chunk of file B may arrive as a piece
		if zzverif.Choose("piece", 2) == 1 {
			tr.pieces = [][]byte{b[1].Bytes()}
			reported[n-1] = true
		}
		resps := []pb.ChunkPyramidResp{
			{Hash: root.Bytes(), Chunk: []byte{1}},
			{Hash: inter.Bytes(), Chunk: []byte{2}},
		}
		err := ci.onChunkPyramidResp(ctx, nil, root, peer, resps)
		zzverif.Assert(err == nil, "pyramid response accepted")
	}

	for s := 0; s < steps; s++ {
		// the reported chunk: a data chunk of either file, the manifest chunk or the root
		k := zzverif.Choose("cid", len(chunks))
		cid := chunks[k]
		// source: local read / upload (self) or a retrieval from `peer` (last
		// report only; while the file is unknown only a local report is made)
		src := self
		if s == steps-1 && zzverif.Choose("src", 2) == 1 {
			src = peer
		}
		err := ci.OnChunkRetrieved(cid, root, src)
		zzverif.Assert(err == nil, "OnChunkRetrieved succeeds")
		if k < n {
			reported[k] = true
		}
	}

	all := true
	for i := range reported {
		if !reported[i] {
			all = false
		}
	}

	selfHex := self.String()
	bv := ci.ct.presence[root.String()][selfHex]
	zzverif.Assert(bv != nil, "own record exists")
	adv := ci.ct.getNeighborChunkInfo(root)[selfHex]
	var api []byte
	for _, o := range ci.GetChunkInfoServerOverlays(root) {
		if o.Overlay == selfHex {
			api = o.Bit.B
			zzverif.Assert(o.Bit.Len == n, "own record has one bit per distinct data chunk")
		}
	}
	var db BitVector
	zzverif.Assert(st.Get(keyPrefix+root.String()+"-"+selfHex, &db) == nil, "own record is persisted")
	okMem, okAdv, okAPI, okDB := true, true, true, true
	for i := 0; i < n; i++ {
		if reported[i] {
			continue
		}
		// the bit the node (and every peer reading its vector) uses for data[i]
		idx := ci.getCidSort(root, data[i])
		if idx < 0 {
			continue // no bit stands for it: not marked
		}
		if idx < bv.Len() && bv.Get(idx) {
			okMem = false
		}
		if verifC17Bit(adv, idx) {
			okAdv = false
		}
		if verifC17Bit(api, idx) {
			okAPI = false
		}
		if verifC17Bit(db.B, idx) {
			okDB = false
		}
	}
	zzverif.Assert(okMem, "own record marks a data chunk present only if it is stored")
	zzverif.Assert(okAdv, "advertised record marks a data chunk present only if it is stored")
	zzverif.Assert(okAPI, "API record marks a data chunk present only if it is stored")
	zzverif.Assert(okDB, "persisted record marks a data chunk present only if it is stored")
	if ci.ct.isDownload(root, self) {
		zzverif.Assert(all, "file reported fully downloaded only if all data chunks are stored")
	}

	// a discovery record about another peer (well-formed presence bytes); the
	// history without one is covered by VerifC17_Record
	ci.updateChunkInfo(root, peer2, zzverif.BytesN("presence", 1))

	// deletion
	err := ci.DelFile(root, func() error { return nil })
	zzverif.Assert(err == nil, "DelFile succeeds")
	rc := root.String()
	_, inCt := ci.ct.presence[rc]
	_, inOv := ci.ct.overlays[rc]
	_, inCd := ci.cd.presence[rc]
	_, inCs := ci.cs.presence[rc]
	zzverif.Assert(!inCt && !inOv && !inCd && !inCs, "no in-memory record of the deleted file remains")
	src := ci.GetChunkInfoSource(root)
	_, roots := ci.GetFileList(self)
	zzverif.Assert(len(ci.GetChunkInfoServerOverlays(root)) == 0 && len(ci.GetChunkInfoDiscoverOverlays(root)) == 0 &&
		src.PyramidSource == "" && len(src.ChunkSource) == 0 && len(roots) == 0, "no record of the deleted file is reported")
	left := false
	for _, k := range st.keys {
		for _, pre := range []string{keyPrefix, discoverKeyPrefix, chunkSourceKeyPrefix, pyramidKeyPrefix} {
			if strings.HasPrefix(k, pre+rc) {
				left = true
			}
		}
	}
	zzverif.Assert(!left, "no persisted record of the deleted file remains")
	zzverif.Reach("C17-directory")
}
