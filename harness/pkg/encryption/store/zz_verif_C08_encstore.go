package store

import (
	"github.com/gauss-project/aurorafs/pkg/boson"
	"github.com/gauss-project/aurorafs/pkg/encryption"
	"github.com/gauss-project/aurorafs/pkg/zzverif"
)

// The decrypting store has its own copies of newSpanEncryption and
// newDataEncryption. (store.decrypt itself is replaced by a stub in the
// decrypt-length obligation of C08, zz_verif_C08.go, and directives are global
// to a property; its two lines are re-enacted here on the real copies.)

// VerifC08_EncryptStoreCopies: what encryption.chunkEncrypter.EncryptChunk
// produced (arbitrary generated key, arbitrary span, payload of a few lengths
// up to 64) decrypts back with the store's copies: the span with
// newSpanEncryption(key).Decrypt, each payload segment with the segment-wise
// Transcrypt of newDataEncryption(key).
func VerifC08_EncryptStoreCopies() {
	lens := []int{1, 32, 33, 64}
	n := lens[zzverif.Choose("len", len(lens))]
	chunk := zzverif.BytesN("chunk", boson.SpanSize+n)
	saved := make([]byte, len(chunk))
	copy(saved, chunk)

	key, encSpan, encData, err := encryption.NewChunkEncrypter().EncryptChunk(chunk)
	zzverif.Assert(err == nil && len(encSpan) == boson.SpanSize && len(encData) == boson.ChunkSize, "EncryptChunk lengths")

	span, err := newSpanEncryption(key).Decrypt(encSpan)
	zzverif.Assert(err == nil && len(span) == boson.SpanSize, "span decrypts")
	j := zzverif.Int("j")
	zzverif.Assume(j >= 0 && j < boson.SpanSize)
	zzverif.Assert(span[j] == saved[j], "span round trip (store copy)")

	d := newDataEncryption(key).(*encryption.Encryption)
	seg := 0
	if n > encryption.KeyLength {
		seg = zzverif.Choose("seg", (n+encryption.KeyLength-1)/encryption.KeyLength)
	}
	lo := seg * encryption.KeyLength
	hi := lo + encryption.KeyLength
	if hi > n {
		hi = n
	}
	out := make([]byte, hi-lo)
	err = d.Transcrypt(seg, encData[lo:hi], out)
	zzverif.Assert(err == nil, "segment decrypts")
	k := zzverif.Int("k")
	zzverif.Assume(k >= 0 && k < hi-lo)
	zzverif.Assert(out[k] == saved[boson.SpanSize+lo+k], "data round trip (store copy)")
	zzverif.Reach("C08-enc-store-copies")
}
