package store

import (
	"encoding/binary"

	"github.com/gauss-project/aurorafs/pkg/boson"
	"github.com/gauss-project/aurorafs/pkg/encryption"
	"github.com/gauss-project/aurorafs/pkg/zzverif"
)

//verif:root pkg/boson
//verif:option symbolic-make
//verif:stub decrypt = verifC08decrypt

var verifC08span uint64

// verifC08decrypt stands for the keystream layer (checked separately in
// pkg/encryption): it yields a decrypted span with an arbitrary value and a
// decrypted payload of the padded size.
func verifC08decrypt(chunkData []byte, key encryption.Key) ([]byte, []byte, error) {
	span := make([]byte, 8)
	binary.LittleEndian.PutUint64(span, verifC08span)
	return span, chunkData[boson.SpanSize:], nil
}

// verifC08want: payload length the encrypted writer stored for a chunk whose
// span is s: the data length for a leaf, 64 bytes per child reference for an
// intermediate chunk at the level of s (branching 4096, leaf size 256 KiB).
// Written with shifts, independently of the loop in decryptChunkData.
func verifC08want(s uint64) uint64 {
	const cshift = 18 // ChunkSize = 2^18
	if s <= 1<<cshift {
		return s
	}
	// capacity of one child subtree at level L (L>=1): 2^(18+12*(L-1))
	shift := uint(cshift)
	for i := 0; i < 4; i++ {
		// a chunk at this level holds up to 4096 children of capacity 2^shift
		if s <= uint64(1)<<(shift+12) {
			break
		}
		shift += 12
	}
	children := (s + (uint64(1)<<shift - 1)) >> shift
	return children * 64
}

// VerifC08_DecryptLength: for every span below 2^62 the decrypting store cuts an
// encrypted chunk's payload to exactly the stored length.
func VerifC08_DecryptLength() {
	zzverif.Unwind(8)
	zzverif.Assert(boson.ChunkSize == 1<<18 && boson.HashSize+encryption.KeyLength == 64 && boson.ChunkSize/64 == 4096, "constants")
	s := zzverif.U64("span")
	zzverif.Assume(s < 1<<54)
	verifC08span = s
	data := zzverif.BigBytes("chunk", boson.ChunkSize+boson.SpanSize)
	zzverif.Assume(len(data) == boson.ChunkSize+boson.SpanSize) // encrypted chunks are padded to the full size
	key := zzverif.BytesN("key", 32)
	out, err := decryptChunkData(data, key)
	zzverif.Assert(err == nil, "no error")
	zzverif.Assert(uint64(len(out)) == verifC08want(s)+8, "restored length = stored length")
	// the span prefix is preserved and payload bytes are the decrypted ones
	zzverif.Assert(binary.LittleEndian.Uint64(out[:8]) == s, "span preserved")
	k := zzverif.U64("k")
	zzverif.Assume(k < verifC08want(s))
	zzverif.Assert(out[8+k] == data[8+k], "payload byte preserved")
	zzverif.Reach("C08-decrypt-length")
}
