package encryption

import (
	"github.com/gauss-project/aurorafs/pkg/boson"
	"github.com/gauss-project/aurorafs/pkg/zzverif"
	"golang.org/x/crypto/sha3"
)

// C08 part (b): the keystream layer. Encrypt/Decrypt/transform/Transcrypt/Reset
// with the real hash constructor sha3.NewLegacyKeccak256 (engine: uninterpreted
// function of key||counter; natively: the real keccak).
//
// crypto/rand.Read (padding bytes, GenerateRandomKey) is redirected, in the
// engine and in the native replay build, to verifC08randRead which takes the
// bytes from zzverif inputs: padding bytes and generated keys are arbitrary.

//verif:replace-call crypto/rand.Read = verifC08randRead

// verifC08randRead fills the whole buffer (crypto/rand.Read never returns a
// short read without an error) with unconstrained bytes.
func verifC08randRead(b []byte) (int, error) {
	n := len(b)
	if n <= 256 {
		copy(b, zzverif.BytesN("rand", n))
		return n, nil
	}
	// large buffers (the real padding of 256 KiB): SMT-array copy
	src := zzverif.BigBytes("randbig", n)
	zzverif.Assume(len(src) == n)
	copy(b, src)
	return n, nil
}

func verifC08padding(sel int) int {
	switch sel {
	case 0:
		return 0
	case 1:
		return 64
	}
	return 96
}

// VerifC08_EncryptRoundTrip: for padding in {0, 64, 96}, every 32-byte key,
// every initial counter and every payload of length 0..padding (0..96 without
// padding): Encrypt succeeds, the ciphertext has exactly the padded length
// (the payload length without padding), and Decrypt with the same key (a fresh
// object, and the same object after Reset) gives the payload back as its
// prefix. Payloads longer than the padding are refused.
func VerifC08_EncryptRoundTrip() {
	padding := verifC08padding(zzverif.Choose("padding", 3))
	maxLen := padding + 2 // two lengths beyond the padding: must be refused
	if padding == 0 {
		maxLen = 96
	}
	var n int
	if zzverif.Param("all-lengths", 0, 1) == 1 {
		n = zzverif.Choose("len", maxLen+1)
	} else {
		// quick tier: the lengths around the segment (32) and padding boundaries
		var lens []int
		for _, l := range []int{0, 1, 31, 32, 33, 64, 65, 96, 97} {
			if l <= maxLen {
				lens = append(lens, l)
			}
		}
		n = lens[zzverif.Choose("len-index", len(lens))]
	}
	key := zzverif.BytesN("key", KeyLength)
	ctr := zzverif.U32("initctr")
	p := zzverif.BytesN("payload", n)
	saved := make([]byte, n) // the harness's own copy: Encrypt must not be trusted to leave p alone
	copy(saved, p)

	enc := New(key, padding, ctr, sha3.NewLegacyKeccak256)
	ct, err := enc.Encrypt(p)
	if padding > 0 && n > padding {
		zzverif.Assert(err != nil && ct == nil, "payload longer than padding is refused")
		zzverif.Reach("C08-enc-too-long")
		return
	}
	zzverif.Assert(err == nil, "encrypt succeeds")
	want := n
	if padding > 0 {
		want = padding
	}
	zzverif.Assert(len(ct) == want, "ciphertext has exactly the padded length")

	k := zzverif.Int("k")
	zzverif.Assume(k >= 0 && k < n || n == 0 && k == 0)

	// a fresh decrypter with the same key
	dec := New(key, padding, ctr, sha3.NewLegacyKeccak256)
	pt, err := dec.Decrypt(ct)
	zzverif.Assert(err == nil, "decrypt succeeds")
	zzverif.Assert(len(pt) == len(ct), "decrypt keeps the length")
	if n > 0 {
		zzverif.Assert(pt[k] == saved[k], "decrypt(encrypt(p)) has p as prefix")
	}

	// the encrypting object itself after Reset
	enc.Reset()
	pt2, err := enc.Decrypt(ct)
	zzverif.Assert(err == nil && len(pt2) == len(ct), "decrypt after Reset succeeds")
	if n > 0 {
		zzverif.Assert(pt2[k] == saved[k], "decrypt after Reset has p as prefix")
	}
	zzverif.Reach("C08-enc-roundtrip")
}

// VerifC08_EncryptChunk: chunkEncrypter.EncryptChunk with the real parameters
// (span: no padding, data: padded to ChunkSize = 256 KiB). For every span value
// and every payload of a few lengths up to 64 bytes: the generated key has 32
// bytes, the encrypted span has 8 bytes, the encrypted data has exactly
// ChunkSize bytes; the span decrypts back with newSpanEncryption(key).Decrypt and
// each payload segment decrypts back with the segment-wise Transcrypt of
// newDataEncryption(key) (a full Decrypt would be 8192 keccak applications).
func VerifC08_EncryptChunk() {
	lens := []int{0, 1, 31, 32, 33, 64}
	n := lens[zzverif.Choose("len", len(lens))]
	chunk := zzverif.BytesN("chunk", boson.SpanSize+n)
	saved := make([]byte, len(chunk))
	copy(saved, chunk)

	key, encSpan, encData, err := NewChunkEncrypter().EncryptChunk(chunk)
	zzverif.Assert(err == nil, "EncryptChunk succeeds")
	zzverif.Assert(len(key) == KeyLength, "key length")
	zzverif.Assert(len(encSpan) == boson.SpanSize, "encrypted span has 8 bytes")
	zzverif.Assert(len(encData) == boson.ChunkSize, "encrypted data has exactly the padded length")

	span, err := newSpanEncryption(key).Decrypt(encSpan)
	zzverif.Assert(err == nil && len(span) == boson.SpanSize, "span decrypts")
	j := zzverif.Int("j")
	zzverif.Assume(j >= 0 && j < boson.SpanSize)
	zzverif.Assert(span[j] == saved[j], "span round trip")

	if n > 0 {
		d := newDataEncryption(key).(*Encryption)
		seg := 0
		if n > KeyLength {
			seg = zzverif.Choose("seg", (n+KeyLength-1)/KeyLength)
		}
		lo := seg * KeyLength
		hi := lo + KeyLength
		if hi > n {
			hi = n
		}
		out := make([]byte, hi-lo)
		err = d.Transcrypt(seg, encData[lo:hi], out)
		zzverif.Assert(err == nil, "segment decrypts")
		k := zzverif.Int("k")
		zzverif.Assume(k >= 0 && k < hi-lo)
		zzverif.Assert(out[k] == saved[boson.SpanSize+lo+k], "data round trip")
	}

	zzverif.Reach("C08-enc-chunk")
}

// VerifC08_EncryptChunkTooLong: a chunk whose data part exceeds ChunkSize is
// refused by EncryptChunk (padding check of the data encryption).
func VerifC08_EncryptChunkTooLong() {
	chunk := make([]byte, boson.SpanSize+boson.ChunkSize+1)
	key, encSpan, encData, err := NewChunkEncrypter().EncryptChunk(chunk)
	zzverif.Assert(err != nil && key == nil && encSpan == nil && encData == nil, "oversized chunk refused")
	zzverif.Reach("C08-enc-chunk-too-long")
}
