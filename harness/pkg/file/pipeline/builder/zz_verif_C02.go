package builder

import (
	"context"

	"github.com/gauss-project/aurorafs/pkg/boson"
	"github.com/gauss-project/aurorafs/pkg/encryption"
	"github.com/gauss-project/aurorafs/pkg/file/pipeline"
	"github.com/gauss-project/aurorafs/pkg/file/pipeline/bmt"
	enc "github.com/gauss-project/aurorafs/pkg/file/pipeline/encryption"
	"github.com/gauss-project/aurorafs/pkg/file/pipeline/feeder"
	"github.com/gauss-project/aurorafs/pkg/file/pipeline/hashtrie"
	"github.com/gauss-project/aurorafs/pkg/file/pipeline/store"
	"github.com/gauss-project/aurorafs/pkg/storage"
	"github.com/gauss-project/aurorafs/pkg/zzverif"
)

//verif:root pkg/file/pipeline pkg/encryption

// verifC02putter is the stub storer; the wiring harness never stores anything.
type verifC02putter struct{}

func (*verifC02putter) Put(ctx context.Context, mode storage.ModePut, chs ...boson.Chunk) ([]bool, error) {
	panic("unused")
}

// verifC02constants: the format constants named by the property.
func verifC02constants() {
	zzverif.Assert(boson.ChunkSize == 32*8192 && boson.ChunkSize == 262144, "ChunkSize=32*8192=256KiB")
	zzverif.Assert(boson.Branches == 8192, "Branches=8192")
	zzverif.Assert(boson.EncryptedBranches == 4096, "EncryptedBranches=4096")
	zzverif.Assert(boson.SpanSize == 8, "SpanSize=8")
	zzverif.Assert(boson.HashSize == 32, "HashSize=32")
	zzverif.Assert(encryption.KeyLength == 32 && encryption.ReferenceSize == 64 && boson.HashSize+encryption.KeyLength == encryption.ReferenceSize, "ReferenceSize=HashSize+KeyLength=64")
	zzverif.Assert(boson.ChunkWithSpanSize == boson.ChunkSize+boson.SpanSize, "ChunkWithSpanSize")
	// a full intermediate chunk holds exactly one chunk payload of references
	zzverif.Assert(boson.Branches*boson.HashSize == boson.ChunkSize, "Branches*HashSize=ChunkSize")
	zzverif.Assert(boson.EncryptedBranches*encryption.ReferenceSize == boson.ChunkSize, "EncryptedBranches*ReferenceSize=ChunkSize")
}

// verifC02short checks a short pipeline built by fn: [encryption ->] bmt ->
// store(st, mode, next=nil).
func verifC02short(fn pipeline.PipelineFunc, encrypted bool, st *verifC02putter, mode storage.ModePut) {
	zzverif.Assert(fn != nil, "short-pipeline-func-set")
	if fn == nil {
		return
	}
	w := fn()
	if encrypted {
		n, hasEnc, ok := enc.ZZVerifC02EncNext(w)
		zzverif.Assert(ok && hasEnc, "short: first stage is the encryption writer")
		w = n
	}
	n, ok := bmt.ZZVerifC02BmtNext(w)
	zzverif.Assert(ok, "short: bmt writer")
	l, m, nn, ok := store.ZZVerifC02StoreParams(n)
	zzverif.Assert(ok && nn == nil, "short: store writer is the last stage")
	p, isStub := l.(*verifC02putter)
	zzverif.Assert(isStub && p == st && m == mode, "short: store writer uses the given storer and mode")
}

// verifC02wiring walks the chain built by the real builder and reads the
// constructed writers' parameters back.
func verifC02wiring(p pipeline.Interface, encrypted bool, st *verifC02putter, mode storage.ModePut) {
	size, bufLen, next, ok := feeder.ZZVerifC02FeederParams(p)
	zzverif.Assert(ok, "first stage is the chunk feeder")
	zzverif.Assert(size == boson.ChunkSize && size == 262144 && bufLen == size, "feeder chunk size = boson.ChunkSize")
	if encrypted {
		n, hasEnc, ok := enc.ZZVerifC02EncNext(next)
		zzverif.Assert(ok && hasEnc, "encryption writer follows the feeder")
		next = n
	}
	n, ok := bmt.ZZVerifC02BmtNext(next)
	zzverif.Assert(ok, "bmt writer")
	l, m, tw, ok := store.ZZVerifC02StoreParams(n)
	zzverif.Assert(ok, "store writer")
	sp, isStub := l.(*verifC02putter)
	zzverif.Assert(isStub && sp == st && m == mode, "store writer uses the given storer and mode")
	cs, br, rs, full, fn, ok := hashtrie.ZZVerifC02TrieParams(tw)
	zzverif.Assert(ok, "last stage is the hash trie writer")
	zzverif.Assert(cs == boson.ChunkSize, "trie chunk size = boson.ChunkSize")
	if encrypted {
		zzverif.Assert(br == boson.EncryptedBranches && br == 4096, "trie branching = EncryptedBranches (4096)")
		zzverif.Assert(rs == encryption.ReferenceSize && rs == 64, "trie reference length = ReferenceSize (64)")
	} else {
		zzverif.Assert(br == boson.Branches && br == 8192, "trie branching = Branches (8192)")
		zzverif.Assert(rs == boson.HashSize && rs == 32, "trie reference length = HashSize (32)")
	}
	zzverif.Assert(full == (rs+boson.SpanSize)*br, "trie full level = (refLen+8)*branching")
	verifC02short(fn, encrypted, st, mode)
}

// VerifC02_ConstantsAndBuilderWiring: the format constants have the values the
// property names, and newPipeline / newEncryptionPipeline (and
// NewPipelineBuilder) hand boson.ChunkSize to the feeder and boson.ChunkSize,
// Branches / EncryptedBranches, HashSize / ReferenceSize to the hash trie.
func VerifC02_ConstantsAndBuilderWiring() {
	verifC02constants()
	st := &verifC02putter{}
	ctx := context.Background()
	mode := storage.ModePutUpload
	verifC02wiring(newPipeline(ctx, st, mode), false, st, mode)
	verifC02wiring(newEncryptionPipeline(ctx, st, mode), true, st, mode)
	verifC02wiring(NewPipelineBuilder(ctx, st, mode, false), false, st, mode)
	verifC02wiring(NewPipelineBuilder(ctx, st, mode, true), true, st, mode)
	zzverif.Reach("C02-builder-wiring")
}
