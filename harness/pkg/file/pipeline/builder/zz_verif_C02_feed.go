package builder

// VerifC02_FeedPipelineReads: the bytes that reach the pipeline - and with them
// the reference - do not depend on how the reader delivers the content (sizes
// of the reads, io.EOF with or after the last data): the FeedPipeline
// obligation shared with C01 (zz_verif_common_C01.go).
func VerifC02_FeedPipelineReads() { verifC01FeedPipeline() }
