package builder

import (
	"context"
	"io"

	"github.com/gauss-project/aurorafs/pkg/zzverif"
)

//verif:root pkg/file/pipeline pkg/boson

// verifC01reader hands out a symbolic content in pieces of arbitrary
// (path-concrete) sizes; the last piece comes with io.EOF or is followed by
// (0, io.EOF) — both allowed by the io.Reader contract.
type verifC01reader struct {
	content []byte
	pos     int
}

func (r *verifC01reader) Read(p []byte) (int, error) {
	rem := len(r.content) - r.pos
	if rem == 0 {
		return 0, io.EOF
	}
	n := 1 + zzverif.Choose("piece", rem)
	copy(p, r.content[r.pos:r.pos+n])
	r.pos += n
	if r.pos == len(r.content) && zzverif.Choose("eof-with-data", 2) == 1 {
		return n, io.EOF
	}
	return n, nil
}

// verifC01pipe is a recording pipeline.Interface; write number `shortAt`
// (if >= 0) is a short write.
type verifC01pipe struct {
	got     []byte
	writes  int
	sums    int
	shortAt int
	sum     []byte
}

func (p *verifC01pipe) Write(b []byte) (int, error) {
	if p.sums > 0 {
		zzverif.Assert(false, "no write after Sum")
	}
	k := p.writes
	p.writes++
	if k == p.shortAt && len(b) > 0 {
		p.got = append(p.got, b[:len(b)-1]...)
		return len(b) - 1, nil
	}
	p.got = append(p.got, b...)
	return len(b), nil
}

func (p *verifC01pipe) Sum() ([]byte, error) {
	p.sums++
	return p.sum, nil
}

// verifC01FeedPipeline (entry points VerifC01_FeedPipeline, VerifC02_FeedPipelineReads): builder.FeedPipeline hands every byte of the reader,
// in order, to pipeline.Write (whatever the sizes of the reads and whether
// io.EOF arrives with or after the last data), calls Sum once afterwards and
// returns its result as the address; a short write aborts with an error.
func verifC01FeedPipeline() {
	zzverif.Unwind(64)
	maxL := zzverif.Param("maxlen", 4, 6)
	L := zzverif.Choose("L", maxL+1)
	content := zzverif.BytesN("content", L)
	rd := &verifC01reader{content: content}
	pp := &verifC01pipe{shortAt: zzverif.Choose("short", 3) - 1, sum: zzverif.BytesN("sum", 32)}
	addr, err := FeedPipeline(context.Background(), pp, rd)
	if pp.shortAt >= 0 && pp.shortAt < pp.writes {
		zzverif.Assert(err != nil, "short write is reported as an error")
		zzverif.Assert(pp.sums == 0, "no Sum after a short write")
		zzverif.Reach("C01-feedpipeline-short")
		return
	}
	zzverif.Assert(err == nil, "no error")
	zzverif.Assert(pp.sums == 1, "Sum called exactly once")
	zzverif.Assert(len(pp.got) == L, "all bytes written")
	if len(pp.got) == L {
		ok := true
		for i := 0; i < L; i++ {
			if pp.got[i] != content[i] {
				ok = false
			}
		}
		zzverif.Assert(ok, "bytes written = bytes read, in order")
	}
	ab := addr.Bytes()
	zzverif.Assert(len(ab) == 32, "address = Sum result (length)")
	if len(ab) == 32 {
		ok := true
		for i := 0; i < 32; i++ {
			if ab[i] != pp.sum[i] {
				ok = false
			}
		}
		zzverif.Assert(ok, "address = Sum result")
	}
	zzverif.Reach("C01-feedpipeline")
}
