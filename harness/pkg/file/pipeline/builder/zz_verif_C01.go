package builder

// VerifC01_FeedPipeline: see verifC01FeedPipeline (zz_verif_common_C01.go).
func VerifC01_FeedPipeline() { verifC01FeedPipeline() }
