package feeder

// Shared helpers of the C01 (feeder obligation) and C02 (segmentation
// independence) harnesses. No directives in this file.

import (
	"github.com/gauss-project/aurorafs/pkg/file/pipeline"
	"github.com/gauss-project/aurorafs/pkg/zzverif"
)

// verifC01rec is the recording next stage (pipeline.ChainWriter). It keeps a
// private copy of Data and Span of every ChainWrite, taken during the call
// (the feeder re-uses its output buffer between calls).
type verifC01rec struct {
	data [][]byte
	span [][]byte
	sums int
}

// verifC01sumRef is what the recorder's Sum returns (stands for the root reference).
var verifC01sumRef = []byte{0xa5, 0x5a, 0x01, 0x02}

func (r *verifC01rec) ChainWrite(p *pipeline.PipeWriteArgs) error {
	d := make([]byte, len(p.Data))
	copy(d, p.Data)
	s := make([]byte, len(p.Span))
	copy(s, p.Span)
	r.data = append(r.data, d)
	r.span = append(r.span, s)
	return nil
}

func (r *verifC01rec) Sum() ([]byte, error) {
	r.sums++
	return verifC01sumRef, nil
}

// verifC01feed pushes the writes through the REAL feeder with chunk size `size`
// into a fresh recorder, checks the Write/Sum contract and returns the recorder.
func verifC01feed(size int, ws [][]byte) *verifC01rec {
	rec := &verifC01rec{}
	f := NewChunkFeederWriter(size, rec)
	for _, b := range ws {
		n, err := f.Write(b)
		zzverif.Assert(err == nil, "write-err-nil")
		zzverif.Assert(n == len(b), "write-returns-len")
	}
	ref, err := f.Sum()
	zzverif.Assert(err == nil, "sum-err-nil")
	zzverif.Assert(rec.sums == 1 && verifC01eq(ref, verifC01sumRef), "sum-returns-next-stage-sum")
	return rec
}

func verifC01eq(a, b []byte) bool {
	if len(a) != len(b) {
		return false
	}
	eq := true
	for i := range a {
		if a[i] != b[i] {
			eq = false
		}
	}
	return eq
}

// verifC01le decodes 8 little-endian bytes (written independently of encoding/binary).
func verifC01le(b []byte) uint64 {
	var v uint64
	for i := 7; i >= 0; i-- {
		v = v<<8 | uint64(b[i])
	}
	return v
}

// verifC01at returns byte j of the concatenation of ws (0 if j is out of range).
func verifC01at(ws [][]byte, j int) byte {
	var r byte
	done := false
	for _, w := range ws {
		if !done {
			if j < len(w) {
				r = w[j]
				done = true
			} else {
				j -= len(w)
			}
		}
	}
	return r
}

// verifC01checkChunks: the recorded chunk sequence is the canonical chunking
// of the concatenation of ws.
func verifC01checkChunks(size int, rec *verifC01rec, ws [][]byte) {
	total := 0
	for _, b := range ws {
		total += len(b)
	}
	nc := len(rec.data)
	zzverif.Assert(nc >= 1, "at-least-one-chunk")
	if nc < 1 {
		return
	}
	if total == 0 {
		zzverif.Assert(nc == 1, "empty-input-one-chunk")
		d := rec.data[0]
		zzverif.Assert(len(d) == 8, "empty-input-no-payload")
		if len(d) == 8 {
			zzverif.Assert(verifC01le(d) == 0, "empty-input-zero-span")
		}
		s := rec.span[0]
		zzverif.Assert(len(s) == 8 && verifC01le(s) == 0, "empty-input-zero-span-field")
		return
	}
	off := 0
	for c := 0; c < nc; c++ {
		d := rec.data[c]
		zzverif.Assert(len(d) >= 8, "chunk-has-span-prefix")
		if len(d) < 8 {
			return
		}
		pl := len(d) - 8
		if c < nc-1 {
			zzverif.Assert(pl == size, "non-last-chunk-full")
		} else {
			zzverif.Assert(pl >= 1 && pl <= size, "last-chunk-1..size")
		}
		zzverif.Assert(verifC01le(d[:8]) == uint64(pl), "span-prefix-le-payload-length")
		s := rec.span[c]
		zzverif.Assert(len(s) == 8 && verifC01le(s) == uint64(pl), "span-field-le-payload-length")
		for p := 0; p < pl; p++ {
			zzverif.Assert(d[8+p] == verifC01at(ws, off+p), "payload-byte=content-byte")
		}
		off += pl
	}
	zzverif.Assert(off == total, "payload-total=content-total")
}
