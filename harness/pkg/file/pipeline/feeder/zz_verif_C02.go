package feeder

import (
	"github.com/gauss-project/aurorafs/pkg/file/pipeline"
	"github.com/gauss-project/aurorafs/pkg/zzverif"
)

//verif:root pkg/file/pipeline

// verifC02sameChunks: two recorded chunk sequences are identical (count,
// lengths, Data bytes, Span bytes).
func verifC02sameChunks(a, b *verifC01rec) {
	zzverif.Assert(len(a.data) == len(b.data), "same-chunk-count")
	if len(a.data) != len(b.data) {
		return
	}
	for c := range a.data {
		zzverif.Assert(verifC01eq(a.data[c], b.data[c]), "same-chunk-data")
		zzverif.Assert(verifC01eq(a.span[c], b.span[c]), "same-chunk-span")
	}
}

// VerifC02_FeederSegmentation: the chunk sequence the real feeder hands to the
// next stage depends only on the concatenated bytes: a symbolic content of
// length L written in one Write and the same content cut at arbitrary
// positions 0 <= c1 <= c2 (<= c3) <= L into 3 (thorough: 4) writes (empty
// pieces allowed, so 1 and 2 writes are included) give identical recorded
// chunk sequences. Any two segmentations are thereby equal to each other
// (both equal the single-write sequence).
func VerifC02_FeederSegmentation() {
	zzverif.Unwind(200)
	size := 4
	if zzverif.Param("sizes", 1, 2) == 2 && zzverif.Choose("size8", 2) == 1 {
		size = 8
	}
	maxL := 3 * size
	pieces := zzverif.Param("pieces", 3, 4)
	L := zzverif.Choose("L", maxL+1)
	content := zzverif.BytesN("content", L)
	// cut positions, non-decreasing
	ws := make([][]byte, 0, pieces)
	prev := 0
	for i := 0; i < pieces-1; i++ {
		c := prev + zzverif.Choose("cut", L-prev+1)
		ws = append(ws, content[prev:c])
		prev = c
	}
	ws = append(ws, content[prev:])
	one := verifC01feed(size, [][]byte{content})
	seg := verifC01feed(size, ws)
	verifC02sameChunks(one, seg)
	// and the single-write sequence is the canonical chunking of the content
	verifC01checkChunks(size, one, [][]byte{content})
	zzverif.Reach("C02-feeder-segmentation")
}

// ZZVerifC02FeederParams exposes the construction parameters of a chunk
// feeder (used by the C02 builder wiring harness in package builder).
func ZZVerifC02FeederParams(p pipeline.Interface) (size, bufLen int, next pipeline.ChainWriter, ok bool) {
	f, ok := p.(*chunkFeeder)
	if !ok {
		return 0, 0, nil, false
	}
	return f.size, len(f.buffer), f.next, true
}
