package feeder

import (
	"github.com/gauss-project/aurorafs/pkg/zzverif"
)

//verif:root pkg/file/pipeline

// VerifC01_Feeder: k writes of symbolic length 0..2*size+1 and symbolic
// content through the real chunk feeder (real `size` parameter 4, thorough
// also 8) into a recording next stage. The recorded chunks are exactly the
// canonical chunking of the concatenated writes: payload concatenation equals
// the input, every chunk but the last is full, the 8-byte prefix and the Span
// field are the little-endian payload length, empty input gives one chunk with
// a zero span and no payload, Write returns (len(b), nil).
func VerifC01_Feeder() {
	zzverif.Unwind(200)
	size := 4
	if zzverif.Param("sizes", 1, 2) == 2 && zzverif.Choose("size8", 2) == 1 {
		size = 8
	}
	kmax := zzverif.Param("kmax", 3, 4) // number of writes: quick <= 3; thorough <= 4 at size 4, <= 3 at size 8
	if size == 8 {
		kmax = 3
	}
	k := zzverif.Choose("k", kmax+1)
	ws := make([][]byte, 0, k)
	for i := 0; i < k; i++ {
		n := zzverif.Choose("len", 2*size+2) // write length 0..2*size+1, concrete per path
		ws = append(ws, zzverif.BytesN("w", n))
	}
	rec := verifC01feed(size, ws)
	verifC01checkChunks(size, rec, ws)
	zzverif.Reach("C01-feeder")
}
