package hashtrie

// Shared helpers of the C01-2 / C02-b hash-trie shape harnesses. No directives
// in this file.

import (
	"bytes"
	"encoding/binary"

	"github.com/gauss-project/aurorafs/pkg/file/pipeline"
	"github.com/gauss-project/aurorafs/pkg/zzverif"
)

// verifC01putLE writes v little-endian into b[0:8] (independent of encoding/binary).
func verifC01putLE(b []byte, v uint64) {
	for i := 0; i < 8; i++ {
		b[i] = byte(v >> (8 * uint(i)))
	}
}

func verifC01getLE(b []byte) uint64 {
	var v uint64
	for i := 7; i >= 0; i-- {
		v = v<<8 | uint64(b[i])
	}
	return v
}

// verifC01uf32 builds 32 bytes from four uninterpreted 64-bit functions
// <pfx>0..<pfx>3 of the byte string data (len(data) concrete on the path).
func verifC01uf32(pfx string, data []byte) []byte {
	out := make([]byte, 32)
	verifC01putLE(out[0:8], zzverif.U64Of(pfx+"0", data))
	verifC01putLE(out[8:16], zzverif.U64Of(pfx+"1", data))
	verifC01putLE(out[16:24], zzverif.U64Of(pfx+"2", data))
	verifC01putLE(out[24:32], zzverif.U64Of(pfx+"3", data))
	return out
}

// verifC01hash stands for "BMT hash of the (span-prefixed) chunk data":
// an uninterpreted function of the data. The code under test (through the
// stub short pipeline) and the specification use the same function.
func verifC01hash(data []byte) []byte { return verifC01uf32("h", data) }

// verifC01key stands for the encryption key the short encryption pipeline
// draws for an intermediate chunk; modelled as an uninterpreted function of
// the chunk's plaintext data.
func verifC01key(data []byte) []byte { return verifC01uf32("k", data) }

// verifC01enc stands for the chunk encryption of the encrypting short pipeline
// (pkg/file/pipeline/encryption: "p.Data = c // replace the verbatim data with
// the encrypted data"): the result has the length of the plaintext chunk, its
// first 8 bytes (the encrypted span) are an uninterpreted function of the
// plaintext chunk - so they are NOT the clear-text span in general - and the
// payload is the plaintext payload xor-ed with the key stream key[i%32].
func verifC01enc(data, key []byte) []byte {
	c := make([]byte, len(data))
	if len(data) < 8 {
		return c
	}
	verifC01putLE(c[0:8], zzverif.U64Of("e", data))
	for i := 8; i < len(data); i++ {
		c[i] = data[i] ^ key[(i-8)%len(key)]
	}
	return c
}

// verifC01chunk is one intermediate chunk as seen by the short pipeline / as
// demanded by the specification.
type verifC01chunk struct {
	data []byte // span prefix + child references
	span []byte // the Span field (short pipeline) / nil (specification)
}

// verifC01short is the stub "short pipeline". It records what it is given.
// Plain (refLen 32), standing for bmt -> store: Ref = H(Data), Data and Span
// untouched. Encrypted (refLen 64), standing for encrypt -> bmt -> store:
// Key = K(Data), Data is REPLACED by a fresh slice holding the encrypted chunk
// E(Data, Key) (as the real encryption writer does), Ref = H(E(Data, Key)),
// Span keeps the clear-text span ("always unecrypted span", pipeline.PipeWriteArgs).
type verifC01short struct {
	refLen int
	seen   []verifC01chunk
}

func (s *verifC01short) ChainWrite(p *pipeline.PipeWriteArgs) error {
	d := make([]byte, len(p.Data))
	copy(d, p.Data)
	sp := make([]byte, len(p.Span))
	copy(sp, p.Span)
	s.seen = append(s.seen, verifC01chunk{data: d, span: sp})
	if s.refLen == 64 {
		key := verifC01key(d)
		c := verifC01enc(d, key)
		p.Data = c
		p.Key = key
		p.Ref = verifC01hash(c)
		return nil
	}
	p.Ref = verifC01hash(d)
	return nil
}

func (s *verifC01short) Sum() ([]byte, error) { panic("unused") }

// verifC01node: a reference (refLen bytes: address, followed by the key when
// encrypted) together with the length of the content below it.
type verifC01node struct {
	ref  []byte
	span []byte // 8 bytes, little-endian
}

// verifC01spec is the SPECIFICATION of the tree format: the references of one
// level are grouped left to right into chunks of at most `branching`
// children; a chunk is span(8 bytes LE, sum of the child spans) ++ child
// references and is referenced by H(chunk), or, with encryption (refLen 64),
// by H(E(chunk, K(chunk))) ++ K(chunk) - the address of the ENCRYPTED chunk
// followed by the key, while the spans that are summed are always the
// clear-text ones; a group consisting
// of a single reference is not wrapped but carried up unchanged; repeat until
// one reference is left. Every chunk built is appended to *out.
func verifC01spec(level []verifC01node, branching, refLen int, out *[]verifC01chunk) verifC01node {
	if len(level) == 1 {
		return level[0]
	}
	var up []verifC01node
	for i := 0; i < len(level); i += branching {
		j := i + branching
		if j > len(level) {
			j = len(level)
		}
		if j-i == 1 {
			up = append(up, level[i])
			continue
		}
		var span uint64
		data := make([]byte, 8, 8+refLen*(j-i))
		for _, c := range level[i:j] {
			span += binary.LittleEndian.Uint64(c.span)
			data = append(data, c.ref...)
		}
		binary.LittleEndian.PutUint64(data[:8], span)
		var ref []byte
		if refLen == 64 {
			key := verifC01key(data)
			ref = append(verifC01hash(verifC01enc(data, key)), key...)
		} else {
			ref = verifC01hash(data)
		}
		*out = append(*out, verifC01chunk{data: data})
		up = append(up, verifC01node{ref: ref, span: data[:8]})
	}
	return verifC01spec(up, branching, refLen, out)
}

// verifC01trie drives the REAL hash trie writer (NewHashTrieWriter with the
// given branching and refLen, leaf chunk size chunkSize) with n leaf
// references and compares the result of Sum with the specification tree.
func verifC01trie(chunkSize, branching, refLen, n int) {
	short := &verifC01short{refLen: refLen}
	tw := NewHashTrieWriter(chunkSize, branching, refLen, func() pipeline.ChainWriter { return short })

	leaves := make([]verifC01node, 0, n)
	for i := 0; i < n; i++ {
		span := uint64(chunkSize)
		if i == n-1 {
			span = zzverif.U64("lastspan")
			zzverif.Assume(span >= 1 && span <= uint64(chunkSize))
		}
		ref := zzverif.BytesN("ref", 32)
		var key []byte
		if refLen == 64 {
			key = zzverif.BytesN("key", 32)
		}
		sb := make([]byte, 8)
		binary.LittleEndian.PutUint64(sb, span)
		err := tw.ChainWrite(&pipeline.PipeWriteArgs{Ref: ref, Key: key, Span: sb})
		zzverif.Assert(err == nil, "chainwrite-err-nil")
		full := make([]byte, 0, refLen)
		full = append(full, ref...)
		full = append(full, key...)
		leaves = append(leaves, verifC01node{ref: full, span: sb})
	}
	root, err := tw.Sum()
	zzverif.Assert(err == nil, "sum-err-nil")

	var want []verifC01chunk
	spec := verifC01spec(leaves, branching, refLen, &want)
	zzverif.Assert(bytes.Equal(root, spec.ref), "root-reference=specification-tree-root")

	// intermediate chunks handed to the short pipeline
	zzverif.Assert(len(short.seen) == len(want), "intermediate-chunk-count=specification")
	for _, c := range short.seen {
		zzverif.Assert(len(c.data) >= 8 && (len(c.data)-8)%refLen == 0, "chunk-len=8+refLen*children")
		if len(c.data) < 8 {
			continue
		}
		children := (len(c.data) - 8) / refLen
		zzverif.Assert(children >= 2 && children <= branching, "chunk-children-2..branching")
		zzverif.Assert(len(c.span) == 8 && bytes.Equal(c.span, c.data[:8]), "chunk-span-field=span-prefix")
		// the chunk is one of the specification's chunks (so its span prefix is
		// the sum of its children's spans)
		found := false
		for _, s := range want {
			if bytes.Equal(c.data, s.data) {
				found = true
			}
		}
		zzverif.Assert(found, "chunk-is-a-specification-chunk(span=sum-of-child-spans)")
	}
}
