package hashtrie

import (
	"github.com/gauss-project/aurorafs/pkg/boson"
	"github.com/gauss-project/aurorafs/pkg/file/pipeline"
	"github.com/gauss-project/aurorafs/pkg/zzverif"
)

//verif:root pkg/file/pipeline pkg/boson

// VerifC02_HashTrieFormat (C02-b = C01-2): the reference returned by the real
// hash trie writer is the root of the format's specification tree
// (intermediate chunks = 8-byte little-endian span, the sum of the child
// spans, followed by at most `branching` child references; a lone reference
// is carried up unchanged), for unencrypted references (refLen 32; C02 speaks
// of unencrypted content). See verifC01trie / verifC01spec.
func VerifC02_HashTrieFormat() {
	zzverif.Unwind(400)
	nb := zzverif.Param("branchings", 2, 3)
	branching := 2 + zzverif.Choose("branching", nb)
	nmax := zzverif.Param("nmax", 9, 28)
	n := 1 + zzverif.Choose("n", nmax)
	verifC01trie(boson.ChunkSize, branching, 32, n)
	zzverif.Reach("C02-hashtrie-format")
}

// ZZVerifC02TrieParams exposes the construction parameters of a hash trie
// writer (used by the C02 builder wiring harness in package builder).
func ZZVerifC02TrieParams(w pipeline.ChainWriter) (chunkSize, branching, refSize, fullChunk int, fn pipeline.PipelineFunc, ok bool) {
	h, ok := w.(*hashTrieWriter)
	if !ok {
		return 0, 0, 0, 0, nil, false
	}
	return h.chunkSize, h.branching, h.refSize, h.fullChunk, h.pipelineFn, true
}
