package hashtrie

import (
	"github.com/gauss-project/aurorafs/pkg/boson"
	"github.com/gauss-project/aurorafs/pkg/zzverif"
)

//verif:root pkg/file/pipeline pkg/boson

// VerifC01_HashTrieShape: n leaf references (symbolic references/keys, spans
// chunkSize except a symbolic last span in 1..chunkSize) written to the real
// hash trie writer with branching in {2,3} (thorough also 4) and refLen in
// {32, 64}; the short pipeline is a stub computing Ref = H(Data) (K(Data) as
// key). Sum returns the root of the specification tree; every intermediate
// chunk has 8+refLen*children bytes and the span of its children.
func VerifC01_HashTrieShape() {
	zzverif.Unwind(400)
	nb := zzverif.Param("branchings", 2, 3)
	branching := 2 + zzverif.Choose("branching", nb)
	refLen := 32
	if zzverif.Choose("encrypted", 2) == 1 {
		refLen = 64
	}
	nmax := zzverif.Param("nmax", 9, 28)
	n := 1 + zzverif.Choose("n", nmax)
	verifC01trie(boson.ChunkSize, branching, refLen, n)
	zzverif.Reach("C01-hashtrie")
}
