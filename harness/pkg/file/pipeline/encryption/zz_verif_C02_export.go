package encryption

import "github.com/gauss-project/aurorafs/pkg/file/pipeline"

// ZZVerifC02EncNext exposes the next stage of an encryption writer (C02 builder wiring harness).
func ZZVerifC02EncNext(w pipeline.ChainWriter) (next pipeline.ChainWriter, hasEncrypter bool, ok bool) {
	e, ok := w.(*encryptionWriter)
	if !ok {
		return nil, false, false
	}
	return e.next, e.enc != nil, true
}
