package encryption

import (
	"github.com/gauss-project/aurorafs/pkg/encryption"
	"github.com/gauss-project/aurorafs/pkg/file/pipeline"
	"github.com/gauss-project/aurorafs/pkg/zzverif"
)

// Stage contract of the encryption writer on which the C01 composition argument
// relies (feeder -> [encryption ->] bmt -> store -> hash trie): the next stage
// receives Data = encrypted span || encrypted data, the key, and the SAME
// clear-text span the feeder handed over - the hash trie sums these spans.
// The feeder passes Span as a sub-slice of Data (Span = d[:8], Data = d[:8+n]),
// so the stage must not write into the buffer it was given.

// verifC01enc: chunk encrypter stub returning arbitrary ciphertext of a given
// length (the real encrypter pads short chunks to the chunk size and leaves
// full chunks at their length: both shapes are drawn by the harness).
type verifC01enc struct {
	key        encryption.Key
	span, data []byte
}

func (e verifC01enc) EncryptChunk([]byte) (encryption.Key, []byte, []byte, error) {
	return e.key, e.span, e.data, nil
}

type verifC01encNext struct {
	calls           int
	data, span, key []byte
}

func (n *verifC01encNext) ChainWrite(p *pipeline.PipeWriteArgs) error {
	n.calls++
	n.data = append([]byte{}, p.Data...)
	n.span = append([]byte{}, p.Span...)
	n.key = append([]byte{}, p.Key...)
	return nil
}
func (n *verifC01encNext) Sum() ([]byte, error) { return nil, nil }

func VerifC01_EncryptionWriterContract() {
	n := zzverif.Choose("plain-len", 5) // clear-text data bytes after the span
	pad := zzverif.Choose("padding", 3) // ciphertext longer than the clear text by 0..2 bytes
	d := zzverif.BytesN("chunk", 8+n)   // span || data as the feeder passes it
	encSpan := zzverif.BytesN("enc-span", 8)
	encData := zzverif.BytesN("enc-data", n+pad)
	key := zzverif.BytesN("key", 32)
	aliased := zzverif.Bool("span-aliases-data")

	span0 := append([]byte{}, d[:8]...)
	args := &pipeline.PipeWriteArgs{Data: d}
	if aliased {
		args.Span = d[:8] // what the feeder does
	} else {
		args.Span = append([]byte{}, d[:8]...)
	}
	next := &verifC01encNext{}
	w := NewEncryptionWriter(verifC01enc{key: key, span: encSpan, data: encData}, next)
	err := w.ChainWrite(args)
	zzverif.Assert(err == nil && next.calls == 1, "encryption stage forwards the chunk once")
	ok := len(next.span) == 8
	for i := 0; ok && i < 8; i++ {
		ok = next.span[i] == span0[i]
	}
	zzverif.Assert(ok, "next stage receives the clear-text span")
	ok = len(next.data) == 8+n+pad
	for i := 0; ok && i < 8; i++ {
		ok = next.data[i] == encSpan[i]
	}
	for i := 0; ok && i < n+pad; i++ {
		ok = next.data[8+i] == encData[i]
	}
	zzverif.Assert(ok, "next stage receives encrypted span || encrypted data")
	ok = len(next.key) == 32
	for i := 0; ok && i < 32; i++ {
		ok = next.key[i] == key[i]
	}
	zzverif.Assert(ok, "next stage receives the chunk key")
	zzverif.Reach("C01-encryption-writer-contract")
}
