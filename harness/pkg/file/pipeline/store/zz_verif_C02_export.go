package store

import (
	"github.com/gauss-project/aurorafs/pkg/file/pipeline"
	"github.com/gauss-project/aurorafs/pkg/storage"
)

// ZZVerifC02StoreParams exposes the fields of a store writer (C02 builder wiring harness).
func ZZVerifC02StoreParams(w pipeline.ChainWriter) (l storage.Putter, mode storage.ModePut, next pipeline.ChainWriter, ok bool) {
	s, ok := w.(*storeWriter)
	if !ok {
		return nil, 0, nil, false
	}
	return s.l, s.mode, s.next, true
}
