package bmt

import "github.com/gauss-project/aurorafs/pkg/file/pipeline"

// ZZVerifC02BmtNext exposes the next stage of a BMT writer (C02 builder wiring harness).
func ZZVerifC02BmtNext(w pipeline.ChainWriter) (next pipeline.ChainWriter, ok bool) {
	b, ok := w.(*bmtWriter)
	if !ok {
		return nil, false
	}
	return b.next, true
}
