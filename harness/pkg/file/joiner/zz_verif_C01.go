package joiner

// C01, read-back half: the joiner returns exactly the stored bytes at any
// offset/length for single-chunk files and two-level trees, and the reported
// size is the span (bodies shared with C07 in zz_verif_common_C07.go).

func VerifC01_JoinerLeafReadAt()     { verifC07LeafReadAt() }
func VerifC01_JoinerSeekRead()       { verifC07SeekRead() }
func VerifC01_JoinerTwoLevelReadAt() { verifC07TwoLevelReadAt() }
