package joiner

// C09 (file part, joiner level), files with TWO levels of intermediate chunks
// at the PRODUCTION parameters: 32-byte references with 8192 references per
// intermediate chunk (plain content) and 64-byte references with 4096 per
// chunk (encrypted content). Same construction as the C01 read-back harness
// (zz_verif_C01_deep.go):
//
//	root = [ I , X ]          I = one FULL intermediate chunk: `branching` full data chunks
//	X    = T                  (k = 0: the lone last data chunk, carried up by hashtrie.Sum,
//	                           i.e. a data chunk that is the sibling of an intermediate chunk)
//	X    = I2 = [ D.. , T ]   (k >= 1: k full data chunks and the last data chunk T)
//
// i.e. the tree the hash-trie writer produces for branching+k full chunks plus
// a last chunk of 1..ChunkSize bytes (shape: C01 hash-trie obligation). Child
// 0, child 5 and the last child of I have their own references, all other
// children of I share one reference (the same data chunk written many times).
// All references differ in their first byte and are zero elsewhere, so a
// reference is identified by its first byte ("key").
//
// One walk with both collectors switched on (SetSaveDataChunks: the list
// GetChunkHashes returns per file; SetSaveEdgeChunks: the map GetPyramid
// fills, to which GetPyramid itself adds the root chunk). Obligations, as in
// the statement:
//   - every chunk written for the file is reported, no other chunk is,
//   - the data-chunk list holds data chunks of the file only, the pyramid set
//     non-data chunks of the file only (subsets of the written chunks),
//   - data-chunk list and pyramid set together cover all written chunks.

import (
	"bytes"
	"context"
	"encoding/binary"

	"github.com/gauss-project/aurorafs/pkg/boson"
	"github.com/gauss-project/aurorafs/pkg/storage"
	"github.com/gauss-project/aurorafs/pkg/zzverif"
)

// verifC09store: chunks by the first byte of their reference. Intermediate
// chunks are held as built (span ‖ references); a data chunk is held by its
// size only and materialised (span ‖ zero payload) when it is fetched: a
// correct walk never fetches a data chunk and no walk looks at its content.
type verifC09store struct {
	inter [verifC09keys][]byte // intermediate chunks: span ‖ references
	leaf  [verifC09keys]int    // data chunks: size (0 = none)
}

func (g *verifC09store) Get(ctx context.Context, mode storage.ModeGet, addr boson.Address) (boson.Chunk, error) {
	b := addr.Bytes()
	if len(b) == 0 || b[0] >= verifC09keys {
		return nil, storage.ErrNotFound
	}
	if d := g.inter[b[0]]; d != nil {
		return boson.NewChunk(addr, d), nil
	}
	if size := g.leaf[b[0]]; size > 0 {
		d := make([]byte, 8+size)
		binary.LittleEndian.PutUint64(d[:8], uint64(size))
		return boson.NewChunk(addr, d), nil
	}
	return nil, storage.ErrNotFound
}

const (
	verifC09kDefault = 0 // reference of "every other" full data chunk below I (all zero bytes)
	verifC09kFirst   = 1 // child 0 of I
	verifC09kFifth   = 2 // child 5 of I
	verifC09kLast    = 3 // child branching-1 of I
	verifC09kI       = 4
	verifC09kI2      = 5
	verifC09kTail    = 6
	verifC09kRoot    = 7
	verifC09kD2      = 8  // +i: full data chunk i below I2
	verifC09keys     = 16 // keys in use: 0..15
)

func verifC09ref(refLen int, key byte) []byte {
	r := make([]byte, refLen)
	r[0] = key
	return r
}

// verifC09refs: the keyed references, and the test "b is one of them".
type verifC09refs [verifC09keys][]byte

func verifC09allRefs(refLen int) *verifC09refs {
	t := &verifC09refs{}
	for key := 0; key < verifC09keys; key++ {
		t[key] = verifC09ref(refLen, byte(key))
	}
	return t
}

func (t *verifC09refs) has(b []byte) bool {
	return len(b) > 0 && b[0] < verifC09keys && bytes.Equal(b, t[b[0]])
}

func VerifC09_DeepIterate() {
	zzverif.Unwind(32)
	const cs = int64(boson.ChunkSize)
	refLen := 32
	if zzverif.Choose("encrypted", 2) == 1 {
		refLen = 64
	}
	branching := boson.ChunkSize / refLen // what the upload pipeline is built with (C02 wiring harness)
	k := zzverif.Choose("k", zzverif.Param("deepk", 2, 3))
	tl := zzverif.Int("lastsize")
	zzverif.Assume(tl >= 1 && tl <= boson.ChunkSize)

	// role of every key: 0 = not written, 1 = data chunk, 2 = non-data (pyramid) chunk
	var role [verifC09keys]int
	g := &verifC09store{}
	for _, key := range []byte{verifC09kDefault, verifC09kFirst, verifC09kFifth, verifC09kLast} {
		g.leaf[key] = boson.ChunkSize
		role[key] = 1
	}
	ispan := int64(branching) * cs
	ichunk := make([]byte, 8+branching*refLen) // zero-initialised: every reference = verifC09kDefault
	binary.LittleEndian.PutUint64(ichunk[:8], uint64(ispan))
	ichunk[8+0] = verifC09kFirst
	ichunk[8+5*refLen] = verifC09kFifth
	ichunk[8+(branching-1)*refLen] = verifC09kLast
	g.inter[verifC09kI] = ichunk
	role[verifC09kI] = 2

	g.leaf[verifC09kTail] = tl
	role[verifC09kTail] = 1

	var root []byte
	root = append(root, verifC09ref(refLen, verifC09kI)...)
	if k == 0 {
		root = append(root, verifC09ref(refLen, verifC09kTail)...)
	} else {
		i2 := make([]byte, 8, 8+(k+1)*refLen)
		binary.LittleEndian.PutUint64(i2, uint64(int64(k)*cs+int64(tl)))
		for i := 0; i < k; i++ {
			g.leaf[verifC09kD2+i] = boson.ChunkSize
			role[verifC09kD2+i] = 1
			i2 = append(i2, verifC09ref(refLen, byte(verifC09kD2+i))...)
		}
		i2 = append(i2, verifC09ref(refLen, verifC09kTail)...)
		g.inter[verifC09kI2] = i2
		role[verifC09kI2] = 2
		root = append(root, verifC09ref(refLen, verifC09kI2)...)
	}
	size := ispan + int64(k)*cs + int64(tl)
	role[verifC09kRoot] = 2
	rootAddr := boson.NewAddress(verifC09ref(refLen, verifC09kRoot))
	j := &joiner{addr: rootAddr, span: size, rootData: root, refLength: refLen, getter: g, ctx: context.Background()}

	j.SetSaveDataChunks()
	// same list with room for all references: the engine re-allocates a grown
	// slice at every append beyond 256 elements (quadratic for 8192 appends)
	j.dataChunks = append(make([][]byte, 0, branching+k+8), j.dataChunks...)
	edge := make(map[string][]byte)
	j.SetSaveEdgeChunks(edge)

	refs := verifC09allRefs(refLen)
	var seen [verifC09keys]int
	foreign := 0
	err := j.IterateChunkAddresses(func(a boson.Address) error {
		b := a.Bytes()
		if !refs.has(b) {
			foreign++
			return nil
		}
		seen[b[0]]++
		return nil
	})
	zzverif.Assert(err == nil, "traversal succeeds")
	zzverif.Assert(foreign == 0, "no chunk outside the file reported")
	allReported, noneForeign := true, true
	for key := 0; key < verifC09keys; key++ {
		if role[key] != 0 && seen[key] == 0 {
			allReported = false
		}
		if role[key] == 0 && seen[key] != 0 {
			noneForeign = false
		}
	}
	zzverif.Assert(noneForeign, "no chunk outside the file reported")
	zzverif.Assert(allReported, "every chunk written for the file is reported")

	// the two collections, as sets of keys
	var inData, inPyramid [verifC09keys]bool
	dataOnly := true
	for _, h := range j.GetDataChunks() {
		if !refs.has(h) {
			dataOnly = false
			continue
		}
		if role[h[0]] != 1 {
			dataOnly = false
		}
		inData[h[0]] = true
	}
	// GetPyramid: pyramid = {root chunk} + the collected edge chunks
	pyramidOnly := true
	matched := 0
	for key := 0; key < verifC09keys; key++ {
		if _, ok := edge[boson.NewAddress(refs[key]).String()]; ok {
			if role[key] != 2 {
				pyramidOnly = false
			}
			inPyramid[key] = true
			matched++
		}
	}
	inPyramid[verifC09kRoot] = true
	// len(edge) == matched: every entry of the edge map is one of the keyed references
	covered := true
	for key := 0; key < verifC09keys; key++ {
		if role[key] != 0 && !inData[key] && !inPyramid[key] {
			covered = false
		}
	}
	zzverif.Assert(covered, "data-chunk list and pyramid set together cover every written chunk")
	zzverif.Assert(dataOnly, "data-chunk list holds data chunks of the file only")
	zzverif.Assert(pyramidOnly && len(edge) == matched, "pyramid set holds non-data chunks of the file only")
	zzverif.Reach("C09-deep-iterate")
}
