package joiner

// C01, read-back half, files with TWO levels of intermediate chunks at the
// production parameters: 32-byte references with 8192 references per
// intermediate chunk (plain content, builder.newPipeline passes boson.Branches)
// and 64-byte references with 4096 per chunk (encrypted content,
// builder.newEncryptionPipeline passes boson.Branches/2).
//
// The file is
//
//	root = [ I , X ]          I = one FULL intermediate chunk: `branching` full data chunks
//	X    = T                  (k = 0: the lone last data chunk, carried up by hashtrie.Sum)
//	X    = I2 = [ D.. , T ]   (k >= 1: k full data chunks and the last data chunk T)
//
// i.e. the tree the hash trie writer produces for branching+k full chunks plus
// a last chunk of 1..ChunkSize bytes (shape: C01 hash-trie obligation).
// The data of I is a zero-initialised SMT array (make of 262144 bytes) in which
// three references are set, so all loops over its 4096/8192 references run on
// concrete data; the getter stub stands for the (decrypting) store and hands
// out clear-text chunks, as in the two-level harness.

import (
	"context"
	"encoding/binary"
	"io"

	"github.com/gauss-project/aurorafs/pkg/boson"
	"github.com/gauss-project/aurorafs/pkg/storage"
	"github.com/gauss-project/aurorafs/pkg/zzverif"
)

// verifC01store: chunks by the first byte of their reference (all references
// the harness builds differ in the first byte; the rest is zero).
type verifC01store struct {
	data [256][]byte // span ‖ payload
}

func (g *verifC01store) Get(ctx context.Context, mode storage.ModeGet, addr boson.Address) (boson.Chunk, error) {
	d := g.data[addr.Bytes()[0]]
	if d == nil {
		return nil, storage.ErrNotFound
	}
	return boson.NewChunk(addr, d), nil
}

// verifC01deepTree describes the file; see the comment at the top.
type verifC01deepTree struct {
	g         *verifC01store
	j         *joiner
	refLen    int
	branching int64 // references per full intermediate chunk
	k         int   // full data chunks below I2
	tail      int64 // size of the last data chunk
	size      int64
}

const (
	verifC01kDefault = 0 // reference of "every other" full data chunk below I (all zero bytes)
	verifC01kFirst   = 1 // child 0 of I
	verifC01kFifth   = 2 // child 5 of I
	verifC01kLast    = 3 // child branching-1 of I
	verifC01kI       = 4
	verifC01kI2      = 5
	verifC01kTail    = 6
	verifC01kD2      = 7 // +i: full data chunk i below I2
)

func verifC01inter(span int64, refs []byte) []byte {
	d := make([]byte, 8, 8+len(refs))
	binary.LittleEndian.PutUint64(d, uint64(span))
	return append(d, refs...)
}

func verifC01ref(refLen int, key byte) []byte {
	r := make([]byte, refLen)
	r[0] = key
	return r
}

// verifC01deep builds the tree. tailSym: the size of the last chunk is a
// symbolic value in 1..ChunkSize, otherwise it is the concrete tailSize.
func verifC01deep(refLen int, k int, tailSym bool, tailSize int) *verifC01deepTree {
	const cs = int64(boson.ChunkSize)
	t := &verifC01deepTree{g: &verifC01store{}, refLen: refLen, k: k}
	// the branching factors the upload pipeline is built with (C02 wiring harness)
	switch refLen {
	case 32:
		t.branching = boson.Branches
	case 64:
		t.branching = boson.Branches / 2
	default:
		panic("verifC01deep: refLen")
	}
	// full data chunks below I: four different contents
	for _, key := range []byte{verifC01kDefault, verifC01kFirst, verifC01kFifth, verifC01kLast} {
		t.g.data[key] = verifC07leaf("full", boson.ChunkSize)
	}
	ispan := t.branching * cs
	ichunk := make([]byte, 8+int(t.branching)*refLen) // zero-initialised: every reference = verifC01kDefault
	binary.LittleEndian.PutUint64(ichunk[:8], uint64(ispan))
	ichunk[8+0] = verifC01kFirst
	ichunk[8+5*refLen] = verifC01kFifth
	ichunk[8+(int(t.branching)-1)*refLen] = verifC01kLast
	t.g.data[verifC01kI] = ichunk

	// last data chunk
	var tl int
	if tailSym {
		tl = zzverif.Int("lastsize")
		zzverif.Assume(tl >= 1 && tl <= boson.ChunkSize)
	} else {
		tl = tailSize
	}
	t.tail = int64(tl)
	t.g.data[verifC01kTail] = verifC07leaf("tail", tl)

	var root []byte
	root = append(root, verifC01ref(refLen, verifC01kI)...)
	if k == 0 {
		root = append(root, verifC01ref(refLen, verifC01kTail)...)
	} else {
		var refs []byte
		for i := 0; i < k; i++ {
			t.g.data[verifC01kD2+i] = verifC07leaf("full2", boson.ChunkSize)
			refs = append(refs, verifC01ref(refLen, byte(verifC01kD2+i))...)
		}
		refs = append(refs, verifC01ref(refLen, verifC01kTail)...)
		t.g.data[verifC01kI2] = verifC01inter(int64(k)*cs+t.tail, refs)
		root = append(root, verifC01ref(refLen, verifC01kI2)...)
	}
	t.size = ispan + int64(k)*cs + t.tail
	t.j = &joiner{span: t.size, rootData: root, refLength: refLen, getter: t.g, ctx: context.Background()}
	return t
}

// at returns the content byte at file position p (0 <= p < size): the oracle,
// plain position arithmetic on the list of data chunks.
func (t *verifC01deepTree) at(p int64) byte {
	const cs = int64(boson.ChunkSize)
	c := p / cs // index of the data chunk
	in := 8 + p%cs
	if c < t.branching {
		key := verifC01kDefault
		switch c {
		case 0:
			key = verifC01kFirst
		case 5:
			key = verifC01kFifth
		case t.branching - 1:
			key = verifC01kLast
		}
		return t.g.data[key][in]
	}
	c -= t.branching
	if c < int64(t.k) {
		return t.g.data[verifC01kD2+int(c)][in]
	}
	return t.g.data[verifC01kTail][in]
}

// VerifC01_JoinerDeepFixedReadAt: reads at concrete offsets/lengths (one path
// each) inside, across and behind the full sub-trie I, symbolic chunk contents;
// both reference lengths; k = 0 and k = 1; last chunk of 1, 100 or ChunkSize
// bytes. ReadAt and Seek+Read. (The joiner is built directly with span = file
// size, as in the other read-back harnesses: the reported size is not at stake here.)
func VerifC01_JoinerDeepFixedReadAt() {
	zzverif.Unwind(16)
	const cs = int64(boson.ChunkSize)
	refLen := 32
	if zzverif.Choose("encrypted", 2) == 1 {
		refLen = 64
	}
	k := zzverif.Choose("k", zzverif.Param("deepk", 2, 3))
	tails := []int{100, boson.ChunkSize, 1}
	tail := tails[zzverif.Choose("tail", zzverif.Param("deeptails", 2, 3))]
	t := verifC01deep(refLen, k, false, tail)
	b := t.branching * cs // first byte behind the full sub-trie

	type rd struct{ off, n int64 }
	reads := []rd{
		{17, 50},                     // inside the first chunk
		{5*cs - 20, 64},              // across a chunk boundary inside I
		{b - 30, 30},                 // the last bytes of I
		{b - 30, 80},                 // across the boundary between I and what follows
		{b, 100},                     // the first bytes behind I
		{t.size - 1, 1},              // the last byte
		{t.size - 40, 100},           // a read that is cut at the end of the file
		{b + cs - 10, 20},            // (k >= 1) across the chunk boundary below I2 / cut or past the end
		{t.size, 5},                  // at the end
		{(t.branching - 1) * cs, 64}, // the first bytes of the last chunk of I
	}
	r := reads[zzverif.Choose("read", len(reads))]

	buf := make([]byte, r.n)
	n, err := t.j.ReadAt(buf, r.off)
	if r.off >= t.size {
		zzverif.Assert(n == 0 && err == io.EOF, "EOF at or past the end")
	} else {
		want := t.size - r.off
		if r.n < want {
			want = r.n
		}
		zzverif.Assert(err == nil, "no error inside the file")
		zzverif.Assert(int64(n) == want, "returns min(len, size-off) bytes")
		for i := int64(0); i < want && i < int64(n); i++ {
			zzverif.Assert(buf[i] == t.at(r.off+i), "bytes equal the content")
		}
		// read after seek
		pos, serr := t.j.Seek(r.off, io.SeekStart)
		zzverif.Assert(serr == nil && pos == r.off, "seek lands on the requested position")
		buf2 := make([]byte, r.n)
		n2, err2 := t.j.Read(buf2)
		zzverif.Assert(err2 == nil && int64(n2) == want, "Read after Seek returns min(len, size-position) bytes")
		for i := int64(0); i < want && i < int64(n2); i++ {
			zzverif.Assert(buf2[i] == t.at(r.off+i), "Read after Seek returns the bytes at the position")
		}
	}
	zzverif.Reach("C01-deep-fixed")
}

// VerifC01_JoinerDeepTailReadAt (thorough tier only): the same trees, last
// chunk of ANY size 1..ChunkSize, buffer of ANY length 0..2^20 (capacity >=
// length), reads at concrete offsets at and behind the end of the full sub-trie
// I (one path each): the joiner has to skip I as a whole (its size is the
// brute-forced branch size of the root) and, for k >= 1, to descend through I2.
// The offset is concrete because a symbolic offset makes the engine wander
// (lazily, inside a region merge) through the 4096/8192 references of I; see
// notes/C01.md.
func VerifC01_JoinerDeepTailReadAt() {
	zzverif.Unwind(24)
	if zzverif.Param("deeptail", 0, 1) == 0 {
		zzverif.Reach("C01-deep-tail (thorough tier only)")
		return
	}
	const cs = int64(boson.ChunkSize)
	refLen := 32
	if zzverif.Choose("encrypted", 2) == 1 {
		refLen = 64
	}
	k := zzverif.Choose("k", 2)
	t := verifC01deep(refLen, k, true, 0)
	b := t.branching * cs

	full := zzverif.BigBytes("buf", 1<<20)
	l := zzverif.Int("len")
	zzverif.Assume(l >= 0 && l <= len(full))
	buf := full[:l]
	offs := []int64{0, 1, 99, 100, cs - 1, cs, cs + 5}
	off := b + offs[zzverif.Choose("off", len(offs))]
	n, err := t.j.ReadAt(buf, off)
	zzverif.Assert(n <= len(buf), "reports at most len(buffer)")
	if off >= t.size {
		zzverif.Assert(n == 0 && err == io.EOF, "EOF at or past the end")
	} else {
		want := t.size - off
		if int64(l) < want {
			want = int64(l)
		}
		zzverif.Assert(err == nil, "no error inside the file")
		zzverif.Assert(int64(n) == want, "returns min(len, size-off) bytes")
		i := zzverif.Int("i")
		zzverif.Assume(i >= 0 && i < n && i < l)
		q := off + int64(i) - b // position behind I
		c := int(q / cs)
		var d []byte
		if c < k {
			d = t.g.data[verifC01kD2+c]
		} else {
			d = t.g.data[verifC01kTail]
		}
		zzverif.Assert(buf[i] == d[8+q%cs], "bytes equal the content")
	}
	zzverif.Reach("C01-deep-tail")
}
