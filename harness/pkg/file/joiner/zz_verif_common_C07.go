package joiner

import (
	"bytes"
	"context"
	"encoding/binary"
	"io"

	"github.com/gauss-project/aurorafs/pkg/boson"
	"github.com/gauss-project/aurorafs/pkg/storage"
	"github.com/gauss-project/aurorafs/pkg/zzverif"
)

//verif:root pkg/boson
//verif:option symbolic-make

// VerifC07_LeafReadAt: a file stored in a single (root = leaf) chunk of any size
// 0..ChunkSize, read at any offset into a buffer of any length and capacity.
func verifC07LeafReadAt() {
	zzverif.Unwind(16)
	data := zzverif.BigBytes("data", boson.ChunkSize)
	size := int64(len(data))
	j := &joiner{span: size, rootData: data, refLength: boson.HashSize}

	full := zzverif.BigBytes("buf", 1<<20)
	l := zzverif.Int("len")
	zzverif.Assume(l >= 0 && l <= len(full))
	b := full[:l] // len(b) = l, cap(b) = len(full) >= l
	off := zzverif.I64("off")
	zzverif.Assume(off >= 0) // negative offsets are outside the io.ReaderAt precondition

	// pre-state of a byte outside the buffer's length but inside its capacity
	out := zzverif.Int("outside")
	zzverif.Assume(out >= l && out < cap(b))
	pre := full[out]

	zzverif.Region("C07/cap-greater-than-len", cap(b) > l)
	n, err := j.ReadAt(b, off)

	zzverif.Assert(n <= len(b), "reports at most len(buffer)")
	zzverif.Assert(full[out] == pre, "writes nothing beyond len(buffer)")
	if off >= size {
		zzverif.Assert(n == 0 && err == io.EOF, "EOF at or past the end")
	} else {
		want := size - off
		if int64(l) < want {
			want = int64(l)
		}
		zzverif.Assert(err == nil, "no error inside the file")
		zzverif.Assert(int64(n) == want, "returns min(len, size-off) bytes")
		i := zzverif.Int("i")
		zzverif.Assume(i >= 0 && i < n && i < l)
		zzverif.Assert(b[i] == data[off+int64(i)], "bytes equal the content")
	}
	zzverif.Reach("C07-leaf-readat")
}

// VerifC07_SeekRead: Seek lands on the requested position or reports an error and
// leaves the position unchanged; sequential reads neither skip nor repeat.
func verifC07SeekRead() {
	zzverif.Unwind(16)
	data := zzverif.BigBytes("data", boson.ChunkSize)
	size := int64(len(data))
	j := &joiner{span: size, rootData: data, refLength: boson.HashSize}
	start := zzverif.I64("start")
	zzverif.Assume(start >= 0 && start <= size)
	j.off = start

	whence := zzverif.Int("whence")
	offset := zzverif.I64("offset")
	pos, err := j.Seek(offset, whence)
	var want int64
	valid := true
	switch whence {
	case 0:
		want = offset
	case 1:
		// overflow of start+offset is outside the claim
		zzverif.Assume(offset <= (1<<62) && offset >= -(1<<62))
		want = start + offset
	case 2:
		zzverif.Assume(offset <= (1<<62) && offset >= -(1<<62))
		want = size - offset // end offsets are counted backwards
	default:
		valid = false
	}
	if err == nil {
		zzverif.Assert(valid && pos == want && j.off == want, "seek lands on the requested position")
		zzverif.Assert(want >= 0 && want <= size, "accepted positions are inside the file")
	} else {
		zzverif.Assert(j.off == start, "failed seek leaves the position unchanged")
		zzverif.Assert(!valid || want < 0 || want > size, "in-range seeks succeed")
	}

	// two sequential reads from the current position
	cur := j.off
	b1 := zzverif.BigBytes("b1", 64)
	n1, e1 := j.Read(b1)
	if e1 == nil {
		w1 := size - cur
		if int64(len(b1)) < w1 {
			w1 = int64(len(b1))
		}
		zzverif.Assert(int64(n1) == w1, "Read returns min(len, size-position) bytes")
		zzverif.Assert(j.off == cur+int64(n1), "Read advances by n")
		k := zzverif.Int("k")
		zzverif.Assume(k >= 0 && k < n1)
		zzverif.Assert(b1[k] == data[cur+int64(k)], "first read returns the bytes at the position")
		b2 := zzverif.BigBytes("b2", 64)
		n2, e2 := j.Read(b2)
		if e2 == nil {
			m := zzverif.Int("m")
			zzverif.Assume(m >= 0 && m < n2)
			zzverif.Assert(b2[m] == data[cur+int64(n1)+int64(m)], "second read continues where the first ended")
		}
	} else {
		zzverif.Assert(e1 == io.EOF && n1 == 0 && cur >= size || len(b1) == 0, "only EOF at the end")
	}
	zzverif.Reach("C07-seek-read")
}

// ---- two-level tree: one intermediate root with r leaf children ----

type verifC07getter struct {
	addrs [][]byte
	data  [][]byte // span ‖ payload per child
	calls int
}

func (g *verifC07getter) Get(ctx context.Context, mode storage.ModeGet, addr boson.Address) (boson.Chunk, error) {
	g.calls++
	for i, a := range g.addrs {
		if bytes.Equal(a, addr.Bytes()) {
			return boson.NewChunk(addr, g.data[i]), nil
		}
	}
	return nil, storage.ErrNotFound
}

func verifC07leaf(name string, size int) []byte {
	payload := zzverif.BigBytes(name, boson.ChunkSize)
	zzverif.Assume(len(payload) == size)
	d := make([]byte, 8+size)
	binary.LittleEndian.PutUint64(d[:8], uint64(size))
	copy(d[8:], payload)
	return d
}

// VerifC07_TwoLevelReadAt: a file of r-1 full chunks plus a last chunk of any
// size, read at any offset into a buffer of any length.
func verifC07TwoLevelReadAt() {
	zzverif.Unwind(24)
	r := 2 + zzverif.Choose("children", zzverif.Param("maxchildren", 1, 2)) // 2 (quick) or 2..3
	g := &verifC07getter{}
	var root []byte
	last := zzverif.Int("lastsize")
	zzverif.Assume(last >= 1 && last <= boson.ChunkSize)
	total := int64(0)
	for c := 0; c < r; c++ {
		addr := make([]byte, boson.HashSize)
		addr[0] = byte(0xc0 + c)
		size := boson.ChunkSize
		if c == r-1 {
			size = last
		}
		g.addrs = append(g.addrs, addr)
		g.data = append(g.data, verifC07leaf("child", size))
		root = append(root, addr...)
		total += int64(size)
	}
	j := &joiner{span: total, rootData: root, refLength: boson.HashSize, getter: g, ctx: context.Background()}

	full := zzverif.BigBytes("buf", 1<<20)
	l := zzverif.Int("len")
	zzverif.Assume(l >= 0 && l <= len(full))
	b := full[:l]
	off := zzverif.I64("off")
	zzverif.Assume(off >= 0)
	n, err := j.ReadAt(b, off)
	zzverif.Assert(n <= len(b), "reports at most len(buffer)")
	if off >= total {
		zzverif.Assert(n == 0 && err == io.EOF, "EOF at or past the end")
	} else {
		want := total - off
		if int64(l) < want {
			want = int64(l)
		}
		zzverif.Assert(err == nil, "no error inside the file")
		zzverif.Assert(int64(n) == want, "returns min(len, size-off) bytes")
		i := zzverif.Int("i")
		zzverif.Assume(i >= 0 && i < n && i < l)
		p := off + int64(i) // position in the file
		c := int(p / int64(boson.ChunkSize))
		zzverif.Assert(b[i] == g.data[c][8+p%int64(boson.ChunkSize)], "bytes equal the content")
		// the sequential reader from the same position returns the same count
		// (also when the range crosses a chunk boundary)
		j.off = off
		n2, err2 := j.Read(b)
		zzverif.Assert(err2 == nil && int64(n2) == want, "Read returns min(len, size-position) bytes across chunk boundaries")
		zzverif.Assert(j.off == off+int64(n2), "Read advances by n across chunk boundaries")
	}
	zzverif.Reach("C07-two-level-readat")
}
