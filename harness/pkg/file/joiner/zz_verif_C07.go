package joiner

// C07: file reads honour the reader contract (bodies in zz_verif_common_C07.go).

func VerifC07_LeafReadAt()     { verifC07LeafReadAt() }
func VerifC07_SeekRead()       { verifC07SeekRead() }
func VerifC07_TwoLevelReadAt() { verifC07TwoLevelReadAt() }
