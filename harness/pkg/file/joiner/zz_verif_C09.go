package joiner

import (
	"context"
	"encoding/binary"

	"github.com/gauss-project/aurorafs/pkg/boson"
	"github.com/gauss-project/aurorafs/pkg/zzverif"
)

//verif:option big-cell-arrays

// C09 (file part, joiner level): traversal reports every chunk of the file
// exactly once and classifies exactly the leaves as data chunks.

// verifC09addr encodes (level, index) into a 32-byte address.
func verifC09addr(level byte, idx int) []byte {
	a := make([]byte, boson.HashSize)
	a[0] = level
	binary.BigEndian.PutUint32(a[1:5], uint32(idx))
	return a
}

// VerifC09_ThreeLevel: root -> 2 intermediate chunks -> leaves. The first
// intermediate chunk is full (8192 leaves), the second has k leaves (k = 1..3)
// with a last leaf of any size.
func VerifC09_ThreeLevel() {
	zzverif.Unwind(32)
	const branches = boson.Branches
	k := 1 + zzverif.Choose("lastleaves", zzverif.Param("maxlast", 2, 3))
	lastLeaf := zzverif.I64("lastleafsize")
	zzverif.Assume(lastLeaf >= 1 && lastLeaf <= boson.ChunkSize)
	fullSpan := int64(branches) * boson.ChunkSize
	lastSpan := int64(k-1)*boson.ChunkSize + lastLeaf
	// a second-level subtree of a single leaf is carried up unchanged by the writer, so k >= 2
	zzverif.Assume(k >= 2)

	g := &verifC07getter{}
	mk := func(id int, n int, span int64) []byte {
		d := make([]byte, 8+n*boson.HashSize)
		binary.LittleEndian.PutUint64(d[:8], uint64(span))
		for i := 0; i < n; i++ {
			copy(d[8+i*boson.HashSize:], verifC09addr(2, id*branches+i))
		}
		return d
	}
	g.addrs = [][]byte{verifC09addr(1, 0), verifC09addr(1, 1)}
	g.data = [][]byte{mk(0, branches, fullSpan), mk(1, k, lastSpan)}
	root := append(append([]byte{}, g.addrs[0]...), g.addrs[1]...)
	rootAddr := boson.NewAddress(verifC09addr(0, 0))
	j := &joiner{addr: rootAddr, span: fullSpan + lastSpan, rootData: root, refLength: boson.HashSize, getter: g, ctx: context.Background()}
	j.SetSaveDataChunks()
	// same list with room for all references: the engine re-allocates a grown
	// slice at every append beyond 256 elements (quadratic for 8192 appends)
	j.dataChunks = append(make([][]byte, 0, branches+k+8), j.dataChunks...)

	var rootSeen int
	var midSeen [2]int
	leafSeen := make([]int, branches+k)
	other := 0
	err := j.IterateChunkAddresses(func(a boson.Address) error {
		b := a.Bytes()
		idx := int(binary.BigEndian.Uint32(b[1:5]))
		switch {
		case b[0] == 0 && idx == 0:
			rootSeen++
		case b[0] == 1 && idx < 2:
			midSeen[idx]++
		case b[0] == 2 && idx < branches+k:
			leafSeen[idx]++
		default:
			other++
		}
		return nil
	})
	zzverif.Assert(err == nil, "traversal succeeds")
	zzverif.Assert(rootSeen == 1 && midSeen[0] == 1 && midSeen[1] == 1, "root and intermediate chunks reported exactly once")
	zzverif.Assert(other == 0, "no chunk outside the file reported")
	allOnce := true
	for i := range leafSeen {
		if leafSeen[i] != 1 {
			allOnce = false
		}
	}
	zzverif.Assert(allOnce, "every leaf reported exactly once")
	dc := j.GetDataChunks()
	zzverif.Assert(len(dc) == branches+k, "data-chunk list has exactly the leaves")
	inOrder := true
	for i := range dc {
		want := verifC09addr(2, i)
		for x := 0; x < 5; x++ {
			if dc[i][x] != want[x] {
				inOrder = false
			}
		}
	}
	zzverif.Assert(inOrder, "data chunks are the leaf references in file order (no intermediate reference among them)")
	zzverif.Reach("C09-three-level")
}

// VerifC09_TwoLevel: root with r leaf children, last of any size: root and
// children reported once each; data chunks = the children in order.
func VerifC09_TwoLevel() {
	zzverif.Unwind(32)
	r := 2 + zzverif.Choose("children", 3)
	last := zzverif.I64("lastsize")
	zzverif.Assume(last >= 1 && last <= boson.ChunkSize)
	var root []byte
	for i := 0; i < r; i++ {
		root = append(root, verifC09addr(2, i)...)
	}
	j := &joiner{addr: boson.NewAddress(verifC09addr(0, 0)), span: int64(r-1)*boson.ChunkSize + last, rootData: root, refLength: boson.HashSize, getter: &verifC07getter{}, ctx: context.Background()}
	j.SetSaveDataChunks()
	seen := make([]int, r)
	rootSeen, other := 0, 0
	err := j.IterateChunkAddresses(func(a boson.Address) error {
		b := a.Bytes()
		idx := int(binary.BigEndian.Uint32(b[1:5]))
		switch {
		case b[0] == 0:
			rootSeen++
		case b[0] == 2 && idx < r:
			seen[idx]++
		default:
			other++
		}
		return nil
	})
	zzverif.Assert(err == nil && rootSeen == 1 && other == 0, "root once, nothing foreign")
	dc := j.GetDataChunks()
	zzverif.Assert(len(dc) == r, "data chunks = children")
	for i := 0; i < r; i++ {
		zzverif.Assert(seen[i] == 1, "child reported exactly once")
		zzverif.Assert(int(binary.BigEndian.Uint32(dc[i][1:5])) == i, "children in order")
	}
	zzverif.Reach("C09-two-level")
}

// VerifC09_Leaf: a single-chunk file reports just the root, which is its only data chunk.
func VerifC09_Leaf() {
	data := zzverif.BigBytes("data", boson.ChunkSize)
	j := &joiner{addr: boson.NewAddress(verifC09addr(0, 0)), span: int64(len(data)), rootData: data, refLength: boson.HashSize, ctx: context.Background()}
	j.SetSaveDataChunks()
	n := 0
	err := j.IterateChunkAddresses(func(a boson.Address) error { n++; return nil })
	zzverif.Assert(err == nil && n == 1, "root reported once")
	dc := j.GetDataChunks()
	zzverif.Assert(len(dc) == 1 && dc[0][0] == 0, "the root is the only data chunk")
	zzverif.Reach("C09-leaf")
}
