package joiner

import (
	"context"
	"encoding/binary"
	"errors"

	"github.com/gauss-project/aurorafs/pkg/boson"
	"github.com/gauss-project/aurorafs/pkg/file"
	"github.com/gauss-project/aurorafs/pkg/storage"
)

// C06 (b): model of the file-tree walk started by joiner.New +
// IterateChunkAddresses inside traversal.GetChunkHashes. The real joiner reads
// the root chunk, then follows the references found in intermediate chunks and
// fetches each through the getter (the pyramid store marks every fetched entry
// as seen). The model fetches the root, then the addresses VerifC06Visit chosen
// by the harness (symbolic: any addresses, present in the pyramid or not), and
// may end with an error (VerifC06WalkFails). A failing Get aborts the walk like
// in the real code. Same package, named parameters: mirrored natively.

//verif:stub New = verifC06New

var (
	VerifC06Visit     [][]byte
	VerifC06WalkFails bool
)

var verifC06errWalk = errors.New("verif: walk failed")

type verifC06joiner struct {
	file.Joiner
	ctx    context.Context
	getter storage.Getter
	mode   storage.ModeGet
}

func verifC06New(ctx context.Context, getter storage.Getter, getMode storage.ModeGet, address boson.Address) (file.Joiner, int64, error) {
	rootChunk, err := getter.Get(ctx, getMode, address)
	if err != nil {
		return nil, 0, err
	}
	span := int64(binary.LittleEndian.Uint64(rootChunk.Data()[:boson.SpanSize]))
	return &verifC06joiner{ctx: ctx, getter: getter, mode: getMode}, span, nil
}

func (j *verifC06joiner) SetSaveDataChunks() {}

func (j *verifC06joiner) IterateChunkAddresses(fn boson.AddressIterFunc) error {
	for _, a := range VerifC06Visit {
		addr := boson.NewAddress(a)
		if _, err := j.getter.Get(j.ctx, j.mode, addr); err != nil {
			return err
		}
		if err := fn(addr); err != nil {
			return err
		}
	}
	if VerifC06WalkFails {
		return verifC06errWalk
	}
	return nil
}

func (j *verifC06joiner) GetDataChunks() [][]byte { return nil }
