// Package zzstream is a p2p.Stream stub for gosym harnesses.
//
// Under gosym the protobuf reader/writer intrinsics call VerifPop / VerifPush,
// so decoded messages are exchanged as Go values (the wire decoder is not
// executed). Natively (replay) Read serves the length-delimited encoding of the
// queued messages and Write collects raw bytes which Written decodes.
package zzstream

import (
	"bytes"
	"io"

	"github.com/gauss-project/aurorafs/pkg/p2p"
	"github.com/gauss-project/aurorafs/pkg/p2p/protobuf"
	"github.com/gauss-project/aurorafs/pkg/zzverif"
	"github.com/gogo/protobuf/proto"
)

type Stream struct {
	In       []proto.Message // what the remote peer sends, in order
	InErr    error           // returned once In is exhausted (nil => io.EOF)
	WriteErr error           // if non-nil every write fails with it
	Out      []proto.Message // engine: messages written by the code under test

	inBuf    bytes.Buffer
	inDone   bool
	outBuf   bytes.Buffer
	Closed   bool
	FullCl   bool
	ResetCl  bool
	Hdrs     p2p.Headers
	RespHdrs p2p.Headers
}

func New(in ...proto.Message) *Stream { return &Stream{In: in} }

// VerifPop is called by the engine's protobuf reader intrinsic.
func (s *Stream) VerifPop() (proto.Message, error) {
	if len(s.In) == 0 {
		if s.InErr != nil {
			return nil, s.InErr
		}
		return nil, io.EOF
	}
	m := s.In[0]
	s.In = s.In[1:]
	return m, nil
}

// VerifPush is called by the engine's protobuf writer intrinsic.
func (s *Stream) VerifPush(m proto.Message) error {
	if s.WriteErr != nil {
		return s.WriteErr
	}
	s.Out = append(s.Out, m)
	return nil
}

func (s *Stream) Read(p []byte) (int, error) {
	if !s.inDone {
		s.inDone = true
		w := protobuf.NewWriter(&s.inBuf)
		for _, m := range s.In {
			if err := w.WriteMsg(m); err != nil {
				panic("zzstream: cannot marshal queued message: " + err.Error())
			}
		}
	}
	n, err := s.inBuf.Read(p)
	if err == io.EOF && s.InErr != nil {
		return n, s.InErr
	}
	return n, err
}

func (s *Stream) Write(p []byte) (int, error) {
	if s.WriteErr != nil {
		return 0, s.WriteErr
	}
	return s.outBuf.Write(p)
}

// Written returns the messages written so far; newMsg creates an empty message
// of the expected type for position i (native decoding only).
func (s *Stream) Written(newMsg func(i int) proto.Message) []proto.Message {
	if zzverif.Symbolic() {
		return s.Out
	}
	var out []proto.Message
	r := protobuf.NewReader(bytes.NewReader(s.outBuf.Bytes()))
	for i := 0; ; i++ {
		m := newMsg(i)
		if m == nil {
			break
		}
		if err := r.ReadMsg(m); err != nil {
			break
		}
		out = append(out, m)
	}
	return out
}

func (s *Stream) Close() error                  { s.Closed = true; return nil }
func (s *Stream) FullClose() error              { s.FullCl = true; return nil }
func (s *Stream) Reset() error                  { s.ResetCl = true; return nil }
func (s *Stream) Headers() p2p.Headers          { return s.Hdrs }
func (s *Stream) ResponseHeaders() p2p.Headers  { return s.RespHdrs }
