// Package zzverif is the harness API of the gosym symbolic executor.
//
// Under gosym every function here is intercepted by the engine (inputs become
// SMT variables, Assert becomes a solver query). Natively (go test -overlay)
// the functions read their values from the replay file named by VERIF_REPLAY,
// so that a solver model can be replayed against the compiled real code.
package zzverif

import (
	"encoding/hex"
	"encoding/json"
	"fmt"
	"math/big"
	"os"
	"runtime"
	"strconv"
	"time"
)

type ufEntry struct {
	Key string `json:"key"`
	Val string `json:"val"`
}

type replayFile struct {
	Harness string               `json:"harness"`
	Tier    string               `json:"tier"`
	Vars    map[string]string    `json:"vars"`
	UFs     map[string][]ufEntry `json:"ufs"`
	Label   string               `json:"label"`
}

var (
	rf       replayFile
	loaded   bool
	counts   = map[string]int{}
	Failures []string
	Reached  []string
	Observed []string
	// AssumeFailed is set when a replayed model violates an assumption natively.
	AssumeFailed string
)

// Reset clears per-run state (used by replay tests).
func Reset() {
	counts = map[string]int{}
	Failures = nil
	Reached = nil
	Observed = nil
	AssumeFailed = ""
}

// LoadFile makes the given replay file the source of all zzverif values.
func LoadFile(p string) {
	loaded = false
	rf = replayFile{}
	os.Setenv("VERIF_REPLAY", p)
	load()
}

func load() {
	if loaded {
		return
	}
	loaded = true
	rf.Vars = map[string]string{}
	p := os.Getenv("VERIF_REPLAY")
	if p == "" {
		return
	}
	data, err := os.ReadFile(p)
	if err != nil {
		panic("zzverif: cannot read replay file: " + err.Error())
	}
	if err := json.Unmarshal(data, &rf); err != nil {
		panic("zzverif: bad replay file: " + err.Error())
	}
}

func name(n string) string {
	k := counts[n]
	counts[n] = k + 1
	if k == 0 {
		return n
	}
	return n + "#" + strconv.Itoa(k)
}

func num(n string) uint64 {
	load()
	s, ok := rf.Vars[name(n)]
	if !ok || s == "" {
		return 0
	}
	v, err := strconv.ParseUint(s, 10, 64)
	if err != nil {
		panic("zzverif: bad number for " + n + ": " + s)
	}
	return v
}

type assumeFailure struct{ msg string }

func Bool(n string) bool  { return num(n) != 0 }
func U8(n string) uint8   { return uint8(num(n)) }
func U16(n string) uint16 { return uint16(num(n)) }
func U32(n string) uint32 { return uint32(num(n)) }
func U64(n string) uint64 { return num(n) }
func I32(n string) int32  { return int32(uint32(num(n))) }
func I64(n string) int64  { return int64(num(n)) }
func Int(n string) int    { return int(int64(num(n))) }

// Choose returns a value in [0, k).
func Choose(n string, k int) int {
	v := int(num(n))
	if v < 0 || v >= k {
		panic(assumeFailure{"choose out of range: " + n})
	}
	return v
}

// Bytes returns a byte slice of symbolic length 0..max and symbolic content;
// len == cap.
func Bytes(n string, max int) []byte {
	load()
	s := rf.Vars[name(n)]
	b, err := hex.DecodeString(s)
	if err != nil {
		panic("zzverif: bad bytes for " + n)
	}
	if len(b) > max {
		panic(assumeFailure{"bytes longer than max: " + n})
	}
	out := make([]byte, len(b))
	copy(out, b)
	return out
}

// BigBytes is like Bytes for large buffers (held as an SMT array by the engine;
// only the bytes the path reads are determined by a model, the rest are zero).
func BigBytes(n string, max int) []byte { return Bytes(n, max) }

// BytesN returns a byte slice of exactly k symbolic bytes.
func BytesN(n string, k int) []byte {
	load()
	s := rf.Vars[name(n)]
	b, _ := hex.DecodeString(s)
	out := make([]byte, k)
	copy(out, b)
	return out
}

// BigNonNeg returns an arbitrary non-negative big integer.
func BigNonNeg(n string) *big.Int {
	load()
	s := rf.Vars[name(n)]
	v := new(big.Int)
	if s != "" {
		v.SetString(s, 10)
	}
	return v
}

// BoolOf is an uninterpreted predicate of a byte string.
func BoolOf(n string, key []byte) bool { return U64Of(n, key) != 0 }

// U64Of is an uninterpreted function from byte strings to uint64.
func U64Of(n string, key []byte) uint64 {
	load()
	k := hex.EncodeToString(key)
	for _, e := range rf.UFs[n+"/"+strconv.Itoa(len(key))] {
		if e.Key == k {
			v, _ := strconv.ParseUint(e.Val, 10, 64)
			return v
		}
	}
	return 0
}

// Symbolic reports whether the harness runs under the symbolic executor.
func Symbolic() bool { return false }

// Param returns the bound to use in the current tier.
func Param(n string, quick, thorough int) int {
	load()
	t := rf.Tier
	if t == "" {
		t = os.Getenv("VERIF_TIER")
	}
	if t == "thorough" {
		return thorough
	}
	return quick
}

func Assume(c bool) {
	if !c {
		panic(assumeFailure{"assumption violated"})
	}
}

func Assert(c bool, label string) {
	if !c {
		Failures = append(Failures, label)
		fmt.Println("ZZVERIF-ASSERT-FAILED " + label)
	}
}

func Reach(label string) { Reached = append(Reached, label) }

// Region names a Boolean over the symbolic inputs; used to identify known findings.
func Region(n string, c bool) {}

// Observe records a value; the engine evaluates the same expression under a
// model of each validated path and compares it with the native value. Use
// bool, integers, strings and byte slices only.
func Observe(label string, v interface{}) {
	switch x := v.(type) {
	case []byte:
		Observed = append(Observed, fmt.Sprintf("%s=%x", label, x))
	case string:
		Observed = append(Observed, fmt.Sprintf("%s=%x", label, []byte(x)))
	default:
		Observed = append(Observed, fmt.Sprintf("%s=%v", label, v))
	}
}

// MayPanic runs f; a panic inside f is documented behaviour and not a violation.
func MayPanic(f func()) (panicked bool) {
	defer func() {
		if r := recover(); r != nil {
			if af, ok := r.(assumeFailure); ok {
				panic(af)
			}
			panicked = true
		}
	}()
	f()
	return false
}

// WaitUntil: under the engine all other goroutines run until they block and
// cond must then hold; natively it spins (up to 5 s) until cond holds.
func WaitUntil(cond func() bool, what string) {
	deadline := time.Now().Add(5 * time.Second)
	for !cond() {
		if time.Now().After(deadline) {
			panic("zzverif.WaitUntil timed out: " + what)
		}
		runtime.Gosched()
		time.Sleep(200 * time.Microsecond)
	}
}

// Yield lets other goroutines run (engine: until all are blocked; natively a
// short sleep — use WaitUntil when a condition can be named).
func Yield() {
	for i := 0; i < 20; i++ {
		runtime.Gosched()
		time.Sleep(200 * time.Microsecond)
	}
}

// Unwind sets the loop unwinding bound for symbolic branches (engine only).
func Unwind(k int) {}

// RunFiles runs the harness once per replay file and prints one result line each.
func RunFiles(h func(), files []string) {
	for _, f := range files {
		LoadFile(f)
		fails, pv, af := Run(h)
		fmt.Printf("ZZVERIF-RESULT file=%q failures=%q panicked=%v assume=%q observed=%q\n", f, fails, pv != nil, af, Observed)
		if pv != nil {
			fmt.Printf("ZZVERIF-PANIC file=%q %v\n", f, pv)
		}
	}
}

// Run executes a harness natively and reports the outcome; used by replay tests.
func Run(h func()) (failures []string, panicVal interface{}, assumeFailed string) {
	Reset()
	func() {
		defer func() {
			if r := recover(); r != nil {
				if af, ok := r.(assumeFailure); ok {
					assumeFailed = af.msg
					return
				}
				panicVal = r
			}
		}()
		h()
	}()
	return Failures, panicVal, assumeFailed
}
