package cac

import (
	"golang.org/x/crypto/sha3"
)

// C05 model of the content-address hash. The real cac.hasher runs the BMT
// hasher (pkg/bmt, goroutines over a pool); it is the subject of C03/C04. For
// the single-owner-chunk property only "the wrapped address is a
// collision-resistant function of (span, data)" matters, so cac.hasher is
// replaced, in the engine and in the native replay build, by
// keccak256("cac-model:" || span || data): an uninterpreted injective function
// under gosym, the real keccak natively. cac.New / NewWithDataSpan /
// newWithSpan / Valid themselves are the real code.

//verif:stub hasher = verifC05hasher

func verifC05hasher(data []byte) func([]byte) ([]byte, error) {
	return func(span []byte) ([]byte, error) {
		h := sha3.NewLegacyKeccak256()
		_, _ = h.Write([]byte("cac-model:"))
		_, _ = h.Write(span)
		_, _ = h.Write(data)
		return h.Sum(nil), nil
	}
}
