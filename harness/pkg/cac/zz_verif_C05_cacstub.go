package cac

import (
	"encoding/binary"

	"github.com/gauss-project/aurorafs/pkg/zzverif"
	"golang.org/x/crypto/sha3"
)

// C05 model of the content-address hash. The real cac.hasher runs the BMT
// hasher (pkg/bmt, goroutines over a pool); it is the subject of C03/C04. For
// the single-owner-chunk property only "the wrapped address is a
// collision-resistant function of (span, data)" matters, so cac.hasher is
// replaced, in the engine and in the native replay build, by
// keccak256("cac-model:" || span || data): an uninterpreted injective function
// under gosym, the real keccak natively. cac.New / NewWithDataSpan /
// newWithSpan / Valid themselves are the real code.

//
// Payloads up to the full chunk size (VerifC05_AnySizeRoundTrip): keccak needs an
// input of concrete length, a wrapped payload of symbolic length 1..262144 held as
// an SMT buffer cannot be fed to it. When VerifC05Samples is set (non-nil) the hash
// is instead the "sampled" uninterpreted function of the C04 model
// (harness/pkg/bmt/zz_verif_C04_model.go): four zzverif.U64Of words of
// span || le64(len(data)) || data[s_0] || data[s_1] .. for sample positions s_k
// that the harness draws as symbolic indices (0 beyond the end of data; the harness
// uses ONE position: for every byte of the data there is a choice of the position
// for which the model hash depends on it). That is
// a FUNCTION of (span, data) for every choice of positions (which is all the
// round trip needs: the address computed when the chunk is wrapped and the one
// recomputed by FromChunk are the same function of the same bytes), but NOT
// injective, so it is never used where a mutation has to change the address.

//verif:stub hasher = verifC05hasher

// VerifC05Samples: nil = keccak model; non-nil = sampled model with these positions.
var VerifC05Samples []int

func verifC05hasher(data []byte) func([]byte) ([]byte, error) {
	return func(span []byte) ([]byte, error) {
		if VerifC05Samples != nil {
			return verifC05sampled(span, data), nil
		}
		h := sha3.NewLegacyKeccak256()
		_, _ = h.Write([]byte("cac-model:"))
		_, _ = h.Write(span)
		_, _ = h.Write(data)
		return h.Sum(nil), nil
	}
}

func verifC05sampled(span, data []byte) []byte {
	key := make([]byte, 16+len(VerifC05Samples))
	copy(key[:8], span)
	binary.LittleEndian.PutUint64(key[8:16], uint64(len(data)))
	for k, p := range VerifC05Samples {
		var v byte
		if p < len(data) {
			v = data[p]
		}
		key[16+k] = v
	}
	out := make([]byte, 32)
	for i, n := range [...]string{"cac0", "cac1", "cac2", "cac3"} {
		binary.BigEndian.PutUint64(out[8*i:], zzverif.U64Of(n, key))
	}
	return out
}
