package cac

import (
	"bytes"
	"encoding/binary"

	"github.com/gauss-project/aurorafs/pkg/bmt"
	"github.com/gauss-project/aurorafs/pkg/bmtpool"
	"github.com/gauss-project/aurorafs/pkg/boson"
	"github.com/gauss-project/aurorafs/pkg/zzverif"
)

// C04: content-addressed chunk validity is exact.
//
// Executed for real: cac.New / NewWithDataSpan / newWithSpan / hasher / Valid,
// bmtpool.Get/Put, bmt.NewConf (capacity), (*bmt.Hasher).SetHeader/Capacity,
// boson.NewChunk/NewAddress/Address.Bytes/chunk.Data. Replaced by the contract
// model of harness/pkg/bmt/zz_verif_C04_model.go: bmt.NewPool, (*Pool).Get/Put,
// (*Hasher).Write/Hash (the 8192-leaf tree is not executed; that is C03's
// subject at small capacities).

//verif:root pkg/boson pkg/bmt pkg/bmtpool
//verif:option symbolic-make
//verif:option no-witness

const (
	verifC04cap     = 262144     // 256 KiB
	verifC04maxData = 262144 + 8 // span + 256 KiB
)

// verifC04sampled switches the hasher model to the sampled flavour: nsamples
// symbolic positions in 0..capacity-1.
func verifC04sampled(nsamples int) {
	bmt.VerifC04Small = 0
	bmt.VerifC04Gets, bmt.VerifC04Puts = 0, 0
	s := make([]int, nsamples)
	for k := range s {
		s[k] = zzverif.Int("sample")
	}
	for k := range s {
		zzverif.Assume(s[k] >= 0 && s[k] < verifC04cap)
	}
	bmt.VerifC04Samples = s
}

// verifC04want: the oracle "BMT hash of the payload" = H(first 8 bytes, the
// following at most 256 KiB), written against the model function directly
// (not through cac.hasher / the Hasher methods).
func verifC04want(payload []byte) []byte {
	data := payload[boson.SpanSize:]
	if len(data) > verifC04cap {
		data = data[:verifC04cap]
	}
	return bmt.VerifC04Model(payload[:boson.SpanSize], data)
}

// VerifC04_ValidIff: for every payload length 0..262160 (content symbolic, SMT
// array) and every 32-byte address,
// Valid <=> 8 <= len <= 262152 and address == BMT(payload).
func VerifC04_ValidIff() {
	verifC04sampled(2)
	payload := zzverif.BigBytes("payload", verifC04maxData+8)
	addr := zzverif.BytesN("addr", boson.HashSize)
	n := len(payload)

	h := bmtpool.Get()
	zzverif.Assert(h.Capacity() == verifC04cap && boson.ChunkSize == verifC04cap && boson.SpanSize == 8, "hasher capacity = chunk size = 256 KiB")
	bmtpool.Put(h)

	got := Valid(boson.NewChunk(boson.NewAddress(addr), payload))
	if n < 8 || n > verifC04maxData {
		zzverif.Assert(!got, "out-of-range payload length is invalid")
	} else {
		want := verifC04want(payload)
		zzverif.Assert(got == bytes.Equal(want, addr), "in range: Valid <=> address is the BMT hash of the payload")
	}
	zzverif.Assert(bmt.VerifC04Gets == bmt.VerifC04Puts, "pooled hashers are returned")
	zzverif.Reach("C04-valid-iff")
}

// VerifC04_ValidAddrLen: addresses that are not 32 bytes long are never valid.
func VerifC04_ValidAddrLen() {
	verifC04sampled(1)
	payload := zzverif.BigBytes("payload", verifC04maxData+8)
	addr := zzverif.Bytes("addr", 34)
	zzverif.Assume(len(addr) != boson.HashSize)
	got := Valid(boson.NewChunk(boson.NewAddress(addr), payload))
	zzverif.Assert(!got, "address of another length is invalid")
	zzverif.Reach("C04-valid-addrlen")
}

// VerifC04_New: New(data) for every data length 0..262150: rejected for 0 and
// above 256 KiB; otherwise the chunk is span(len) ‖ data, its address is the BMT
// hash of that payload, and it is Valid.
func VerifC04_New() {
	verifC04sampled(2)
	data := zzverif.BigBytes("data", verifC04cap+6)
	i := zzverif.Int("i")
	n := len(data)

	ch, err := New(data)
	if n == 0 || n > verifC04cap {
		zzverif.Assert(ch == nil && err != nil, "New rejects empty and over-long data")
	} else {
		zzverif.Assert(err == nil && ch != nil, "New accepts 1..256 KiB")
		d := ch.Data()
		zzverif.Assert(len(d) == n+8, "payload length = 8 + len(data)")
		zzverif.Assert(binary.LittleEndian.Uint64(d[:8]) == uint64(n), "span = little-endian data length")
		zzverif.Assume(i >= 0 && i < n)
		zzverif.Assert(d[8+i] == data[i], "data copied")
		zzverif.Assert(len(ch.Address().Bytes()) == boson.HashSize && bytes.Equal(ch.Address().Bytes(), verifC04want(d)), "address = BMT hash of the payload")
		zzverif.Assert(Valid(ch), "chunk from New is valid")
	}
	zzverif.Assert(bmt.VerifC04Gets == bmt.VerifC04Puts, "pooled hashers are returned")
	zzverif.Reach("C04-new")
}

// VerifC04_NewWithDataSpan: NewWithDataSpan(span ‖ data) for every length
// 0..262160 and every span value: rejected below 8 and above 256 KiB + 8;
// otherwise the chunk's payload equals the input, its address is the BMT hash of
// it, and it is Valid.
func VerifC04_NewWithDataSpan() {
	verifC04sampled(2)
	in := zzverif.BigBytes("spandata", verifC04maxData+8)
	i := zzverif.Int("i")
	n := len(in)

	ch, err := NewWithDataSpan(in)
	if n < 8 || n > verifC04maxData {
		zzverif.Assert(ch == nil && err != nil, "NewWithDataSpan rejects out-of-range lengths")
	} else {
		zzverif.Assert(err == nil && ch != nil, "NewWithDataSpan accepts 8..256 KiB + 8")
		d := ch.Data()
		zzverif.Assert(len(d) == n, "payload length = input length")
		zzverif.Assume(i >= 0 && i < n)
		zzverif.Assert(d[i] == in[i], "span and data copied")
		zzverif.Assert(len(ch.Address().Bytes()) == boson.HashSize && bytes.Equal(ch.Address().Bytes(), verifC04want(in)), "address = BMT hash of the payload")
		zzverif.Assert(Valid(ch), "chunk from NewWithDataSpan is valid")
	}
	zzverif.Assert(bmt.VerifC04Gets == bmt.VerifC04Puts, "pooled hashers are returned")
	zzverif.Reach("C04-new-with-data-span")
}

// VerifC04_Mutation: small payloads (1..maxlen data bytes) under the INJECTIVE
// hasher model: a chunk made by New (span = length) or NewWithDataSpan (any
// span) is valid, and xor-ing a non-zero mask into one byte at a symbolic
// position of its payload (span or data) or of its address makes it invalid.
func VerifC04_Mutation() {
	maxlen := zzverif.Param("maxlen", 8, 32)
	bmt.VerifC04Small = maxlen
	n := 1 + zzverif.Choose("len", maxlen)
	data := zzverif.BytesN("data", n)
	span := zzverif.BytesN("span", boson.SpanSize)
	mask := zzverif.U8("mask")
	off := zzverif.Int("offset")
	viaNew := zzverif.Choose("via-new", 2) == 1
	inAddr := zzverif.Choose("mutate-address", 2) == 1
	zzverif.Assume(mask != 0)

	var ch boson.Chunk
	var err error
	if viaNew {
		ch, err = New(data)
	} else {
		in := make([]byte, 0, boson.SpanSize+n)
		in = append(in, span...)
		in = append(in, data...)
		ch, err = NewWithDataSpan(in)
	}
	zzverif.Assert(err == nil && ch != nil, "chunk created")
	zzverif.Assert(Valid(ch), "created chunk is valid")

	payload := make([]byte, len(ch.Data()))
	copy(payload, ch.Data())
	addr := make([]byte, boson.HashSize)
	copy(addr, ch.Address().Bytes())
	zzverif.Assert(len(payload) == boson.SpanSize+n, "payload length")
	if inAddr {
		zzverif.Assume(off >= 0 && off < boson.HashSize)
		addr[off] ^= mask
	} else {
		zzverif.Assume(off >= 0 && off < len(payload))
		payload[off] ^= mask
	}
	zzverif.Assert(!Valid(boson.NewChunk(boson.NewAddress(addr), payload)), "mutated chunk is invalid")
	zzverif.Reach("C04-mutation")
}
