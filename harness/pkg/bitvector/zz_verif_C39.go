package bitvector

import (
	"github.com/gauss-project/aurorafs/pkg/zzverif"
)

func verifC39bit(b []byte, k int) bool { return b[k/8]&(1<<uint(k%8)) != 0 }

//verif:merge (*BitVector).Equals

// VerifC39_Ops: a BitVector built over a backing slice that may be longer than
// needed behaves as a boolean array of length l under Set/Unset/SetBytes/
// UnsetBytes, observed at an arbitrary index k < l; Equals() <=> all l bits set.
func VerifC39_Ops() {
	maxNeed := zzverif.Param("maxbytes", 3, 6)
	steps := zzverif.Param("steps", 2, 2)
	zzverif.Unwind(1200)
	need := zzverif.Choose("need", maxNeed) + 1 // bytes needed for l bits
	l := zzverif.Int("l")
	zzverif.Assume(l >= (need-1)*8+1 && l <= need*8)
	extra := zzverif.Choose("extra", 3) // backing slice 0..2 bytes longer than needed
	n := need + extra
	b := zzverif.BytesN("backing", n)

	bv, err := NewFromBytes(b, l)
	zzverif.Assert(err == nil && bv != nil, "NewFromBytes accepts sufficient slice")
	zzverif.Assert(bv.Len() == l, "Len")

	k := zzverif.Int("k")
	zzverif.Assume(k >= 0 && k < l)
	exp := verifC39bit(b, k)
	zzverif.Assert(bv.Get(k) == exp, "Get agrees with backing bits")

	for s := 0; s < steps; s++ {
		switch zzverif.Choose("op", 4) {
		case 0:
			i := zzverif.Int("i")
			zzverif.Assume(i >= 0 && i < l)
			bv.Set(i)
			if i == k {
				exp = true
			}
		case 1:
			i := zzverif.Int("i")
			zzverif.Assume(i >= 0 && i < l)
			bv.Unset(i)
			if i == k {
				exp = false
			}
		case 2:
			if zzverif.Bool("masklen-ok") {
				m := zzverif.BytesN("mask", n)
				e := bv.SetBytes(m)
				zzverif.Assert(e == nil, "SetBytes accepts equal length")
				if verifC39bit(m, k) {
					exp = true
				}
			} else {
				m := zzverif.Bytes("badmask", n+2)
				zzverif.Assume(len(m) != n)
				e := bv.SetBytes(m)
				zzverif.Assert(e != nil, "SetBytes rejects wrong length")
			}
		case 3:
			if zzverif.Bool("masklen-ok") {
				m := zzverif.BytesN("mask", n)
				e := bv.UnsetBytes(m)
				zzverif.Assert(e == nil, "UnsetBytes accepts equal length")
				if verifC39bit(m, k) {
					exp = false
				}
			} else {
				m := zzverif.Bytes("badmask", n+2)
				zzverif.Assume(len(m) != n)
				e := bv.UnsetBytes(m)
				zzverif.Assert(e != nil, "UnsetBytes rejects wrong length")
			}
		}
		zzverif.Assert(bv.Get(k) == exp, "Get after op")
	}

	// Equals() <=> every bit below l is set
	all := true
	for i := 0; i < need*8; i++ {
		if i < l && !bv.Get(i) {
			all = false
		}
	}
	zzverif.Region("C39/backing-longer-than-needed", extra > 0)
	zzverif.Assert(bv.Equals() == all, "Equals <=> all bits set")

	// encode / decode round trip
	bv2, err2 := NewFromBytes(bv.Bytes(), bv.Len())
	zzverif.Assert(err2 == nil, "roundtrip decode")
	zzverif.Assert(bv2.Get(k) == bv.Get(k), "roundtrip preserves bit")
	zzverif.Reach("C39-ops")
}

// VerifC39_New: New(l) gives an all-false vector of length l; too-short slices and
// non-positive lengths are rejected.
func VerifC39_New() {
	maxL := zzverif.Param("maxlen", 64, 512)
	zzverif.Unwind(1200)
	l := zzverif.Int("l")
	zzverif.Assume(l >= 1 && l <= maxL)
	bv, err := New(l)
	zzverif.Assert(err == nil && bv != nil, "New accepts positive length")
	zzverif.Assert(bv.Len() == l, "New Len")
	zzverif.Assert(len(bv.Bytes())*8 >= l, "New backing large enough")
	k := zzverif.Int("k")
	zzverif.Assume(k >= 0 && k < l)
	zzverif.Assert(!bv.Get(k), "New all false")
	zzverif.Assert(!bv.Equals(), "New not all set")
	bv.Set(k)
	zzverif.Assert(bv.Get(k), "Set then Get")
	j := zzverif.Int("j")
	zzverif.Assume(j >= 0 && j < l && j != k)
	zzverif.Assert(!bv.Get(j), "Set leaves other bits")

	// rejections
	short := zzverif.Bytes("short", 8)
	l2 := zzverif.Int("l2")
	zzverif.Assume(l2 <= 80 && l2 >= -80)
	if l2 <= 0 || len(short)*8 < l2 {
		r, e := NewFromBytes(short, l2)
		zzverif.Assert(e != nil && r == nil, "NewFromBytes rejects bad length")
	}
	zzverif.Reach("C39-new")
}
