package auth

// C35 "API access tokens are checked soundly": Authenticator.GenerateKey /
// RefreshKey / Enforce and encrypter.encrypt / decrypt of pkg/auth/auth.go are
// executed unchanged. The environment is abstracted as follows (all in real Go
// code, so a model replays identically against the compiled code):
//
//   - cipher.AEAD = verifC35AEAD: "identity" cipher with a constant tag whose
//     Open succeeds ONLY on (nonce, ciphertext) pairs produced by its own Seal
//     (authenticity axiom); wrong nonce lengths panic like the real GCM.
//   - encoding/json.Marshal/Unmarshal of authRecord = verifC35Marshal /
//     verifC35Unmarshal: an exact, injective binary encoding (round trip is
//     the identity; foreign input gives an error or whatever record the bytes
//     spell).
//   - time.Now = verifC35Now: harness clock, arbitrary non-decreasing instants.
//   - io.ReadFull(rand.Reader, nonce) = arbitrary nonce bytes.
//   - casbin = uninterpreted predicate zzverif.BoolOf("casbin", key): under
//     gosym by the engine intrinsic for (*casbin.Enforcer).Enforce, natively by
//     a real casbin enforcer whose matcher is the function verifC35Policy.
//   - encoding/base64 (engine intrinsic engine/intr_C35.go): exact encoder,
//     decoder exact on encoder outputs and on concrete strings.

import (
	"bytes"
	"encoding/base64"
	"encoding/binary"
	"errors"
	"io"
	"time"

	"github.com/casbin/casbin/v2"
	"github.com/casbin/casbin/v2/model"
	"github.com/gauss-project/aurorafs/pkg/logging"
	"github.com/gauss-project/aurorafs/pkg/zzverif"
)

//verif:replace-call time.Now = verifC35Now
//verif:replace-call encoding/json.Marshal = verifC35Marshal
//verif:replace-call encoding/json.Unmarshal = verifC35Unmarshal
//verif:replace-call io.ReadFull = verifC35ReadFull

// ---- clock ----

var (
	verifC35clock int64 // last instant handed out (ns)
	verifC35reads int   // number of clock reads so far
	verifC35first int64 // first instant read since verifC35mark()
	verifC35mark0 int
)

func verifC35Now() time.Time {
	t := zzverif.I64("now")
	zzverif.Assume(t >= verifC35clock && t < 1<<60)
	verifC35clock = t
	if verifC35reads == verifC35mark0 {
		verifC35first = t
	}
	verifC35reads++
	return time.Unix(0, t)
}

// verifC35mark starts a call window; verifC35window returns the first and the
// last instant the code read inside the window (the current instant if it did
// not read the clock at all).
func verifC35mark() { verifC35mark0 = verifC35reads; verifC35first = verifC35clock }
func verifC35window() (lo, hi int64) {
	if verifC35reads == verifC35mark0 {
		return verifC35clock, verifC35clock
	}
	return verifC35first, verifC35clock
}

// ---- JSON of authRecord ----

var verifC35errJSON = errors.New("verif: invalid JSON")

func verifC35Marshal(v interface{}) ([]byte, error) {
	ar, ok := v.(authRecord)
	if !ok {
		panic("verifC35Marshal: unexpected type")
	}
	if len(ar.Role) > 255 {
		panic("verifC35Marshal: role too long for the stub encoding")
	}
	out := make([]byte, 0, 10+len(ar.Role))
	out = append(out, 0x7b, byte(len(ar.Role)))
	out = append(out, ar.Role...)
	var e [8]byte
	binary.BigEndian.PutUint64(e[:], uint64(ar.Expiry.UnixNano()))
	return append(out, e[:]...), nil
}

func verifC35Unmarshal(data []byte, v interface{}) error {
	ar, ok := v.(*authRecord)
	if !ok {
		panic("verifC35Unmarshal: unexpected type")
	}
	if len(data) < 10 || data[0] != 0x7b || int(data[1]) != len(data)-10 {
		return verifC35errJSON
	}
	n := len(data) - 10
	ar.Role = string(data[2 : 2+n])
	ar.Expiry = time.Unix(0, int64(binary.BigEndian.Uint64(data[2+n:])))
	return nil
}

// ---- randomness ----

func verifC35ReadFull(r io.Reader, buf []byte) (int, error) {
	copy(buf, zzverif.BytesN("nonce", len(buf)))
	return len(buf), nil
}

// ---- AEAD ----

var verifC35errOpen = errors.New("cipher: message authentication failed")

type verifC35AEAD struct {
	nonces, cts, pts [][]byte
}

const verifC35tag = 0xa5

func (a *verifC35AEAD) NonceSize() int { return 12 }
func (a *verifC35AEAD) Overhead() int  { return 16 }
func (a *verifC35AEAD) Seal(dst, nonce, plaintext, additionalData []byte) []byte {
	if len(nonce) != 12 {
		panic("crypto/cipher: incorrect nonce length given to GCM")
	}
	ct := make([]byte, len(plaintext)+16)
	copy(ct, plaintext)
	for i := len(plaintext); i < len(ct); i++ {
		ct[i] = verifC35tag
	}
	a.nonces = append(a.nonces, append([]byte{}, nonce...))
	a.cts = append(a.cts, ct)
	a.pts = append(a.pts, append([]byte{}, plaintext...))
	return append(dst, ct...)
}
func (a *verifC35AEAD) Open(dst, nonce, ciphertext, additionalData []byte) ([]byte, error) {
	if len(nonce) != 12 {
		panic("crypto/cipher: incorrect nonce length given to GCM")
	}
	for i := range a.cts {
		if bytes.Equal(nonce, a.nonces[i]) && bytes.Equal(ciphertext, a.cts[i]) {
			return append(dst, a.pts[i]...), nil
		}
	}
	return nil, verifC35errOpen
}

// ---- policy ----

func verifC35key(role, obj, act string) []byte {
	k := []byte{byte(len(role)), byte(len(obj)), byte(len(act))}
	k = append(k, role...)
	k = append(k, obj...)
	return append(k, act...)
}

// verifC35Policy: the (uninterpreted) policy decision for a request.
func verifC35Policy(role, obj, act string) bool {
	return zzverif.BoolOf("casbin", verifC35key(role, obj, act))
}

func verifC35Enforcer() *casbin.Enforcer {
	m, err := model.NewModelFromString(`
[request_definition]
r = sub, obj, act

[policy_definition]
p = sub, obj, act

[policy_effect]
e = some(where (p.eft == allow))

[matchers]
m = verifPolicy(r.sub, r.obj, r.act)`)
	if err != nil {
		panic(err)
	}
	e, err := casbin.NewEnforcer(m)
	if err != nil {
		panic(err)
	}
	e.AddFunction("verifPolicy", func(args ...interface{}) (interface{}, error) {
		return verifC35Policy(args[0].(string), args[1].(string), args[2].(string)), nil
	})
	if _, err := e.AddPolicy("any", "any", "any"); err != nil {
		panic(err)
	}
	return e
}

func verifC35NewAuth() *Authenticator {
	verifC35clock, verifC35reads, verifC35mark0, verifC35first = 0, 0, 0, 0
	return &Authenticator{
		enforcer: verifC35Enforcer(),
		ciph:     &encrypter{gcm: &verifC35AEAD{}},
		log:      logging.New(io.Discard, 0),
	}
}

// ---- ghost state: what was issued ----

type verifC35issued struct {
	tok          string
	raw          []byte // base64-decoded token
	role         string
	expLo, expHi int64 // the sealed expiry lies in [expLo, expHi] (ns)
}

const verifC35sec = int64(time.Second)

func verifC35ascii(b []byte) {
	for _, x := range b {
		zzverif.Assume(x < 0x80)
	}
}

// verifC35issue: GenerateKey with an arbitrary ASCII role and duration; records
// what the token stands for.
func verifC35issue(a *Authenticator, issued []verifC35issued, roleLen int) []verifC35issued {
	rb := zzverif.BytesN("role", roleLen)
	verifC35ascii(rb)
	role := string(rb)
	d := zzverif.I64("dur")
	zzverif.Assume(d > -(1<<31) && d < 1<<31)
	verifC35mark()
	tok, err := a.GenerateKey(role, int(d))
	lo, hi := verifC35window()
	if err == nil {
		issued = append(issued, verifC35issued{tok, verifC35raw(tok), role, lo + d*verifC35sec, hi + d*verifC35sec})
	}
	return issued
}

// verifC35raw: the bytes a token string stands for (nil if it is not base64).
func verifC35raw(tok string) []byte {
	b, err := base64.StdEncoding.DecodeString(tok)
	if err != nil {
		return nil
	}
	return b
}

// verifC35same: is the presented token (string tok, known to be issued[k] when
// k >= 0) the issued token it? Tokens are compared by the bytes they encode.
func verifC35same(tok string, raw []byte, k, i int, it verifC35issued) bool {
	if k == i {
		return true
	}
	return raw != nil && bytes.Equal(raw, it.raw)
}

// verifC35refresh: RefreshKey(tok, d) with the clause "refresh keeps the role
// and cannot revive an expired token" (and only works on genuine tokens).
func verifC35refresh(a *Authenticator, issued []verifC35issued, tok string, k int) []verifC35issued {
	raw := verifC35raw(tok)
	d := zzverif.I64("dur")
	zzverif.Assume(d > -(1<<31) && d < 1<<31)
	verifC35mark()
	ntok, err := a.RefreshKey(tok, int(d))
	lo, hi := verifC35window()
	if err == nil {
		ok := false
		role := ""
		for i, it := range issued {
			if verifC35same(tok, raw, k, i, it) && lo <= it.expHi {
				ok = true
				role = it.role
			}
		}
		zzverif.Assert(ok, "refresh only of a genuine unexpired token")
		// the new token stands for the SAME role (checked when it is enforced)
		issued = append(issued, verifC35issued{ntok, verifC35raw(ntok), role, lo + d*verifC35sec, hi + d*verifC35sec})
	}
	return issued
}

// verifC35enforce: Enforce(tok, obj, act) with the clause "honoured only if
// genuine, unexpired and allowed by the policy of its role".
func verifC35enforce(a *Authenticator, issued []verifC35issued, tok string, k int) {
	raw := verifC35raw(tok)
	obj := string(zzverif.BytesN("obj", 2))
	act := string(zzverif.BytesN("act", 2))
	verifC35mark()
	allow, err := a.Enforce(tok, obj, act)
	lo, _ := verifC35window()
	if allow && err == nil {
		ok := false
		for i, it := range issued {
			if verifC35same(tok, raw, k, i, it) && lo <= it.expHi && verifC35Policy(it.role, obj, act) {
				ok = true
			}
		}
		zzverif.Assert(ok, "honoured only if genuine, unexpired and allowed by the policy of its role")
		zzverif.Reach("C35-honoured")
	}
}

// VerifC35_History: histories issue; (issue | refresh | enforce)* where refresh
// and enforce are applied to any of the tokens issued so far, with arbitrary
// roles, durations, clock instants and requests.
func VerifC35_History() {
	steps := zzverif.Param("steps", 2, 3)
	roleLen := zzverif.Param("roleLen", 2, 3)
	a := verifC35NewAuth()
	issued := verifC35issue(a, nil, roleLen)
	for s := 0; s < steps; s++ {
		// issuing as the very last operation cannot affect any assertion
		var op int
		if s < steps-1 {
			op = zzverif.Choose("op", 3)
		} else {
			op = 1 + zzverif.Choose("lastOp", 2)
		}
		if op == 0 || len(issued) == 0 {
			issued = verifC35issue(a, issued, roleLen)
			continue
		}
		k := zzverif.Choose("tok", len(issued))
		tok := issued[k].tok
		if op == 1 {
			issued = verifC35refresh(a, issued, tok, k)
		} else {
			verifC35enforce(a, issued, tok, k)
		}
	}
}

// VerifC35_ArbitraryToken: after k genuine tokens were issued, a client
// presents an ARBITRARY token string to RefreshKey or Enforce: the base64
// encoding of an arbitrary byte string of every length from 0 to one more than
// a genuine token (this covers altered, truncated, extended, spliced and random
// tokens as well as exact copies), or a string that is not valid base64.
func VerifC35_ArbitraryToken() {
	roleLen := zzverif.Param("roleLen", 2, 3)
	k := zzverif.Param("issued", 1, 2)
	genuine := 12 + 10 + roleLen + 16
	a := verifC35NewAuth()
	var issued []verifC35issued
	for i := 0; i < k; i++ {
		issued = verifC35issue(a, issued, roleLen)
	}
	var tok string
	rawLen := -1
	if zzverif.Bool("validBase64") {
		if zzverif.Param("allLengths", 1, 1) == 1 {
			rawLen = zzverif.Choose("rawLen", genuine+2)
		} else {
			lens := []int{0, 3, 11, 12, 13, 27, 28, 29, genuine - 1, genuine, genuine + 1}
			rawLen = lens[zzverif.Choose("rawLen", len(lens))]
		}
		tok = base64.StdEncoding.EncodeToString(zzverif.BytesN("raw", rawLen))
	} else {
		bad := []string{"!", "AAA", "A===", "AAAA=AAA", "AAAAAAAAAAAAAAAAAAAA\x00", "=AAA"}
		tok = bad[zzverif.Choose("bad", len(bad))]
	}
	// decrypt slices data[:12] / data[12:] without a length check (known finding)
	zzverif.Region("C35/token-shorter-than-nonce", rawLen >= 0 && rawLen < 12)
	if zzverif.Choose("op", 2) == 0 {
		verifC35refresh(a, issued, tok, -1)
	} else {
		verifC35enforce(a, issued, tok, -1)
	}
	zzverif.Reach("C35-arbitrary-token")
}
