package traversal

import (
	"bytes"
	"context"
	"errors"

	"github.com/gauss-project/aurorafs/pkg/bmt"
	"github.com/gauss-project/aurorafs/pkg/boson"
	"github.com/gauss-project/aurorafs/pkg/file/joiner"
	"github.com/gauss-project/aurorafs/pkg/storage"
	"github.com/gauss-project/aurorafs/pkg/zzverif"
)

// C06 (b): traversal.(*service).GetChunkHashes with a pyramid supplied by a
// peer: every chunk handed to the local store's Put is a valid content-addressed
// chunk for the address it is stored under, and a pyramid with an entry whose
// key is not the BMT hash of its payload is rejected before anything is stored.
//
// Executed for real: GetChunkHashes (existence check, verification loop,
// deferred store loop, processNodes/storeChunkHashes glue), newPyramid,
// (*pyramid).Get, pipeline/bmt.NewBmtWriter + (*bmtWriter).ChainWrite, bmtpool,
// (*bmt.Hasher).SetHeader, boson address/chunk code, sctx.SetRootHash.
// Models: BMT hasher contract (harness/pkg/bmt/zz_verif_C06_model.go, sampled
// flavour); manifest.NewDefaultManifestReference -> "not a manifest";
// joiner.New -> model walk that Gets the root and a symbolic list of addresses
// (harness/pkg/file/joiner/zz_verif_C06_joinerstub.go); loadsave.NewReadonly is
// a no-op under the engine (its result only goes to the stubbed manifest
// constructor).

//verif:root pkg/boson pkg/bmt pkg/bmtpool pkg/sctx pkg/file/pipeline/bmt pkg/file/joiner pkg/manifest
//verif:option symbolic-make
//verif:option no-witness
//verif:noop github.com/gauss-project/aurorafs/pkg/file/loadsave.NewReadonly

const (
	verifC06cap     = 262144
	verifC06maxData = 262144 + 8
)

var verifC06err = errors.New("verif: store failure")

type verifC06store struct {
	puts []boson.Chunk
	fail bool
}

func (v *verifC06store) Put(ctx context.Context, mode storage.ModePut, chs ...boson.Chunk) ([]bool, error) {
	v.puts = append(v.puts, chs...)
	if v.fail {
		return nil, verifC06err
	}
	return make([]bool, len(chs)), nil
}

func (v *verifC06store) Get(ctx context.Context, mode storage.ModeGet, addr boson.Address) (boson.Chunk, error) {
	panic("unused: with a supplied pyramid all reads go to the pyramid")
}

func verifC06fill(b byte) []byte {
	out := make([]byte, boson.HashSize)
	for i := range out {
		out[i] = b
	}
	return out
}

// verifC06hashOK: key (an address) is the BMT hash of payload (span ‖ data; the
// hasher contract takes the first 256 KiB of data), via the model directly.
func verifC06hashOK(a, payload []byte) bool {
	data := payload[8:]
	if len(data) > verifC06cap {
		data = data[:verifC06cap]
	}
	return bytes.Equal(bmt.VerifC06Model(payload[:8], data), a)
}

// verifC06cacValid: oracle "valid content-addressed chunk for address a".
func verifC06cacValid(a, payload []byte) bool {
	if len(payload) < 8 || len(payload) > verifC06maxData {
		return false
	}
	return verifC06hashOK(a, payload)
}

// VerifC06_Pyramid: a pyramid of 1..3 entries: the root reference (symbolic
// address) plus up to two more; every payload has any length 0..262200 and
// symbolic content; the walk fetches the root and at most one more address (see
// "general" below).
func VerifC06_Pyramid() {
	bmt.VerifC06Small = 0
	samples := make([]int, zzverif.Param("samples", 1, 2))
	for k := range samples {
		samples[k] = zzverif.Int("sample")
	}
	for k := range samples {
		zzverif.Assume(samples[k] >= 0 && samples[k] < verifC06cap)
	}
	bmt.VerifC06Samples = samples

	extra := zzverif.Choose("extra-entries", zzverif.Param("max-extra", 1, 2)+1)
	nvisit := zzverif.Choose("visits", zzverif.Param("max-visits", 1, 1)+1)
	rootAddr := zzverif.BytesN("root", boson.HashSize)
	addr := boson.NewAddress(rootAddr)

	// general == false: the extra entries have the lower-case hex keys of fixed
	// distinct addresses (0xa1.., 0xa2..) and the walk fetches entries of the
	// pyramid or one fixed absent address (0xee..), chosen by index. general ==
	// true (thorough tier only): extra keys are arbitrary 64-character strings
	// (upper case, not hex at all, ...) and the walk fetches arbitrary symbolic
	// addresses. The root reference is a symbolic address in both.
	general := zzverif.Choose("general-keys", zzverif.Param("key-kinds", 1, 2)) == 1
	if general {
		// the general variant is run with at most one extra entry
		zzverif.Assume(extra <= 1)
	}
	keys := []string{addr.String()}
	keyAddrs := [][]byte{rootAddr}
	vals := [][]byte{zzverif.BigBytes("payload", verifC06maxData+48)}
	for k := 0; k < extra; k++ {
		if general {
			keys = append(keys, string(zzverif.BytesN("key", 2*boson.HashSize)))
		} else {
			fixed := verifC06fill(byte(0xa1 + k))
			keys = append(keys, boson.NewAddress(fixed).String())
			keyAddrs = append(keyAddrs, fixed)
		}
		vals = append(vals, zzverif.BigBytes("payload", verifC06maxData+48))
	}
	var visit [][]byte
	for k := 0; k < nvisit; k++ {
		if general {
			visit = append(visit, zzverif.BytesN("visit", boson.HashSize))
		} else if which := zzverif.Choose("visit-which", len(keyAddrs)+1); which < len(keyAddrs) {
			visit = append(visit, keyAddrs[which])
		} else {
			visit = append(visit, verifC06fill(0xee))
		}
	}
	joiner.VerifC06Visit = visit
	joiner.VerifC06WalkFails = zzverif.Bool("walk-fails")
	st := &verifC06store{fail: zzverif.Bool("put-fails")}

	// a Go map has pairwise distinct keys
	for i := range keys {
		for j := 0; j < i; j++ {
			zzverif.Assume(keys[i] != keys[j])
		}
	}
	pyramid := make(map[string][]byte)
	// hashed[i]: entry i passes "key = BMT hash of the payload" (oracle);
	// overOK: some entry does so although it is longer than a chunk
	bad, overOK := false, false
	for i := range keys {
		pyramid[keys[i]] = vals[i]
		hashed := false
		if len(vals[i]) >= 8 {
			a, perr := boson.ParseHexAddress(keys[i])
			hashed = perr == nil && verifC06hashOK(a.Bytes(), vals[i])
		}
		if !hashed {
			bad = true
		} else if len(vals[i]) > verifC06maxData {
			overOK = true
		}
	}
	// FINDING (genuine, see notes/C06.md): an entry longer than a chunk passes
	// the BMT check (the hasher only takes the first 256 KiB) and is stored as
	// it is, i.e. as an invalid chunk
	zzverif.Region("C06/pyramid-entry-longer-than-a-chunk-hashes-ok", overOK)

	svc := &service{store: st}
	_, _, err := svc.GetChunkHashes(context.Background(), addr, pyramid)

	for _, p := range st.puts {
		zzverif.Assert(verifC06cacValid(p.Address().Bytes(), p.Data()), "stored chunk is a valid content-addressed chunk for its address")
	}
	// every entry is checked before anything is stored
	if bad {
		zzverif.Assert(err != nil && len(st.puts) == 0, "a pyramid with an entry that is not hash-checked OK is rejected before any Put")
	}
	if err == nil && len(st.puts) > 0 {
		zzverif.Reach("C06-pyramid-stored")
	}
	zzverif.Reach("C06-pyramid")
}
