package pslice

import (
	"github.com/gauss-project/aurorafs/pkg/boson"
	"github.com/gauss-project/aurorafs/pkg/zzverif"
)

// C21: proximity-indexed peer sets behave as sets (sequential content clauses).
//
//verif:root pkg/boson
//verif:merge pkg/boson.Proximity, (*PSlice).po, (*PSlice).index

// ---------------------------------------------------------------------------
// independent oracles

// verifC21eq: byte-wise equality without early exit (merges into one term).
func verifC21eq(x, y []byte) bool {
	if len(x) != len(y) {
		return false
	}
	same := true
	for i := range x {
		if x[i] != y[i] {
			same = false
		}
	}
	return same
}

// verifC21bin: the bin an address belongs to = number of leading equal bits
// of the first four bytes (31 when they agree completely), capped at the last
// bin. Written over a 32-bit word with shifts, independently of the byte/bit
// loops of boson.Proximity.
func verifC21bin(base, a []byte, maxBins int) int {
	x := (uint32(base[0]^a[0]) << 24) | (uint32(base[1]^a[1]) << 16) | (uint32(base[2]^a[2]) << 8) | uint32(base[3]^a[3])
	po := 31
	for k := 31; k >= 0; k-- {
		if x>>uint(31-k) != 0 {
			po = k
		}
	}
	if po > maxBins-1 {
		po = maxBins - 1
	}
	return po
}

// verifC21ref: reference set. Every address ever mentioned is appended with a
// presence flag; entries with equal addresses always carry equal flags.
type verifC21ref struct {
	a  [][]byte
	in []bool
}

func (r *verifC21ref) member(q []byte) bool {
	m := false
	for i := range r.a {
		if r.in[i] && verifC21eq(r.a[i], q) {
			m = true
		}
	}
	return m
}

func (r *verifC21ref) set(x []byte, present bool) {
	for i := range r.a {
		if verifC21eq(r.a[i], x) {
			r.in[i] = present
		}
	}
	r.a = append(r.a, x)
	r.in = append(r.in, present)
}

// first(i): entry i is the first entry with its address
func (r *verifC21ref) first(i int) bool {
	f := true
	for j := 0; j < i; j++ {
		if verifC21eq(r.a[j], r.a[i]) {
			f = false
		}
	}
	return f
}

// count of distinct present addresses, in total (bin < 0) or in one bin
func (r *verifC21ref) count(base []byte, maxBins, bin int) int {
	n := 0
	for i := range r.a {
		if r.in[i] && r.first(i) && (bin < 0 || verifC21bin(base, r.a[i], maxBins) == bin) {
			n++
		}
	}
	return n
}

const verifC21alen = 5 // 4 bytes inspected by Proximity + 1 so that distinct addresses can share the deepest bin

// verifC21assert states one clause twice: for histories in which no batch Add
// repeated an address that was absent (label), and for the others (labelDup).
// The split keeps the first family fully checked on every path even while the
// known defect of the second family (see notes/C21.md) is present: the engine
// stops re-checking a label once it has been violated.
func verifC21assert(dup, cond bool, label, labelDup string) {
	zzverif.Assert(dup || cond, label)
	zzverif.Assert(!dup || cond, labelDup)
}

// verifC21check asserts every content clause of the statement for the current
// state of s against the reference set r. With probe, membership and storage
// are additionally asserted for an arbitrary (universally quantified) address.
func verifC21check(s *PSlice, r *verifC21ref, base []byte, maxBins int, probe, dup bool) {
	// all inputs are drawn (and constrained) before the first assertion, so
	// that a replayed model never trips an assumption after a failed assertion
	ob := zzverif.U8("outbin")
	zzverif.Assume(int(ob) >= maxBins)
	var q []byte
	if probe {
		q = zzverif.BytesN("q", verifC21alen)
	}

	// what is stored, read through the public BinPeers
	bins := make([][]boson.Address, maxBins)
	for b := 0; b < maxBins; b++ {
		bins[b] = s.BinPeers(uint8(b))
	}

	// membership of every address the history mentioned (with probe these two
	// clauses are instances of the probe clauses below and are not repeated)
	exOK := true
	for i := range r.a {
		if probe {
			break
		}
		if s.Exists(boson.NewAddress(r.a[i])) != r.in[i] {
			exOK = false
		}
	}
	if !probe {
		verifC21assert(dup, exOK, "Exists <=> added and not removed", "Exists <=> added and not removed [batch repeated an absent address]")
	}

	// every member is stored exactly once, in its own bin ...
	storeOK := true
	for i := range r.a {
		if probe {
			break
		}
		occ, wrong := 0, 0
		ibin := verifC21bin(base, r.a[i], maxBins)
		for b := 0; b < maxBins; b++ {
			for _, p := range bins[b] {
				if verifC21eq(p.Bytes(), r.a[i]) {
					occ++
					if b != ibin {
						wrong++
					}
				}
			}
		}
		if r.in[i] && occ != 1 {
			storeOK = false
		}
		if !r.in[i] && occ != 0 {
			storeOK = false
		}
		if wrong != 0 {
			storeOK = false
		}
	}
	// ... and nothing else is stored
	for b := 0; b < maxBins && !probe; b++ {
		for _, p := range bins[b] {
			if !r.member(p.Bytes()) {
				storeOK = false
			}
		}
	}
	if !probe {
		verifC21assert(dup, storeOK, "each member stored exactly once in bin min(proximity,maxBins-1), nothing else stored", "each member stored exactly once ... [batch repeated an absent address]")
	}

	if probe {
		want := r.member(q)
		verifC21assert(dup, s.Exists(boson.NewAddress(q)) == want, "Exists(arbitrary address) <=> member", "Exists(arbitrary address) <=> member [batch repeated an absent address]")
		qbin := verifC21bin(base, q, maxBins)
		occ, wrong := 0, 0
		for b := 0; b < maxBins; b++ {
			for _, p := range bins[b] {
				if verifC21eq(p.Bytes(), q) {
					occ++
					if b != qbin {
						wrong++
					}
				}
			}
		}
		wantOcc := 0
		if want {
			wantOcc = 1
		}
		verifC21assert(dup, occ == wantOcc && wrong == 0, "arbitrary address stored once in its bin iff member", "arbitrary address stored once in its bin iff member [batch repeated an absent address]")
	}

	// sizes
	sizesOK := s.Length() == r.count(base, maxBins, -1)
	firstEmpty := -1
	for b := maxBins - 1; b >= 0; b-- {
		c := r.count(base, maxBins, b)
		if s.BinSize(uint8(b)) != c || len(bins[b]) != c {
			sizesOK = false
		}
		if c == 0 {
			firstEmpty = b
		}
	}
	if s.BinSize(ob) != 0 || s.BinPeers(ob) != nil {
		sizesOK = false
	}
	verifC21assert(dup, sizesOK, "Length/BinSize/BinPeers sizes = distinct members (0/nil beyond the last bin)", "Length/BinSize/BinPeers sizes = distinct members [batch repeated an absent address]")

	se, none := s.ShallowestEmpty()
	seOK := false
	if firstEmpty < 0 {
		seOK = none && se == 0
	} else {
		seOK = !none && int(se) == firstEmpty
	}
	verifC21assert(dup, seOK, "ShallowestEmpty = first bin without members", "ShallowestEmpty = first bin without members [batch repeated an absent address]")
}

// address generators -----------------------------------------------------

// verifC21gen draws the base and the addresses of a history.
//
//	mode 0: every byte symbolic (base and addresses arbitrary);
//	mode 1: the first byte of the base is the constant 0xA5 and the first byte
//	        of an address is 0xA5 ^ pattern, the pattern chosen (forking, no
//	        solver work) from pats, so that the bin is concrete on every
//	        path; the other four bytes of base and addresses are symbolic
//	        (equalities between addresses stay free).
type verifC21gen struct {
	mode int
	pats []byte
}

func (g verifC21gen) base() []byte {
	b := zzverif.BytesN("base", verifC21alen)
	if g.mode == 1 {
		b[0] = 0xA5
	}
	return b
}

func (g verifC21gen) addr() []byte {
	a := zzverif.BytesN("a", verifC21alen)
	if g.mode == 1 {
		a[0] = 0xA5 ^ g.pats[zzverif.Choose("prox", len(g.pats))]
	}
	return a
}

// patterns for maxBins = 3: proximity 0 (bin 0), proximity 4 (capped into the
// last bin 2), proximity 1 (bin 1), proximity 2 (exactly the last bin)
var verifC21pats = []byte{0x80, 0x08, 0x40, 0x20}

// verifC21step performs one symbolic operation on s and r; returns the number
// of fresh addresses it consumed. *dup is set when a batch contained the same
// absent address twice; *ended when the history has ended (no-op steps follow).
func verifC21step(g verifC21gen, s *PSlice, r *verifC21ref, budget int, dup, ended *bool) int {
	op := zzverif.Choose("op", 5)
	if *ended {
		zzverif.Assume(op == 4)
	}
	switch op {
	case 0: // single add
		zzverif.Assume(budget >= 1)
		a := g.addr()
		s.Add(boson.NewAddress(a))
		r.set(a, true)
		return 1
	case 1: // remove
		zzverif.Assume(budget >= 1)
		a := g.addr()
		s.Remove(boson.NewAddress(a))
		r.set(a, false)
		return 1
	case 2: // batch of two
		zzverif.Assume(budget >= 2)
		a := g.addr()
		b := g.addr()
		if verifC21eq(a, b) && !r.member(a) {
			*dup = true
		}
		s.Add(boson.NewAddress(a), boson.NewAddress(b))
		r.set(a, true)
		r.set(b, true)
		return 2
	case 3: // batch of three
		zzverif.Assume(budget >= 3)
		a := g.addr()
		b := g.addr()
		c := g.addr()
		if (verifC21eq(a, b) || verifC21eq(a, c)) && !r.member(a) {
			*dup = true
		}
		if verifC21eq(b, c) && !r.member(b) {
			*dup = true
		}
		s.Add(boson.NewAddress(a), boson.NewAddress(b), boson.NewAddress(c))
		r.set(a, true)
		r.set(b, true)
		r.set(c, true)
		return 3
	}
	// empty batch: no effect; marks the end of the history
	s.Add()
	*ended = true
	return 0
}

// verifC21history runs a symbolic history; the checks are made once at the
// end: a history may end early (empty batch, then only no-ops), so every
// shorter history, including the empty one, is among those explored.
func verifC21history(g verifC21gen, base []byte, maxBins, steps, budget int) (*PSlice, *verifC21ref, bool) {
	s := New(maxBins, boson.NewAddress(base))
	r := &verifC21ref{}
	return s, r, verifC21continue(g, s, r, steps, budget)
}

// verifC21continue runs a symbolic history on an existing set s with
// reference r; reports whether a batch repeated an absent address.
func verifC21continue(g verifC21gen, s *PSlice, r *verifC21ref, steps, budget int) bool {
	dup, ended := false, false
	for i := 0; i < steps; i++ {
		budget -= verifC21step(g, s, r, budget, &dup, &ended)
	}
	return dup
}

// VerifC21_HistorySym: short histories over completely symbolic base and
// addresses; maxBins 1 and 4 with a universally quantified probe address,
// and (thorough tier) maxBins 32 (= boson.MaxBins) with one address.
func VerifC21_HistorySym() {
	steps := zzverif.Param("steps", 2, 2)
	budget := zzverif.Param("addresses", 2, 3)
	zzverif.Unwind(64)
	maxBins := 1
	probe := true
	switch zzverif.Choose("maxbins", zzverif.Param("maxbins-variants", 2, 3)) {
	case 1:
		maxBins = zzverif.Param("bins", 4, 4)
	case 2:
		maxBins = int(boson.MaxBins)
		budget = 1
		probe = false
	}
	if maxBins == 4 && budget > 2 {
		budget = 2 // three fully symbolic addresses over four bins are too many paths
	}
	g := verifC21gen{mode: 0}
	base := g.base()
	s, r, dup := verifC21history(g, base, maxBins, steps, budget)
	zzverif.Region("C21/batch-repeats-absent-address", dup)
	verifC21check(s, r, base, maxBins, probe, dup)
	zzverif.Reach("C21-history-sym")
}

// VerifC21_HistoryBins: longer histories of single adds, batch adds (2-3
// addresses, duplicates allowed) and removes; addresses with a concrete
// proximity pattern (mode 1) and symbolic remaining bytes; maxBins 3.
func VerifC21_HistoryBins() {
	steps := zzverif.Param("steps", 2, 3)
	budget := zzverif.Param("addresses", 3, 4)
	npat := zzverif.Param("patterns", 2, 2)
	zzverif.Unwind(64)
	g := verifC21gen{mode: 1, pats: verifC21pats[:npat]}
	base := g.base()
	s, r, dup := verifC21history(g, base, 3, steps, budget)
	zzverif.Region("C21/batch-repeats-absent-address", dup)
	verifC21check(s, r, base, 3, false, dup)
	zzverif.Reach("C21-history-bins")
}

// VerifC21_GrownBins: the same content clauses for histories that start from
// a set that was filled by single additions. Single additions grow a bin by
// append, so such a bin has spare capacity behind its length (3 elements in an
// array of 4, 5 in an array of 8), whereas bins built by a batch or rebuilt by
// a removal are exact-size - the only shapes the short histories of
// VerifC21_HistoryBins can reach. The prefix is n single Adds of pairwise
// distinct concrete addresses into one bin (first byte 0xA5^pattern, last
// byte 1..n); it is part of the history (recorded in the reference set) and
// is followed by a symbolic history as in VerifC21_HistoryBins, whose
// addresses are free to equal prefix addresses (re-add, remove, batch that
// mixes members and new addresses).
func VerifC21_GrownBins() {
	steps := zzverif.Param("steps", 1, 2)
	budget := zzverif.Param("addresses", 2, 2)
	npat := zzverif.Param("patterns", 2, 2)
	zzverif.Unwind(64)
	const maxBins = 3
	g := verifC21gen{mode: 1, pats: verifC21pats[:npat]}
	base := g.base()
	s := New(maxBins, boson.NewAddress(base))
	r := &verifC21ref{}
	// 3 elements in an array of 4; thorough tier also 5 in an array of 8
	n := []int{3, 5}[zzverif.Choose("prefix-length", zzverif.Param("prefix-lengths", 1, 2))]
	first := 0xA5 ^ g.pats[zzverif.Choose("prefix-prox", npat)]
	for k := 1; k <= n; k++ {
		a := []byte{first, 0, 0, 0, byte(k)}
		s.Add(boson.NewAddress(a))
		r.set(a, true)
	}
	dup := verifC21continue(g, s, r, steps, budget)
	zzverif.Region("C21/batch-repeats-absent-address", dup)
	verifC21check(s, r, base, maxBins, false, dup)
	zzverif.Reach("C21-grown-bins")
}
