package pslice

import (
	"github.com/gauss-project/aurorafs/pkg/boson"
	"github.com/gauss-project/aurorafs/pkg/zzverif"
)

// verifC21trace: what an iteration callback saw and answered, call by call.
type verifC21trace struct {
	addr [][]byte
	po   []uint8
	stop []bool
	next []bool
}

// VerifC21_Iterate: EachBin (deepest bin first) and EachBinRev (shallowest
// first) over the state reached by a short symbolic history, with a callback
// that answers every call with symbolic stop / jump-to-next-bin flags.
// The trace is compared with the reference set:
//   - only members are visited, each at most once, with po = its bin;
//   - bins are visited in the promised order; after "next" the following call
//     is in a strictly later bin; after "stop" nothing is visited;
//   - unless stopped, every member is visited, except those in a bin that was
//     left through "next" before.
func VerifC21_Iterate() {
	steps := zzverif.Param("steps", 1, 2)
	budget := zzverif.Param("addresses", 3, 3)
	npat := zzverif.Param("patterns", 2, 3)
	zzverif.Unwind(64)
	const maxBins = 3
	g := verifC21gen{mode: 1, pats: verifC21pats[:npat]}
	base := g.base()
	s, r, dup := verifC21history(g, base, maxBins, steps, budget)
	// the iteration clauses are stated for sets; histories that run into the
	// batch-duplicate defect (checked and reported by VerifC21_History*) are left out
	zzverif.Assume(!dup)
	rev := zzverif.Bool("shallowest-first")

	tr := &verifC21trace{}
	cb := func(a boson.Address, po uint8) (bool, bool, error) {
		st := zzverif.Bool("stop")
		nx := zzverif.Bool("next")
		tr.addr = append(tr.addr, a.Bytes())
		tr.po = append(tr.po, po)
		tr.stop = append(tr.stop, st)
		tr.next = append(tr.next, nx)
		return st, nx, nil
	}
	var err error
	if rev {
		err = s.EachBinRev(cb)
	} else {
		err = s.EachBin(cb)
	}
	zzverif.Assert(err == nil, "iteration returns nil when the callback returns no error")

	n := len(tr.addr)
	visitOK, orderOK, ctlOK := true, true, true
	stopped := false
	for i := 0; i < n; i++ {
		if !r.member(tr.addr[i]) || int(tr.po[i]) != verifC21bin(base, tr.addr[i], maxBins) {
			visitOK = false
		}
		for j := 0; j < i; j++ {
			if verifC21eq(tr.addr[j], tr.addr[i]) {
				visitOK = false
			}
		}
		if i > 0 {
			if stopped {
				ctlOK = false // a call after stop
			}
			prev, cur := int(tr.po[i-1]), int(tr.po[i])
			if rev {
				if cur < prev {
					orderOK = false
				}
				if tr.next[i-1] && cur <= prev {
					ctlOK = false
				}
			} else {
				if cur > prev {
					orderOK = false
				}
				if tr.next[i-1] && cur >= prev {
					ctlOK = false
				}
			}
		}
		if tr.stop[i] {
			stopped = true
		}
	}
	zzverif.Assert(visitOK, "iteration visits only members, each once, with po = its bin")
	zzverif.Assert(orderOK, "iteration order by bin (deepest first / shallowest first)")
	zzverif.Assert(ctlOK, "stop ends the iteration, next jumps to the following bin")

	// completeness
	complete := true
	for k := range r.a {
		if !r.in[k] {
			continue
		}
		seen, skipped := false, false
		kbin := verifC21bin(base, r.a[k], maxBins)
		for i := 0; i < n; i++ {
			if verifC21eq(tr.addr[i], r.a[k]) {
				seen = true
			}
			if tr.next[i] && int(tr.po[i]) == kbin {
				skipped = true
			}
		}
		if !seen && !skipped && !stopped {
			complete = false
		}
	}
	zzverif.Assert(complete, "iteration visits every member unless stopped or its bin was skipped")
	zzverif.Reach("C21-iterate")
}

// VerifC21_Snapshot: sequential core of "iteration concurrent with updates":
// EachBin/EachBinRev read a bin slice under the read lock and walk it after
// releasing the lock, so an update must never write an element of a bin slice
// that was visible before the update (copy-on-remove, append-on-add). The
// harness takes the bin slices exactly as an iteration would (s.peers[b]),
// performs one more arbitrary operation and compares the old slices with
// their saved contents. (Race freedom under real schedules is outside.)
func VerifC21_Snapshot() {
	steps := zzverif.Param("steps", 2, 3)
	budget := zzverif.Param("addresses", 2, 3) // for the history before the snapshot
	npat := zzverif.Param("patterns", 2, 2)
	zzverif.Unwind(64)
	const maxBins = 3
	g := verifC21gen{mode: 1, pats: verifC21pats[:npat]}
	base := g.base()
	s, r, _ := verifC21history(g, base, maxBins, steps-1, budget)

	var snap [maxBins][]boson.Address // slice headers an iteration would hold
	var saved [maxBins][][]byte       // their contents now
	for b := 0; b < maxBins; b++ {
		s.mu.RLock()
		snap[b] = s.peers[b]
		s.mu.RUnlock()
		for _, p := range snap[b] {
			saved[b] = append(saved[b], p.Bytes())
		}
	}

	dup, ended := false, false
	// two arbitrary operations while the iteration still holds the slices (e.g.
	// a removal followed by an addition into the same bin)
	verifC21step(g, s, r, 3, &dup, &ended)
	if !ended {
		verifC21step(g, s, r, 2, &dup, &ended)
	}

	same := true
	for b := 0; b < maxBins; b++ {
		for i, p := range snap[b] {
			if !verifC21eq(p.Bytes(), saved[b][i]) {
				same = false
			}
		}
	}
	zzverif.Assert(same, "bin slices visible before an update are not written by it")
	zzverif.Reach("C21-snapshot")
}
