package pslice

import (
	"github.com/gauss-project/aurorafs/pkg/boson"
	"github.com/gauss-project/aurorafs/pkg/zzverif"
)

// verifC21trace: what an iteration callback saw and answered, call by call.
type verifC21trace struct {
	addr [][]byte
	po   []uint8
	stop []bool
	next []bool
}

// VerifC21_Iterate: EachBin (deepest bin first) and EachBinRev (shallowest
// first) over the state reached by a short symbolic history, with a callback
// that answers every call with symbolic stop / jump-to-next-bin flags.
// The trace is compared with the reference set:
//   - only members are visited, each at most once, with po = its bin;
//   - bins are visited in the promised order; after "next" the following call
//     is in a strictly later bin; after "stop" nothing is visited;
//   - unless stopped, every member is visited, except those in a bin that was
//     left through "next" before.
func VerifC21_Iterate() {
	steps := zzverif.Param("steps", 1, 2)
	budget := zzverif.Param("addresses", 3, 3)
	npat := zzverif.Param("patterns", 2, 3)
	zzverif.Unwind(64)
	const maxBins = 3
	g := verifC21gen{mode: 1, pats: verifC21pats[:npat]}
	base := g.base()
	s, r, dup := verifC21history(g, base, maxBins, steps, budget)
	// the iteration clauses are stated for sets; histories that run into the
	// batch-duplicate defect (checked and reported by VerifC21_History*) are left out
	zzverif.Assume(!dup)
	rev := zzverif.Bool("shallowest-first")

	tr := &verifC21trace{}
	cb := func(a boson.Address, po uint8) (bool, bool, error) {
		st := zzverif.Bool("stop")
		nx := zzverif.Bool("next")
		tr.addr = append(tr.addr, a.Bytes())
		tr.po = append(tr.po, po)
		tr.stop = append(tr.stop, st)
		tr.next = append(tr.next, nx)
		return st, nx, nil
	}
	var err error
	if rev {
		err = s.EachBinRev(cb)
	} else {
		err = s.EachBin(cb)
	}
	zzverif.Assert(err == nil, "iteration returns nil when the callback returns no error")

	n := len(tr.addr)
	visitOK, orderOK, ctlOK := true, true, true
	stopped := false
	for i := 0; i < n; i++ {
		if !r.member(tr.addr[i]) || int(tr.po[i]) != verifC21bin(base, tr.addr[i], maxBins) {
			visitOK = false
		}
		for j := 0; j < i; j++ {
			if verifC21eq(tr.addr[j], tr.addr[i]) {
				visitOK = false
			}
		}
		if i > 0 {
			if stopped {
				ctlOK = false // a call after stop
			}
			prev, cur := int(tr.po[i-1]), int(tr.po[i])
			if rev {
				if cur < prev {
					orderOK = false
				}
				if tr.next[i-1] && cur <= prev {
					ctlOK = false
				}
			} else {
				if cur > prev {
					orderOK = false
				}
				if tr.next[i-1] && cur >= prev {
					ctlOK = false
				}
			}
		}
		if tr.stop[i] {
			stopped = true
		}
	}
	zzverif.Assert(visitOK, "iteration visits only members, each once, with po = its bin")
	zzverif.Assert(orderOK, "iteration order by bin (deepest first / shallowest first)")
	zzverif.Assert(ctlOK, "stop ends the iteration, next jumps to the following bin")

	// completeness
	complete := true
	for k := range r.a {
		if !r.in[k] {
			continue
		}
		seen, skipped := false, false
		kbin := verifC21bin(base, r.a[k], maxBins)
		for i := 0; i < n; i++ {
			if verifC21eq(tr.addr[i], r.a[k]) {
				seen = true
			}
			if tr.next[i] && int(tr.po[i]) == kbin {
				skipped = true
			}
		}
		if !seen && !skipped && !stopped {
			complete = false
		}
	}
	zzverif.Assert(complete, "iteration visits every member unless stopped or its bin was skipped")
	zzverif.Reach("C21-iterate")
}

// verifC21snap: one bin slice exactly as an iteration loads it (the slice
// header s.peers[b], taken under the read lock) and its contents at that time.
type verifC21snap struct {
	hdr   []boson.Address
	saved [][]byte
}

// verifC21take appends the non-empty bin slices an iteration starting (or
// reaching its next bin) now would hold.
func verifC21take(s *PSlice, maxBins int, snaps []verifC21snap) []verifC21snap {
	for b := 0; b < maxBins; b++ {
		s.mu.RLock()
		h := s.peers[b]
		s.mu.RUnlock()
		if len(h) == 0 {
			continue
		}
		sn := verifC21snap{hdr: h}
		for _, p := range h {
			sn.saved = append(sn.saved, p.Bytes())
		}
		snaps = append(snaps, sn)
	}
	return snaps
}

// VerifC21_Snapshot: sequential core of "iteration concurrent with updates is
// free of data races": EachBin/EachBinRev read a bin slice under the read lock
// and walk it after releasing the lock, so NO later update may write an
// element of a bin slice that was visible at any earlier time (copy-on-remove,
// append-on-add beyond every length handed out before). The harness runs a
// short symbolic history and, after every operation but the last, takes the
// non-empty bin slices exactly as an iteration would (s.peers[b]) together
// with their contents; at the end of the history every slice taken at any
// time must still show the contents it had when it was taken. An iteration
// that loaded its bin after operation t and is overtaken by the operations
// t+1..n (e.g. a removal followed by an addition into the same bin) is thus
// covered for every t. (A write that stores the value already there is not
// seen; race freedom under real schedules is outside.)
func VerifC21_Snapshot() {
	steps := zzverif.Param("steps", 3, 4)
	budget := zzverif.Param("addresses", 3, 4)
	npat := zzverif.Param("patterns", 2, 2)
	zzverif.Unwind(64)
	const maxBins = 3
	g := verifC21gen{mode: 1, pats: verifC21pats[:npat]}
	base := g.base()
	s := New(maxBins, boson.NewAddress(base))
	r := &verifC21ref{}
	dup, ended := false, false
	var snaps []verifC21snap
	for i := 0; i < steps; i++ {
		budget -= verifC21step(g, s, r, budget, &dup, &ended)
		if !ended && i < steps-1 {
			// (a slice taken after the last operation cannot be overtaken)
			snaps = verifC21take(s, maxBins, snaps)
		}
	}

	same := true
	for _, sn := range snaps {
		for i, p := range sn.hdr {
			if !verifC21eq(p.Bytes(), sn.saved[i]) {
				same = false
			}
		}
	}
	zzverif.Assert(same, "bin slices visible before an update are not written by it")
	zzverif.Reach("C21-snapshot")
}
